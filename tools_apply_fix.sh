#!/bin/sh
# usage: tools_apply_fix.sh <patch> <msgfile>   — applies a proposed fix to /repo as one "fix:" commit after running the lib tests
set -e
cd /repo
git apply "$1"
cargo test --offline --lib 2>&1 | grep "^test result"
git commit -qa -F "$2"
git log --oneline | head -1

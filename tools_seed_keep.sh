#!/bin/bash
# usage: tools_seed_keep.sh <PID> <x> <slug> "<needs>" "<verdict>"  — stores a confirmed seeded change under /verif/seeded/<PID>-<slug>/ and removes the scratch worktree
PID=$1; X=$2; SLUG=$3; NEEDS=$4; VERDICT=$5
D=/verif/seeded/$PID-$SLUG; mkdir -p $D
cp /tmp/seed_${X}_out/patch.diff $D/patch.diff
cp /tmp/seed_${X}_out/seeded_demo.rs $D/ 2>/dev/null || cp /tmp/seed_$X/tests/seeded_demo.rs $D/ 2>/dev/null
cp /tmp/seed_${X}_out/notes.md $D/notes.md 2>/dev/null
python3 - "$PID" "$NEEDS" "$VERDICT" "$D" <<'PY'
import json,sys
pid,needs,verdict,d=sys.argv[1:5]
json.dump({"property":pid,"breaks":pid,"needs_to_manifest":needs,
 "confirmed":"in the scratch worktree: cargo test --offline --lib passes 122/122 with the change; tests/seeded_demo.rs fails with the change and passes without it (tools_seed_eval.sh)",
 "check_result":verdict,"how_to_run":"git -C /repo apply patch.diff; ./check %s; git -C /repo checkout -- ." % pid}, open(d+"/meta.json","w"), indent=1)
PY
git -C /repo worktree remove --force /tmp/seed_$X; rm -rf /tmp/seed_${X}_out
echo kept $D

namespace E3

def natToLE (n : Nat) : List UInt8 :=
  if h : n = 0 then [] else UInt8.ofNat (n % 256) :: natToLE (n / 256)
termination_by n
decreasing_by omega

def leToNat : List UInt8 → Nat
  | [] => 0
  | b :: r => b.toNat + 256 * leToNat r

theorem leToNat_natToLE (n : Nat) : leToNat (natToLE n) = n := by
  induction n using Nat.strongRecOn with
  | _ n ih =>
    unfold natToLE
    split
    · simp [leToNat, *]
    · simp [leToNat, ih (n / 256) (by omega)]; omega

theorem leToNat_append (a b : List UInt8) : leToNat (a ++ b) = leToNat a + 256 ^ a.length * leToNat b := by
  induction a with
  | nil => simp [leToNat]
  | cons x xs ih => simp [leToNat, ih, Nat.pow_succ, Nat.mul_add, Nat.add_assoc]; ac_rfl

/-- the top digit of a non-zero number is non-zero -/
theorem natToLE_last (n : Nat) (hn : n ≠ 0) : ∃ init d, natToLE n = init ++ [d] ∧ d ≠ 0 := by
  induction n using Nat.strongRecOn with
  | _ n ih =>
    unfold natToLE
    simp [hn]
    by_cases hq : n / 256 = 0
    · refine ⟨[], UInt8.ofNat (n % 256), ?_, ?_⟩
      · simp [natToLE, hq]
      · intro hc; have := congrArg UInt8.toNat hc; simp at this; omega
    · obtain ⟨init, d, h1, h2⟩ := ih (n / 256) (by omega) hq
      exact ⟨UInt8.ofNat (n % 256) :: init, d, by simp [h1], h2⟩

-- byte facts (exhaustive over 256 values, kernel-checked)
theorem or80_fin : ∀ i : Fin 256, i.val < 128 →
    ((UInt8.ofNat i.val) ||| 0x80).toNat = i.val + 128 := by decide +kernel
theorem or80 (d : UInt8) (h : d.toNat < 128) : (d ||| 0x80).toNat = d.toNat + 128 := by
  have := or80_fin ⟨d.toNat, d.toNat_lt⟩ h; simpa using this
theorem and7f (d : UInt8) : (d &&& 0x7f).toNat = d.toNat % 128 := by
  simp [UInt8.toNat_and]; exact Nat.and_two_pow_sub_one_eq_mod d.toNat 7

def clearSign (b : UInt8) : UInt8 := b &&& 0x7f
def setSign (b : UInt8) : UInt8 := b ||| 0x80
theorem clearSign_toNat (b : UInt8) : (clearSign b).toNat = b.toNat % 128 := and7f b
theorem setSign_toNat (b : UInt8) (h : b.toNat < 128) : (setSign b).toNat = b.toNat + 128 := or80 b h

def magBytes (n : Nat) : List UInt8 := if n = 0 then [0] else natToLE n

def encodeBig (z : Int) : List UInt8 :=
  let m := magBytes z.natAbs
  let last := m.getLast?.getD 0
  let r :=
    if last.toNat ≥ 128 then m ++ [if z < 0 then (0x80 : UInt8) else 0x00]
    else if z < 0 then m.dropLast ++ [setSign last] else m
  if r = [0] then [] else r

def decodeBig (s : List UInt8) : Int :=
  match s.getLast? with
  | none => 0
  | some last =>
    let mag := leToNat (s.dropLast ++ [clearSign last])
    if last.toNat ≥ 128 then - (mag : Int) else (mag : Int)

theorem leToNat_snoc (init : List UInt8) (d : UInt8) :
    leToNat (init ++ [d]) = leToNat init + 256 ^ init.length * d.toNat := by
  simp [leToNat_append, leToNat]

theorem decodeBig_snoc (init : List UInt8) (d : UInt8) :
    decodeBig (init ++ [d]) =
      if d.toNat ≥ 128 then - ((leToNat init + 256 ^ init.length * (d.toNat % 128) : Nat) : Int)
      else ((leToNat init + 256 ^ init.length * (d.toNat % 128) : Nat) : Int) := by
  simp [decodeBig, leToNat_snoc, clearSign_toNat]

theorem decode_encode (z : Int) : decodeBig (encodeBig z) = z := by
  by_cases hz : z = 0
  · subst hz; simp [encodeBig, magBytes, decodeBig]
  · have hn : z.natAbs ≠ 0 := by omega
    obtain ⟨init, d, hm, hd⟩ := natToLE_last z.natAbs hn
    have hval : leToNat init + 256 ^ init.length * d.toNat = z.natAbs := by
      rw [← leToNat_snoc, ← hm, leToNat_natToLE]
    have hdpos : d.toNat ≠ 0 := by
      intro hc; apply hd; exact UInt8.toNat_inj.mp (by simpa using hc)
    have hdlt := d.toNat_lt
    unfold encodeBig
    simp only [magBytes, hn, if_false, hm, List.getLast?_append, List.getLast?_singleton,
      Option.getD_some, List.dropLast_concat]
    simp only [Option.some_or, Option.getD_some]
    by_cases hbig : d.toNat ≥ 128
    · simp only [hbig, if_true]
      have hne : ¬ (init ++ [d] ++ [if z < 0 then (0x80 : UInt8) else 0x00] = [0]) := by
        intro hc; have := congrArg List.length hc; simp at this
      simp only [hne, if_false]
      rw [decodeBig_snoc]
      by_cases hneg : z < 0
      · simp [hneg, leToNat_snoc, hval]; omega
      · simp [hneg, leToNat_snoc, hval]; omega
    · simp only [hbig, if_false]
      by_cases hneg : z < 0
      · simp only [hneg, if_true]
        have hor := setSign_toNat d (by omega)
        have hne : ¬ (init ++ [setSign d] = [0]) := by
          intro hc
          cases init with
          | nil => simp at hc; have := congrArg UInt8.toNat hc; simp [hor] at this
          | cons a as => have := congrArg List.length hc; simp at this
        simp only [hne, if_false]
        rw [decodeBig_snoc]
        have h1 : (setSign d).toNat ≥ 128 := by omega
        have h2 : (setSign d).toNat % 128 = d.toNat := by omega
        rw [if_pos h1, h2, hval]; omega
      · simp only [hneg, if_false]
        have hne : ¬ (init ++ [d] = [0]) := by
          intro hc
          cases init with
          | nil => simp at hc; exact hd hc
          | cons a as => have := congrArg List.length hc; simp at this
        simp only [hne, if_false]
        rw [decodeBig_snoc]
        have h2 : d.toNat % 128 = d.toNat := by omega
        rw [if_neg hbig, h2, hval]; omega

#print axioms decode_encode
end E3

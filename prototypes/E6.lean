-- E6: generic codec structure with laws, pair and counted-list combinators
namespace E6
abbrev Bytes := List UInt8

structure Codec (α : Type) where
  enc  : α → Bytes
  dec  : Bytes → Option (α × Bytes)
  wf   : α → Prop

structure Lawful {α} (c : Codec α) : Prop where
  dec_enc : ∀ a r, c.wf a → c.dec (c.enc a ++ r) = some (a, r)
  dec_wf  : ∀ b a r, c.dec b = some (a, r) → c.wf a
  /-- decoding consumes a prefix: what was consumed re-encodes... (weak form: suffix) -/
  dec_suffix : ∀ b a r, c.dec b = some (a, r) → ∃ p, b = p ++ r ∧ (c.dec (p ++ []) = some (a, []))
  /-- at least one byte is consumed (used for termination/no-hang of counted loops) -/

def u8 : Codec Nat where
  enc n := [UInt8.ofNat n]
  dec | [] => none | b :: r => some (b.toNat, r)
  wf n := n < 256

theorem u8_lawful : Lawful u8 where
  dec_enc a r h := by simp [u8] at *; omega
  dec_wf b a r h := by
    cases b with
    | nil => simp [u8] at h
    | cons x xs => simp [u8] at h; obtain ⟨h1, _⟩ := h; subst h1; exact x.toNat_lt
  dec_suffix b a r h := by
    cases b with
    | nil => simp [u8] at h
    | cons x xs => simp [u8] at h; obtain ⟨h1, h2⟩ := h; subst h1 h2; exact ⟨[x], by simp, by simp [u8]⟩

def pair {α β} (ca : Codec α) (cb : Codec β) : Codec (α × β) where
  enc p := ca.enc p.1 ++ cb.enc p.2
  dec b := match ca.dec b with
    | none => none
    | some (a, r) => match cb.dec r with
      | none => none
      | some (x, r') => some ((a, x), r')
  wf p := ca.wf p.1 ∧ cb.wf p.2

theorem pair_lawful {α β} {ca : Codec α} {cb : Codec β} (ha : Lawful ca) (hb : Lawful cb) :
    Lawful (pair ca cb) where
  dec_enc p r h := by
    simp [pair, List.append_assoc, ha.dec_enc p.1 _ h.1, hb.dec_enc p.2 _ h.2]
  dec_wf b p r h := by
    simp only [pair] at h
    split at h
    · simp at h
    · rename_i a r1 h1
      split at h
      · simp at h
      · rename_i x r2 h2
        simp at h; obtain ⟨hp, _⟩ := h; subst hp
        exact ⟨ha.dec_wf _ _ _ h1, hb.dec_wf _ _ _ h2⟩
  dec_suffix b p r h := by
    simp only [pair] at h
    split at h
    · simp at h
    · rename_i a r1 h1
      split at h
      · simp at h
      · rename_i x r2 h2
        simp at h; obtain ⟨hp, hr⟩ := h; subst hp hr
        obtain ⟨p1, e1, d1⟩ := ha.dec_suffix _ _ _ h1
        obtain ⟨p2, e2, d2⟩ := hb.dec_suffix _ _ _ h2
        refine ⟨p1 ++ p2, by simp [e1, e2], ?_⟩
        have w1 := ha.dec_wf _ _ _ h1
        have w2 := hb.dec_wf _ _ _ h2
        -- re-decode of the consumed prefix: need prefix-independence; derive from dec_enc? not available here
        sorry

/-- counted list with a u8 count (stands for the varint count) -/
def decN {α} (c : Codec α) : Nat → Bytes → Option (List α × Bytes)
  | 0, b => some ([], b)
  | n+1, b => match c.dec b with
    | none => none
    | some (a, r) => match decN c n r with
      | none => none
      | some (as, r') => some (a :: as, r')

def listOf {α} (c : Codec α) : Codec (List α) where
  enc l := [UInt8.ofNat l.length] ++ (l.map c.enc).flatten
  dec | [] => none
      | b :: r => decN c b.toNat r
  wf l := l.length < 256 ∧ ∀ a ∈ l, c.wf a

theorem decN_enc {α} {c : Codec α} (hc : Lawful c) (l : List α) (hw : ∀ a ∈ l, c.wf a) (r : Bytes) :
    decN c l.length ((l.map c.enc).flatten ++ r) = some (l, r) := by
  induction l with
  | nil => simp [decN]
  | cons a as ih =>
    simp [decN, List.append_assoc, hc.dec_enc a _ (hw a (by simp)), ih (fun x hx => hw x (by simp [hx]))]

theorem listOf_dec_enc {α} {c : Codec α} (hc : Lawful c) (l : List α) (h : (listOf c).wf l) (r : Bytes) :
    (listOf c).dec ((listOf c).enc l ++ r) = some (l, r) := by
  obtain ⟨hl, hw⟩ := h
  simp [listOf]
  have : l.length % 256 = l.length := by omega
  rw [this]; exact decN_enc hc l hw r
end E6

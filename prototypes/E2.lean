namespace E2
inductive Out | ok (st : List (List UInt8)) | err | panic
deriving DecidableEq, Repr

def nextOp (i : Nat) (s : List UInt8) : Nat :=
  match s[i]? with
  | none => s.length
  | some b => if 1 ≤ b.toNat ∧ b.toNat ≤ 75 then min (i + 1 + b.toNat) s.length else i + 1

def truthy (x : List UInt8) : Bool := x.any (· != 0)

def run (genesis : Bool) : Nat → Nat → List UInt8 → List (List UInt8) → Out
  | 0, _, _, st => .ok st   -- out of fuel (never with fuel = len+1)
  | fuel+1, i, s, st =>
    match s[i]? with
    | none => .ok st
    | some b =>
      if b = 0x51 then run genesis fuel (i+1) s (st ++ [[1]])
      else if b = 0x00 then run genesis fuel (i+1) s (st ++ [[]])
      else if 1 ≤ b.toNat ∧ b.toNat ≤ 75 then
        if i + 1 + b.toNat > s.length then .err
        else run genesis fuel (i + 1 + b.toNat) s (st ++ [(s.drop (i+1)).take b.toNat])
      else if b = 0x4c then
        match s[i+1]? with
        | none => .err
        | some l => if i + 2 + l.toNat > s.length then .err
                    else run genesis fuel (i + 2 + l.toNat) s (st ++ [(s.drop (i+2)).take l.toNat])
      else if b = 0x6a then (if genesis then .ok st else .err)
      else if b = 0x76 then
        match st.getLast? with
        | none => .err
        | some t => run genesis fuel (i+1) s (st ++ [t])
      else if b = 0xab then run genesis fuel (i+1) s st
      else .err

def accept (genesis : Bool) (s : List UInt8) : Bool :=
  match run genesis (s.length + 1) 0 s [] with
  | .ok st => match st.getLast? with | some t => truthy t | none => false
  | _ => false

def p2pkhLock : List UInt8 := [0x76, 0xa9, 0x14] ++ List.replicate 20 7 ++ [0x88, 0xac]

-- the two bypasses, as kernel-checked facts about the (toy) concatenated-evaluation model
theorem bypass_return : accept true ([0x51, 0x6a] ++ [0xab] ++ p2pkhLock) = true := by decide
theorem bypass_swallow : accept false ([0x51, 0x4c, 26] ++ [0xab] ++ p2pkhLock) = true := by decide
#print axioms bypass_swallow
end E2

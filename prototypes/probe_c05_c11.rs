mod atomic_reader;
use atomic_reader::AtomicReader;
use chain_gang::messages::*;
use chain_gang::script::Script;
use chain_gang::util::{Hash256, BloomFilter, Serializable, ChainGangError};
use std::io::{self, Cursor, Read};
use std::net::Ipv6Addr;

struct Rng(u64);
impl Rng { fn next(&mut self)->u64{ self.0 = self.0.wrapping_add(0x9E3779B97F4A7C15); let mut z=self.0; z=(z^(z>>30)).wrapping_mul(0xBF58476D1CE4E5B9); z=(z^(z>>27)).wrapping_mul(0x94D049BB133111EB); z^(z>>31)}
  fn below(&mut self,n:u64)->u64{ self.next()%n } fn bytes(&mut self,n:usize)->Vec<u8>{ (0..n).map(|_| self.next() as u8).collect() }
  fn len(&mut self)->usize{ let pool=[0,1,2,75,76,252,253,254,255,256,300]; pool[self.below(pool.len() as u64) as usize] }
  fn h(&mut self)->Hash256{ let mut a=[0u8;32]; for b in a.iter_mut(){*b=self.next() as u8;} Hash256(a)} 
  fn s(&mut self)->String{ let n=self.len(); (0..n).map(|_| (b'a'+ (self.below(26) as u8)) as char).collect() } }

fn tx(r:&mut Rng)->Tx{ Tx{version:r.next() as u32, inputs:(0..r.below(4)).map(|_| TxIn{prev_output:OutPoint{hash:r.h(),index:r.next() as u32}, unlock_script:Script({let n=r.len(); r.bytes(n)}), sequence:r.next() as u32}).collect(), outputs:(0..r.below(4)).map(|_| TxOut{satoshis:r.below(1000) as i64, lock_script:Script({let n=r.len(); r.bytes(n)})}).collect(), lock_time:r.next() as u32} }
fn hdr(r:&mut Rng)->BlockHeader{ BlockHeader{version:r.next() as u32, prev_hash:r.h(), merkle_root:r.h(), timestamp:r.next() as u32, bits:r.next() as u32, nonce:r.next() as u32} }
fn na(r:&mut Rng)->NodeAddr{ let mut ip=[0u8;16]; for b in ip.iter_mut(){*b=r.next() as u8;} NodeAddr{services:r.next(), ip:Ipv6Addr::from(ip), port:r.next() as u16} }
fn vtx(r:&mut Rng)->Tx{ let mut t=tx(r); if t.inputs.is_empty(){ t.inputs.push(TxIn{prev_output:OutPoint{hash:r.h(),index:1},unlock_script:Script(vec![]),sequence:0}); } if t.outputs.is_empty(){ t.outputs.push(TxOut{satoshis:1,lock_script:Script(vec![])}); } t }

fn gen(r:&mut Rng, k:u64)->Message{
  match k {
    0=>Message::Addr(Addr{addrs:(0..r.below(5)).map(|_| NodeAddrEx{last_connected_time:r.next() as u32, addr:na(r)}).collect()}),
    1=>Message::Block(Block{header:hdr(r), txns:(0..r.below(3)).map(|_| tx(r)).collect()}),
    2=>Message::FeeFilter(FeeFilter{minfee:r.next()}),
    3=>Message::FilterAdd(FilterAdd{data:{let n=r.len().min(520); r.bytes(n)}}),
    4=>Message::FilterClear, 5=>Message::GetAddr, 6=>Message::Mempool, 7=>Message::SendHeaders, 8=>Message::Verack, 9=>Message::SendAddrV2,
    10=>Message::FilterLoad(FilterLoad{bloom_filter:BloomFilter{filter:{let n=r.len(); r.bytes(n)}, num_hash_funcs:r.below(51) as usize, tweak:r.next() as u32}, flags:r.next() as u8}),
    11=>Message::GetBlocks(BlockLocator{version:r.next() as u32, block_locator_hashes:(0..r.below(4)).map(|_| r.h()).collect(), hash_stop:r.h()}),
    12=>Message::GetHeaders(BlockLocator{version:r.next() as u32, block_locator_hashes:(0..r.below(4)).map(|_| r.h()).collect(), hash_stop:r.h()}),
    13=>Message::GetData(Inv{objects:(0..r.below(5)).map(|_| InvVect{obj_type:r.next() as u32, hash:r.h()}).collect()}),
    14=>Message::Inv(Inv{objects:(0..r.below(300)).map(|_| InvVect{obj_type:r.next() as u32, hash:r.h()}).collect()}),
    15=>Message::NotFound(Inv{objects:(0..r.below(5)).map(|_| InvVect{obj_type:r.next() as u32, hash:r.h()}).collect()}),
    16=>Message::Headers(Headers{headers:(0..r.below(5)).map(|_| hdr(r)).collect()}),
    17=>Message::MerkleBlock(MerkleBlock{header:hdr(r), total_transactions:r.next() as u32, hashes:(0..r.below(5)).map(|_| r.h()).collect(), flags:{let n=r.len(); r.bytes(n)}}),
    18=>Message::Ping(Ping{nonce:r.next()}), 19=>Message::Pong(Ping{nonce:r.next()}),
    20=>{ let m = ["block","tx","x",""][r.below(4) as usize].to_string(); let data = if m=="block"||m=="tx" { r.bytes(32) } else { vec![] }; Message::Reject(Reject{message:m, code:r.next() as u8, reason:r.s(), data}) },
    21=>Message::SendCmpct(SendCmpct{enable:r.next() as u8, version:r.next()}),
    22=>Message::Tx(tx(r)),
    23=>Message::Version(Version{version:70001 + r.below(100) as u32, services:r.next(), timestamp:r.next() as i64, recv_addr:na(r), tx_addr:na(r), nonce:r.next(), user_agent:r.s(), start_height:r.next() as i32, relay:r.below(2)==1, association_id:{let n=[0usize,1,17,255][r.below(4) as usize]; r.bytes(n)}}),
    24=>{ let v = 1 + r.below(2); Message::Protoconf(serde_hack_protoconf(v, 1_048_576 + r.below(1000) as u32, if v>1 {Some(r.s())} else {None})) },
    25=>{ let m = {let n=r.len(); r.bytes(n)}; Message::Authch(Authch{version:1, message_length:m.len() as u32, message:m}) },
    26=>Message::Createstrm(Createstrm{association_id:{let n=[1usize,17,255][r.below(3) as usize]; r.bytes(n)}, stream_type:1 + r.below(4) as u8, stream_policy:r.s()}),
    27=>Message::Streamack(Streamack{association_id:{let n=[1usize,17,255][r.below(3) as usize]; r.bytes(n)}, stream_type:1 + r.below(4) as u8}),
    28=>Message::Getblocktxn(Getblocktxn{blockhash:r.h(), indexes:(0..r.below(5)).map(|_| [0u64,252,253,65535,65536,u32::MAX as u64, u64::MAX][r.below(7) as usize]).collect()}),
    29=>Message::Blocktxn(Blocktxn{blockhash:r.h(), transactions:(0..r.below(3)).map(|_| tx(r)).collect()}),
    _=>{ let mut c = Cmpctblock::default(); c.header=hdr(r); c.nonce=r.next(); c.shortids=(0..r.below(4)).map(|_| r.bytes(6)).collect(); let n = r.below(3); let mut v = Vec::new(); for _ in 0..n { v.push(vtx(r)); } set_prefilled(&mut c, v, r); Message::Cmpctblock(c) }
  }
}
fn serde_hack_protoconf(version:u64, max:u32, pol:Option<String>)->Protoconf{ Protoconf{version, max_recv_payload_length:max, stream_policies:pol} }
fn set_prefilled(c:&mut Cmpctblock, txs:Vec<Tx>, r:&mut Rng){ 
  // PrefilledTransaction type is not exported; build through decode of encoded form
  let mut bytes=Vec::new(); c.write(&mut bytes).unwrap(); // has 0 prefilled -> last byte is varint 0
  bytes.pop(); bytes.push(txs.len() as u8);
  for t in txs { let idx=[0u64,5,253][r.below(3) as usize]; if idx<=252 {bytes.push(idx as u8);} else { bytes.push(0xfd); bytes.push(253u8); bytes.push(0);} t.write(&mut bytes).unwrap(); }
  *c = Cmpctblock::read(&mut Cursor::new(&bytes)).unwrap();
}

struct Frag<'a>{ data:&'a [u8], pos:usize, sched:Vec<usize>, k:usize, wouldblock:bool }
impl<'a> Read for Frag<'a>{ fn read(&mut self, out:&mut [u8])->io::Result<usize>{
  if self.pos>=self.data.len(){ return Ok(0); }
  let a = if self.k < self.sched.len(){ self.sched[self.k] } else { usize::MAX }; self.k+=1;
  if a==0 { return Err(io::Error::new(if self.wouldblock {io::ErrorKind::WouldBlock} else {io::ErrorKind::TimedOut}, "t")); }
  let n = a.min(out.len()).min(self.data.len()-self.pos); out[..n].copy_from_slice(&self.data[self.pos..self.pos+n]); self.pos+=n; Ok(n) } }

fn recv_all(stream:&[u8], sched:Vec<usize>, magic:[u8;4], wb:bool)->(Vec<Message>, String){
  let mut f = Frag{data:stream,pos:0,sched,k:0,wouldblock:wb};
  let mut ar = AtomicReader::new(&mut f);
  let mut partial: Option<MessageHeader> = None; let mut out=vec![]; let mut iters=0;
  loop { iters+=1; if iters>1_000_000 { return (out,"HANG".into()); }
    let m = match &partial { Some(h)=>Message::read_partial(&mut ar,h), None=>Message::read(&mut ar, magic) };
    match m { Ok(Message::Partial(h))=>{partial=Some(h);} Ok(m)=>{partial=None; out.push(m);} 
      Err(e)=>{ if let ChainGangError::IoError(ref e)=e { if e.kind()==io::ErrorKind::TimedOut||e.kind()==io::ErrorKind::WouldBlock { continue; } } return (out, format!("{:?}",e).chars().take(60).collect()); } } }
}

fn main(){
  std::panic::set_hook(Box::new(|_| {}));
  let mut r=Rng(42); let magic=[0xe3,0xe1,0xf3,0xe8];
  let mut bad=0; let mut n=0; let mut first=String::new();
  for i in 0..6000u64 { let k=i%31; let m=gen(&mut r,k); n+=1;
    let mut v=Vec::new(); if let Err(e)=m.write(&mut v,magic){ bad+=1; if first.is_empty(){first=format!("write err kind {} {:?}",k,e);} continue; }
    let hdr = MessageHeader::read(&mut Cursor::new(&v)).unwrap();
    let ok_len = hdr.payload_size as usize == v.len()-24;
    let back = std::panic::catch_unwind(|| Message::read(&mut Cursor::new(&v), magic));
    let good = match back { Ok(Ok(ref b)) => *b==m, _=>false };
    // fixpoint
    let mut v2=Vec::new(); let fix = match back { Ok(Ok(ref b)) => { b.write(&mut v2,magic).is_ok() && v2==v }, _=>false };
    if !(ok_len&&good&&fix){ bad+=1; if first.is_empty(){ first=format!("kind {} len_ok {} eq {} fix {} : {:?}", k, ok_len, good, fix, back.map(|x| x.map(|_| ()).map_err(|e| format!("{:?}",e)))); } }
  }
  println!("C05 probe: {} messages, {} bad, first: {}", n, bad, first);
  // C11: fragmentation
  let mut total=0; let mut badf=0; let mut firstf=String::new();
  for round in 0..300u64 { let cnt=1+r.below(4); let msgs:Vec<Message>=(0..cnt).map(|_| { let k=r.below(31); gen(&mut r,k) }).collect();
    let mut stream=Vec::new(); for m in &msgs { m.write(&mut stream,magic).unwrap(); }
    let cut_tail = if round%3==0 && stream.len()>30 { r.below(23) as usize + 1 } else { 0 };
    let full_len=stream.len(); let s = &stream[..full_len - cut_tail];
    let expect: Vec<Message> = if cut_tail==0 { msgs.clone() } else { msgs[..msgs.len()-1].to_vec() };
    for variant in 0..40 { let sched:Vec<usize> = match variant { 0=>vec![], 1=>vec![1;s.len()*2+5], _=> (0..s.len()*3+10).map(|_| { let x=r.below(10); if x<3 {0} else if x<6 {1+r.below(3) as usize} else {1+r.below(200) as usize} }).collect() };
      // ensure enough nonzero entries: append ones
      let mut sched=sched; if variant!=0 { sched.extend(std::iter::repeat(7).take(s.len()+5)); }
      let (got,end)=recv_all(s,sched,magic, variant%2==0); total+=1;
      if got!=expect || !end.contains("NotConnected") { badf+=1; if firstf.is_empty(){ firstf=format!("round {} variant {} got {} exp {} end {}", round, variant, got.len(), expect.len(), end); } } } }
  println!("C11 probe: {} runs, {} bad, first: {}", total, badf, firstf);
}

theorem or80_fin : ∀ i : Fin 256, i.val < 128 → ((UInt8.ofNat i.val) ||| 0x80).toNat = i.val + 128 := by decide +kernel
theorem or80 (d : UInt8) (h : d.toNat < 128) : (d ||| 0x80).toNat = d.toNat + 128 := by
  have := or80_fin ⟨d.toNat, d.toNat_lt⟩ h
  simpa using this
theorem two_bytes : ∀ i j : Fin 256, ((UInt8.ofNat i.val) &&& (UInt8.ofNat j.val)).toNat ≤ i.val := by decide +kernel
#print axioms or80
#print axioms two_bytes

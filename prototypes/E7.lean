-- E7: AtomicReader model, transport with a schedule, and the stream invariant
namespace E7
abbrev Bytes := List UInt8

structure Transport where
  data  : Bytes          -- bytes not yet handed out
  sched : List Nat       -- per-call allowance; 0 = timeout

inductive RR | ok (bs : Bytes) | timedOut | eof
deriving DecidableEq

/-- inner `read(buf)` with `cap = buf.len()` -/
def Transport.read (t : Transport) (cap : Nat) : RR × Transport :=
  match t.data with
  | [] => (.eof, t)
  | _ =>
    match t.sched with
    | [] => (.ok (t.data.take cap), { t with data := t.data.drop cap })   -- schedule exhausted: unlimited
    | 0 :: s => (.timedOut, { t with sched := s })
    | a :: s =>
      let n := min a cap
      (.ok (t.data.take n), { data := t.data.drop n, sched := s })

inductive AR | full (bs : Bytes) | timedOut | disconnected
deriving DecidableEq

/-- AtomicReader::read(out) with out.len() = n; `buf` is the retained buffer. Mirrors the three branches. -/
def aread (buf : Bytes) (t : Transport) (n : Nat) : AR × Bytes × Transport :=
  if buf.length ≥ n then
    (.full (buf.take n), buf.drop n, t)
  else
    match t.read (n - buf.length) with
    | (.eof, t') => (.disconnected, buf, t')
    | (.timedOut, t') => (.timedOut, buf, t')
    | (.ok bs, t') =>
      if bs.length = 0 then (.disconnected, buf, t')
      else if buf.length + bs.length < n then (.timedOut, buf ++ bs, t')
      else (.full (buf ++ bs), [], t')

/-- the unread stream as seen through the reader -/
def pending (buf : Bytes) (t : Transport) : Bytes := buf ++ t.data

theorem read_ok {t : Transport} {cap : Nat} {bs t'} (h : t.read cap = (.ok bs, t')) :
    bs ++ t'.data = t.data ∧ bs.length ≤ cap := by
  unfold Transport.read at h
  cases hd : t.data with
  | nil => simp [hd] at h
  | cons x xs =>
    simp only [hd] at h
    cases hs : t.sched with
    | nil => simp [hs] at h; obtain ⟨h1, h2⟩ := h; subst h1 h2; simp [List.length_take]; omega
    | cons a s =>
      cases a with
      | zero => simp [hs] at h
      | succ k => simp [hs] at h; obtain ⟨h1, h2⟩ := h; subst h1 h2; simp [List.length_take]; omega

theorem read_keeps {t : Transport} {cap : Nat} {r t'} (h : t.read cap = (r, t')) (hr : ∀ bs, r ≠ .ok bs) : t'.data = t.data := by
  unfold Transport.read at h
  cases hd : t.data with
  | nil => simp [hd] at h; obtain ⟨h1, h2⟩ := h; subst h1 h2; simp [hd]
  | cons x xs =>
    simp only [hd] at h
    cases hs : t.sched with
    | nil => simp [hs] at h; obtain ⟨h1, h2⟩ := h; subst h1; exact absurd rfl (hr _)
    | cons a s =>
      cases a with
      | zero => simp [hs] at h; obtain ⟨h1, h2⟩ := h; subst h1 h2; simp
      | succ k => simp [hs] at h; obtain ⟨h1, h2⟩ := h; subst h1; exact absurd rfl (hr _)

theorem aread_full {buf t n bs buf' t'} (h : aread buf t n = (.full bs, buf', t')) :
    bs.length = n ∧ bs ++ pending buf' t' = pending buf t := by
  unfold aread at h
  split at h
  · rename_i hge
    simp at h; obtain ⟨h1, h2, h3⟩ := h; subst h1 h2 h3
    refine ⟨by simp [List.length_take]; omega, by simp [pending, ← List.append_assoc]⟩
  · cases hr : t.read (n - buf.length) with
    | mk r t2 =>
      rw [hr] at h
      cases r with
      | eof => simp at h
      | timedOut => simp at h
      | ok b =>
        have ⟨e1, e2⟩ := read_ok hr
        simp only at h
        split at h
        · simp at h
        · split at h
          · simp at h
          · simp at h; obtain ⟨h1, h2, h3⟩ := h; subst h1 h2 h3
            refine ⟨by simp; omega, by simp [pending, ← e1]⟩

theorem aread_not_full {buf t n r buf' t'} (h : aread buf t n = (r, buf', t')) (hr : ∀ bs, r ≠ .full bs) :
    pending buf' t' = pending buf t := by
  unfold aread at h
  split at h
  · simp at h; exact absurd h.1.symm (hr _)
  · cases hrd : t.read (n - buf.length) with
    | mk rr t2 =>
      rw [hrd] at h
      cases rr with
      | eof => simp at h; obtain ⟨_, h2, h3⟩ := h; subst h2 h3; simp [pending, read_keeps hrd (by simp)]
      | timedOut => simp at h; obtain ⟨_, h2, h3⟩ := h; subst h2 h3; simp [pending, read_keeps hrd (by simp)]
      | ok b =>
        have ⟨e1, e2⟩ := read_ok hrd
        simp only at h
        split at h
        · rename_i hb
          simp at h; obtain ⟨_, h2, h3⟩ := h; subst h2 h3
          have : b = [] := List.length_eq_zero_iff.mp hb
          subst this; simp [pending, ← e1]
        · split at h
          · simp at h; obtain ⟨_, h2, h3⟩ := h; subst h2 h3; simp [pending, ← e1]
          · simp at h; exact absurd h.1.symm (hr _)
end E7

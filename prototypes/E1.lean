-- E1: u32 little-endian codec round trip with Nat + omega
namespace E1
def encU32 (x : Nat) : List UInt8 :=
  [UInt8.ofNat (x % 256), UInt8.ofNat (x / 256 % 256), UInt8.ofNat (x / 65536 % 256), UInt8.ofNat (x / 16777216 % 256)]

def decU32 : List UInt8 → Option (Nat × List UInt8)
  | b0 :: b1 :: b2 :: b3 :: r => some (b0.toNat + 256 * b1.toNat + 65536 * b2.toNat + 16777216 * b3.toNat, r)
  | _ => none

theorem dec_enc (x : Nat) (h : x < 4294967296) (r : List UInt8) : decU32 (encU32 x ++ r) = some (x, r) := by
  simp [encU32, decU32]
  omega

theorem dec_wf (b : List UInt8) (x : Nat) (r : List UInt8) (h : decU32 b = some (x, r)) : x < 4294967296 := by
  match b, h with
  | b0 :: b1 :: b2 :: b3 :: r', h =>
    simp [decU32] at h
    have := b0.toNat_lt; have := b1.toNat_lt; have := b2.toNat_lt; have := b3.toNat_lt
    omega

-- varint
def encVar (n : Nat) : List UInt8 :=
  if n ≤ 252 then [UInt8.ofNat n]
  else if n ≤ 65535 then [0xfd, UInt8.ofNat (n % 256), UInt8.ofNat (n / 256 % 256)]
  else if n ≤ 4294967295 then 0xfe :: encU32 n
  else 0xff :: (encU32 (n % 4294967296) ++ encU32 (n / 4294967296))

def decVar : List UInt8 → Option (Nat × List UInt8)
  | [] => none
  | b :: r =>
    if b = 0xff then
      match decU32 r with
      | some (lo, r1) => match decU32 r1 with
        | some (hi, r2) => some (lo + 4294967296 * hi, r2)
        | none => none
      | none => none
    else if b = 0xfe then decU32 r
    else if b = 0xfd then
      match r with
      | b0 :: b1 :: r' => some (b0.toNat + 256 * b1.toNat, r')
      | _ => none
    else some (b.toNat, r)

theorem decVar_encVar (n : Nat) (h : n < 18446744073709551616) (r : List UInt8) :
    decVar (encVar n ++ r) = some (n, r) := by
  unfold encVar
  split
  · simp [decVar]
    have h1 : UInt8.ofNat n ≠ 255 := by
      intro hc; have := congrArg UInt8.toNat hc; simp at this; omega
    have h2 : UInt8.ofNat n ≠ 254 := by
      intro hc; have := congrArg UInt8.toNat hc; simp at this; omega
    have h3 : UInt8.ofNat n ≠ 253 := by
      intro hc; have := congrArg UInt8.toNat hc; simp at this; omega
    simp [h1, h2, h3]; omega
  · split
    · simp [decVar]; omega
    · split
      · simp [decVar, dec_enc n (by omega)]
      · have hlo := dec_enc (n % 4294967296) (by omega) (encU32 (n / 4294967296) ++ r)
        have hhi := dec_enc (n / 4294967296) (by omega) r
        simp [decVar, List.append_assoc, hlo, hhi]; omega
end E1

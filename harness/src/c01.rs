//! C01 — script evaluation agrees with the reference stack-machine semantics.
use crate::rng::Rng;
use crate::scriptgen::*;
use crate::util::*;

/// opcode names in the fixed order shared with CG/Props/C01.lean (`expectedOpcodes`)
pub const OP_NAMES: [&str; 118] = [
    "OP_0","OP_FALSE","OP_PUSH","OP_PUSHDATA1","OP_PUSHDATA2","OP_PUSHDATA4","OP_1NEGATE","OP_1","OP_TRUE","OP_2","OP_3","OP_4","OP_5","OP_6","OP_7","OP_8","OP_9","OP_10","OP_11","OP_12","OP_13","OP_14","OP_15","OP_16",
    "OP_NOP","OP_IF","OP_NOTIF","OP_ELSE","OP_ENDIF","OP_VERIFY","OP_RETURN","OP_TOALTSTACK","OP_FROMALTSTACK","OP_IFDUP","OP_DEPTH","OP_DROP","OP_DUP","OP_NIP","OP_OVER","OP_PICK","OP_ROLL","OP_ROT","OP_SWAP","OP_TUCK",
    "OP_2DROP","OP_2DUP","OP_3DUP","OP_2OVER","OP_2ROT","OP_2SWAP","OP_CAT","OP_SPLIT","OP_SIZE","OP_AND","OP_OR","OP_XOR","OP_INVERT","OP_LSHIFT","OP_RSHIFT","OP_EQUAL","OP_EQUALVERIFY",
    "OP_1ADD","OP_1SUB","OP_NEGATE","OP_ABS","OP_NOT","OP_0NOTEQUAL","OP_ADD","OP_SUB","OP_MUL","OP_2MUL","OP_DIV","OP_2DIV","OP_MOD","OP_BOOLAND","OP_BOOLOR","OP_NUMEQUAL","OP_NUMEQUALVERIFY","OP_NUMNOTEQUAL",
    "OP_LESSTHAN","OP_GREATERTHAN","OP_LESSTHANOREQUAL","OP_GREATERTHANOREQUAL","OP_MIN","OP_MAX","OP_WITHIN","OP_NUM2BIN","OP_BIN2NUM","OP_RIPEMD160","OP_SHA1","OP_SHA256","OP_HASH160","OP_HASH256",
    "OP_CODESEPARATOR","OP_CHECKSIG","OP_CHECKSIGVERIFY","OP_CHECKMULTISIG","OP_CHECKMULTISIGVERIFY","OP_CHECKLOCKTIMEVERIFY","OP_CHECKSEQUENCEVERIFY",
    "OP_NOP1","OP_NOP4","OP_NOP5","OP_NOP6","OP_NOP7","OP_NOP8","OP_NOP9","OP_NOP10",
    "OP_RESERVED","OP_VER","OP_VERIF","OP_VERNOTIF","OP_RESERVED1","OP_RESERVED2","OP_NOP2","OP_NOP3","OP_INVALIDOPCODE","OP_PUBKEYHASH",
];

/// strict line grammar for `src/script/op_codes.rs`: `pub const NAME: u8 = N;` / `pub(crate) const NAME: u8 = N;`
pub fn opcode_table() -> Vec<(String, u64)> {
    let path = format!("{}/src/script/op_codes.rs", env!("CG_REPO"));
    let src = std::fs::read_to_string(&path).unwrap_or_default();
    let mut t = vec![];
    for line in src.lines() {
        let l = line.trim();
        let rest = if let Some(r) = l.strip_prefix("pub const ") { r } else if let Some(r) = l.strip_prefix("pub(crate) const ") { r } else { continue };
        let mut it = rest.split(": u8 = ");
        if let (Some(name), Some(v)) = (it.next(), it.next()) {
            let v = v.trim_end_matches(';').trim();
            let val = if let Some(h) = v.strip_prefix("0x") { u64::from_str_radix(h, 16).ok() } else { v.parse().ok() };
            if let Some(val) = val { t.push((name.to_string(), val)); }
        }
    }
    t
}

pub fn tables(w: &mut dyn std::io::Write) {
    let t = opcode_table();
    // value 999 marks a name the source does not define (the Lean obligation then fails unless expected)
    let vals: Vec<String> = OP_NAMES.iter().map(|n| t.iter().find(|(k, _)| k == n).map(|(_, v)| v.to_string()).unwrap_or("999".into())).collect();
    writeln!(w, "LIST OPCODE_VALUES {}", vals.join(" ")).unwrap();
    // cross-check the public constants against what the crate compiles to
    use chain_gang::script::op_codes as o;
    writeln!(w, "LIST OPCODE_PUBLIC_SAMPLE {} {} {} {} {} {} {} {}", o::OP_ADD, o::OP_CHECKSIG, o::OP_IF, o::OP_ENDIF, o::OP_NUM2BIN, o::OP_PUSHDATA4, o::OP_RETURN, o::OP_CHECKSEQUENCEVERIFY).unwrap();
}

pub fn exec(op: &str, a: &[&str]) -> Option<String> {
    match op {
        "c01.eval" => Some(exec_eval(a)),
        "c01.verdict" => Some(exec_verdict(a)),
        _ => None,
    }
}

/// OP_NUM2BIN allocates its size operand (up to 2 GiB): the harness memory cap excludes enumerated
/// sequences in which NUM2BIN can see a large number (any push of 3+ bytes in the sequence).
fn memcap_skip(parts: &[&Vec<u8>]) -> bool {
    parts.iter().any(|p| p.len() == 1 && p[0] == 128) && parts.iter().any(|p| p.len() >= 4)
}

/// count results at the edges of the number encoding: OP_SIZE of items of boundary lengths and OP_DEPTH on boundary depths
/// (a count whose top magnitude byte is exactly 0x80 needs a separate sign byte: 128, 32768, ...)
/// integer literals of the interpreter sources (and their neighbours) as operands of the index / count / size opcodes, as
/// item lengths and as stack depths
fn harvested(out: &mut Vec<String>) {
    let vals = crate::harvest::ints(&["script/interpreter.rs", "script/stack.rs", "script/mod.rs"], 1 << 32);
    for v in vals.iter() {
        let n = enc_num(*v as i128);
        for op in [0x79u8, 0x7a, 0x7f, 0x98, 0x99, 0x8b, 0x8c, 0x8f, 0x91] {           // PICK ROLL SPLIT LSHIFT RSHIFT 1ADD 1SUB NEGATE NOT
            let mut sc = vec![0x51, 0x52, 0x03, 0xaa, 0xbb, 0xcc];
            push_with(&mut sc, &n, 0); sc.push(op);
            out.push(eval_req("c01", &sc, (*v % 2) as u32, None, None, "~", "~", "t:t:t"));
        }
        if *v <= 70_000 { let mut sc = vec![]; push_with(&mut sc, &vec![0x33u8; *v as usize], 0); sc.push(0x82); out.push(eval_req("c01", &sc, 0, None, None, "~", "~", "t:t:t")); }
        if *v <= 1_100 { let mut sc: Vec<u8> = (0..*v).map(|i| 0x51 + (i % 16) as u8).collect(); sc.push(0x74); out.push(eval_req("c01", &sc, 0, None, None, "~", "~", "t:t:t")); }
    }
}

fn count_edges(out: &mut Vec<String>) {
    for len in [0usize, 1, 75, 76, 127, 128, 129, 255, 256, 257, 32767, 32768, 32769, 33023, 33024, 65535, 65536] {
        let mut sc = vec![];
        push_with(&mut sc, &vec![0x5au8; len], 0);
        sc.push(0x82);                                  // OP_SIZE
        for flags in [0u32, 1] { out.push(eval_req("c01", &sc, flags, None, None, "~", "~", "t:t:t")); }
        let mut sc2 = sc.clone(); sc2.extend_from_slice(&[0x8b, 0x8c]);      // OP_1ADD OP_1SUB on the count
        out.push(eval_req("c01", &sc2, 0, None, None, "~", "~", "t:t:t"));
    }
    for depth in [0usize, 1, 16, 17, 126, 127, 128, 129, 255, 256, 257] {
        let mut sc = vec![];
        for i in 0..depth { sc.push(0x51 + (i % 16) as u8); }
        sc.push(0x74);                                  // OP_DEPTH
        for flags in [0u32, 1] { out.push(eval_req("c01", &sc, flags, None, None, "~", "~", "t:t:t")); }
    }
}

pub fn gen(tier: &str, rng: &mut Rng, out: &mut Vec<String>) {
    count_edges(out);
    harvested(out);
    let thorough = tier == "thorough";
    // (a) grammar scripts, both rule sets
    let n = if thorough { 200_000 } else { 12_000 };
    for k in 0..n {
        let len = 1 + (k % 14);
        let g = gen_script(rng, len);
        let flags = if rng.chance(1, 3) { 1 } else if rng.chance(1, 20) { rng.next() as u32 } else { 0 };
        out.push(eval_req("c01", &g.script, flags, None, None, "~", "~", &g.oracle));
        if k % 4 == 0 { out.push(format!("c01.verdict {} {} {}", hexd(&g.script), flags, g.oracle)); }
    }
    // (b) bounded-exhaustive: all sequences of length <= 2, and length 3 (quick: push push op + sampled; thorough: all)
    let alpha = alphabet();
    let np = boundary_pushes().len();
    let orc = "tf:t:p";
    for a in &alpha { out.push(eval_req("c01", a, 0, None, None, "~", "~", orc)); out.push(eval_req("c01", a, 1, None, None, "~", "~", orc)); }
    for a in &alpha { for b in &alpha { if memcap_skip(&[a, b]) { continue; } let s = [a.clone(), b.clone()].concat(); out.push(eval_req("c01", &s, (s.len() % 2) as u32, None, None, "~", "~", orc)); } }
    for (ia, a) in alpha.iter().enumerate() { for (ib, b) in alpha.iter().enumerate() { for c in &alpha {
        let pp = ia < np && ib < np;
        if !(thorough || pp || rng.chance(1, 40)) { continue; }
        if memcap_skip(&[a, b, c]) { continue; }
        let s = [a.clone(), b.clone(), c.clone()].concat();
        out.push(eval_req("c01", &s, rng.below(2) as u32, None, None, "~", "~", orc));
    } } }
    // (c) three boundary pushes followed by every opcode (ternary opcodes, ROT, WITHIN ...)
    let bp = boundary_pushes();
    for a in &bp { for b in &bp { for c in &bp { for o in 79u8..=185 {
        if !thorough && !rng.chance(1, 6) { continue; }
        if o == 128 && (a.len() >= 3 || b.len() >= 3 || c.len() >= 3) { continue; }
        let mut s = vec![]; push_with(&mut s, a, 0); push_with(&mut s, b, 0); push_with(&mut s, c, 0); s.push(o);
        out.push(eval_req("c01", &s, 0, None, None, "~", "~", orc));
    } } } }
}

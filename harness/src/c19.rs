//! C19 — block header hashing, proof-of-work and timestamp validation.
use crate::rng::Rng;
use crate::util::*;
use chain_gang::messages::{header_hash, BlockHeader};
use chain_gang::util::Hash256;

fn h256(b: &[u8]) -> Hash256 { let mut a = [0u8; 32]; a.copy_from_slice(b); Hash256(a) }

#[allow(unused_imports)]
use std::io::Write as _;
pub fn tables(w: &mut dyn std::io::Write) {
    // the genesis block and hash each network declares (src/network/network.rs), as naturals:
    // [version, timestamp, bits, nonce] ++ prev_hash(32) ++ merkle_root(32) ++ genesis_hash(32) ++ serialised transactions
    use chain_gang::network::Network;
    use chain_gang::util::Serializable;
    let nets = [Network::BSV_Mainnet, Network::BSV_Testnet, Network::BSV_STN, Network::BTC_Mainnet, Network::BTC_Testnet, Network::BCH_Mainnet, Network::BCH_Testnet];
    for (i, n) in nets.iter().enumerate() {
        let b = n.genesis_block();
        let mut v: Vec<u64> = vec![b.header.version as u64, b.header.timestamp as u64, b.header.bits as u64, b.header.nonce as u64];
        v.extend(b.header.prev_hash.0.iter().map(|x| *x as u64));
        v.extend(b.header.merkle_root.0.iter().map(|x| *x as u64));
        v.extend(n.genesis_hash().0.iter().map(|x| *x as u64));
        v.push(b.txns.len() as u64);
        for t in &b.txns { let mut bytes = Vec::new(); t.write(&mut bytes).unwrap(); v.extend(bytes.iter().map(|x| *x as u64)); }
        writeln!(w, "LIST C19_GENESIS_{} {}", i, v.iter().map(|x| x.to_string()).collect::<Vec<_>>().join(" ")).unwrap();
    }
}

pub fn exec(op: &str, a: &[&str]) -> Option<String> {
    match op {
        // c19.validate <ts> <bits> <hash hex> <prev timestamps>
        "c19.validate" => {
            let ts: u32 = a[0].parse().unwrap();
            let bits: u32 = a[1].parse().unwrap();
            let hash = h256(&unhexd(a[2]));
            let prev: Vec<BlockHeader> = list_u64(a[3]).iter().map(|t| BlockHeader { timestamp: *t as u32, ..Default::default() }).collect();
            let h = BlockHeader { timestamp: ts, bits, ..Default::default() };
            Some(match h.validate(&hash, &prev) { Ok(()) => "ok".into(), Err(e) => err_class(&e) })
        }
        // c19.hexenc <32 bytes>: Hash256::encode ; c19.hexdec <utf-8 bytes of the string>: Hash256::decode
        "c19.hexenc" => Some(format!("ok:{}", h256(&unhexd(a[0])).encode())),
        "c19.hexdec" => {
            let Ok(s) = String::from_utf8(unhexd(a[0])) else { return Some("bad-request".into()) };
            Some(match chain_gang::util::Hash256::decode(&s) { Ok(h) => format!("ok:{}", hexd(&h.0)), Err(e) => err_class(&e) })
        }
        // c19.cmp <a hex> <b hex>
        "c19.cmp" => {
            let x = h256(&unhexd(a[0])); let y = h256(&unhexd(a[1]));
            let c = match x.cmp(&y) { std::cmp::Ordering::Less => "lt", std::cmp::Ordering::Equal => "eq", std::cmp::Ordering::Greater => "gt" };
            // the derived operators must agree with cmp
            let ops = format!("{}{}{}{}", (x < y) as u8, (x <= y) as u8, (x > y) as u8, (x >= y) as u8);
            Some(format!("{}:{}", c, ops))
        }
        // c19.hash <version> <prev hex> <merkle hex> <ts> <bits> <nonce>
        "c19.hash" => {
            let h = BlockHeader { version: a[0].parse().unwrap(), prev_hash: h256(&unhexd(a[1])), merkle_root: h256(&unhexd(a[2])),
                timestamp: a[3].parse().unwrap(), bits: a[4].parse().unwrap(), nonce: a[5].parse().unwrap() };
            let mut ser = Vec::new();
            use chain_gang::util::Serializable;
            h.write(&mut ser).unwrap();
            let hh = h.hash();
            let via_headers = header_hash(1, &[h.clone(), h.clone()]).map(|x| x.0.to_vec()).unwrap_or_default();
            Some(format!("{}:{}:{}", hexd(&ser), hexd(&hh.0), (via_headers == hh.0.to_vec()) as u8))
        }
        _ => None,
    }
}

fn boundary_u32(rng: &mut Rng) -> u32 {
    match rng.below(6) { 0 => 0, 1 => 1, 2 => u32::MAX, 3 => u32::MAX - 1, 4 => 0x7fff_ffff, _ => rng.next() as u32 }
}

/// 32-byte value m * 256^(e-3) + delta (little-endian), clipped to 256 bits; returns None if negative.
fn target_plus(bits: u32, delta: i32) -> Vec<u8> {
    let exp = (bits >> 24) as usize; let m = (bits & 0xff_ffff) as u64;
    let mut v = vec![0u8; 40];
    if exp >= 3 && exp <= 35 { v[exp - 3] = m as u8; v[exp - 2] = (m >> 8) as u8; v[exp - 1] = (m >> 16) as u8; }
    // add delta as multi-byte arithmetic
    if delta > 0 { let mut c = delta as u32; for b in v.iter_mut() { let s = *b as u32 + (c & 0xff); *b = s as u8; c = (c >> 8) + (s >> 8); if c == 0 { break; } } }
    if delta < 0 {
        let mut borrow = (-delta) as i64; 
        for b in v.iter_mut() { let s = *b as i64 - (borrow & 0xff); borrow >>= 8; if s < 0 { *b = (s + 256) as u8; borrow += 1; } else { *b = s as u8; } if borrow == 0 { break; } }
        if borrow != 0 { return vec![0u8; 32]; }
    }
    v.truncate(32); v
}

/// the text form of hashes: random and boundary hashes; strings of every length 0..=70 and 126..=130, lower / upper / mixed
/// case, one character replaced by a non-digit (ASCII, multi-byte UTF-8), whitespace around a valid string
fn gen_text(thorough: bool, rng: &mut Rng, out: &mut Vec<String>) {
    for k in 0..(if thorough { 2000 } else { 200 }) {
        let h: Vec<u8> = match k { 0 => vec![0; 32], 1 => vec![0xff; 32], 2 => (0..32).collect(), _ => rng.bytes(32) };
        out.push(format!("c19.hexenc {}", hexd(&h)));
        let enc: String = h.iter().rev().map(|b| format!("{:02x}", b)).collect();
        let up = enc.to_uppercase();
        let mixed: String = enc.chars().enumerate().map(|(i, c)| if i % 3 == 0 { c.to_ascii_uppercase() } else { c }).collect();
        for s in [enc.clone(), up, mixed] { out.push(format!("c19.hexdec {}", hexd(s.as_bytes()))); }
        let pos = rng.below(64) as usize;
        for bad in ["g", "G", " ", "\n", "x", "/", ":", "@", "`", "\u{e9}", "\u{20ac}", "\u{1f600}", "\u{ff10}"] {
            let mut t: Vec<char> = enc.chars().collect(); let b: Vec<char> = bad.chars().collect(); t[pos] = b[0];
            let t: String = t.into_iter().collect();
            out.push(format!("c19.hexdec {}", hexd(t.as_bytes())));
        }
        for (pre, post) in [(" ", ""), ("", " "), ("", "\n"), ("0x", ""), ("", "00"), ("0", "")] { out.push(format!("c19.hexdec {}", hexd(format!("{}{}{}", pre, enc, post).as_bytes()))); }
    }
    // strings of EXACTLY 64 bytes in which a multi-byte character starts at every offset (a decoder that slices the text two
    // bytes at a time must not cut a character), and sign characters that integer parsers accept
    for (ch, w) in [('\u{e9}', 2usize), ('\u{20ac}', 3), ('\u{1f600}', 4)] {
        for k in 0..=(64 - w) {
            let mut t = String::new();
            for i in 0..k { t.push(char::from_digit((i % 16) as u32, 16).unwrap()); }
            t.push(ch);
            while t.len() < 64 { t.push('a'); }
            out.push(format!("c19.hexdec {}", hexd(t.as_bytes())));
        }
    }
    for sign in ['+', '-', '_'] { for k in [0usize, 1, 2, 31, 62, 63] {
        let mut t: Vec<char> = "0123456789abcdef".repeat(4).chars().collect(); t[k] = sign;
        let t: String = t.into_iter().collect();
        out.push(format!("c19.hexdec {}", hexd(t.as_bytes())));
    } }
    for len in (0..=70usize).chain(126..=130) {
        let s: String = (0..len).map(|_| *rng.pick(&['0', '1', '9', 'a', 'f', 'A', 'F', '7'])).collect();
        out.push(format!("c19.hexdec {}", hexd(s.as_bytes())));
    }
}

pub fn gen(tier: &str, rng: &mut Rng, out: &mut Vec<String>) {
    gen_text(tier == "thorough", &mut rng.fork(), out);
    let thorough = tier == "thorough";
    // (a) every exponent 0..=255 x boundary mantissas x hash at target-1, target, target+1, random
    let mants: [u32; 8] = [0, 1, 0xff, 0x100, 0xffff, 0x10000, 0x7fffff, 0x123456];
    for exp in 0u32..=255 {
        for (mi, m) in mants.iter().enumerate() {
            if !thorough && exp > 40 && mi > 1 { continue; }
            let bits = (exp << 24) | m;
            for d in [-1i32, 0, 1] {
                let hash = target_plus(bits, d);
                out.push(format!("c19.validate {} {} {} -", boundary_u32(rng), bits, hexd(&hash)));
            }
            let hash = rng.bytes(32);
            out.push(format!("c19.validate {} {} {} -", boundary_u32(rng), bits, hexd(&hash)));
        }
    }
    // (b) previous-header lists of length 0..15 (and a few long ones), candidate below/at/above the median
    let n_lists = if thorough { 6000 } else { 600 };
    for i in 0..n_lists {
        let len = if i % 50 == 49 { rng.range(16, 40) } else { rng.range(0, 15) } as usize;
        let small = rng.chance(1, 2);
        let mut tsl: Vec<u64> = (0..len).map(|_| if small { rng.range(0, 6) } else if rng.chance(1, 8) { boundary_u32(rng) as u64 } else { rng.range(1_000_000, 1_000_040) }).collect();
        if rng.chance(1, 4) && len > 2 { let v = tsl[0]; for j in 0..len / 2 { tsl[j * 2] = v; } } // duplicates
        let window: Vec<u64> = { let k = tsl.len().min(11); let mut w = tsl[tsl.len() - k..].to_vec(); w.sort(); w };
        let med = if window.is_empty() { 5 } else { window[window.len() / 2] };
        let bits = 0x207f_ffffu32; // exp 32, large mantissa: POW passes for small hashes
        for cand in [med.saturating_sub(1), med, (med + 1).min(u32::MAX as u64), boundary_u32(rng) as u64] {
            let hash = if rng.chance(1, 10) { rng.bytes(32) } else { let mut h = vec![0u8; 32]; h[0] = rng.byte(); h };
            let b = if rng.chance(1, 12) { (rng.range(0, 40) as u32) << 24 | 0x00ffff } else { bits };
            out.push(format!("c19.validate {} {} {} {}", cand, b, hexd(&hash), fmt_list(&tsl)));
        }
    }
    // (c) ordering: equal, adjacent, differing in one byte at each position, random
    let n_cmp = if thorough { 20000 } else { 2000 };
    for i in 0..n_cmp {
        let a = if rng.chance(1, 5) { let mut z = vec![0u8; 32]; z[rng.below(32) as usize] = rng.byte(); z } else { rng.bytes(32) };
        let mut b = a.clone();
        match i % 4 { 0 => {}, 1 => { let p = rng.below(32) as usize; b[p] = b[p].wrapping_add(1); }, 2 => { let p = rng.below(32) as usize; b[p] = rng.byte(); let q = rng.below(32) as usize; b[q] = rng.byte(); }, _ => { b = rng.bytes(32); } }
        out.push(format!("c19.cmp {} {}", hexd(&a), hexd(&b)));
    }
    // (d) header hash = sha256d of the 80-byte serialisation
    let n_h = if thorough { 5000 } else { 500 };
    for _ in 0..n_h {
        out.push(format!("c19.hash {} {} {} {} {} {}", boundary_u32(rng), hexd(&rng.bytes(32)), hexd(&rng.bytes(32)), boundary_u32(rng), boundary_u32(rng), boundary_u32(rng)));
    }
    // (d') runs of RELATED headers hashed one after the other (the requests of a run are executed in order on one thread): the
    // same header twice, then headers that differ from their predecessor in exactly one field or one byte of a hash field - a
    // hash that is not a function of its own 80 bytes alone (anything remembered from the previous call) shows up here
    for _ in 0..(if thorough { 400 } else { 40 }) {
        let (mut ver, mut prev, mut root, mut ts, mut bits, mut nonce) = (boundary_u32(rng), rng.bytes(32), rng.bytes(32), boundary_u32(rng), boundary_u32(rng), boundary_u32(rng));
        for step in 0..14 {
            out.push(format!("c19.hash {} {} {} {} {} {}", ver, hexd(&prev), hexd(&root), ts, bits, nonce));
            match step % 7 { 0 => {}, 1 => { let p = rng.below(28) as usize; root[p] ^= 1 << rng.below(8); }, 2 => { root[28 + rng.below(4) as usize] ^= 0x10; }, 3 => { nonce = nonce.wrapping_add(1); },
                4 => { ts = ts.wrapping_add(600); }, 5 => { let p = rng.below(32) as usize; prev[p] = prev[p].wrapping_add(1); }, _ => { if rng.chance(1, 2) { bits ^= 1; } else { ver = ver.wrapping_add(1); } } }
        }
    }
}

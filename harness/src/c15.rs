//! C15 — serialisation through writers that accept partial writes.
//!
//! Request lines (both ops carry the same fields):
//!   c15.w     <kind> <ref hex> <trace> <sched> <open|closed|full>
//!   c15.calls <kind> <ref hex> <trace> <sched> <open|closed|full>
//! kind  = `msg` (a whole `Message`, `Message::write(w, magic)`; magic = first 4 bytes of ref) or a
//!         standalone serialisable type (`hash256`, `tx`, `block`, … — see `decode`);
//! ref   = the encoding of the value in a memory buffer; `exec` decodes the value from it, so a
//!         request line is self-contained (the comparison is always against a FRESH in-memory
//!         encoding of that value, never against the text of the request);
//! trace = requested length of each `write` call on an unlimited writer (for the Lean replay only);
//! sched = per-call acceptance schedule: items `k` or `kxN`; k >= 1 = at most k bytes accepted by
//!         that call, 0 = the call returns ErrorKind::Interrupted; after the schedule the writer
//!         accepts everything (`open`), fails with BrokenPipe (`closed`) or returns Ok(0) (`full`).
//! Outcomes: c15.w     → ok:same | ok:dropped:<delivered>/<total> | ok:differs | err:Io<Kind>:<delivered>
//!           c15.calls → <ok|err:Io<Kind>>:<number of raw calls>:<sum of requested lengths>:<checksum>
use crate::rng::Rng;
use crate::util::*;
use chain_gang::messages::*;
use chain_gang::script::Script;
use chain_gang::util::verif_hooks::{var_int_read, var_int_write};
use chain_gang::util::{sha256d, BloomFilter, Hash256, Serializable};
use chain_gang::wallet::ExtendedKey;
use std::io::{self, Cursor, Write};
use std::net::Ipv6Addr;

pub fn tables(_w: &mut dyn Write) {}

const MAGIC: [u8; 4] = [0xe3, 0xe1, 0xf3, 0xe8];
type Ser = Box<dyn Fn(&mut dyn Write) -> io::Result<()>>;

// ---------------------------------------------------------------- writers

/// Unlimited writer that records the requested length of every call.
struct Tracer { buf: Vec<u8>, calls: Vec<usize> }
impl Write for Tracer {
    fn write(&mut self, b: &[u8]) -> io::Result<usize> { self.calls.push(b.len()); self.buf.extend_from_slice(b); Ok(b.len()) }
    fn flush(&mut self) -> io::Result<()> { Ok(()) }
}

#[derive(Clone, Copy, PartialEq)]
enum Tail { Open, Closed, Full }

/// Writer that accepts a scripted number of bytes per call. Only `write` is implemented: `write_all`
/// and everything built on it are the standard library's.
struct Limited { sched: Vec<(u64, u64)>, item: usize, used: u64, tail: Tail, buf: Vec<u8>, calls: Vec<usize> }
impl Limited {
    fn new(sched: Vec<(u64, u64)>, tail: Tail) -> Limited { Limited { sched, item: 0, used: 0, tail, buf: Vec::new(), calls: Vec::new() } }
    fn next_entry(&mut self) -> Option<u64> {
        while self.item < self.sched.len() {
            let (k, n) = self.sched[self.item];
            if self.used < n { self.used += 1; return Some(k); }
            self.item += 1; self.used = 0;
        }
        None
    }
}
impl Write for Limited {
    fn write(&mut self, b: &[u8]) -> io::Result<usize> {
        self.calls.push(b.len());
        match self.next_entry() {
            None => match self.tail {
                Tail::Open => { self.buf.extend_from_slice(b); Ok(b.len()) }
                Tail::Closed => Err(io::Error::new(io::ErrorKind::BrokenPipe, "closed")),
                Tail::Full => Ok(0),
            },
            Some(0) => Err(io::Error::new(io::ErrorKind::Interrupted, "interrupted")),
            Some(k) => { let n = (k as usize).min(b.len()); self.buf.extend_from_slice(&b[..n]); Ok(n) }
        }
    }
    /// gathered writes are honoured across buffers like a socket's writev (std's default would forward only the first
    /// non-empty buffer and hide mistakes in hand-written progress accounting)
    fn write_vectored(&mut self, bufs: &[io::IoSlice<'_>]) -> io::Result<usize> {
        let all: Vec<u8> = bufs.iter().flat_map(|b| b.iter().copied()).collect();
        self.write(&all)
    }
    fn flush(&mut self) -> io::Result<()> { Ok(()) }
}

fn parse_sched(s: &str) -> Vec<(u64, u64)> {
    if s == "-" { return vec![]; }
    s.split(',').map(|it| { let mut p = it.split('x'); let k: u64 = p.next().unwrap().parse().expect("bad schedule"); let n: u64 = p.next().map(|x| x.parse().expect("bad schedule")).unwrap_or(1); (k, n) }).collect()
}
fn parse_tail(s: &str) -> Tail { match s { "open" => Tail::Open, "closed" => Tail::Closed, "full" => Tail::Full, _ => panic!("bad tail") } }

// ---------------------------------------------------------------- decoding a request's value

fn ser<T: Serializable<T> + 'static>(b: &[u8]) -> Result<Ser, String> {
    let mut c = Cursor::new(b);
    let v = T::read(&mut c).map_err(|e| err_class(&e))?;
    if c.position() as usize != b.len() { return Err("err:trailing".into()); }
    Ok(Box::new(move |w: &mut dyn Write| v.write(w)))
}

const KINDS: &[&str] = &["hash256", "bytes16", "bytes32", "bloomfilter", "extkey", "block", "headers", "txin", "txout", "nodeaddrex",
    "blocktxn", "invvect", "getblocktxn", "version", "authch", "protoconf", "filterload", "ping", "blocklocator", "addr", "nodeaddr",
    "merkleblock", "streamack", "createstrm", "reject", "msgheader", "inv", "tx", "filteradd", "sendcmpct", "outpoint", "blockheader",
    "cmpctblock", "feefilter", "varint"];

fn decode(kind: &str, b: &[u8]) -> Result<Ser, String> {
    match kind {
        "msg" => {
            if b.len() < 4 { return Err("err:short".into()); }
            let magic = [b[0], b[1], b[2], b[3]];
            let mut c = Cursor::new(b);
            let m = Message::read(&mut c, magic).map_err(|e| err_class(&e))?;
            if c.position() as usize != b.len() { return Err("err:trailing".into()); }
            Ok(Box::new(move |w: &mut dyn Write| m.write(w, magic)))
        }
        "varint" => { let n = var_int_read(&mut Cursor::new(b)).map_err(|e| io_err_class(&e))?; Ok(Box::new(move |w: &mut dyn Write| var_int_write(n, w))) }
        "hash256" => ser::<Hash256>(b), "bytes16" => ser::<[u8; 16]>(b), "bytes32" => ser::<[u8; 32]>(b),
        "bloomfilter" => ser::<BloomFilter>(b), "extkey" => ser::<ExtendedKey>(b), "block" => ser::<Block>(b),
        "headers" => ser::<Headers>(b), "txin" => ser::<TxIn>(b), "txout" => ser::<TxOut>(b), "nodeaddrex" => ser::<NodeAddrEx>(b),
        "blocktxn" => ser::<Blocktxn>(b), "invvect" => ser::<InvVect>(b), "getblocktxn" => ser::<Getblocktxn>(b),
        "version" => ser::<Version>(b), "authch" => ser::<Authch>(b), "protoconf" => ser::<Protoconf>(b),
        "filterload" => ser::<FilterLoad>(b), "ping" => ser::<Ping>(b), "blocklocator" => ser::<BlockLocator>(b),
        "addr" => ser::<Addr>(b), "nodeaddr" => ser::<NodeAddr>(b), "merkleblock" => ser::<MerkleBlock>(b),
        "streamack" => ser::<Streamack>(b), "createstrm" => ser::<Createstrm>(b), "reject" => ser::<Reject>(b),
        "msgheader" => ser::<MessageHeader>(b), "inv" => ser::<Inv>(b), "tx" => ser::<Tx>(b), "filteradd" => ser::<FilterAdd>(b),
        "sendcmpct" => ser::<SendCmpct>(b), "outpoint" => ser::<OutPoint>(b), "blockheader" => ser::<BlockHeader>(b),
        "cmpctblock" => ser::<Cmpctblock>(b), "feefilter" => ser::<FeeFilter>(b),
        _ => Err(format!("err:unknown-kind:{}", kind)),
    }
}

// ---------------------------------------------------------------- exec

fn chk(calls: &[usize]) -> u64 { calls.iter().fold(7u64, |a, x| (a * 31 + *x as u64) % 4294967296) }

pub fn exec(op: &str, a: &[&str]) -> Option<String> {
    if op != "c15.w" && op != "c15.calls" { return None; }
    let refb = unhexd(a[1]);
    let s = match decode(a[0], &refb) { Ok(s) => s, Err(e) => return Some(format!("err:decode:{}", e)) };
    // reference: a memory buffer
    let mut mem: Vec<u8> = Vec::new();
    if let Err(e) = s(&mut mem) { return Some(format!("err:reference:{}", io_err_class(&e))); }
    let mut lim = Limited::new(parse_sched(a[3]), parse_tail(a[4]));
    let r = s(&mut lim);
    if op == "c15.calls" {
        let c = match &r { Ok(()) => "ok".to_string(), Err(e) => io_err_class(e) };
        return Some(format!("{}:{}:{}:{}", c, lim.calls.len(), lim.calls.iter().sum::<usize>(), chk(&lim.calls)));
    }
    Some(match r {
        Ok(()) => {
            if lim.buf == mem { "ok:same".into() }
            else if lim.buf.len() == mem.len() { "ok:differs".into() }
            else { format!("ok:dropped:{}/{}", lim.buf.len(), mem.len()) }
        }
        Err(e) => {
            if mem.starts_with(&lim.buf) { format!("{}:{}", io_err_class(&e), lim.buf.len()) } else { format!("{}:notprefix", io_err_class(&e)) }
        }
    })
}

// ---------------------------------------------------------------- value generators

fn rlen(r: &mut Rng) -> usize { *r.pick(&[0usize, 1, 2, 75, 76, 252, 253, 254, 255, 256, 300]) }
fn rh(r: &mut Rng) -> Hash256 { let mut a = [0u8; 32]; for b in a.iter_mut() { *b = r.byte(); } Hash256(a) }
fn rs(r: &mut Rng) -> String { let n = rlen(r); (0..n).map(|_| (b'a' + r.below(26) as u8) as char).collect() }
fn rbytes(r: &mut Rng) -> Vec<u8> { let n = rlen(r); r.bytes(n) }
/// list length: `big` = sometimes on either side of the 1-byte/3-byte varint boundary, else 0..small; otherwise 1..small
fn rcount(r: &mut Rng, small: u64, big: bool) -> u64 { if big { if r.chance(1, 3) { *r.pick(&[252u64, 253, 254]) } else { r.below(small + 1) } } else { 1 + r.below(small) } }

fn outpoint(r: &mut Rng) -> OutPoint { OutPoint { hash: rh(r), index: r.next() as u32 } }
fn txin(r: &mut Rng) -> TxIn { TxIn { prev_output: outpoint(r), unlock_script: Script(rbytes(r)), sequence: r.next() as u32 } }
fn txout(r: &mut Rng) -> TxOut { TxOut { satoshis: r.below(1000) as i64, lock_script: Script(rbytes(r)) } }
fn tx(r: &mut Rng) -> Tx { Tx { version: r.next() as u32, inputs: (0..r.below(4)).map(|_| txin(r)).collect(), outputs: (0..r.below(4)).map(|_| txout(r)).collect(), lock_time: r.next() as u32 } }
fn vtx(r: &mut Rng) -> Tx {
    let mut t = tx(r);
    if t.inputs.is_empty() { t.inputs.push(TxIn { prev_output: OutPoint { hash: rh(r), index: 1 }, unlock_script: Script(vec![]), sequence: 0 }); }
    if t.outputs.is_empty() { t.outputs.push(TxOut { satoshis: 1, lock_script: Script(vec![]) }); }
    t
}
fn hdr(r: &mut Rng) -> BlockHeader { BlockHeader { version: r.next() as u32, prev_hash: rh(r), merkle_root: rh(r), timestamp: r.next() as u32, bits: r.next() as u32, nonce: r.next() as u32 } }
fn na(r: &mut Rng) -> NodeAddr { let mut ip = [0u8; 16]; for b in ip.iter_mut() { *b = r.byte(); } NodeAddr { services: r.next(), ip: Ipv6Addr::from(ip), port: r.next() as u16 } }
fn nax(r: &mut Rng) -> NodeAddrEx { NodeAddrEx { last_connected_time: r.next() as u32, addr: na(r) } }
fn invvect(r: &mut Rng) -> InvVect { InvVect { obj_type: r.next() as u32, hash: rh(r) } }
fn inv(r: &mut Rng, big: bool) -> Inv { Inv { objects: (0..rcount(r, 5, big)).map(|_| invvect(r)).collect() } }
fn locator(r: &mut Rng, big: bool) -> BlockLocator { BlockLocator { version: r.next() as u32, block_locator_hashes: (0..rcount(r, 4, big)).map(|_| rh(r)).collect(), hash_stop: rh(r) } }
fn bloom(r: &mut Rng) -> BloomFilter { BloomFilter { filter: rbytes(r), num_hash_funcs: r.below(51) as usize, tweak: r.next() as u32 } }
fn merkle(r: &mut Rng, big: bool) -> MerkleBlock { MerkleBlock { header: hdr(r), total_transactions: r.next() as u32, hashes: (0..rcount(r, 5, big)).map(|_| rh(r)).collect(), flags: rbytes(r) } }
fn version(r: &mut Rng) -> Version {
    Version { version: 70001 + r.below(100) as u32, services: r.next(), timestamp: r.next() as i64, recv_addr: na(r), tx_addr: na(r), nonce: r.next(),
        user_agent: rs(r), start_height: r.next() as i32, relay: r.below(2) == 1, association_id: { let n = *r.pick(&[0usize, 1, 17, 255]); r.bytes(n) } }
}
fn reject(r: &mut Rng) -> Reject {
    let m = r.pick(&["block", "tx", "x", ""]).to_string();
    let data = if m == "block" || m == "tx" { r.bytes(32) } else { vec![] };
    Reject { message: m, code: r.byte(), reason: rs(r), data }
}
fn protoconf(r: &mut Rng) -> Protoconf { let v = 1 + r.below(2); Protoconf { version: v, max_recv_payload_length: 1_048_576 + r.below(1000) as u32, stream_policies: if v > 1 { Some(rs(r)) } else { None } } }
fn authch(r: &mut Rng) -> Authch { let m = rbytes(r); Authch { version: 1, message_length: m.len() as u32, message: m } }
fn assoc(r: &mut Rng) -> Vec<u8> { let n = *r.pick(&[1usize, 17, 255]); r.bytes(n) }
fn createstrm(r: &mut Rng) -> Createstrm { Createstrm { association_id: assoc(r), stream_type: 1 + r.below(4) as u8, stream_policy: rs(r) } }
fn streamack(r: &mut Rng) -> Streamack { Streamack { association_id: assoc(r), stream_type: 1 + r.below(4) as u8 } }
fn getblocktxn(r: &mut Rng) -> Getblocktxn { Getblocktxn { blockhash: rh(r), indexes: (0..r.below(5)).map(|_| *r.pick(&[0u64, 252, 253, 65535, 65536, u32::MAX as u64, u64::MAX])).collect() } }
fn blocktxn(r: &mut Rng) -> Blocktxn { Blocktxn { blockhash: rh(r), transactions: (0..r.below(3)).map(|_| tx(r)).collect() } }
fn block(r: &mut Rng) -> Block { Block { header: hdr(r), txns: (0..r.below(3)).map(|_| tx(r)).collect() } }
fn headers(r: &mut Rng) -> Headers { Headers { headers: (0..r.below(5)).map(|_| hdr(r)).collect() } }
fn addr(r: &mut Rng) -> Addr { Addr { addrs: (0..r.below(5)).map(|_| nax(r)).collect() } }
fn filterload(r: &mut Rng) -> FilterLoad { FilterLoad { bloom_filter: bloom(r), flags: r.byte() } }
fn filteradd(r: &mut Rng) -> FilterAdd { FilterAdd { data: { let n = rlen(r).min(520); r.bytes(n) } } }
fn cmpct(r: &mut Rng) -> Cmpctblock {
    // PrefilledTransaction is not exported: build the encoding by hand and decode it
    let mut c = Cmpctblock::default();
    c.header = hdr(r); c.nonce = r.next(); c.shortids = (0..r.below(4)).map(|_| r.bytes(6)).collect();
    let mut bytes = Vec::new();
    c.write(&mut bytes).unwrap();
    let n = r.below(3);
    bytes.pop(); bytes.push(n as u8);
    for _ in 0..n {
        let idx = *r.pick(&[0u64, 5, 253]);
        if idx <= 252 { bytes.push(idx as u8); } else { bytes.extend_from_slice(&[0xfd, 253, 0]); }
        vtx(r).write(&mut bytes).unwrap();
    }
    Cmpctblock::read(&mut Cursor::new(&bytes)).unwrap()
}
/// `AddrV2` and its element types are not exported: encode an addrv2 message by hand and decode it.
fn addrv2(r: &mut Rng) -> Message {
    let n = r.below(5);
    let mut p = vec![n as u8];
    for _ in 0..n {
        p.extend_from_slice(&(r.next() as u32).to_le_bytes());
        var_int_write(*r.pick(&[0u64, 1, 252, 253, 65536, u64::MAX]), &mut p).unwrap();
        let (id, len) = *r.pick(&[(1u8, 4usize), (2, 16), (3, 10), (4, 32), (5, 32), (6, 16)]);
        p.push(id); p.push(len as u8); p.extend_from_slice(&r.bytes(len));
        p.extend_from_slice(&(r.next() as u16).to_be_bytes());
    }
    let mut m = MAGIC.to_vec();
    m.extend_from_slice(b"addrv2\0\0\0\0\0\0");
    m.extend_from_slice(&(p.len() as u32).to_le_bytes());
    m.extend_from_slice(&sha256d(&p).0[..4]);
    m.extend_from_slice(&p);
    Message::read(&mut Cursor::new(&m), MAGIC).expect("addrv2 decodes")
}

pub const N_MSG_KINDS: u64 = 32;
fn message(r: &mut Rng, k: u64, big: bool) -> Message {
    match k {
        0 => Message::Addr(addr(r)), 1 => Message::Block(block(r)), 2 => Message::FeeFilter(FeeFilter { minfee: r.next() }),
        3 => Message::FilterAdd(filteradd(r)), 4 => Message::FilterClear, 5 => Message::GetAddr, 6 => Message::Mempool,
        7 => Message::SendHeaders, 8 => Message::Verack, 9 => Message::SendAddrV2, 10 => Message::FilterLoad(filterload(r)),
        11 => Message::GetBlocks(locator(r, big)), 12 => Message::GetHeaders(locator(r, big)), 13 => Message::GetData(inv(r, big)),
        14 => Message::Inv(inv(r, big)), 15 => Message::NotFound(inv(r, big)), 16 => Message::Headers(headers(r)),
        17 => Message::MerkleBlock(merkle(r, big)), 18 => Message::Ping(Ping { nonce: r.next() }), 19 => Message::Pong(Ping { nonce: r.next() }),
        20 => Message::Reject(reject(r)), 21 => Message::SendCmpct(SendCmpct { enable: r.byte(), version: r.next() }), 22 => Message::Tx(tx(r)),
        23 => Message::Version(version(r)), 24 => Message::Protoconf(protoconf(r)), 25 => Message::Authch(authch(r)),
        26 => Message::Createstrm(createstrm(r)), 27 => Message::Streamack(streamack(r)), 28 => Message::Getblocktxn(getblocktxn(r)),
        29 => Message::Blocktxn(blocktxn(r)), 30 => Message::Cmpctblock(cmpct(r)), _ => addrv2(r),
    }
}

fn bx<T: Serializable<T> + 'static>(v: T) -> Ser { Box::new(move |w: &mut dyn Write| v.write(w)) }

fn standalone(r: &mut Rng, kind: &str, big: bool) -> Ser {
    match kind {
        "hash256" => bx(rh(r)), "bytes16" => { let mut a = [0u8; 16]; for b in a.iter_mut() { *b = r.byte(); } bx(a) }
        "bytes32" => bx(rh(r).0), "bloomfilter" => bx(bloom(r)),
        "extkey" => { let mut a = [0u8; 78]; for b in a.iter_mut() { *b = r.byte(); } bx(ExtendedKey(a)) }
        "block" => bx(block(r)), "headers" => bx(headers(r)), "txin" => bx(txin(r)), "txout" => bx(txout(r)), "nodeaddrex" => bx(nax(r)),
        "blocktxn" => bx(blocktxn(r)), "invvect" => bx(invvect(r)), "getblocktxn" => bx(getblocktxn(r)), "version" => bx(version(r)),
        "authch" => bx(authch(r)), "protoconf" => bx(protoconf(r)), "filterload" => bx(filterload(r)), "ping" => bx(Ping { nonce: r.next() }),
        "blocklocator" => bx(locator(r, big)), "addr" => bx(addr(r)), "nodeaddr" => bx(na(r)), "merkleblock" => bx(merkle(r, big)),
        "streamack" => bx(streamack(r)), "createstrm" => bx(createstrm(r)), "reject" => bx(reject(r)),
        "msgheader" => { let mut c = [0u8; 12]; for b in c.iter_mut() { *b = r.byte(); } let mut k = [0u8; 4]; for b in k.iter_mut() { *b = r.byte(); }
            bx(MessageHeader { magic: MAGIC, command: c, payload_size: r.next() as u32, checksum: k }) }
        "inv" => bx(inv(r, big)), "tx" => bx(tx(r)), "filteradd" => bx(filteradd(r)), "sendcmpct" => bx(SendCmpct { enable: r.byte(), version: r.next() }),
        "outpoint" => bx(outpoint(r)), "blockheader" => bx(hdr(r)), "cmpctblock" => bx(cmpct(r)), "feefilter" => bx(FeeFilter { minfee: r.next() }),
        "varint" => { let n = *r.pick(&[0u64, 1, 252, 253, 65535, 65536, u32::MAX as u64, u32::MAX as u64 + 1, u64::MAX]); Box::new(move |w: &mut dyn Write| var_int_write(n, w)) }
        _ => unreachable!(),
    }
}

// ---------------------------------------------------------------- schedules

fn rle(k: u64, n: usize) -> String { format!("{}x{}", k, n) }

fn schedules(tier: &str, r: &mut Rng, total: usize, trace: &[usize], out: &mut Vec<(String, &'static str, bool)>) {
    let thorough = tier == "thorough";
    let ncalls = trace.len();
    let enough = total + ncalls + 1;
    // (1) the same limit k on every call
    let ks: Vec<u64> = if thorough { (1..=40).chain([63, 64, 65, 100, 255, 256, 1000]).collect() } else { vec![1, 2, 3, 5, 8, 31, 32, 33] };
    for k in ks {
        if !thorough && k <= 2 && total > 2500 { continue; }
        out.push((rle(k, enough), "open", true));
    }
    // (2) limits varying per call, with interrupted calls mixed in
    for _ in 0..(if thorough { 8 } else { 3 }) {
        let n = enough.min(if thorough { 2000 } else { 300 });
        let dense0 = r.chance(1, 3);
        let items: Vec<String> = (0..n).map(|_| {
            let x = r.below(10);
            let k = if x < (if dense0 { 5 } else { 2 }) { 0 } else if x < 7 { r.range(1, 4) } else { r.range(1, 64) };
            k.to_string()
        }).collect();
        out.push((items.join(","), "open", true));
    }
    // (3)+(4) one call disturbed, every other call taken in full: an interrupted result, or a single byte accepted,
    // injected at call i — every position when the trace is short, else a sample incl. first and last
    let positions: Vec<usize> = if ncalls <= (if thorough { 400 } else { 24 }) { (0..ncalls).collect() } else {
        let mut p = vec![0, 1, ncalls - 1];
        for _ in 0..(if thorough { 40 } else { 6 }) { p.push(r.below(ncalls as u64) as usize); }
        p
    };
    for i in positions {
        out.push((if i == 0 { "0".to_string() } else { format!("{},0", rle(1_000_000, i)) }, "open", false));
        if trace[i] >= 2 { out.push((if i == 0 { "1".to_string() } else { format!("{},1", rle(1_000_000, i)) }, "open", false)); }
    }
    // (5) destinations that stop for good: hard error / Ok(0) after a random prefix schedule
    for tail in ["closed", "full"] {
        for _ in 0..(if thorough { 6 } else { 2 }) {
            let n = r.below(2 * ncalls as u64 + 2) as usize;
            let items: Vec<String> = (0..n).map(|_| if r.chance(1, 6) { "0".to_string() } else { r.range(1, 40).to_string() }).collect();
            out.push((if items.is_empty() { "-".to_string() } else { items.join(",") }, tail, true));
        }
    }
    // (6) the unlimited writer itself (sanity: reference = reference)
    out.push(("-".to_string(), "open", true));
}

fn emit(tier: &str, r: &mut Rng, kind: &str, s: &Ser, out: &mut Vec<String>) {
    let mut t = Tracer { buf: Vec::new(), calls: Vec::new() };
    s(&mut t).expect("reference write failed in generator");
    let mut sch = Vec::new();
    schedules(tier, r, t.buf.len(), &t.calls, &mut sch);
    let head = format!("{} {} {}", kind, hexd(&t.buf), fmt_list(&t.calls));
    for (sc, tail, calls_too) in sch {
        out.push(format!("c15.w {} {} {}", head, sc, tail));
        if calls_too { out.push(format!("c15.calls {} {} {}", head, sc, tail)); }
    }
}

pub fn gen(tier: &str, rng: &mut Rng, out: &mut Vec<String>) {
    let thorough = tier == "thorough";
    let reps = if thorough { 20 } else { 2 };
    for rep in 0..reps {
        // a "big" value (list length on the 252/253 varint boundary) once per kind and tier
        let big = rep % 2 == 1;
        for k in 0..N_MSG_KINDS {
            let m = message(rng, k, big);
            let s: Ser = Box::new(move |w: &mut dyn Write| m.write(w, MAGIC));
            emit(tier, rng, "msg", &s, out);
        }
        for kind in KINDS {
            let s = standalone(rng, kind, big);
            emit(tier, rng, kind, &s, out);
        }
    }
}

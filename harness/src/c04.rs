//! C04 — transaction validation conserves value using exact arithmetic.
//!
//! ops (all fields as in the line protocol; `<prof>` is `dev` (overflow panics) or `rel` (wraps) and must
//! match the profile this binary was built with, otherwise the outcome is `wrong-profile`):
//!   c04.tx <prof> <require_forkid 0|1> <genesis 0|1> <lock_time> <ins> <outs> <utxos> <pregenesis>
//!       ins   = comma list of  hash:index:unlockhex
//!       outs  = comma list of  satoshis:lockhex
//!       utxos = comma list of  hash:index:satoshis:lockhex   (first entry for an outpoint wins)
//!       pregenesis = comma list of positions in <utxos>
//!       hash  = 64 hex digits, or 2 hex digits meaning that byte 32 times
//!   c04.blocktxn <prof> <txs>           txs = `;` list of  n_inputs/amount,amount,…   (amount list `-` if none)
//!   c04.cmpct <prof> <wire 0|1> <txs>   wire=1: through Message::write + Message::read (validate on network input)
use crate::rng::Rng;
use crate::util::*;
use chain_gang::messages::{Block, Blocktxn, Cmpctblock, Message, OutPoint, Tx, TxIn, TxOut, MAX_SATOSHIS};
use chain_gang::script::Script;
use chain_gang::util::Hash256;
use std::collections::HashSet;
use std::sync::OnceLock;

pub fn tables(_w: &mut dyn std::io::Write) {}

/// which integer-overflow semantics this binary (and the chain-gang crate linked into it) has
fn own_profile() -> &'static str {
    static P: OnceLock<&'static str> = OnceLock::new();
    P.get_or_init(|| {
        let r = std::panic::catch_unwind(|| std::hint::black_box(i64::MAX) + std::hint::black_box(1i64));
        if r.is_err() { "dev" } else { "rel" }
    })
}

fn parse_hash(s: &str) -> Hash256 {
    let b = unhexd(s);
    let mut a = [0u8; 32];
    if b.len() == 1 { a = [b[0]; 32]; } else { a.copy_from_slice(&b); }
    Hash256(a)
}
fn split_list(s: &str, sep: char) -> Vec<&str> { if s == "-" { vec![] } else { s.split(sep).collect() } }

fn parse_payload_txs(s: &str) -> Vec<Tx> {
    split_list(s, ';').iter().map(|t| {
        let (n, outs) = t.split_once('/').unwrap();
        let n: usize = n.parse().unwrap();
        Tx {
            version: 1,
            inputs: (0..n).map(|i| TxIn { prev_output: OutPoint { hash: Hash256([7; 32]), index: i as u32 }, unlock_script: Script(vec![]), sequence: 0 }).collect(),
            outputs: split_list(outs, ',').iter().map(|a| TxOut { satoshis: a.parse().unwrap(), lock_script: Script(vec![]) }).collect(),
            lock_time: 0,
        }
    }).collect()
}

fn res(r: Result<(), chain_gang::util::ChainGangError>) -> String { match r { Ok(()) => "ok".into(), Err(e) => err_class(&e) } }

pub fn exec(op: &str, a: &[&str]) -> Option<String> {
    match op {
        "c04.tx" => {
            if a[0] != own_profile() { return Some("wrong-profile".into()); }
            let forkid = a[1] == "1";
            let genesis = a[2] == "1";
            let lock_time: u32 = a[3].parse().unwrap();
            let inputs: Vec<TxIn> = split_list(a[4], ',').iter().map(|s| {
                let f: Vec<&str> = s.split(':').collect();
                TxIn { prev_output: OutPoint { hash: parse_hash(f[0]), index: f[1].parse().unwrap() }, unlock_script: Script(unhexd(f[2])), sequence: f.get(3).map(|q| q.parse().unwrap()).unwrap_or(0xffff_ffff) }
            }).collect();
            let outputs: Vec<TxOut> = split_list(a[5], ',').iter().map(|s| {
                let f: Vec<&str> = s.split(':').collect();
                TxOut { satoshis: f[0].parse().unwrap(), lock_script: Script(unhexd(f[1])) }
            }).collect();
            // an empty LinkedHashMap<OutPoint, TxOut> (the harness crate does not depend on linked-hash-map itself)
            let mut utxos = Block::default().outputs().unwrap();
            let mut keys = Vec::new();
            for s in split_list(a[6], ',') {
                let f: Vec<&str> = s.split(':').collect();
                let k = OutPoint { hash: parse_hash(f[0]), index: f[1].parse().unwrap() };
                keys.push(k.clone());
                if !utxos.contains_key(&k) {
                    utxos.insert(k, TxOut { satoshis: f[2].parse().unwrap(), lock_script: Script(unhexd(f[3])) });
                }
            }
            let mut pregenesis = HashSet::new();
            for p in split_list(a[7], ',') { pregenesis.insert(keys[p.parse::<usize>().unwrap()].clone()); }
            let tx = Tx { version: 2, inputs, outputs, lock_time };
            Some(res(tx.validate(forkid, genesis, &utxos, &pregenesis)))
        }
        "c04.blocktxn" => {
            if a[0] != own_profile() { return Some("wrong-profile".into()); }
            let b = Blocktxn { blockhash: Hash256([1; 32]), transactions: parse_payload_txs(a[1]) };
            Some(res(b.validate()))
        }
        "c04.cmpct" => {
            if a[0] != own_profile() { return Some("wrong-profile".into()); }
            let mut c = Cmpctblock::default();
            for (i, tx) in parse_payload_txs(a[2]).into_iter().enumerate() {
                c.prefilledtxn.push(Default::default());
                c.prefilledtxn[i].index = i as u64;
                c.prefilledtxn[i].tx = tx;
            }
            if a[1] == "1" {
                let magic = [0xe3, 0xe1, 0xf3, 0xe8];
                let mut buf = Vec::new();
                Message::Cmpctblock(c.clone()).write(&mut buf, magic).unwrap();
                Some(match Message::read(&mut std::io::Cursor::new(&buf), magic) {
                    Ok(Message::Cmpctblock(d)) => if d == c { "ok".into() } else { "ok-but-different".into() },
                    Ok(_) => "ok-other-message".into(),
                    Err(e) => err_class(&e),
                })
            } else {
                Some(res(c.validate()))
            }
        }
        _ => None,
    }
}

// ------------------------------------------------------------------------------------------------
// generators

const I64MAX: i64 = i64::MAX;
fn boundary_amount(rng: &mut Rng) -> i64 {
    let pool: [i64; 26] = [0, 1, -1, 2, -2, 1 << 62, (1 << 62) - 1, (1 << 62) + 1, I64MAX, I64MAX - 1, i64::MIN, i64::MIN + 1,
        MAX_SATOSHIS, MAX_SATOSHIS - 1, MAX_SATOSHIS + 1, MAX_SATOSHIS / 2, MAX_SATOSHIS / 2 + 1, 2 * MAX_SATOSHIS, I64MAX - MAX_SATOSHIS,
        I64MAX - MAX_SATOSHIS + 1, -MAX_SATOSHIS, 1 << 32, 1 << 53, 100, 50_0000_0000, 546];
    *rng.pick(&pool)
}

#[derive(Clone)]
struct Case { forkid: bool, genesis: bool, lock_time: u64, ins: Vec<(String, u32, String)>, outs: Vec<(i64, String)>, utxos: Vec<(String, u32, i64, String)>, pregen: Vec<usize> }

fn fmt_case(prof: &str, c: &Case) -> String {
    // an unlock text `<hex>@<n>` gives the input the sequence number n (default 0xffffffff)
    let ins: Vec<String> = c.ins.iter().map(|(h, i, u)| match u.split_once('@') { Some((u, q)) => format!("{}:{}:{}:{}", h, i, u, q), None => format!("{}:{}:{}", h, i, u) }).collect();
    let outs: Vec<String> = c.outs.iter().map(|(s, l)| format!("{}:{}", s, l)).collect();
    let ut: Vec<String> = c.utxos.iter().map(|(h, i, s, l)| format!("{}:{}:{}:{}", h, i, s, l)).collect();
    format!("c04.tx {} {} {} {} {} {} {} {}", prof, c.forkid as u8, c.genesis as u8, c.lock_time,
        if ins.is_empty() { "-".into() } else { ins.join(",") }, if outs.is_empty() { "-".into() } else { outs.join(",") },
        if ut.is_empty() { "-".into() } else { ut.join(",") }, fmt_list(&c.pregen))
}

fn rand_hash(rng: &mut Rng) -> String {
    if rng.chance(3, 4) { format!("{:02x}", rng.range(1, 40)) } else { hexd(&rng.bytes(32)) }
}

/// a valid spend: n inputs with trivially true scripts, outputs summing to at most the inputs
fn valid_case(rng: &mut Rng) -> Case {
    let n_in = rng.range(1, 8) as usize;
    let mut ins = Vec::new(); let mut utxos: Vec<(String, u32, i64, String)> = Vec::new(); let mut total: i64 = 0;
    for k in 0..n_in {
        let h = rand_hash(rng); // the index k makes the outpoint unique within the case
        let amt = match rng.below(6) { 0 => 0, 1 => rng.range(1, 1000) as i64, 2 => MAX_SATOSHIS / (n_in as i64), 3 => rng.range(1, 50_0000_0000) as i64, _ => rng.range(1, 100_000) as i64 };
        // (unlock, lock) pairs that evaluate to true
        let (u, l) = match rng.below(3) { 0 => ("-", "51"), 1 => ("51", "-"), _ => ("51", "51") };
        ins.push((h.clone(), k as u32, u.to_string()));
        utxos.push((h, k as u32, amt, l.to_string()));
        total += amt;
    }
    let n_out = if rng.chance(1, 12) { rng.range(9, 300) } else { rng.range(1, 8) } as usize;
    let mut outs = Vec::new(); let mut left = total;
    for k in 0..n_out {
        let amt = if k + 1 == n_out && rng.chance(1, 2) { left } else if left == 0 { 0 } else { (rng.below(left as u64 + 1) as i64) / (if rng.chance(1, 2) { 1 } else { n_out as i64 }) };
        left -= amt;
        outs.push((amt, if rng.chance(1, 2) { "-".to_string() } else { "76a914".to_string() + &hexd(&rng.bytes(20)) + "88ac" }));
    }
    // shuffle the map order sometimes (a map has no order that matters)
    if rng.chance(1, 3) { utxos.reverse(); }
    let lock_time = match rng.below(5) { 0 => 0, 1 => 2_147_483_647, 2 => rng.range(0, 2_147_483_647), 3 => 500_000_000, _ => rng.range(0, 1_000_000) };
    let pregen = (0..utxos.len()).filter(|_| rng.chance(1, 4)).collect();
    Case { forkid: rng.chance(1, 2), genesis: rng.chance(1, 2), lock_time, ins, outs, utxos, pregen }
}

fn mutate(rng: &mut Rng, c: &mut Case) {
    match rng.below(20) {
        0 => { if !c.outs.is_empty() { let k = rng.below(c.outs.len() as u64) as usize; c.outs[k].0 = boundary_amount(rng); } }
        1 => { if !c.utxos.is_empty() { let k = rng.below(c.utxos.len() as u64) as usize; c.utxos[k].2 = boundary_amount(rng); } }
        2 => { // an input repeats another input's outpoint
            if !c.ins.is_empty() { let k = rng.below(c.ins.len() as u64) as usize; let d = c.ins[k].clone(); let at = rng.below(c.ins.len() as u64 + 1) as usize; c.ins.insert(at, d); } }
        3 => { if !c.utxos.is_empty() { let k = rng.below(c.utxos.len() as u64) as usize; c.utxos.remove(k); c.pregen.retain(|p| *p < c.utxos.len()); } } // missing entry
        4 => { let h = rand_hash(rng); c.utxos.push((h, rng.range(0, 9) as u32, boundary_amount(rng), "51".into())); } // extra entry
        5 => { c.lock_time = *rng.pick(&[2_147_483_647u64, 2_147_483_648, 4_294_967_295, 2_147_483_646]); }
        6 => { if !c.ins.is_empty() { let k = rng.below(c.ins.len() as u64) as usize; c.ins[k].0 = "00".into(); c.ins[k].1 = 0xffff_ffff; // coinbase reference
                 if rng.chance(1, 2) { c.utxos.push(("00".into(), 0xffff_ffff, 1000, "51".into())); } } }
        7 => { if !c.utxos.is_empty() { let k = rng.below(c.utxos.len() as u64) as usize; c.utxos[k].3 = (*rng.pick(&["00", "5100", "-"])).into(); } } // script fails
        8 => { if !c.ins.is_empty() { let k = rng.below(c.ins.len() as u64) as usize; c.ins[k].2 = (*rng.pick(&["00", "-", "0051"])).into(); } }
        9 => { if !c.outs.is_empty() { let k = rng.below(c.outs.len() as u64) as usize; // P2SH output (sunset under genesis rules), and near misses
                 let mut s = vec![0xa9u8]; s.extend(rng.bytes(20)); s.push(0x87);
                 match rng.below(4) { 0 => { s[21] = 0x88; } 1 => { s.push(0); } _ => {} }
                 c.outs[k].1 = hexd(&s); } }
        10 => { c.ins.clear(); }
        11 => { c.outs.clear(); }
        12 => { // many outputs each at the limit / a fraction of it
            let n = rng.range(2, 300) as i64; let each = match rng.below(4) { 0 => MAX_SATOSHIS, 1 => MAX_SATOSHIS / n, 2 => MAX_SATOSHIS / n + 1, _ => I64MAX / n };
            c.outs = (0..n).map(|_| (each, "-".to_string())).collect(); }
        13 => { // sums that wrap: k amounts whose exact sum is ≥ 2^63 (or exactly 2^64)
            let v: Vec<i64> = match rng.below(5) { 0 => vec![I64MAX, I64MAX], 1 => vec![1 << 62; 4], 2 => vec![I64MAX, I64MAX, 2], 3 => vec![I64MAX, 1], _ => vec![1 << 62, 1 << 62, 1 << 62, (1 << 62) + rng.range(0, 100) as i64] };
            if rng.chance(2, 3) { c.outs = v.iter().map(|a| (*a, "-".to_string())).collect(); }
            else { c.ins.clear(); c.utxos.clear(); c.pregen.clear();
                   for (k, a) in v.iter().enumerate() { c.ins.push(("11".into(), k as u32, "-".into())); c.utxos.push(("11".into(), k as u32, *a, "51".into())); } } }
        14 => { // duplicate utxo key with a different amount (first wins)
            if !c.utxos.is_empty() { let k = rng.below(c.utxos.len() as u64) as usize; let mut d = c.utxos[k].clone(); d.2 = boundary_amount(rng); c.utxos.push(d); } }
        15 => { // outputs exceed inputs by one / equal
            if !c.outs.is_empty() { let k = rng.below(c.outs.len() as u64) as usize; c.outs[k].0 = c.outs[k].0.wrapping_add(*rng.pick(&[1i64, -1, 1000])); } }
        17 | 18 => { // an input whose outpoint shares ONE of the two coinbase-reference fields (index 0xffffffff with a non-null
            // hash, or the null hash with an ordinary index) — it is an ordinary outpoint; half the time it is also repeated
            if !c.ins.is_empty() {
                let k = rng.below(c.ins.len() as u64) as usize;
                let (oh, oi) = (c.ins[k].0.clone(), c.ins[k].1);
                let (nh, ni): (String, u32) = match rng.below(3) { 0 => (oh.clone(), 0xffff_ffff), 1 => ("00".into(), rng.range(0, 9) as u32), _ => (oh.clone(), 0xffff_fffe) };
                for u in c.utxos.iter_mut() { if u.0 == oh && u.1 == oi { u.0 = nh.clone(); u.1 = ni; } }
                for i in c.ins.iter_mut() { if i.0 == oh && i.1 == oi { i.0 = nh.clone(); i.1 = ni; } }
                if rng.chance(1, 2) { let d = c.ins[k].clone(); let at = rng.below(c.ins.len() as u64 + 1) as usize; c.ins.insert(at, d); }
            } }
        16 => { // both inputs of a pair spend one outpoint and the outputs take twice its value (the double-spend witness shape)
            let amt = rng.range(1, 1_000_000) as i64; c.ins = vec![("05".into(), 3, "-".into()), ("05".into(), 3, "-".into())];
            c.utxos = vec![("05".into(), 3, amt, "51".into())]; c.pregen.clear(); c.outs = vec![(2 * amt, "-".into())]; }
        _ => { if !c.outs.is_empty() { let k = rng.below(c.outs.len() as u64) as usize; c.outs[k].0 = rng.next() as i64; } }
    }
}

fn payload_txs(rng: &mut Rng) -> String {
    let n = if rng.chance(1, 10) { 0 } else { rng.range(1, 5) };
    let mut txs = Vec::new();
    for _ in 0..n {
        let n_in = if rng.chance(1, 10) { 0 } else { rng.range(1, 3) };
        let n_out = if rng.chance(1, 12) { 0 } else if rng.chance(1, 10) { rng.range(9, 300) } else { rng.range(1, 8) };
        let style = rng.below(8);
        let outs: Vec<i64> = (0..n_out).map(|_| match style { 0 => boundary_amount(rng), 1 => I64MAX, 2 => 1 << 62, 3 => MAX_SATOSHIS / n_out as i64, 4 => MAX_SATOSHIS / n_out as i64 + 1,
            5 => if rng.chance(1, 6) { boundary_amount(rng) } else { rng.range(0, 100_000) as i64 }, _ => rng.range(0, 50_0000_0000) as i64 }).collect();
        txs.push(format!("{}/{}", n_in, fmt_list(&outs)));
    }
    if txs.is_empty() { "-".into() } else { txs.join(";") }
}

pub fn gen(tier: &str, rng: &mut Rng, out: &mut Vec<String>) {
    let prof = own_profile();
    let thorough = tier == "thorough";
    let n_tx = if thorough { 300_000 } else { 12_000 };
    for i in 0..n_tx {
        let mut c = valid_case(rng);
        // 1/4 valid as generated, otherwise 1-3 mutations
        if i % 4 != 0 { let m = 1 + rng.below(3); for _ in 0..m { mutate(rng, &mut c); } }
        out.push(fmt_case(prof, &c));
    }
    // the script interface between an unlocking and a locking script (decided in the driver by the two-phase model of
    // Tx::validate's script check): alt-stack carry-over, open conditionals, OP_RETURN in either script, plus grammar scripts
    // without signature opcodes; one or two inputs, Genesis and pre-genesis rules, outputs marked pre-genesis
    {
        let pairs: Vec<(String, String)> = {
            let mut v: Vec<(String, String)> = [("516b", "6c"), ("51", "6c"), ("516b", "51"), ("526b51", "6c5287"), ("0063", "6851"), ("5163", "6851"), ("516a", "00"),
                ("51", "6a"), ("00", "91"), ("5151", "9387"), ("00", "516a"), ("516b6c", "-"), ("-", "516b6c"), ("6b", "51"), ("51", "6b51"), ("5167", "51"), ("51", "6751"),
                ("0051", "7c"), ("51", "00"), ("00", "-"), ("-", "00"), ("516b516b", "6c6c87"), ("51", "6351675168"), ("00", "6351675168")].iter().map(|(a, b)| (a.to_string(), b.to_string())).collect();
            let sigop = |b: &u8| [0xacu8, 0xad, 0xae, 0xaf, 0xb1, 0xb2].contains(b);
            let mut tries = 0;
            while v.len() < (if thorough { 4000 } else { 400 }) && tries < 20_000 { tries += 1;
                let u = crate::scriptgen::gen_script(rng, 1 + tries % 5).script; let l = crate::scriptgen::gen_script(rng, 1 + tries % 4).script;
                if u.iter().any(sigop) || l.iter().any(sigop) || u.len() + l.len() > 120 { continue; }
                v.push((hexd(&u), hexd(&l)));
            }
            v
        };
        for (k, (u, l)) in pairs.iter().enumerate() {
            for genesis in [true, false] { for pre in [false, true] {
                if pre && !genesis { continue; }
                let mut c = Case { forkid: k % 2 == 0, genesis, lock_time: 0, ins: vec![("0a".to_string(), 0, u.clone())], outs: vec![(5, "-".to_string())],
                                   utxos: vec![("0a".to_string(), 0, 10, l.clone())], pregen: if pre { vec![0] } else { vec![] } };
                if k % 3 == 0 { c.ins.push(("0b".to_string(), 1, "51".to_string())); c.utxos.push(("0b".to_string(), 1, 3, "51".to_string())); }
                out.push(fmt_case(prof, &c));
            } }
        }
        // the rule set is chosen PER INPUT: two or three inputs, each with its own script pair (mostly pairs on which the Genesis and
        // the pre-genesis rules disagree: OP_RETURN, CLTV/CSV as NOPs) and its own pre-genesis mark, in every order of marks
        // (timelock opcodes are NOPs under the Genesis rules and pop-and-check under the pre-genesis rules: `OP_1 | OP_0 OP_CLTV` is
        // false under the former and true under the latter when the check passes, which needs a non-final sequence number)
        let sens: Vec<(String, String)> = [("51", "6a"), ("51", "516a"), ("00", "516a"), ("51", "00b1"), ("51", "00b2"), ("51", "51b1"), ("00b1", "51"), ("516a", "51"), ("51", "51"), ("-", "51"),
            ("51", "57b1"), ("51", "58b1"), ("51", "0400008000b2"), ("51", "55b2"), ("5100", "b1"), ("5100", "b2"), ("00", "51b2"), ("00", "00b251")]
            .iter().map(|(a, b)| (a.to_string(), b.to_string())).collect();
        let n_multi = if thorough { 6000 } else { 700 };
        for k in 0..n_multi {
            let n_in = 2 + (k % 2);
            let mut c = Case { forkid: k % 3 == 0, genesis: k % 8 != 7, lock_time: if k % 5 == 0 { 7 } else { 0 }, ins: vec![], outs: vec![(1, "-".to_string())], utxos: vec![], pregen: vec![] };
            for j in 0..n_in {
                let (u, l) = if rng.chance(3, 4) { rng.pick(&sens).clone() } else { rng.pick(&pairs).clone() };
                let u = match rng.below(5) { 0 => u, 1 => format!("{}@0", u), 2 => format!("{}@5", u), 3 => format!("{}@4194309", u), _ => format!("{}@{}", u, *rng.pick(&[7u32, 0x8000_0000, 0xffff_fffe, 65535])) };
                c.ins.push((format!("{:02x}", 0x20 + j), j as u32, u)); c.utxos.push((format!("{:02x}", 0x20 + j), j as u32, 10, l));
            }
            let mask = if k < 64 { k % 8 } else { rng.below(8) as usize };
            c.pregen = (0..n_in).filter(|j| mask >> j & 1 == 1).collect();
            out.push(fmt_case(prof, &c));
        }
    }
    // enough individually legal amounts to carry an i64 sum past its range: i64::MAX / MAX_SATOSHIS (+0, +1, +2) outputs of
    // exactly MAX_SATOSHIS each (a total that is only compared after the loop would overflow), in all three validators;
    // and across several transactions of one payload
    {
        let k0 = (I64MAX / MAX_SATOSHIS) as usize;
        for k in [k0, k0 + 1, k0 + 2] {
            let outs: Vec<i64> = vec![MAX_SATOSHIS; k];
            let c = Case { forkid: true, genesis: true, lock_time: 0, ins: vec![("0a".to_string(), 0, "51".to_string())], outs: outs.iter().map(|a| (*a, "-".to_string())).collect(),
                           utxos: vec![("0a".to_string(), 0, 10, "51".to_string())], pregen: vec![] };
            out.push(fmt_case(prof, &c));
            let txs = format!("1/{}", fmt_list(&outs));
            out.push(format!("c04.blocktxn {} {}", prof, txs));
            out.push(format!("c04.cmpct {} 0 {}", prof, txs));
            out.push(format!("c04.cmpct {} 1 {}", prof, txs));
        }
        // the same sum spread over two and three transactions (each within range on its own)
        let half: Vec<i64> = vec![MAX_SATOSHIS; 1];
        let many = (0..3).map(|_| format!("1/{}", fmt_list(&half))).collect::<Vec<_>>().join(";");
        out.push(format!("c04.blocktxn {} {}", prof, many));
        out.push(format!("c04.cmpct {} 0 {}", prof, many));
        out.push(format!("c04.cmpct {} 1 {}", prof, many));
    }
    // signed spends through the same entry point (the generator of c03.txv, decided end to end by the reference interpreter +
    // transaction checker + sighash + secp256k1 of the driver): both FORKID-requirement modes with real signatures, incl. locks that
    // tolerate a signature check answering false
    {
        let mut t = Vec::new();
        crate::c03::txv::gen("quick", &mut rng.fork(), &mut t);
        let keep = if thorough { t.len() } else { 900 };
        out.extend(t.into_iter().take(keep));
    }
    let n_pl = if thorough { 60_000 } else { 3_000 };
    for i in 0..n_pl {
        let txs = payload_txs(rng);
        match i % 3 { 0 => out.push(format!("c04.blocktxn {} {}", prof, txs)), 1 => out.push(format!("c04.cmpct {} 0 {}", prof, txs)), _ => out.push(format!("c04.cmpct {} 1 {}", prof, txs)) }
    }
}

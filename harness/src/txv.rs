//! c03.txv — `Tx::validate` on REAL signed transactions, decided end to end by the Lean reference
//! (interpreter + TransactionChecker + sighash + secp256k1 models; `lean/CG/Drv/TxV.lean`).
//!
//! Request: `c03.txv <tx hex> <utxos: hash:index:satoshis:lockscript,…> <forkid 0/1> <genesis 0/1>`
//! (`hash` = 32 bytes of hex, or ONE byte standing for 32 copies of it).  Outcome: `ok` or `err:<Variant>`.
//! Declared from `c03.rs` with `#[path = "txv.rs"] pub mod txv;`.
use crate::rng::Rng;
use crate::scriptgen::push_with;
use crate::util::*;
use chain_gang::messages::{OutPoint, Tx, TxIn, TxOut};
use chain_gang::script::Script;
use chain_gang::transaction::generate_signature;
use chain_gang::transaction::sighash::{sighash, SigHashCache};
use chain_gang::util::{hash160, Hash256, Serializable};
use k256::ecdsa::{Signature, SigningKey, VerifyingKey};
use linked_hash_map::LinkedHashMap;
use std::collections::HashSet;

// ------------------------------------------------------------------------------------------------ exec

fn parse_hash(s: &str) -> Hash256 {
    let b = unhexd(s);
    let mut h = [0u8; 32];
    if b.len() == 1 { h = [b[0]; 32]; } else { h.copy_from_slice(&b); }
    Hash256(h)
}

pub fn exec(a: &[&str]) -> String {
    let raw = unhexd(a[0]);
    let mut cur = std::io::Cursor::new(&raw[..]);
    let tx = match Tx::read(&mut cur) { Ok(t) => t, Err(e) => return format!("bad-tx:{}", err_class(&e)) };
    if cur.position() as usize != raw.len() { return "bad-tx:trailing".into(); }
    let mut utxos: LinkedHashMap<OutPoint, TxOut> = LinkedHashMap::new();
    if a[1] != "-" {
        for e in a[1].split(',') {
            let f: Vec<&str> = e.split(':').collect();
            utxos.insert(OutPoint { hash: parse_hash(f[0]), index: f[1].parse().unwrap() },
                TxOut { satoshis: f[2].parse().unwrap(), lock_script: Script(unhexd(f[3])) });
        }
    }
    match tx.validate(a[2] == "1", a[3] == "1", &utxos, &HashSet::new()) { Ok(()) => "ok".into(), Err(e) => err_class(&e) }
}

// ------------------------------------------------------------------------------------------------ building blocks

const N_MINUS_1: &str = "fffffffffffffffffffffffffffffffebaaedce6af48a03bbfd25e8cd0364140";

fn key_pool() -> Vec<[u8; 32]> {
    let mut one = [0u8; 32]; one[31] = 1;
    let mut nm1 = [0u8; 32]; nm1.copy_from_slice(&hex::decode(N_MINUS_1).unwrap());
    let mut k5 = [0u8; 32]; for (i, b) in k5.iter_mut().enumerate() { *b = (i as u8).wrapping_mul(37).wrapping_add(11); }
    vec![[1u8; 32], [2u8; 32], [3u8; 32], one, nm1, k5]
}

fn pk_bytes(k: &[u8; 32], compressed: bool) -> Vec<u8> {
    let sk = SigningKey::from_slice(k).unwrap();
    VerifyingKey::from(&sk).to_encoded_point(compressed).as_bytes().to_vec()
}

fn p2pkh(h: &[u8]) -> Vec<u8> { let mut s = vec![0x76, 0xa9, 0x14]; s.extend_from_slice(h); s.extend_from_slice(&[0x88, 0xac]); s }
fn p2pk(pk: &[u8]) -> Vec<u8> { let mut s = vec![]; push_with(&mut s, pk, 0); s.push(0xac); s }
fn ms23(pks: &[Vec<u8>]) -> Vec<u8> { let mut s = vec![0x52]; for p in pks { push_with(&mut s, p, 0); } s.push(0x53); s.push(0xae); s }

/// minimal sign-magnitude little-endian script number
fn script_num(v: i64) -> Vec<u8> {
    if v == 0 { return vec![]; }
    let neg = v < 0; let mut a = v.unsigned_abs(); let mut out = vec![];
    while a > 0 { out.push((a & 0xff) as u8); a >>= 8; }
    if out[out.len() - 1] & 0x80 != 0 { out.push(if neg { 0x80 } else { 0 }); } else if neg { let l = out.len() - 1; out[l] |= 0x80; }
    out
}

#[derive(Clone, Copy, PartialEq, Debug)]
enum Kind { P2pkh, P2pk, Ms23, Cltv, Csv, PkNot }

#[derive(Clone)]
struct Case {
    tx: Tx,
    utxos: Vec<(OutPoint, TxOut)>,
    /// per input: the pushed items of the unlocking script (empty item = OP_0), and the template kind
    items: Vec<Vec<Vec<u8>>>,
    kinds: Vec<Kind>,
    forkid: bool,
    genesis: bool,
}

impl Case {
    fn rebuild(&mut self) {
        for (i, its) in self.items.iter().enumerate() {
            if its.is_empty() { continue; }
            let mut u = vec![];
            for it in its { push_with(&mut u, it, 0); }
            self.tx.inputs[i].unlock_script = Script(u);
        }
    }
    fn line(&self) -> String {
        let mut raw = vec![]; self.tx.write(&mut raw).unwrap();
        let us: Vec<String> = self.utxos.iter().map(|(o, t)| {
            let h = if o.hash.0.iter().all(|b| *b == o.hash.0[0]) { hexd(&o.hash.0[..1]) } else { hexd(&o.hash.0) };
            format!("{}:{}:{}:{}", h, o.index, t.satoshis, hexd(&t.lock_script.0)) }).collect();
        format!("c03.txv {} {} {} {}", hexd(&raw), if us.is_empty() { "-".to_string() } else { us.join(",") },
            if self.forkid { 1 } else { 0 }, if self.genesis { 1 } else { 0 })
    }
    fn utxo_of(&mut self, i: usize) -> &mut TxOut {
        let op = self.tx.inputs[i].prev_output.clone();
        let p = self.utxos.iter().rposition(|(o, _)| *o == op).unwrap();
        &mut self.utxos[p].1
    }
}

fn sign(tx: &Tx, i: usize, lock: &[u8], sat: i64, ty: u8, key: &[u8; 32], rng: &mut Rng) -> Vec<u8> {
    match sighash(tx, i, lock, sat, ty, &mut SigHashCache::new()) {
        Ok(h) => generate_signature(key, &h, ty).unwrap(),
        // e.g. legacy SIGHASH_SINGLE without a matching output: no digest exists; present a well-formed signature over junk
        Err(_) => { let mut d = [0u8; 32]; d.copy_from_slice(&rng.bytes(32)); generate_signature(key, &Hash256(d), ty).unwrap() }
    }
}

const FORKID_TYPES: [u8; 6] = [0x41, 0x42, 0x43, 0xc1, 0xc2, 0xc3];
const LEGACY_TYPES: [u8; 6] = [0x01, 0x02, 0x03, 0x81, 0x82, 0x83];

/// a fully signed spend: 1..5 inputs (P2PKH / P2PK / 2-of-3, with pre-genesis rules also CLTV / CSV guarded P2PK),
/// 1..5 outputs, every input signed with its own sighash type
fn base_case(rng: &mut Rng) -> Case {
    let keys = key_pool();
    let nin = rng.range(1, 5) as usize; let nout = rng.range(1, 5) as usize;
    let forkid = rng.chance(4, 5); let genesis = rng.chance(1, 2);
    let lock_time: u32 = *rng.pick(&[0u32, 0, 7, 100, 499_999_999, 500_000_000, 500_000_001, 0x7fff_ffff]);
    let version: u32 = *rng.pick(&[1u32, 2, 2, 3]);
    let seq_pool = [0xffff_ffffu32, 0xffff_fffe, 0, 5, 0xffff, (1 << 22) | 9, (1 << 31) | 3, 0x0001_0000];
    let mut tx = Tx { version, inputs: vec![], outputs: vec![], lock_time };
    let mut utxos = vec![]; let mut kinds = vec![]; let mut plans: Vec<(Vec<usize>, u8, bool)> = vec![];
    let mut total_in = 0i64; let mut need_v2 = false;
    for i in 0..nin {
        let op = OutPoint { hash: Hash256([0x20 + i as u8; 32]), index: rng.below(4) as u32 };
        let mut sequence = *rng.pick(&seq_pool);
        let kind = if !genesis && rng.chance(1, 4) { if rng.chance(1, 2) { Kind::Cltv } else { Kind::Csv } }
                   else { *rng.pick(&[Kind::P2pkh, Kind::P2pkh, Kind::P2pk, Kind::Ms23, Kind::PkNot]) };
        // with FORKID required an input now and then carries a (correctly made) legacy-type signature: it must be refused
        let ty = if (forkid && !rng.chance(1, 12)) || rng.chance(1, 3) { *rng.pick(&FORKID_TYPES) } else { *rng.pick(&LEGACY_TYPES) };
        let compressed = rng.chance(3, 4);
        let k0 = rng.below(keys.len() as u64) as usize;
        let (lock, ks): (Vec<u8>, Vec<usize>) = match kind {
            Kind::P2pkh => (p2pkh(&hash160(&pk_bytes(&keys[k0], compressed)).0), vec![k0]),
            Kind::P2pk => {
                let mut pk = pk_bytes(&keys[k0], compressed);
                // SEC1 tag 05 ("compact", even y) is accepted by k256; hybrid 06/07 is not
                if compressed && pk[0] == 2 && rng.chance(1, 6) { pk[0] = 5; }
                if !compressed && rng.chance(1, 12) { pk[0] = 6 + (pk[64] & 1); }
                (p2pk(&pk), vec![k0]) }
            // `<pk> OP_CHECKSIG OP_NOT`: a lock that TOLERATES a signature check answering false — spendable with a well-formed
            // signature that does not verify (made with another key), so the difference between `check_sig` answering false and
            // failing (a required FORKID bit missing, a malformed signature) decides the verdict
            Kind::PkNot => { let mut l = p2pk(&pk_bytes(&keys[k0], true)); l.push(0x91);
                (l, vec![if rng.chance(4, 5) { (k0 + 1 + rng.below(keys.len() as u64 - 1) as usize) % keys.len() } else { k0 }]) }
            Kind::Ms23 => { let ks = vec![k0, (k0 + 1) % keys.len(), (k0 + 2) % keys.len()];
                (ms23(&ks.iter().map(|k| pk_bytes(&keys[*k], true)).collect::<Vec<_>>()), ks) }
            Kind::Cltv => { let lt = lock_time as i64;
                // mostly satisfiable (same class as the lock time, not above it, input not final), else from the boundary pool
                let n = if rng.chance(3, 5) { if rng.chance(1, 5) { sequence = 0xffff_ffff; } else if sequence == 0xffff_ffff { sequence = 0xffff_fffe; }
                        if lt >= 500_000_000 { *rng.pick(&[lt, 500_000_000]) } else { *rng.pick(&[lt, lt / 2, 0]) } }
                    else { *rng.pick(&[lt, lt - 1, lt + 1, 0, -1, 499_999_999, 500_000_000, 0x7fff_ffff, lt / 2]) };
                let n = n.clamp(-0x7fff_ffff, 0x7fff_ffff);
                let mut s = vec![]; push_with(&mut s, &script_num(n), 0); s.push(0xb1); s.extend(p2pk(&pk_bytes(&keys[k0], true))); (s, vec![k0]) }
            Kind::Csv => {
                let n = if rng.chance(3, 5) { if rng.chance(1, 6) { sequence |= 0x8000_0000; } else { sequence &= 0x7fff_ffff; } if rng.chance(5, 6) { need_v2 = true; } let q = (sequence & 0xffff) as i64; *rng.pick(&[q, q / 2, 0, q | (1 << 22)]) }
                    else { let q = (sequence & 0xffff) as i64; *rng.pick(&[q, q + 1, q - 1, 0, -1, q | (1 << 22), 0x7fff_ffff, 0xffff]) };
                let n = n.clamp(-0x7fff_ffff, 0x7fff_ffff);
                let mut s = vec![]; push_with(&mut s, &script_num(n), 0); s.push(0xb2); s.extend(p2pk(&pk_bytes(&keys[k0], true))); (s, vec![k0]) }
        };
        let sat = rng.range(1000, 100_000) as i64; total_in += sat;
        tx.inputs.push(TxIn { prev_output: op.clone(), unlock_script: Script(vec![]), sequence });
        if need_v2 && tx.version < 2 { tx.version = 2; }
        utxos.push((op, TxOut { satoshis: sat, lock_script: Script(lock) }));
        kinds.push(kind); plans.push((ks, ty, compressed));
    }
    let mut left = total_in - rng.below(500) as i64;
    for o in 0..nout {
        let amt = if o + 1 == nout { left.max(0) } else { rng.below((left / 2).max(1) as u64) as i64 }; left -= amt;
        let s = match rng.below(3) { 0 => p2pkh(&rng.bytes(20)), 1 => vec![0x51, 0x75, 0x52 + (o as u8 % 3)], _ => p2pk(&pk_bytes(&keys[o % keys.len()], true)) };
        tx.outputs.push(TxOut { satoshis: amt, lock_script: Script(s) });
    }
    let mut items = vec![];
    for i in 0..nin {
        let (ks, ty, compressed) = &plans[i];
        let lock = utxos[i].1.lock_script.0.clone(); let sat = utxos[i].1.satoshis;
        let its = match kinds[i] {
            Kind::P2pkh => vec![sign(&tx, i, &lock, sat, *ty, &keys[ks[0]], rng), pk_bytes(&keys[ks[0]], *compressed)],
            Kind::P2pk | Kind::Cltv | Kind::Csv | Kind::PkNot => vec![sign(&tx, i, &lock, sat, *ty, &keys[ks[0]], rng)],
            Kind::Ms23 => { let (a, b) = *rng.pick(&[(0usize, 1usize), (0, 2), (1, 2)]);
                vec![vec![], sign(&tx, i, &lock, sat, *ty, &keys[ks[a]], rng), sign(&tx, i, &lock, sat, *ty, &keys[ks[b]], rng)] }
        };
        items.push(its);
    }
    let mut c = Case { tx, utxos, items, kinds, forkid, genesis };
    c.rebuild();
    c
}

/// index of a signature item of input `i`
fn sig_slot(c: &Case, i: usize, rng: &mut Rng) -> usize { if c.kinds[i] == Kind::Ms23 { 1 + rng.below(2) as usize } else { 0 } }

fn high_s(sig: &[u8]) -> Option<Vec<u8>> {
    let (der, ty) = sig.split_at(sig.len() - 1);
    let s = Signature::from_der(der).ok()?;
    let hs = Signature::from_scalars(*s.r(), -*s.s()).ok()?;
    let mut v = hs.to_der().as_bytes().to_vec(); v.push(ty[0]); Some(v)
}

pub const MUTATIONS: [&str; 33] = ["version", "locktime", "locktime_max", "seq", "prev_index", "prev_missing", "out_amount", "out_script", "out_add",
    "out_remove", "spent_amount", "spent_script", "key", "sig_r", "sig_s", "sig_type", "sig_type_forkid", "sig_type_bit", "sig_high_s", "sig_pad", "sig_trunc", "sig_empty",
    "ms_swap", "ms_same", "unlock_swap", "dup_input", "p2sh_out", "overspend", "in_add", "sig_len", "key_flip", "replay", "sig_tail"];

/// one single-field mutation of a signed case; `None` when not applicable
fn mutate(base: &Case, m: &str, rng: &mut Rng) -> Option<Case> {
    let mut c = base.clone();
    let keys = key_pool();
    let nin = c.tx.inputs.len(); let nout = c.tx.outputs.len();
    let i = rng.below(nin as u64) as usize; let o = rng.below(nout as u64) as usize;
    match m {
        "version" => c.tx.version = c.tx.version.wrapping_add(1),
        "locktime" => c.tx.lock_time = c.tx.lock_time.wrapping_add(1),
        "locktime_max" => c.tx.lock_time = *rng.pick(&[0x8000_0000u32, 0xffff_ffff]),
        "seq" => c.tx.inputs[i].sequence ^= *rng.pick(&[1u32, 1 << 22, 1 << 31, 0x100]),
        "prev_index" => { let t = c.utxo_of(i).clone(); let mut op = c.tx.inputs[i].prev_output.clone(); op.index += 7; c.utxos.push((op.clone(), t)); c.tx.inputs[i].prev_output = op; }
        "prev_missing" => c.tx.inputs[i].prev_output.index += 9,
        "out_amount" => { if c.tx.outputs[o].satoshis == 0 { return None; } c.tx.outputs[o].satoshis -= 1; }
        "out_script" => c.tx.outputs[o].lock_script.0.push(0x61),
        "out_add" => c.tx.outputs.push(TxOut { satoshis: 0, lock_script: Script(vec![0x51]) }),
        "out_remove" => { if nout < 2 { return None; } c.tx.outputs.pop(); }
        "spent_amount" => c.utxo_of(i).satoshis += 1,
        "spent_script" => { let t = c.utxo_of(i); let l = t.lock_script.0.len(); let p = rng.range(1, (l - 2) as u64) as usize; t.lock_script.0[p] ^= 1 << rng.below(8); }
        "key" => { if c.kinds[i] != Kind::P2pkh { return None; } let k = rng.below(keys.len() as u64) as usize; c.items[i][1] = pk_bytes(&keys[k], rng.chance(1, 2)); }
        "key_flip" => { if c.kinds[i] != Kind::P2pkh { return None; } let l = c.items[i][1].len(); c.items[i][1][rng.below(l as u64) as usize] ^= 1 << rng.below(8); }
        "sig_r" => { let s = sig_slot(&c, i, rng); let p = rng.range(4, 20) as usize; if c.items[i][s].len() < 40 { return None; } c.items[i][s][p] ^= 1 << rng.below(8); }
        "sig_s" => { let s = sig_slot(&c, i, rng); let l = c.items[i][s].len(); if l < 40 { return None; } let p = l - 2 - rng.below(20) as usize; c.items[i][s][p] ^= 1 << rng.below(8); }
        "sig_type" => { let s = sig_slot(&c, i, rng); let l = c.items[i][s].len(); c.items[i][s][l - 1] = *rng.pick(&[0x41u8, 0x42, 0x43, 0xc1, 0xc2, 0xc3, 0x01, 0x03, 0x00, 0x40, 0x5f, 0xff]); }
        // any single bit of the sighash byte (the digest commits to the whole byte, undefined bits included)
        "sig_type_bit" => { let s = sig_slot(&c, i, rng); let l = c.items[i][s].len(); c.items[i][s][l - 1] ^= 1 << rng.below(8); }
        "sig_type_forkid" => { let s = sig_slot(&c, i, rng); let l = c.items[i][s].len(); c.items[i][s][l - 1] ^= 0x40; }
        "sig_high_s" => { let s = sig_slot(&c, i, rng); c.items[i][s] = high_s(&c.items[i][s])?; }
        "sig_pad" => { let s = sig_slot(&c, i, rng); let sig = &mut c.items[i][s]; if sig.len() < 40 || sig[1] >= 0x7f { return None; } sig.insert(4, 0); sig[1] += 1; sig[3] += 1; }
        "sig_trunc" => { let s = sig_slot(&c, i, rng); let sig = &mut c.items[i][s]; if sig.len() < 10 { return None; } let ty = sig.pop().unwrap(); sig.pop(); if rng.chance(1, 2) { sig[1] -= 1; let p = 5 + sig[3] as usize; if p < sig.len() { sig[p] -= 1; } } sig.push(ty); }
        "sig_len" => { let s = sig_slot(&c, i, rng); let sig = &mut c.items[i][s]; let p = *rng.pick(&[1usize, 3]); sig[p] = sig[p].wrapping_add(*rng.pick(&[1u8, 0xff, 0x80])); }
        "sig_empty" => { let s = sig_slot(&c, i, rng); c.items[i][s] = vec![]; }
        "ms_swap" => { if c.kinds[i] != Kind::Ms23 { return None; } c.items[i].swap(1, 2); }
        "ms_same" => { if c.kinds[i] != Kind::Ms23 { return None; } c.items[i][2] = c.items[i][1].clone(); }
        "unlock_swap" => { if nin < 2 { return None; } let j = (i + 1) % nin; c.items.swap(i, j); }
        "dup_input" => { let t = c.tx.inputs[i].clone(); c.tx.inputs.push(t); c.items.push(vec![]); c.kinds.push(c.kinds[i]); }
        "in_add" => { let op = OutPoint { hash: Hash256([0x77; 32]), index: 0 }; c.utxos.push((op.clone(), TxOut { satoshis: 5, lock_script: Script(vec![0x51]) }));
            c.tx.inputs.push(TxIn { prev_output: op, unlock_script: Script(vec![]), sequence: 0xffff_ffff }); c.items.push(vec![]); c.kinds.push(Kind::P2pk); }
        "replay" => replay(&mut c, i),
        // bytes appended AFTER the sighash byte (the last byte of the push is the type, everything before it must be the DER body)
        "sig_tail" => { let s = sig_slot(&c, i, rng); let l = c.items[i][s].len(); if l == 0 { return None; } let ty = c.items[i][s][l - 1];
            let tail: Vec<u8> = match rng.below(5) { 0 => vec![0x00], 1 => vec![ty], 2 => vec![0x41], 3 => vec![0x01, ty], _ => vec![ty, ty] }; c.items[i][s].extend(tail); }
        "p2sh_out" => { let mut s = vec![0xa9, 0x14]; s.extend(rng.bytes(20)); s.push(0x87); c.tx.outputs[o].lock_script = Script(s); }
        "overspend" => c.tx.outputs[o].satoshis += 1_000_000,
        _ => return None,
    }
    c.rebuild();
    Some(c)
}

/// input `i`'s unlocking script REPLAYED on a new input that spends another output with the same locking script and amount
/// (a signature commits to the outpoint it spends: the copy must not unlock the second output, whatever the first one does)
fn replay(c: &mut Case, i: usize) {
    let t = c.utxo_of(i).clone();
    let op = OutPoint { hash: Hash256([0x66; 32]), index: 1 };
    c.utxos.push((op.clone(), t));
    let seq = c.tx.inputs[i].sequence;
    c.tx.inputs.push(TxIn { prev_output: op, unlock_script: Script(vec![]), sequence: seq });
    let its = c.items[i].clone(); c.items.push(its);
    let k = c.kinds[i]; c.kinds.push(k);
}

/// a handful of transactions that never reach the script loop (C04's pre-checks), so that the composed model is
/// exercised on every early exit as well
fn precheck_cases(rng: &mut Rng, out: &mut Vec<String>) {
    let b = base_case(rng);
    let mut c = b.clone(); c.tx.outputs.clear(); out.push(c.line());
    let mut c = b.clone(); c.tx.inputs.clear(); out.push(c.line());
    let mut c = b.clone(); c.tx.inputs[0].prev_output = OutPoint { hash: Hash256([0; 32]), index: 0xffff_ffff }; out.push(c.line());
    let mut c = b.clone(); c.tx.outputs[0].satoshis = -1; out.push(c.line());
    let mut c = b.clone(); c.tx.outputs[0].satoshis = 2_100_000_000_000_001; out.push(c.line());
    let mut c = b.clone(); c.utxos[0].1.satoshis = -5; out.push(c.line());
    let mut c = b.clone(); c.utxos.clear(); out.push(c.line());
}


/// check_locktime / check_sequence on a grid: single-input spends of `<n> OP_CLTV|OP_CSV <pk> OP_CHECKSIG` under pre-genesis
/// rules, correctly signed, over every combination of boundary lock times / sequences / versions and operands
fn timelock_grid(rng: &mut Rng, out: &mut Vec<String>) {
    let keys = key_pool();
    let mut emit = |opcode: u8, n: i64, version: u32, lock_time: u32, sequence: u32, rng: &mut Rng| {
        if !(-0x7fff_ffff..=0x7fff_ffff).contains(&n) { return; }
        let k = &keys[rng.below(keys.len() as u64) as usize];
        let mut lock = vec![]; push_with(&mut lock, &script_num(n), 0); lock.push(opcode); lock.extend(p2pk(&pk_bytes(k, true)));
        let op = OutPoint { hash: Hash256([0x31; 32]), index: 1 };
        let mut tx = Tx { version, inputs: vec![TxIn { prev_output: op.clone(), unlock_script: Script(vec![]), sequence }],
            outputs: vec![TxOut { satoshis: 900, lock_script: Script(vec![0x51]) }], lock_time };
        let ty = *rng.pick(&FORKID_TYPES);
        let sig = sign(&tx, 0, &lock, 1000, ty, k, rng);
        let mut u = vec![]; push_with(&mut u, &sig, 0); tx.inputs[0].unlock_script = Script(u);
        let c = Case { tx, utxos: vec![(op, TxOut { satoshis: 1000, lock_script: Script(lock) })], items: vec![vec![]], kinds: vec![Kind::Cltv], forkid: true, genesis: false };
        out.push(c.line());
    };
    for lt in [0u32, 100, 499_999_999, 500_000_000, 500_000_100, 0x7fff_ffff] {
        for n in [lt as i64 - 1, lt as i64, lt as i64 + 1, 0, -1, 499_999_999, 500_000_000] {
            for sequence in [0xffff_ffffu32, 0xffff_fffe, 0] { emit(0xb1, n, 1, lt, sequence, rng); } } }
    for version in [1u32, 2] { for sequence in [0u32, 5, 0xffff, (1 << 22) | 5, (1 << 31) | 5, 0x0001_0005] {
        let q = (sequence & 0xffff) as i64;
        for n in [q - 1, q, q + 1, 0, -1, q | (1 << 22), 0x7fff_ffff] { emit(0xb2, n, version, 0, sequence, rng); } } }
}

/// the real verdict, used only to steer the sampling towards accepted base transactions
fn accepted(c: &Case) -> bool {
    let mut utxos: LinkedHashMap<OutPoint, TxOut> = LinkedHashMap::new();
    for (o, t) in &c.utxos { utxos.insert(o.clone(), t.clone()); }
    c.tx.validate(c.forkid, c.genesis, &utxos, &HashSet::new()).is_ok()
}

pub fn gen(tier: &str, rng: &mut Rng, out: &mut Vec<String>) {
    let thorough = tier == "thorough";
    let nbase = if thorough { 1500 } else { 130 };
    let per = if thorough { 8 } else { 4 };
    for _ in 0..nbase {
        // four out of five mutation groups start from an accepted spend
        let mut b = base_case(rng);
        if rng.chance(4, 5) { let mut tries = 0; while !accepted(&b) && tries < 20 { b = base_case(rng); tries += 1; } }
        out.push(b.line());
        let mut done = 0; let mut tries = 0;
        while done < per && tries < 40 { tries += 1;
            let m = *rng.pick(&MUTATIONS);
            if let Some(c) = mutate(&b, m, rng) { out.push(c.line()); done += 1; } }
    }
    // every mutation at least a few times on small single-input spends
    for m in MUTATIONS.iter() { let mut got = 0; let mut tries = 0;
        while got < (if thorough { 20 } else { 3 }) && tries < 200 { tries += 1; let b = base_case(rng);
            if let Some(c) = mutate(&b, m, rng) { out.push(c.line()); got += 1; } } }
    // every bit of the sighash byte of an accepted spend, flipped in turn (input 0)
    for _ in 0..(if thorough { 40 } else { 6 }) {
        let mut b = base_case(rng); let mut tries = 0;
        while !accepted(&b) && tries < 30 { b = base_case(rng); tries += 1; }
        for bit in 0..8u8 {
            let mut c = b.clone();
            let s = sig_slot(&c, 0, rng); let l = c.items[0][s].len(); if l == 0 { continue; }
            c.items[0][s][l - 1] ^= 1 << bit;
            c.rebuild();
            out.push(c.line());
        }
    }
    // replay of an ANYONECANPAY-signed input (adding an input leaves such a signature valid, so the verdict rests on the copy alone)
    for _ in 0..(if thorough { 60 } else { 10 }) {
        let mut tries = 0;
        loop { tries += 1; if tries > 80 { break; }
            let b = base_case(rng);
            let s = sig_slot(&b, 0, rng);
            let acp = b.items[0].get(s).and_then(|x| x.last()).map(|t| t & 0x80 != 0).unwrap_or(false);
            if !acp || !accepted(&b) { continue; }
            let mut c = b.clone(); replay(&mut c, 0); c.rebuild();
            out.push(b.line()); out.push(c.line());
            break;
        }
    }
    for _ in 0..(if thorough { 20 } else { 2 }) { precheck_cases(rng, out); }
    for _ in 0..(if thorough { 5 } else { 1 }) { timelock_grid(rng, out); }
}

//! Constants and tables the Lean side depends on, printed from the crate's own items so the
//! values are whatever the current tree compiles to.
use std::io::Write;
pub fn print(w: &mut dyn Write) {
    writeln!(w, "MAX_SATOSHIS {}", chain_gang::messages::MAX_SATOSHIS).unwrap();
    writeln!(w, "MAX_PAYLOAD_SIZE {}", chain_gang::messages::MAX_PAYLOAD_SIZE).unwrap();
    writeln!(w, "MAX_INV_ENTRIES {}", chain_gang::messages::MAX_INV_ENTRIES).unwrap();
    writeln!(w, "BLOOM_FILTER_MAX_FILTER_SIZE {}", chain_gang::util::BLOOM_FILTER_MAX_FILTER_SIZE).unwrap();
    writeln!(w, "BLOOM_FILTER_MAX_HASH_FUNCS {}", chain_gang::util::BLOOM_FILTER_MAX_HASH_FUNCS).unwrap();
    writeln!(w, "BLOCK_HEADER_SIZE {}", chain_gang::messages::BlockHeader::SIZE).unwrap();
}

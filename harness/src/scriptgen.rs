//! Shared script machinery for C01/C07/C16/C17/C03: scripted checker, request formatting,
//! stack-shape-aware script grammar, boundary operand pool.
use crate::rng::Rng;
use crate::util::*;
use chain_gang::script::{Checker, Script, Stack};
use chain_gang::util::ChainGangError;
use std::cell::RefCell;

/// Checker that replays a scripted outcome list and records its arguments.
/// sig outcomes: 't' true, 'f' false, 'e' error (IllegalState); exhausted → false.
/// locktime / sequence: 't','f','e', 'p' = true iff the argument is even.
pub struct Scripted {
    pub sigs: Vec<char>,
    pub next: usize,
    pub lt: char,
    pub sq: char,
    pub log: RefCell<Vec<String>>,
}

impl Scripted {
    pub fn parse(s: &str) -> Scripted {
        let p: Vec<&str> = s.split(':').collect();
        let sigs = if p[0] == "-" { vec![] } else { p[0].chars().collect() };
        Scripted { sigs, next: 0, lt: p[1].chars().next().unwrap(), sq: p[2].chars().next().unwrap(), log: RefCell::new(vec![]) }
    }
    fn num(c: char, v: i32) -> Result<bool, ChainGangError> {
        match c { 't' => Ok(true), 'f' => Ok(false), 'p' => Ok(v % 2 == 0), _ => Err(ChainGangError::IllegalState("scripted".into())) }
    }
}

impl Checker for Scripted {
    fn check_sig(&mut self, sig: &[u8], pubkey: &[u8], script: &[u8]) -> Result<bool, ChainGangError> {
        self.log.borrow_mut().push(format!("{},{},{}", hexd(sig), hexd(pubkey), hexd(script)));
        let c = if self.next < self.sigs.len() { let c = self.sigs[self.next]; self.next += 1; c } else { 'f' };
        match c { 't' => Ok(true), 'f' => Ok(false), _ => Err(ChainGangError::IllegalState("scripted".into())) }
    }
    fn check_locktime(&self, locktime: i32) -> Result<bool, ChainGangError> { Scripted::num(self.lt, locktime) }
    fn check_sequence(&self, sequence: i32) -> Result<bool, ChainGangError> { Scripted::num(self.sq, sequence) }
}

pub fn show_stack(s: &Stack) -> String {
    if s.is_empty() { "=".into() } else { s.iter().map(|i| hexd(i)).collect::<Vec<_>>().join(",") }
}
pub fn parse_stack(s: &str) -> Option<Stack> {
    match s { "~" => None, "=" => Some(vec![]), _ => Some(s.split(',').map(unhexd).collect()) }
}
pub fn parse_opt(s: &str) -> Option<usize> { if s == "~" { None } else { Some(s.parse().unwrap()) } }
pub fn show_opt(o: Option<usize>) -> String { match o { None => "~".into(), Some(v) => v.to_string() } }

/// `<script> <flags> <start> <break> <stack> <alt> <oracle>` → canonical outcome of eval_with_stack
pub fn exec_eval(a: &[&str]) -> String {
    let script = Script(unhexd(a[0]));
    let flags: u32 = a[1].parse().unwrap();
    let mut chk = Scripted::parse(a[6]);
    match script.eval_with_stack(&mut chk, flags, parse_opt(a[2]), parse_opt(a[3]), parse_stack(a[4]), parse_stack(a[5])) {
        Ok((st, alt, pos)) => {
            let log = chk.log.borrow();
            let l = if log.is_empty() { "=".to_string() } else { log.join(";") };
            format!("ok:{}|{}|{}|{}", show_stack(&st), show_stack(&alt), show_opt(pos), l)
        }
        Err(e) => err_class(&e),
    }
}

/// `<script> <flags> <oracle>` → verdict of Script::eval
pub fn exec_verdict(a: &[&str]) -> String {
    let script = Script(unhexd(a[0]));
    let flags: u32 = a[1].parse().unwrap();
    let mut chk = Scripted::parse(a[2]);
    match script.eval(&mut chk, flags) { Ok(()) => "ok".into(), Err(e) => err_class(&e) }
}

// ---------------------------------------------------------------- operands

pub fn enc_num(v: i128) -> Vec<u8> {
    // minimal sign-magnitude little-endian
    if v == 0 { return vec![]; }
    let neg = v < 0; let mut m = v.unsigned_abs();
    let mut out = vec![];
    while m > 0 { out.push((m & 0xff) as u8); m >>= 8; }
    if out[out.len() - 1] & 0x80 != 0 { out.push(if neg { 0x80 } else { 0 }); } else if neg { let l = out.len(); out[l - 1] |= 0x80; }
    out
}

/// boundary operand pool: empty, ±0, non-minimal, ±(2^(8k-1)-1), ±2^(8k-1), random widths
pub fn operand(rng: &mut Rng) -> Vec<u8> {
    match rng.below(16) {
        0 => vec![],
        1 => vec![0x80],
        2 => vec![0x00],
        3 => { let k = rng.range(1, 10) as u32; let v: i128 = (1i128 << (8 * k - 1)) - 1; enc_num(if rng.chance(1, 2) { v } else { -v }) }
        4 => { let k = rng.range(1, 10) as u32; let v: i128 = 1i128 << (8 * k - 1); enc_num(if rng.chance(1, 2) { v } else { -v }) }
        5 => { let mut v = enc_num(rng.range(0, 300) as i128 - 150); if v.is_empty() { v.push(0); } let l = v.len(); let s = v[l - 1] & 0x80; v[l - 1] &= 0x7f; for _ in 0..rng.range(1, 3) { v.push(0); } let l = v.len(); v[l - 1] |= s; v } // non-minimal
        6 | 7 | 8 => enc_num(rng.range(0, 20) as i128 - 4),
        9 => enc_num((rng.next() as i64 >> rng.range(0, 62)) as i128),
        10 => enc_num(((rng.next() as i128) << 40) ^ (rng.next() as i128) * if rng.chance(1, 2) { -1 } else { 1 }),
        11 => { let n = rng.range(1, 40) as usize; rng.bytes(n) }
        12 => { let n = rng.range(1, 8) as usize; rng.bytes(n) }
        13 => { let n = if rng.chance(1, 6) { rng.range(70, 600) } else { rng.range(1, 80) } as usize; rng.bytes(n) }
        14 => enc_num(*rng.pick(&[127i128, 128, 255, 256, 32767, 32768, 65535, 65536, 8388607, 8388608, 2147483647, 2147483648, 4294967295, 4294967296])),
        _ => enc_num(-*rng.pick(&[127i128, 128, 255, 256, 32767, 32768, 8388607, 8388608, 2147483647, 2147483648])),
    }
}

pub fn small_num(rng: &mut Rng) -> Vec<u8> {
    match rng.below(8) { 0 => vec![], 1 => enc_num(-1), 2 => vec![0x80], 3 => enc_num(rng.range(0, 70) as i128), 4 => enc_num(rng.range(0, 20) as i128 - 3), _ => enc_num(rng.range(0, 9) as i128) }
}

/// push `data` using push class `class` (0 = shortest, 1 = PUSHDATA1, 2 = PUSHDATA2, 3 = PUSHDATA4 when representable)
pub fn push_with(out: &mut Vec<u8>, data: &[u8], class: u64) {
    let n = data.len();
    match class {
        1 if n <= 255 => { out.push(76); out.push(n as u8); }
        2 if n <= 65535 => { out.push(77); out.push(n as u8); out.push((n >> 8) as u8); }
        3 => { out.push(78); out.push(n as u8); out.push((n >> 8) as u8); out.push((n >> 16) as u8); out.push((n >> 24) as u8); }
        _ => {
            if n == 0 { out.push(0); return; }
            if n <= 75 { out.push(n as u8); }
            else if n <= 255 { out.push(76); out.push(n as u8); }
            else if n <= 65535 { out.push(77); out.push(n as u8); out.push((n >> 8) as u8); }
            else { out.push(78); out.push(n as u8); out.push((n >> 8) as u8); out.push((n >> 16) as u8); out.push((n >> 24) as u8); }
        }
    }
    out.extend_from_slice(data);
}

pub fn push(out: &mut Vec<u8>, data: &[u8], rng: &mut Rng) {
    // small numbers sometimes through OP_n / OP_1NEGATE
    if data.len() == 1 && rng.chance(1, 2) {
        let b = data[0];
        if (1..=16).contains(&b) { out.push(80 + b); return; }
        if b == 0x81 { out.push(79); return; }
    }
    let class = if rng.chance(1, 6) { rng.range(1, 3) } else { 0 };
    push_with(out, data, class);
}

// ---------------------------------------------------------------- grammar

pub const UNARY_NUM: [u8; 8] = [139, 140, 143, 144, 145, 146, 141, 142];
pub const BINARY_NUM: [u8; 17] = [147, 148, 149, 150, 151, 154, 155, 156, 158, 159, 160, 161, 162, 163, 164, 157, 147];
pub const HASHES: [u8; 5] = [166, 167, 168, 169, 170];
pub const ALL_OPS: [u8; 110] = {
    let mut a = [0u8; 110]; let mut i = 0; let mut v = 76u16;
    while v <= 185 { a[i] = v as u8; i += 1; v += 1; }
    a
};

pub struct Gen<'a> { pub rng: &'a mut Rng, pub out: Vec<u8>, pub depth: usize, pub nest: usize, pub sig_outcomes: String, pub budget: usize }

impl<'a> Gen<'a> {
    pub fn new(rng: &'a mut Rng) -> Gen<'a> { Gen { rng, out: vec![], depth: 0, nest: 0, sig_outcomes: String::new(), budget: 0 } }
    fn op(&mut self, b: u8) { self.out.push(b); }
    fn dec(&mut self, n: usize) { self.depth = self.depth.saturating_sub(n); }
    fn pushd(&mut self, d: &[u8]) { let mut o = std::mem::take(&mut self.out); push(&mut o, d, self.rng); self.out = o; self.depth += 1; }
    fn need(&mut self, n: usize) { while self.depth < n { let d = operand(self.rng); self.pushd(&d); } }

    /// one statement; most leave the (estimated) stack consistent so that later opcodes execute
    pub fn stmt(&mut self) {
        let r = self.rng.below(100);
        match r {
            0..=13 => { let d = operand(self.rng); self.pushd(&d); }
            14..=21 => { self.need(1); let o = *self.rng.pick(&UNARY_NUM); self.op(o); }
            22..=37 => {
                // binary numeric on two fresh operands more often than not
                if self.rng.chance(2, 3) { let a = operand(self.rng); self.pushd(&a); let b = operand(self.rng); self.pushd(&b); } else { self.need(2); }
                let o = *self.rng.pick(&BINARY_NUM); self.op(o); self.dec(1); if o == 157 { self.dec(1); }
            }
            38..=40 => { // WITHIN
                for _ in 0..3 { let a = operand(self.rng); self.pushd(&a); } self.op(165); self.dec(2);
            }
            41..=52 => { // stack manipulation
                let (o, need, delta): (u8, usize, i32) = *self.rng.pick(&[(107, 1, -1), (115, 1, 0), (116, 0, 1), (117, 1, -1), (118, 1, 1), (119, 2, -1), (120, 2, 1), (123, 3, 0), (124, 2, 0), (125, 2, 1), (109, 2, -2), (110, 2, 2), (111, 3, 3), (112, 4, 2), (113, 6, 0), (114, 4, 0)]);
                self.need(need); self.op(o); self.depth = (self.depth as i32 + delta).max(0) as usize;
                if o == 107 && self.rng.chance(2, 3) { self.op(108); self.depth += 1; }
            }
            53..=55 => { // PICK / ROLL
                self.need(1); let n = if self.rng.chance(4, 5) { self.rng.below(self.depth as u64 + 1) } else { self.rng.below(6) } as i128;
                let nn = if self.rng.chance(1, 12) { -1 } else { n }; self.pushd(&enc_num(nn)); let o = if self.rng.chance(1, 2) { 121 } else { 122 }; self.op(o);
                if o == 122 { self.dec(1); }
            }
            56..=60 => { // CAT / SPLIT / SIZE
                match self.rng.below(3) {
                    0 => { self.need(2); self.op(126); self.dec(1); }
                    1 => { let d = operand(self.rng); let n = if self.rng.chance(5, 6) { self.rng.below(d.len() as u64 + 1) as i128 } else { d.len() as i128 + 1 }; self.pushd(&d); self.pushd(&enc_num(n)); self.op(127); }
                    _ => { self.need(1); self.op(130); self.depth += 1; }
                }
            }
            61..=66 => { // bitwise on equal-length operands (mostly)
                let n = self.rng.range(0, 12) as usize; let a = self.rng.bytes(n); let m = if self.rng.chance(9, 10) { n } else { n + 1 }; let b = self.rng.bytes(m);
                match self.rng.below(4) { 0 => { self.pushd(&a); self.op(131); } k => { self.pushd(&a); self.pushd(&b); self.op(131 + k as u8); self.dec(1); } }
            }
            67..=72 => { // shifts
                let n = if self.rng.chance(1, 8) { self.rng.range(0, 40) } else { self.rng.range(0, 9) } as usize; let d = self.rng.bytes(n);
                let s = match self.rng.below(10) { 0 => -1, 1 => 8 * n as i128, 2 => 8 * n as i128 + 1, 3 => self.rng.range(0, 2147483647) as i128, _ => self.rng.below(8 * n as u64 + 9) as i128 };
                self.pushd(&d); self.pushd(&enc_num(s)); { let o_ = if self.rng.chance(1, 2) { 152 } else { 153 }; self.op(o_) }; self.dec(1);
            }
            73..=77 => { // NUM2BIN / BIN2NUM
                if self.rng.chance(1, 2) {
                    let d = operand(self.rng); let m = match self.rng.below(6) { 0 => 0, 1 => d.len() as i128, 2 => d.len() as i128 + 1, 3 => self.rng.range(1, 12) as i128, 4 => d.len() as i128 - 1, _ => d.len() as i128 + self.rng.range(0, 5) as i128 };
                    self.pushd(&d); self.pushd(&enc_num(m)); self.op(128); self.dec(1);
                    if self.rng.chance(1, 2) { self.op(129); }
                } else { self.need(1); self.op(129); }
            }
            78..=80 => { self.need(1); let o = *self.rng.pick(&HASHES); self.op(o); }
            81..=84 => { // EQUAL / EQUALVERIFY / VERIFY
                match self.rng.below(3) {
                    0 => { self.need(1); self.op(118); self.op(135); }
                    1 => { self.need(2); self.op(135); self.dec(1); }
                    _ => { let d = if self.rng.chance(5, 6) { vec![1] } else { small_num(self.rng) }; self.pushd(&d); self.op(105); self.dec(1); }
                }
            }
            85..=90 => { // IF / NOTIF ... [ELSE ...]* ENDIF
                if self.nest < 4 && self.budget > 2 {
                    let c = match self.rng.below(8) { 0 => vec![], 1 => vec![0x80], 2 => vec![0, 0], 3 => self.rng.bytes(5), _ => vec![self.rng.range(0, 2) as u8] };
                    self.pushd(&c); { let o_ = if self.rng.chance(2, 3) { 99 } else { 100 }; self.op(o_) }; self.dec(1); self.nest += 1;
                    let d0 = self.depth;
                    let n = self.rng.range(0, 3); for _ in 0..n { if self.budget > 0 { self.budget -= 1; self.stmt(); } }
                    let elses = match self.rng.below(6) { 0 => 0, 5 => 2, _ => 1 };
                    for _ in 0..elses { self.depth = d0; self.op(103); let n = self.rng.range(0, 3); for _ in 0..n { if self.budget > 0 { self.budget -= 1; self.stmt(); } } }
                    if !self.rng.chance(1, 25) { self.op(104); }
                    self.nest -= 1; self.depth = d0;
                } else { self.op(97); }
            }
            91..=93 => { // CHECKSIG family with scripted outcomes
                let mut sig = { let n_ = self.rng.range(0, 12) as usize + 1; self.rng.bytes(n_) }; let l = sig.len(); if self.rng.chance(2, 3) { sig[l - 1] |= 0x40; } else { sig[l - 1] &= !0x40; }
                if self.rng.chance(1, 10) { sig.clear(); }
                let pk = { let n_ = self.rng.range(0, 5) as usize; self.rng.bytes(n_) };
                // sometimes the raw signature bytes also occur at an opcode boundary BEFORE a code separator
                // (remove_sig must work on script[check_index..], not on the whole script)
                let early = self.rng.chance(1, 4) && !sig.is_empty();
                if early { let mut o = std::mem::take(&mut self.out); push_with(&mut o, &sig, 0); o.push(117); self.out = o; }
                if early || self.rng.chance(1, 3) { self.op(171); }
                self.pushd(&sig); self.pushd(&pk);
                let v = self.rng.chance(1, 3); self.op(if v { 173 } else { 172 });
                let c_ = *self.rng.pick(&['t', 't', 't', 'f', 'e']); self.sig_outcomes.push(c_); self.dec(if v { 2 } else { 1 });
                if self.rng.chance(1, 2) && !sig.is_empty() { // the signature also appears later in the script (remove_sig)
                    let mut o = std::mem::take(&mut self.out); push_with(&mut o, &sig, 0); o.push(117); self.out = o;
                }
            }
            94..=95 => { // CHECKMULTISIG
                let n = self.rng.range(0, 4); let m = if self.rng.chance(1, 10) { n + 1 } else { self.rng.range(0, n) };
                self.pushd(&[]);
                for _ in 0..m { let mut sig = { let n_ = self.rng.range(1, 6) as usize; self.rng.bytes(n_) }; let l = sig.len(); if self.rng.chance(1, 2) { sig[l - 1] |= 0x40 } else { sig[l - 1] &= !0x40 }; self.pushd(&sig); let c_ = *self.rng.pick(&['t', 't', 'f', 'e']); self.sig_outcomes.push(c_); }
                self.pushd(&enc_num(m as i128));
                for _ in 0..n { let pk = { let n_ = self.rng.range(0, 4) as usize; self.rng.bytes(n_) }; self.pushd(&pk); let c_ = *self.rng.pick(&['t', 'f']); self.sig_outcomes.push(c_); }
                self.pushd(&enc_num(n as i128)); let v = self.rng.chance(1, 3); self.op(if v { 175 } else { 174 });
                self.depth = self.depth.saturating_sub((n + m + 3) as usize) + if v { 0 } else { 1 };
            }
            96 => { let d = small_num(self.rng); self.pushd(&d); { let o_ = if self.rng.chance(1, 2) { 177 } else { 178 }; self.op(o_) }; }
            97 => { let o_ = *self.rng.pick(&[97u8, 176, 179, 180, 185, 171]); self.op(o_); }
            98 => { if self.rng.chance(1, 3) { self.op(106); } else { self.op(116); self.depth += 1; } }
            _ => { let o = *self.rng.pick(&ALL_OPS); if o != 128 { self.op(o); } } // anything (reserved/bad opcodes too) except NUM2BIN on an arbitrary size operand (memory cap)
        }
    }
}

pub struct GenScript { pub script: Vec<u8>, pub oracle: String }

/// grammar script of about `n` statements
pub fn gen_script(rng: &mut Rng, n: usize) -> GenScript {
    let mut g = Gen::new(rng);
    g.budget = n;
    while g.budget > 0 { g.budget -= 1; g.stmt(); }
    if g.rng.chance(1, 3) { g.need(1); }
    let lt = *g.rng.pick(&['t', 't', 'p', 'f', 'e']); let sq = *g.rng.pick(&['t', 't', 'p', 'f', 'e']);
    let sigs = if g.sig_outcomes.is_empty() { "-".to_string() } else { g.sig_outcomes.clone() };
    GenScript { script: g.out, oracle: format!("{}:{}:{}", sigs, lt, sq) }
}

pub fn eval_req(prefix: &str, script: &[u8], flags: u32, start: Option<usize>, brk: Option<usize>, stack: &str, alt: &str, oracle: &str) -> String {
    format!("{}.eval {} {} {} {} {} {} {}", prefix, hexd(script), flags, show_opt(start), show_opt(brk), stack, alt, oracle)
}

/// boundary operand set for the bounded-exhaustive enumeration
pub fn boundary_pushes() -> Vec<Vec<u8>> {
    vec![vec![], vec![0x80], vec![1], vec![0x81], vec![2], vec![0x7f], vec![0x80, 0x00], vec![0xff, 0xff, 0xff, 0x7f], vec![0, 0, 0, 0, 1]]
}

/// the enumeration alphabet: every opcode byte 76..=185 as a single-byte instruction (push opcodes
/// 76-78 need following bytes and are covered by the grammar instead) plus boundary pushes
pub fn alphabet() -> Vec<Vec<u8>> {
    let mut a: Vec<Vec<u8>> = vec![];
    for p in boundary_pushes() { let mut o = vec![]; push_with(&mut o, &p, 0); a.push(o); }
    for b in 79u8..=185 { a.push(vec![b]); }
    a
}

//! C02 — signature-hash digests conform to BIP-143/FORKID and the legacy algorithm; cache transparency.
//!
//!   c02.seq   <version> <lock_time> <ins> <outs> <reqs>     answers of a request sequence sharing ONE SigHashCache
//!   c02.cache <version> <lock_time> <ins> <outs> <reqs>     the three cache slots after the sequence
//!       ins  = comma list of  hash:index:unlockhex:sequence      (hash = 64 hex digits, or 2 = that byte x 32)
//!       outs = comma list of  satoshis:lockhex
//!       reqs = `;` list of    kind:n_input:script_code_hex:checksig_index:satoshis:flag_byte
//!       kind: p = sig_hash_preimage_checksig_index   P = sig_hash_preimage (index must be 0)
//!             h = sighash_checksig_index             H = sighash
//!             w = wallet::create_sighash_checksig_index   W = wallet::create_sighash   (fresh cache inside)
//!   answer per request: ok:<hex> | err:<Variant>, joined with `;`;  c02.cache: ok:<prevouts>,<sequence>,<outputs> (hex or -)
use crate::rng::Rng;
use crate::util::*;
use chain_gang::messages::{OutPoint, Tx, TxIn, TxOut};
use chain_gang::script::Script;
use chain_gang::transaction::sighash::{sig_hash_preimage, sig_hash_preimage_checksig_index, sighash, sighash_checksig_index, SigHashCache};
use chain_gang::util::Hash256;
use chain_gang::wallet::wallet::{create_sighash, create_sighash_checksig_index};

pub fn tables(_w: &mut dyn std::io::Write) {}

fn parse_hash(s: &str) -> Hash256 {
    let b = unhexd(s);
    let mut a = [0u8; 32];
    if b.len() == 1 { a = [b[0]; 32]; } else { a.copy_from_slice(&b); }
    Hash256(a)
}
fn split_list(s: &str, sep: char) -> Vec<&str> { if s == "-" { vec![] } else { s.split(sep).collect() } }

fn parse_tx(a: &[&str]) -> Tx {
    Tx {
        version: a[0].parse().unwrap(),
        lock_time: a[1].parse().unwrap(),
        inputs: split_list(a[2], ',').iter().map(|s| { let f: Vec<&str> = s.split(':').collect();
            TxIn { prev_output: OutPoint { hash: parse_hash(f[0]), index: f[1].parse().unwrap() }, unlock_script: Script(unhexd(f[2])), sequence: f[3].parse().unwrap() } }).collect(),
        outputs: split_list(a[3], ',').iter().map(|s| { let f: Vec<&str> = s.split(':').collect();
            TxOut { satoshis: f[0].parse().unwrap(), lock_script: Script(unhexd(f[1])) } }).collect(),
    }
}

fn run_seq(tx: &Tx, reqs: &str, cache: &mut SigHashCache) -> String {
    let mut answers = Vec::new();
    for r in split_list(reqs, ';') {
        let f: Vec<&str> = r.split(':').collect();
        let n: usize = f[1].parse().unwrap();
        let code = unhexd(f[2]);
        let k: usize = f[3].parse().unwrap();
        let sat: i64 = f[4].parse().unwrap();
        let ty: u8 = f[5].parse().unwrap();
        let bytes = |h: Hash256| h.0.to_vec();
        let res = match f[0] {
            "p" => sig_hash_preimage_checksig_index(tx, n, &code, k, sat, ty, cache),
            "P" => sig_hash_preimage(tx, n, &code, sat, ty, cache),
            "h" => sighash_checksig_index(tx, n, &code, k, sat, ty, cache).map(bytes),
            "H" => sighash(tx, n, &code, sat, ty, cache).map(bytes),
            "w" => create_sighash_checksig_index(tx, n, &Script(code.clone()), k, sat, ty).map(bytes),
            "W" => create_sighash(tx, n, &Script(code.clone()), sat, ty).map(bytes),
            _ => panic!("bad request kind"),
        };
        answers.push(match res { Ok(b) => format!("ok:{}", hexd(&b)), Err(e) => err_class(&e) });
    }
    answers.join(";")
}

pub fn exec(op: &str, a: &[&str]) -> Option<String> {
    match op {
        "c02.seq" => { let tx = parse_tx(a); let mut c = SigHashCache::new(); Some(run_seq(&tx, a[4], &mut c)) }
        "c02.cache" => {
            let tx = parse_tx(a); let mut c = SigHashCache::new(); let _ = run_seq(&tx, a[4], &mut c);
            let f = |o: Option<&Hash256>| match o { Some(h) => hexd(&h.0), None => "-".to_string() };
            Some(format!("ok:{},{},{}", f(c.hash_prevouts()), f(c.hash_sequence()), f(c.hash_outputs())))
        }
        _ => None,
    }
}

// ------------------------------------------------------------------------------------------------
// generators

const CS: u8 = 0xab; // OP_CODESEPARATOR
const CK: u8 = 0xac; // OP_CHECKSIG

fn amount(rng: &mut Rng) -> i64 {
    let pool: [i64; 14] = [0, 1, -1, i64::MAX, i64::MIN, 1 << 62, 2_100_000_000_000_000, 2_100_000_000_000_001, 260_000_000, 546, -2_100_000_000_000_000, 0xff, 0x100, 1 << 32];
    if rng.chance(1, 2) { *rng.pick(&pool) } else { rng.next() as i64 }
}
fn u32b(rng: &mut Rng) -> u32 { match rng.below(6) { 0 => 0, 1 => 1, 2 => u32::MAX, 3 => u32::MAX - 1, 4 => 0x8000_0000, _ => rng.next() as u32 } }

/// 20 "hash" bytes; `mode` forces separator / checksig byte values into them
fn h20(rng: &mut Rng, mode: u64) -> Vec<u8> {
    let mut h: Vec<u8> = (0..20).map(|_| loop { let b = rng.byte(); if b != CS && b != CK { break b; } }).collect();
    let mut put = |rng: &mut Rng, h: &mut Vec<u8>, v: u8| { let p = rng.below(20) as usize; h[p] = v; };
    match mode { 0 => {} 1 => put(rng, &mut h, CS), 2 => { put(rng, &mut h, CS); put(rng, &mut h, CS); }, 3 => put(rng, &mut h, CK), 4 => { put(rng, &mut h, CS); put(rng, &mut h, CK); },
        5 => { for _ in 0..rng.range(3, 6) { let v = if rng.chance(1, 2) { CS } else { CK }; put(rng, &mut h, v); } }, _ => { h = rng.bytes(20); } }
    h
}
fn p2pkh(h: &[u8]) -> Vec<u8> { let mut s = vec![0x76, 0xa9, 0x14]; s.extend_from_slice(h); s.extend_from_slice(&[0x88, CK]); s }
fn push(data: &[u8]) -> Vec<u8> {
    let mut s = Vec::new();
    if data.len() >= 1 && data.len() <= 75 { s.push(data.len() as u8); } else if data.len() <= 255 { s.push(0x4c); s.push(data.len() as u8); } else { s.push(0x4d); s.push(data.len() as u8); s.push((data.len() >> 8) as u8); }
    s.extend_from_slice(data); s
}

/// returns (script code, number of OP_CHECKSIG *operations*)
fn script_code(rng: &mut Rng, clean_bias: bool) -> (Vec<u8>, usize) {
    let hm = if clean_bias { 0 } else { *rng.pick(&[0u64, 0, 1, 2, 3, 4, 5, 6]) };
    match rng.below(16) {
        14 | 15 => { // total script-code LENGTH exactly at and around the var-int class boundaries (252/253/254, 255/256, 65535/65536)
            let target = *rng.pick(&[252usize, 253, 253, 254, 255, 256, 300, 1000]);
            let tail = p2pkh(&h20(rng, 0)); let mut s: Vec<u8> = Vec::new();
            if rng.chance(1, 3) { s.push(CS); }
            while s.len() + tail.len() + 2 <= target { s.push(0x51); s.push(0x75); }
            while s.len() + tail.len() < target { s.push(0x61); }
            s.extend(tail); (s, 1) }
        0 | 1 => (p2pkh(&h20(rng, hm)), 1),
        2 => { let mut s = vec![CS]; s.extend(p2pkh(&h20(rng, hm))); (s, 1) }                                     // separator at offset 0
        3 => { let mut s = vec![0x51, 0x75, CS]; s.extend(if rng.chance(1, 2) { vec![0x76, CK] } else { p2pkh(&h20(rng, hm)) }); (s, 1) } // one separator, non-zero offset
        4 => { let mut s = vec![CS, 0x51, 0x75, CS]; s.extend(p2pkh(&h20(rng, hm))); (s, 1) }                     // two separators before the check
        5 => { // several checks, separators between them
            let n = rng.range(2, 4) as usize; let mut s = Vec::new();
            for j in 0..n { if rng.chance(2, 3) { s.push(CS); } if rng.chance(1, 2) { s.extend(push(&h20(rng, hm))); s.push(0x75); } s.push(0x76); s.push(CK); if j + 1 < n { s.push(0x69); } }
            (s, n) }
        6 => { // separator AFTER the check (legacy: in the claim; FORKID: outside)
            let mut s = if rng.chance(1, 2) { vec![CS] } else { vec![] }; s.extend(p2pkh(&h20(rng, 0))); s.extend_from_slice(&[0x69, CS, 0x51]); (s, 1) }
        7 => { // PUSHDATA1/2 payloads holding the byte values, PUSHDATA1 whose length byte is 0xab / 0xac
            let len = *rng.pick(&[76usize, 171, 172, 200, 255, 256, 300]); let mut d = rng.bytes(len);
            if rng.chance(1, 2) { for b in d.iter_mut() { if *b == CS || *b == CK { *b = 0; } } }
            let mut s = if rng.chance(1, 2) { vec![CS] } else { vec![] }; s.extend(push(&d)); s.push(0x75); s.extend(p2pkh(&h20(rng, 0))); (s, 1) }
        8 => (vec![], 0),
        9 => { // multisig / CHECKSIGVERIFY scripts without OP_CHECKSIG, with and without separators
            let mut s = if rng.chance(1, 2) { vec![CS, 0x51] } else { vec![0x51] }; s.extend(push(&rng.bytes(33)));
            if rng.chance(1, 2) { s.extend_from_slice(&[0x51, 0xae]); } else { s.extend_from_slice(&[0xad, CS, 0x51]); }
            let s: Vec<u8> = s.iter().enumerate().map(|(i, b)| if (*b == CS || *b == CK) && i > 0 && i < 36 { 0 } else { *b }).collect(); (s, 0) }
        10 => { // random bytes (possibly truncated pushes); "separator byte but no checksig byte" included (guarded since 0252e8b)
            let len = rng.range(1, 40) as usize; let mut s = rng.bytes(len);
            if rng.chance(1, 3) { let p = rng.below(s.len() as u64) as usize; s[p] = CS; }
            if s.contains(&CS) && !s.contains(&CK) && rng.chance(1, 2) { s.push(CK); }
            let n = s.iter().filter(|b| **b == CK).count(); (s, n) }
        11 => { // the pinned tests' fixture shape: hash bytes WITHOUT a push opcode
            let mut s = vec![CS, 0x6e, 0x51, 0x75, CS, 0x76, 0xa9]; s.extend(h20(rng, 0)); s.extend_from_slice(&[0x88, CK]); (s, 1) }
        12 => { let mut s = vec![CS, CS]; s.extend(p2pkh(&h20(rng, hm))); (s, 1) }
        _ => { let mut s = p2pkh(&h20(rng, hm)); s.insert(0, 0x51); s.insert(1, 0x75); (s, 1) }
    }
}

fn flag(rng: &mut Rng, i: usize, all_flags: bool) -> u8 {
    if all_flags { return i as u8; }
    match rng.below(10) {
        0..=4 => *rng.pick(&[0x41u8, 0x42, 0x43, 0xc1, 0xc2, 0xc3]),
        5 | 6 => *rng.pick(&[0x01u8, 0x02, 0x03, 0x81, 0x82, 0x83]),
        7 => *rng.pick(&[0x00u8, 0x40, 0x80, 0xc0, 0x1f, 0x5f, 0xff, 0x7f, 0x04, 0x44, 0x22, 0x63]),
        _ => rng.byte(),
    }
}

fn gen_tx(rng: &mut Rng) -> (String, usize, usize) {
    let n_in = match rng.below(12) { 0 => 0, 1 => 8, _ => rng.range(1, 5) } as usize;
    let n_out = match rng.below(12) { 0 => 0, 1 => 8, _ => rng.range(0, 5) } as usize;
    let ins: Vec<String> = (0..n_in).map(|_| {
        let h = if rng.chance(1, 2) { format!("{:02x}", rng.byte()) } else { hexd(&rng.bytes(32)) };
        let ul = *rng.pick(&[0usize, 0, 1, 5, 107, 253]);
        format!("{}:{}:{}:{}", h, u32b(rng), hexd(&rng.bytes(ul)), u32b(rng)) }).collect();
    let outs: Vec<String> = (0..n_out).map(|_| {
        let l = match rng.below(5) { 0 => vec![], 1 => { let n = *rng.pick(&[1usize, 30, 252, 253, 300]); rng.bytes(n) }, _ => p2pkh(&rng.bytes(20)) };
        format!("{}:{}", amount(rng), hexd(&l)) }).collect();
    (format!("{} {} {} {}", u32b(rng), u32b(rng), if ins.is_empty() { "-".into() } else { ins.join(",") }, if outs.is_empty() { "-".into() } else { outs.join(",") }), n_in, n_out)
}

pub fn gen(tier: &str, rng: &mut Rng, out: &mut Vec<String>) {
    let thorough = tier == "thorough";
    let n_tx = if thorough { 150_000 } else { 6_000 };
    for t in 0..n_tx {
        let (txs, n_in, _n_out) = gen_tx(rng);
        let all_flags = t % 10 == 9 && (thorough || t % 100 == 99);
        let clean_bias = t % 3 == 0; // a third of the transactions use only scripts on which the selections agree
        let n_req = if all_flags { 256 } else { rng.range(1, 6) as usize };
        let shared_code = script_code(rng, clean_bias);
        let mut reqs = Vec::new();
        for i in 0..n_req {
            let kind = if all_flags { *rng.pick(&["p", "h", "H"]) } else { *rng.pick(&["p", "p", "P", "h", "h", "H", "H", "w", "W"]) };
            let n = if n_in == 0 || rng.chance(1, 12) { n_in + rng.below(3) as usize } else { rng.below(n_in as u64) as usize };
            let (code, n_checks) = if rng.chance(1, 2) { shared_code.clone() } else { script_code(rng, clean_bias) };
            let k = if kind == "P" || kind == "H" || kind == "W" { 0 } else if n_checks == 0 { rng.below(2) as usize } else if rng.chance(1, 10) { n_checks + rng.below(2) as usize } else { rng.below(n_checks as u64) as usize };
            reqs.push(format!("{}:{}:{}:{}:{}:{}", kind, n, hexd(&code), k, amount(rng), flag(rng, i, all_flags)));
        }
        let reqs = reqs.join(";");
        out.push(format!("c02.seq {} {}", txs, reqs));
        if t % 3 == 1 { out.push(format!("c02.cache {} {}", txs, reqs)); }
    }
}

//! C03 — spends are authorised only by valid, canonical signatures.
use crate::rng::Rng;
use crate::scriptgen::*;
use crate::util::*;
use chain_gang::messages::{OutPoint, Tx, TxIn, TxOut};
use chain_gang::script::Script;
use chain_gang::transaction::generate_signature;
use chain_gang::transaction::p2pkh::{create_lock_script, create_unlock_script};
use chain_gang::transaction::sighash::{sighash, SigHashCache, SIGHASH_ALL, SIGHASH_ANYONECANPAY, SIGHASH_FORKID, SIGHASH_NONE, SIGHASH_SINGLE};
use chain_gang::util::{hash160, Hash256};
use k256::ecdsa::{SigningKey, VerifyingKey};
use linked_hash_map::LinkedHashMap;
use std::collections::HashSet;

pub fn tables(_w: &mut dyn std::io::Write) {}

pub fn pubkey(privk: &[u8; 32]) -> [u8; 33] {
    let sk = SigningKey::from_slice(privk).unwrap();
    let vk = VerifyingKey::from(&sk);
    let mut out = [0u8; 33]; out.copy_from_slice(&vk.to_encoded_point(true).as_bytes()[..33]); out
}

pub fn keys() -> Vec<[u8; 32]> { vec![[1u8; 32], [2u8; 32], [3u8; 32]] }

/// the locking-script templates of the authorisation clause: P2PKH, P2PK, 2-of-3 and 1-of-1 multisig
pub fn templates() -> Vec<(&'static str, Vec<u8>)> {
    let pks: Vec<[u8; 33]> = keys().iter().map(pubkey).collect();
    let p2pkh = create_lock_script(&hash160(&pks[0])).0;
    let mut p2pk = vec![]; push_with(&mut p2pk, &pks[0], 0); p2pk.push(0xac);
    let mut ms23 = vec![0x52]; for p in &pks { push_with(&mut ms23, p, 0); } ms23.push(0x53); ms23.push(0xae);
    let mut ms11 = vec![0x51]; push_with(&mut ms11, &pks[1], 0); ms11.push(0x51); ms11.push(0xae);
    vec![("p2pkh", p2pkh), ("p2pk", p2pk), ("ms23", ms23), ("ms11", ms11)]
}

fn spend_tx(lock: &[u8], unlock: &[u8], satoshis: i64) -> (Tx, LinkedHashMap<OutPoint, TxOut>) {
    let op = OutPoint { hash: Hash256([9u8; 32]), index: 0 };
    let tx = Tx { version: 2, inputs: vec![TxIn { prev_output: op.clone(), unlock_script: Script(unlock.to_vec()), sequence: 0xffffffff }],
        outputs: vec![TxOut { satoshis: satoshis - 1, lock_script: Script(vec![0x51]) }], lock_time: 0 };
    let mut utxos = LinkedHashMap::new();
    utxos.insert(op, TxOut { satoshis, lock_script: Script(lock.to_vec()) });
    (tx, utxos)
}

fn validate(tx: &Tx, utxos: &LinkedHashMap<OutPoint, TxOut>, genesis: bool, forkid: bool) -> String {
    match tx.validate(forkid, genesis, utxos, &HashSet::new()) { Ok(()) => "ok".into(), Err(_) => "err".into() }
}

pub fn exec(op: &str, a: &[&str]) -> Option<String> {
    match op {
        // c03.spend <lock> <unlock> <g|p> <forkid 0|1>: attacker-chosen unlocking script, no valid signature inside
        "c03.spend" => {
            let (tx, utxos) = spend_tx(&unhexd(a[0]), &unhexd(a[1]), 1000);
            Some(validate(&tx, &utxos, a[2] == "g", a[3] == "1"))
        }
        // c03.sig <priv> <digest> <type> <sig as generated at request time>: signatures are deterministic
        "c03.sig" => {
            let mut k = [0u8; 32]; k.copy_from_slice(&unhexd(a[0]));
            let mut d = [0u8; 32]; d.copy_from_slice(&unhexd(a[1]));
            Some(match generate_signature(&k, &Hash256(d), a[2].parse().unwrap()) { Ok(s) => format!("ok:{}:{}", hexd(&pubkey(&k)), hexd(&s)), Err(e) => err_class(&e) })
        }
        // c03.signed <template> <type> <g|p> <forkid>: library-signed spend of each template must be accepted
        "c03.signed" => {
            let t = templates().into_iter().find(|(n, _)| *n == a[0]).unwrap().1;
            let ty: u8 = a[1].parse().unwrap();
            let (mut tx, utxos) = spend_tx(&t, &[], 1000);
            let mut cache = SigHashCache::new();
            let h = sighash(&tx, 0, &t, 1000, ty, &mut cache).unwrap();
            let ks = keys();
            let sig = |i: usize| generate_signature(&ks[i], &h, ty).unwrap();
            let mut u = vec![];
            match a[0] { "p2pkh" => { u = create_unlock_script(&sig(0), &pubkey(&ks[0])).0; }
                "p2pk" => { push_with(&mut u, &sig(0), 0); }
                "ms23" => { u.push(0); push_with(&mut u, &sig(0), 0); push_with(&mut u, &sig(2), 0); }
                _ => { u.push(0); push_with(&mut u, &sig(1), 0); } }
            tx.inputs[0].unlock_script = Script(u);
            Some(validate(&tx, &utxos, a[2] == "g", a[3] == "1"))
        }
        _ => None,
    }
}

/// atoms designed to swallow what follows the unlocking script if it were evaluated as a prefix
/// of one concatenated program
fn swallow_atoms(lock_len: usize) -> Vec<Vec<u8>> {
    let mut v = vec![];
    for d in [0usize, 1, 2] {
        let n = lock_len + d;
        if n <= 75 { v.push(vec![n as u8]); }
        if n <= 255 { v.push(vec![0x4c, n as u8]); }
        v.push(vec![0x4d, n as u8, (n >> 8) as u8]);
        v.push(vec![0x4e, n as u8, (n >> 8) as u8, 0, 0]);
    }
    v.push(vec![0x4c]); v.push(vec![0x4d]); v.push(vec![0x4d, 0x1a]); v.push(vec![0x4e, 0x1a, 0, 0]);
    v
}

pub fn gen(tier: &str, rng: &mut Rng, out: &mut Vec<String>) {
    let thorough = tier == "thorough";
    let ts = templates();
    // (b0) positive controls: library-signed spends are accepted
    for (name, _) in &ts { for ty in [SIGHASH_ALL, SIGHASH_NONE, SIGHASH_SINGLE, SIGHASH_ALL | SIGHASH_ANYONECANPAY, SIGHASH_NONE | SIGHASH_ANYONECANPAY, SIGHASH_SINGLE | SIGHASH_ANYONECANPAY] {
        for g in ["g", "p"] { out.push(format!("c03.signed {} {} {} 1", name, ty | SIGHASH_FORKID, g)); } } }
    // (a) the authorisation search: every opcode sequence up to length 2 (3 sampled / thorough: 3 full on p2pkh, 4 sampled)
    for (ti, (_, lock)) in ts.iter().enumerate() {
        let mut alpha = alphabet();
        alpha.extend(swallow_atoms(lock.len()));
        let rules: [&str; 2] = ["g", "p"];
        for r in rules { for fk in ["1", "0"] {
            if fk == "0" && !thorough && ti > 0 { continue; }
            out.push(format!("c03.spend {} - {} {}", hexd(lock), r, fk));
            for a in &alpha { out.push(format!("c03.spend {} {} {} {}", hexd(lock), hexd(a), r, fk)); }
            for a in &alpha { for b in &alpha { let s = [a.clone(), b.clone()].concat(); out.push(format!("c03.spend {} {} {} {}", hexd(lock), hexd(&s), r, fk)); } }
        } }
        let full3 = thorough && ti == 0;
        for a in &alpha { for b in &alpha { for c in &alpha {
            if !(full3 || rng.chance(1, if thorough { 10 } else { 60 })) { continue; }
            let s = [a.clone(), b.clone(), c.clone()].concat();
            out.push(format!("c03.spend {} {} {} 1", hexd(lock), hexd(&s), if rng.chance(1, 2) { "g" } else { "p" }));
        } } }
        let n4 = if thorough { 400_000 } else { 20_000 };
        for _ in 0..n4 { let s: Vec<u8> = (0..4).flat_map(|_| rng.pick(&alpha).clone()).collect();
            out.push(format!("c03.spend {} {} {} 1", hexd(lock), hexd(&s), if rng.chance(1, 2) { "g" } else { "p" })); }
        // grammar, hostile and random longer unlocking scripts
        let nl = if thorough { 60_000 } else { 6_000 };
        for k in 0..nl {
            let s = if k % 3 == 0 { crate::c07::hostile_script(rng) } else { let n = 1 + k % 9; gen_script(rng, n).script };
            let mut s2 = s.clone();
            if rng.chance(1, 4) { s2.extend(rng.pick(&swallow_atoms(lock.len())).clone()); }
            out.push(format!("c03.spend {} {} {} 1", hexd(lock), hexd(&s2), if rng.chance(1, 2) { "g" } else { "p" }));
        }
    }
    // (b) signatures: deterministic, strict DER, low S, verify under the signer's key (independent verifier in the driver)
    let ns = if thorough { 3000 } else { 300 };
    for i in 0..ns {
        let mut k = [0u8; 32];
        match i % 10 { 0 => { k[31] = 1; } // scalar 1
            1 => { k.copy_from_slice(&hex::decode("fffffffffffffffffffffffffffffffebaaedce6af48a03bbfd25e8cd0364140").unwrap()); } // n - 1
            2 => { k[31] = 2; } _ => { let b = rng.bytes(32); k.copy_from_slice(&b); k[0] &= 0x7f; } }
        let d: Vec<u8> = match i % 7 { 0 => vec![0u8; 32], 1 => vec![0xffu8; 32], _ => rng.bytes(32) };
        let ty = *rng.pick(&[0x41u8, 0x42, 0x43, 0xc1, 0xc2, 0xc3, 0x01]);
        let mut dd = [0u8; 32]; dd.copy_from_slice(&d);
        if let Ok(sig) = generate_signature(&k, &Hash256(dd), ty) { out.push(format!("c03.sig {} {} {} {}", hexd(&k), hexd(&d), ty, hexd(&sig))); }
    }
}

//! C03 — spends are authorised only by valid, canonical signatures.
use crate::rng::Rng;
use crate::scriptgen::*;
use crate::util::*;
use chain_gang::messages::{OutPoint, Tx, TxIn, TxOut};
use chain_gang::script::Script;
use chain_gang::transaction::generate_signature;
use chain_gang::transaction::p2pkh::{create_lock_script, create_unlock_script};
use chain_gang::transaction::sighash::{sighash, SigHashCache, SIGHASH_ALL, SIGHASH_ANYONECANPAY, SIGHASH_FORKID, SIGHASH_NONE, SIGHASH_SINGLE};
use chain_gang::util::{hash160, Hash256};
use k256::ecdsa::{SigningKey, VerifyingKey};
use linked_hash_map::LinkedHashMap;
use std::collections::HashSet;

pub fn tables(_w: &mut dyn std::io::Write) {}

/// stage two: Tx::validate on real signed transactions against the end-to-end Lean reference (`c03.txv`)
#[path = "txv.rs"]
pub mod txv;

pub fn pubkey(privk: &[u8; 32]) -> [u8; 33] {
    let sk = SigningKey::from_slice(privk).unwrap();
    let vk = VerifyingKey::from(&sk);
    let mut out = [0u8; 33]; out.copy_from_slice(&vk.to_encoded_point(true).as_bytes()[..33]); out
}

pub fn keys() -> Vec<[u8; 32]> { vec![[1u8; 32], [2u8; 32], [3u8; 32]] }

/// the locking-script templates of the authorisation clause: P2PKH, P2PK, 2-of-3 and 1-of-1 multisig
pub fn templates() -> Vec<(&'static str, Vec<u8>)> {
    let pks: Vec<[u8; 33]> = keys().iter().map(pubkey).collect();
    let p2pkh = create_lock_script(&hash160(&pks[0])).0;
    let mut p2pk = vec![]; push_with(&mut p2pk, &pks[0], 0); p2pk.push(0xac);
    let mut ms23 = vec![0x52]; for p in &pks { push_with(&mut ms23, p, 0); } ms23.push(0x53); ms23.push(0xae);
    let mut ms11 = vec![0x51]; push_with(&mut ms11, &pks[1], 0); ms11.push(0x51); ms11.push(0xae);
    vec![("p2pkh", p2pkh), ("p2pk", p2pk), ("ms23", ms23), ("ms11", ms11)]
}

fn spend_tx(lock: &[u8], unlock: &[u8], satoshis: i64) -> (Tx, LinkedHashMap<OutPoint, TxOut>) {
    let op = OutPoint { hash: Hash256([9u8; 32]), index: 0 };
    let tx = Tx { version: 2, inputs: vec![TxIn { prev_output: op.clone(), unlock_script: Script(unlock.to_vec()), sequence: 0xffffffff }],
        outputs: vec![TxOut { satoshis: satoshis - 1, lock_script: Script(vec![0x51]) }], lock_time: 0 };
    let mut utxos = LinkedHashMap::new();
    utxos.insert(op, TxOut { satoshis, lock_script: Script(lock.to_vec()) });
    (tx, utxos)
}

fn validate(tx: &Tx, utxos: &LinkedHashMap<OutPoint, TxOut>, genesis: bool, forkid: bool) -> String {
    match tx.validate(forkid, genesis, utxos, &HashSet::new()) { Ok(()) => "ok".into(), Err(_) => "err".into() }
}

pub fn exec(op: &str, a: &[&str]) -> Option<String> {
    match op {
        // c03.spend <lock> <unlock> <g|p> <forkid 0|1>: attacker-chosen unlocking script, no valid signature inside
        "c03.spend" => {
            let (tx, utxos) = spend_tx(&unhexd(a[0]), &unhexd(a[1]), 1000);
            Some(validate(&tx, &utxos, a[2] == "g", a[3] == "1"))
        }
        // c03.sig <priv> <digest> <type> <sig as generated at request time>: signatures are deterministic
        "c03.sig" => {
            let mut k = [0u8; 32]; k.copy_from_slice(&unhexd(a[0]));
            let mut d = [0u8; 32]; d.copy_from_slice(&unhexd(a[1]));
            Some(match generate_signature(&k, &Hash256(d), a[2].parse().unwrap()) { Ok(s) => format!("ok:{}:{}", hexd(&pubkey(&k)), hexd(&s)), Err(e) => err_class(&e) })
        }
        // c03.signed <template> <type> <g|p> <forkid>: library-signed spend of each template must be accepted
        "c03.signed" => {
            let t = templates().into_iter().find(|(n, _)| *n == a[0]).unwrap().1;
            let ty: u8 = a[1].parse().unwrap();
            let (mut tx, utxos) = spend_tx(&t, &[], 1000);
            let mut cache = SigHashCache::new();
            let h = sighash(&tx, 0, &t, 1000, ty, &mut cache).unwrap();
            let ks = keys();
            let sig = |i: usize| generate_signature(&ks[i], &h, ty).unwrap();
            let mut u = vec![];
            match a[0] { "p2pkh" => { u = create_unlock_script(&sig(0), &pubkey(&ks[0])).0; }
                "p2pk" => { push_with(&mut u, &sig(0), 0); }
                "ms23" => { u.push(0); push_with(&mut u, &sig(0), 0); push_with(&mut u, &sig(2), 0); }
                _ => { u.push(0); push_with(&mut u, &sig(1), 0); } }
            tx.inputs[0].unlock_script = Script(u);
            Some(validate(&tx, &utxos, a[2] == "g", a[3] == "1"))
        }
        // c03.mut <seed> <nin> <nout> <idx> <type> <mutation>: wallet-signed P2PKH spend of input idx, then one mutation
        "c03.mut" => Some(mutated_spend(a[0].parse().unwrap(), a[1].parse().unwrap(), a[2].parse().unwrap(), a[3].parse().unwrap(), a[4].parse().unwrap(), a[5])),
        // c03.txv <tx hex> <utxos> <forkid 0|1> <genesis 0|1>: self-contained; the driver decides the verdict with its own
        // interpreter, sighash and secp256k1 (harness/src/txv.rs, lean/CG/Drv/TxV.lean)
        "c03.txv" => Some(txv::exec(a)),
        // c03.multi <seed> <nout> <types> <mutated output index or ->: EVERY input is a wallet-signed P2PKH spend with its own
        // sighash type (so several digests go through the one cache Tx::validate shares); optionally one output amount is
        // changed after signing
        "c03.multi" => Some(multi_signed(a[0].parse().unwrap(), a[1].parse().unwrap(), &list_u64(a[2]), a[3])),
        _ => None,
    }
}

fn multi_signed(seed: u64, nout: usize, types: &[u64], mutated: &str) -> String {
    use chain_gang::network::Network;
    use chain_gang::wallet::Wallet;
    let mut rng = Rng::new(seed);
    let ks = keys(); let nin = types.len();
    let wallets: Vec<Wallet> = ks.iter().map(|k| { let sk = SigningKey::from_slice(k).unwrap(); let vk = VerifyingKey::from(&sk); Wallet::new(sk, vk, Network::BSV_Mainnet) }).collect();
    let funding = Tx { version: 1, inputs: vec![TxIn { prev_output: OutPoint { hash: Hash256([7u8; 32]), index: 0 }, unlock_script: Script(vec![]), sequence: 0xffffffff }],
        outputs: (0..nin).map(|i| TxOut { satoshis: 5000 + i as i64, lock_script: create_lock_script(&hash160(&pubkey(&ks[i % 3]))) }).collect(), lock_time: 0 };
    let fh = funding.hash();
    let mut tx = Tx { version: 2, inputs: (0..nin).map(|i| TxIn { prev_output: OutPoint { hash: fh, index: i as u32 }, unlock_script: Script(vec![]), sequence: 0xffffffff - rng.below(3) as u32 }).collect(),
        outputs: (0..nout).map(|i| TxOut { satoshis: 100 + i as i64, lock_script: Script(vec![0x51, 0x75, 0x52 + (i as u8 % 3)]) }).collect(), lock_time: rng.below(50) as u32 };
    // sign in a seed-dependent order (each signature uses a fresh cache inside the wallet; validation shares one)
    let mut order: Vec<usize> = (0..nin).collect(); if rng.chance(1, 2) { order.reverse(); }
    for i in order { if wallets[i % 3].sign_tx_input(&funding, &mut tx, i, types[i] as u8).is_err() { return "sign-error".into(); } }
    if mutated != "-" { let j: usize = mutated.parse().unwrap(); tx.outputs[j].satoshis += 1; }
    let mut utxos: LinkedHashMap<OutPoint, TxOut> = LinkedHashMap::new();
    for (i, o) in funding.outputs.iter().enumerate() { utxos.insert(OutPoint { hash: fh, index: i as u32 }, o.clone()); }
    match tx.validate(true, rng.chance(1, 2), &utxos, &HashSet::new()) { Ok(()) => "ok".into(), Err(_) => "err".into() }
}

pub const MUTATIONS: [&str; 21] = ["none", "version", "locktime", "in_seq_self", "in_seq_other", "in_prev_self", "in_prev_other", "in_add",
    "out_amount_same", "out_amount_other", "out_script_same", "out_script_other", "out_add", "amount", "spent_script", "key",
    "sig_flip_r", "sig_flip_s", "sig_type", "unlock_other", "out_remove_last"];

/// Builds a funding transaction (output idx is P2PKH to key 0, every other output is anyone-can-spend OP_1), a spending
/// transaction with `nin` inputs and `nout` outputs, signs input `idx` with the library's wallet under sighash type `ty`,
/// applies the named mutation and validates.
fn mutated_spend(seed: u64, nin: usize, nout: usize, idx: usize, ty: u8, mutation: &str) -> String {
    use chain_gang::network::Network;
    use chain_gang::wallet::Wallet;
    let mut rng = Rng::new(seed);
    let ks = keys();
    let sk = SigningKey::from_slice(&ks[0]).unwrap(); let vk = VerifyingKey::from(&sk);
    let wallet = Wallet::new(sk, vk, Network::BSV_Mainnet);
    let p2pkh = create_lock_script(&hash160(&pubkey(&ks[0]))).0;
    // funding tx: nin + 2 outputs (two spare ones for "other outpoint" mutations)
    let fund_outputs: Vec<TxOut> = (0..nin + 2).map(|i| TxOut { satoshis: 1000 + i as i64, lock_script: Script(if i == idx { p2pkh.clone() } else { vec![0x51] }) }).collect();
    let funding = Tx { version: 1, inputs: vec![TxIn { prev_output: OutPoint { hash: Hash256([7u8; 32]), index: 0 }, unlock_script: Script(vec![]), sequence: 0xffffffff }], outputs: fund_outputs, lock_time: 0 };
    let fh = funding.hash();
    let mut tx = Tx { version: 2,
        inputs: (0..nin).map(|i| TxIn { prev_output: OutPoint { hash: fh, index: i as u32 }, unlock_script: Script(vec![]), sequence: 0xfffffff0 + (rng.below(8) as u32) }).collect(),
        outputs: (0..nout).map(|i| TxOut { satoshis: 10 + i as i64, lock_script: Script(vec![0x51, 0x75, 0x51 + (i as u8 % 4)]) }).collect(),
        lock_time: rng.below(100) as u32 };
    if wallet.sign_tx_input(&funding, &mut tx, idx, ty).is_err() { return "sign-error".into(); }
    let mut utxos: LinkedHashMap<OutPoint, TxOut> = LinkedHashMap::new();
    for (i, o) in funding.outputs.iter().enumerate() { utxos.insert(OutPoint { hash: fh, index: i as u32 }, o.clone()); }
    let other = if nin > 1 { (idx + 1) % nin } else { idx };
    let oother = if nout > 1 { (idx + 1) % nout } else { idx };
    let spare = OutPoint { hash: fh, index: nin as u32 };
    match mutation {
        "none" => {}
        "version" => tx.version += 1,
        "locktime" => tx.lock_time += 1,
        "in_seq_self" => tx.inputs[idx].sequence -= 1,
        "in_seq_other" => { if nin < 2 { return "n/a".into(); } tx.inputs[other].sequence -= 1; }
        "in_prev_self" => { // a different outpoint carrying the same lock script and amount
            let mut o = funding.outputs[idx].clone(); o.satoshis = funding.outputs[idx].satoshis; utxos.insert(spare.clone(), o); tx.inputs[idx].prev_output = spare.clone(); }
        "in_prev_other" => { if nin < 2 { return "n/a".into(); } tx.inputs[other].prev_output = spare.clone(); }
        "in_add" => tx.inputs.push(TxIn { prev_output: spare.clone(), unlock_script: Script(vec![]), sequence: 0xffffffff }),
        "out_amount_same" => { if idx >= nout { return "n/a".into(); } tx.outputs[idx].satoshis += 1; }
        "out_amount_other" => { if nout < 2 || oother == idx { return "n/a".into(); } tx.outputs[oother].satoshis += 1; }
        "out_script_same" => { if idx >= nout { return "n/a".into(); } tx.outputs[idx].lock_script.0.push(0x61); }
        "out_script_other" => { if nout < 2 || oother == idx { return "n/a".into(); } tx.outputs[oother].lock_script.0.push(0x61); }
        "out_add" => tx.outputs.push(TxOut { satoshis: 1, lock_script: Script(vec![0x51]) }),
        "out_remove_last" => { if nout < 2 || idx == nout - 1 { return "n/a".into(); } tx.outputs.pop(); }
        "amount" => { let k = OutPoint { hash: fh, index: idx as u32 }; let mut o = utxos.get(&k).unwrap().clone(); o.satoshis -= 1; utxos.insert(k, o); }
        "spent_script" => { let k = OutPoint { hash: fh, index: idx as u32 }; let mut o = utxos.get(&k).unwrap().clone(); o.lock_script.0[5] ^= 1; utxos.insert(k, o); }
        "key" => { // the same signature presented with another key
            let sig_len = tx.inputs[idx].unlock_script.0[0] as usize; let sig = tx.inputs[idx].unlock_script.0[1..1 + sig_len].to_vec();
            tx.inputs[idx].unlock_script = create_unlock_script(&sig, &pubkey(&ks[1])); }
        "sig_flip_r" => { tx.inputs[idx].unlock_script.0[7] ^= 1; }
        "sig_flip_s" => { let l = tx.inputs[idx].unlock_script.0[0] as usize; tx.inputs[idx].unlock_script.0[l - 3] ^= 1; }
        "sig_type" => { let l = tx.inputs[idx].unlock_script.0[0] as usize; tx.inputs[idx].unlock_script.0[l] ^= 0x80; }
        "unlock_other" => { if nin < 2 { return "n/a".into(); } tx.inputs[other].unlock_script = Script(vec![0x61]); }
        _ => return "bad-mutation".into(),
    }
    let g = rng.chance(1, 2);
    match tx.validate(true, g, &utxos, &HashSet::new()) { Ok(()) => "ok".into(), Err(_) => "err".into() }
}

/// atoms designed to swallow what follows the unlocking script if it were evaluated as a prefix
/// of one concatenated program
fn swallow_atoms(lock_len: usize) -> Vec<Vec<u8>> {
    let mut v = vec![];
    for d in [0usize, 1, 2] {
        let n = lock_len + d;
        if n <= 75 { v.push(vec![n as u8]); }
        if n <= 255 { v.push(vec![0x4c, n as u8]); }
        v.push(vec![0x4d, n as u8, (n >> 8) as u8]);
        v.push(vec![0x4e, n as u8, (n >> 8) as u8, 0, 0]);
    }
    v.push(vec![0x4c]); v.push(vec![0x4d]); v.push(vec![0x4d, 0x1a]); v.push(vec![0x4e, 0x1a, 0, 0]);
    v
}

pub fn gen(tier: &str, rng: &mut Rng, out: &mut Vec<String>) {
    let thorough = tier == "thorough";
    let ts = templates();
    // (b0) positive controls: library-signed spends are accepted
    for (name, _) in &ts { for ty in [SIGHASH_ALL, SIGHASH_NONE, SIGHASH_SINGLE, SIGHASH_ALL | SIGHASH_ANYONECANPAY, SIGHASH_NONE | SIGHASH_ANYONECANPAY, SIGHASH_SINGLE | SIGHASH_ANYONECANPAY] {
        for g in ["g", "p"] { out.push(format!("c03.signed {} {} {} 1", name, ty | SIGHASH_FORKID, g)); } } }
    // (a) the authorisation search: every opcode sequence up to length 2 (3 sampled / thorough: 3 full on p2pkh, 4 sampled);
    // besides the key-locked templates, two locking scripts that READ THE ALT STACK first (unsatisfiable: the locking script
    // starts with an empty alt stack whatever the unlocking script left on its own)
    let mut ts_a = ts.clone();
    ts_a.push(("altread", vec![0x6c]));
    ts_a.push(("altread2", vec![0x6c, 0x6c, 0x87]));
    for (ti, (_, lock)) in ts_a.iter().enumerate() {
        let mut alpha = alphabet();
        alpha.extend(swallow_atoms(lock.len()));
        let rules: [&str; 2] = ["g", "p"];
        for r in rules { for fk in ["1", "0"] {
            if fk == "0" && !thorough && ti > 0 { continue; }
            out.push(format!("c03.spend {} - {} {}", hexd(lock), r, fk));
            for a in &alpha { out.push(format!("c03.spend {} {} {} {}", hexd(lock), hexd(a), r, fk)); }
            for a in &alpha { for b in &alpha { let s = [a.clone(), b.clone()].concat(); out.push(format!("c03.spend {} {} {} {}", hexd(lock), hexd(&s), r, fk)); } }
        } }
        let full3 = thorough && ti == 0;
        for a in &alpha { for b in &alpha { for c in &alpha {
            if !(full3 || rng.chance(1, if thorough { 10 } else { 60 })) { continue; }
            let s = [a.clone(), b.clone(), c.clone()].concat();
            out.push(format!("c03.spend {} {} {} 1", hexd(lock), hexd(&s), if rng.chance(1, 2) { "g" } else { "p" }));
        } } }
        let n4 = if thorough { 400_000 } else { 20_000 };
        for _ in 0..n4 { let s: Vec<u8> = (0..4).flat_map(|_| rng.pick(&alpha).clone()).collect();
            out.push(format!("c03.spend {} {} {} 1", hexd(lock), hexd(&s), if rng.chance(1, 2) { "g" } else { "p" })); }
        // grammar, hostile and random longer unlocking scripts
        let nl = if thorough { 60_000 } else { 6_000 };
        for k in 0..nl {
            let s = if k % 3 == 0 { crate::c07::hostile_script(rng) } else { let n = 1 + k % 9; gen_script(rng, n).script };
            let mut s2 = s.clone();
            if rng.chance(1, 4) { s2.extend(rng.pick(&swallow_atoms(lock.len())).clone()); }
            out.push(format!("c03.spend {} {} {} 1", hexd(lock), hexd(&s2), if rng.chance(1, 2) { "g" } else { "p" }));
        }
    }
    // (c) coverage: every single-field mutation of a wallet-signed spend x six FORKID types x every input position
    let nm = if thorough { 40 } else { 4 };
    for round in 0..nm { for nin in 1..=5usize { for idx in 0..nin { for ty in [0x41u8, 0x42, 0x43, 0xc1, 0xc2, 0xc3] {
        let nout = (idx + 1).max(1 + (round + nin) % 5).min(5).max(idx + 1);
        for m in MUTATIONS.iter() {
            let needs_two_in = ["in_seq_other", "in_prev_other", "unlock_other"].contains(m);
            let needs_other_out = ["out_amount_other", "out_script_other"].contains(m);
            if (needs_two_in && nin < 2) || (needs_other_out && nout < 2) || (*m == "out_remove_last" && (nout < 2 || idx == nout - 1)) { continue; }
            out.push(format!("c03.mut {} {} {} {} {} {}", rng.next() % 1_000_000, nin, nout, idx, ty, m)); }
    } } } }
    // (c2) several signed inputs with mixed types through the shared cache of Tx::validate
    let tys = [0x41u64, 0x42, 0x43, 0xc1, 0xc2, 0xc3];
    for a in tys { for b in tys { for nout in 1..=3usize {
        out.push(format!("c03.multi {} {} {},{} -", rng.next() % 100000, nout, a, b));
        for j in 0..nout { out.push(format!("c03.multi {} {} {},{} {}", rng.next() % 100000, nout, a, b, j)); }
    } } }
    let n3 = if thorough { 3000 } else { 300 };
    for _ in 0..n3 { let nin = rng.range(3, 5) as usize; let nout = rng.range(1, 5) as usize;
        let t: Vec<String> = (0..nin).map(|_| rng.pick(&tys).to_string()).collect();
        let m = if rng.chance(1, 2) { "-".to_string() } else { rng.below(nout as u64).to_string() };
        out.push(format!("c03.multi {} {} {} {}", rng.next() % 100000, nout, t.join(","), m)); }
    // (b) signatures: deterministic, strict DER, low S, verify under the signer's key (independent verifier in the driver)
    let ns = if thorough { 3000 } else { 300 };
    for i in 0..ns {
        let mut k = [0u8; 32];
        match i % 10 { 0 => { k[31] = 1; } // scalar 1
            1 => { k.copy_from_slice(&hex::decode("fffffffffffffffffffffffffffffffebaaedce6af48a03bbfd25e8cd0364140").unwrap()); } // n - 1
            2 => { k[31] = 2; } _ => { let b = rng.bytes(32); k.copy_from_slice(&b); k[0] &= 0x7f; } }
        let d: Vec<u8> = match i % 7 { 0 => vec![0u8; 32], 1 => vec![0xffu8; 32], _ => rng.bytes(32) };
        let ty = *rng.pick(&[0x41u8, 0x42, 0x43, 0xc1, 0xc2, 0xc3, 0x01]);
        let mut dd = [0u8; 32]; dd.copy_from_slice(&d);
        if let Ok(sig) = generate_signature(&k, &Hash256(dd), ty) { out.push(format!("c03.sig {} {} {} {}", hexd(&k), hexd(&d), ty, hexd(&sig))); }
    }
    // (d) stage two: fully signed 1..5-input spends (P2PKH / P2PK / 2-of-3 / CLTV / CSV, mixed FORKID and legacy types) and
    // single-field mutations, each verdict decided by the Lean reference
    txv::gen(tier, rng, out);
}

//! C20 — bloom filters: add/contains/validate, constructor limits, filterload codec.
use crate::rng::Rng;
use crate::util::*;
use chain_gang::messages::{FilterLoad, Payload};
use chain_gang::util::{sha256d, BloomFilter, Serializable};
use std::io::Cursor;

pub fn tables(_w: &mut dyn std::io::Write) {}

/// filter notation: `-`, lowercase hex, `Z<len>` zeros, `F<len>` all ones, `P<len>.<a>` pattern
fn flt_of(s: &str) -> Vec<u8> {
    match s.as_bytes().first() {
        Some(b'Z') => vec![0u8; s[1..].parse().unwrap()],
        Some(b'F') => vec![0xffu8; s[1..].parse().unwrap()],
        Some(b'P') => {
            let mut it = s[1..].split('.');
            let n: usize = it.next().unwrap().parse().unwrap();
            let a: usize = it.next().unwrap().parse().unwrap();
            (0..n).map(|j| ((a * (j + 1) + j / 256) % 256) as u8).collect()
        }
        _ => unhexd(s),
    }
}

/// short byte strings in hex, long ones as `H` + double SHA-256
fn repr_b(b: &[u8]) -> String { if b.len() <= 40 { hexd(b) } else { format!("H{}", hex::encode(sha256d(b).0)) } }

fn hex_list(s: &str) -> Vec<Vec<u8>> { if s == "-" { vec![] } else { s.split(',').map(unhexd).collect() } }
fn fmt_hex_list(v: &[Vec<u8>]) -> String { if v.is_empty() { "-".into() } else { v.iter().map(|x| hexd(x)).collect::<Vec<_>>().join(",") } }
fn bit(b: bool) -> char { if b { '1' } else { '0' } }

const USE_ELEM: [u8; 2] = [0xde, 0xad];

fn declared_len(b: &[u8]) -> u64 {
    let le = |x: &[u8]| x.iter().rev().fold(0u64, |acc, v| (acc << 8) | *v as u64);
    match b.first() {
        None => 0,
        Some(0xff) => if b.len() >= 9 { le(&b[1..9]) } else { 0 },
        Some(0xfe) => if b.len() >= 5 { le(&b[1..5]) } else { 0 },
        Some(0xfd) => if b.len() >= 3 { le(&b[1..3]) } else { 0 },
        Some(x) => *x as u64,
    }
}

pub fn exec(op: &str, a: &[&str]) -> Option<String> {
    match op {
        // c20.add <filter> <num_hash_funcs> <tweak> <element hex> <probe elements>
        "c20.add" => {
            let mut f = BloomFilter { filter: flt_of(a[0]), num_hash_funcs: a[1].parse().unwrap(), tweak: a[2].parse().unwrap() };
            let elem = unhexd(a[3]);
            let probes = hex_list(a[4]);
            let v = f.validate().is_ok();
            f.add(&elem);
            let mut bits = String::new();
            bits.push(bit(f.contains(&elem)));
            for p in &probes { bits.push(bit(f.contains(p))); }
            Some(format!("ok:{}:{}:{}", bit(v), repr_b(&f.filter), bits))
        }
        // c20.seq <filter> <num_hash_funcs> <tweak> <elements>: add all, then query all
        "c20.seq" => {
            let mut f = BloomFilter { filter: flt_of(a[0]), num_hash_funcs: a[1].parse().unwrap(), tweak: a[2].parse().unwrap() };
            let elems = hex_list(a[3]);
            for e in &elems { f.add(e); }
            let bits: String = elems.iter().map(|e| bit(f.contains(e))).collect();
            Some(format!("ok:{}:{}", repr_b(&f.filter), bits))
        }
        // c20.contains <filter> <num_hash_funcs> <tweak> <element hex>
        "c20.contains" => {
            let f = BloomFilter { filter: flt_of(a[0]), num_hash_funcs: a[1].parse().unwrap(), tweak: a[2].parse().unwrap() };
            Some(format!("ok:{}", bit(f.contains(&unhexd(a[3])))))
        }
        // c20.new <insert: f64 bit pattern> <pr_false_pos: f64 bit pattern>
        "c20.new" => {
            let i = f64::from_bits(a[0].parse().unwrap());
            let p = f64::from_bits(a[1].parse().unwrap());
            Some(match BloomFilter::new(i, p) {
                Ok(f) => {
                    let within = f.filter.len() <= 36000 && f.num_hash_funcs <= 50 && f.validate().is_ok() && f.filter.iter().all(|b| *b == 0);
                    if within { "ok:within".into() } else { format!("ok:exceeds:{}:{}", f.filter.len(), f.num_hash_funcs) }
                }
                Err(e) => err_class(&e),
            })
        }
        // c20.fl_rt <filter> <num_hash_funcs> <tweak> <flags>: write, size, read back
        "c20.fl_rt" => {
            let m = FilterLoad { bloom_filter: BloomFilter { filter: flt_of(a[0]), num_hash_funcs: a[1].parse().unwrap(), tweak: a[2].parse().unwrap() }, flags: a[3].parse().unwrap() };
            let mut v = Vec::new();
            m.write(&mut v).unwrap();
            let mut c = Cursor::new(&v);
            let rb = match FilterLoad::read(&mut c) { Ok(m2) => m2 == m && c.position() as usize == v.len(), Err(_) => false };
            // the same value through writers that accept only part of what they are offered must put the same bytes on the wire
            let rb = rb && [1usize, 3, 256].iter().all(|k| { let mut w = crate::util::FragWriter { buf: Vec::new(), k: *k, calls: 0 }; m.write(&mut w).is_ok() && w.buf == v });
            Some(format!("ok:{}:{}:{}", repr_b(&v), bit(v.len() == m.size()), bit(rb)))
        }
        // c20.fl_read <payload hex>: decode, validate, use
        "c20.fl_read" | "c20.fl_readf" => {
            let b = unhexd(a[0]);
            if declared_len(&b) > 1 << 27 { return Some("refused:declared-length".into()); }
            let mut c = Cursor::new(&b);
            // c20.fl_readf <payload> <k>: the same through a reader that hands out at most k bytes per call
            let k: usize = if op == "c20.fl_readf" { a[1].parse().unwrap_or(1).max(1) } else { 0 };
            let mut fr = crate::util::FragReader { data: &b, pos: 0, k, calls: 0 };
            let r = if k > 0 { FilterLoad::read(&mut fr) } else { FilterLoad::read(&mut c) };
            if k > 0 { c.set_position(fr.pos as u64); }
            Some(match r {
                Err(e) => err_class(&e),
                Ok(m) => {
                    let mut f = m.bloom_filter.clone();
                    let head = format!("{}:{}:{}:{}:{}:{}", repr_b(&f.filter), f.num_hash_funcs, f.tweak, m.flags, c.position(), bit(m.validate().is_ok()));
                    if f.num_hash_funcs > 1000 { format!("ok:{}:-", head) } else {
                        f.add(&USE_ELEM);
                        let cb = f.contains(&USE_ELEM);
                        format!("ok:{}:{}.{}", head, repr_b(&f.filter), bit(cb))
                    }
                }
            })
        }
        _ => None,
    }
}

fn tweak(rng: &mut Rng) -> u32 {
    match rng.below(9) { 0 => 0, 1 => 1, 2 => 0x8000_0000, 3 => 0x8000_0001, 4 => u32::MAX, 5 => u32::MAX - 1, 6 => 0u32.wrapping_sub(0xFBA4_C795), _ => rng.next() as u32 }
}

fn elem(rng: &mut Rng) -> Vec<u8> {
    let n = match rng.below(10) { 0 => 0, 1 => rng.range(1, 8), 2 => 20, 3 => 32, 4 => 36, 5 => rng.range(517, 520), 6 => rng.range(0, 520), _ => rng.range(0, 70) } as usize;
    rng.bytes(n)
}

/// a filter of `len` bytes with arbitrary content, in the compact notation when long
fn flt(rng: &mut Rng, len: usize) -> String {
    if len <= 40 {
        match rng.below(4) { 0 => hexd(&vec![0u8; len]), 1 => hexd(&vec![0xffu8; len]), _ => hexd(&rng.bytes(len)) }
    } else {
        match rng.below(5) { 0 | 1 => format!("Z{}", len), 2 => format!("F{}", len), _ => format!("P{}.{}", len, rng.below(256)) }
    }
}

fn small_len(rng: &mut Rng) -> usize {
    (match rng.below(12) { 0 => 0, 1 => 1, 2 => 2, 3 => 3, 4..=7 => rng.range(0, 40), 8 | 9 => rng.range(41, 600), 10 => rng.range(600, 4096), _ => rng.range(0, 16) }) as usize
}

fn nfuncs(rng: &mut Rng) -> usize {
    (match rng.below(10) { 0 => 0, 1 => 1, 2 => 50, 3 => rng.range(51, 60), _ => rng.range(0, 50) }) as usize
}

const BIG: [usize; 21] = [252, 253, 254, 255, 256, 257, 1023, 1024, 4095, 4096, 8191, 8192, 16384, 32768, 35999, 36000, 36001, 40000, 65535, 65536, 65537];

fn varint(n: u64) -> Vec<u8> {
    if n <= 252 { vec![n as u8] } else if n <= 0xffff { let mut v = vec![0xfd]; v.extend_from_slice(&(n as u16).to_le_bytes()); v }
    else if n <= 0xffff_ffff { let mut v = vec![0xfe]; v.extend_from_slice(&(n as u32).to_le_bytes()); v }
    else { let mut v = vec![0xff]; v.extend_from_slice(&n.to_le_bytes()); v }
}

fn payload(f: &[u8], n: u32, tw: u32, flags: u8) -> Vec<u8> {
    let mut v = varint(f.len() as u64); v.extend_from_slice(f); v.extend_from_slice(&n.to_le_bytes()); v.extend_from_slice(&tw.to_le_bytes()); v.push(flags); v
}

fn f64_pos_finite(rng: &mut Rng) -> u64 {
    // exponent field uniform over the normal range, random mantissa: covers 1e-308 .. 1.8e308
    let e = rng.range(1, 2046); (e << 52) | (rng.next() & ((1u64 << 52) - 1))
}

pub fn gen(tier: &str, rng: &mut Rng, out: &mut Vec<String>) {
    let thorough = tier == "thorough";
    let k = if thorough { 10 } else { 1 };
    // (a) BIP-37 reference vectors (Bitcoin Core bloom_tests: bloom_create_insert_serialize[_with_tweaks])
    let v3 = "99108ad8ed9bb6274d3980bab5a85c048f0950c8,b5a2c786d9ef4658287ced5914b37a1b4aa32eee,b9300670b4c5366e95b2699e8b18bc75e5f729c5";
    out.push(format!("c20.seq Z3 5 0 {}", v3));
    out.push(format!("c20.seq Z3 5 2147483649 {}", v3));
    out.push("c20.contains 614e9b 5 0 19108ad8ed9bb6274d3980bab5a85c048f0950c8".into());
    out.push("c20.contains 614e9b 5 0 99108ad8ed9bb6274d3980bab5a85c048f0950c8".into());
    out.push("c20.fl_rt 614e9b 5 0 1".into());
    out.push("c20.fl_rt ce4299 5 2147483649 1".into());
    out.push("c20.fl_read 03614e9b050000000000000001".into());
    out.push("c20.fl_read 03ce4299050000000100008001".into());
    for k in [1usize, 2, 3, 5] { out.push(format!("c20.fl_readf 03614e9b050000000000000001 {}", k)); out.push(format!("c20.fl_readf 03ce4299050000000100008001 {}", k)); }
    // (b) dense small sizes x function counts, empty filter included
    for len in 0usize..=16 {
        for n in [0usize, 1, 2, 3, 5, 11, 50] {
            for _ in 0..k {
                let probes: Vec<Vec<u8>> = (0..3).map(|_| elem(rng)).collect();
                out.push(format!("c20.add {} {} {} {} {}", flt(rng, len), n, tweak(rng), hexd(&elem(rng)), fmt_hex_list(&probes)));
            }
            out.push(format!("c20.contains {} {} {} {}", flt(rng, len), n, tweak(rng), hexd(&elem(rng))));
        }
    }
    // (c) every function count 0..=50 (and just above) on a few sizes
    for n in 0usize..=52 {
        for len in [1usize, 7, 64, 1000] {
            out.push(format!("c20.add {} {} {} {} {}", flt(rng, len), n, tweak(rng), hexd(&elem(rng)), hexd(&elem(rng))));
        }
    }
    // (d) every element length 0..=520
    for l in 0usize..=520 {
        let len = rng.range(1, 64) as usize;
        out.push(format!("c20.add {} {} {} {} {}", flt(rng, len), rng.range(1, 10), tweak(rng), hexd(&rng.bytes(l)), hexd(&rng.bytes(l))));
    }
    // (e) boundary sizes up to and beyond the protocol limit
    for &len in BIG.iter() {
        for n in [1usize, 50] {
            for _ in 0..k {
                out.push(format!("c20.add {} {} {} {} {}", flt(rng, len), n, tweak(rng), hexd(&elem(rng)), hexd(&elem(rng))));
            }
        }
        out.push(format!("c20.contains {} {} {} {}", flt(rng, len), rng.range(1, 50), tweak(rng), hexd(&elem(rng))));
    }
    // (f) random filters
    for i in 0..1200 * k {
        let len = if i % 20 == 19 { rng.range(4097, 36000) as usize } else { small_len(rng) };
        let probes: Vec<Vec<u8>> = (0..rng.range(0, 3)).map(|_| elem(rng)).collect();
        out.push(format!("c20.add {} {} {} {} {}", flt(rng, len), nfuncs(rng), tweak(rng), hexd(&elem(rng)), fmt_hex_list(&probes)));
    }
    // (g) sequences of adds: earlier elements stay present
    for i in 0..400 * k {
        let len = if i % 25 == 24 { rng.range(4097, 36000) as usize } else { small_len(rng) };
        let elems: Vec<Vec<u8>> = (0..rng.range(1, 6)).map(|_| elem(rng)).collect();
        out.push(format!("c20.seq {} {} {} {}", flt(rng, len), nfuncs(rng), tweak(rng), fmt_hex_list(&elems)));
    }
    // (h) queries on arbitrary filters
    for _ in 0..400 * k {
        let len = small_len(rng);
        out.push(format!("c20.contains {} {} {} {}", flt(rng, len), nfuncs(rng), tweak(rng), hexd(&elem(rng))));
    }
    // (i) constructor: grid and random sample of positive finite doubles, plus rejected arguments
    let ins = [f64::MIN_POSITIVE, 1e-300, 1e-10, 0.5, 1.0, 2.0, 3.0, 10.0, 100.0, 1000.0, 20000.0, 1e5, 1e6, 1e9, 1e15, 1e100, 1e300, f64::MAX];
    let prs = [f64::MIN_POSITIVE, 1e-300, 1e-100, 1e-10, 1e-5, 0.001, 0.01, 0.5, 0.999999, 1.0, 1.0000001, 2.0, 1e10, 1e300, f64::MAX];
    for i in ins { for p in prs { out.push(format!("c20.new {} {}", i.to_bits(), p.to_bits())); } }
    let bad = [0.0f64, -0.0, -1.0, f64::NAN, f64::INFINITY, f64::NEG_INFINITY, 5e-324, 1e-310, -1e-310];
    for b in bad { out.push(format!("c20.new {} {}", b.to_bits(), 0.01f64.to_bits())); out.push(format!("c20.new {} {}", 10.0f64.to_bits(), b.to_bits())); }
    for _ in 0..800 * k { out.push(format!("c20.new {} {}", f64_pos_finite(rng), f64_pos_finite(rng))); }
    for _ in 0..200 * k {
        // plausible arguments: 1..1e7 items, false-positive rate 1e-9..1
        let i = (rng.range(1, 10_000_000) as f64) * if rng.chance(1, 4) { 0.37 } else { 1.0 };
        let p = 10f64.powf(-(rng.below(9000) as f64) / 1000.0);
        out.push(format!("c20.new {} {}", i.to_bits(), p.to_bits()));
    }
    for _ in 0..100 * k { out.push(format!("c20.new {} {}", rng.next(), rng.next())); }
    // (j) filterload round trip: sizes on both sides of each var_int class, function counts around u32
    let rt_sizes = [0usize, 1, 2, 251, 252, 253, 254, 255, 256, 35999, 36000, 36001, 65535, 65536, 65537];
    for &len in rt_sizes.iter() {
        for n in [0u64, 1, 50, 51, u32::MAX as u64] {
            out.push(format!("c20.fl_rt {} {} {} {}", flt(rng, len), n, tweak(rng), rng.below(256)));
        }
    }
    for _ in 0..300 * k {
        let len = small_len(rng);
        let n = match rng.below(12) { 0 => u32::MAX as u64, 1 => 1u64 << 32, 2 => (1u64 << 32) + rng.below(100), 3 => u64::MAX, _ => nfuncs(rng) as u64 };
        out.push(format!("c20.fl_rt {} {} {} {}", flt(rng, len), n, tweak(rng), rng.below(256)));
    }
    // (k) decoding: valid payloads, every truncation, trailing bytes, hostile length fields, bit flips, random bytes
    for _ in 0..60 * k {
        let len = rng.range(0, 12) as usize;
        let f = if rng.chance(1, 3) { vec![0u8; len] } else { rng.bytes(len) };
        let n = match rng.below(6) { 0 => 0, 1 => 1, 2 => 50, 3 => 51, 4 => rng.next() as u32, _ => rng.range(0, 50) as u32 };
        let p = payload(&f, n, tweak(rng), rng.byte());
        out.push(format!("c20.fl_read {}", hexd(&p)));
        for k in [1usize, 2, 4, 7] { out.push(format!("c20.fl_readf {} {}", hexd(&p), k)); }
        if rng.chance(1, 3) { for cut in 0..p.len() { out.push(format!("c20.fl_read {}", hexd(&p[..cut]))); } }
        let mut q = p.clone(); q.extend_from_slice(&{ let n_ = rng.range(1, 5) as usize; rng.bytes(n_) });
        out.push(format!("c20.fl_read {}", hexd(&q)));
        let mut q = p.clone(); let pos = rng.below(q.len() as u64) as usize; q[pos] ^= 1 << rng.below(8);
        if declared_len(&q) <= 1 << 26 { out.push(format!("c20.fl_read {}", hexd(&q))); }
    }
    // empty bit field with every small function count: the decodable filter that used to panic
    for n in 0u32..=8 { out.push(format!("c20.fl_read {}", hexd(&payload(&[], n, tweak(rng), rng.byte())))); }
    for _ in 0..150 * k {
        // non-canonical and oversized declared lengths (bounded: allocation size is C06's subject)
        let body = { let n_ = rng.range(0, 300) as usize; rng.bytes(n_) };
        let declared: u64 = match rng.below(8) { 0 => 0, 1 => body.len() as u64, 2 => body.len().saturating_sub(9) as u64, 3 => body.len().saturating_sub(10) as u64, 4 => 0xfc, 5 => rng.range(0, 300), 6 => rng.range(0, 1 << 26), _ => rng.range(0, 70000) };
        let mut p = match rng.below(4) { 0 => varint(declared), 1 => { let mut v = vec![0xfd]; v.extend_from_slice(&(declared as u16).to_le_bytes()); v }, 2 => { let mut v = vec![0xfe]; v.extend_from_slice(&(declared as u32).to_le_bytes()); v }, _ => { let mut v = vec![0xff]; v.extend_from_slice(&declared.to_le_bytes()); v } };
        p.extend_from_slice(&body);
        out.push(format!("c20.fl_read {}", hexd(&p)));
    }
    for _ in 0..150 * k {
        let mut p = { let n_ = rng.range(0, 40) as usize; rng.bytes(n_) };
        if !p.is_empty() && p[0] >= 0xfe { p[0] = 0xfd; }
        out.push(format!("c20.fl_read {}", hexd(&p)));
    }
    for &len in [252usize, 253, 36000, 36001].iter() {
        let f = rng.bytes(len);
        out.push(format!("c20.fl_read {}", hexd(&payload(&f, rng.range(0, 50) as u32, tweak(rng), 1))));
    }
}

//! C17 — stepping a script through the debugger interface preserves its meaning.
use crate::rng::Rng;
use crate::scriptgen::*;
use crate::util::*;
use chain_gang::script::Script;

pub fn tables(_w: &mut dyn std::io::Write) {}

fn log_str(c: &Scripted) -> String { let l = c.log.borrow(); if l.is_empty() { "=".into() } else { l.join(";") } }

pub fn exec(op: &str, a: &[&str]) -> Option<String> {
    match op {
        // c17.split <script> <flags> <breaks> <oracle>: consecutive segments, each starting where the previous one
        // reported it stopped, carrying both stacks; a final segment without break.
        "c17.split" => {
            let script = Script(unhexd(a[0])); let flags: u32 = a[1].parse().unwrap();
            let brks: Vec<usize> = list_u64(a[2]).iter().map(|x| *x as usize).collect();
            // the implementation's OWN uninterrupted run of the same script (fresh checker with the same oracle): the property
            // is a statement about the implementation against itself, whatever interpreter state a model knows of
            let single: Result<(Vec<Vec<u8>>, Vec<Vec<u8>>), String> = {
                let mut c1 = Scripted::parse(a[3]);
                match script.eval_with_stack(&mut c1, flags, None, None, None, None) { Ok((s, al, _)) => Ok((s, al)), Err(e) => Err(err_class(&e)) }
            };
            let mut chk = Scripted::parse(a[3]);
            let (mut st, mut alt, mut pos) = (vec![], vec![], 0usize);
            let mut reported = vec![];
            let mut failed: Option<String> = None;
            for b in brks {
                match script.eval_with_stack(&mut chk, flags, Some(pos), Some(b), Some(st.clone()), Some(alt.clone())) {
                    Ok((s, al, p)) => { st = s; alt = al; pos = p.unwrap_or(pos); reported.push(pos); }
                    Err(e) => { failed = Some(err_class(&e)); break; }
                }
            }
            let stepped: Result<(Vec<Vec<u8>>, Vec<Vec<u8>>), String> = match failed {
                Some(e) => Err(e),
                None => match script.eval_with_stack(&mut chk, flags, Some(pos), None, Some(st), Some(alt)) { Ok((s, al, _)) => Ok((s, al)), Err(e) => Err(err_class(&e)) },
            };
            let same = match (&stepped, &single) { (Ok(x), Ok(y)) => x == y, (Err(x), Err(y)) => x == y, _ => false };
            let tail = if same { "|self=same" } else { "|self=differs" };
            match stepped {
                Ok((s, al)) => Some(format!("ok:{}|{}|{}|{}{}", show_stack(&s), show_stack(&al), fmt_list(&reported), log_str(&chk), tail)),
                Err(e) => Some(format!("{}{}", e, tail)),
            }
        }
        // c17.break <script> <flags> <break> <oracle>
        "c17.break" => {
            let script = Script(unhexd(a[0])); let flags: u32 = a[1].parse().unwrap();
            let mut chk = Scripted::parse(a[3]);
            match script.eval_with_stack(&mut chk, flags, None, Some(a[2].parse().unwrap()), None, None) {
                Ok((s, al, p)) => Some(format!("ok:{}|{}|{}|{}", show_stack(&s), show_stack(&al), show_opt(p), log_str(&chk))),
                Err(e) => Some(err_class(&e)),
            }
        }
        _ => None,
    }
}

/// opcode boundaries at conditional depth zero (reimplementation of the opcode walk; 99/100 open, 104 closes)
pub fn depth0_boundaries(s: &[u8]) -> (Vec<usize>, Vec<usize>) {
    let (mut i, mut depth) = (0usize, 0i32);
    let mut bounds = vec![]; let mut inside_push = vec![];
    while i < s.len() {
        if depth == 0 { bounds.push(i); }
        let b = s[i];
        let (hdr, len) = match b { 1..=75 => (1, b as usize), 76 => (2, *s.get(i + 1).unwrap_or(&0) as usize),
            77 => (3, *s.get(i + 1).unwrap_or(&0) as usize + ((*s.get(i + 2).unwrap_or(&0) as usize) << 8)),
            78 => (5, (0..4).map(|k| (*s.get(i + 1 + k).unwrap_or(&0) as usize) << (8 * k)).sum()), _ => (1, 0) };
        if b == 99 || b == 100 { depth += 1; } if b == 104 { depth -= 1; }
        let next = (i + hdr + len).min(s.len());
        if depth == 0 && len > 0 && (1..=78).contains(&b) { for k in i + 1..next { inside_push.push(k); } }
        if depth < 0 { break; }
        i = next;
    }
    if depth == 0 { bounds.push(s.len()); }
    (bounds, inside_push)
}

pub fn gen(tier: &str, rng: &mut Rng, out: &mut Vec<String>) {
    let thorough = tier == "thorough";
    let n = if thorough { 12_000 } else { 2_000 };
    for k in 0..n {
        let g = { let len = 2 + k % 12; gen_script(rng, len) };
        let s = &g.script; let flags = if rng.chance(1, 3) { 1 } else { 0 };
        let (b0, inside) = depth0_boundaries(s);
        if b0.is_empty() { continue; }
        // all ways of splitting into two segments, and (sampled in quick) three segments, at depth-zero boundaries
        for (ia, a) in b0.iter().enumerate() {
            out.push(format!("c17.split {} {} {} {}", hexd(s), flags, a, g.oracle));
            for b in b0.iter().skip(ia) { if rng.chance(1, if thorough { 2 } else { 4 }) { out.push(format!("c17.split {} {} {},{} {}", hexd(s), flags, a, b, g.oracle)); } }
        }
        // break offsets inside push data (depth zero) and beyond the end
        for p in inside.iter().take(6) { out.push(format!("c17.split {} {} {} {}", hexd(s), flags, p, g.oracle)); out.push(format!("c17.break {} {} {} {}", hexd(s), flags, p, g.oracle)); }
        // two or three break offsets inside the SAME push (the second segment is then resumed beyond its own break offset),
        // and break lists that are not increasing (a later break at or before the offset already reached)
        for w in inside.windows(2).take(4) { out.push(format!("c17.split {} {} {},{} {}", hexd(s), flags, w[0], w[1], g.oracle)); }
        for w in inside.windows(3).take(2) { out.push(format!("c17.split {} {} {},{},{} {}", hexd(s), flags, w[0], w[1], w[2], g.oracle)); }
        if b0.len() >= 2 { let i = rng.below(b0.len() as u64 - 1) as usize + 1; let j = rng.below(i as u64) as usize;
            out.push(format!("c17.split {} {} {},{} {}", hexd(s), flags, b0[i], b0[j], g.oracle));
            out.push(format!("c17.split {} {} {},{},{} {}", hexd(s), flags, b0[i], b0[j], b0[i], g.oracle)); }
        for extra in [0usize, 1, 7] { out.push(format!("c17.break {} {} {} {}", hexd(s), flags, s.len() + extra, g.oracle)); out.push(format!("c17.split {} {} {} {}", hexd(s), flags, s.len() + extra, g.oracle)); }
        if let Some(b) = b0.get(rng.below(b0.len() as u64) as usize) { out.push(format!("c17.break {} {} {} {}", hexd(s), flags, b, g.oracle)); }
    }
    // deep stacks carried across a split: the interpreter pre-sizes its stacks (100 main / 10 alt items), so segments are
    // resumed with fewer, exactly as many and more items than that on either stack
    for n in [1usize, 9, 10, 11, 12, 40] {
        let mut sc = vec![];
        for i in 0..n { sc.push(0x51 + (i % 16) as u8); sc.push(0x6b); }        // OP_k OP_TOALTSTACK
        for _ in 0..n { sc.push(0x6c); }                                       // OP_FROMALTSTACK
        sc.push(0x74);                                                         // OP_DEPTH
        for b in [2 * n - 2, 2 * n, 2 * n + 1, 3 * n] { out.push(format!("c17.split {} 0 {} t:t:t", hexd(&sc), b)); }
        out.push(format!("c17.split {} 0 {},{} t:t:t", hexd(&sc), 2 * n, 2 * n + n / 2));
    }
    for m in [31usize, 32, 33, 34, 50] {
        let mut sc = vec![0x51, 0x52, 0x53];
        for _ in 0..m { sc.push(0x6f); }                                       // OP_3DUP
        sc.push(0x74);
        for b in [3 + m - 1, 3 + m, 3 + m / 2] { out.push(format!("c17.split {} 0 {} t:t:t", hexd(&sc), b)); }
        out.push(format!("c17.split {} 0 {},{} t:t:t", hexd(&sc), 3 + m / 2, 3 + m));
    }
    // integer literals of the interpreter sources (and their neighbours, up to 1100) as the number of items carried across a
    // split on either stack
    for v in crate::harvest::ints(&["script/interpreter.rs", "script/stack.rs", "script/mod.rs"], 1100) {
        let n = v as usize; if n == 0 { continue; }
        let mut sc = vec![];
        for i in 0..n { sc.push(0x51 + (i % 16) as u8); sc.push(0x6b); }
        sc.push(0x6c); sc.push(0x74);
        out.push(format!("c17.split {} 0 {} t:t:t", hexd(&sc), 2 * n));
        out.push(format!("c17.split {} 1 {},{} t:t:t", hexd(&sc), n - n % 2, 2 * n));         // pre-genesis rules, three segments
        let mut sc: Vec<u8> = (0..n).map(|i| 0x51 + (i % 16) as u8).collect();
        sc.push(0x74); sc.push(0x75);
        out.push(format!("c17.split {} 0 {} t:t:t", hexd(&sc), n));
        // n executed non-push opcodes (a per-run counter of operations is not carried across segments), both rule sets
        let mut sc: Vec<u8> = vec![0x51]; for _ in 0..n { sc.push(0x8b); }                      // OP_1, n x OP_1ADD
        for flags in [0u32, 1] { out.push(format!("c17.split {} {} {} t:t:t", hexd(&sc), flags, 1 + n / 2)); out.push(format!("c17.split {} {} {},{} t:t:t", hexd(&sc), flags, 1 + n / 3, 1 + 2 * n / 3)); }
    }
    // code separator executed in an earlier segment, signature check in a later one (recorded finding)
    out.push("c17.split 5151ab61ac 0 4 t:t:t".to_string());
    out.push("c17.split 5151ab61ac 0 3 t:t:t".to_string());
}

//! cgh — correspondence harness: runs the real chain-gang code (current /repo working tree)
//! on generated or replayed request lines and prints `request<TAB>outcome` per case.
mod rng;
mod util;
mod tables;
pub mod alloc;
#[global_allocator]
static GLOBAL: alloc::Track = alloc::Track;
mod scriptgen;
pub mod harvest;

use std::cell::RefCell;
use std::io::{BufRead, Write};

thread_local! { pub static LAST_PANIC: RefCell<String> = RefCell::new(String::new()); }

pub type GenFn = fn(tier: &str, rng: &mut rng::Rng, out: &mut Vec<String>);
pub type ExecFn = fn(op: &str, args: &[&str]) -> Option<String>;
pub type TablesFn = fn(w: &mut dyn std::io::Write);

include!(concat!(env!("OUT_DIR"), "/registry.rs"));

/// Runs one request on a worker thread and waits for its answer with a deadline: a request that does not come back (an
/// evaluation that loops without progress, a deadlocked session) is reported as the outcome `hang:<limit>`; its thread is
/// abandoned and a fresh worker serves the following requests.  After a few hangs the remaining requests of the run are
/// answered `skipped:hang-budget` (every abandoned thread may still be spinning on a core).
struct Worker { tx: std::sync::mpsc::Sender<String>, rx: std::sync::mpsc::Receiver<String> }
static HANGS: std::sync::atomic::AtomicUsize = std::sync::atomic::AtomicUsize::new(0);
thread_local! { static WORKER: RefCell<Option<Worker>> = RefCell::new(None); }

fn spawn_worker() -> Worker {
    let (tx, rxi) = std::sync::mpsc::channel::<String>();
    let (txo, rx) = std::sync::mpsc::channel::<String>();
    std::thread::Builder::new().stack_size(256 << 20).spawn(move || {
        for line in rxi { let r = exec_line_here(&line); if txo.send(r).is_err() { break; } }
    }).expect("cannot spawn worker");
    Worker { tx, rx }
}

fn deadline_for(op: &str) -> u64 {
    // interpreter / codec requests answer in microseconds; sessions and scheduled thread programs have their own watchdogs
    if op.starts_with("c12.") || op.starts_with("c13.") || op.starts_with("c11.") { 180 }
    else if op.starts_with("c01.") || op.starts_with("c07.") || op.starts_with("c16.") || op.starts_with("c17.") { 10 }
    else { 60 }
}

fn exec_line(line: &str) -> String {
    if std::env::var("CGH_NO_WORKER").is_ok() { return exec_line_here(line); }
    if HANGS.load(std::sync::atomic::Ordering::SeqCst) >= 4 { return "skipped:hang-budget".into(); }
    let limit = deadline_for(line.split(' ').next().unwrap_or(""));
    WORKER.with(|w| {
        let mut w = w.borrow_mut();
        if w.is_none() { *w = Some(spawn_worker()); }
        let wk = w.as_ref().unwrap();
        if wk.tx.send(line.to_string()).is_err() { *w = None; return "panic:worker-gone".to_string(); }
        match wk.rx.recv_timeout(std::time::Duration::from_secs(limit)) {
            Ok(r) => r,
            Err(std::sync::mpsc::RecvTimeoutError::Timeout) => {
                HANGS.fetch_add(1, std::sync::atomic::Ordering::SeqCst);
                *w = None;
                format!("hang:{}s", limit)
            }
            Err(_) => { *w = None; "panic:worker-died".to_string() }
        }
    })
}

fn exec_line_here(line: &str) -> String {
    let parts: Vec<&str> = line.split(' ').collect();
    let op = parts[0];
    for (_, _, ex, _) in registry() {
        if let Some(r) = util::guarded(|| match ex(op, &parts[1..]) { Some(s) => s, None => "\u{0}".into() }).into() {
            let r: String = r;
            if r != "\u{0}" { return r; }
        }
    }
    format!("unknown-op:{}", op)
}

fn main() {
    std::panic::set_hook(Box::new(|info| {
        let loc = info.location().map(|l| format!("{}:{}", l.file().rsplit("/src/").next().unwrap_or(""), l.line())).unwrap_or_default();
        LAST_PANIC.with(|l| *l.borrow_mut() = loc);
    }));
    let args: Vec<String> = std::env::args().collect();
    // results go to the file named by CGH_OUT when set (the library itself prints to stdout in places)
    let sink: Box<dyn Write> = match std::env::var("CGH_OUT") {
        Ok(p) if !p.is_empty() => Box::new(std::fs::File::create(p).expect("cannot create CGH_OUT")),
        _ => Box::new(std::io::stdout()),
    };
    let mut w = std::io::BufWriter::new(sink);
    match args.get(1).map(|s| s.as_str()) {
        Some("tables") => { tables::print(&mut w); for (_, _, _, t) in registry() { t(&mut w); } }
        Some("gen") => {
            let prop = &args[2];
            let tier = args.get(3).map(|s| s.as_str()).unwrap_or("quick");
            let seed: u64 = args.get(4).and_then(|s| s.parse().ok()).unwrap_or(1);
            let mut rng = rng::Rng::new(seed);
            let mut reqs = Vec::new();
            for (p, g, _, _) in registry() { if p == prop { g(tier, &mut rng, &mut reqs); } }
            let mut capped = 0usize;
            let mut skipped = 0usize;
            for r in reqs {
                alloc::reset();
                let o = exec_line(&r);
                // a property's generator may run out of its wall-clock budget: such requests are not part of the run
                if o.starts_with("skipped:") { skipped += 1; continue; }
                // harness memory cap (not for C06, whose subject is the allocation itself)
                // script-evaluation properties construct values (NUM2BIN, CAT); their cap is 1 MiB so that the list-based
                // Lean model never has to build multi-megabyte items; wire properties keep the protocol's 32 MiB
                let cap = if ["C01", "C03", "C07", "C16", "C17", "C18"].contains(&prop.as_str()) { 1usize << 20 } else { alloc::CAP };
                if prop != "C06" && alloc::max_request() > cap { capped += 1; continue; }
                writeln!(w, "{}\t{}", r, o).unwrap();
            }
            if skipped > 0 { eprintln!("memcap: skipped {} generated case(s): the generator's wall-clock budget was used up", skipped); }
            if capped > 0 { eprintln!("memcap: dropped {} case(s) whose evaluation requested more than the harness memory cap at once", capped); }
        }
        Some("replay") => {
            let stdin = std::io::stdin();
            for line in stdin.lock().lines() {
                let line = line.unwrap();
                let req = line.split('\t').next().unwrap().trim().to_string();
                if req.is_empty() { continue; }
                let o = exec_line(&req);
                writeln!(w, "{}\t{}", req, o).unwrap();
            }
        }
        _ => { eprintln!("usage: cgh tables | gen <PROP> <tier> <seed> | replay < requests"); std::process::exit(2); }
    }
}

//! Integer literals of the tree under test, used as extra boundary values by the generators ("dictionary"): a change that
//! introduces a new magic number (a cap, a threshold, a buffer size) thereby also introduces the inputs around it.
use std::collections::BTreeSet;

fn literals(src: &str, out: &mut BTreeSet<u64>) {
    let b = src.as_bytes();
    let mut i = 0;
    while i < b.len() {
        let c = b[i];
        let prev_ident = i > 0 && (b[i - 1].is_ascii_alphanumeric() || b[i - 1] == b'_' || b[i - 1] == b'.');
        if c.is_ascii_digit() && !prev_ident {
            let start = i;
            let (radix, mut j) = if c == b'0' && i + 1 < b.len() && (b[i + 1] == b'x' || b[i + 1] == b'X') { (16, i + 2) } else { (10, i) };
            let ds = j;
            while j < b.len() && (b[j] == b'_' || (radix == 16 && b[j].is_ascii_hexdigit()) || (radix == 10 && b[j].is_ascii_digit())) { j += 1; }
            // a float or a tuple index / method call on a literal is not an integer constant of interest
            let is_float = radix == 10 && j < b.len() && b[j] == b'.' && j + 1 < b.len() && b[j + 1].is_ascii_digit();
            let digits: String = src[ds..j].chars().filter(|ch| *ch != '_').collect();
            if !is_float && !digits.is_empty() {
                if let Ok(v) = u64::from_str_radix(&digits, radix) { out.insert(v); }
            }
            // `1 << k` style constants
            let rest = &src[j..];
            if let Some(r) = rest.trim_start().strip_prefix("<<") {
                let k: String = r.trim_start().chars().take_while(|ch| ch.is_ascii_digit()).collect();
                if let (Ok(base), Ok(k)) = (u64::from_str_radix(&digits, radix), k.parse::<u32>()) { if k < 63 { if let Some(v) = base.checked_shl(k) { out.insert(v); } } }
            }
            i = j.max(start + 1);
        } else { i += 1; }
    }
}

/// every integer literal (decimal, hex, `a << k`) in the given files of the tree the harness is linked against, each with
/// its two neighbours, sorted; values above `max` are dropped
pub fn ints(files: &[&str], max: u64) -> Vec<u64> {
    let mut set = BTreeSet::new();
    for f in files {
        let p = format!("{}/src/{}", env!("CG_REPO"), f);
        if let Ok(src) = std::fs::read_to_string(&p) { literals(&src, &mut set); }
    }
    let mut out = BTreeSet::new();
    for v in set { for d in [v.saturating_sub(1), v, v.saturating_add(1)] { if d <= max { out.insert(d); } } }
    out.into_iter().collect()
}

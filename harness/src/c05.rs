//! C05 — P2P wire format: encode/decode round-trip and header consistency.
//!
//! Requests
//!   c05.enc  <kind> <magic> <tokens…>   build the value, `Message::write`, `size()`, `Message::read` it back
//!   c05.penc <type> <tokens…>           build the value, `T::write`, `size()`, `T::read` it back
//!   c05.dec  <label> <magic> <hex>      `Message::read`, print the value, `write`, `read`, `write` (fixpoint -> class `ok`, else `nofix`)
//!   c05.pdec <type> <hex>               `T::read`, print the value, `write`, `read`, `write`
//!
//! Value tokens (shared with lean/CG/Drv/C05.lean): the fields in wire order; integers in decimal,
//! byte strings / hashes / strings as `x<hex>`, a list as its count followed by the elements, an
//! `Option` as `0` or `1 <value>`, `bool` as 0/1.
//!
//! The byte strings of `dec`/`pdec` requests are laid out by this file's own encoder (`Lay`), which
//! can also produce NON-canonical encodings (non-minimal varints, relay byte 2, explicit empty
//! trailing fields, missing/odd `headers` count bytes), so request lines never depend on `write`.
use crate::rng::Rng;
use crate::util::*;
use chain_gang::messages::*;
use chain_gang::network::Network;
use chain_gang::script::Script;
use chain_gang::util::{sha256d, BloomFilter, Hash256, Serializable};
use std::io::Cursor;
use std::net::Ipv6Addr;

pub const NETWORKS: [Network; 7] = [Network::BSV_Mainnet, Network::BSV_Testnet, Network::BSV_STN, Network::BTC_Mainnet, Network::BTC_Testnet, Network::BCH_Mainnet, Network::BCH_Testnet];

pub fn tables(w: &mut dyn std::io::Write) {
    writeln!(w, "C05_MAX_FILTER_ADD_DATA_SIZE {}", MAX_FILTER_ADD_DATA_SIZE).unwrap();
    writeln!(w, "C05_MIN_SUPPORTED_PROTOCOL_VERSION {}", MIN_SUPPORTED_PROTOCOL_VERSION).unwrap();
    writeln!(w, "C05_MIN_SUPPORTED_STREAM_TYPE {}", MIN_SUPPORTED_STREAM_TYPE).unwrap();
    writeln!(w, "C05_MAX_SUPPORTED_STREAM_TYPE {}", MAX_SUPPORTED_STREAM_TYPE).unwrap();
    writeln!(w, "C05_MESSAGE_HEADER_SIZE {}", MessageHeader::SIZE).unwrap();
    let l = |w: &mut dyn std::io::Write, n: &str, b: &[u8]| { writeln!(w, "LIST {} {}", n, b.iter().map(|x| x.to_string()).collect::<Vec<_>>().join(" ")).unwrap(); };
    l(w, "C05_NO_CHECKSUM", &NO_CHECKSUM);
    writeln!(w, "LIST C05_MAGICS {}", magics().iter().map(|m| u32::from_be_bytes(*m).to_string()).collect::<Vec<_>>().join(" ")).unwrap();
    use commands::*;
    for (n, c) in [("ADDR", ADDR), ("ADDRV2", ADDRV2), ("BLOCK", BLOCK), ("BLOCKTXN", BLOCKTXN), ("CMPCTBLOCK", CMPCTBLOCK), ("INV", INV), ("FEEFILTER", FEEFILTER),
        ("FILTERADD", FILTERADD), ("FILTERCLEAR", FILTERCLEAR), ("FILTERLOAD", FILTERLOAD), ("GETADDR", GETADDR), ("GETBLOCKS", GETBLOCKS), ("GETBLOCKTXN", GETBLOCKTXN),
        ("GETDATA", GETDATA), ("GETHEADERS", GETHEADERS), ("HEADERS", HEADERS), ("MEMPOOL", MEMPOOL), ("MERKLEBLOCK", MERKLEBLOCK), ("NOTFOUND", NOTFOUND), ("PING", PING),
        ("PONG", PONG), ("REJECT", REJECT), ("SENDCMPCT", SENDCMPCT), ("SENDHEADERS", SENDHEADERS), ("TX", TX), ("VERSION", VERSION), ("VERACK", VERACK),
        ("PROTOCONF", PROTOCONF), ("AUTHCH", AUTHCH), ("CREATESTRM", CREATESTRM), ("STREAMACK", STREAMACK), ("SENDADDRV2", SENDADDRV2)] {
        l(w, &format!("C05_CMD_{}", n), &c);
    }
}

/// the distinct network magics of `Network::magic()`
fn magics() -> Vec<[u8; 4]> {
    let mut v: Vec<[u8; 4]> = NETWORKS.iter().map(|n| n.magic()).collect();
    v.sort(); v.dedup(); v
}

// ---------------------------------------------------------------- digests

fn digest_b(b: &[u8]) -> String {
    if b.len() <= 96 { hexd(b) } else { format!("#{}.{}", b.len(), hex::encode(sha256d(b).0)) }
}
fn digest_s(s: &str) -> String {
    if s.len() <= 200 { if s.is_empty() { "-".into() } else { s.to_string() } } else { format!("#{}.{}", s.len(), hex::encode(sha256d(s.as_bytes()).0)) }
}

// ---------------------------------------------------------------- layout (tokens + reference bytes)

pub struct Lay<'r> { pub toks: Vec<String>, pub bytes: Vec<u8>, nc: Option<&'r mut Rng> }
impl<'r> Lay<'r> {
    pub fn canon() -> Lay<'static> { Lay { toks: vec![], bytes: vec![], nc: None } }
    pub fn noncanon(r: &'r mut Rng) -> Lay<'r> { Lay { toks: vec![], bytes: vec![], nc: Some(r) } }
    fn t<T: ToString>(&mut self, x: T) { self.toks.push(x.to_string()); }
    /// true with probability num/den in non-canonical mode, never in canonical mode
    fn odd(&mut self, num: u64, den: u64) -> bool { match self.nc.as_mut() { Some(r) => r.chance(num, den), None => false } }
    fn rnd(&mut self) -> u8 { match self.nc.as_mut() { Some(r) => r.byte(), None => 0 } }
    fn u8(&mut self, x: u8) { self.t(x); self.bytes.push(x); }
    fn u16be(&mut self, x: u16) { self.t(x); self.bytes.extend(x.to_be_bytes()); }
    fn u32(&mut self, x: u32) { self.t(x); self.bytes.extend(x.to_le_bytes()); }
    fn u64(&mut self, x: u64) { self.t(x); self.bytes.extend(x.to_le_bytes()); }
    fn i32(&mut self, x: i32) { self.t(x); self.bytes.extend(x.to_le_bytes()); }
    fn i64(&mut self, x: i64) { self.t(x); self.bytes.extend(x.to_le_bytes()); }
    /// CompactSize bytes; in non-canonical mode sometimes a wider class than necessary
    fn varint_bytes(&mut self, n: u64) {
        let min = if n < 0xfd { 0 } else if n <= 0xffff { 1 } else if n <= 0xffff_ffff { 2 } else { 3 };
        let mut c = min;
        if self.odd(1, 3) { let extra = (self.rnd() % 4) as usize; c = (min + extra).min(3); }
        match c {
            0 => self.bytes.push(n as u8),
            1 => { self.bytes.push(0xfd); self.bytes.extend((n as u16).to_le_bytes()); }
            2 => { self.bytes.push(0xfe); self.bytes.extend((n as u32).to_le_bytes()); }
            _ => { self.bytes.push(0xff); self.bytes.extend(n.to_le_bytes()); }
        }
    }
    fn var(&mut self, n: u64) { self.t(n); self.varint_bytes(n); }
    fn count(&mut self, n: usize) { self.var(n as u64); }
    fn raw(&mut self, b: &[u8]) { self.toks.push(format!("x{}", hex::encode(b))); self.bytes.extend(b); }
    fn vbytes(&mut self, b: &[u8]) { self.varint_bytes(b.len() as u64); self.raw(b); }
    /// a string field; in non-canonical mode sometimes replaced by text around a boundary / ill-formed UTF-8 sequence
    fn vstr(&mut self, s: &str) {
        if self.odd(1, 6) {
            const SEQS: [&[u8]; 26] = [&[0xc0, 0x80], &[0xc1, 0xbf], &[0xc2, 0x80], &[0xdf, 0xbf], &[0xe0, 0x80, 0x80], &[0xe0, 0x9f, 0xbf], &[0xe0, 0xa0, 0x80],
                &[0xed, 0xa0, 0x80], &[0xed, 0x9f, 0xbf], &[0xee, 0x80, 0x80], &[0xef, 0xbf, 0xbf], &[0xf0, 0x80, 0x80, 0x80], &[0xf0, 0x8f, 0xbf, 0xbf], &[0xf0, 0x90, 0x80, 0x80],
                &[0xf4, 0x8f, 0xbf, 0xbf], &[0xf4, 0x90, 0x80, 0x80], &[0xf5, 0x80, 0x80, 0x80], &[0x80], &[0xbf], &[0xc2], &[0xe2, 0x82], &[0xf0, 0x9f, 0x98], &[0xc2, 0x41],
                &[0xe2, 0x28, 0xa1], &[0xff], &[0xf1, 0x80, 0x80, 0x80]];
            let k = (self.rnd() as usize) % SEQS.len();
            let mut b: Vec<u8> = Vec::new();
            for _ in 0..(self.rnd() % 3) { b.push(b'a'); }
            b.extend(SEQS[k]);
            for _ in 0..(self.rnd() % 3) { b.push(b'z'); }
            self.vbytes(&b);
        } else { self.vbytes(s.as_bytes()); }
    }
}

fn lay_outpoint(v: &OutPoint, l: &mut Lay) { l.raw(&v.hash.0); l.u32(v.index); }
fn lay_txin(v: &TxIn, l: &mut Lay) { lay_outpoint(&v.prev_output, l); l.vbytes(&v.unlock_script.0); l.u32(v.sequence); }
fn lay_txout(v: &TxOut, l: &mut Lay) { l.i64(v.satoshis); l.vbytes(&v.lock_script.0); }
fn lay_tx(v: &Tx, l: &mut Lay) {
    l.u32(v.version);
    l.count(v.inputs.len()); for i in &v.inputs { lay_txin(i, l); }
    l.count(v.outputs.len()); for o in &v.outputs { lay_txout(o, l); }
    l.u32(v.lock_time);
}
fn lay_header(v: &BlockHeader, l: &mut Lay) { l.u32(v.version); l.raw(&v.prev_hash.0); l.raw(&v.merkle_root.0); l.u32(v.timestamp); l.u32(v.bits); l.u32(v.nonce); }
fn lay_invvect(v: &InvVect, l: &mut Lay) { l.u32(v.obj_type); l.raw(&v.hash.0); }
fn lay_inv(v: &Inv, l: &mut Lay) { l.count(v.objects.len()); for o in &v.objects { lay_invvect(o, l); } }
fn lay_locator(v: &BlockLocator, l: &mut Lay) { l.u32(v.version); l.count(v.block_locator_hashes.len()); for h in &v.block_locator_hashes { l.raw(&h.0); } l.raw(&v.hash_stop.0); }
fn lay_nodeaddr(v: &NodeAddr, l: &mut Lay) { l.u64(v.services); l.raw(&v.ip.octets()); l.u16be(v.port); }
fn lay_nodeaddrex(v: &NodeAddrEx, l: &mut Lay) { l.u32(v.last_connected_time); lay_nodeaddr(&v.addr, l); }
fn lay_version(v: &Version, l: &mut Lay) {
    l.u32(v.version); l.u64(v.services); l.i64(v.timestamp); lay_nodeaddr(&v.recv_addr, l); lay_nodeaddr(&v.tx_addr, l); l.u64(v.nonce);
    l.vstr(&v.user_agent); l.i32(v.start_height);
    // relay: any byte other than 1 reads as false
    l.t(v.relay as u8);
    let rb = if v.relay { 1 } else if l.odd(1, 2) { let x = l.rnd(); if x == 1 { 2 } else { x } } else { 0 };
    l.bytes.push(rb);
    l.toks.push(format!("x{}", hex::encode(&v.association_id)));
    if !v.association_id.is_empty() { l.bytes.push(v.association_id.len() as u8); l.bytes.extend(&v.association_id); }
    else if l.odd(1, 2) { l.bytes.push(0); } // explicit empty association id
}
fn lay_addr(v: &Addr, l: &mut Lay) { l.count(v.addrs.len()); for a in &v.addrs { lay_nodeaddrex(a, l); } }
fn lay_headers(v: &Headers, l: &mut Lay) {
    l.count(v.headers.len());
    let n = v.headers.len();
    for (i, h) in v.headers.iter().enumerate() {
        lay_header(h, l);
        if i + 1 == n && l.odd(1, 3) { /* the last count byte may be missing */ }
        else if l.odd(1, 3) { let x = l.rnd(); l.bytes.push(x); }
        else { l.bytes.push(0); }
    }
}
fn lay_block(v: &Block, l: &mut Lay) { lay_header(&v.header, l); l.count(v.txns.len()); for t in &v.txns { lay_tx(t, l); } }
fn lay_merkleblock(v: &MerkleBlock, l: &mut Lay) { lay_header(&v.header, l); l.u32(v.total_transactions); l.count(v.hashes.len()); for h in &v.hashes { l.raw(&h.0); } l.vbytes(&v.flags); }
fn lay_filterload(v: &FilterLoad, l: &mut Lay) { l.vbytes(&v.bloom_filter.filter); l.u32(v.bloom_filter.num_hash_funcs as u32); l.u32(v.bloom_filter.tweak); l.u8(v.flags); }
fn lay_filteradd(v: &FilterAdd, l: &mut Lay) { l.vbytes(&v.data); }
fn lay_reject(v: &Reject, l: &mut Lay) { l.vbytes(v.message.as_bytes()); l.u8(v.code); l.vstr(&v.reason); l.raw(&v.data); }
fn lay_protoconf(v: &Protoconf, l: &mut Lay) {
    l.var(v.version); l.u32(v.max_recv_payload_length);
    match &v.stream_policies { None => l.t(0), Some(s) => { l.t(1); if v.version > 1 { l.vstr(s); } else { l.toks.push(format!("x{}", hex::encode(s.as_bytes()))); } } }
}
fn lay_authch(v: &Authch, l: &mut Lay) { l.i32(v.version); l.u32(v.message_length); l.raw(&v.message); }
fn lay_assoc(a: &[u8], l: &mut Lay) { l.bytes.push(a.len() as u8); l.raw(a); }
fn lay_createstrm(v: &Createstrm, l: &mut Lay) {
    lay_assoc(&v.association_id, l); l.u8(v.stream_type);
    if !v.stream_policy.is_empty() { l.vstr(&v.stream_policy); }
    else { l.toks.push("x".into()); if l.odd(1, 2) { l.varint_bytes(0); } }
}
fn lay_streamack(v: &Streamack, l: &mut Lay) { lay_assoc(&v.association_id, l); l.u8(v.stream_type); }
fn lay_cmpctblock(v: &Cmpctblock, l: &mut Lay) {
    lay_header(&v.header, l); l.u64(v.nonce);
    l.count(v.shortids.len()); for s in &v.shortids { l.raw(s); }
    l.count(v.prefilledtxn.len()); for p in &v.prefilledtxn { l.var(p.index); lay_tx(&p.tx, l); }
}
fn lay_getblocktxn(v: &Getblocktxn, l: &mut Lay) { l.raw(&v.blockhash.0); l.count(v.indexes.len()); for i in &v.indexes { l.var(*i); } }
fn lay_blocktxn(v: &Blocktxn, l: &mut Lay) { l.raw(&v.blockhash.0); l.count(v.transactions.len()); for t in &v.transactions { lay_tx(t, l); } }
fn lay_msgheader(v: &MessageHeader, l: &mut Lay) { l.raw(&v.magic); l.raw(&v.command); l.u32(v.payload_size); l.raw(&v.checksum); }

/// addrv2 entry (the library's `NodeAddrExV2`/`Bip155` cannot be named from outside the crate)
#[derive(Clone, Debug, PartialEq)]
pub struct V2E { time: u32, services: u64, id: u8, addr: Vec<u8>, port: u16 }
fn lay_v2e(v: &V2E, l: &mut Lay) { l.u32(v.time); l.var(v.services); l.u8(v.id); l.vbytes(&v.addr); l.u16be(v.port); }
fn lay_addrv2(v: &[V2E], l: &mut Lay) { l.count(v.len()); for e in v { lay_v2e(e, l); } }

const KINDS: [&str; 33] = ["addr", "addrv2", "block", "feefilter", "filteradd", "filterclear", "filterload", "getaddr", "getblocks", "getdata", "getheaders",
    "headers", "inv", "mempool", "merkleblock", "notfound", "ping", "pong", "reject", "sendheaders", "sendcmpct", "tx", "verack", "version", "protoconf",
    "authch", "createstrm", "streamack", "cmpctblock", "getblocktxn", "blocktxn", "sendaddrv2", "other"];

const PTYPES: [&str; 30] = ["varint", "outpoint", "txin", "txout", "tx", "blockheader", "invvect", "inv", "blocklocator", "ping", "feefilter", "sendcmpct", "nodeaddr",
    "nodeaddrex", "version", "addr", "headers", "block", "merkleblock", "filterload", "filteradd", "reject", "protoconf", "authch", "createstrm", "streamack",
    "cmpctblock", "getblocktxn", "blocktxn", "msgheader"];

/// tokens + kind name of a real message; AddrV2 entries are printed through their own `write`
fn lay_msg(m: &Message, l: &mut Lay) -> &'static str {
    match m {
        Message::Addr(p) => { lay_addr(p, l); "addr" }
        Message::AddrV2(p) => {
            l.count(p.addrs.len());
            for a in &p.addrs {
                let mut b = Vec::new(); a.bip_address.write(&mut b).unwrap();
                // id, one-byte length (every BIP-155 length is < 253), address
                let e = V2E { time: a.last_connected_time, services: a.services, id: b[0], addr: b[2..].to_vec(), port: a.port };
                lay_v2e(&e, l);
            }
            "addrv2"
        }
        Message::Block(p) => { lay_block(p, l); "block" }
        Message::FeeFilter(p) => { l.u64(p.minfee); "feefilter" }
        Message::FilterAdd(p) => { lay_filteradd(p, l); "filteradd" }
        Message::FilterClear => "filterclear",
        Message::FilterLoad(p) => { lay_filterload(p, l); "filterload" }
        Message::GetAddr => "getaddr",
        Message::GetBlocks(p) => { lay_locator(p, l); "getblocks" }
        Message::GetData(p) => { lay_inv(p, l); "getdata" }
        Message::GetHeaders(p) => { lay_locator(p, l); "getheaders" }
        Message::Headers(p) => { lay_headers(p, l); "headers" }
        Message::Inv(p) => { lay_inv(p, l); "inv" }
        Message::Mempool => "mempool",
        Message::MerkleBlock(p) => { lay_merkleblock(p, l); "merkleblock" }
        Message::NotFound(p) => { lay_inv(p, l); "notfound" }
        Message::Other(s) => { l.toks.push(hex::encode(s.as_bytes())); "other" }
        Message::Partial(_) => "partial",
        Message::Ping(p) => { l.u64(p.nonce); "ping" }
        Message::Pong(p) => { l.u64(p.nonce); "pong" }
        Message::Reject(p) => { lay_reject(p, l); "reject" }
        Message::SendHeaders => "sendheaders",
        Message::SendCmpct(p) => { l.u8(p.enable); l.u64(p.version); "sendcmpct" }
        Message::Tx(p) => { lay_tx(p, l); "tx" }
        Message::Verack => "verack",
        Message::Version(p) => { lay_version(p, l); "version" }
        Message::Protoconf(p) => { lay_protoconf(p, l); "protoconf" }
        Message::Authch(p) => { lay_authch(p, l); "authch" }
        Message::Createstrm(p) => { lay_createstrm(p, l); "createstrm" }
        Message::Streamack(p) => { lay_streamack(p, l); "streamack" }
        Message::Cmpctblock(p) => { lay_cmpctblock(p, l); "cmpctblock" }
        Message::Getblocktxn(p) => { lay_getblocktxn(p, l); "getblocktxn" }
        Message::Blocktxn(p) => { lay_blocktxn(p, l); "blocktxn" }
        Message::SendAddrV2 => "sendaddrv2",
    }
}

/// `Payload::size()` of the message's payload (what `write_with_payload` puts in the header)
fn size_msg(m: &Message) -> usize {
    match m {
        Message::Addr(p) => p.size(), Message::AddrV2(p) => p.size(), Message::Block(p) => p.size(), Message::FeeFilter(p) => p.size(),
        Message::FilterAdd(p) => p.size(), Message::FilterLoad(p) => p.size(), Message::GetBlocks(p) => p.size(), Message::GetData(p) => p.size(),
        Message::GetHeaders(p) => p.size(), Message::Headers(p) => p.size(), Message::Inv(p) => p.size(), Message::MerkleBlock(p) => p.size(),
        Message::NotFound(p) => p.size(), Message::Ping(p) => p.size(), Message::Pong(p) => p.size(), Message::Reject(p) => p.size(),
        Message::SendCmpct(p) => p.size(), Message::Tx(p) => p.size(), Message::Version(p) => p.size(), Message::Protoconf(p) => p.size(),
        Message::Authch(p) => p.size(), Message::Createstrm(p) => p.size(), Message::Streamack(p) => p.size(), Message::Cmpctblock(p) => p.size(),
        Message::Getblocktxn(p) => p.size(), Message::Blocktxn(p) => p.size(),
        _ => 0,
    }
}

// ---------------------------------------------------------------- token parser

struct P<'a> { t: &'a [&'a str], i: usize }
impl<'a> P<'a> {
    fn s(&mut self) -> &'a str { let x = self.t[self.i]; self.i += 1; x }
    fn n<T: std::str::FromStr>(&mut self) -> T where T::Err: std::fmt::Debug { self.s().parse::<T>().expect("bad number token") }
    fn b(&mut self) -> Vec<u8> { let x = self.s(); assert!(x.starts_with('x'), "bad bytes token"); hex::decode(&x[1..]).expect("bad hex token") }
    fn h(&mut self) -> Hash256 { let b = self.b(); let mut a = [0u8; 32]; a.copy_from_slice(&b); Hash256(a) }
    fn st(&mut self) -> String { String::from_utf8(self.b()).expect("string token not utf8") }
    fn list<T>(&mut self, f: fn(&mut P<'a>) -> T) -> Vec<T> { let n: usize = self.n(); (0..n).map(|_| f(self)).collect() }
    fn done(&self) { assert!(self.i == self.t.len(), "trailing tokens"); }
}
fn p_outpoint(p: &mut P) -> OutPoint { OutPoint { hash: p.h(), index: p.n() } }
fn p_txin(p: &mut P) -> TxIn { TxIn { prev_output: p_outpoint(p), unlock_script: Script(p.b()), sequence: p.n() } }
fn p_txout(p: &mut P) -> TxOut { TxOut { satoshis: p.n(), lock_script: Script(p.b()) } }
fn p_tx(p: &mut P) -> Tx { Tx { version: p.n(), inputs: p.list(p_txin), outputs: p.list(p_txout), lock_time: p.n() } }
fn p_header(p: &mut P) -> BlockHeader { BlockHeader { version: p.n(), prev_hash: p.h(), merkle_root: p.h(), timestamp: p.n(), bits: p.n(), nonce: p.n() } }
fn p_invvect(p: &mut P) -> InvVect { InvVect { obj_type: p.n(), hash: p.h() } }
fn p_inv(p: &mut P) -> Inv { Inv { objects: p.list(p_invvect) } }
fn p_hash(p: &mut P) -> Hash256 { p.h() }
fn p_locator(p: &mut P) -> BlockLocator { BlockLocator { version: p.n(), block_locator_hashes: p.list(p_hash), hash_stop: p.h() } }
fn p_nodeaddr(p: &mut P) -> NodeAddr { let services = p.n(); let b = p.b(); let mut ip = [0u8; 16]; ip.copy_from_slice(&b); NodeAddr { services, ip: Ipv6Addr::from(ip), port: p.n() } }
fn p_nodeaddrex(p: &mut P) -> NodeAddrEx { NodeAddrEx { last_connected_time: p.n(), addr: p_nodeaddr(p) } }
fn p_version(p: &mut P) -> Version {
    Version { version: p.n(), services: p.n(), timestamp: p.n(), recv_addr: p_nodeaddr(p), tx_addr: p_nodeaddr(p), nonce: p.n(), user_agent: p.st(),
        start_height: p.n(), relay: p.n::<u8>() == 1, association_id: p.b() }
}
fn p_addr(p: &mut P) -> Addr { Addr { addrs: p.list(p_nodeaddrex) } }
fn p_headers(p: &mut P) -> Headers { Headers { headers: p.list(p_header) } }
fn p_block(p: &mut P) -> Block { Block { header: p_header(p), txns: p.list(p_tx) } }
fn p_bytes(p: &mut P) -> Vec<u8> { p.b() }
fn p_merkleblock(p: &mut P) -> MerkleBlock { MerkleBlock { header: p_header(p), total_transactions: p.n(), hashes: p.list(p_hash), flags: p.b() } }
fn p_filterload(p: &mut P) -> FilterLoad { FilterLoad { bloom_filter: BloomFilter { filter: p.b(), num_hash_funcs: p.n(), tweak: p.n() }, flags: p.n() } }
fn p_filteradd(p: &mut P) -> FilterAdd { FilterAdd { data: p.b() } }
fn p_reject(p: &mut P) -> Reject { Reject { message: p.st(), code: p.n(), reason: p.st(), data: p.b() } }
fn p_protoconf(p: &mut P) -> Protoconf { Protoconf { version: p.n(), max_recv_payload_length: p.n(), stream_policies: if p.n::<u8>() == 1 { Some(p.st()) } else { None } } }
fn p_authch(p: &mut P) -> Authch { Authch { version: p.n(), message_length: p.n(), message: p.b() } }
fn p_createstrm(p: &mut P) -> Createstrm { Createstrm { association_id: p.b(), stream_type: p.n(), stream_policy: p.st() } }
fn p_streamack(p: &mut P) -> Streamack { Streamack { association_id: p.b(), stream_type: p.n() } }
fn p_cmpctblock(p: &mut P) -> Cmpctblock {
    let mut c = Cmpctblock::default();
    c.header = p_header(p); c.nonce = p.n(); c.shortids = p.list(p_bytes);
    let n: usize = p.n();
    for _ in 0..n {
        // `PrefilledTransaction` is not exported; the element type is inferred
        c.prefilledtxn.push(Default::default());
        let k = c.prefilledtxn.len() - 1;
        c.prefilledtxn[k].index = p.n(); c.prefilledtxn[k].tx = p_tx(p);
    }
    c
}
fn p_u64(p: &mut P) -> u64 { p.n() }
fn p_getblocktxn(p: &mut P) -> Getblocktxn { Getblocktxn { blockhash: p.h(), indexes: p.list(p_u64) } }
fn p_blocktxn(p: &mut P) -> Blocktxn { Blocktxn { blockhash: p.h(), transactions: p.list(p_tx) } }
fn p_msgheader(p: &mut P) -> MessageHeader {
    let m = p.b(); let c = p.b(); let n = p.n(); let k = p.b();
    let mut h = MessageHeader::default(); h.magic.copy_from_slice(&m); h.command.copy_from_slice(&c); h.payload_size = n; h.checksum.copy_from_slice(&k); h
}
fn p_v2e(p: &mut P) -> V2E { V2E { time: p.n(), services: p.n(), id: p.n(), addr: p.b(), port: p.n() } }

fn p_msg(kind: &str, p: &mut P) -> Message {
    match kind {
        "addr" => Message::Addr(p_addr(p)), "block" => Message::Block(p_block(p)), "feefilter" => Message::FeeFilter(FeeFilter { minfee: p.n() }),
        "filteradd" => Message::FilterAdd(p_filteradd(p)), "filterclear" => Message::FilterClear, "filterload" => Message::FilterLoad(p_filterload(p)),
        "getaddr" => Message::GetAddr, "getblocks" => Message::GetBlocks(p_locator(p)), "getdata" => Message::GetData(p_inv(p)),
        "getheaders" => Message::GetHeaders(p_locator(p)), "headers" => Message::Headers(p_headers(p)), "inv" => Message::Inv(p_inv(p)),
        "mempool" => Message::Mempool, "merkleblock" => Message::MerkleBlock(p_merkleblock(p)), "notfound" => Message::NotFound(p_inv(p)),
        "ping" => Message::Ping(Ping { nonce: p.n() }), "pong" => Message::Pong(Ping { nonce: p.n() }), "reject" => Message::Reject(p_reject(p)),
        "sendheaders" => Message::SendHeaders, "sendcmpct" => Message::SendCmpct(SendCmpct { enable: p.n(), version: p.n() }), "tx" => Message::Tx(p_tx(p)),
        "verack" => Message::Verack, "version" => Message::Version(p_version(p)), "protoconf" => Message::Protoconf(p_protoconf(p)),
        "authch" => Message::Authch(p_authch(p)), "createstrm" => Message::Createstrm(p_createstrm(p)), "streamack" => Message::Streamack(p_streamack(p)),
        "cmpctblock" => Message::Cmpctblock(p_cmpctblock(p)), "getblocktxn" => Message::Getblocktxn(p_getblocktxn(p)), "blocktxn" => Message::Blocktxn(p_blocktxn(p)),
        "sendaddrv2" => Message::SendAddrV2,
        _ => panic!("unknown kind {}", kind),
    }
}

// ---------------------------------------------------------------- running the real code

fn frame(magic: [u8; 4], cmd: &[u8; 12], payload: &[u8]) -> Vec<u8> {
    let mut v = Vec::with_capacity(24 + payload.len());
    v.extend(magic); v.extend(cmd); v.extend((payload.len() as u32).to_le_bytes()); v.extend(&sha256d(payload).0[..4]); v.extend(payload); v
}
fn cmd_of(kind: &str) -> [u8; 12] { let mut c = [0u8; 12]; c[..kind.len()].copy_from_slice(kind.as_bytes()); c }
fn magic_of(s: &str) -> [u8; 4] { let b = unhexd(s); let mut m = [0u8; 4]; m.copy_from_slice(&b); m }

/// write, size, read back
/// A destination that fails after accepting `left` bytes (a connection that breaks).
struct Breaking { left: usize }
impl std::io::Write for Breaking {
    fn write(&mut self, b: &[u8]) -> std::io::Result<usize> {
        if self.left == 0 { return Err(std::io::Error::new(std::io::ErrorKind::BrokenPipe, "broken")); }
        let n = b.len().min(self.left); self.left -= n; Ok(n)
    }
    fn flush(&mut self) -> std::io::Result<()> { Ok(()) }
}

fn enc_msg(m: &Message, magic: [u8; 4]) -> String {
    // the encoding of a message must not depend on what happened to EARLIER writes on this thread: first let a write of the
    // same message fail (before the header, inside the header, inside the payload), then do the one that is judged
    for left in [0usize, 10, 27] { let _ = m.write(&mut Breaking { left }, magic); }
    let mut v = Vec::new();
    if m.write(&mut v, magic).is_err() { return "err:write".into(); }
    let mut c = Cursor::new(&v);
    let rb = match Message::read(&mut c, magic) {
        Ok(m2) => if m2 == *m && c.position() as usize == v.len() { "1".to_string() } else { "0".to_string() },
        Err(e) => format!("e:{}", &err_class(&e)[4..]),
    };
    format!("ok:{}:{}:{}", digest_b(&v), size_msg(m), rb)
}

fn dec_msg(bytes: &[u8], magic: [u8; 4]) -> String {
    let mut c = Cursor::new(bytes);
    match Message::read(&mut c, magic) {
        Err(e) => err_class(&e),
        Ok(m) => {
            let pos = c.position();
            let mut l = Lay::canon();
            let kind = lay_msg(&m, &mut l);
            let toks = l.toks.join(",");
            if kind == "other" || kind == "partial" { return format!("ok:{}:{}:{}", kind, toks, pos); }
            let mut b2 = Vec::new();
            if m.write(&mut b2, magic).is_err() { return "err:write".into(); }
            let mut c2 = Cursor::new(&b2);
            let fix = match Message::read(&mut c2, magic) {
                Ok(m2) => { let mut b3 = Vec::new(); m2 == m && c2.position() as usize == b2.len() && m2.write(&mut b3, magic).is_ok() && b3 == b2 }
                Err(_) => false,
            };
            format!("{}:{}:{}:{}:{}", if fix { "ok" } else { "nofix" }, kind, digest_s(&toks), digest_b(&b2), pos)
        }
    }
}

fn penc<T: Serializable<T> + PartialEq>(v: &T, size: usize) -> String {
    let mut b = Vec::new();
    if v.write(&mut b).is_err() { return "err:write".into(); }
    let mut c = Cursor::new(&b);
    let rb = match T::read(&mut c) {
        Ok(v2) => if v2 == *v && c.position() as usize == b.len() { "1".to_string() } else { "0".to_string() },
        Err(e) => format!("e:{}", &err_class(&e)[4..]),
    };
    format!("ok:{}:{}:{}", digest_b(&b), size, rb)
}

thread_local! { static FRAG: std::cell::Cell<usize> = const { std::cell::Cell::new(0) }; }

fn pdec<T: Serializable<T> + PartialEq>(bytes: &[u8], lay: fn(&T, &mut Lay)) -> String {
    let mut c = Cursor::new(bytes);
    let k = FRAG.with(|f| f.get());
    // c05.pdecfrag: the same decode through a reader that hands out at most k bytes per call
    let mut fr = crate::util::FragReader { data: bytes, pos: 0, k, calls: 0 };
    let r = if k > 0 { T::read(&mut fr) } else { T::read(&mut c) };
    match r {
        Err(e) => err_class(&e),
        Ok(v) => {
            let pos = if k > 0 { fr.pos as u64 } else { c.position() };
            let mut l = Lay::canon(); lay(&v, &mut l);
            let mut b2 = Vec::new();
            if v.write(&mut b2).is_err() { return "err:write".into(); }
            let mut c2 = Cursor::new(&b2);
            let fix = match T::read(&mut c2) {
                Ok(v2) => { let mut b3 = Vec::new(); v2 == v && c2.position() as usize == b2.len() && v2.write(&mut b3).is_ok() && b3 == b2 }
                Err(_) => false,
            };
            format!("{}:{}:{}:{}", if fix { "ok" } else { "nofix" }, digest_s(&l.toks.join(",")), digest_b(&b2), pos)
        }
    }
}

/// `var_int` as a pseudo payload type (through the verif-hooks re-exports)
#[derive(PartialEq)]
struct VarInt(u64);
impl Serializable<VarInt> for VarInt {
    fn read(r: &mut dyn std::io::Read) -> Result<VarInt, chain_gang::util::ChainGangError> { Ok(VarInt(chain_gang::util::verif_hooks::var_int_read(r)?)) }
    fn write(&self, w: &mut dyn std::io::Write) -> std::io::Result<()> { chain_gang::util::verif_hooks::var_int_write(self.0, w) }
}
fn lay_varint(v: &VarInt, l: &mut Lay) { l.var(v.0); }
fn lay_ping(v: &Ping, l: &mut Lay) { l.u64(v.nonce); }
fn lay_feefilter(v: &FeeFilter, l: &mut Lay) { l.u64(v.minfee); }
fn lay_sendcmpct(v: &SendCmpct, l: &mut Lay) { l.u8(v.enable); l.u64(v.version); }

fn ptype_enc(ty: &str, p: &mut P) -> String {
    macro_rules! go { ($v:expr, $size:expr) => {{ let v = $v; p.done(); let s = $size(&v); penc(&v, s) }}; }
    match ty {
        "varint" => go!(VarInt(p.n()), |v: &VarInt| chain_gang::util::verif_hooks::var_int_size(v.0)),
        "outpoint" => go!(p_outpoint(p), |v: &OutPoint| v.size()), "txin" => go!(p_txin(p), |v: &TxIn| v.size()), "txout" => go!(p_txout(p), |v: &TxOut| v.size()),
        "tx" => go!(p_tx(p), |v: &Tx| v.size()), "blockheader" => go!(p_header(p), |v: &BlockHeader| v.size()), "invvect" => go!(p_invvect(p), |v: &InvVect| v.size()),
        "inv" => go!(p_inv(p), |v: &Inv| v.size()), "blocklocator" => go!(p_locator(p), |v: &BlockLocator| v.size()),
        "ping" => go!(Ping { nonce: p.n() }, |v: &Ping| v.size()), "feefilter" => go!(FeeFilter { minfee: p.n() }, |v: &FeeFilter| v.size()),
        "sendcmpct" => go!(SendCmpct { enable: p.n(), version: p.n() }, |v: &SendCmpct| v.size()),
        "nodeaddr" => go!(p_nodeaddr(p), |v: &NodeAddr| v.size()), "nodeaddrex" => go!(p_nodeaddrex(p), |v: &NodeAddrEx| v.size()),
        "version" => go!(p_version(p), |v: &Version| v.size()), "addr" => go!(p_addr(p), |v: &Addr| v.size()), "headers" => go!(p_headers(p), |v: &Headers| v.size()),
        "block" => go!(p_block(p), |v: &Block| v.size()), "merkleblock" => go!(p_merkleblock(p), |v: &MerkleBlock| v.size()),
        "filterload" => go!(p_filterload(p), |v: &FilterLoad| v.size()), "filteradd" => go!(p_filteradd(p), |v: &FilterAdd| v.size()),
        "reject" => go!(p_reject(p), |v: &Reject| v.size()), "protoconf" => go!(p_protoconf(p), |v: &Protoconf| v.size()), "authch" => go!(p_authch(p), |v: &Authch| v.size()),
        "createstrm" => go!(p_createstrm(p), |v: &Createstrm| v.size()), "streamack" => go!(p_streamack(p), |v: &Streamack| v.size()),
        "cmpctblock" => go!(p_cmpctblock(p), |v: &Cmpctblock| v.size()), "getblocktxn" => go!(p_getblocktxn(p), |v: &Getblocktxn| v.size()),
        "blocktxn" => go!(p_blocktxn(p), |v: &Blocktxn| v.size()), "msgheader" => go!(p_msgheader(p), |v: &MessageHeader| v.size()),
        _ => panic!("unknown type {}", ty),
    }
}

fn ptype_dec(ty: &str, b: &[u8]) -> String {
    match ty {
        "varint" => pdec::<VarInt>(b, lay_varint), "outpoint" => pdec::<OutPoint>(b, lay_outpoint), "txin" => pdec::<TxIn>(b, lay_txin), "txout" => pdec::<TxOut>(b, lay_txout),
        "tx" => pdec::<Tx>(b, lay_tx), "blockheader" => pdec::<BlockHeader>(b, lay_header), "invvect" => pdec::<InvVect>(b, lay_invvect), "inv" => pdec::<Inv>(b, lay_inv),
        "blocklocator" => pdec::<BlockLocator>(b, lay_locator), "ping" => pdec::<Ping>(b, lay_ping), "feefilter" => pdec::<FeeFilter>(b, lay_feefilter),
        "sendcmpct" => pdec::<SendCmpct>(b, lay_sendcmpct), "nodeaddr" => pdec::<NodeAddr>(b, lay_nodeaddr), "nodeaddrex" => pdec::<NodeAddrEx>(b, lay_nodeaddrex),
        "version" => pdec::<Version>(b, lay_version), "addr" => pdec::<Addr>(b, lay_addr), "headers" => pdec::<Headers>(b, lay_headers), "block" => pdec::<Block>(b, lay_block),
        "merkleblock" => pdec::<MerkleBlock>(b, lay_merkleblock), "filterload" => pdec::<FilterLoad>(b, lay_filterload), "filteradd" => pdec::<FilterAdd>(b, lay_filteradd),
        "reject" => pdec::<Reject>(b, lay_reject), "protoconf" => pdec::<Protoconf>(b, lay_protoconf), "authch" => pdec::<Authch>(b, lay_authch),
        "createstrm" => pdec::<Createstrm>(b, lay_createstrm), "streamack" => pdec::<Streamack>(b, lay_streamack), "cmpctblock" => pdec::<Cmpctblock>(b, lay_cmpctblock),
        "getblocktxn" => pdec::<Getblocktxn>(b, lay_getblocktxn), "blocktxn" => pdec::<Blocktxn>(b, lay_blocktxn), "msgheader" => pdec::<MessageHeader>(b, lay_msgheader),
        _ => panic!("unknown type {}", ty),
    }
}

pub fn exec(op: &str, a: &[&str]) -> Option<String> {
    match op {
        "c05.enc" => {
            let kind = a[0]; let magic = magic_of(a[1]);
            let mut p = P { t: &a[2..], i: 0 };
            if kind == "addrv2" {
                // the value is obtained by `Message::read` on the reference encoding
                let n: usize = p.n(); let v: Vec<V2E> = (0..n).map(|_| p_v2e(&mut p)).collect(); p.done();
                let mut l = Lay::canon(); lay_addrv2(&v, &mut l);
                let bytes = frame(magic, &commands::ADDRV2, &l.bytes);
                return Some(match Message::read(&mut Cursor::new(&bytes), magic) { Ok(m) => enc_msg(&m, magic), Err(e) => err_class(&e) });
            }
            let m = p_msg(kind, &mut p); p.done();
            Some(enc_msg(&m, magic))
        }
        "c05.penc" => { let mut p = P { t: &a[1..], i: 0 }; Some(ptype_enc(a[0], &mut p)) }
        "c05.dec" => Some(dec_msg(&unhexd(a[2]), magic_of(a[1]))),
        "c05.pdec" => Some(ptype_dec(a[0], &unhexd(a[1]))),
        "c05.pdecfrag" => { FRAG.with(|f| f.set(a[2].parse().unwrap_or(1).max(1))); let r = ptype_dec(a[0], &unhexd(a[1])); FRAG.with(|f| f.set(0)); Some(r) }
        _ => None,
    }
}

// ---------------------------------------------------------------- generators

/// value generator: lengths from the varint boundary pool; inside long lists everything is minimal
struct G<'a> { r: &'a mut Rng, small: bool }
impl<'a> G<'a> {
    fn len(&mut self) -> usize {
        if self.small { return *self.r.pick(&[0usize, 0, 1, 2]); }
        *self.r.pick(&[0usize, 0, 1, 1, 2, 3, 7, 32, 75, 76, 252, 253, 254, 255, 256, 300])
    }
    fn cnt(&mut self) -> usize {
        if self.small { return *self.r.pick(&[0usize, 1, 1, 2]); }
        *self.r.pick(&[0usize, 0, 1, 1, 1, 2, 2, 3, 4, 5, 252, 253])
    }
    fn list<T>(&mut self, n: usize, f: fn(&mut G) -> T) -> Vec<T> {
        let was = self.small;
        if n > 8 { self.small = true; }
        let v = (0..n).map(|_| { let mut g = G { r: &mut *self.r, small: self.small }; f(&mut g) }).collect();
        self.small = was; v
    }
    fn bytes(&mut self, n: usize) -> Vec<u8> { self.r.bytes(n) }
    fn vb(&mut self) -> Vec<u8> { let n = self.len(); self.bytes(n) }
    fn h(&mut self) -> Hash256 { let mut a = [0u8; 32]; for b in a.iter_mut() { *b = self.r.byte(); } if self.r.chance(1, 20) { a = [0u8; 32]; } Hash256(a) }
    fn u8(&mut self) -> u8 { *self.r.pick(&[0u8, 1, 2, 0x7f, 0x80, 0xfc, 0xfd, 0xfe, 0xff, 0x42]) }
    fn u16(&mut self) -> u16 { match self.r.below(6) { 0 => 0, 1 => 1, 2 => 0xff, 3 => 0x100, 4 => 0xffff, _ => self.r.next() as u16 } }
    fn u32(&mut self) -> u32 { match self.r.below(8) { 0 => 0, 1 => 1, 2 => 0x7fff_ffff, 3 => 0x8000_0000, 4 => 0xffff_ffff, 5 => 0xffff, _ => self.r.next() as u32 } }
    fn u64(&mut self) -> u64 {
        match self.r.below(14) { 0 => 0, 1 => 1, 2 => 252, 3 => 253, 4 => 0xffff, 5 => 0x10000, 6 => 0xffff_ffff, 7 => 0x1_0000_0000, 8 => u64::MAX, 9 => 1 << 63, 10 => (1 << 63) - 1, _ => self.r.next() }
    }
    fn i32(&mut self) -> i32 { match self.r.below(7) { 0 => 0, 1 => 1, 2 => -1, 3 => i32::MAX, 4 => i32::MIN, _ => self.r.next() as i32 } }
    fn i64(&mut self) -> i64 { match self.r.below(9) { 0 => 0, 1 => 1, 2 => -1, 3 => i64::MAX, 4 => i64::MIN, 5 => MAX_SATOSHIS, 6 => MAX_SATOSHIS + 1, _ => self.r.next() as i64 } }
    /// valid UTF-8 of exactly `n` bytes when possible, mixing 1-4 byte characters
    fn string_of(&mut self, n: usize) -> String {
        let mut s = String::new();
        while s.len() < n {
            let left = n - s.len();
            let c = match self.r.below(12) { 0 if left >= 2 => 'é', 1 if left >= 3 => '€', 2 if left >= 4 => '😀', 3 if left >= 3 => '\u{ffff}', 4 if left >= 2 => '\u{80}', 5 if left >= 4 => '\u{10ffff}', 6 => '/', 7 => ' ', _ => (b'a' + self.r.below(26) as u8) as char };
            s.push(c);
        }
        s
    }
    fn string(&mut self) -> String { let n = self.len(); self.string_of(n) }
}

fn g_outpoint(g: &mut G) -> OutPoint { OutPoint { hash: g.h(), index: g.u32() } }
fn g_txin(g: &mut G) -> TxIn { TxIn { prev_output: g_outpoint(g), unlock_script: Script(g.vb()), sequence: g.u32() } }
fn g_txout(g: &mut G) -> TxOut { TxOut { satoshis: g.i64(), lock_script: Script(g.vb()) } }
fn g_tx(g: &mut G) -> Tx { let ni = g.cnt(); let no = g.cnt(); Tx { version: g.u32(), inputs: g.list(ni, g_txin), outputs: g.list(no, g_txout), lock_time: g.u32() } }
/// a transaction `PrefilledTransaction::validate` mostly accepts (amounts around 0, MAX_SATOSHIS and the i64 limits)
fn g_vtx(g: &mut G) -> Tx {
    let mut t = g_tx(g);
    if g.r.chance(9, 10) && t.inputs.is_empty() { t.inputs.push(g_txin(g)); }
    if g.r.chance(9, 10) && t.outputs.is_empty() { t.outputs.push(g_txout(g)); }
    t.outputs.truncate(4);
    for o in t.outputs.iter_mut() { o.satoshis = *g.r.pick(&[0i64, 0, 1, 1, 1000, 5_000_000_000, MAX_SATOSHIS / 4, MAX_SATOSHIS / 2, MAX_SATOSHIS / 2 + 1, MAX_SATOSHIS, MAX_SATOSHIS + 1, -1, i64::MAX, i64::MIN]); if g.small { o.satoshis = o.satoshis.clamp(0, 1); } }
    t
}
fn g_header(g: &mut G) -> BlockHeader { BlockHeader { version: g.u32(), prev_hash: g.h(), merkle_root: g.h(), timestamp: g.u32(), bits: g.u32(), nonce: g.u32() } }
fn g_invvect(g: &mut G) -> InvVect { InvVect { obj_type: if g.r.chance(1, 2) { g.r.below(5) as u32 } else { g.u32() }, hash: g.h() } }
fn g_inv(g: &mut G) -> Inv { let n = g.cnt(); Inv { objects: g.list(n, g_invvect) } }
fn g_hash(g: &mut G) -> Hash256 { g.h() }
fn g_locator(g: &mut G) -> BlockLocator { let n = g.cnt(); BlockLocator { version: g.u32(), block_locator_hashes: g.list(n, g_hash), hash_stop: g.h() } }
fn g_nodeaddr(g: &mut G) -> NodeAddr { let mut ip = [0u8; 16]; for b in ip.iter_mut() { *b = g.r.byte(); } if g.r.chance(1, 4) { ip = UNKNOWN_IP; } NodeAddr { services: g.u64(), ip: Ipv6Addr::from(ip), port: g.u16() } }
fn g_nodeaddrex(g: &mut G) -> NodeAddrEx { NodeAddrEx { last_connected_time: g.u32(), addr: g_nodeaddr(g) } }
fn g_assoc(g: &mut G, allow_empty: bool) -> Vec<u8> { let n = *g.r.pick(&[1usize, 1, 2, 16, 17, 128, 129, 252, 253, 254, 255]); let n = if allow_empty && g.r.chance(1, 2) { 0 } else { n }; g.bytes(n) }
fn g_version(g: &mut G) -> Version {
    let version = match g.r.below(8) { 0 => MIN_SUPPORTED_PROTOCOL_VERSION, 1 => MIN_SUPPORTED_PROTOCOL_VERSION - 1, 2 => PROTOCOL_VERSION, 3 => g.u32(), _ => 70001 + g.r.below(100) as u32 };
    Version { version, services: g.u64(), timestamp: g.i64(), recv_addr: g_nodeaddr(g), tx_addr: g_nodeaddr(g), nonce: g.u64(), user_agent: g.string(),
        start_height: g.i32(), relay: g.r.chance(1, 2), association_id: g_assoc(g, true) }
}
fn g_addr(g: &mut G) -> Addr { let n = g.cnt(); Addr { addrs: g.list(n, g_nodeaddrex) } }
fn g_headers(g: &mut G) -> Headers { let n = g.cnt(); Headers { headers: g.list(n, g_header) } }
fn g_block(g: &mut G) -> Block { let n = if g.r.chance(1, 10) { g.cnt() } else { g.r.below(4) as usize }; Block { header: g_header(g), txns: g.list(n, g_tx) } }
fn g_merkleblock(g: &mut G) -> MerkleBlock { let n = g.cnt(); MerkleBlock { header: g_header(g), total_transactions: g.u32(), hashes: g.list(n, g_hash), flags: g.vb() } }
fn g_filterload(g: &mut G) -> FilterLoad {
    let n = if g.r.chance(1, 8) { *g.r.pick(&[35999usize, 36000, 36001]) } else { g.len() };
    let k = match g.r.below(6) { 0 => 50, 1 => 51, 2 => g.u32() as usize, _ => g.r.below(51) as usize };
    FilterLoad { bloom_filter: BloomFilter { filter: g.bytes(n), num_hash_funcs: k, tweak: g.u32() }, flags: g.u8() }
}
fn g_filteradd(g: &mut G) -> FilterAdd { let n = if g.r.chance(1, 4) { *g.r.pick(&[519usize, 520, 521]) } else { g.len() }; FilterAdd { data: g.bytes(n) } }
fn g_reject(g: &mut G) -> Reject {
    let m = match g.r.below(6) { 0 => "block".to_string(), 1 => "tx".to_string(), 2 => "version".to_string(), 3 => String::new(), 4 => "blocks".to_string(), _ => g.string() };
    let mut data = if m == "block" || m == "tx" { g.bytes(32) } else { vec![] };
    // out of range (not a protocol value): data inconsistent with the message name
    if g.r.chance(1, 12) { data = if data.is_empty() { g.bytes(32) } else if g.r.chance(1, 2) { vec![] } else { g.bytes(31) }; }
    Reject { message: m, code: g.u8(), reason: g.string(), data }
}
fn g_protoconf(g: &mut G) -> Protoconf {
    // in range: policies present iff version > 1 (otherwise `write` panics or drops them)
    let version = match g.r.below(10) { 0 => 0, 1 => 3, 2 => g.u64().max(2), _ => 1 + g.r.below(2) };
    let max = match g.r.below(5) { 0 => 1_048_575, 1 => 1_048_576, 2 => g.u32(), _ => 1_048_576 + g.r.below(1000) as u32 };
    // (version <= 1 with policies is out of range: `write` drops them; version > 1 without policies makes `write` panic and is never generated)
    let pol = if version > 1 || g.r.chance(1, 12) { Some(g.string()) } else { None };
    Protoconf { version, max_recv_payload_length: max, stream_policies: pol }
}
fn g_authch(g: &mut G) -> Authch {
    let m = g.vb();
    // out of range once in a while: the explicit length disagrees with the message
    let len = if g.r.chance(1, 12) { (m.len() as u32).wrapping_add(*g.r.pick(&[1u32, 2, 3])) } else { m.len() as u32 };
    Authch { version: if g.r.chance(4, 5) { 1 } else { g.i32() }, message_length: len, message: m }
}
fn g_stream_type(g: &mut G) -> u8 { if g.r.chance(4, 5) { 1 + g.r.below(4) as u8 } else { *g.r.pick(&[0u8, 5, 255]) } }
fn g_createstrm(g: &mut G) -> Createstrm { let e = g.r.chance(1, 8); Createstrm { association_id: g_assoc(g, e), stream_type: g_stream_type(g), stream_policy: if g.r.chance(1, 3) { String::new() } else { g.string() } } }
fn g_streamack(g: &mut G) -> Streamack { let e = g.r.chance(1, 8); Streamack { association_id: g_assoc(g, e), stream_type: g_stream_type(g) } }
fn g_shortid(g: &mut G) -> Vec<u8> { g.bytes(6) }
fn g_prefilled(g: &mut G) -> (u64, Tx) { (*g.r.pick(&[0u64, 1, 5, 252, 253, 65535, 65536, u64::MAX]), g_vtx(g)) }
fn mk_cmpct(header: BlockHeader, nonce: u64, shortids: Vec<Vec<u8>>, pre: Vec<(u64, Tx)>) -> Cmpctblock {
    let mut c = Cmpctblock::default(); c.header = header; c.nonce = nonce; c.shortids = shortids;
    for (i, t) in pre { c.prefilledtxn.push(Default::default()); let k = c.prefilledtxn.len() - 1; c.prefilledtxn[k].index = i; c.prefilledtxn[k].tx = t; }
    c
}
fn g_cmpctblock(g: &mut G) -> Cmpctblock { let n = g.cnt(); let k = if g.r.chance(1, 10) { g.cnt() } else { g.r.below(3) as usize }; let s = g.list(n, g_shortid); let p = g.list(k, g_prefilled); mk_cmpct(g_header(g), g.u64(), s, p) }
fn g_index(g: &mut G) -> u64 { g.u64() }
fn g_getblocktxn(g: &mut G) -> Getblocktxn { let n = g.cnt(); Getblocktxn { blockhash: g.h(), indexes: g.list(n, g_index) } }
fn g_blocktxn(g: &mut G) -> Blocktxn { let n = if g.r.chance(1, 10) { g.cnt() } else { g.r.below(4) as usize }; Blocktxn { blockhash: g.h(), transactions: g.list(n, g_tx) } }
fn v2_len(id: u8) -> usize { match id { 1 => 4, 2 => 16, 3 => 10, 4 => 32, 5 => 32, 6 => 16, _ => 0 } }
fn g_v2e(g: &mut G) -> V2E {
    let id = if g.r.chance(19, 20) { 1 + g.r.below(6) as u8 } else { *g.r.pick(&[0u8, 7, 255]) };
    let n = if g.r.chance(19, 20) { v2_len(id) } else { *g.r.pick(&[0usize, 4, 16, 33]) };
    V2E { time: g.u32(), services: g.u64(), id, addr: g.bytes(n), port: g.u16() }
}
fn g_addrv2(g: &mut G) -> Vec<V2E> { let n = g.cnt(); g.list(n, g_v2e) }
fn g_msgheader(g: &mut G) -> MessageHeader {
    let mut h = MessageHeader::default();
    h.magic = *g.r.pick(&magics()); h.command = cmd_of(KINDS[g.r.below(32) as usize]); h.payload_size = g.u32(); for b in h.checksum.iter_mut() { *b = g.r.byte(); } h
}

/// a message of the given kind (not addrv2/other)
fn g_msg(kind: &str, g: &mut G) -> Message {
    match kind {
        "addr" => Message::Addr(g_addr(g)), "block" => Message::Block(g_block(g)), "feefilter" => Message::FeeFilter(FeeFilter { minfee: g.u64() }),
        "filteradd" => Message::FilterAdd(g_filteradd(g)), "filterclear" => Message::FilterClear, "filterload" => Message::FilterLoad(g_filterload(g)),
        "getaddr" => Message::GetAddr, "getblocks" => Message::GetBlocks(g_locator(g)), "getdata" => Message::GetData(g_inv(g)),
        "getheaders" => Message::GetHeaders(g_locator(g)), "headers" => Message::Headers(g_headers(g)), "inv" => Message::Inv(g_inv(g)),
        "mempool" => Message::Mempool, "merkleblock" => Message::MerkleBlock(g_merkleblock(g)), "notfound" => Message::NotFound(g_inv(g)),
        "ping" => Message::Ping(Ping { nonce: g.u64() }), "pong" => Message::Pong(Ping { nonce: g.u64() }), "reject" => Message::Reject(g_reject(g)),
        "sendheaders" => Message::SendHeaders, "sendcmpct" => Message::SendCmpct(SendCmpct { enable: g.u8(), version: g.u64() }), "tx" => Message::Tx(g_tx(g)),
        "verack" => Message::Verack, "version" => Message::Version(g_version(g)), "protoconf" => Message::Protoconf(g_protoconf(g)),
        "authch" => Message::Authch(g_authch(g)), "createstrm" => Message::Createstrm(g_createstrm(g)), "streamack" => Message::Streamack(g_streamack(g)),
        "cmpctblock" => Message::Cmpctblock(g_cmpctblock(g)), "getblocktxn" => Message::Getblocktxn(g_getblocktxn(g)), "blocktxn" => Message::Blocktxn(g_blocktxn(g)),
        "sendaddrv2" => Message::SendAddrV2,
        _ => panic!("g_msg {}", kind),
    }
}

/// a value of a payload type, laid out (canonically or not)
fn g_ptype(ty: &str, g: &mut G, l: &mut Lay) {
    match ty {
        "varint" => lay_varint(&VarInt(g.u64()), l), "outpoint" => lay_outpoint(&g_outpoint(g), l), "txin" => lay_txin(&g_txin(g), l), "txout" => lay_txout(&g_txout(g), l),
        "tx" => lay_tx(&g_tx(g), l), "blockheader" => lay_header(&g_header(g), l), "invvect" => lay_invvect(&g_invvect(g), l), "inv" => lay_inv(&g_inv(g), l),
        "blocklocator" => lay_locator(&g_locator(g), l), "ping" => l.u64(g.u64()), "feefilter" => l.u64(g.u64()), "sendcmpct" => { l.u8(g.u8()); l.u64(g.u64()); }
        "nodeaddr" => lay_nodeaddr(&g_nodeaddr(g), l), "nodeaddrex" => lay_nodeaddrex(&g_nodeaddrex(g), l), "version" => lay_version(&g_version(g), l),
        "addr" => lay_addr(&g_addr(g), l), "headers" => lay_headers(&g_headers(g), l), "block" => lay_block(&g_block(g), l), "merkleblock" => lay_merkleblock(&g_merkleblock(g), l),
        "filterload" => lay_filterload(&g_filterload(g), l), "filteradd" => lay_filteradd(&g_filteradd(g), l), "reject" => lay_reject(&g_reject(g), l),
        "protoconf" => lay_protoconf(&g_protoconf(g), l), "authch" => lay_authch(&g_authch(g), l), "createstrm" => lay_createstrm(&g_createstrm(g), l),
        "streamack" => lay_streamack(&g_streamack(g), l), "cmpctblock" => lay_cmpctblock(&g_cmpctblock(g), l), "getblocktxn" => lay_getblocktxn(&g_getblocktxn(g), l),
        "blocktxn" => lay_blocktxn(&g_blocktxn(g), l), "msgheader" => lay_msgheader(&g_msgheader(g), l),
        _ => panic!("g_ptype {}", ty),
    }
}

/// lay out a generated message of `kind` (incl. addrv2); returns (tokens, payload bytes)
fn g_kind(kind: &str, r: &mut Rng, noncanon: bool) -> (Vec<String>, Vec<u8>) {
    let mut vr = r.fork();
    let mut g = G { r: &mut vr, small: false };
    if kind == "addrv2" {
        let v = g_addrv2(&mut g);
        let mut l = if noncanon { Lay::noncanon(r) } else { Lay::canon() };
        lay_addrv2(&v, &mut l);
        return (l.toks, l.bytes);
    }
    let m = g_msg(kind, &mut g);
    let mut l = if noncanon { Lay::noncanon(r) } else { Lay::canon() };
    lay_msg(&m, &mut l);
    (l.toks, l.bytes)
}

fn toks_line(t: &[String]) -> String { if t.is_empty() { String::new() } else { format!(" {}", t.join(" ")) } }

/// the long-list / long-string cases: one field at `n` elements, everything else minimal
fn big_cases(n: usize, r: &mut Rng, out: &mut Vec<String>, heavy: bool) {
    let mut vr = r.fork();
    let g = &mut G { r: &mut vr, small: true };
    let magic = hex::encode(magics()[(n % 5) as usize]);
    let mut penc = |ty: &str, f: &dyn Fn(&mut Lay)| { let mut l = Lay::canon(); f(&mut l); out.push(format!("c05.penc {}{}", ty, toks_line(&l.toks))); out.push(format!("c05.pdec {} {}", ty, hexd(&l.bytes))); };
    let hdr = g_header(g); let h = g.h();
    let script = g.bytes(n);
    penc("txin", &|l| lay_txin(&TxIn { prev_output: OutPoint { hash: h, index: 1 }, unlock_script: Script(script.clone()), sequence: 2 }, l));
    penc("txout", &|l| lay_txout(&TxOut { satoshis: 3, lock_script: Script(script.clone()) }, l));
    let outs: Vec<TxOut> = (0..n).map(|i| TxOut { satoshis: i as i64, lock_script: Script(vec![]) }).collect();
    penc("tx", &|l| lay_tx(&Tx { version: 1, inputs: vec![], outputs: outs.clone(), lock_time: 0 }, l));
    penc("getblocktxn", &|l| lay_getblocktxn(&Getblocktxn { blockhash: h, indexes: (0..n as u64).collect() }, l));
    penc("merkleblock", &|l| lay_merkleblock(&MerkleBlock { header: hdr.clone(), total_transactions: 7, hashes: vec![], flags: script.clone() }, l));
    penc("filterload", &|l| lay_filterload(&FilterLoad { bloom_filter: BloomFilter { filter: script.clone(), num_hash_funcs: 3, tweak: 9 }, flags: 1 }, l));
    penc("filteradd", &|l| lay_filteradd(&FilterAdd { data: script.clone() }, l));
    penc("authch", &|l| lay_authch(&Authch { version: 1, message_length: n as u32, message: script.clone() }, l));
    let s = g.string_of(n);
    penc("reject", &|l| lay_reject(&Reject { message: s.clone(), code: 1, reason: String::new(), data: vec![] }, l));
    penc("reject", &|l| lay_reject(&Reject { message: "tx".into(), code: 1, reason: s.clone(), data: vec![7u8; 32] }, l));
    penc("protoconf", &|l| lay_protoconf(&Protoconf { version: 2, max_recv_payload_length: 2_000_000, stream_policies: Some(s.clone()) }, l));
    penc("createstrm", &|l| lay_createstrm(&Createstrm { association_id: vec![1], stream_type: 1, stream_policy: s.clone() }, l));
    let mut v = g_version(g); v.user_agent = s.clone(); v.version = 70015;
    penc("version", &|l| lay_version(&v, l));
    let shortids: Vec<Vec<u8>> = (0..n).map(|i| vec![i as u8, (i >> 8) as u8, 0, 0, 0, 1]).collect();
    penc("cmpctblock", &|l| lay_cmpctblock(&mk_cmpct(hdr.clone(), 5, shortids.clone(), vec![]), l));
    let txs: Vec<Tx> = (0..n).map(|i| Tx { version: i as u32, inputs: vec![], outputs: vec![], lock_time: 0 }).collect();
    penc("block", &|l| lay_block(&Block { header: hdr.clone(), txns: txs.clone() }, l));
    if heavy {
        penc("blocktxn", &|l| lay_blocktxn(&Blocktxn { blockhash: h, transactions: txs.clone() }, l));
        penc("cmpctblock", &|l| lay_cmpctblock(&mk_cmpct(hdr.clone(), 5, vec![], txs.iter().map(|t| (1u64, t.clone())).collect()), l));
        let ins: Vec<TxIn> = (0..n).map(|i| TxIn { prev_output: OutPoint { hash: h, index: i as u32 }, unlock_script: Script(vec![]), sequence: 0 }).collect();
        penc("tx", &|l| lay_tx(&Tx { version: 1, inputs: ins.clone(), outputs: vec![], lock_time: 0 }, l));
        let hashes: Vec<Hash256> = (0..n).map(|i| { let mut a = [0u8; 32]; a[0] = i as u8; a[1] = (i >> 8) as u8; Hash256(a) }).collect();
        penc("blocklocator", &|l| lay_locator(&BlockLocator { version: 70015, block_locator_hashes: hashes.clone(), hash_stop: h }, l));
        penc("merkleblock", &|l| lay_merkleblock(&MerkleBlock { header: hdr.clone(), total_transactions: n as u32, hashes: hashes.clone(), flags: vec![] }, l));
        let hs: Vec<BlockHeader> = (0..n).map(|i| BlockHeader { nonce: i as u32, ..hdr.clone() }).collect();
        let mut l = Lay::canon(); lay_headers(&Headers { headers: hs }, &mut l);
        out.push(format!("c05.enc headers {}{}", magic, toks_line(&l.toks)));
        out.push(format!("c05.dec headers {} {}", magic, hexd(&frame(magics()[0], &commands::HEADERS, &l.bytes))));
    }
    // message level: a long list inside a framed message
    let mut l = Lay::canon(); lay_tx(&Tx { version: 2, inputs: vec![], outputs: outs.clone(), lock_time: 0 }, &mut l);
    out.push(format!("c05.enc tx {}{}", magic, toks_line(&l.toks)));
    out.push(format!("c05.dec tx {} {}", magic, hexd(&frame(magic_of(&magic), &commands::TX, &l.bytes))));
}

/// counts at the limits enforced before reading elements
fn cap_cases(r: &mut Rng, out: &mut Vec<String>) {
    let mut vr = r.fork();
    let g = &mut G { r: &mut vr, small: true };
    let magic = hex::encode(magics()[0]);
    for n in [1000usize, 1001] {
        let a = Addr { addrs: (0..n).map(|_| g_nodeaddrex(g)).collect() };
        let mut l = Lay::canon(); lay_addr(&a, &mut l);
        out.push(format!("c05.enc addr {}{}", magic, toks_line(&l.toks)));
        out.push(format!("c05.pdec addr {}", hexd(&l.bytes)));
        let v: Vec<V2E> = (0..n).map(|i| V2E { time: i as u32, services: 1, id: 1, addr: vec![10, 0, 0, 1], port: 8333 }).collect();
        let mut l = Lay::canon(); lay_addrv2(&v, &mut l);
        out.push(format!("c05.enc addrv2 {}{}", magic, toks_line(&l.toks)));
        out.push(format!("c05.dec addrv2 {} {}", magic, hexd(&frame(magics()[0], &commands::ADDRV2, &l.bytes))));
    }
    for n in [MAX_INV_ENTRIES, MAX_INV_ENTRIES + 1] {
        let v = Inv { objects: (0..n).map(|i| InvVect { obj_type: 1, hash: { let mut a = [0u8; 32]; a[0] = i as u8; Hash256(a) } }).collect() };
        let mut l = Lay::canon(); lay_inv(&v, &mut l);
        out.push(format!("c05.enc inv {}{}", magic, toks_line(&l.toks)));
        out.push(format!("c05.pdec inv {}", hexd(&l.bytes)));
    }
}

/// byte strings on both sides of the pre-read limit of `read_bytes` (MAX_PREALLOC_BYTES, read from the tree) and of its
/// multiples: the decoder handles such a field in several pieces
fn prealloc_cases(out: &mut Vec<String>, thorough: bool) {
    let l = crate::c06::max_prealloc() as usize;
    if l == 0 || l > (4 << 20) { return; }
    let pat = |n: usize| -> Vec<u8> { (0..n).map(|i| (i % 251) as u8 ^ ((i >> 16) as u8)).collect() };
    let mut penc = |ty: &str, f: &dyn Fn(&mut Lay)| { let mut lay = Lay::canon(); f(&mut lay); out.push(format!("c05.penc {}{}", ty, toks_line(&lay.toks))); out.push(format!("c05.pdec {} {}", ty, hexd(&lay.bytes))); };
    let lens: Vec<usize> = if thorough { vec![l - 1, l, l + 1, l + 5, l + l / 2, 2 * l - 1, 2 * l, 2 * l + 1, 3 * l + 7] } else { vec![l - 1, l, l + 1, l + 5, l + l / 2, 2 * l + 1] };
    for n in lens {
        let b = pat(n);
        penc("txout", &|lay| lay_txout(&TxOut { satoshis: 3, lock_script: Script(b.clone()) }, lay));
    }
    let b = pat(l + l / 3);
    let h = Hash256([7u8; 32]);
    penc("txin", &|lay| lay_txin(&TxIn { prev_output: OutPoint { hash: h, index: 1 }, unlock_script: Script(b.clone()), sequence: 2 }, lay));
    penc("filteradd", &|lay| lay_filteradd(&FilterAdd { data: b.clone() }, lay));
    penc("authch", &|lay| lay_authch(&Authch { version: 1, message_length: b.len() as u32, message: b.clone() }, lay));
    // element COUNTS at which a capped pre-allocation of N-byte elements stops covering the list (cap / N, for the element sizes
    // a decoder may plausibly use), where the protocol's own limit on the count is higher: the inventory lists (up to 50 000)
    let mut counts: Vec<usize> = vec![];
    for e in [32usize, 36, 40, 48] { let c = l / e; for d in [c.saturating_sub(1), c, c + 1] { if d > 0 && d <= 50_000 && !counts.contains(&d) { counts.push(d); } } }
    counts.push(50_000);
    if !thorough { counts.retain(|c| [l / 36, l / 36 + 1, l / 32 + 1, 50_000].contains(c)); }
    for n in counts {
        let inv = Inv { objects: (0..n).map(|i| InvVect { obj_type: 1 + (i as u32 % 3), hash: Hash256([(i % 251) as u8; 32]) }).collect() };
        penc("inv", &|lay| lay_inv(&inv, lay));
    }
}

pub fn gen(tier: &str, rng: &mut Rng, out: &mut Vec<String>) {
    let thorough = tier == "thorough";
    let mags = magics();
    let (n_enc, n_penc, n_dec, n_pdec) = if thorough { (4000, 2500, 6000, 4000) } else { (320, 200, 480, 330) };

    // (1) value -> bytes, message level, every kind, every magic in turn
    for (ki, kind) in KINDS.iter().enumerate() {
        if *kind == "other" { continue; }
        let payloadless = ["filterclear", "getaddr", "mempool", "sendheaders", "verack", "sendaddrv2"].contains(kind);
        let n = if payloadless { mags.len() } else { n_enc };
        for i in 0..n {
            let (toks, _) = g_kind(kind, rng, false);
            out.push(format!("c05.enc {} {}{}", kind, hex::encode(mags[(i + ki) % mags.len()]), toks_line(&toks)));
        }
    }
    // (2) value -> bytes, payload level (`T::write`, `T::read`, `size()`), no validate()
    for ty in PTYPES.iter() {
        for _ in 0..n_penc {
            let mut vr = rng.fork();
            let mut g = G { r: &mut vr, small: false };
            let mut l = Lay::canon(); g_ptype(ty, &mut g, &mut l);
            out.push(format!("c05.penc {}{}", ty, toks_line(&l.toks)));
        }
    }
    // (3) bytes -> value, message level: canonical and non-canonical layouts, framing faults
    for (ki, kind) in KINDS.iter().enumerate() {
        let payloadless = ["filterclear", "getaddr", "mempool", "sendheaders", "verack", "sendaddrv2"].contains(kind);
        let n = if payloadless || *kind == "other" { 40 } else { n_dec };
        for i in 0..n {
            let magic = mags[(i + ki) % mags.len()];
            let (cmd, mut payload) = if *kind == "other" {
                let c = match rng.below(4) { 0 => cmd_of("alert"), 1 => cmd_of("sendheadersx"), 2 => { let mut c = cmd_of("x"); c[3] = 0xff; c }, _ => { let mut c = [0u8; 12]; for b in c.iter_mut() { *b = b'a' + rng.below(26) as u8; } c } };
                (c, if rng.chance(1, 2) { vec![] } else { rng.bytes(9) })
            } else if payloadless { (cmd_of(kind), if rng.chance(1, 4) { let k = 1 + rng.below(3) as usize; rng.bytes(k) } else { vec![] }) }
            else { let nc = i % 3 != 0; (cmd_of(kind), g_kind(kind, rng, nc).1) };
            let mut label = "plain";
            let mut wire_magic = magic;
            let mut extra: Vec<u8> = vec![];
            match rng.below(16) {
                0 => { label = "trailing-in-payload"; let k = 1 + rng.below(4) as usize; payload.extend(rng.bytes(k)); }
                1 => { label = "truncated"; if !payload.is_empty() { let k = rng.below(payload.len() as u64) as usize; payload.truncate(k); } }
                2 => { label = "trailing-after"; let k = 1 + rng.below(30) as usize; extra = rng.bytes(k); }
                3 if i % 4 == 0 => { label = "badmagic"; wire_magic = if rng.chance(1, 2) { mags[(i + ki + 1) % mags.len()] } else { [rng.byte(), 1, 2, 3] }; }
                _ => {}
            }
            let mut bytes = frame(wire_magic, &cmd, &payload);
            match rng.below(40) {
                0 => { label = "badchecksum"; bytes[20 + rng.below(4) as usize] ^= 1 << rng.below(8); }
                1 => { label = "short-payload"; let k = 1 + rng.below(3) as u32; let n = payload.len() as u32 + k; bytes[16..20].copy_from_slice(&n.to_le_bytes()); }
                2 => { label = "oversize"; let n = MAX_PAYLOAD_SIZE + 1 + rng.below(2) as u32; bytes[16..20].copy_from_slice(&n.to_le_bytes()); if *kind == "block" { bytes[16..20].copy_from_slice(&(MAX_PAYLOAD_SIZE + 1).to_le_bytes()); } }
                3 => { label = "short-header"; let k = rng.below(24) as usize; bytes.truncate(k); }
                _ => {}
            }
            bytes.extend(extra);
            out.push(format!("c05.dec {}.{} {} {}", kind, label, hex::encode(magic), hexd(&bytes)));
        }
    }
    // (4) bytes -> value, payload level
    for ty in PTYPES.iter() {
        for i in 0..n_pdec {
            let mut vr = rng.fork();
            let mut g = G { r: &mut vr, small: false };
            let mut l = if i % 3 != 0 { Lay::noncanon(rng) } else { Lay::canon() };
            g_ptype(ty, &mut g, &mut l);
            let mut b = l.bytes;
            match rng.below(12) {
                0 => { let k = 1 + rng.below(4) as usize; b.extend(rng.bytes(k)); }
                1 => { if !b.is_empty() { let k = rng.below(b.len() as u64) as usize; b.truncate(k); } }
                _ => {}
            }
            out.push(format!("c05.pdec {} {}", ty, hexd(&b)));
        }
    }
    // (4') the same payload-level decodes through a reader that returns short reads (1, 2, 3, 7 bytes per call)
    for ty in PTYPES.iter() {
        for i in 0..(if thorough { 60 } else { 12 }) {
            let mut vr = rng.fork();
            let mut g = G { r: &mut vr, small: true };
            let mut l = if i % 3 == 1 { Lay::noncanon(rng) } else { Lay::canon() };
            g_ptype(ty, &mut g, &mut l);
            let mut b = l.bytes;
            if i % 6 == 5 && !b.is_empty() { let k = rng.below(b.len() as u64) as usize; b.truncate(k); }
            for k in [1usize, 2, 3, 7] { out.push(format!("c05.pdecfrag {} {} {}", ty, hexd(&b), k)); }
        }
    }
    // (5) every varint size class, both sides, minimal and non-minimal encodings
    for n in [0u64, 1, 252, 253, 254, 255, 256, 65535, 65536, 65537, 0xffff_ffff, 0x1_0000_0000, u64::MAX - 1, u64::MAX] {
        out.push(format!("c05.penc varint {}", n));
        for w in 0..4 {
            let mut b = vec![];
            match w { 0 => { if n > 0xff { continue; } b.push(n as u8); } 1 => { if n > 0xffff { continue; } b.push(0xfd); b.extend((n as u16).to_le_bytes()); }
                2 => { if n > 0xffff_ffff { continue; } b.push(0xfe); b.extend((n as u32).to_le_bytes()); } _ => { b.push(0xff); b.extend(n.to_le_bytes()); } }
            out.push(format!("c05.pdec varint {}", hexd(&b)));
        }
    }
    // (6) list / string lengths on both sides of 65535/65536 and of the pre-read limits
    big_cases(65535, rng, out, thorough);
    big_cases(65536, rng, out, true);
    cap_cases(rng, out);
    prealloc_cases(out, thorough);
}

//! C09 — Base58Check text codecs: addresses, WIF private keys, extended keys.
//!
//! Strings travel as hex of their UTF-8 bytes (`-` = empty).  Decode ops carry the string and the
//! valid encoding it was derived from (`-` = none): the specification demands an error whenever
//! the two differ.
use crate::rng::Rng;
use crate::util::*;
use chain_gang::address::{addr_decode, addr_encode, AddressType};
use chain_gang::network::Network;
use chain_gang::util::{ChainGangError, Hash160};
use chain_gang::wallet::base58_checksum::{decode_base58_checksum, encode_base58_checksum, short_double_sha256_checksum};
use chain_gang::wallet::wallet::wif_to_network_and_private_key;
use chain_gang::wallet::{
    public_key_to_address, ExtendedKey, ExtendedKeyType, Wallet, MAINNET_PRIVATE_EXTENDED_KEY, MAINNET_PUBLIC_EXTENDED_KEY,
    MAIN_PRIVATE_KEY, TESTNET_PRIVATE_EXTENDED_KEY, TESTNET_PUBLIC_EXTENDED_KEY, TEST_PRIVATE_KEY,
};

const NETS: [Network; 7] = [
    Network::BSV_Mainnet, Network::BSV_Testnet, Network::BSV_STN, Network::BTC_Mainnet, Network::BTC_Testnet,
    Network::BCH_Mainnet, Network::BCH_Testnet,
];
const ALPHA: &[u8] = b"123456789ABCDEFGHJKLMNPQRSTUVWXYZabcdefghijkmnopqrstuvwxyz";

fn net(s: &str) -> Network { NETS[s.parse::<usize>().expect("net index")] }
fn string_of(hexs: &str) -> String { String::from_utf8(unhexd(hexs)).expect("request string is not UTF-8") }
fn shex(s: &str) -> String { hexd(s.as_bytes()) }
fn res<T>(r: Result<T, ChainGangError>, f: impl FnOnce(T) -> String) -> String {
    match r { Ok(v) => format!("ok:{}", f(v)), Err(e) => err_class(&e) }
}
fn ty_name(t: AddressType) -> &'static str { match t { AddressType::P2PKH => "P2PKH", AddressType::P2SH => "P2SH" } }
fn dec_addr(s: &str, n: Network) -> String { res(addr_decode(s, n), |(h, t)| format!("{}:{}", hexd(&h.0), ty_name(t))) }
fn dec_chk(s: &str) -> String { res(decode_base58_checksum(s), |v| hexd(&v)) }
fn dec_wif(s: &str) -> String {
    let a = res(wif_to_network_and_private_key(s), |(n, k)| format!("{}:{}", n, hexd(&k.to_bytes())));
    let b = guarded(|| res(Wallet::from_wif(s), |w| format!("{}:{}", w.network, hexd(&w.private_key.to_bytes()))));
    if a == b { a } else { format!("mismatch:{}|{}", a, b) }
}
fn xk_info(k: &ExtendedKey) -> String {
    let n = match k.network() { Ok(n) => n.to_string(), Err(e) => err_class(&e).replace(':', "=") };
    let t = match k.key_type() { Ok(ExtendedKeyType::Public) => "pub".to_string(), Ok(ExtendedKeyType::Private) => "priv".to_string(), Err(e) => err_class(&e).replace(':', "=") };
    format!("{}:{}:{}", hexd(&k.0), n, t)
}
fn dec_xkey(s: &str) -> String { res(ExtendedKey::decode(s), |k| xk_info(&k)) }
/// `<string hex>:<decode outcome>`; the outcome class of the whole is that of the decode.
fn encdec(s: &str, dec: String) -> String {
    match dec.strip_prefix("ok:") { Some(p) => format!("ok:{}:{}", shex(s), p), None => format!("encdec-fail:{}:{}", shex(s), dec) }
}

pub fn tables(w: &mut dyn std::io::Write) {
    let f: Vec<String> = NETS.iter().map(|n| n.addr_pubkeyhash_flag().to_string()).collect();
    writeln!(w, "LIST C09_P2PKH_FLAGS {}", f.join(" ")).unwrap();
    let f: Vec<String> = NETS.iter().map(|n| n.addr_script_flag().to_string()).collect();
    writeln!(w, "LIST C09_P2SH_FLAGS {}", f.join(" ")).unwrap();
    writeln!(w, "C09_MAIN_PRIVATE_KEY {}", MAIN_PRIVATE_KEY).unwrap();
    writeln!(w, "C09_TEST_PRIVATE_KEY {}", TEST_PRIVATE_KEY).unwrap();
    writeln!(w, "C09_XPUB_MAIN {}", MAINNET_PUBLIC_EXTENDED_KEY).unwrap();
    writeln!(w, "C09_XPRV_MAIN {}", MAINNET_PRIVATE_EXTENDED_KEY).unwrap();
    writeln!(w, "C09_XPUB_TEST {}", TESTNET_PUBLIC_EXTENDED_KEY).unwrap();
    writeln!(w, "C09_XPRV_TEST {}", TESTNET_PRIVATE_EXTENDED_KEY).unwrap();
    // wallet.rs keeps MAIN_PUBKEY_HASH / TEST_PUBKEY_HASH private: read them off an address
    for (name, n) in [("C09_MAIN_PUBKEY_HASH", Network::BSV_Mainnet), ("C09_TEST_PUBKEY_HASH", Network::BSV_Testnet)] {
        let a = public_key_to_address(&[2u8; 33], n).unwrap();
        let d = decode_base58_checksum(&a).unwrap();
        writeln!(w, "{} {}", name, d[0]).unwrap();
    }
    // the base58 crate's alphabet, observed through the encoder: the last character of base58(data) is the digit
    // `value(data) mod 58`; collect all 58 digits from encodings of small payloads.
    let mut al: Vec<Option<u8>> = vec![None; 58];
    let mut i = 0u32;
    while al.iter().any(|x| x.is_none()) && i < 100_000 {
        let p = i.to_be_bytes();
        let mut data = p.to_vec(); data.extend(short_double_sha256_checksum(&p));
        let d = data.iter().fold(0u32, |acc, b| (acc * 256 + *b as u32) % 58) as usize;
        let s = encode_base58_checksum(&p);
        al[d] = Some(*s.as_bytes().last().unwrap());
        i += 1;
    }
    let al: Vec<String> = al.iter().map(|x| x.unwrap_or(0).to_string()).collect();
    writeln!(w, "LIST C09_ALPHABET {}", al.join(" ")).unwrap();
}

pub fn exec(op: &str, a: &[&str]) -> Option<String> {
    match op {
        // ---- decoders: <string hex> <original hex | -> ----
        "c09.chk" => Some(dec_chk(&string_of(a[0]))),
        "c09.addr" => Some(dec_addr(&string_of(a[1]), net(a[0]))),
        "c09.wif" => Some(dec_wif(&string_of(a[0]))),
        "c09.xkey" => Some(dec_xkey(&string_of(a[0]))),
        // ---- encode, then decode ----
        "c09.enc_chk" => { let s = encode_base58_checksum(&unhexd(a[0])); let d = dec_chk(&s); Some(encdec(&s, d)) }
        "c09.enc_addr" => {
            let n = net(a[0]); let t = if a[1] == "0" { AddressType::P2PKH } else { AddressType::P2SH };
            let mut h = [0u8; 20]; h.copy_from_slice(&unhexd(a[2]));
            let s = addr_encode(&Hash160(h), t, n); let d = dec_addr(&s, n); Some(encdec(&s, d))
        }
        "c09.enc_wif" => {
            // body of python::py_wallet::bytes_to_wif (the module needs the `python` feature): prefix ++ key ++ 01
            let pfx = if a[0] == "0" { MAIN_PRIVATE_KEY } else { TEST_PRIVATE_KEY };
            let mut v = vec![pfx]; v.extend_from_slice(&unhexd(a[1])); v.push(1);
            let s = encode_base58_checksum(&v); let d = dec_wif(&s); Some(encdec(&s, d))
        }
        "c09.enc_xkey" => {
            let mut k = [0u8; 78]; k.copy_from_slice(&unhexd(a[0]));
            let s = ExtendedKey(k).encode(); let d = dec_xkey(&s); Some(encdec(&s, d))
        }
        // c09.xnew <net> <0 pub|1 priv> <depth> <fingerprint 4> <index> <chain code 32> <key 33|32>
        "c09.xnew" => {
            let n = net(a[0]); let depth: u8 = a[2].parse().unwrap(); let index: u32 = a[4].parse().unwrap();
            let (fp, cc, key) = (unhexd(a[3]), unhexd(a[5]), unhexd(a[6]));
            let k = if a[1] == "0" { ExtendedKey::new_public_key(n, depth, &fp, index, &cc, &key) } else { ExtendedKey::new_private_key(n, depth, &fp, index, &cc, &key) };
            Some(match k { Ok(k) => { let s = k.encode(); let d = dec_xkey(&s); encdec(&s, d) }, Err(e) => err_class(&e) })
        }
        "c09.pk2addr" => {
            let n = net(a[0]);
            Some(match public_key_to_address(&unhexd(a[1]), n) { Ok(s) => { let d = dec_addr(&s, n); encdec(&s, d) }, Err(e) => err_class(&e) })
        }
        _ => None,
    }
}

// ------------------------------------------------------------------------------------------------

fn edits(s: &str, out: &mut Vec<String>) {
    let b = s.as_bytes();
    let mk = |v: Vec<u8>| String::from_utf8(v).unwrap();
    for i in 0..b.len() {
        for &c in ALPHA { if c != b[i] { let mut v = b.to_vec(); v[i] = c; out.push(mk(v)); } }      // substitution
        let mut v = b.to_vec(); v.remove(i); out.push(mk(v));                                         // deletion
        if i + 1 < b.len() { let mut v = b.to_vec(); v.swap(i, i + 1); out.push(mk(v)); }              // transposition
    }
    for i in 0..=b.len() { for &c in ALPHA { let mut v = b.to_vec(); v.insert(i, c); out.push(mk(v)); } } // insertion
    // characters OUTSIDE the alphabet, inserted and substituted at every position: the four excluded look-alikes, ASCII
    // punctuation and whitespace (a decoder that trims or skips such characters accepts a corrupted string), multi-byte
    // whitespace and a full-width digit
    let outside: [&str; 14] = ["0", "O", "I", "l", " ", "\t", "\n", "\r", "+", "/", "=", "\u{a0}", "\u{3000}", "\u{ff11}"];
    for i in 0..=s.len() {
        for o in outside.iter() {
            let mut t = String::with_capacity(s.len() + 4); t.push_str(&s[..i]); t.push_str(o); t.push_str(&s[i..]); out.push(t);
            if i < s.len() { let mut t = String::with_capacity(s.len() + 4); t.push_str(&s[..i]); t.push_str(o); t.push_str(&s[i + 1..]); out.push(t); }
        }
    }
}

/// plain Base58 (no checksum) — the harness' own encoder, for strings whose checksum is deliberately wrong
fn b58enc(data: &[u8]) -> String {
    let z = data.iter().take_while(|b| **b == 0).count();
    let mut num: Vec<u8> = data[z..].to_vec();
    let mut digits = Vec::new();
    while !num.is_empty() {
        let mut rem = 0u32; let mut q = Vec::with_capacity(num.len());
        for b in &num { let acc = rem * 256 + *b as u32; let d = acc / 58; rem = acc % 58; if !(q.is_empty() && d == 0) { q.push(d as u8); } }
        digits.push(ALPHA[rem as usize]); num = q;
    }
    let mut s = "1".repeat(z); s.extend(digits.iter().rev().map(|c| *c as char)); s
}

fn rand_alpha(rng: &mut Rng, len: usize) -> String { (0..len).map(|_| *rng.pick(ALPHA) as char).collect() }

fn rand_unicode(rng: &mut Rng, len: usize) -> String {
    let mut s = String::new();
    while s.chars().count() < len {
        let c = match rng.below(10) {
            0..=3 => *rng.pick(ALPHA) as u32,
            4 => rng.below(128) as u32,                 // any ASCII incl. controls, space, '0', 'O', 'I', 'l'
            5 => rng.range(0x80, 0x7ff) as u32,         // two-byte
            6 => rng.range(0x800, 0xffff) as u32,       // three-byte (surrogates rejected below)
            7 => rng.range(0x10000, 0x10ffff) as u32,   // four-byte
            8 => *rng.pick(&[0x30u32, 0x4f, 0x49, 0x6c, 0x20, 0x0a, 0x00, 0x7f, 0xb9, 0xff11, 0x1d7cf, 0x200b, 0x301]),
            _ => rng.range(0x31, 0x7a) as u32,
        };
        if let Some(ch) = char::from_u32(c) { s.push(ch); }
    }
    s
}

fn all_decoders(s: &str, orig: &str, rng: &mut Rng, out: &mut Vec<String>) {
    let (h, o) = (shex(s), if orig.is_empty() { "-".to_string() } else { shex(orig) });
    out.push(format!("c09.chk {} {}", h, o));
    if orig.is_empty() { out.push(format!("c09.addr {} {} {}", rng.below(7), h, o)); }
    else { for ni in [0u64, 1 + rng.below(2), 3 + rng.below(4)] { out.push(format!("c09.addr {} {} {}", ni, h, if s == orig { "-".to_string() } else { o.clone() })); } }
    out.push(format!("c09.wif {} {}", h, o));
    out.push(format!("c09.xkey {} {}", h, o));
}

fn valid_key(rng: &mut Rng) -> Vec<u8> { let mut k = rng.bytes(32); k[0] &= 0x7f; k[31] |= 1; k }

pub fn gen(tier: &str, rng: &mut Rng, out: &mut Vec<String>) {
    let thorough = tier == "thorough";
    // (a) every alphabet string of length 0..=3 through decode_base58_checksum; 0..=2 (thorough: 3) through the others
    let mut strs: Vec<String> = vec![String::new()];
    let mut level = vec![String::new()];
    for _ in 0..3 {
        let mut nl = Vec::with_capacity(level.len() * 58);
        for p in &level { for &c in ALPHA { let mut q = p.clone(); q.push(c as char); nl.push(q); } }
        strs.extend(nl.iter().cloned()); level = nl;
    }
    for s in &strs {
        out.push(format!("c09.chk {} -", shex(s)));
        if s.len() <= 2 || thorough {
            out.push(format!("c09.addr {} {} -", rng.below(7), shex(s)));
            out.push(format!("c09.wif {} -", shex(s)));
            out.push(format!("c09.xkey {} -", shex(s)));
        }
    }
    // (b) round trips: every network x both address types (boundary and random hashes), both WIF networks,
    //     extended keys built by the constructors and raw 78-byte keys, free payloads of every length 0..=100
    let reps = if thorough { 40 } else { 4 };
    let mut encodings: Vec<(String, String)> = Vec::new(); // (decode op prefix incl. net, string)
    for (ni, n) in NETS.iter().enumerate() {
        for t in 0..2 {
            for r in 0..reps + 3 {
                let h = match r { 0 => vec![0u8; 20], 1 => vec![0xffu8; 20], 2 => { let mut h = rng.bytes(20); h[0] = 0; h[1] = 0; h } _ => rng.bytes(20) };
                out.push(format!("c09.enc_addr {} {} {}", ni, t, hexd(&h)));
                if r == 2 || r == 3 || (thorough && r < 8) {
                    let mut a = [0u8; 20]; a.copy_from_slice(&h);
                    let s = addr_encode(&Hash160(a), if t == 0 { AddressType::P2PKH } else { AddressType::P2SH }, *n);
                    encodings.push((format!("c09.addr {}", ni), s));
                }
            }
        }
    }
    for ni in 0..2 {
        for r in 0..reps + 4 {
            let k = match r {
                0 => { let mut k = vec![0u8; 32]; k[31] = 1; k }
                1 => hex::decode("fffffffffffffffffffffffffffffffebaaedce6af48a03bbfd25e8cd0364140").unwrap(), // n - 1
                2 => vec![0u8; 32],                                                                                    // invalid: 0
                3 => hex::decode("fffffffffffffffffffffffffffffffebaaedce6af48a03bbfd25e8cd0364141").unwrap(), // invalid: n
                _ => valid_key(rng),
            };
            out.push(format!("c09.enc_wif {} {}", ni, hexd(&k)));
            if r == 4 || (thorough && r < 8 && r != 2 && r != 3) {
                let mut v = vec![if ni == 0 { MAIN_PRIVATE_KEY } else { TEST_PRIVATE_KEY }]; v.extend_from_slice(&k); v.push(1);
                encodings.push(("c09.wif".into(), encode_base58_checksum(&v)));
            }
        }
    }
    // WIF in both forms: compressed (suffix 01) and UNCOMPRESSED (no suffix), keys whose last byte is 00 / 01 / 02 / ff (an
    // uncompressed key ending in 01 must not be mistaken for a compressed one), and a 34-byte payload with another suffix
    for prefix in [MAIN_PRIVATE_KEY, TEST_PRIVATE_KEY] {
        for last in [0x00u8, 0x01, 0x02, 0xff] {
            let mut k = valid_key(rng); k[31] = last;
            for suffix in [None, Some(1u8), Some(0u8), Some(2u8)] {
                let mut v = vec![prefix]; v.extend_from_slice(&k); if let Some(sx) = suffix { v.push(sx); }
                out.push(format!("c09.wif {} -", shex(&encode_base58_checksum(&v))));
            }
        }
        let mut one = vec![0u8; 32]; one[31] = 1;
        let mut v = vec![prefix]; v.extend_from_slice(&one);
        out.push(format!("c09.wif {} -", shex(&encode_base58_checksum(&v))));
    }
    for (ni, n) in NETS.iter().enumerate() {
        for t in 0..2 {
            let key = if t == 0 { let mut k = rng.bytes(33); k[0] = 2 + (rng.below(2) as u8); k } else { valid_key(rng) };
            let (depth, fp, idx, cc) = (rng.byte(), rng.bytes(4), rng.next() as u32, rng.bytes(32));
            out.push(format!("c09.xnew {} {} {} {} {} {} {}", ni, t, depth, hexd(&fp), idx, hexd(&cc), hexd(&key)));
            if ni < 2 || thorough {
                let k = if t == 0 { ExtendedKey::new_public_key(*n, depth, &fp, idx, &cc, &key) } else { ExtendedKey::new_private_key(*n, depth, &fp, idx, &cc, &key) }.unwrap();
                encodings.push(("c09.xkey".into(), k.encode()));
            }
        }
    }
    out.push(format!("c09.xnew 0 0 0 {} 0 {} {}", hexd(&[0u8; 3]), hexd(&[0u8; 32]), hexd(&[2u8; 33]))); // constructor argument checks
    out.push(format!("c09.xnew 0 1 0 {} 0 {} {}", hexd(&[0u8; 4]), hexd(&[0u8; 31]), hexd(&[2u8; 32])));
    out.push(format!("c09.xnew 0 1 0 {} 0 {} {}", hexd(&[0u8; 4]), hexd(&[0u8; 32]), hexd(&[2u8; 33])));
    for r in 0..reps + 3 {
        let k = match r { 0 => vec![0u8; 78], 1 => vec![0xffu8; 78], 2 => { let mut k = rng.bytes(78); k[0] = 0; k[1] = 0; k[2] = 0; k } _ => rng.bytes(78) };
        out.push(format!("c09.enc_xkey {}", hexd(&k)));
    }
    for len in 0..=100usize {
        for r in 0..(if thorough { 6 } else { 2 }) {
            let mut p = rng.bytes(len);
            if r == 1 { for b in p.iter_mut().take(rng.below(4) as usize + 1) { *b = 0; } }
            out.push(format!("c09.enc_chk {}", hexd(&p)));
        }
    }
    for ni in 0..7 {
        for len in [0usize, 32, 33, 34, 64, 65, 66] {
            out.push(format!("c09.pk2addr {} {}", ni, hexd(&rng.bytes(len))));
        }
    }
    // (c) every single-character edit of each encoding, through the decoder it belongs to; each encoding also under
    //     every other network / every other decoder
    for (op, s) in &encodings {
        out.push(format!("{} {} {}", op, shex(s), shex(s)));
        let mut e = Vec::new(); edits(s, &mut e);
        for x in &e { out.push(format!("{} {} {}", op, shex(x), shex(s))); }
        for ni in 0..7 { out.push(format!("c09.addr {} {} -", ni, shex(s))); }
        out.push(format!("c09.chk {} -", shex(s))); out.push(format!("c09.wif {} -", shex(s))); out.push(format!("c09.xkey {} -", shex(s)));
    }
    // (d) strings with a valid checksum around unusual payloads: the branches behind the checksum
    let n_pl = if thorough { 4000 } else { 500 };
    for i in 0..n_pl {
        let len = match i % 8 { 0 => rng.range(0, 5), 1 => rng.range(19, 23), 2 => rng.range(24, 40), 3 => rng.range(74, 84), _ => rng.range(0, 100) } as usize;
        let mut p = rng.bytes(len);
        if len > 0 {
            p[0] = match rng.below(8) { 0 => 0x80, 1 => 0xef, 2 => 0x00, 3 => 0x05, 4 => 0x6f, 5 => 0xc4, 6 => 0x04, _ => p[0] };
            if rng.chance(1, 2) { let l = p.len(); p[l - 1] = 1; }
            if len >= 4 && p[0] == 0x04 { let v = *rng.pick(&[0x0488B21Eu32, 0x0488ADE4, 0x043587CF, 0x04358394]); p[..4].copy_from_slice(&v.to_be_bytes()); }
            if rng.chance(1, 6) { for b in p.iter_mut().skip(1).take(20) { *b = 0; } }
        }
        let s = encode_base58_checksum(&p);
        all_decoders(&s, "", rng, out);
    }
    // (d') near misses: a correct payload whose checksum is wrong in exactly one bit (every byte position), whose checksum is
    //      followed / preceded by extra bytes, or which is cut one byte short
    let n_nm = if thorough { 400 } else { 60 };
    for i in 0..n_nm {
        let p: Vec<u8> = match i % 4 {
            0 => { let mut p = vec![*rng.pick(&[0x00u8, 0x05, 0x6f, 0xc4])]; p.extend(rng.bytes(20)); p }
            1 => { let mut p = vec![*rng.pick(&[0x80u8, 0xef])]; p.extend(valid_key(rng)); p.push(1); p }
            2 => { let mut p = rng.bytes(78); let v = *rng.pick(&[0x0488B21Eu32, 0x0488ADE4, 0x043587CF, 0x04358394]); p[..4].copy_from_slice(&v.to_be_bytes()); p }
            _ => { let n = rng.range(0, 40) as usize; rng.bytes(n) }
        };
        let cs = short_double_sha256_checksum(&p);
        let good = { let mut d = p.clone(); d.extend(&cs); d };
        let valid = b58enc(&good);
        all_decoders(&valid, &valid, rng, out);
        for pos in 0..4 {
            let mut d = good.clone(); let l = d.len(); d[l - 4 + pos] ^= 1 << rng.below(8);
            all_decoders(&b58enc(&d), &valid, rng, out);
        }
        let mut d = good.clone(); d.push(rng.byte()); all_decoders(&b58enc(&d), &valid, rng, out);          // trailing byte after the checksum
        let mut d = good.clone(); d.extend(&cs); all_decoders(&b58enc(&d), &valid, rng, out);                // checksum twice
        let mut d = good.clone(); d.pop(); all_decoders(&b58enc(&d), &valid, rng, out);                      // checksum cut short
        if !p.is_empty() { let mut d = p[1..].to_vec(); d.extend(&cs); all_decoders(&b58enc(&d), &valid, rng, out); } // payload cut at the front
        let mut d = p.clone(); let l = d.len(); if l > 0 { d[rng.below(l as u64) as usize] ^= 1 << rng.below(8); d.extend(&cs); all_decoders(&b58enc(&d), &valid, rng, out); }
    }
    // (e) random alphabet strings of every length 0..=132 (the crate's buffer holds 132 bytes), random Unicode to 120
    let per_len = if thorough { 20 } else { 2 };
    for len in 0..=132usize {
        for r in 0..per_len {
            let mut s = rand_alpha(rng, len);
            if r % 2 == 1 && len > 0 { let z = rng.range(1, len as u64) as usize; s = "1".repeat(z) + &s[z..]; }
            all_decoders(&s, "", rng, out);
        }
    }
    // (e') leading '1's decode to whole zero bytes: short strings that still decode to 4 or more bytes — every string
    // 1^z w with z <= 6 and |w| <= 1 over the whole alphabet, and sampled |w| = 2
    const ALPHA: &[u8] = b"123456789ABCDEFGHJKLMNPQRSTUVWXYZabcdefghijkmnopqrstuvwxyz";
    for z in 0..=6usize {
        all_decoders(&"1".repeat(z), "", rng, out);
        for c in ALPHA { let s = format!("{}{}", "1".repeat(z), *c as char); all_decoders(&s, "", rng, out); }
        for _ in 0..(if thorough { 400 } else { 30 }) {
            let s = format!("{}{}{}", "1".repeat(z), *rng.pick(ALPHA) as char, *rng.pick(ALPHA) as char);
            all_decoders(&s, "", rng, out);
        }
    }
    all_decoders(&"1".repeat(132), "", rng, out);
    all_decoders(&"z".repeat(120), "", rng, out);
    all_decoders(&"z".repeat(132), "", rng, out);
    let n_uni = if thorough { 20000 } else { 1500 };
    for _ in 0..n_uni { let len = rng.range(0, 120) as usize; let s = rand_unicode(rng, len); all_decoders(&s, "", rng, out); }
    // each distinct request once (first occurrence)
    let mut seen = std::collections::HashSet::new();
    out.retain(|r| seen.insert(r.clone()));
}

//! Tracking global allocator: records the largest single allocation request and the peak of live
//! bytes since the last `reset()`.  Used (a) as the harness memory cap — generated cases whose
//! evaluation requests more than `CAP` bytes at once are dropped before they reach the Lean driver
//! (the properties cap constructed values at the harness memory limit) — and (b) by C06 to observe
//! allocation requests made by decoders.
use std::alloc::{GlobalAlloc, Layout, System};
use std::sync::atomic::{AtomicUsize, Ordering};

pub struct Track;
static MAXREQ: AtomicUsize = AtomicUsize::new(0);
static LIVE: AtomicUsize = AtomicUsize::new(0);
static PEAK: AtomicUsize = AtomicUsize::new(0);
/// requests above this many bytes are refused (null) when non-zero: turns an over-allocation into an
/// observable abort in an isolated child instead of an OOM kill (C06 children only)
pub static REFUSE_ABOVE: AtomicUsize = AtomicUsize::new(0);

pub const CAP: usize = 32 << 20;

unsafe impl GlobalAlloc for Track {
    unsafe fn alloc(&self, l: Layout) -> *mut u8 {
        MAXREQ.fetch_max(l.size(), Ordering::Relaxed);
        let r = REFUSE_ABOVE.load(Ordering::Relaxed);
        if r != 0 && l.size() > r { return std::ptr::null_mut(); }
        let live = LIVE.fetch_add(l.size(), Ordering::Relaxed) + l.size();
        PEAK.fetch_max(live, Ordering::Relaxed);
        System.alloc(l)
    }
    unsafe fn alloc_zeroed(&self, l: Layout) -> *mut u8 {
        MAXREQ.fetch_max(l.size(), Ordering::Relaxed);
        let r = REFUSE_ABOVE.load(Ordering::Relaxed);
        if r != 0 && l.size() > r { return std::ptr::null_mut(); }
        let live = LIVE.fetch_add(l.size(), Ordering::Relaxed) + l.size();
        PEAK.fetch_max(live, Ordering::Relaxed);
        System.alloc_zeroed(l)
    }
    unsafe fn dealloc(&self, p: *mut u8, l: Layout) { LIVE.fetch_sub(l.size(), Ordering::Relaxed); System.dealloc(p, l) }
    unsafe fn realloc(&self, p: *mut u8, l: Layout, new: usize) -> *mut u8 {
        MAXREQ.fetch_max(new, Ordering::Relaxed);
        let r = REFUSE_ABOVE.load(Ordering::Relaxed);
        if r != 0 && new > r { return std::ptr::null_mut(); }
        if new >= l.size() { let live = LIVE.fetch_add(new - l.size(), Ordering::Relaxed) + (new - l.size()); PEAK.fetch_max(live, Ordering::Relaxed); }
        else { LIVE.fetch_sub(l.size() - new, Ordering::Relaxed); }
        System.realloc(p, l, new)
    }
}

pub fn reset() { MAXREQ.store(0, Ordering::Relaxed); PEAK.store(LIVE.load(Ordering::Relaxed), Ordering::Relaxed); }
pub fn max_request() -> usize { MAXREQ.load(Ordering::Relaxed) }
pub fn peak_live() -> usize { PEAK.load(Ordering::Relaxed) }
pub fn live() -> usize { LIVE.load(Ordering::Relaxed) }

//! C06 — decoding hostile bytes never panics, aborts, hangs or over-allocates.
//!
//! Requests
//!   c06.payload <type> <hex>      bare payload through `T::read` (+ the argument-free `validate()` of the value)
//!   c06.msg <magic> <hex>         header + payload through `Message::read`
//!
//! Outcome: `<class>|alloc-ok` where class is `ok` / `ok/<validate class>` / `err:<Variant>`, or
//! `<class>|alloc-over:<bytes>` / `<class>|peak-over:<bytes>` when the decode broke the allocation rule,
//! or `panic:<site>`, `abort`, `hang`.
//!
//! Allocation rule (the same constants are in lean/CG/Model/WireAlloc.lean and checks/C06.py):
//!   largest single request  <= RULE_K * len + RULE_C                 (c06.payload)
//!   largest single request  <= RULE_K * len + RULE_C + MAX_PAYLOAD   (c06.msg: the payload buffer the header check allows)
//!   peak of live bytes      <= 2 * that bound                        (observed only; not modelled)
//! measured by the tracking global allocator (`alloc.rs`) around the decode.
//!
//! Isolation: a decode that over-allocates must not take the harness down.  Every request is executed in a
//! CHILD process (`cgh replay` re-invoked through `current_exe()`, env CGH_C06_CHILD=1) whose allocator refuses
//! any single request above REFUSE (null -> `handle_alloc_error` -> SIGABRT).  The child appends one outcome
//! line per finished request to the file named by CGH_C06_RES, so when it dies or stalls the parent knows the
//! culprit exactly (the first request without a line); the culprit is re-run alone to confirm and is reported
//! as `abort` (killed by a signal / non-zero exit) or `hang` (no progress for HANG_SECS).  `gen` runs all its
//! requests through children (batches, in parallel) and caches the outcomes; the in-process `exec` that
//! `cgh gen` / `cgh replay` call answers from that cache, or spawns a one-request child on a miss.
use crate::alloc;
use crate::rng::Rng;
use crate::util::*;
use chain_gang::messages::*;
use chain_gang::network::Network;
use chain_gang::util::{sha256d, BloomFilter, ChainGangError, Serializable};
use std::collections::HashMap;
use std::io::{Cursor, Read, Write};
use std::sync::Mutex;

pub const RULE_K: usize = 64;
pub const RULE_C: usize = (2 << 20) + 4096;
const REFUSE: usize = 256 << 20;
const HANG_SECS: u64 = 20;
const BATCH: usize = 400;

// ---------------------------------------------------------------- tables

/// `MAX_PREALLOC_BYTES` of src/util/serdes.rs (crate-private: read from the source with a strict grammar);
/// 0 when the tree has no such constant (the pinned, unrepaired tree: lengths from the wire are trusted)
pub fn max_prealloc() -> u64 {
    let path = format!("{}/src/util/serdes.rs", env!("CG_REPO"));
    let src = std::fs::read_to_string(&path).unwrap_or_default();
    for l in src.lines() {
        let l = l.trim();
        let l = l.strip_prefix("pub(crate) ").or_else(|| l.strip_prefix("pub ")).unwrap_or(l);
        if let Some(rest) = l.strip_prefix("const MAX_PREALLOC_BYTES: usize =") {
            let e = rest.trim().trim_end_matches(';').trim().replace('_', "");
            let num = |s: &str| s.trim().parse::<u64>().unwrap_or_else(|_| panic!("MAX_PREALLOC_BYTES: cannot parse `{}`", e));
            if let Some((a, b)) = e.split_once("<<") { return num(a) << num(b); }
            if let Some((a, b)) = e.split_once('*') { return num(a) * num(b); }
            return num(&e);
        }
    }
    0
}

pub fn tables(w: &mut dyn std::io::Write) {
    use std::mem::size_of;
    writeln!(w, "C06_MAX_PREALLOC_BYTES {}", max_prealloc()).unwrap();
    writeln!(w, "C06_RULE_K {}", RULE_K).unwrap();
    writeln!(w, "C06_RULE_C {}", RULE_C).unwrap();
    writeln!(w, "C06_SIZEOF_TXIN {}", size_of::<TxIn>()).unwrap();
    writeln!(w, "C06_SIZEOF_TXOUT {}", size_of::<TxOut>()).unwrap();
    writeln!(w, "C06_SIZEOF_TX {}", size_of::<Tx>()).unwrap();
    writeln!(w, "C06_SIZEOF_HASH256 {}", size_of::<chain_gang::util::Hash256>()).unwrap();
    writeln!(w, "C06_SIZEOF_INVVECT {}", size_of::<InvVect>()).unwrap();
    writeln!(w, "C06_SIZEOF_NODEADDREX {}", size_of::<NodeAddrEx>()).unwrap();
    writeln!(w, "C06_SIZEOF_BLOCKHEADER {}", size_of::<BlockHeader>()).unwrap();
    writeln!(w, "C06_SIZEOF_VECU8 {}", size_of::<Vec<u8>>()).unwrap();
    let mut c = Cmpctblock::default();
    c.prefilledtxn.push(Default::default());
    writeln!(w, "C06_SIZEOF_PREFILLED {}", std::mem::size_of_val(&c.prefilledtxn[0])).unwrap();
    // NodeAddrExV2 cannot be named: one entry through Message::read
    let magic = Network::BSV_Mainnet.magic();
    let bytes = frame(magic, &commands::ADDRV2, &[1, 0, 0, 0, 0, 1, 1, 4, 10, 0, 0, 1, 0x20, 0x8d]);
    let sz = match Message::read(&mut Cursor::new(&bytes), magic) { Ok(Message::AddrV2(p)) => std::mem::size_of_val(&p.addrs[0]), _ => 0 };
    writeln!(w, "C06_SIZEOF_NODEADDREXV2 {}", sz).unwrap();
}

fn frame(magic: [u8; 4], cmd: &[u8; 12], payload: &[u8]) -> Vec<u8> {
    let mut v = Vec::with_capacity(24 + payload.len());
    v.extend(magic); v.extend(cmd); v.extend((payload.len() as u32).to_le_bytes()); v.extend(&sha256d(payload).0[..4]); v.extend(payload); v
}

// ---------------------------------------------------------------- the decode under measurement

type V = Option<Result<(), ChainGangError>>;

fn vclass(v: V) -> String {
    match v { None => "ok".into(), Some(Ok(())) => "ok/ok".into(), Some(Err(e)) => format!("ok/{}", err_class(&e)) }
}

/// `T::read` on the bytes, then `validate` on the value; the class and what the allocator saw
fn run<T: Serializable<T>>(b: &[u8], validate: fn(&T) -> V) -> (String, usize, usize) {
    let base = alloc::live();
    alloc::reset();
    let cls = {
        let mut c = Cursor::new(b);
        match T::read(&mut c) { Ok(v) => vclass(validate(&v)), Err(e) => err_class(&e) }
    };
    (cls, alloc::max_request(), alloc::peak_live().saturating_sub(base))
}

struct BF(BloomFilter);
impl Serializable<BF> for BF {
    fn read(r: &mut dyn Read) -> Result<BF, ChainGangError> { Ok(BF(BloomFilter::read(r)?)) }
    fn write(&self, w: &mut dyn Write) -> std::io::Result<()> { self.0.write(w) }
}
struct VI(#[allow(dead_code)] u64);
impl Serializable<VI> for VI {
    fn read(r: &mut dyn Read) -> Result<VI, ChainGangError> { Ok(VI(chain_gang::util::verif_hooks::var_int_read(r)?)) }
    fn write(&self, _w: &mut dyn Write) -> std::io::Result<()> { Ok(()) }
}

fn none<T>(_: &T) -> V { None }

pub const PTYPES: [&str; 31] = ["varint", "outpoint", "txin", "txout", "tx", "blockheader", "invvect", "inv", "blocklocator", "ping", "feefilter", "sendcmpct", "nodeaddr",
    "nodeaddrex", "version", "addr", "headers", "block", "merkleblock", "filterload", "filteradd", "reject", "protoconf", "authch", "createstrm", "streamack",
    "cmpctblock", "getblocktxn", "blocktxn", "msgheader", "bloomfilter"];

fn run_payload(ty: &str, b: &[u8]) -> Option<(String, usize, usize)> {
    Some(match ty {
        "varint" => run::<VI>(b, none),
        "outpoint" => run::<OutPoint>(b, none), "txin" => run::<TxIn>(b, none), "txout" => run::<TxOut>(b, none), "tx" => run::<Tx>(b, none),
        // BlockHeader::validate takes arguments (its verdict belongs to C19): run on the decoded value against its own hash and
        // against the zero hash (which passes every proof-of-work comparison, so the timestamp rule runs too); verdict dropped
        "blockheader" => run::<BlockHeader>(b, |v| { let _ = v.validate(&v.hash(), &[]); let _ = v.validate(&chain_gang::util::Hash256([0; 32]), &[]); None }), "invvect" => run::<InvVect>(b, none), "inv" => run::<Inv>(b, none),
        "blocklocator" => run::<BlockLocator>(b, |v| Some(v.validate())),
        "ping" => run::<Ping>(b, none), "feefilter" => run::<FeeFilter>(b, none), "sendcmpct" => run::<SendCmpct>(b, none),
        "nodeaddr" => run::<NodeAddr>(b, none), "nodeaddrex" => run::<NodeAddrEx>(b, none),
        "version" => run::<Version>(b, |v| Some(v.validate())),
        "addr" => run::<Addr>(b, none), "headers" => run::<Headers>(b, |v| { for h in v.headers.iter().take(64) { let _ = h.validate(&chain_gang::util::Hash256([0; 32]), &[]); } None }),
        "block" => run::<Block>(b, |v| { let _ = v.header.validate(&chain_gang::util::Hash256([0; 32]), &[]); None }),
        // MerkleBlock::validate (its verdict belongs to C14) and MessageHeader::validate: run, verdict dropped
        "merkleblock" => run::<MerkleBlock>(b, |v| { let _ = v.validate(); None }),
        "filterload" => run::<FilterLoad>(b, |v| Some(v.validate())),
        "filteradd" => run::<FilterAdd>(b, |v| Some(v.validate())),
        "reject" => run::<Reject>(b, none),
        "protoconf" => run::<Protoconf>(b, |v| Some(v.validate())),
        "authch" => run::<Authch>(b, |v| Some(v.validate())),
        "createstrm" => run::<Createstrm>(b, |v| Some(v.validate())),
        "streamack" => run::<Streamack>(b, |v| Some(v.validate())),
        "cmpctblock" => run::<Cmpctblock>(b, |v| Some(v.validate())),
        "getblocktxn" => run::<Getblocktxn>(b, none),
        "blocktxn" => run::<Blocktxn>(b, |v| Some(v.validate())),
        "msgheader" => run::<MessageHeader>(b, |v| { let _ = v.validate(Network::BSV_Mainnet.magic(), MAX_PAYLOAD_SIZE); None }),
        "bloomfilter" => run::<BF>(b, |v| Some(v.0.validate())),
        _ => return None,
    })
}

fn run_msg(magic: [u8; 4], b: &[u8]) -> (String, usize, usize) {
    let base = alloc::live();
    alloc::reset();
    let cls = {
        let mut c = Cursor::new(b);
        match Message::read(&mut c, magic) { Ok(_) => "ok".to_string(), Err(e) => err_class(&e) }
    };
    (cls, alloc::max_request(), alloc::peak_live().saturating_sub(base))
}

fn verdict(cls: String, maxreq: usize, peak: usize, bound: usize) -> String {
    if maxreq > bound { format!("{}|alloc-over:{}", cls, maxreq) }
    else if peak > 2 * bound { format!("{}|peak-over:{}", cls, peak) }
    else { format!("{}|alloc-ok", cls) }
}

/// the decode itself (child process, or a caller that knows the request is harmless)
fn direct(op: &str, a: &[&str]) -> Option<String> {
    match op {
        "c06.payload" => {
            if a.len() != 2 { return Some("bad-request".into()); }
            let b = match hex_opt(a[1]) { Some(b) => b, None => return Some("bad-request".into()) };
            let ty = a[0].to_string();
            Some(guarded(move || match run_payload(&ty, &b) {
                Some((cls, m, p)) => verdict(cls, m, p, RULE_K * b.len() + RULE_C),
                None => "bad-request".into(),
            }))
        }
        "c06.msg" => {
            if a.len() != 2 { return Some("bad-request".into()); }
            let (mg, b) = match (hex_opt(a[0]), hex_opt(a[1])) { (Some(m), Some(b)) if m.len() == 4 => (m, b), _ => return Some("bad-request".into()) };
            Some(guarded(move || {
                let (cls, m, p) = run_msg([mg[0], mg[1], mg[2], mg[3]], &b);
                verdict(cls, m, p, RULE_K * b.len() + RULE_C + MAX_PAYLOAD_SIZE as usize)
            }))
        }
        _ => None,
    }
}

fn hex_opt(s: &str) -> Option<Vec<u8>> { if s == "-" { Some(vec![]) } else { hex::decode(s).ok() } }

// ---------------------------------------------------------------- isolation

static CACHE: Mutex<Option<HashMap<String, String>>> = Mutex::new(None);
static SEQ: std::sync::atomic::AtomicUsize = std::sync::atomic::AtomicUsize::new(0);

fn is_child() -> bool { std::env::var("CGH_C06_CHILD").map(|v| v == "1").unwrap_or(false) }

enum End { Done, Died, Stalled }

/// runs `reqs` in ONE child; returns the outcome lines it produced and how it ended
fn child(reqs: &[String]) -> (Vec<String>, End) {
    let id = SEQ.fetch_add(1, std::sync::atomic::Ordering::Relaxed);
    let dir = std::env::temp_dir();
    let res = dir.join(format!("cgh-c06-{}-{}.res", std::process::id(), id));
    let _ = std::fs::remove_file(&res);
    let exe = std::env::current_exe().expect("current_exe");
    let mut ch = std::process::Command::new(exe)
        .arg("replay")
        .env("CGH_C06_CHILD", "1").env("CGH_C06_RES", &res).env("CGH_OUT", "/dev/null")
        .stdin(std::process::Stdio::piped()).stdout(std::process::Stdio::null()).stderr(std::process::Stdio::null())
        .spawn().expect("cannot spawn the C06 child");
    {
        // feed stdin from a thread: the child may die before it has read everything
        let mut si = ch.stdin.take().unwrap();
        let data = reqs.join("\n") + "\n";
        std::thread::spawn(move || { let _ = si.write_all(data.as_bytes()); });
    }
    let mut last_len = 0u64;
    let mut last_change = std::time::Instant::now();
    let end = loop {
        match ch.try_wait() {
            Ok(Some(st)) => break if st.success() { End::Done } else { End::Died },
            Ok(None) => {}
            Err(_) => break End::Died,
        }
        let len = std::fs::metadata(&res).map(|m| m.len()).unwrap_or(0);
        if len != last_len { last_len = len; last_change = std::time::Instant::now(); }
        else if last_change.elapsed().as_secs() >= HANG_SECS { let _ = ch.kill(); let _ = ch.wait(); break End::Stalled; }
        std::thread::sleep(std::time::Duration::from_millis(2));
    };
    let text = std::fs::read_to_string(&res).unwrap_or_default();
    let _ = std::fs::remove_file(&res);
    // only complete lines count
    let mut lines: Vec<String> = text.split('\n').map(|s| s.to_string()).collect();
    lines.pop();
    (lines, end)
}

/// outcome of every request, each decided in an isolated child
fn isolated(reqs: &[String]) -> Vec<String> {
    let mut out: Vec<String> = Vec::with_capacity(reqs.len());
    let mut i = 0;
    while i < reqs.len() {
        let (lines, end) = child(&reqs[i..]);
        let n = lines.len().min(reqs.len() - i);
        out.extend(lines.into_iter().take(n));
        i += n;
        if i >= reqs.len() { break; }
        match end {
            End::Done => { out.push("abort:no-result".into()); i += 1; } // cannot happen: every request writes a line
            End::Died | End::Stalled => {
                // the culprit is request i: confirm alone
                let (l1, e1) = child(&reqs[i..i + 1]);
                out.push(match (l1.into_iter().next(), e1) {
                    (Some(o), _) => o,
                    (None, End::Stalled) => "hang".into(),
                    (None, _) => "abort".into(),
                });
                i += 1;
            }
        }
    }
    out
}

fn isolated_parallel(reqs: &[String]) -> Vec<String> {
    let threads = std::thread::available_parallelism().map(|n| n.get()).unwrap_or(4).min(16);
    let chunks: Vec<&[String]> = reqs.chunks(BATCH).collect();
    let next = std::sync::atomic::AtomicUsize::new(0);
    let results: Mutex<Vec<Option<Vec<String>>>> = Mutex::new(vec![None; chunks.len()]);
    std::thread::scope(|s| {
        for _ in 0..threads {
            s.spawn(|| loop {
                let k = next.fetch_add(1, std::sync::atomic::Ordering::Relaxed);
                if k >= chunks.len() { break; }
                let r = isolated(chunks[k]);
                results.lock().unwrap()[k] = Some(r);
            });
        }
    });
    results.into_inner().unwrap().into_iter().flat_map(|r| r.unwrap()).collect()
}

pub fn exec(op: &str, a: &[&str]) -> Option<String> {
    if op != "c06.payload" && op != "c06.msg" { return None; }
    if is_child() {
        if alloc::REFUSE_ABOVE.load(std::sync::atomic::Ordering::Relaxed) == 0 { alloc::REFUSE_ABOVE.store(REFUSE, std::sync::atomic::Ordering::Relaxed); }
        let o = direct(op, a).unwrap_or_else(|| "bad-request".into());
        if let Ok(p) = std::env::var("CGH_C06_RES") {
            if let Ok(mut f) = std::fs::OpenOptions::new().create(true).append(true).open(p) { let _ = f.write_all(format!("{}\n", o).as_bytes()); }
        }
        return Some(o);
    }
    let line = if a.is_empty() { op.to_string() } else { format!("{} {}", op, a.join(" ")) };
    if let Some(o) = CACHE.lock().unwrap().as_ref().and_then(|c| c.get(&line).cloned()) { return Some(o); }
    Some(isolated(&[line]).pop().unwrap())
}

// ---------------------------------------------------------------- generators

/// varint-shaped replacements for a one-byte count / length field
const SPLICE: [&[u8]; 12] = [&[0x00], &[0xfc], &[0xfd, 0x00, 0x00], &[0xfd, 0xfc, 0x00], &[0xfd, 0xff, 0xff], &[0xfe, 0x00, 0x00, 0x01, 0x00], &[0xfe, 0xff, 0xff, 0xff, 0xff],
    &[0xff, 0, 0, 0, 0, 1, 0, 0, 0], &[0xff, 0, 0, 0, 0, 0, 0, 0, 0x80], &[0xff, 0xff, 0xff, 0xff, 0xff, 0xff, 0xff, 0xff, 0xff],
    &[0xfe, 0xff, 0xff, 0xff, 0x0f], &[0xff, 0xff, 0xff, 0xff, 0xff, 0xff, 0xff, 0xff, 0x7f]];
/// fixed-width overwrites: u32 lengths (authch, payload size) and i64 / u64 amounts
const OVER: [&[u8]; 8] = [&[0xff, 0xff, 0xff, 0xff], &[0x00, 0x00, 0x01, 0x00], &[0x00, 0x00, 0x00, 0x80], &[0xff, 0xff, 0xff, 0x7f],
    &[0xff, 0xff, 0xff, 0xff, 0xff, 0xff, 0xff, 0x7f], &[0, 0, 0, 0, 0, 0, 0, 0x80], &[0xff, 0xff, 0xff, 0xff, 0xff, 0xff, 0xff, 0xff], &[0, 0x40, 0x07, 0x5a, 0xf0, 0x75, 0x07, 0x00]];

fn splice(b: &[u8], at: usize, pat: &[u8]) -> Vec<u8> { let mut v = b[..at].to_vec(); v.extend(pat); v.extend(&b[at + 1..]); v }
fn over(b: &[u8], at: usize, pat: &[u8]) -> Vec<u8> { let mut v = b.to_vec(); for (i, x) in pat.iter().enumerate() { if at + i < v.len() { v[at + i] = *x; } else { v.push(*x); } } v }

/// hostile variants of one valid encoding.  `dense`: every pattern at every offset; otherwise every pattern at
/// the offsets that look like a count / length (small byte values) and two random ones elsewhere.
fn mutate(seed: &[u8], dense: bool, trunc: bool, flips: usize, r: &mut Rng, mut emit: impl FnMut(Vec<u8>)) {
    for at in 0..seed.len() {
        let likely = seed[at] <= 0x20 || seed[at] >= 0xfc;
        if dense || likely {
            for p in SPLICE.iter() { emit(splice(seed, at, p)); }
            for p in OVER.iter() { emit(over(seed, at, p)); }
        } else {
            for _ in 0..2 { if r.chance(1, 2) { emit(splice(seed, at, SPLICE[r.below(SPLICE.len() as u64) as usize])); } else { emit(over(seed, at, OVER[r.below(OVER.len() as u64) as usize])); } }
        }
    }
    if trunc { for k in 0..seed.len() { emit(seed[..k].to_vec()); } }
    for _ in 0..flips { if seed.is_empty() { break; } let mut v = seed.to_vec(); let i = r.below(v.len() as u64) as usize; v[i] ^= 1 << r.below(8); emit(v); }
    // a hostile count combined with truncation
    for _ in 0..flips.min(8) {
        if seed.len() < 2 { break; }
        let at = r.below(seed.len() as u64) as usize;
        let mut v = splice(seed, at, SPLICE[r.below(SPLICE.len() as u64) as usize]);
        let k = r.below(v.len() as u64 + 1) as usize; v.truncate(k); emit(v);
    }
}

fn cmd_of(kind: &str) -> [u8; 12] { let mut c = [0u8; 12]; c[..kind.len()].copy_from_slice(kind.as_bytes()); c }

/// valid encodings, harvested from the C05 generators (`c05.pdec <type> <hex>`: bare payloads laid out by the
/// harness's own encoder, canonical and not; `c05.dec <kind>.plain <magic> <hex>`: framed messages)
fn harvest(r: &mut Rng) -> (HashMap<String, Vec<Vec<u8>>>, Vec<(String, [u8; 4], Vec<u8>)>) {
    let mut lines = Vec::new();
    let mut fr = r.fork();
    crate::c05::gen("quick", &mut fr, &mut lines);
    let mut by_type: HashMap<String, Vec<Vec<u8>>> = HashMap::new();
    let mut msgs = Vec::new();
    for l in lines {
        if l.len() > 1400 { continue; }
        let f: Vec<&str> = l.split(' ').collect();
        if f[0] == "c05.pdec" && f.len() == 3 { if let Some(b) = hex_opt(f[2]) { by_type.entry(f[1].to_string()).or_default().push(b); } }
        else if f[0] == "c05.dec" && f.len() == 4 && f[1].ends_with(".plain") {
            if let (Some(m), Some(b)) = (hex_opt(f[2]), hex_opt(f[3])) { if m.len() == 4 && b.len() >= 24 { msgs.push((f[1].trim_end_matches(".plain").to_string(), [m[0], m[1], m[2], m[3]], b)); } }
        }
    }
    (by_type, msgs)
}

/// BloomFilter::read has no C05 type: filter bytes, u64 hash-function count, u32 tweak
fn bloom_seeds(r: &mut Rng) -> Vec<Vec<u8>> {
    (0..6).map(|i| { let n = [0usize, 1, 2, 5, 9, 40][i]; let mut v = vec![n as u8]; v.extend(r.bytes(n)); v.extend((r.below(60)).to_le_bytes()); v.extend((r.next() as u32).to_le_bytes()); v }).collect()
}

pub fn gen(tier: &str, rng: &mut Rng, out: &mut Vec<String>) {
    if is_child() { return; }
    let thorough = tier == "thorough";
    let mut reqs: Vec<String> = Vec::new();
    let (mut by_type, msgs) = harvest(rng);
    by_type.insert("bloomfilter".into(), bloom_seeds(rng));
    let (n_small, n_mid, flips) = if thorough { (8, 40, 96) } else { (4, 8, 24) };

    // (0) block headers over the whole range of the compact difficulty word: every exponent byte x mantissas at the edges of
    //     each mantissa byte (the expansion into a 32-byte target indexes by the exponent)
    for e in (0u32..=40).chain(120..=136).chain(248..=255) {
        for m in [0u32, 1, 0xff, 0x100, 0xffff, 0x1_0000, 0x7f_ffff, 0x80_0000, 0xff_ffff] {
            let mut h = vec![0u8; 80]; h[0] = 1; h[68] = 1;
            h[72..76].copy_from_slice(&((e << 24) | m).to_le_bytes());
            reqs.push(format!("c06.payload blockheader {}", hexd(&h)));
        }
    }
    // (1) bare payloads: structure-aware corruptions of valid encodings of every type
    for ty in PTYPES.iter() {
        let mut seeds = by_type.remove(*ty).unwrap_or_default();
        seeds.sort_by(|a, b| a.len().cmp(&b.len()).then(a.cmp(b)));
        seeds.dedup();
        let pr = |b: Vec<u8>, reqs: &mut Vec<String>| reqs.push(format!("c06.payload {} {}", ty, hexd(&b)));
        // the valid encodings themselves
        for s in seeds.iter().take(40) { pr(s.clone(), &mut reqs); }
        // smallest non-trivial encodings: dense mutation
        let nontrivial: Vec<&Vec<u8>> = seeds.iter().filter(|s| s.len() >= 3).collect();
        let mut chosen: Vec<&Vec<u8>> = nontrivial.iter().take(n_small).cloned().collect();
        // a spread of longer ones: heuristic mutation
        let longer: Vec<&Vec<u8>> = nontrivial.iter().filter(|s| s.len() <= 260).skip(n_small).cloned().collect();
        for _ in 0..n_mid { if longer.is_empty() { break; } chosen.push(longer[rng.below(longer.len() as u64) as usize]); }
        for (i, s) in chosen.iter().enumerate() {
            let dense = i < n_small && s.len() <= 120;
            let mut tmp = Vec::new();
            mutate(s, dense, s.len() <= 200, flips, rng, |b| tmp.push(b));
            for b in tmp { pr(b, &mut reqs); }
        }
        // leading hostile count followed by nothing / by random bytes
        for p in SPLICE.iter() { pr(p.to_vec(), &mut reqs); let mut v = p.to_vec(); v.extend(rng.bytes(40)); pr(v, &mut reqs); }
        // uniformly random strings
        let n_rand = if thorough { 4000 } else { 300 };
        for _ in 0..n_rand { let hi = if rng.chance(1, 8) { 400 } else { 96 }; let n = rng.below(hi) as usize; pr(rng.bytes(n), &mut reqs); }
    }

    // (2) framed messages
    let mut per_kind: HashMap<String, usize> = HashMap::new();
    let per = if thorough { 16 } else { 4 };
    let mut msgs = msgs;
    msgs.sort_by(|a, b| a.2.len().cmp(&b.2.len()).then(a.2.cmp(&b.2)));
    for (kind, magic, bytes) in msgs.iter() {
        if bytes.len() > 400 { continue; }
        let c = per_kind.entry(kind.clone()).or_insert(0);
        let payloadless = bytes.len() == 24;
        if *c >= per || (payloadless && *c >= 1) { continue; }
        if !payloadless && bytes.len() < 26 && *c == 0 && msgs.iter().any(|m| m.0 == *kind && m.2.len() >= 30 && m.2.len() <= 400) { continue; }
        *c += 1;
        let mg = hex::encode(magic);
        let pr = |b: Vec<u8>, reqs: &mut Vec<String>| reqs.push(format!("c06.msg {} {}", mg, hexd(&b)));
        pr(bytes.clone(), &mut reqs);
        let payload = &bytes[24..];
        let mut cmd = [0u8; 12]; cmd.copy_from_slice(&bytes[4..16]);
        let is_block = cmd == commands::BLOCK;
        // header: declared lengths around the actual one and at the limits, bad checksum, bad magic, truncation
        let actual = payload.len() as u32;
        let mut lens = vec![0u32, actual, actual.wrapping_add(1), actual.wrapping_sub(1), MAX_PAYLOAD_SIZE, MAX_PAYLOAD_SIZE - 1, 0x10000, 0xfd, 0xfc];
        // block messages above MAX_PAYLOAD_SIZE are exempt from the size cap by design: not generated
        if !is_block { lens.extend([MAX_PAYLOAD_SIZE + 1, 0xffff_ffff, 0x8000_0000, 0x7fff_ffff]); }
        for n in lens { if is_block && n > MAX_PAYLOAD_SIZE { continue; } let mut v = bytes.clone(); v[16..20].copy_from_slice(&n.to_le_bytes()); pr(v, &mut reqs); }
        for k in 0..4 { let mut v = bytes.clone(); v[20 + k] ^= 1 << rng.below(8); pr(v, &mut reqs); }
        { let mut v = bytes.clone(); v[rng.below(4) as usize] ^= 1 << rng.below(8); pr(v, &mut reqs); }
        for k in 0..bytes.len().min(if thorough { 400 } else { 60 }) { pr(bytes[..k].to_vec(), &mut reqs); }
        // command bytes: flips (unknown commands carry any payload)
        for _ in 0..3 { let mut v = bytes.clone(); v[4 + rng.below(12) as usize] ^= 1 << rng.below(8); pr(v, &mut reqs); }
        // payload corruptions, re-framed (length and checksum recomputed) so that the payload decoder and validate() are reached
        if !payload.is_empty() {
            let mut tmp = Vec::new();
            mutate(payload, false, payload.len() <= 80, flips, rng, |b| tmp.push(b));
            for b in tmp {
                if is_block && b.len() as u64 > MAX_PAYLOAD_SIZE as u64 { continue; }
                pr(frame(*magic, &cmd, &b), &mut reqs);
            }
        }
    }
    // text fields: well-formed UTF-8 of boundary lengths in which multi-byte characters straddle every small byte offset
    // (validate() and the error paths of the text-carrying messages see strings they may slice or measure)
    {
        let magic = Network::BSV_Mainnet.magic();
        let mg = hex::encode(magic);
        let texts: Vec<String> = {
            let mut v = Vec::new();
            // boundary lengths, plus every integer literal of the message sources (and its neighbours) up to 4096
            let mut lens: Vec<usize> = vec![0usize, 1, 2, 31, 32, 33, 34, 63, 64, 65, 255, 256, 257, 258, 300, 1000];
            for v in crate::harvest::ints(&["messages/version.rs", "messages/reject.rs", "messages/protoconf.rs", "messages/createstrm.rs", "messages/message.rs", "util/serdes.rs"], 4096) { if !lens.contains(&(v as usize)) { lens.push(v as usize); } }
            for len in lens {
                for (ci, ch) in ['\u{e9}', '\u{20ac}', '\u{1f600}'].iter().enumerate() {
                    for lead in 0..4usize {
                        if !thorough && (len + ci + lead) % 3 != 0 { continue; }
                        let mut t = "a".repeat(lead.min(len));
                        while t.len() + ch.len_utf8() <= len { t.push(*ch); }
                        while t.len() < len { t.push('z'); }
                        v.push(t);
                    }
                }
            }
            v
        };
        for t in texts.iter() {
            let mut msgs: Vec<Message> = Vec::new();
            msgs.push(Message::Version(Version { version: 70015, services: 37, timestamp: 1, user_agent: t.clone(), start_height: 5, relay: true, ..Default::default() }));
            msgs.push(Message::Reject(Reject { message: t.clone(), code: 0x10, reason: "r".into(), data: vec![] }));
            msgs.push(Message::Reject(Reject { message: "tx".into(), code: 0x10, reason: t.clone(), data: vec![7u8; 32] }));
            msgs.push(Message::Protoconf(Protoconf { version: 2, max_recv_payload_length: 1_048_576, stream_policies: Some(t.clone()) }));
            msgs.push(Message::Createstrm(Createstrm { association_id: vec![1, 2], stream_type: 1, stream_policy: t.clone() }));
            for m in msgs {
                let mut v = Vec::new();
                if m.write(&mut v, magic).is_ok() { reqs.push(format!("c06.msg {} {}", mg, hexd(&v))); }
            }
        }
    }
    // amounts: enough individually legal amounts in ONE transaction to carry an i64 sum past its range (validate() is reached
    // from Message::read for cmpctblock; a total compared only after the loop would overflow), and the same sum spread over
    // several transactions
    {
        let magic = Network::BSV_Mainnet.magic();
        let mg = hex::encode(magic);
        let k0 = (i64::MAX / MAX_SATOSHIS) as usize;
        let mk = |n: usize| Tx { version: 1, inputs: vec![TxIn { prev_output: OutPoint { hash: chain_gang::util::Hash256([3; 32]), index: 0 }, unlock_script: chain_gang::script::Script(vec![]), sequence: 0 }],
                                 outputs: (0..n).map(|_| TxOut { satoshis: MAX_SATOSHIS, lock_script: chain_gang::script::Script(vec![]) }).collect(), lock_time: 0 };
        for k in [k0, k0 + 1, k0 + 2] {
            let mut c = Cmpctblock::default(); c.prefilledtxn.push(Default::default()); c.prefilledtxn[0].tx = mk(k);
            let msgs = vec![Message::Cmpctblock(c), Message::Blocktxn(Blocktxn { blockhash: chain_gang::util::Hash256([4; 32]), transactions: vec![mk(k)] }), Message::Tx(mk(k))];
            for m in msgs { let mut v = Vec::new(); if m.write(&mut v, magic).is_ok() { reqs.push(format!("c06.msg {} {}", mg, hexd(&v))); } }
        }
        let mut c = Cmpctblock::default();
        for i in 0..3 { c.prefilledtxn.push(Default::default()); c.prefilledtxn[i].index = i as u64; c.prefilledtxn[i].tx = mk(1); }
        let mut v = Vec::new(); if Message::Cmpctblock(c).write(&mut v, magic).is_ok() { reqs.push(format!("c06.msg {} {}", mg, hexd(&v))); }
        let mut v = Vec::new(); if Message::Blocktxn(Blocktxn { blockhash: chain_gang::util::Hash256([4; 32]), transactions: vec![mk(1), mk(1), mk(1)] }).write(&mut v, magic).is_ok() { reqs.push(format!("c06.msg {} {}", mg, hexd(&v))); }
    }
    // random payloads under every command, framed; random strings as whole messages
    let magic = Network::BSV_Mainnet.magic();
    let mg = hex::encode(magic);
    for kind in ["addr", "addrv2", "block", "feefilter", "filteradd", "filterclear", "filterload", "getaddr", "getblocks", "getdata", "getheaders", "headers", "inv", "mempool",
        "merkleblock", "notfound", "ping", "pong", "reject", "sendheaders", "sendcmpct", "tx", "version", "verack", "protoconf", "authch", "createstrm", "streamack", "cmpctblock",
        "getblocktxn", "blocktxn", "sendaddrv2", "alert"] {
        for _ in 0..(if thorough { 600 } else { 40 }) {
            let n = rng.below(80) as usize;
            let mut p = rng.bytes(n);
            if !p.is_empty() && rng.chance(1, 2) { p[0] = *rng.pick(&[0u8, 1, 2, 0xfc, 0xfd, 0xfe, 0xff]); }
            reqs.push(format!("c06.msg {} {}", mg, hexd(&frame(magic, &cmd_of(kind), &p))));
        }
        for p in SPLICE.iter() { reqs.push(format!("c06.msg {} {}", mg, hexd(&frame(magic, &cmd_of(kind), p)))); }
    }
    for _ in 0..(if thorough { 20000 } else { 1000 }) {
        let n = rng.below(120) as usize; let mut v = rng.bytes(n);
        if rng.chance(1, 2) { for (i, x) in magic.iter().enumerate() { if i < v.len() { v[i] = *x; } } }
        reqs.push(format!("c06.msg {} {}", mg, hexd(&v)));
    }

    // dedup (keeping order), decide every request in isolated children, remember the outcomes for `exec`
    let mut seen = std::collections::HashSet::new();
    reqs.retain(|r| seen.insert(r.clone()));
    let outs = isolated_parallel(&reqs);
    {
        let mut g = CACHE.lock().unwrap();
        let m = g.get_or_insert_with(HashMap::new);
        for (r, o) in reqs.iter().zip(outs.into_iter()) { m.insert(r.clone(), o); }
    }
    out.extend(reqs);
}

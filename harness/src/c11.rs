//! C11 — message reassembly is independent of transport fragmentation.
//!
//! `c11.recv <magic hex> <stream hex> <schedule> <kinds>` wraps the crate's own `AtomicReader`
//! (hook `chain_gang::peer::VerifAtomicReader`) around a scripted reader and drives
//! `Message::read` / `Message::read_partial` exactly as the receive loop of
//! `Peer::connect_internal` does.
//!
//! Scripted reader: call k of `read(buf)` looks at schedule[k]: `0` → `Err(TimedOut)` or
//! `Err(WouldBlock)` (`kinds`: `t` = always TimedOut, `w` = always WouldBlock, `a` = alternating),
//! `a > 0` → `min(a, buf.len(), remaining)` bytes (0 bytes = end of stream), schedule exhausted →
//! `min(buf.len(), remaining)` bytes.  Schedule tokens: `a` or `a*k` (k repetitions), comma separated.
//!
//! Outcome: `<Final>:<n>:<item>,<item>,…` — the error class that ended the loop, the number of
//! messages emitted and per message `<command>/<bytes 4..12 of sha256d(payload)>`
//! (`?<hex of the string>/-` for `Message::Other`).
//!
//! `c11.reads <stream hex> <schedule> <kinds> <sizes>` calls `AtomicReader::read` directly with
//! buffers of the listed sizes; outcome: per call `F<hex>` (Ok(len) and the buffer), `T`
//! (TimedOut or WouldBlock), `D` (NotConnected).
use crate::rng::Rng;
use crate::util::*;
use chain_gang::messages::*;
use chain_gang::peer::VerifAtomicReader as AtomicReader;
use chain_gang::script::Script;
use chain_gang::util::{sha256d, ChainGangError, Hash256};
use std::io::{self, Read};
use std::net::Ipv6Addr;

const MAGIC: [u8; 4] = [0xe3, 0xe1, 0xf3, 0xe8];

// ------------------------------------------------------------------------------------------------
// tables: the command classification is read off the behaviour of `Message::read_partial`
// ------------------------------------------------------------------------------------------------

fn all_commands() -> Vec<[u8; 12]> {
    use chain_gang::messages::commands::*;
    vec![ADDR, ADDRV2, ALERT, BLOCK, BLOCKTXN, CMPCTBLOCK, INV, FEEFILTER, FILTERADD, FILTERCLEAR, FILTERLOAD, GETADDR,
         GETBLOCKS, GETBLOCKTXN, GETDATA, GETHEADERS, HEADERS, MEMPOOL, MERKLEBLOCK, NOTFOUND, PING, PONG, REJECT,
         SENDCMPCT, SENDHEADERS, TX, VERSION, VERACK, PROTOCONF, AUTHCH, CREATESTRM, STREAMACK, SENDADDRV2]
}

struct Counting<'a> { data: &'a [u8], pos: usize }
impl<'a> Read for Counting<'a> {
    fn read(&mut self, out: &mut [u8]) -> io::Result<usize> {
        let n = out.len().min(self.data.len() - self.pos);
        out[..n].copy_from_slice(&self.data[self.pos..self.pos + n]);
        self.pos += n;
        Ok(n)
    }
}

/// 0 = payload is read and decoded, 1 = payload-less (length must be 0, nothing is read), 2 = unknown
fn classify(cmd: [u8; 12]) -> u8 {
    // a header announcing one byte with a wrong checksum: payload-less commands fail without reading
    let h1 = MessageHeader { magic: MAGIC, command: cmd, payload_size: 1, checksum: [0, 0, 0, 0] };
    let mut c = Counting { data: &[0x55], pos: 0 };
    let r = guarded(|| { let _ = Message::read_partial(&mut c, &h1); String::new() });
    let consumed = c.pos;
    if !r.is_empty() { return 0; }
    if consumed == 0 { return 1; }
    // an empty payload with the right checksum: the unknown-command arm answers Other(..)
    let h0 = MessageHeader { magic: MAGIC, command: cmd, payload_size: 0, checksum: NO_CHECKSUM };
    let mut c = Counting { data: &[], pos: 0 };
    let other = guarded(|| match Message::read_partial(&mut c, &h0) { Ok(Message::Other(_)) => "o".into(), _ => "x".into() });
    if other == "o" { 2 } else { 0 }
}

pub fn tables(w: &mut dyn std::io::Write) {
    writeln!(w, "C11_HEADER_SIZE {}", MessageHeader::SIZE).unwrap();
    let mut pay = Vec::new();
    let mut bare = Vec::new();
    for c in all_commands() {
        match classify(c) { 0 => pay.extend_from_slice(&c), 1 => bare.extend_from_slice(&c), _ => {} }
    }
    let fl = |v: &[u8]| v.iter().map(|b| b.to_string()).collect::<Vec<_>>().join(" ");
    writeln!(w, "LIST C11_CMDS_PAYLOAD {}", fl(&pay)).unwrap();
    writeln!(w, "LIST C11_CMDS_BARE {}", fl(&bare)).unwrap();
    writeln!(w, "LIST C11_CMD_BLOCK {}", fl(&commands::BLOCK)).unwrap();
}

// ------------------------------------------------------------------------------------------------
// exec
// ------------------------------------------------------------------------------------------------

fn parse_sched(s: &str) -> Vec<u64> {
    let mut v = Vec::new();
    if s == "-" { return v; }
    for tok in s.split(',') {
        match tok.split_once('*') {
            Some((a, k)) => { let a: u64 = a.parse().expect("sched"); let k: usize = k.parse().expect("sched"); v.extend(std::iter::repeat(a).take(k)); }
            None => v.push(tok.parse().expect("sched")),
        }
    }
    v
}

fn fmt_sched(v: &[u64]) -> String {
    if v.is_empty() { return "-".into(); }
    let mut out: Vec<String> = Vec::new();
    let mut i = 0;
    while i < v.len() {
        let mut j = i;
        while j < v.len() && v[j] == v[i] { j += 1; }
        if j - i >= 3 { out.push(format!("{}*{}", v[i], j - i)); } else { for _ in i..j { out.push(v[i].to_string()); } }
        i = j;
    }
    out.join(",")
}

struct Scripted<'a> { data: &'a [u8], pos: usize, sched: &'a [u64], k: usize, kinds: u8, zeros: usize }
impl<'a> Read for Scripted<'a> {
    fn read(&mut self, out: &mut [u8]) -> io::Result<usize> {
        let a = self.sched.get(self.k).copied();
        self.k += 1;
        let remaining = self.data.len() - self.pos;
        let n = match a {
            Some(0) => {
                self.zeros += 1;
                let wb = match self.kinds { b'w' => true, b'a' => self.zeros % 2 == 0, _ => false };
                return Err(io::Error::new(if wb { io::ErrorKind::WouldBlock } else { io::ErrorKind::TimedOut }, "scripted"));
            }
            Some(a) => (a.min(usize::MAX as u64) as usize).min(out.len()).min(remaining),
            None => out.len().min(remaining),
        };
        out[..n].copy_from_slice(&self.data[self.pos..self.pos + n]);
        self.pos += n;
        Ok(n)
    }
}

fn final_class(e: &ChainGangError) -> String {
    match e {
        ChainGangError::IoError(e) => format!("Io{:?}", e.kind()),
        other => err_class(other).trim_start_matches("err:").to_string(),
    }
}

fn render(m: &Message, magic: [u8; 4]) -> String {
    if let Message::Other(s) = m { return format!("?{}/-", hex::encode(s.as_bytes())); }
    let mut v = Vec::new();
    if m.write(&mut v, magic).is_err() || v.len() < 24 { return "unwritable/-".into(); }
    let name: String = v[4..16].iter().take_while(|b| **b != 0).map(|b| *b as char).collect();
    let tag = sha256d(&v[24..]);
    format!("{}/{}", name, hex::encode(&tag.0[4..12]))
}

/// The receive loop of `Peer::connect_internal` (src/peer/peer.rs lines 281-335), reader logic
/// only: the `connected` flag test (295-297), `handle_message` (307-311) and the publication to
/// the `messages` subject (313-316) are replaced by pushing to `out`.
fn recv_loop(inner: &mut dyn Read, magic: [u8; 4], max_passes: u64) -> (Vec<Message>, String) {
    let mut out = Vec::new();
    let mut partial: Option<MessageHeader> = None;                       // 281
    let mut tcp_reader = AtomicReader::new(inner);                       // 285
    let mut passes: u64 = 0;
    loop {                                                               // 287
        passes += 1;
        // the model proves termination within sched + stream + #messages + 1 passes (C11_terminates);
        // a run that needs many times more is reported as a hang instead of spinning
        if passes > max_passes { return (out, "hang".into()); }
        let message = match &partial {                                   // 288-291
            Some(header) => Message::read_partial(&mut tcp_reader, header),
            None => Message::read(&mut tcp_reader, magic),
        };
        match message {                                                  // 299
            Ok(message) => {
                if let Message::Partial(header) = message {              // 301-302
                    partial = Some(header);
                } else {
                    partial = None;                                      // 305
                    out.push(message);                                   // 313-316
                }
            }
            Err(e) => {                                                  // 319
                if let ChainGangError::IoError(ref e) = e {              // 321-328
                    if e.kind() == io::ErrorKind::TimedOut || e.kind() == io::ErrorKind::WouldBlock {
                        continue;
                    }
                }
                return (out, final_class(&e));                           // 330-332
            }
        }
    }
}

fn outcome(msgs: &[Message], fin: &str, magic: [u8; 4]) -> String {
    let items: Vec<String> = msgs.iter().map(|m| render(m, magic)).collect();
    format!("{}:{}:{}", fin, msgs.len(), if items.is_empty() { "-".to_string() } else { items.join(",") })
}

pub fn exec(op: &str, a: &[&str]) -> Option<String> {
    match op {
        "c11.recv" => {
            if a.len() != 4 { return Some("bad-request".into()); }
            let mg = unhexd(a[0]);
            if mg.len() != 4 { return Some("bad-request".into()); }
            let magic = [mg[0], mg[1], mg[2], mg[3]];
            let stream = unhexd(a[1]);
            let sched = parse_sched(a[2]);
            let kinds = a[3].as_bytes()[0];
            let mut rd = Scripted { data: &stream, pos: 0, sched: &sched, k: 0, kinds, zeros: 0 };
            let (msgs, fin) = recv_loop(&mut rd, magic, 10 * (stream.len() as u64 + sched.len() as u64) + 1000);
            Some(outcome(&msgs, &fin, magic))
        }
        "c11.reads" => {
            if a.len() != 4 { return Some("bad-request".into()); }
            let stream = unhexd(a[0]);
            let sched = parse_sched(a[1]);
            let kinds = a[2].as_bytes()[0];
            let sizes = list_u64(a[3]);
            let mut rd = Scripted { data: &stream, pos: 0, sched: &sched, k: 0, kinds, zeros: 0 };
            let mut ar = AtomicReader::new(&mut rd);
            let mut res: Vec<String> = Vec::new();
            for n in sizes {
                let mut buf = vec![0u8; n as usize];
                res.push(match ar.read(&mut buf) {
                    Ok(k) if k == buf.len() => format!("F{}", hex::encode(&buf)),
                    Ok(k) => format!("short{}", k),
                    Err(e) => match e.kind() {
                        io::ErrorKind::TimedOut | io::ErrorKind::WouldBlock => "T".into(),
                        io::ErrorKind::NotConnected => "D".into(),
                        k => format!("E{:?}", k),
                    },
                });
            }
            Some(format!("ok:{}", if res.is_empty() { "-".to_string() } else { res.join(",") }))
        }
        _ => None,
    }
}

// ------------------------------------------------------------------------------------------------
// generators
// ------------------------------------------------------------------------------------------------

fn h256(r: &mut Rng) -> Hash256 { let mut a = [0u8; 32]; for b in a.iter_mut() { *b = r.byte(); } Hash256(a) }
fn node_addr(r: &mut Rng) -> NodeAddr {
    let mut ip = [0u8; 16]; for b in ip.iter_mut() { *b = r.byte(); }
    NodeAddr { services: r.next(), ip: Ipv6Addr::from(ip), port: r.next() as u16 }
}
fn block_header(r: &mut Rng) -> BlockHeader {
    BlockHeader { version: r.next() as u32, prev_hash: h256(r), merkle_root: h256(r), timestamp: r.next() as u32, bits: r.next() as u32, nonce: r.next() as u32 }
}
fn tx(r: &mut Rng, script_len: usize) -> Tx {
    Tx { version: r.next() as u32,
         inputs: (0..r.range(1, 2)).map(|_| TxIn { prev_output: OutPoint { hash: h256(r), index: r.next() as u32 }, unlock_script: Script(r.bytes(script_len)), sequence: r.next() as u32 }).collect(),
         outputs: (0..r.range(1, 2)).map(|_| TxOut { satoshis: r.below(100_000) as i64, lock_script: Script({ let n = r.below(40) as usize; r.bytes(n) }) }).collect(),
         lock_time: r.next() as u32 }
}
fn inv(r: &mut Rng, n: u64) -> Inv { Inv { objects: (0..n).map(|_| InvVect { obj_type: r.below(4) as u32, hash: h256(r) }).collect() } }

/// a frame on the wire: either a message of the crate serialised by the crate, or an unknown command
fn frame_bytes(cmd: &[u8; 12], payload: &[u8], magic: [u8; 4]) -> Vec<u8> {
    let ck = sha256d(payload);
    let mut v = Vec::with_capacity(24 + payload.len());
    v.extend_from_slice(&magic); v.extend_from_slice(cmd);
    v.extend_from_slice(&(payload.len() as u32).to_le_bytes()); v.extend_from_slice(&ck.0[..4]); v.extend_from_slice(payload);
    v
}
fn cmd12(s: &[u8]) -> [u8; 12] { let mut c = [0u8; 12]; c[..s.len()].copy_from_slice(s); c }

#[derive(Clone, Copy, PartialEq)]
enum Cat { Bare, Small, Big, Unknown }

fn gen_frame(r: &mut Rng, cat: Cat, magic: [u8; 4]) -> Vec<u8> {
    let m = match cat {
        Cat::Bare => match r.below(6) { 0 => Message::Verack, 1 => Message::SendHeaders, 2 => Message::GetAddr, 3 => Message::Mempool, 4 => Message::FilterClear, _ => Message::SendAddrV2 },
        Cat::Small => match r.below(9) {
            0 => Message::Ping(Ping { nonce: r.next() }), 1 => Message::Pong(Ping { nonce: r.next() }),
            2 => Message::FeeFilter(FeeFilter { minfee: r.next() }), 3 => Message::SendCmpct(SendCmpct { enable: r.byte(), version: r.next() }),
            4 => { let n = r.range(0, 3); Message::Inv(inv(r, n)) }, 5 => { let n = r.range(1, 3); Message::GetData(inv(r, n)) }, 6 => { let n = r.range(1, 2); Message::NotFound(inv(r, n)) },
            7 => Message::Addr(Addr { addrs: (0..r.range(0, 3)).map(|_| NodeAddrEx { last_connected_time: r.next() as u32, addr: node_addr(r) }).collect() }),
            _ => Message::Tx(tx(r, 20)),
        },
        Cat::Big => match r.below(5) {
            0 => { let n = r.range(1500, 9000) as usize; Message::Tx(tx(r, n)) },
            1 => Message::Headers(Headers { headers: (0..r.range(30, 140)).map(|_| block_header(r)).collect() }),
            2 => Message::Addr(Addr { addrs: (0..r.range(100, 400)).map(|_| NodeAddrEx { last_connected_time: r.next() as u32, addr: node_addr(r) }).collect() }),
            3 => { let n = r.range(80, 300); Message::Inv(inv(r, n)) },
            _ => Message::Block(Block { header: block_header(r), txns: (0..r.range(0, 2)).map(|_| tx(r, 1200)).collect() }),
        },
        Cat::Unknown => {
            let names: [&[u8]; 5] = [b"foobar", b"alert", b"x", b"zzzzzzzzzzzz", b"caf\xc3\xa9"];
            let mut c = cmd12(names[r.below(5) as usize]);
            if r.chance(1, 8) { c[r.below(12) as usize] = 0x80 | r.byte(); }      // not UTF-8 → "Unknown"
            let n = match r.below(4) { 0 => 0, 1 => r.range(1, 8), 2 => r.range(9, 300), _ => r.range(1000, 4000) } as usize;
            return frame_bytes(&c, &r.bytes(n), magic);
        }
    };
    let mut v = Vec::new();
    m.write(&mut v, magic).expect("serialise");
    v
}

fn gen_stream(r: &mut Rng, n: usize, allow_big: bool, magic: [u8; 4]) -> (Vec<u8>, Vec<usize>) {
    let mut s = Vec::new();
    let mut bounds = vec![0usize];
    for _ in 0..n {
        let cat = match r.below(10) { 0..=2 => Cat::Bare, 3..=5 => Cat::Small, 6..=7 => if allow_big { Cat::Big } else { Cat::Small }, _ => Cat::Unknown };
        s.extend(gen_frame(r, cat, magic));
        bounds.push(s.len());
    }
    (s, bounds)
}

/// A transport that delivers the stream in fragments ending at the cut points, with `t` read
/// timeouts injected at a cut; records what every inner read call returned — which is the per-call
/// schedule that reproduces this delivery.
struct FragRecorder<'a> { data: &'a [u8], pos: usize, cuts: Vec<(usize, u8)>, rec: Vec<u64> }
impl<'a> Read for FragRecorder<'a> {
    fn read(&mut self, out: &mut [u8]) -> io::Result<usize> {
        if let Some(c) = self.cuts.iter_mut().find(|c| c.0 == self.pos && c.1 > 0) {
            c.1 -= 1; self.rec.push(0);
            return Err(io::Error::new(io::ErrorKind::TimedOut, "cut"));
        }
        if self.pos >= self.data.len() { self.rec.push(1); return Ok(0); }
        let next = self.cuts.iter().map(|c| c.0).filter(|c| *c > self.pos).min().unwrap_or(self.data.len()).min(self.data.len());
        let n = out.len().min(next - self.pos);
        out[..n].copy_from_slice(&self.data[self.pos..self.pos + n]);
        self.pos += n; self.rec.push(n as u64);
        Ok(n)
    }
}
fn schedule_for_cuts(stream: &[u8], cuts: &[(usize, u8)], magic: [u8; 4]) -> Vec<u64> {
    let mut f = FragRecorder { data: stream, pos: 0, cuts: cuts.to_vec(), rec: Vec::new() };
    let budget = 4 * stream.len() as u64 + 16 * cuts.len() as u64 + 64;
    let _ = recv_loop(&mut f, magic, budget);
    f.rec
}

fn req(magic: [u8; 4], stream: &[u8], sched: &[u64], kinds: char) -> String {
    format!("c11.recv {} {} {} {}", hex::encode(magic), hexd(stream), fmt_sched(sched), kinds)
}
fn kinds_of(r: &mut Rng) -> char { *r.pick(&['t', 'w', 'a']) }

fn random_sched(r: &mut Rng, len: usize, style: u64) -> Vec<u64> {
    // enough entries that the stream is usually delivered inside the schedule; whatever is left
    // after the schedule arrives unrestricted
    let n = match style { 0 => len / 2 + 4, 1 => len + 8, _ => (len / 40 + 6).min(400) };
    (0..n).map(|_| match style {
        0 => { let x = r.below(10); if x < 3 { 0 } else if x < 7 { r.range(1, 3) } else { r.range(1, 40) } }       // dense, small
        1 => { if r.chance(1, 5) { 0 } else { 1 } }                                                                // single bytes and timeouts
        _ => { let x = r.below(10); if x < 2 { 0 } else if x < 5 { r.range(1, 30) } else if x < 8 { r.range(20, 700) } else { r.range(500, 6000) } }
    }).collect()
}

fn corrupt(r: &mut Rng, s: &mut Vec<u8>, bounds: &[usize]) {
    let k = r.below((bounds.len() - 1) as u64) as usize;
    let (a, b) = (bounds[k], bounds[k + 1]);
    match r.below(6) {
        0 => { let p = a + r.below(4) as usize; s[p] ^= 1 << r.below(8); }                                  // bad magic
        1 => { let v = MAX_PAYLOAD_SIZE + 1 + r.below(1000) as u32; s[a + 16..a + 20].copy_from_slice(&v.to_le_bytes()); }  // oversize
        2 => { s[a + 16..a + 20].copy_from_slice(&u32::MAX.to_le_bytes()); }                                // oversize, extreme
        3 => { let p = a + 20 + r.below(4) as usize; s[p] ^= 1 << r.below(8); }                             // checksum field (ignored for payload-less commands)
        4 => { if b - a > 24 { let p = a + 24 + r.below((b - a - 24) as u64) as usize; s[p] ^= 1 << r.below(8); } else { s[a + 16] = 1 + r.byte() % 5; } }  // payload bit / length of a payload-less command
        _ => { let v = (b - a - 24) as u32 + 1 + r.below(3) as u32; s[a + 16..a + 20].copy_from_slice(&v.to_le_bytes()); }                        // length too long by a few bytes
    }
}

pub fn gen(tier: &str, rng: &mut Rng, out: &mut Vec<String>) {
    let thorough = tier == "thorough";
    // (f) end to end: the real receive loop of connect_internal (peer.rs) over a loopback socket, payloads arriving in many
    // paced fragments (c12.session requests; everything else in this file drives a line-for-line copy of that loop)
    crate::c12::gen_fragmented(&mut rng.fork(), out, if thorough { 200 } else { 30 });
    let magic = MAGIC;
    let ser = |m: Message| { let mut v = Vec::new(); m.write(&mut v, magic).unwrap(); v };

    // ---- (a) short streams: every placement of 1, 2 and 3 cuts, timeouts at the cuts ----
    let mut shorts: Vec<Vec<u8>> = Vec::new();
    { let mut s = ser(Message::Verack); s.extend(ser(Message::Verack)); shorts.push(s); }                                   // 48
    { let mut s = ser(Message::Verack); s.extend(ser(Message::Ping(Ping { nonce: rng.next() }))); shorts.push(s); }         // 56
    { let mut s = ser(Message::FeeFilter(FeeFilter { minfee: rng.next() })); s.extend(ser(Message::SendHeaders)); shorts.push(s); } // 56
    { let mut s = frame_bytes(&cmd12(b"foobar"), &rng.bytes(3), magic); s.extend(ser(Message::GetAddr)); shorts.push(s); }  // 51
    { let mut s = ser(Message::Mempool); s.extend(ser(Message::Verack)); s.extend_from_slice(&ser(Message::Pong(Ping { nonce: rng.next() }))[..10]); shorts.push(s); } // 58, truncated
    { let mut s = ser(Message::Ping(Ping { nonce: rng.next() })); s.extend_from_slice(&ser(Message::Ping(Ping { nonce: rng.next() }))[..27]); shorts.push(s); }        // 59, truncated in payload
    for (si, s) in shorts.iter().enumerate() {
        let n = s.len();
        for c1 in 1..n {
            for t in 0..3u8 { out.push(req(magic, s, &schedule_for_cuts(s, &[(c1, t)], magic), kinds_of(rng))); }
        }
        for c1 in 1..n { for c2 in c1 + 1..n {
            let t = (rng.below(3) as u8, rng.below(3) as u8);
            out.push(req(magic, s, &schedule_for_cuts(s, &[(c1, t.0), (c2, t.1)], magic), kinds_of(rng)));
        } }
        // three cuts: exhaustive on streams 0, 1, 3 (48, 56, 51 bytes) in quick / on all six in thorough; sampled otherwise
        if thorough || si == 0 || si == 1 || si == 3 {
            for c1 in 1..n { for c2 in c1 + 1..n { for c3 in c2 + 1..n {
                let t = rng.below(27);
                out.push(req(magic, s, &schedule_for_cuts(s, &[(c1, (t % 3) as u8), (c2, (t / 3 % 3) as u8), (c3, (t / 9) as u8)], magic), kinds_of(rng)));
            } } }
        } else {
            for _ in 0..1500 {
                let mut c: Vec<usize> = (0..3).map(|_| rng.range(1, n as u64 - 1) as usize).collect(); c.sort(); c.dedup();
                let cuts: Vec<(usize, u8)> = c.iter().map(|p| (*p, rng.below(3) as u8)).collect();
                out.push(req(magic, s, &schedule_for_cuts(s, &cuts, magic), kinds_of(rng)));
            }
        }
    }

    // ---- (b) end of stream at every offset ----
    let mut eof_streams = shorts[1..4].to_vec();
    // (kept under 400 bytes: every offset x three deliveries, the single-byte one quadratic in the model)
    let small_stream = |rng: &mut Rng, n: usize| loop { let (s, _) = gen_stream(rng, n, false, magic); if s.len() <= 400 { return s; } };
    eof_streams.push(small_stream(rng, 4));
    if thorough { for _ in 0..6 { eof_streams.push(small_stream(rng, 5)); } }
    for s in &eof_streams {
        for k in 0..=s.len() {
            let t = &s[..k];
            out.push(req(magic, t, &[], 't'));
            out.push(req(magic, t, &vec![1u64; k], 't'));
            let st = rng.below(2);
            out.push(req(magic, t, &random_sched(rng, k, st), kinds_of(rng)));
        }
    }

    // ---- (c) random message sequences x schedule families ----
    let n_seq = if thorough { 3000 } else { 260 };
    for i in 0..n_seq {
        let big = i % 3 == 0;
        let cnt = rng.range(1, if big { 4 } else { 6 }) as usize;
        let (mut s, bounds) = gen_stream(rng, cnt, big, magic);
        if rng.chance(1, 4) { let cut = rng.range(1, 40u64.min(s.len() as u64 - 2)) as usize; s.truncate(s.len() - cut); }   // keeps >= 2 bytes   // end of stream mid-message
        let len = s.len();
        out.push(req(magic, &s, &[], 't'));
        if len <= 2500 || i % 40 == 0 { out.push(req(magic, &s, &vec![1u64; len + 2], 't')); }                       // all single bytes
        for style in 0..3 { out.push(req(magic, &s, &random_sched(rng, len, style), kinds_of(rng))); }
        // random dense cut sets with timeouts, as fragments
        let ncuts = rng.range(4, 40) as usize;
        let mut c: Vec<usize> = (0..ncuts).map(|_| rng.range(1, len as u64 - 1) as usize).collect(); c.sort(); c.dedup();
        // favour cuts around frame boundaries and inside headers
        for b in &bounds { if rng.chance(1, 2) { let p = (*b + rng.below(30) as usize).min(len - 1).max(1); if !c.contains(&p) { c.push(p); } } }
        c.sort();
        let cuts: Vec<(usize, u8)> = c.iter().map(|p| (*p, if rng.chance(1, 3) { rng.range(1, 3) as u8 } else { 0 })).collect();
        out.push(req(magic, &s, &schedule_for_cuts(&s, &cuts, magic), kinds_of(rng)));
    }

    // ---- (d) corrupted streams: the loop must stop with an error and emit nothing from the bad frame on ----
    let n_bad = if thorough { 3000 } else { 400 };
    for i in 0..n_bad {
        let cnt = rng.range(1, 5) as usize;
        let (mut s, bounds) = gen_stream(rng, cnt, i % 5 == 0, magic);
        corrupt(rng, &mut s, &bounds);
        if rng.chance(1, 6) { let cut = rng.range(1, 30u64.min(s.len() as u64 - 1)) as usize; s.truncate(s.len() - cut); }
        let len = s.len();
        out.push(req(magic, &s, &[], 't'));
        let st = rng.below(3);
        out.push(req(magic, &s, &random_sched(rng, len, st), kinds_of(rng)));
        if len <= 1500 { out.push(req(magic, &s, &vec![1u64; len + 2], 'w')); }
    }
    // ---- (e) the reader alone: arbitrary request sizes (growing, shrinking, zero) under random schedules ----
    for _ in 0..(if thorough { 20000 } else { 3000 }) {
        let n = rng.range(0, 90) as usize;
        let stream = rng.bytes(n);
        let st = rng.below(2);
        let sched = if rng.chance(1, 6) { Vec::new() } else { random_sched(rng, n, st) };
        let sizes: Vec<u64> = (0..rng.range(1, 40)).map(|_| match rng.below(8) { 0 => 0, 1 => 1, 2 => 24, 3 => rng.range(25, 100), _ => rng.range(1, 24) }).collect();
        out.push(format!("c11.reads {} {} {} {}", hexd(&stream), fmt_sched(&sched), kinds_of(rng), fmt_list(&sizes)));
    }

    // other networks' magic, random bytes
    for _ in 0..(if thorough { 300 } else { 40 }) {
        let m2 = [rng.byte(), rng.byte(), rng.byte(), rng.byte()];
        let (s, _) = gen_stream(rng, 2, false, m2);
        let st = rng.below(3);
        out.push(req(m2, &s, &random_sched(rng, s.len(), st), kinds_of(rng)));
        out.push(req(magic, &s, &random_sched(rng, s.len(), st), kinds_of(rng)));
        let n = rng.range(0, 80) as usize; let junk = rng.bytes(n);
        out.push(req(magic, &junk, &random_sched(rng, n, 0), kinds_of(rng)));
    }
}

use chain_gang::util::ChainGangError;
use std::panic::{catch_unwind, AssertUnwindSafe};

pub fn hexd(b: &[u8]) -> String { if b.is_empty() { "-".to_string() } else { hex::encode(b) } }
pub fn unhexd(s: &str) -> Vec<u8> { if s == "-" { vec![] } else { hex::decode(s).expect("bad hex in request") } }

/// Canonical error class: the enum variant only (messages are free text and not compared).
pub fn err_class(e: &ChainGangError) -> String {
    let d = format!("{:?}", e);
    let v: String = d.chars().take_while(|c| c.is_alphanumeric()).collect();
    format!("err:{}", v)
}

pub fn io_err_class(e: &std::io::Error) -> String { format!("err:Io{:?}", e.kind()) }

/// Runs `f` catching panics; a panic is the outcome `panic:<location>`.
pub fn guarded<F: FnOnce() -> String>(f: F) -> String {
    match catch_unwind(AssertUnwindSafe(f)) {
        Ok(s) => s,
        Err(_) => {
            let loc = crate::LAST_PANIC.with(|l| l.borrow().clone());
            format!("panic:{}", loc)
        }
    }
}

pub fn list_u64(s: &str) -> Vec<u64> {
    if s == "-" { vec![] } else { s.split(',').map(|x| x.parse().expect("bad number list")).collect() }
}
pub fn fmt_list<T: std::fmt::Display>(v: &[T]) -> String {
    if v.is_empty() { "-".to_string() } else { v.iter().map(|x| x.to_string()).collect::<Vec<_>>().join(",") }
}

/// a reader over a byte slice that returns at most `k` bytes per `read` call, alternating with single bytes: what a socket or
/// a pipe may do; a decoder built on `read_exact` cannot tell the difference
pub struct FragReader<'a> { pub data: &'a [u8], pub pos: usize, pub k: usize, pub calls: usize }
impl<'a> std::io::Read for FragReader<'a> {
    fn read(&mut self, buf: &mut [u8]) -> std::io::Result<usize> {
        let lim = if self.calls % 2 == 0 { self.k.max(1) } else { 1 };
        self.calls += 1;
        let n = buf.len().min(lim).min(self.data.len() - self.pos);
        buf[..n].copy_from_slice(&self.data[self.pos..self.pos + n]);
        self.pos += n;
        Ok(n)
    }
}

/// a writer that accepts at most `k` bytes per `write` call, alternating with single bytes (a socket with a small send buffer);
/// an encoder built on `write_all` cannot tell the difference
pub struct FragWriter { pub buf: Vec<u8>, pub k: usize, pub calls: usize }
impl std::io::Write for FragWriter {
    fn write(&mut self, b: &[u8]) -> std::io::Result<usize> {
        let lim = if self.calls % 2 == 0 { self.k.max(1) } else { 1 };
        self.calls += 1;
        let n = b.len().min(lim);
        self.buf.extend_from_slice(&b[..n]);
        Ok(n)
    }
    fn flush(&mut self) -> std::io::Result<()> { Ok(()) }
}

//! C08 — BIP-32 derivation: `derive_extended_key`, `derive_private_key`, `derive_public_key`,
//! `extended_public_key` on 78-byte extended keys.
//!
//! ops (keys are 156 hex digits, paths are the hex of their UTF-8 bytes, `-` = empty path):
//!   c08.path    <master> <path>             -> ok:<child hex> | err:<Variant>
//!   c08.vec     <master> <path> <expected>  -> same; the driver's spec side also compares with <expected>
//!   c08.priv    <key> <index>               -> derive_private_key(index)
//!   c08.pub     <key> <index>               -> derive_public_key(index)
//!   c08.xpub    <key>                       -> extended_public_key()
//!   c08.commute <key> <index>               -> ok:<N(CKDpriv(k,i))>:<CKDpub(N(k),i)> | err:<a>/<b>
use crate::rng::Rng;
use crate::util::*;
use chain_gang::util::ChainGangError;
use chain_gang::wallet::{derive_extended_key, ExtendedKey};

pub fn tables(_w: &mut dyn std::io::Write) {}

fn key(s: &str) -> ExtendedKey {
    let v = unhexd(s);
    assert!(v.len() == 78, "bad key length in request");
    let mut a = [0u8; 78];
    a.copy_from_slice(&v);
    ExtendedKey(a)
}

fn res(r: Result<ExtendedKey, ChainGangError>) -> String {
    match r { Ok(k) => format!("ok:{}", hex::encode(k.0)), Err(e) => err_class(&e) }
}

fn cls(r: &Result<ExtendedKey, ChainGangError>) -> String {
    match r { Ok(_) => "ok".into(), Err(e) => err_class(e)[4..].to_string() }
}

pub fn exec(op: &str, a: &[&str]) -> Option<String> {
    match op {
        "c08.path" | "c08.vec" => {
            let m = key(a[0]);
            let path = String::from_utf8(unhexd(a[1])).expect("path must be UTF-8");
            Some(res(derive_extended_key(&m, &path)))
        }
        "c08.priv" => { let k = key(a[0]); let i: u32 = a[1].parse().unwrap(); Some(res(k.derive_private_key(i))) }
        "c08.pub" => { let k = key(a[0]); let i: u32 = a[1].parse().unwrap(); Some(res(k.derive_public_key(i))) }
        "c08.xpub" => { let k = key(a[0]); Some(res(k.extended_public_key())) }
        "c08.commute" => {
            let k = key(a[0]); let i: u32 = a[1].parse().unwrap();
            let x = k.derive_private_key(i).and_then(|c| c.extended_public_key());
            let y = k.extended_public_key().and_then(|p| p.derive_public_key(i));
            Some(match (&x, &y) {
                (Ok(x), Ok(y)) => format!("ok:{}:{}", hex::encode(x.0), hex::encode(y.0)),
                _ => format!("err:{}/{}", cls(&x), cls(&y)),
            })
        }
        _ => None,
    }
}

// ------------------------------------------------------------------------------------------------
// generators

const N: [u8; 32] = [
    0xff, 0xff, 0xff, 0xff, 0xff, 0xff, 0xff, 0xff, 0xff, 0xff, 0xff, 0xff, 0xff, 0xff, 0xff, 0xfe,
    0xba, 0xae, 0xdc, 0xe6, 0xaf, 0x48, 0xa0, 0x3b, 0xbf, 0xd2, 0x5e, 0x8c, 0xd0, 0x36, 0x41, 0x41,
];
const VERSIONS: [(u32, u32); 2] = [(0x0488ADE4, 0x0488B21E), (0x04358394, 0x043587CF)]; // (private, public) main, test

/// compressed public key of a secret scalar, computed with k256 directly (not with the code under test)
fn pubkey_of(sk: &[u8]) -> Option<Vec<u8>> {
    k256::SecretKey::from_slice(sk).ok().map(|s| s.public_key().to_sec1_bytes().to_vec())
}

fn layout(ver: u32, depth: u8, fp: &[u8], idx: u32, cc: &[u8], keydata: &[u8]) -> Vec<u8> {
    let mut v = Vec::with_capacity(78);
    v.extend_from_slice(&ver.to_be_bytes()); v.push(depth); v.extend_from_slice(fp);
    v.extend_from_slice(&idx.to_be_bytes()); v.extend_from_slice(cc); v.extend_from_slice(keydata);
    assert!(v.len() == 78);
    v
}

/// (private serialization, public serialization) of a random well-formed extended key
fn gen_key(rng: &mut Rng, deep: bool) -> (Vec<u8>, Vec<u8>) {
    let (vprv, vpub) = VERSIONS[rng.below(2) as usize];
    let depth: u8 = if deep { *rng.pick(&[249u8, 250, 252, 253, 254, 255]) } else if rng.chance(4, 5) { 0 } else { rng.range(1, 200) as u8 };
    let (fp, idx) = if depth == 0 { (vec![0u8; 4], 0u32) } else { (rng.bytes(4), pool_index(rng)) };
    let cc = rng.bytes(32);
    let sk = match rng.below(24) {
        0 => { let mut s = vec![0u8; 32]; s[31] = 1; s }                                  // 1
        1 => { let mut s = N.to_vec(); s[31] -= 1; s }                                     // n-1
        2 => { let mut s = vec![0u8; 32]; s[rng.below(32) as usize] = rng.range(1, 255) as u8; s }
        _ => loop { let s = rng.bytes(32); if pubkey_of(&s).is_some() { break s; } },
    };
    let pk = pubkey_of(&sk).unwrap();
    let mut kd = vec![0u8]; kd.extend_from_slice(&sk);
    (layout(vprv, depth, &fp, idx, &cc, &kd), layout(vpub, depth, &fp, idx, &cc, &pk))
}

/// serializations that are not valid BIP-32 extended keys
fn gen_bad_key(rng: &mut Rng) -> Vec<u8> {
    let (prv, pubk) = gen_key(rng, false);
    let mut k = if rng.chance(1, 2) { prv.clone() } else { pubk.clone() };
    match rng.below(9) {
        0 => { k[rng.below(4) as usize] ^= 1 << rng.below(8); }                          // unknown version
        1 => { k = prv; for b in k[46..].iter_mut() { *b = 0; } }                          // private key 0
        2 => { k = prv; k[46..].copy_from_slice(&N); }                                     // private key n
        3 => { k = prv; k[46..].copy_from_slice(&N); k[77] += 1; }                         // n+1
        4 => { k = prv; for b in k[46..].iter_mut() { *b = 0xff; } }                       // 2^256-1
        5 => { k = prv; k[45] = rng.range(1, 255) as u8; }                                 // non-zero pad byte
        6 => { k = pubk; k[45] = *rng.pick(&[0u8, 1, 4, 5, 6, 7, 0xff]); }                 // bad SEC1 tag
        7 => { k = pubk; loop { let x = rng.bytes(32); let mut t = vec![2u8]; t.extend_from_slice(&x);
                                 if k256::PublicKey::from_sec1_bytes(&t).is_err() { k[46..].copy_from_slice(&x); break; } } } // x not on the curve
        _ => { k = pubk; for b in k[46..].iter_mut() { *b = 0xff; } }                      // x >= p
    }
    k
}

fn pool_index(rng: &mut Rng) -> u32 {
    match rng.below(16) {
        0 => 0, 1 => 1, 2 => 2, 3 => 0x7fff_fffe, 4 => 0x7fff_ffff, 5 => 0x8000_0000, 6 => 0x8000_0001,
        7 => 0xffff_fffe, 8 => 0xffff_ffff, 9 => 1_000_000_000, 10 | 11 => rng.range(0, 50) as u32,
        12 | 13 => rng.range(0, 0x7fff_ffff) as u32, _ => rng.next() as u32,
    }
}
fn pool_normal(rng: &mut Rng) -> u32 {
    match rng.below(8) { 0 => 0, 1 => 1, 2 => 0x7fff_fffe, 3 => 0x7fff_ffff, 4 | 5 => rng.range(0, 50) as u32, _ => rng.range(0, 0x7fff_ffff) as u32 }
}
const MARKERS: [&str; 3] = ["'", "h", "H"];

/// a component that denotes child number `i` (hardened numbers written with a marker 3 times out of 4)
fn comp_for(rng: &mut Rng, i: u32) -> String {
    let lead = if rng.chance(1, 12) { "0".repeat(rng.range(1, 3) as usize) } else { String::new() };
    if i >= 0x8000_0000 && rng.chance(3, 4) { format!("{}{}{}", lead, i - 0x8000_0000, rng.pick(&MARKERS)) } else { format!("{}{}", lead, i) }
}

fn push_path(out: &mut Vec<String>, master: &[u8], path: &str) {
    out.push(format!("c08.path {} {}", hexd(master), hexd(path.as_bytes())));
}

const MALFORMED: [&str; 64] = [
    "", "/", "m/", "M/", "/m", "/M", "m//1", "M//1", "m/1/", "M/1/", "m/1//2", "x", "x/1", "mm/1", "Mm", "mM/1", " m/1", "m /1",
    "m/ 1", "m/1 ", "n/1", "m\\1", "m/1\\2", "m.1", "m/1''", "m/1hh", "m/1HH", "m/1'h", "m/1h'", "m/1H'", "m/1Hh", "m/1hH", "m/1'H",
    "M/1''", "m/'", "m/h", "m/H", "m/h1", "m/'1", "m/+1", "M/+1", "m/+1'", "m/-1", "m/-0", "m/+", "m/-", "m/++1", "m/0x10", "m/1e3",
    "m/1.0", "m/1_000", "m/4294967296", "m/99999999999999999999", "m/2147483648'", "m/2147483648h", "m/4294967295H", "M/2147483648",
    "M/0'", "M/0h", "M/4294967295", "m/\u{661}", "m/1\u{2019}", "m/1\u{0}", "\u{ff4d}/1",
];

fn mutate(rng: &mut Rng, s: &str) -> String {
    let mut c: Vec<char> = s.chars().collect();
    let extra = ['/', '\'', 'h', 'H', 'm', 'M', '+', '-', ' ', '0', '9', 'x', '\u{e9}'];
    match rng.below(4) {
        0 if !c.is_empty() => { let p = rng.below(c.len() as u64) as usize; c.remove(p); }
        1 => { let p = rng.below(c.len() as u64 + 1) as usize; c.insert(p, *rng.pick(&extra)); }
        2 if !c.is_empty() => { let p = rng.below(c.len() as u64) as usize; let ch = c[p]; c.insert(p, ch); }
        _ => { if !c.is_empty() { let p = rng.below(c.len() as u64) as usize; c[p] = *rng.pick(&extra); } }
    }
    c.into_iter().collect()
}

pub fn gen(tier: &str, rng: &mut Rng, out: &mut Vec<String>) {
    let thorough = tier == "thorough";
    let scale = if thorough { 20 } else { 2 };

    // (a) private derivation m/…: depth 0-6, child numbers from the boundary pool, all three markers
    for _ in 0..(330 * scale) {
        let (prv, _) = gen_key(rng, false);
        let depth = rng.range(0, 6);
        let path = (0..depth).fold("m".to_string(), |p, _| { let i = pool_index(rng); format!("{}/{}", p, comp_for(rng, i)) });
        push_path(out, &prv, &path);
    }
    // (b) public derivation M/…: from public and from private masters, non-hardened numbers
    for j in 0..(330 * scale) {
        let (prv, pubk) = gen_key(rng, false);
        let depth = rng.range(0, 6);
        let path = (0..depth).fold("M".to_string(), |p, _| { let i = pool_normal(rng); format!("{}/{}", p, comp_for(rng, i)) });
        push_path(out, if j % 2 == 0 { &pubk } else { &prv }, &path);
        // the same numbers through the private branch: N(m/…) must equal M/… (checked by the spec on each side)
        if j % 6 == 1 { push_path(out, &prv, &path.replacen('M', "m", 1)); }
    }
    // (b') the SAME key material under another header, one request after the other (requests of a run are executed in order in
    //      one process): another network's version bytes, another depth, another parent fingerprint — the child must carry its
    //      own parent's network and depth + 1, whatever was derived before
    for j in 0..(40 * scale) {
        let (prv, pubk) = gen_key(rng, false);
        let i = pool_normal(rng);
        let path = format!("M/{}", comp_for(rng, i));
        for (mi, master) in [&pubk, &prv].iter().enumerate() {
            if mi == 1 && j % 2 == 0 { continue; }
            let mut other = (*master).clone();
            let cur = u32::from_be_bytes([other[0], other[1], other[2], other[3]]);
            let nv: u32 = match cur { 0x0488ADE4 => 0x04358394, 0x04358394 => 0x0488ADE4, 0x0488B21E => 0x043587CF, _ => 0x0488B21E };
            other[..4].copy_from_slice(&nv.to_be_bytes());
            let mut deeper = (*master).clone(); deeper[4] = deeper[4].wrapping_add(3) % 250;
            push_path(out, master, &path); push_path(out, &other, &path); push_path(out, &deeper, &path); push_path(out, master, &path);
        }
    }
    // (c) rejections: hardened from public, m from a public master, marked numbers >= 2^31, numbers >= 2^32
    for j in 0..(120 * scale) {
        let (prv, pubk) = gen_key(rng, false);
        let depth = rng.range(1, 6);
        let bad_at = rng.below(depth);
        let (pfx, master) = match j % 4 { 0 => ("M", &pubk), 1 => ("M", &prv), 2 => ("m", &pubk), _ => ("m", &prv) };
        let mut path = pfx.to_string();
        for d in 0..depth {
            let c = if d == bad_at {
                match rng.below(5) {
                    0 => format!("{}{}", rng.range(0x8000_0000, 0xffff_ffff), rng.pick(&MARKERS)),
                    1 => format!("{}", rng.range(0x1_0000_0000, 0x1_0000_0003)),
                    2 => format!("{}{}", rng.range(0, 0x7fff_ffff), rng.pick(&MARKERS)),
                    3 => format!("{}", rng.range(0x8000_0000, 0xffff_ffff)),
                    _ => format!("{}{}{}", rng.range(0, 9), rng.pick(&MARKERS), rng.pick(&MARKERS)),
                }
            } else { let i = pool_normal(rng); comp_for(rng, i) };
            path = format!("{}/{}", path, c);
        }
        push_path(out, master, &path);
    }
    // (d) depth: masters at depth 249..255, paths that do and do not run past 255
    for j in 0..(60 * scale) {
        let (prv, pubk) = gen_key(rng, true);
        let depth = rng.range(0, 6);
        let private = j % 2 == 0;
        let path = (0..depth).fold((if private { "m" } else { "M" }).to_string(), |p, _| {
            let i = if private { pool_index(rng) } else { pool_normal(rng) }; format!("{}/{}", p, comp_for(rng, i)) });
        push_path(out, if private || j % 4 == 1 { &prv } else { &pubk }, &path);
    }
    // (e) malformed paths: the fixed list against a private and a public master, plus mutations of valid paths
    {
        let (prv, pubk) = gen_key(rng, false);
        for p in MALFORMED.iter() { push_path(out, &prv, p); if rng.chance(1, 3) { push_path(out, &pubk, p); } }
        for _ in 0..(150 * scale) {
            let (prv, pubk) = gen_key(rng, false);
            let depth = rng.range(0, 4);
            let private = rng.chance(1, 2);
            let base = (0..depth).fold((if private { "m" } else { "M" }).to_string(), |p, _| {
                let i = if private { pool_index(rng) } else { pool_normal(rng) }; format!("{}/{}", p, comp_for(rng, i)) });
            let mut p = mutate(rng, &base);
            if rng.chance(1, 4) { p = mutate(rng, &p); }
            push_path(out, if private || rng.chance(1, 2) { &prv } else { &pubk }, &p);
        }
    }
    // (f) single steps and the commutation square
    for _ in 0..(120 * scale) {
        let deep = rng.chance(1, 10);
        let (prv, pubk) = gen_key(rng, deep);
        let i = pool_index(rng);
        out.push(format!("c08.priv {} {}", hexd(&prv), i));
        let j = if rng.chance(4, 5) { pool_normal(rng) } else { i };
        out.push(format!("c08.pub {} {}", hexd(if rng.chance(2, 3) { &pubk } else { &prv }), j));
        out.push(format!("c08.commute {} {}", hexd(&prv), if rng.chance(9, 10) { pool_normal(rng) } else { i }));
        if rng.chance(1, 2) { out.push(format!("c08.xpub {}", hexd(if rng.chance(3, 4) { &prv } else { &pubk }))); }
        if rng.chance(1, 6) { out.push(format!("c08.priv {} {}", hexd(&pubk), i)); }
    }
    // (g) serializations that are not valid extended keys (outside the property: must not panic, model must agree)
    for _ in 0..(60 * scale) {
        let k = gen_bad_key(rng);
        match rng.below(5) {
            0 => out.push(format!("c08.priv {} {}", hexd(&k), pool_index(rng))),
            1 => out.push(format!("c08.pub {} {}", hexd(&k), pool_normal(rng))),
            2 => out.push(format!("c08.xpub {}", hexd(&k))),
            3 => { let i = pool_normal(rng); push_path(out, &k, &format!("{}/{}", rng.pick(&["m", "M"]), i)); }
            _ => { let p: &str = *rng.pick(&["m", "M"]); push_path(out, &k, p) }
        }
    }
}

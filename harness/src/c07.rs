//! C07 — script evaluation is total: any bytes, any checker, no panic or hang.
use crate::rng::Rng;
use crate::scriptgen::*;
use crate::util::*;
use chain_gang::messages::{OutPoint, Tx, TxIn, TxOut};
use chain_gang::script::{Script, TransactionChecker, TransactionlessChecker, ZChecker};
use chain_gang::transaction::sighash::SigHashCache;
use chain_gang::util::{Hash256, Serializable};
use std::io::Cursor;

pub fn tables(_w: &mut dyn std::io::Write) {}

fn outcome(r: Result<(chain_gang::script::Stack, chain_gang::script::Stack, Option<usize>), chain_gang::util::ChainGangError>) -> String {
    match r { Ok((st, alt, pos)) => format!("ok:{}|{}|{}", show_stack(&st), show_stack(&alt), show_opt(pos)), Err(e) => err_class(&e) }
}

pub fn exec(op: &str, a: &[&str]) -> Option<String> {
    match op {
        // scripted checker: the model predicts the exact outcome
        "c07.eval" => Some(exec_eval(a)),
        "c07.verdict" => Some(exec_verdict(a)),
        // c07.txeval <script> <flags> <start> <break> <stack> <alt> <tx hex> <input> <satoshis> <require forkid 0/1>
        "c07.txeval" => {
            let script = Script(unhexd(a[0])); let flags: u32 = a[1].parse().unwrap();
            let tx = Tx::read(&mut Cursor::new(unhexd(a[6]))).expect("request carries a well-formed tx");
            let mut cache = SigHashCache::new();
            let mut chk = TransactionChecker { tx: &tx, sig_hash_cache: &mut cache, input: a[7].parse().unwrap(), satoshis: a[8].parse().unwrap(), require_sighash_forkid: a[9] == "1" };
            Some(outcome(script.eval_with_stack(&mut chk, flags, parse_opt(a[2]), parse_opt(a[3]), parse_stack(a[4]), parse_stack(a[5]))))
        }
        // c07.zeval <script> <flags> <start> <break> <stack> <alt> <z hex 32>
        "c07.zeval" => {
            let script = Script(unhexd(a[0])); let flags: u32 = a[1].parse().unwrap();
            let mut z = [0u8; 32]; z.copy_from_slice(&unhexd(a[6]));
            let mut chk = ZChecker { z: Hash256(z) };
            Some(outcome(script.eval_with_stack(&mut chk, flags, parse_opt(a[2]), parse_opt(a[3]), parse_stack(a[4]), parse_stack(a[5]))))
        }
        // c07.tleval <script> <flags> <start> <break> <stack> <alt>
        "c07.tleval" => {
            let script = Script(unhexd(a[0])); let flags: u32 = a[1].parse().unwrap();
            let mut chk = TransactionlessChecker {};
            Some(outcome(script.eval_with_stack(&mut chk, flags, parse_opt(a[2]), parse_opt(a[3]), parse_stack(a[4]), parse_stack(a[5]))))
        }
        _ => None,
    }
}

/// NUM2BIN (0x80) on an uncontrolled size operand can allocate 2 GiB: hostile byte strings are
/// filtered by the harness memory cap — byte 0x80 is replaced unless the generator placed it.
fn memcap(mut s: Vec<u8>) -> Vec<u8> { for b in s.iter_mut() { if *b == 128 { *b = 129; } } s }

pub fn hostile_script(rng: &mut Rng) -> Vec<u8> {
    match rng.below(8) {
        0 => { let n = rng.range(0, 40) as usize; memcap(rng.bytes(n)) }
        1 => { // truncated push / PUSHDATA length past the end
            let mut s = gen_script(rng, 4).script;
            match rng.below(4) { 0 => { s.push(rng.range(1, 75) as u8); let k = rng.range(0, 3) as usize; s.extend(rng.bytes(k)); }
                1 => { s.push(76); if rng.chance(2, 3) { s.push(rng.range(1, 255) as u8); { let k = rng.below(3) as usize; s.extend(rng.bytes(k)); } } }
                2 => { s.push(77); let k = rng.below(4) as usize; s.extend(memcap(rng.bytes(k))); }
                _ => { s.push(78); let k = rng.below(7) as usize; s.extend(memcap(rng.bytes(k))); } }
            s
        }
        2 | 3 => { // grammar script then mutated
            let mut s = { let n_ = rng.range(1, 10) as usize; gen_script(rng, n_) }.script;
            for _ in 0..rng.range(1, 3) { if s.is_empty() { break; } let p = rng.below(s.len() as u64) as usize;
                match rng.below(4) { 0 => { s[p] = rng.byte(); if s[p] == 128 { s[p] = 127; } } 1 => { s.remove(p); } 2 => { let b = rng.byte(); s.insert(p, if b == 128 { 127 } else { b }); } _ => { s.truncate(p); } } }
            s
        }
        4 => { // code separators / checksig bytes inside and outside push data
            let mut s = vec![];
            for _ in 0..rng.range(1, 8) { match rng.below(6) { 0 => s.push(0xab), 1 => s.push(0xac), 2 => s.push(0xad), 3 => { let d: Vec<u8> = (0..rng.range(1, 6)).map(|_| *rng.pick(&[0xabu8, 0xac, 0x51, 0x00])).collect(); push_with(&mut s, &d, 0); }, 4 => s.push(0x51), _ => { let k = rng.range(1, 4) as usize; let d = rng.bytes(k); push_with(&mut s, &d, 0); } } }
            s
        }
        5 => { // flow-control soup
            (0..rng.range(1, 12)).map(|_| *rng.pick(&[99u8, 100, 103, 104, 81, 0, 106, 105, 0x51, 0x61])).collect()
        }
        _ => { let n_ = rng.range(1, 12) as usize; gen_script(rng, n_) }.script,
    }
}

fn rand_stack(rng: &mut Rng) -> String {
    match rng.below(4) { 0 => "~".into(), 1 => "=".into(), _ => { let n = rng.range(1, 5); (0..n).map(|_| hexd(&operand(rng))).collect::<Vec<_>>().join(",") } }
}

pub fn gen_tx(rng: &mut Rng) -> (Tx, usize) {
    let nin = rng.range(1, 4) as usize; let nout = rng.range(0, 4) as usize;
    gen_tx_shape(rng, nin, nout)
}

pub fn gen_tx_shape(rng: &mut Rng, nin: usize, nout: usize) -> (Tx, usize) {
    let inputs = (0..nin).map(|_| TxIn { prev_output: OutPoint { hash: Hash256(rng.bytes(32).try_into().unwrap()), index: rng.next() as u32 }, unlock_script: Script({ let k = rng.below(6) as usize; rng.bytes(k) }), sequence: *rng.pick(&[0u32, 1, 0xffffffff, 0xfffffffe, 1 << 22, 1 << 31]) }).collect();
    let outputs = (0..nout).map(|_| TxOut { satoshis: *rng.pick(&[0i64, 1, -1, i64::MAX, i64::MIN, 21_000_000_0000_0000]), lock_script: Script({ let k = rng.below(30) as usize; rng.bytes(k) }) }).collect();
    let tx = Tx { version: *rng.pick(&[0u32, 1, 2, 0xffffffff]), inputs, outputs, lock_time: *rng.pick(&[0u32, 1, 499_999_999, 500_000_000, 0xffffffff]) };
    let idx = rng.below(nin as u64) as usize;
    (tx, idx)
}

pub fn gen(tier: &str, rng: &mut Rng, out: &mut Vec<String>) {
    let thorough = tier == "thorough";
    let n = if thorough { 150_000 } else { 12_000 };
    for k in 0..n {
        let s = hostile_script(rng);
        let g_or = format!("{}:{}:{}", (0..rng.below(4)).map(|_| *rng.pick(&['t', 'f', 'e'])).collect::<String>(), rng.pick(&['t', 'f', 'e', 'p']), rng.pick(&['t', 'f', 'e', 'p']));
        let orc = if g_or.starts_with(':') { format!("-{}", g_or) } else { g_or };
        let flags = match rng.below(4) { 0 => 1, 1 => rng.next() as u32, _ => 0 };
        let len = s.len();
        let (start, brk) = match rng.below(3) { 0 => (None, None), 1 => (Some(rng.below(len as u64 + 2) as usize), None), _ => (Some(rng.below(len as u64 + 2) as usize), Some(rng.below(len as u64 + 2) as usize)) };
        let (st, alt) = (rand_stack(rng), rand_stack(rng));
        match k % 6 {
            0 | 1 | 2 => out.push(eval_req("c07", &s, flags, start, brk, &st, &alt, &orc)),
            3 => { let (tx, idx) = gen_tx(rng); let mut b = vec![]; tx.write(&mut b).unwrap();
                   out.push(format!("c07.txeval {} {} {} {} {} {} {} {} {} {}", hexd(&s), flags, show_opt(start), show_opt(brk), st, alt, hexd(&b), idx, rng.pick(&[0i64, 1, -1, i64::MAX, 5000]), rng.below(2))); }
            4 => out.push(format!("c07.zeval {} {} {} {} {} {} {}", hexd(&s), flags, show_opt(start), show_opt(brk), st, alt, hexd(&rng.bytes(32)))),
            _ => out.push(format!("c07.tleval {} {} {} {} {} {}", hexd(&s), flags, show_opt(start), show_opt(brk), st, alt)),
        }
    }
    // every opcode behind every pair of boundary operands (empty, -0, 1, -1, 2, 127, 128, i32::MAX as 4 bytes, a 5-byte item):
    // the integer edges of the index / count / size opcodes (PICK, ROLL, SPLIT, NUM2BIN, shifts, multisig counts)
    {
        let bp = crate::scriptgen::boundary_pushes();
        for op in 79u8..=185 {
            for a in bp.iter() { for b in bp.iter() {
                // OP_NUM2BIN with a size of 2^31-1 would build a 2 GiB item (the harness memory cap drops such cases anyway)
                if op == 0x80 && b.len() == 4 { continue; }
                let mut sc = vec![0x51, 0x52];
                crate::scriptgen::push_with(&mut sc, a, 0); crate::scriptgen::push_with(&mut sc, b, 0); sc.push(op);
                out.push(eval_req("c07", &sc, if op % 2 == 0 { 0 } else { 1 }, None, None, "~", "~", "t:t:t"));
            } }
        }
    }
    // integer literals of the interpreter sources (and their neighbours) as operands of every index / count / size opcode
    {
        let vals = crate::harvest::ints(&["script/interpreter.rs", "script/stack.rs", "script/mod.rs", "script/checker.rs", "transaction/sighash.rs"], 1 << 32);
        for v in vals.iter() {
            let n = crate::scriptgen::enc_num(*v as i128);
            for op in [0x79u8, 0x7a, 0x7f, 0x98, 0x99, 0xae, 0xaf, 0xb1, 0xb2, 0x76, 0x82] {
                // (OP_NUM2BIN is left out: a harvested size would simply allocate that many bytes)
                let mut sc = vec![0x51, 0x52, 0x02, 0xaa, 0xbb];
                crate::scriptgen::push_with(&mut sc, &n, 0); sc.push(op);
                out.push(eval_req("c07", &sc, (*v % 2) as u32, None, None, "~", "~", "t:t:t"));
            }
        }
    }
    // the same literals as the NUMBER OF ITEMS of a caller-supplied initial main / alt stack (the interpreter pre-sizes its stacks)
    {
        let vals = crate::harvest::ints(&["script/interpreter.rs", "script/stack.rs", "script/mod.rs"], 1200);
        for v in vals.iter() {
            let n = *v as usize; if n == 0 || n > 1200 { continue; }
            let st = vec!["01"; n].join(",");
            out.push(eval_req("c07", &[0x74], 0, None, None, &st, "~", "t:t:t"));          // OP_DEPTH
            out.push(eval_req("c07", &[0x6c], 1, None, None, "~", &st, "t:t:t"));          // OP_FROMALTSTACK
            if n <= 300 { out.push(eval_req("c07", &[0x51], 0, None, None, &st, &st, "t:t:t")); }
        }
    }
    // all start/break offsets in [0, len+1] for short scripts
    let m = if thorough { 400 } else { 60 };
    for _ in 0..m {
        let s = hostile_script(rng); if s.len() > 14 { continue; }
        for st in 0..=s.len() + 1 { for br in 0..=s.len() + 1 {
            out.push(eval_req("c07", &s, 0, Some(st), Some(br), "~", "~", "tf:t:t"));
        } }
    }
    // every sighash type byte x every relation between the input index and the number of outputs (the
    // signature hash is computed before signature and key are parsed, so neither needs to be well formed)
    for ty in 0u32..=255 {
        for (nin, nout, idx) in [(1usize, 0usize, 0usize), (1, 1, 0), (2, 1, 1), (2, 1, 0), (3, 1, 2), (3, 2, 2), (3, 3, 2), (4, 2, 3)] {
            if !thorough && ty % 64 > 3 && (ty + nin as u32) % 7 != 0 { continue; }
            let (tx, _) = gen_tx_shape(rng, nin, nout); let mut b = vec![]; tx.write(&mut b).unwrap();
            let sig = vec![0x30, 0x06, 0x02, 0x01, 0x01, 0x02, 0x01, 0x01, ty as u8];
            let mut s = vec![]; push_with(&mut s, &sig, 0); push_with(&mut s, &[0x02; 33], 0); s.push(if ty % 2 == 0 { 0xac } else { 0xad });
            for fk in 0..2 { out.push(format!("c07.txeval {} {} ~ ~ ~ ~ {} {} {} {}", hexd(&s), ty % 2, hexd(&b), idx, rng.pick(&[0i64, 1000, -1, i64::MAX]), fk)); }
            // the same through CHECKMULTISIG
            let mut m = vec![0x00]; push_with(&mut m, &sig, 0); m.push(0x51); push_with(&mut m, &[0x03; 33], 0); m.push(0x51); m.push(0xae);
            out.push(format!("c07.txeval {} 0 ~ ~ ~ ~ {} {} 1000 1", hexd(&m), hexd(&b), idx));
        }
    }
    // two signature checks in ONE script against the real transaction checker (they share its SigHashCache): every ordered pair
    // of sighash types, well-formed DER (r = s = 1) under a valid public key, so that the first check answers false and the
    // evaluation goes on to the second
    {
        let g: Vec<u8> = hex::decode("0279be667ef9dcbbac55a06295ce870b07029bfcdb2dce28d959f2815b16f81798").unwrap();
        let types = [0x41u8, 0x42, 0x43, 0xc1, 0xc2, 0xc3, 0x01, 0x02, 0x03, 0x81, 0x82, 0x83];
        for t1 in types { for t2 in types {
            let mut sc = vec![];
            for (k, ty) in [t1, t2].iter().enumerate() {
                let sig = vec![0x30, 0x06, 0x02, 0x01, 0x01, 0x02, 0x01, 0x01, *ty];
                push_with(&mut sc, &sig, 0); push_with(&mut sc, &g, 0); sc.push(0xac);
                if k == 0 { sc.push(0x75); }
            }
            for (nin, nout, idx) in [(2usize, 2usize, 0usize), (2, 2, 1), (3, 1, 2)] {
                let (tx, _) = gen_tx_shape(rng, nin, nout); let mut b = vec![]; tx.write(&mut b).unwrap();
                out.push(format!("c07.txeval {} 0 ~ ~ ~ ~ {} {} 1000 {}", hexd(&sc), hexd(&b), idx, (t1 as usize + idx) % 2));
            }
        } }
    }
    // signature-check opcodes against the real transaction checker: separators without checksig bytes etc.
    let pats: [&[u8]; 8] = [&[0x51, 0x51, 0xad, 0xab], &[0x51, 0x51, 0xab, 0xad], &[0xab, 0x51, 0x51, 0xac], &[0x51, 0x51, 0xab, 0xab, 0xac], &[0x00, 0x00, 0x00, 0xab, 0xae], &[0x51, 0x51, 0xab, 0x01, 0xac, 0xad], &[0x02, 0xab, 0xab, 0x51, 0xad], &[0x01, 0x41, 0x51, 0xab, 0xad]];
    for p in pats.iter() { for fk in 0..2 { for flags in 0..2 {
        let (tx, idx) = gen_tx(rng); let mut b = vec![]; tx.write(&mut b).unwrap();
        out.push(format!("c07.txeval {} {} ~ ~ ~ ~ {} {} 1000 {}", hexd(p), flags, hexd(&b), idx, fk));
    } } }
}

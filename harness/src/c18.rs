//! C18 — Python bindings are a faithful, panic-free view of the Rust core: the RUST side.
//!
//! Every request is executed through the Rust API the way `src/python/*.rs` is meant to route it
//! (checker choice, argument order, fresh sighash cache, id decoding, key import) and answered with a
//! canonical outcome string; the python stage of `checks/C18.py` runs the SAME request lines through the
//! built extension and must get the SAME string.  All ordinary errors are canonicalised to `err`
//! (Python: any `Exception`); a Rust panic is `panic:<site>` (Python: `PanicException`).
//! An argument that has no Rust representation at all (negative offset, index >= 2^64, amount >= 2^63 …)
//! is `err` here: the conversion at the Python boundary must raise an ordinary exception.
//!
//!   c18.eval    <script> <brk> <z>                       py_script_eval             ok:<stack>|<alt>|<pos>
//!   c18.evalps  <script> <start> <brk> <z> <stack> <alt> py_script_eval_pystack     ok:<stack>|<alt>|<pos>
//!   c18.ctx     <script> <start> <limit> <z>             Context(..).evaluate()     ok:<0|1>|<stack>|<alt>
//!   c18.decnum <item> | c18.decelem <item> | c18.decstack <items> | c18.pushint <int> | c18.utilenc <int>
//!   c18.utildec <item> | c18.appint <int> | c18.appbig <int>       stack / script number conversion
//!   c18.tx      <version> <locktime> <ins> <outs>        Tx(..).id()/hash()/serialize()/is_coinbase()
//!   c18.txparse <bytes> | c18.txparsehex <text>          Tx.parse / Tx.parse_hexstr
//!   c18.sighash <h|hk|p|pk> <tx: 4 fields> <n> <code> <k> <satoshis> <flags>
//!   c18.validate <tx: 4 fields> <utxo tx hex;…>          Tx.validate(utxos)
//!   c18.wbytes <net> <key> | c18.whex <net> <text> | c18.wint <net> <int> | c18.wwif <text>   wallet import + every export
//!   c18.sign    <s|sf|sk> <key> <index> <flags> <k> <prev tx: 4 fields> <tx: 4 fields>
//!   c18.pk2addr, c18.p2pkh, c18.h160, c18.h256, c18.wif2b, c18.b2wif, c18.a2pkh, c18.script, c18.scriptparse
//!   c18.parsestr <text>, c18.ill <n>, c18.wifpw …        python-only (no Rust counterpart): `skip` / `err`
//!
//! Field syntax: `~` = None, `-` = empty bytes/text, text = hex of its UTF-8 bytes, stacks as in scriptgen;
//! ins = comma list of `idtext:index:unlockhex:sequence`, outs = comma list of `satoshis:lockhex`.
use crate::c07::{gen_tx, hostile_script};
use crate::rng::Rng;
use crate::scriptgen::*;
use crate::util::*;
use chain_gang::messages::{OutPoint, Tx, TxIn, TxOut};
use chain_gang::network::Network;
use chain_gang::script::stack::{decode_bigint, decode_bool, decode_num, decode_number_combined, encode_bigint, encode_num};
use chain_gang::script::{Script, Stack, TransactionlessChecker, ZChecker, NO_FLAGS};
use chain_gang::transaction::generate_signature;
use chain_gang::transaction::sighash::{sig_hash_preimage, sig_hash_preimage_checksig_index, SigHashCache};
use chain_gang::util::verif_hooks::{var_int_read, var_int_write};
use chain_gang::util::{hash160, sha256d, ChainGangError, Hash256, Serializable};
use chain_gang::wallet::base58_checksum::{decode_base58_checksum, encode_base58_checksum};
use chain_gang::wallet::wallet::{p2pkh_script, wif_to_network_and_private_key};
use chain_gang::wallet::{create_sighash, create_sighash_checksig_index, public_key_to_address, Wallet, MAIN_PRIVATE_KEY, TEST_PRIVATE_KEY};
use k256::ecdsa::SigningKey;
use linked_hash_map::LinkedHashMap;
use num_bigint::{BigInt, Sign};
use std::collections::{HashMap, HashSet};
use std::io::{Cursor, Read};

pub fn tables(_w: &mut dyn std::io::Write) {}

const ERR: &str = "err";
type R<T> = Result<T, ()>; // Err(()) = an ordinary exception on the Python side

fn e<T>(r: Result<T, ChainGangError>) -> R<T> { r.map_err(|_| ()) }
fn text(h: &str) -> R<String> { String::from_utf8(unhexd(h)).map_err(|_| ()) }
fn int(s: &str) -> R<i128> { s.parse::<i128>().map_err(|_| ()) } // beyond i128 = beyond every Rust argument type
fn usize_of(s: &str) -> R<usize> { let v = int(s)?; if v < 0 || v > u64::MAX as i128 { Err(()) } else { Ok(v as usize) } }
fn u32_of(s: &str) -> R<u32> { let v = int(s)?; if v < 0 || v > u32::MAX as i128 { Err(()) } else { Ok(v as u32) } }
fn u8_of(s: &str) -> R<u8> { let v = int(s)?; if v < 0 || v > 255 { Err(()) } else { Ok(v as u8) } }
fn i64_of(s: &str) -> R<i64> { let v = int(s)?; if v < i64::MIN as i128 || v > i64::MAX as i128 { Err(()) } else { Ok(v as i64) } }
fn opt_usize(s: &str) -> R<Option<usize>> { if s == "~" { Ok(None) } else { usize_of(s).map(Some) } }
fn opt_bytes(s: &str) -> Option<Vec<u8>> { if s == "~" { None } else { Some(unhexd(s)) } }
fn big(s: &str) -> BigInt { s.parse::<BigInt>().expect("bad integer in request") }
fn done(r: R<String>) -> String { match r { Ok(s) => s, Err(()) => ERR.to_string() } }

// ------------------------------------------------------------------------------------------------
// script evaluation: the routing of py_script_eval / py_script_eval_pystack

fn route(script: &[u8], start: Option<usize>, brk: Option<usize>, z: &Option<Vec<u8>>, stack: Option<Stack>, alt: Option<Stack>) -> R<(Stack, Stack, Option<usize>)> {
    let mut s = Script::new();
    s.append_slice(script);
    match z {
        Some(zb) => {
            let za: [u8; 32] = zb.as_slice().try_into().map_err(|_| ())?;
            e(s.eval_with_stack(&mut ZChecker { z: Hash256(za) }, NO_FLAGS, start, brk, stack, alt))
        }
        None => e(s.eval_with_stack(&mut TransactionlessChecker {}, NO_FLAGS, start, brk, stack, alt)),
    }
}
fn show_eval(r: R<(Stack, Stack, Option<usize>)>) -> String {
    match r { Ok((st, alt, pos)) => format!("ok:{}|{}|{}", show_stack(&st), show_stack(&alt), show_opt(pos)), Err(()) => ERR.into() }
}

// ------------------------------------------------------------------------------------------------
// transactions built from Python-level fields

struct PyIn { id: String, index: u32, script: Vec<u8>, seq: u32 }
struct PyTxF { version: u32, ins: Vec<PyIn>, outs: Vec<(i64, Vec<u8>)>, locktime: u32 }

fn split_list(s: &str, sep: char) -> Vec<&str> { if s == "-" { vec![] } else { s.split(sep).collect() } }

fn parse_pytx(a: &[&str]) -> R<PyTxF> {
    let version = u32_of(a[0])?; let locktime = u32_of(a[1])?;
    let mut ins = vec![];
    for s in split_list(a[2], ',') { let f: Vec<&str> = s.split(':').collect(); ins.push(PyIn { id: text(f[0])?, index: u32_of(f[1])?, script: unhexd(f[2]), seq: u32_of(f[3])? }); }
    let mut outs = vec![];
    for s in split_list(a[3], ',') { let f: Vec<&str> = s.split(':').collect(); outs.push((i64_of(f[0])?, unhexd(f[1]))); }
    Ok(PyTxF { version, ins, outs, locktime })
}
/// PyTx::as_tx (repaired): a prev_tx string that is not 64 hex digits is an error
fn as_tx(t: &PyTxF) -> R<Tx> {
    let mut inputs = vec![];
    for i in &t.ins { inputs.push(TxIn { prev_output: OutPoint { hash: e(Hash256::decode(&i.id))?, index: i.index }, unlock_script: Script(i.script.clone()), sequence: i.seq }); }
    Ok(Tx { version: t.version, inputs, outputs: t.outs.iter().map(|(a, s)| TxOut { satoshis: *a, lock_script: Script(s.clone()) }).collect(), lock_time: t.locktime })
}
fn ser(tx: &Tx) -> Vec<u8> { let mut v = vec![]; tx.write(&mut v).expect("writing to a Vec"); v }
fn show_tx_fields(tx: &Tx) -> String {
    let ins: Vec<String> = tx.inputs.iter().map(|i| format!("{}:{}:{}:{}", i.prev_output.hash.encode(), i.prev_output.index, hexd(&i.unlock_script.0), i.sequence)).collect();
    let outs: Vec<String> = tx.outputs.iter().map(|o| format!("{}:{}", o.satoshis, hexd(&o.lock_script.0))).collect();
    format!("{};{};{};{}", tx.version, tx.lock_time, if ins.is_empty() { "-".into() } else { ins.join(",") }, if outs.is_empty() { "-".into() } else { outs.join(",") })
}
fn read_tx(b: &[u8]) -> R<Tx> { Tx::read(&mut Cursor::new(b)).map_err(|_| ()) }

// ------------------------------------------------------------------------------------------------
// wallet

fn network(name: &str) -> R<Network> {
    match name { "BSV_Mainnet" => Ok(Network::BSV_Mainnet), "BSV_Testnet" => Ok(Network::BSV_Testnet), "BSV_STN" => Ok(Network::BSV_STN), "BTC_Mainnet" => Ok(Network::BTC_Mainnet),
        "BTC_Testnet" => Ok(Network::BTC_Testnet), "BCH_Mainnet" => Ok(Network::BCH_Mainnet), "BCH_Testnet" => Ok(Network::BCH_Testnet), _ => Err(()) }
}
fn wallet_of(net: Network, key: &[u8]) -> R<Wallet> {
    if key.len() != 32 { return Err(()); }
    let sk = SigningKey::from_slice(key).map_err(|_| ())?;
    let pk = *sk.verifying_key();
    Ok(Wallet::new(sk, pk, net))
}
fn wif_of(prefix: u8, key: &[u8]) -> String { let mut d = vec![prefix]; d.extend_from_slice(key); d.push(1); encode_base58_checksum(&d) }
/// every export of the Python Wallet object, `!` where the call raises
fn export(w: &Wallet) -> String {
    let key: Vec<u8> = w.private_key.to_bytes().to_vec();
    let wif = match w.network { Network::BSV_Mainnet => wif_of(MAIN_PRIVATE_KEY, &key), Network::BSV_Testnet => wif_of(TEST_PRIVATE_KEY, &key), _ => "!".into() };
    let addr = w.get_address().unwrap_or_else(|_| "!".into());
    format!("ok:{}|{}|{}|{}|{}|{}|{}", wif, hex::encode(w.public_key_serialize()), addr, hex::encode(&key), BigInt::from_bytes_be(Sign::Plus, &key), w.network, hexd(&w.get_locking_script().0))
}

// ------------------------------------------------------------------------------------------------
// Script.append_integer / append_big_integer (the glue's own encoding; no core counterpart)

fn small_int_form(v: &BigInt) -> Option<Vec<u8>> {
    if *v == BigInt::from(-1) { return Some(vec![0x4f]); }
    if *v == BigInt::from(0) { return Some(vec![0x00]); }
    if *v >= BigInt::from(1) && *v <= BigInt::from(16) { return Some(vec![0x50 + v.to_u32_digits().1[0] as u8]); }
    if *v >= BigInt::from(17) && *v <= BigInt::from(75) { return Some(vec![1, v.to_u32_digits().1[0] as u8]); }
    None
}

pub fn exec(op: &str, a: &[&str]) -> Option<String> {
    Some(match op {
        "c18.eval" => show_eval((|| { let brk = opt_usize(a[1])?; route(&unhexd(a[0]), None, brk, &opt_bytes(a[2]), None, None) })()),
        "c18.evalps" => show_eval((|| {
            let (start, brk) = (opt_usize(a[1])?, opt_usize(a[2])?);
            let (st, alt, pos) = route(&unhexd(a[0]), start, brk, &opt_bytes(a[3]), parse_stack(a[4]), parse_stack(a[5]))?;
            Ok((st, alt, brk.and(pos))) // the program counter is reported only when break_at was given
        })()),
        "c18.ctx" => {
            // Context.__init__: `x if x else None`; evaluate_core: any exception -> False, stacks untouched;
            // verdict: the core's rule, decode_bool of the TOP item
            let r: R<(Stack, Stack, Option<usize>)> = (|| {
                let start = opt_usize(a[1])?.filter(|v| *v != 0); let limit = opt_usize(a[2])?.filter(|v| *v != 0);
                let z = opt_bytes(a[3]).filter(|z| !z.is_empty());
                route(&unhexd(a[0]), start, limit, &z, Some(vec![]), Some(vec![]))
            })();
            match r { Ok((st, alt, _)) => format!("ok:{}|{}|{}", if !st.is_empty() && decode_bool(&st[st.len() - 1]) { 1 } else { 0 }, show_stack(&st), show_stack(&alt)), Err(()) => "ok:0|=|=".into() }
        }
        "c18.decnum" => done(e(decode_num(&unhexd(a[0]))).map(|v| format!("ok:{}", v))),
        "c18.decelem" => done(e(decode_number_combined(&unhexd(a[0]))).map(|v| format!("ok:{}", v))),
        "c18.decstack" => done((|| { let mut v = vec![]; for i in parse_stack(a[0]).unwrap_or_default() { v.push(e(decode_num(&i))?); } Ok(format!("ok:{}", fmt_list(&v))) })()),
        // c18.stackseq <items> <ops>: a SEQUENCE of operations on one Stack object; observations (decode_element,
        // decode_stack, item access, size) must not change the stack — the reference keeps a plain Vec and pure decoders.
        // ops: d<i> decode_element(i) | D decode_stack | g<i> item i | s size | P<hex> push | O pop
        "c18.stackseq" => done((|| {
            let mut st: Vec<Vec<u8>> = parse_stack(a[0]).unwrap_or_default();
            let mut res: Vec<String> = vec![];
            for o in a[1].split(',') {
                let (k, arg) = o.split_at(1);
                match k {
                    "d" => { let i: usize = arg.parse().map_err(|_| ())?; let it = st.get(i).ok_or(())?; res.push(e(decode_number_combined(it))?.to_string()); }
                    "D" => { let mut v = vec![]; for it in st.iter() { v.push(e(decode_num(it))?.to_string()); } res.push(format!("[{}]", v.join(";"))); }
                    "g" => { let i: usize = arg.parse().map_err(|_| ())?; res.push(hexd(st.get(i).ok_or(())?)); }
                    "s" => res.push(st.len().to_string()),
                    "P" => st.push(unhexd(arg)),
                    "O" => { res.push(hexd(&st.pop().ok_or(())?)); }
                    _ => return Err(()),
                }
            }
            Ok(format!("ok:{}|{}", res.join(","), show_stack(&st)))
        })()),
        "c18.pushint" | "c18.utilenc" => format!("ok:{}", hexd(&encode_bigint(big(a[0])))),
        "c18.utildec" => { let mut b = unhexd(a[0]); format!("ok:{}", decode_bigint(&mut b)) }
        "c18.appint" => done((|| {
            let v = i64_of(a[0])?;
            if let Some(f) = small_int_form(&BigInt::from(v)) { return Ok(format!("ok:{}", hexd(&f))); }
            let mut b = e(encode_num(v))?; b.insert(0, b.len() as u8); Ok(format!("ok:{}", hexd(&b)))
        })()),
        "c18.appbig" => done((|| {
            let v = big(a[0]);
            if let Some(f) = small_int_form(&v) { return Ok(format!("ok:{}", hexd(&f))); }
            let mut b = encode_bigint(v); if b.len() > 255 { return Err(()); } b.insert(0, b.len() as u8); Ok(format!("ok:{}", hexd(&b)))
        })()),
        "c18.tx" => done((|| { let tx = as_tx(&parse_pytx(a)?)?; Ok(format!("ok:{}|{}|{}", tx.hash().encode(), hex::encode(ser(&tx)), tx.coinbase() as u8)) })()),
        "c18.txparse" => done((|| { let tx = read_tx(&unhexd(a[0]))?; Ok(format!("ok:{}|{}", show_tx_fields(&tx), hex::encode(ser(&tx)))) })()),
        "c18.txparsehex" => done((|| { let b = hex::decode(text(a[0])?).map_err(|_| ())?; let tx = read_tx(&b)?; Ok(format!("ok:{}|{}", show_tx_fields(&tx), hex::encode(ser(&tx)))) })()),
        "c18.sighash" => done((|| {
            let t = parse_pytx(&a[1..5])?;
            // the check index is an argument of the *_checksig_index functions only
            let k = if a[0] == "hk" || a[0] == "pk" { usize_of(a[7])? } else { 0 };
            let (n, code, sat, ty) = (usize_of(a[5])?, unhexd(a[6]), i64_of(a[8])?, u8_of(a[9])?);
            let tx = as_tx(&t)?;
            let mut cache = SigHashCache::new();
            let out: Vec<u8> = match a[0] {
                "h" => e(create_sighash(&tx, n, &Script(code), sat, ty))?.0.to_vec(),
                "hk" => e(create_sighash_checksig_index(&tx, n, &Script(code), k, sat, ty))?.0.to_vec(),
                "p" => e(sig_hash_preimage(&tx, n, &code, sat, ty, &mut cache))?,
                "pk" => e(sig_hash_preimage_checksig_index(&tx, n, &code, k, sat, ty, &mut cache))?,
                _ => panic!("bad sighash kind"),
            };
            Ok(format!("ok:{}", hexd(&out)))
        })()),
        "c18.validate" => done((|| {
            // PyTx::validate: outpoints looked up in the given transactions by hash, then Tx::validate(true, true, ..)
            let tx = as_tx(&parse_pytx(&a[0..4])?)?;
            if tx.coinbase() { return Err(()); }
            let mut by_hash: HashMap<Hash256, Tx> = HashMap::new();
            for h in split_list(a[4], ';') { let u = read_tx(&unhexd(h))?; by_hash.insert(u.hash(), u); }
            let mut utxos: LinkedHashMap<OutPoint, TxOut> = LinkedHashMap::new();
            for i in &tx.inputs {
                let u = by_hash.get(&i.prev_output.hash).ok_or(())?;
                let o = u.outputs.get(i.prev_output.index as usize).ok_or(())?;
                utxos.insert(i.prev_output.clone(), o.clone());
            }
            e(tx.validate(true, true, &utxos, &HashSet::new()))?;
            Ok("ok".into())
        })()),
        "c18.wbytes" => done((|| Ok(export(&wallet_of(network(&text(a[0])?)?, &unhexd(a[1]))?)))()),
        "c18.whex" => done((|| { let net = network(&text(a[0])?)?; let key = hex::decode(text(a[1])?).map_err(|_| ())?; Ok(export(&wallet_of(net, &key)?)) })()),
        "c18.wint" => done((|| {
            // wallet_from_int: the magnitude (the sign is dropped), at most 32 bytes, left-padded
            let net = network(&text(a[0])?)?;
            let mut m = big(a[1]).to_bytes_be().1;
            if m.len() > 32 { return Err(()); }
            while m.len() < 32 { m.insert(0, 0); }
            Ok(export(&wallet_of(net, &m)?))
        })()),
        "c18.wwif" => done((|| Ok(export(&e(Wallet::from_wif(&text(a[0])?))?)))()),
        "c18.sign" => done((|| {
            let w = wallet_of(Network::BSV_Testnet, &unhexd(a[1]))?;
            // sign_tx takes no flag byte, only sign_tx_sighash_checksig_index takes a check index
            let index = usize_of(a[2])?;
            let flags = if a[0] == "s" { 0x41 } else { u8_of(a[3])? };
            let k = if a[0] == "sk" { usize_of(a[4])? } else { 0 };
            let prev = as_tx(&parse_pytx(&a[5..9])?)?;
            let mut tx = as_tx(&parse_pytx(&a[9..13])?)?;
            match a[0] {
                "s" => e(w.sign_tx_input(&prev, &mut tx, index, 0x41))?,
                "sf" => e(w.sign_tx_input(&prev, &mut tx, index, flags))?,
                "sk" => e(w.sign_tx_input_checksig_index(&prev, &mut tx, index, flags, k))?,
                _ => panic!("bad sign kind"),
            }
            Ok(format!("ok:{}", hex::encode(ser(&tx))))
        })()),
        "c18.pk2addr" => done((|| { let net = match text(a[0])?.as_str() { "BSV_Mainnet" => Network::BSV_Mainnet, "BSV_Testnet" => Network::BSV_Testnet, _ => return Err(()) }; Ok(format!("ok:{}", e(public_key_to_address(&unhexd(a[1]), net))?)) })()),
        "c18.p2pkh" => format!("ok:{}", hexd(&p2pkh_script(&unhexd(a[0])).0)),
        "c18.h160" => format!("ok:{}", hex::encode(hash160(&unhexd(a[0])).0)),
        "c18.h256" => format!("ok:{}", hex::encode(sha256d(&unhexd(a[0])).0)),
        "c18.wif2b" => done((|| Ok(format!("ok:{}", hex::encode(e(wif_to_network_and_private_key(&text(a[0])?))?.1.to_bytes()))))()),
        "c18.b2wif" => done((|| { let p = match text(a[0])?.as_str() { "BSV_Mainnet" => MAIN_PRIVATE_KEY, "BSV_Testnet" => TEST_PRIVATE_KEY, _ => return Err(()) }; Ok(format!("ok:{}", wif_of(p, &unhexd(a[1])))) })()),
        "c18.a2pkh" => done((|| { let d = e(decode_base58_checksum(&text(a[0])?))?; if d.is_empty() { return Err(()); } Ok(format!("ok:{}", hexd(&d[1..]))) })()),
        "c18.script" => {
            let c = unhexd(a[0]); let mut s = vec![]; var_int_write(c.len() as u64, &mut s).unwrap(); s.extend_from_slice(&c);
            let p2pkh = c.len() == 25 && c[0] == 0x76 && c[1] == 0xa9 && c[23] == 0x88 && c[24] == 0xac;
            format!("ok:{}|{}|{}", hex::encode(&s), hexd(&c), p2pkh as u8)
        }
        "c18.scriptparse" => done((|| {
            let b = unhexd(a[0]); let mut c = Cursor::new(&b);
            let n = var_int_read(&mut c).map_err(|_| ())?;
            let rest = b.len() as u64 - c.position();
            if n > rest { return Err(()); }
            let mut s = vec![0u8; n as usize]; c.read_exact(&mut s).map_err(|_| ())?;
            Ok(format!("ok:{}", hexd(&s)))
        })()),
        // no Rust counterpart: the python stage only requires an ordinary outcome
        "c18.parsestr" | "c18.wifpw" => "skip".into(),
        // ill-typed argument table of the python stage: each entry must raise an ordinary exception
        "c18.ill" => ERR.into(),
        _ => return None,
    })
}

// ------------------------------------------------------------------------------------------------
// generators

fn thex(s: &str) -> String { hexd(s.as_bytes()) }
fn stack_str(rng: &mut Rng) -> String {
    match rng.below(4) { 0 => "~".into(), 1 => "=".into(), _ => { let n = rng.range(1, 4); (0..n).map(|_| hexd(&operand(rng))).collect::<Vec<_>>().join(",") } }
}
fn z_field(rng: &mut Rng) -> String {
    match rng.below(12) { 0 => "-".into(), 1 => hexd(&rng.bytes(31)), 2 => hexd(&rng.bytes(33)), _ => hexd(&rng.bytes(32)) }
}
fn opt_off(rng: &mut Rng, len: usize) -> String {
    match rng.below(5) { 0 => "~".into(), 1 => "0".into(), _ => rng.below(len as u64 + 2).to_string() }
}
const BAD_OFFS: [&str; 5] = ["-1", "18446744073709551616", "-9223372036854775809", "340282366920938463463374607431768211455", "18446744073709551615"];

fn tx_fields(tx: &Tx) -> String {
    let ins: Vec<String> = tx.inputs.iter().map(|i| format!("{}:{}:{}:{}", thex(&i.prev_output.hash.encode()), i.prev_output.index, hexd(&i.unlock_script.0), i.sequence)).collect();
    let outs: Vec<String> = tx.outputs.iter().map(|o| format!("{}:{}", o.satoshis, hexd(&o.lock_script.0))).collect();
    format!("{} {} {} {}", tx.version, tx.lock_time, if ins.is_empty() { "-".into() } else { ins.join(",") }, if outs.is_empty() { "-".into() } else { outs.join(",") })
}
/// transaction fields with ONE defect: a bad id string or an out-of-range number
fn broken_tx_fields(rng: &mut Rng, tx: &Tx) -> String {
    let good = tx_fields(tx);
    let f: Vec<&str> = good.split(' ').collect();
    let id0 = tx.inputs[0].prev_output.hash.encode();
    let bad_ids: Vec<String> = vec!["zz".into(), "".into(), "0".into(), id0[..62].to_string(), format!("{}00", id0), format!("{}g", &id0[..63]), id0[..63].to_string(), format!(" {}", &id0[..63]),
        format!("0x{}", &id0[..62]), "é".repeat(32), format!("{}\u{e9}", &id0[..62]), "00".repeat(31), id0.to_uppercase(),
        // exactly 64 BYTES with a multi-byte character at an odd offset / of three and four bytes, and a sign character
        format!("{}\u{e9}{}", &id0[..1], &id0[..61]), format!("\u{20ac}{}", &id0[..61]), format!("{}\u{1f600}{}", &id0[..3], &id0[..57]),
        format!("{}\u{e9}", &id0[..62]).chars().rev().collect::<String>(), format!("+f{}", &id0[..62]), format!("{}-1", &id0[..62])];
    let mut ins: Vec<String> = split_list(f[2], ',').iter().map(|s| s.to_string()).collect();
    let mut outs: Vec<String> = split_list(f[3], ',').iter().map(|s| s.to_string()).collect();
    let (mut ver, mut lt) = (f[0].to_string(), f[1].to_string());
    let k = rng.below(ins.len() as u64) as usize;
    let mut p: Vec<String> = ins[k].split(':').map(|s| s.to_string()).collect();
    match rng.below(9) {
        0 | 1 | 2 | 3 => { let b: &String = rng.pick(&bad_ids[..]); p[0] = thex(b); }
        4 => { p[1] = rng.pick(&["4294967296", "-1", "18446744073709551616"]).to_string(); }
        5 => { p[3] = rng.pick(&["4294967296", "-1"]).to_string(); }
        6 => { ver = rng.pick(&["4294967296", "-1", "-2147483648"]).to_string(); }
        7 => { lt = rng.pick(&["4294967296", "-1"]).to_string(); }
        _ => { if outs.is_empty() { outs.push("0:-".into()); } let j = rng.below(outs.len() as u64) as usize; let s = outs[j].split(':').nth(1).unwrap().to_string();
               outs[j] = format!("{}:{}", rng.pick(&["9223372036854775808", "-9223372036854775809", "18446744073709551615"]), s); }
    }
    ins[k] = p.join(":");
    format!("{} {} {} {}", ver, lt, ins.join(","), if outs.is_empty() { "-".into() } else { outs.join(",") })
}

fn key_pool(rng: &mut Rng) -> Vec<u8> {
    let n = hex::decode("fffffffffffffffffffffffffffffffebaaedce6af48a03bbfd25e8cd0364141").unwrap();
    let mut nm1 = n.clone(); nm1[31] = 0x40; let mut np1 = n.clone(); np1[31] = 0x42;
    match rng.below(14) {
        0 => vec![0; 32], 1 => n, 2 => nm1, 3 => np1, 4 => vec![0xff; 32], 5 => { let mut k = vec![0; 32]; k[31] = 1; k }
        6 => rng.bytes(31), 7 => rng.bytes(33), 8 => vec![], 9 => rng.bytes(1),
        _ => { let mut k = rng.bytes(32); k[0] &= 0x7f; if k.iter().all(|b| *b == 0) { k[31] = 1; } k }
    }
}
fn valid_key(rng: &mut Rng) -> [u8; 32] { let mut k = rng.bytes(32); k[0] &= 0x7f; k[31] |= 1; k.try_into().unwrap() }
const NETS: [&str; 12] = ["BSV_Mainnet", "BSV_Testnet", "BSV_STN", "BTC_Mainnet", "BTC_Testnet", "BCH_Mainnet", "BCH_Testnet", "", "x", "bsv_mainnet", "BSV_Mainnet ", "BSV_Testn\u{e9}t"];
fn net(rng: &mut Rng) -> String { let i = if rng.chance(3, 4) { rng.below(2) } else { rng.below(12) } as usize; thex(NETS[i]) }

pub const INT_POOL: [&str; 58] = ["0", "1", "-1", "2", "16", "17", "-16", "-17", "75", "76", "-75", "-76", "127", "128", "-127", "-128", "129", "255", "256", "-255", "-256", "32767", "32768", "-32767", "-32768",
    "65535", "65536", "8388607", "8388608", "-8388607", "-8388608", "16777215", "16777216", "2147483647", "2147483648", "-2147483647", "-2147483648", "-2147483649", "4294967295", "4294967296",
    "549755813888", "-549755813888", "9223372036854775807", "9223372036854775808", "-9223372036854775808", "-9223372036854775809", "18446744073709551615", "18446744073709551616",
    "-18446744073709551616", "170141183460469231731687303715884105727", "170141183460469231731687303715884105728", "-170141183460469231731687303715884105728",
    "115792089237316195423570985008687907852837564279074904382605163141518161494337", "115792089237316195423570985008687907852837564279074904382605163141518161494336",
    "115792089237316195423570985008687907853269984665640564039457584007913129639935", "115792089237316195423570985008687907853269984665640564039457584007913129639936",
    "-115792089237316195423570985008687907852837564279074904382605163141518161494336", "-5"];

pub const HOSTILE_TEXT: [&str; 44] = ["x", "\u{e9}", "a\u{e9}", "0xZZ", "0x1", "0x", "0X00", "b", "bx", "b'", "b''", "b'a'", "'", "\"", "''", "'a", "'a'", "'\u{20ac}'", "b'\u{e9}'", "99999999999", "-99999999999",
    "2147483647", "2147483648", "-2147483647", "-2147483648", "9223372036854775807", "-9223372036854775808", "9223372036854775808", "OP_PUSHDATA1 0x", "OP_PUSHDATA1 300", "OP_PUSHDATA1 xx", "OP_PUSHDATA2 0x00",
    "OP_PUSHDATA4 1", "OP_1 OP_2 OP_ADD", "", " ", ",", "\n", "OP_", "op_dup", "17 75 76", "-1 0 16", "0x00 0xff 0xFFFF", "1,2\n3"];

pub fn gen(tier: &str, rng: &mut Rng, out: &mut Vec<String>) {
    let thorough = tier == "thorough";
    // ---- evaluation: the same arguments with and without z (and z of a wrong length), through all three entry points
    let n_eval = if thorough { 12_000 } else { 450 };
    for k in 0..n_eval {
        let s = if k % 4 == 3 { hostile_script(rng) } else { let n_ = 1 + k % 9; gen_script(rng, n_).script };
        let len = s.len();
        let (st, br) = (opt_off(rng, len), opt_off(rng, len));
        let (stk, alt) = (stack_str(rng), stack_str(rng));
        let z = z_field(rng);
        out.push(format!("c18.eval {} {} ~", hexd(&s), br));
        out.push(format!("c18.eval {} {} {}", hexd(&s), br, z));
        out.push(format!("c18.evalps {} {} {} ~ {} {}", hexd(&s), st, br, stk, alt));
        out.push(format!("c18.evalps {} {} {} {} {} {}", hexd(&s), st, br, z, stk, alt));
        out.push(format!("c18.ctx {} {} {} ~", hexd(&s), st, br));
        out.push(format!("c18.ctx {} {} {} {}", hexd(&s), st, br, z));
        if k % 10 == 0 {
            let b = *rng.pick(&BAD_OFFS);
            out.push(format!("c18.eval {} {} {}", hexd(&s), b, z));
            out.push(format!("c18.evalps {} {} {} {} ~ ~", hexd(&s), b, br, z));
            out.push(format!("c18.evalps {} {} {} ~ ~ ~", hexd(&s), st, b));
            out.push(format!("c18.ctx {} {} {} {}", hexd(&s), b, br, z));
        }
    }
    // ---- all start/break offsets (and None) of short scripts, with and without z
    let m = if thorough { 300 } else { 10 };
    let mut shorts: Vec<Vec<u8>> = vec![vec![0x51, 0x52, 0x93], vec![0x51, 0x00], vec![0x51, 0x63, 0x52, 0x67, 0x53, 0x68, 0x93], vec![0x02, 0x01, 0x02, 0x76, 0x6b, 0x6c, 0x87]];
    while shorts.len() < m + 4 { let s = if rng.chance(1, 4) { hostile_script(rng) } else { gen_script(rng, 3).script }; if s.len() <= 9 && !s.is_empty() { shorts.push(s); } }
    for s in &shorts {
        let z = hexd(&rng.bytes(32));
        let offs: Vec<String> = std::iter::once("~".to_string()).chain((0..=s.len() + 1).map(|v| v.to_string())).collect();
        for st in &offs { for br in &offs {
            out.push(format!("c18.evalps {} {} {} ~ ~ ~", hexd(s), st, br));
            out.push(format!("c18.evalps {} {} {} {} ~ ~", hexd(s), st, br, z));
        } }
        for br in &offs { out.push(format!("c18.eval {} {} {}", hexd(s), br, z)); out.push(format!("c18.eval {} {} ~", hexd(s), br)); }
        for st in &offs { for br in [&offs[0], &offs[offs.len() - 2]] { out.push(format!("c18.ctx {} {} {} {}", hexd(s), st, br, z)); out.push(format!("c18.ctx {} {} {} ~", hexd(s), st, br)); } }
    }
    // ---- verdict: final stacks whose top / bottom are the boundary truth values
    let truthy: [&[u8]; 12] = [&[], &[0], &[0x80], &[0, 0], &[0, 0x80], &[1], &[0x81], &[0, 1], &[0, 0, 0, 0, 0], &[0, 0, 0, 0, 0x80], &[0, 0, 0, 0, 1], &[2, 0]];
    for t in truthy.iter() { for b in truthy.iter() {
        let mut s = vec![]; push_with(&mut s, b, 0); out.push(format!("c18.ctx {} ~ ~ ~", hexd(&s)));
        push_with(&mut s, t, 0); out.push(format!("c18.ctx {} ~ ~ ~", hexd(&s))); out.push(format!("c18.ctx {} ~ ~ {}", hexd(&s), hexd(&rng.bytes(32))));
    } }
    // ---- real signatures under z: the checker IS consulted; right z, wrong z, no z
    for _ in 0..(if thorough { 200 } else { 12 }) {
        let key = valid_key(rng); let z: [u8; 32] = rng.bytes(32).try_into().unwrap();
        let sk = SigningKey::from_slice(&key).unwrap(); let pk = sk.verifying_key().to_sec1_bytes().to_vec();
        let flags = *rng.pick(&[0x41u8, 0x42, 0x43, 0xc1, 0x01]);
        let sig = generate_signature(&key, &Hash256(z), flags).unwrap();
        let mut s = vec![]; push_with(&mut s, &sig, 0); push_with(&mut s, &pk, 0); s.push(if rng.chance(1, 3) { 0xad } else { 0xac }); if rng.chance(1, 2) { s.push(0x51); }
        for zz in [hexd(&z), hexd(&rng.bytes(32)), "~".to_string()] {
            out.push(format!("c18.eval {} ~ {}", hexd(&s), zz)); out.push(format!("c18.evalps {} ~ ~ {} ~ ~", hexd(&s), zz)); out.push(format!("c18.ctx {} ~ ~ {}", hexd(&s), zz));
        }
        // 1-of-2 multisig
        let mut ms = vec![0x00]; push_with(&mut ms, &sig, 0); ms.push(0x51); push_with(&mut ms, &rng.bytes(33), 0); push_with(&mut ms, &pk, 0); ms.push(0x52); ms.push(0xae);
        out.push(format!("c18.evalps {} ~ ~ {} ~ ~", hexd(&ms), hexd(&z)));
    }
    // ---- numbers at the codec boundaries
    let mut items: Vec<Vec<u8>> = vec![vec![], vec![0], vec![0x80], vec![0, 0], vec![0, 0x80], vec![0xff], vec![0x7f], vec![0xff, 0xff, 0xff, 0x7f], vec![0xff, 0xff, 0xff, 0xff], vec![0, 0, 0, 0x80],
        vec![0, 0, 0, 0, 0], vec![0, 0, 0, 0, 0x80], vec![1, 0, 0, 0, 0], vec![1, 0, 0, 0, 0x80], vec![0, 0, 0, 0, 1], vec![0, 0, 0, 0x80, 0], vec![1, 2, 3, 4, 0, 0, 0], vec![1, 2, 3, 4, 0, 0, 0x80], vec![1, 2, 3, 4, 0, 1, 0], vec![0xff; 9], vec![0xff; 33]];
    for _ in 0..(if thorough { 3000 } else { 120 }) { items.push(operand(rng)); }
    for it in &items { for op in ["decnum", "decelem", "utildec"] { out.push(format!("c18.{} {}", op, hexd(it))); } }
    for _ in 0..(if thorough { 500 } else { 40 }) { let n = rng.range(0, 5); let l: Vec<String> = (0..n).map(|_| hexd(&if rng.chance(3, 4) { small_num(rng) } else { operand(rng) })).collect(); out.push(format!("c18.decstack {}", if l.is_empty() { "=".to_string() } else { l.join(",") })); }
    // ---- sequences of operations on one Stack object (an observation must not change what a later one sees)
    for _ in 0..(if thorough { 4000 } else { 400 }) {
        let n = rng.range(1, 4) as usize;
        let its: Vec<Vec<u8>> = (0..n).map(|_| match rng.below(6) { 0 => vec![0x80], 1 => vec![0x85], 2 => vec![1, 0, 0, 0, 0, 0x80], 3 => enc_num(-(rng.range(1, 70000) as i128)), 4 => small_num(rng), _ => operand(rng) }).collect();
        let mut ops: Vec<String> = vec![];
        for _ in 0..rng.range(2, 6) { let i = rng.below(n as u64 + 1);
            ops.push(match rng.below(8) { 0 | 1 | 2 => format!("d{}", i), 3 => "D".into(), 4 | 5 => format!("g{}", i), 6 => "s".into(), _ => if rng.chance(1, 2) { format!("P{}", hexd(&small_num(rng))) } else { "O".into() } }); }
        // the seeded shape: decode a negative element, then look at it again
        if rng.chance(1, 3) { ops.insert(0, "d0".into()); ops.push("d0".into()); ops.push("g0".into()); }
        out.push(format!("c18.stackseq {} {}", its.iter().map(|i| hexd(i)).collect::<Vec<_>>().join(","), ops.join(",")));
    }
    let mut ints: Vec<String> = INT_POOL.iter().map(|s| s.to_string()).collect();
    ints.push(format!("1{}", "0".repeat(610))); ints.push(format!("-1{}", "0".repeat(610))); ints.push(format!("1{}", "0".repeat(640))); ints.push(format!("3{}", "7".repeat(613)));
    for _ in 0..(if thorough { 2000 } else { 60 }) { let bits = rng.range(1, 300) as u32; let v = BigInt::from_bytes_le(if rng.chance(1, 2) { Sign::Plus } else { Sign::Minus }, &rng.bytes((bits as usize + 7) / 8)); ints.push(v.to_string()); }
    for v in &ints { for op in ["pushint", "utilenc", "appint", "appbig"] { out.push(format!("c18.{} {}", op, v)); } }
    // ---- transactions
    let n_tx = if thorough { 3000 } else { 90 };
    for k in 0..n_tx {
        let (tx, idx) = gen_tx(rng);
        out.push(format!("c18.tx {}", tx_fields(&tx)));
        out.push(format!("c18.tx {}", broken_tx_fields(rng, &tx)));
        let b = ser(&tx);
        out.push(format!("c18.txparse {}", hexd(&b)));
        { let cut = rng.below(b.len() as u64) as usize; out.push(format!("c18.txparse {}", hexd(&b[..cut]))); }
        { let mut t = b.clone(); t.extend(rng.bytes(3)); out.push(format!("c18.txparse {}", hexd(&t))); }
        let hx = hex::encode(&b);
        let variants = [hx.clone(), hx.to_uppercase(), hx[..hx.len() - 1].to_string(), format!("{}zz", hx), format!("0x{}", hx), String::new()];
        out.push(format!("c18.txparsehex {}", thex(&variants[k % variants.len()])));
        // signature hashes: valid and out-of-range input indexes, check indexes, amounts and flag bytes
        let code = match rng.below(4) { 0 => { let mut c = vec![0x76, 0xa9, 0x14]; c.extend(rng.bytes(20)); c.extend([0x88, 0xac]); c } 1 => vec![0x51, 0xab, 0x76, 0xac, 0xab, 0xac], 2 => vec![], _ => { let n_ = rng.below(20) as usize; rng.bytes(n_) } };
        let nin = tx.inputs.len();
        for kind in ["h", "hk", "p", "pk"] {
            let n = match rng.below(8) { 0 => nin.to_string(), 1 => (nin + 5).to_string(), 2 => "-1".into(), 3 => "18446744073709551616".into(), 4 => "18446744073709551615".into(), _ => idx.to_string() };
            let ck = rng.pick(&["0", "0", "1", "2", "7", "-1", "18446744073709551616"]);
            let sat = rng.pick(&["0", "1", "-1", "5000", "9223372036854775807", "-9223372036854775808", "9223372036854775808", "2100000000000000"]);
            let ty = match rng.below(10) { 0 => "256".to_string(), 1 => "-1".to_string(), 2 => "0".to_string(), _ => (rng.byte()).to_string() };
            out.push(format!("c18.sighash {} {} {} {} {} {} {}", kind, tx_fields(&tx), n, hexd(&code), ck, sat, ty));
            out.push(format!("c18.sighash {} {} {} {} 0 1000 65", kind, tx_fields(&tx), idx, hexd(&code)));
        }
        if k % 6 == 0 { out.push(format!("c18.sighash h {} 0 76ac 0 1000 65", broken_tx_fields(rng, &tx))); }
    }
    // ---- wallet: key import (bytes, hex text, integer, WIF), every export; signing; validation of the signed spend
    let n_w = if thorough { 1500 } else { 60 };
    for _ in 0..n_w {
        let key = key_pool(rng);
        out.push(format!("c18.wbytes {} {}", net(rng), hexd(&key)));
        let hx = hex::encode(&key);
        let hv = match rng.below(6) { 0 => hx.to_uppercase(), 1 => format!("0x{}", hx), 2 => format!("{}z", hx), 3 => if hx.is_empty() { hx.clone() } else { hx[1..].to_string() }, _ => hx.clone() };
        out.push(format!("c18.whex {} {}", net(rng), thex(&hv)));
        let iv = if rng.chance(1, 3) { rng.pick(&INT_POOL).to_string() } else { BigInt::from_bytes_be(if rng.chance(1, 8) { Sign::Minus } else { Sign::Plus }, &key).to_string() };
        out.push(format!("c18.wint {} {}", net(rng), iv));
        out.push(format!("c18.b2wif {} {}", net(rng), hexd(&key)));
    }
    for _ in 0..(if thorough { 600 } else { 40 }) {
        let key = valid_key(rng);
        let prefix = *rng.pick(&[MAIN_PRIVATE_KEY, TEST_PRIVATE_KEY, TEST_PRIVATE_KEY, 0x00, 0x05]);
        let good = wif_of(prefix, &key);
        let mut d = vec![prefix]; d.extend_from_slice(&key); let uncompressed = encode_base58_checksum(&d);
        let mut flip = good.clone().into_bytes(); let p = rng.below(flip.len() as u64) as usize; flip[p] = if flip[p] == b'2' { b'3' } else { b'2' };
        let variants = [good.clone(), uncompressed, String::from_utf8(flip).unwrap(), good[..good.len() - 1].to_string(), format!("{}1", good), good.replace('1', "l"), String::new(), "3QJmnh".into(), "1".into(),
            format!("{}\u{e9}", &good[..10]), encode_base58_checksum(&[prefix]), encode_base58_checksum(&[]), wif_of(prefix, &[0u8; 32]), wif_of(prefix, &[0xffu8; 32]), wif_of(prefix, &key[..31]), good.to_uppercase()];
        for v in variants.iter() { if rng.chance(1, 2) { out.push(format!("c18.wwif {}", thex(v))); } else { out.push(format!("c18.wif2b {}", thex(v))); } if rng.chance(1, 4) { out.push(format!("c18.a2pkh {}", thex(v))); } }
        // every short prefix of a good WIF and short runs of leading '1's (the error paths of the text decoders)
        if rng.chance(1, 4) { for k in 0..13usize { let v = if rng.chance(1, 3) { "1".repeat(k) } else { good[..k].to_string() }; out.push(format!("{} {}", *rng.pick(&["c18.wwif", "c18.wif2b", "c18.a2pkh"]), thex(&v))); } }
        // a spend of a P2PKH output of this key: sign through the wallet, then validate
        let sk = SigningKey::from_slice(&key).unwrap(); let pk = sk.verifying_key().to_sec1_bytes().to_vec();
        let lock = p2pkh_script(&hash160(&pk).0);
        let (mut prev, _) = gen_tx(rng);
        let o = rng.below(3) as usize; while prev.outputs.len() <= o { prev.outputs.push(TxOut { satoshis: 1000, lock_script: Script(vec![0x51]) }); }
        prev.outputs[o] = TxOut { satoshis: rng.range(600, 100_000) as i64, lock_script: lock.clone() };
        let mut tx = Tx { version: 1, inputs: vec![TxIn { prev_output: OutPoint { hash: prev.hash(), index: o as u32 }, unlock_script: Script(vec![]), sequence: 0xffffffff }],
            outputs: vec![TxOut { satoshis: rng.range(0, 600) as i64, lock_script: Script(vec![0x76, 0xa9, 0x14, 1, 2, 3, 4, 5, 6, 7, 8, 9, 10, 11, 12, 13, 14, 15, 16, 17, 18, 19, 20, 0x88, 0xac]) }], lock_time: 0 };
        if rng.chance(1, 3) { let (other, _) = gen_tx(rng); tx.inputs.push(other.inputs[0].clone()); }
        let (pf, tf) = (tx_fields(&prev), tx_fields(&tx));
        out.push(format!("c18.sign s {} 0 65 0 {} {}", hexd(&key), pf, tf));
        let flags = *rng.pick(&[0x41u8, 0x42, 0x43, 0xc1, 0xc3, 0x01, 0x00, 0xff]);
        out.push(format!("c18.sign sf {} 0 {} 0 {} {}", hexd(&key), flags, pf, tf));
        out.push(format!("c18.sign sk {} 0 {} {} {} {}", hexd(&key), flags, rng.pick(&["0", "1", "9"]), pf, tf));
        // invalid arguments: input index / previous output index out of range, wrong previous tx, bad id, bad numbers
        out.push(format!("c18.sign s {} {} 65 0 {} {}", hexd(&key), rng.pick(&["1", "2", "7", "-1", "18446744073709551616"]), pf, tf));
        { let mut t2 = tx.clone(); t2.inputs[0].prev_output.index = prev.outputs.len() as u32 + rng.below(3) as u32; out.push(format!("c18.sign {} {} 0 65 0 {} {}", rng.pick(&["s", "sf", "sk"]), hexd(&key), pf, tx_fields(&t2))); }
        { let (other, _) = gen_tx(rng); out.push(format!("c18.sign s {} 0 65 0 {} {}", hexd(&key), tx_fields(&other), tf)); }
        out.push(format!("c18.sign sf {} 0 {} 0 {} {}", hexd(&key), rng.pick(&["256", "-1"]), pf, tf));
        out.push(format!("c18.sign s {} 0 65 0 {} {}", hexd(&key), pf, broken_tx_fields(rng, &tx)));
        out.push(format!("c18.sign s {} 0 65 0 {} {}", hexd(&key), broken_tx_fields(rng, &prev), tf));
        out.push(format!("c18.sign s {} 0 65 0 {} {}", hexd(&key_pool(rng)), pf, tf));
        // validation: the signed spend (valid), the unsigned one, missing / unrelated utxo transactions, a bad id
        let w = Wallet::new(sk.clone(), *sk.verifying_key(), Network::BSV_Testnet);
        let mut signed = tx.clone();
        if tx.inputs.len() == 1 && w.sign_tx_input(&prev, &mut signed, 0, 0x41).is_ok() {
            let ph = hex::encode(ser(&prev));
            out.push(format!("c18.validate {} {}", tx_fields(&signed), ph));
            out.push(format!("c18.validate {} {}", tf, ph));
            out.push(format!("c18.validate {} -", tx_fields(&signed)));
            { let (other, _) = gen_tx(rng); out.push(format!("c18.validate {} {};{}", tx_fields(&signed), hex::encode(ser(&other)), ph)); }
            { let mut s2 = signed.clone(); s2.outputs[0].satoshis = prev.outputs[o].satoshis + 1; out.push(format!("c18.validate {} {}", tx_fields(&s2), ph)); }
            { let mut s2 = signed.clone(); s2.inputs[0].prev_output.index = 9; out.push(format!("c18.validate {} {}", tx_fields(&s2), ph)); }
            out.push(format!("c18.validate {} {}", broken_tx_fields(rng, &signed), ph));
            { let cb = Tx { version: 1, inputs: vec![TxIn { prev_output: OutPoint { hash: Hash256([0; 32]), index: 0xffffffff }, unlock_script: Script(vec![1, 1]), sequence: 0 }], outputs: signed.outputs.clone(), lock_time: 0 };
              out.push(format!("c18.validate {} {}", tx_fields(&cb), ph)); out.push(format!("c18.tx {}", tx_fields(&cb))); }
        }
        // small helpers
        out.push(format!("c18.pk2addr {} {}", net(rng), hexd(&if rng.chance(3, 4) { pk.clone() } else { let n_ = rng.below(70) as usize; rng.bytes(n_) })));
        out.push(format!("c18.p2pkh {}", hexd(&{ let n_ = *rng.pick(&[20usize, 20, 0, 1, 75, 76, 255, 256]); rng.bytes(n_) })));
        { let n_ = rng.below(100) as usize; let d = rng.bytes(n_); out.push(format!("c18.h160 {}", hexd(&d))); out.push(format!("c18.h256 {}", hexd(&d))); }
    }
    // ---- Script objects: serialisation at the var_int boundaries, parse of hostile bytes
    for n in [0usize, 1, 25, 75, 76, 252, 253, 254, 255, 256, 300, 65535, 65536] {
        let mut c = rng.bytes(n); if n == 25 { c = p2pkh_script(&rng.bytes(20)).0; }
        out.push(format!("c18.script {}", hexd(&c)));
        let mut s = vec![]; var_int_write(n as u64, &mut s).unwrap(); s.extend_from_slice(&c);
        out.push(format!("c18.scriptparse {}", hexd(&s)));
        if n > 0 { out.push(format!("c18.scriptparse {}", hexd(&s[..s.len() - 1]))); }
    }
    for h in ["-", "fd", "fdff", "fe000000", "ff", "ffffffffffffffffff", "ff0000000001000000", "feffffffff", "fdffff00", "0100", "00ff"] { out.push(format!("c18.scriptparse {}", h)); }
    // ---- python-only: text form on hostile strings, the ill-typed argument table, the key-derivation helper
    for t in HOSTILE_TEXT.iter() { out.push(format!("c18.parsestr {}", thex(t))); }
    for _ in 0..(if thorough { 3000 } else { 150 }) {
        let n = rng.range(1, 4);
        let toks: Vec<String> = (0..n).map(|_| match rng.below(8) {
            0 => rng.pick(&HOSTILE_TEXT).to_string(), 1 => format!("0x{}", hex::encode({ let n_ = rng.below(4) as usize; rng.bytes(n_) })), 2 => rng.pick(&INT_POOL).to_string(),
            3 => rng.pick(&["OP_DUP", "OP_PUSHDATA1", "OP_PUSHDATA2", "OP_0", "OP_16", "OP_CHECKSIG"]).to_string(),
            _ => { let l = rng.range(1, 4); (0..l).map(|_| *rng.pick(&['x', 'b', '\'', '"', '0', 'x', '1', '-', 'O', '_', '\u{e9}', '\u{4e2d}', 'f', 'Z'])).collect() } }).collect();
        out.push(format!("c18.parsestr {}", thex(&toks.join(" "))));
    }
    for i in 0..N_ILL { out.push(format!("c18.ill {}", i)); }
    out.push(format!("c18.wifpw {} {} {}", thex("password"), thex("nonce"), thex("BSV_Mainnet")));
    out.push(format!("c18.wifpw - - {}", thex("nonsense")));
    // memory cap of this property: 1 MiB per allocation (a mutated operand in front of a generator-placed OP_NUM2BIN can
    // ask for tens of megabytes; the list-based Lean model and the Python side are not meant to be measured on that)
    out.retain(|r| {
        if !(r.starts_with("c18.eval") || r.starts_with("c18.ctx")) { return true; }
        let p: Vec<&str> = r.split(' ').collect();
        crate::alloc::reset();
        let _ = guarded(|| exec(p[0], &p[1..]).unwrap_or_default());
        crate::alloc::max_request() <= (1 << 20)
    });
}

/// number of entries of the ill-typed argument table in checks/C18.py (the runner answers `err:…` / `panic:…`;
/// an index past the end of its table is answered `unknown-ill`, which disagrees with `err` here)
pub const N_ILL: usize = 64;

//! C12, concurrent part: a real loopback session whose receive thread and local `send` / `disconnect` calls are
//! steered through the H3 sync points of peer.rs (feature verif-hooks), one model step (`CG.Model.PeerConc`) per
//! release.  Request: `c12.conc <remote> <progs> <sched>` — `remote` = `f<N>` (N inv frames with tags 0..N-1)
//! optionally followed by `c` (the node half-closes afterwards); `progs` = local programs separated by `/`
//! (`s` send a serialisable message, `u` send an unserialisable one, `d` disconnect(), `-` nothing); `sched` =
//! thread ids, 0 = the peer's receive thread, i+1 = local thread i.  Outcome: the observable log when the
//! schedule is used up (`M<tag>` deliveries, `D` the disconnected event, `S:ok|illegal|io` send results).
use super::*;
use chain_gang::util::verif_hooks::set_sync_hook;
use std::cell::Cell;
use std::sync::Condvar;

#[derive(Clone, PartialEq, Debug)]
enum TS { Running, AtStop(&'static str), Done }

/// `r_reading`: the receive thread was last released into its (possibly blocking) read
struct Conc { active: bool, st: Vec<TS>, grant: Option<usize>, reads: usize, r_reading: bool }

static CONC: Mutex<Option<Conc>> = Mutex::new(None);
static CCV: Condvar = Condvar::new();
static SERIAL: Mutex<()> = Mutex::new(());
thread_local! { static LTID: Cell<Option<usize>> = const { Cell::new(None) }; }

fn conc_lock() -> std::sync::MutexGuard<'static, Option<Conc>> { CONC.lock().unwrap_or_else(|e| e.into_inner()) }

/// installed into chain-gang's sync points for the duration of one session
fn hook(name: &'static str, _addr: usize) {
    if !name.starts_with("peer.") { return; }
    // local threads carry an id; the only other thread that runs peer code during a session is the receive thread
    let t = LTID.with(|c| c.get()).unwrap_or(0);
    let mut g = conc_lock();
    match g.as_mut() {
        Some(c) if c.active && t < c.st.len() => {
            if name.ends_with(":exit") { c.st[t] = TS::Done; CCV.notify_all(); return; }
            c.st[t] = TS::AtStop(name);
            if t == 0 { c.r_reading = false; }
            if name == "peer.recv.test:pre" { c.reads += 1; }
        }
        _ => return,
    }
    CCV.notify_all();
    loop {
        match g.as_ref() { Some(c) if c.active => { if c.grant == Some(t) { break; } } _ => return }
        g = CCV.wait(g).unwrap_or_else(|e| e.into_inner());
    }
    let c = g.as_mut().unwrap();
    c.grant = None;
    c.st[t] = TS::Running;
    CCV.notify_all();
}

struct LogObs { log: Arc<Mutex<Vec<String>>> }
impl Observer<PeerConnected> for LogObs { fn next(&self, _e: &PeerConnected) { self.log.lock().unwrap().push("C".into()); } }
impl Observer<PeerDisconnected> for LogObs { fn next(&self, _e: &PeerDisconnected) { self.log.lock().unwrap().push("D".into()); } }
impl Observer<PeerMessage> for LogObs {
    fn next(&self, e: &PeerMessage) {
        let tag = match &e.message { Message::Inv(i) if i.objects.len() == 1 => format!("M{}", i.objects[0].hash.0[0]), m => format!("M?{}", render(m)) };
        self.log.lock().unwrap().push(tag);
    }
}

fn msg_bytes(m: &Message) -> Vec<u8> { let mut v = Vec::new(); m.write(&mut v, MAGIC).expect("serialise"); v }

/// waits until `f` holds on the controller state (3 s)
fn await_state<F: Fn(&Conc) -> bool>(f: F) -> bool {
    let deadline = Instant::now() + Duration::from_secs(3);
    let mut g = conc_lock();
    loop {
        if let Some(c) = g.as_ref() { if f(c) { return true; } } else { return false; }
        let now = Instant::now();
        if now >= deadline { return false; }
        g = CCV.wait_timeout(g, deadline - now).unwrap_or_else(|e| e.into_inner()).0;
    }
}

pub fn run_conc(nframes: usize, close: bool, progs: &[Vec<char>], sched: &[usize]) -> String {
    let _serial = SERIAL.lock().unwrap_or_else(|e| e.into_inner());
    install_panic_counter();
    let listener = match TcpListener::bind((Ipv4Addr::LOCALHOST, 0)) { Ok(l) => l, Err(e) => return format!("harness:bind:{:?}", e.kind()) };
    let port = listener.local_addr().unwrap().port();
    let _ = listener.set_nonblocking(true);
    let version = Version { version: PROTOCOL_VERSION, services: NODE_BITCOIN_CASH, timestamp: 1_700_000_000, user_agent: "cg-verif".to_string(), ..Default::default() };
    let peer = Peer::connect(IpAddr::V4(Ipv4Addr::LOCALHOST), port, Network::BSV_Mainnet, version, SVPeerFilter::new(0));
    let log = Arc::new(Mutex::new(Vec::<String>::new()));
    let obs = Arc::new(LogObs { log: log.clone() });
    peer.connected_event().subscribe(&obs);
    peer.disconnected_event().subscribe(&obs);
    peer.messages().subscribe(&obs);
    let mut sock = {
        let t0 = Instant::now();
        loop {
            match listener.accept() {
                Ok((s, _)) => break s,
                Err(_) if t0.elapsed() < Duration::from_secs(5) => thread::sleep(Duration::from_micros(300)),
                Err(e) => return format!("harness:accept:{:?}", e.kind()),
            }
        }
    };
    let _ = sock.set_nonblocking(false);
    let _ = sock.set_nodelay(true);
    let rx = Arc::new(Mutex::new(Vec::new()));
    let eof = Arc::new(AtomicBool::new(false));
    if let Ok(s2) = sock.try_clone() { let (rx2, eof2) = (rx.clone(), eof.clone()); thread::spawn(move || node_reader(s2, rx2, eof2)); }
    // handshake: our version and verack at once
    let mut hs = msg_bytes(&node_version(70015, NODE_NETWORK | NODE_BITCOIN_CASH, 800_000, "/Bitcoin SV:1.0.11/"));
    hs.extend(msg_bytes(&Message::Verack));
    if sock.write_all(&hs).is_err() { return "harness:handshake-write".into(); }
    if !wait_until(Duration::from_secs(4), || log.lock().unwrap().iter().any(|l| l == "C")) { return "harness:no-handshake".into(); }
    log.lock().unwrap().clear();

    // from here on every peer.* sync point parks its thread
    let n = 1 + progs.len();
    *conc_lock() = Some(Conc { active: true, st: vec![TS::Running; n], grant: None, reads: 0, r_reading: true });
    set_sync_hook(Some(hook));
    let mut wire = Vec::new();
    for i in 0..nframes {
        let mut h = [0u8; 32]; h[0] = i as u8;
        wire.extend(msg_bytes(&Message::Inv(Inv { objects: vec![InvVect { obj_type: 1, hash: Hash256(h) }] })));
    }
    let _ = sock.write_all(&wire);
    let _ = sock.flush();
    if close { let _ = sock.shutdown(Shutdown::Write); }
    let mut avail = nframes + close as usize;
    let mut shut = false;
    // shadow of the tcp_writer mutex: disconnect() takes it at its shutdown step and keeps it until it returns
    let mut wlock: Option<usize> = None;

    let mut handles = Vec::new();
    for (i, prog) in progs.iter().enumerate() {
        let (p, prog, log) = (peer.clone(), prog.clone(), log.clone());
        handles.push(thread::spawn(move || {
            LTID.with(|c| c.set(Some(i + 1)));
            for op in prog {
                match op {
                    's' => { let r = send_class(&p.send(&Message::Ping(Ping { nonce: 7000 + i as u64 }))); log.lock().unwrap().push(format!("S:{}", short(&r))); }
                    'u' => { let r = send_class(&p.send(&Message::Other("cg-unwritable".into()))); log.lock().unwrap().push(format!("S:{}", short(&r))); }
                    _ => p.disconnect(),
                }
            }
            let mut g = conc_lock();
            if let Some(c) = g.as_mut() { if c.active && i + 1 < c.st.len() { c.st[i + 1] = TS::Done; } }
            CCV.notify_all();
        }));
    }
    // every thread comes to rest: locals at their first stop (or done), the receive thread at its first flag test
    // (or blocked in read when nothing was sent)
    let at_rest = |c: &Conc, avail: usize, shut: bool| -> bool {
        c.st.iter().enumerate().all(|(t, s)| match s {
            TS::Running => t == 0 && c.r_reading && c.reads >= avail && !shut,      // blocked in Message::read with nothing to read
            _ => true,
        })
    };
    let mut problem: Option<String> = None;
    if !await_state(|c| at_rest(c, avail, shut)) { problem = Some("hang:start".into()); }
    for &tid in sched {
        if problem.is_some() { break; }
        let stop = { let g = conc_lock(); match g.as_ref().and_then(|c| c.st.get(tid).cloned()) { Some(TS::AtStop(nm)) => Some(nm), _ => None } };
        let Some(stop) = stop else { continue };          // the thread cannot move: the model skips the entry too
        // a critical section on tcp_writer while another thread holds the mutex: the thread would block; the model
        // does not schedule it either
        if (stop == "peer.disconnect.shutdown:pre" || stop == "peer.send.write:pre") && wlock.is_some() { continue; }
        if stop == "peer.disconnect.shutdown:pre" { wlock = Some(tid); }
        if stop == "peer.disconnect.event:pre" && wlock == Some(tid) { wlock = None; }
        let delivered_before = log.lock().unwrap().iter().filter(|l| l.starts_with('M')).count();
        { let mut g = conc_lock(); if let Some(c) = g.as_mut() { c.st[tid] = TS::Running; c.grant = Some(tid); } CCV.notify_all(); }
        if stop == "peer.disconnect.shutdown:pre" { shut = true; avail += 1; }
        if tid == 0 && stop == "peer.recv.publish:pre" {
            // the delivery happens right after the release, before the next (possibly blocking) read
            if !wait_until(Duration::from_secs(3), || log.lock().unwrap().iter().filter(|l| l.starts_with('M')).count() > delivered_before) {
                problem = Some("hang:publish".into());
            }
            { let mut g = conc_lock(); if let Some(c) = g.as_mut() { if c.st[0] == TS::Running { c.r_reading = true; } } }
        }
        if !await_state(|c| c.grant.is_none() && at_rest(c, avail, shut)) { problem = Some(format!("hang:after-{}", stop)); }
    }
    let snapshot = log.lock().unwrap().clone();
    // teardown: let everything run free
    { let mut g = conc_lock(); if let Some(c) = g.as_mut() { c.active = false; } CCV.notify_all(); }
    set_sync_hook(None);
    { let p = peer.clone(); let _ = on_thread(move || p.disconnect()); }
    let t0 = Instant::now();
    while !handles.iter().all(|h| h.is_finished()) && t0.elapsed() < Duration::from_secs(3) { thread::sleep(Duration::from_micros(300)); }
    for h in handles { if h.is_finished() { let _ = h.join(); } }
    wait_until(Duration::from_secs(3), || eof.load(Ordering::SeqCst));
    *conc_lock() = None;
    drop(obs);
    match problem {
        Some(p) => p,
        None => format!("ok:{}", if snapshot.is_empty() { "-".to_string() } else { snapshot.join(",") }),
    }
}

fn short(class: &str) -> &'static str {
    if class == "ok" { "ok" } else if class.contains("IllegalState") { "illegal" } else if class.contains("Io") { "io" } else { "other" }
}

pub fn exec_conc(a: &[&str]) -> String {
    if a.len() != 3 { return "bad-request".into(); }
    let (remote, progs, sched) = (a[0], a[1], a[2]);
    let close = remote.ends_with('c');
    let body = if close { &remote[..remote.len() - 1] } else { remote };
    let Some(nframes) = body.strip_prefix('f').and_then(|x| x.parse::<usize>().ok()) else { return "bad-request".into() };
    if nframes > 200 { return "bad-request".into(); }
    let mut ps: Vec<Vec<char>> = Vec::new();
    for p in progs.split('/') {
        if p == "-" { ps.push(vec![]); continue; }
        if !p.chars().all(|c| c == 's' || c == 'u' || c == 'd') { return "bad-request".into(); }
        ps.push(p.chars().collect());
    }
    if ps.len() > 8 { return "bad-request".into(); }
    let sc: Vec<usize> = if sched == "-" { vec![] } else {
        let mut v = Vec::new();
        for b in sched.bytes() { if b.is_ascii_digit() { v.push((b - b'0') as usize); } else { return "bad-request".into(); } }
        v
    };
    run_conc(nframes, close, &ps, &sc)
}

/// schedules: the witness of the late delivery, then random programs with random schedules followed by a fixed tail
/// that runs every thread to completion (locals first, then the receive thread)
pub fn gen_conc(tier: &str, rng: &mut Rng, out: &mut Vec<String>) {
    out.push("c12.conc f1 d 00111100".into());
    out.push("c12.conc f2c s 0010001000000".into());
    let n = if tier == "thorough" { 6000 } else { 400 };
    for _ in 0..n {
        let nframes = rng.range(0, 4) as usize;
        let close = rng.chance(1, 2);
        let nloc = rng.range(1, 3) as usize;
        let progs: Vec<String> = (0..nloc).map(|_| {
            let k = rng.range(0, 3) as usize;
            if k == 0 { "-".to_string() } else { (0..k).map(|_| *rng.pick(&['s', 's', 'd', 'u'])).collect() }
        }).collect();
        let len = rng.range(0, 24) as usize;
        let mut sched: Vec<usize> = (0..len).map(|_| rng.below(nloc as u64 + 1) as usize).collect();
        for t in 1..=nloc { for _ in 0..16 { sched.push(t); } }
        for _ in 0..(4 * nframes + 8) { sched.push(0); }
        let s: String = sched.iter().map(|t| char::from(b'0' + *t as u8)).collect();
        out.push(format!("c12.conc f{}{} {} {}", nframes, if close { "c" } else { "" }, progs.join("/"), s));
    }
}

//! C14 — Merkle roots (`Block::validate`'s root check) and filtered-block proofs (`MerkleBlock::validate`).
//!
//! Ops:
//!   c14.mb <total_transactions> <header merkle root> <flags> <hashes>   -> ok:<matched ids> | err:<Variant>
//!   c14.built <n> <seed> <mask>     proof built here by the position-based BIP-37 builder for the ids
//!                                   sha256d(seed LE8 ‖ i LE4), validated by the real code
//!   c14.block <claimed root> <serialised txs>   -> ok | err:<Variant>   (Block::validate, all else valid)
use crate::rng::Rng;
use crate::util::*;
use chain_gang::messages::{Block, BlockHeader, MerkleBlock, OutPoint, Tx, TxIn, TxOut, COINBASE_OUTPOINT_HASH, COINBASE_OUTPOINT_INDEX};
use chain_gang::network::Network;
use chain_gang::script::Script;
use chain_gang::util::{sha256d, Hash256, Serializable};
use std::collections::HashSet;
use std::io::Cursor;
use std::io::Write as _;

type H = [u8; 32];

pub fn tables(w: &mut dyn std::io::Write) {
    // constants the block model depends on, as the current tree compiles them
    writeln!(w, "C14_BCH_FORK_HEIGHT_MAINNET {}", chain_gang::util::BITCOIN_CASH_FORK_HEIGHT_MAINNET).unwrap();
    writeln!(w, "C14_BCH_FORK_HEIGHT_TESTNET {}", chain_gang::util::BITCOIN_CASH_FORK_HEIGHT_TESTNET).unwrap();
    writeln!(w, "C14_GENESIS_HEIGHT_MAINNET {}", chain_gang::util::GENESIS_UPGRADE_HEIGHT_MAINNET).unwrap();
    writeln!(w, "C14_GENESIS_HEIGHT_TESTNET {}", chain_gang::util::GENESIS_UPGRADE_HEIGHT_TESTNET).unwrap();
    writeln!(w, "C14_COINBASE_INDEX {}", COINBASE_OUTPOINT_INDEX).unwrap();
}

fn h256(b: &[u8]) -> Hash256 { let mut a = [0u8; 32]; a.copy_from_slice(b); Hash256(a) }
fn hex_list(v: &[H]) -> String { if v.is_empty() { "-".into() } else { v.iter().map(|h| hex::encode(h)).collect::<Vec<_>>().join(",") } }
fn parse_hex_list(s: &str) -> Vec<Vec<u8>> { if s == "-" { vec![] } else { s.split(',').map(|x| hex::decode(x).expect("bad hex")).collect() } }

// ------------------------------------------------------------------ reference tree (by position)

fn h2(a: &H, b: &H) -> H { let mut v = [0u8; 64]; v[..32].copy_from_slice(a); v[32..].copy_from_slice(b); sha256d(&v).0 }
fn width(n: u64, h: u32) -> u64 { (n + (1u64 << h) - 1) >> h }
fn height(n: u64) -> u32 { let mut h = 0; while width(n, h) > 1 { h += 1; } h }

struct Built { bits: Vec<bool>, hashes: Vec<H>, matched: Vec<H>, root: H }

struct Builder<'a> { n: u64, pm: &'a dyn Fn(u32, u64) -> bool, node: &'a dyn Fn(u32, u64) -> H, out: Built }
impl<'a> Builder<'a> {
    fn go(&mut self, h: u32, p: u64) -> H {
        let m = (self.pm)(h, p);
        self.out.bits.push(m);
        if h == 0 || !m {
            let x = (self.node)(h, p);
            self.out.hashes.push(x);
            if h == 0 && m { self.out.matched.push(x); }
            x
        } else {
            let l = self.go(h - 1, 2 * p);
            let r = if 2 * p + 1 < width(self.n, h - 1) { self.go(h - 1, 2 * p + 1) } else { l };
            h2(&l, &r)
        }
    }
}
fn build(n: u64, pm: &dyn Fn(u32, u64) -> bool, node: &dyn Fn(u32, u64) -> H) -> Built {
    let mut b = Builder { n, pm, node, out: Built { bits: vec![], hashes: vec![], matched: vec![], root: [0; 32] } };
    let r = b.go(height(n), 0);
    b.out.root = r;
    b.out
}
fn pack(bits: &[bool]) -> Vec<u8> {
    let mut v = vec![0u8; (bits.len() + 7) / 8];
    for (i, b) in bits.iter().enumerate() { if *b { v[i / 8] |= 1 << (i % 8); } }
    v
}
fn levels(ids: &[H]) -> Vec<Vec<H>> {
    let mut lv = vec![ids.to_vec()];
    while lv.last().unwrap().len() > 1 {
        let cur = lv.last().unwrap();
        let mut nx = Vec::with_capacity((cur.len() + 1) / 2);
        let mut i = 0;
        while i < cur.len() { let r = if i + 1 < cur.len() { &cur[i + 1] } else { &cur[i] }; nx.push(h2(&cur[i], r)); i += 2; }
        lv.push(nx);
    }
    lv
}
/// full tree over `ids`, leaves selected by `mask`
fn build_full(ids: &[H], mask: &[bool]) -> Built {
    let n = ids.len() as u64;
    let lv = levels(ids);
    let pm = |h: u32, p: u64| { let lo = (p << h) as usize; let hi = ((((p + 1) << h) as usize).min(n as usize)).min(mask.len()); (lo..hi).any(|i| mask[i]) };
    let node = |h: u32, p: u64| lv[h as usize][p as usize];
    build(n, &pm, &node)
}
/// sparse tree for a (possibly huge) declared count: only the paths to `targets` are opened, every
/// other node's hash is pseudo-random (a function of (seed, h, p)), so the proof has O(k log n) hashes
fn build_sparse(n: u64, targets: &[u64], seed: u64) -> Built {
    let pm = |h: u32, p: u64| targets.iter().any(|t| (t >> h) == p);
    let node = |h: u32, p: u64| { let mut v = Vec::new(); v.extend_from_slice(&seed.to_le_bytes()); v.extend_from_slice(&h.to_le_bytes()); v.extend_from_slice(&p.to_le_bytes()); sha256d(&v).0 };
    build(n, &pm, &node)
}
fn seeded_ids(seed: u64, n: usize) -> Vec<H> {
    (0..n).map(|i| { let mut v = Vec::new(); v.extend_from_slice(&seed.to_le_bytes()); v.extend_from_slice(&(i as u32).to_le_bytes()); sha256d(&v).0 }).collect()
}

/// reference extractor, used by the generator only (to give malformed objects a header root that
/// gets them past the root comparison); returns (root, bits used, hashes used)
fn ref_extract(n: u64, bits: &[bool], hashes: &[H]) -> Option<(H, usize, usize)> {
    fn go(n: u64, bits: &[bool], hashes: &[H], h: u32, p: u64, bu: &mut usize, hu: &mut usize) -> Option<H> {
        if *bu >= bits.len() { return None; }
        let m = bits[*bu]; *bu += 1;
        if h == 0 || !m { if *hu >= hashes.len() { return None; } let x = hashes[*hu]; *hu += 1; Some(x) }
        else {
            let l = go(n, bits, hashes, h - 1, 2 * p, bu, hu)?;
            let r = if 2 * p + 1 < width(n, h - 1) { go(n, bits, hashes, h - 1, 2 * p + 1, bu, hu)? } else { l };
            Some(h2(&l, &r))
        }
    }
    if n == 0 { return None; }
    let (mut bu, mut hu) = (0, 0);
    let r = go(n, bits, hashes, height(n), 0, &mut bu, &mut hu)?;
    Some((r, bu, hu))
}
fn unpack(flags: &[u8]) -> Vec<bool> { (0..flags.len() * 8).map(|i| (flags[i / 8] >> (i % 8)) & 1 == 1).collect() }

// ------------------------------------------------------------------ Block::validate fixtures

const FUND_OUTPUTS: usize = 700;
/// a fixed transaction with many anyone-can-spend (OP_1) outputs; the non-coinbase transactions of
/// a generated block spend its outputs, so that `Block::validate` succeeds iff the root check does
fn funding_tx() -> Tx {
    Tx { version: 1,
         inputs: vec![TxIn { prev_output: OutPoint { hash: Hash256([7; 32]), index: 0 }, unlock_script: Script(vec![]), sequence: 0 }],
         outputs: (0..FUND_OUTPUTS).map(|_| TxOut { satoshis: 1000, lock_script: Script(vec![0x51]) }).collect(),
         lock_time: 0 }
}
fn gen_block_txs(n: usize, rng: &mut Rng, fund: &Hash256) -> Vec<Tx> {
    (0..n).map(|i| {
        if i == 0 {
            Tx { version: rng.next() as u32, inputs: vec![TxIn { prev_output: OutPoint { hash: COINBASE_OUTPOINT_HASH, index: COINBASE_OUTPOINT_INDEX }, unlock_script: Script(rng.bytes(4)), sequence: rng.next() as u32 }],
                 outputs: vec![TxOut { satoshis: rng.below(5000) as i64, lock_script: Script(vec![0x51]) }], lock_time: 0 }
        } else {
            Tx { version: rng.next() as u32, inputs: vec![TxIn { prev_output: OutPoint { hash: *fund, index: (i % FUND_OUTPUTS) as u32 }, unlock_script: Script(vec![]), sequence: rng.next() as u32 }],
                 outputs: vec![TxOut { satoshis: rng.below(1001) as i64, lock_script: Script(rng.bytes(3)) }], lock_time: (rng.next() as u32) & 0x7fff_ffff }
        }
    }).collect()
}
// ------------------------------------------------------------------ whole-block fixtures (c14.blockv / c14.binputs)

const NETS: [Network; 7] = [Network::BSV_Mainnet, Network::BSV_Testnet, Network::BSV_STN, Network::BTC_Mainnet, Network::BTC_Testnet, Network::BCH_Mainnet, Network::BCH_Testnet];
const BKEY: [u8; 32] = [0x11; 32];

fn bkey_pub() -> Vec<u8> {
    k256::ecdsa::SigningKey::from_slice(&BKEY).unwrap().verifying_key().to_encoded_point(true).as_bytes().to_vec()
}
/// second funding transaction: even outputs are `OP_1 OP_RETURN` (spendable under the Genesis rules only), odd outputs pay to
/// the fixed public key (`<pk> OP_CHECKSIG`)
fn funding_tx2() -> Tx {
    let pk = bkey_pub();
    let mut p2pk = vec![pk.len() as u8]; p2pk.extend_from_slice(&pk); p2pk.push(0xac);
    Tx { version: 1,
         inputs: vec![TxIn { prev_output: OutPoint { hash: Hash256([8; 32]), index: 0 }, unlock_script: Script(vec![]), sequence: 0 }],
         outputs: (0..64).map(|i| TxOut { satoshis: 1000, lock_script: Script(if i % 2 == 0 { vec![0x51, 0x6a] } else { p2pk.clone() }) }).collect(),
         lock_time: 0 }
}
/// one transaction per kind letter: c coinbase, v anyone-can-spend, x missing utxo, g Genesis-only, l legacy-signed (valid only
/// where FORKID is not required), f FORKID-signed, d spends the same outpoint as the previous non-coinbase transaction
fn kind_txs(kinds: &str, f1: &Hash256, f2: &Tx) -> Option<Vec<Tx>> {
    let f2h = f2.hash();
    let mut txs: Vec<Tx> = Vec::new();
    let mut last: Option<OutPoint> = None;
    for (i, k) in kinds.chars().enumerate() {
        let plain = |op: OutPoint, us: Vec<u8>| Tx { version: 2, inputs: vec![TxIn { prev_output: op, unlock_script: Script(us), sequence: 0xffff_fffe }],
                                                     outputs: vec![TxOut { satoshis: 1 + i as i64, lock_script: Script(vec![0x51]) }], lock_time: 0 };
        let t = match k {
            'c' => plain(OutPoint { hash: COINBASE_OUTPOINT_HASH, index: COINBASE_OUTPOINT_INDEX }, vec![2, i as u8, 7]),
            'v' => plain(OutPoint { hash: *f1, index: (i % FUND_OUTPUTS) as u32 }, vec![]),
            'x' => plain(OutPoint { hash: Hash256([0xee; 32]), index: i as u32 }, vec![]),
            'g' => plain(OutPoint { hash: f2h, index: (2 * (i % 32)) as u32 }, vec![]),
            'd' => plain(last.clone()?, vec![]),
            'l' | 'f' => {
                let idx = 2 * (i % 32) + 1;
                let mut t = plain(OutPoint { hash: f2h, index: idx as u32 }, vec![]);
                let ty: u8 = if k == 'l' { 0x01 } else { 0x41 };
                let mut cache = chain_gang::transaction::sighash::SigHashCache::new();
                let h = chain_gang::transaction::sighash::sighash(&t, 0, &f2.outputs[idx].lock_script.0, 1000, ty, &mut cache).ok()?;
                let sig = chain_gang::transaction::generate_signature(&BKEY, &h, ty).ok()?;
                let mut us = vec![sig.len() as u8]; us.extend_from_slice(&sig);
                t.inputs[0].unlock_script = Script(us);
                t
            }
            _ => return None,
        };
        if k != 'c' { last = Some(t.inputs[0].prev_output.clone()); }
        txs.push(t);
    }
    Some(txs)
}

fn ser_tx(t: &Tx) -> Vec<u8> { let mut v = Vec::new(); t.write(&mut v).unwrap(); v }

// ------------------------------------------------------------------ exec

fn mb_outcome(n: u32, root: &[u8], flags: Vec<u8>, hashes: Vec<Hash256>) -> String {
    let mb = MerkleBlock { header: BlockHeader { merkle_root: h256(root), ..Default::default() }, total_transactions: n, hashes, flags };
    match mb.validate() {
        Ok(m) => format!("ok:{}", hex_list(&m.iter().map(|h| h.0).collect::<Vec<_>>())),
        Err(e) => err_class(&e),
    }
}

pub fn exec(op: &str, a: &[&str]) -> Option<String> {
    match op {
        "c14.mb" => {
            let n: u32 = a[0].parse().unwrap();
            let hashes: Vec<Hash256> = parse_hex_list(a[3]).iter().map(|h| h256(h)).collect();
            Some(mb_outcome(n, &unhexd(a[1]), unhexd(a[2]), hashes))
        }
        "c14.built" => {
            let n: usize = a[0].parse().unwrap();
            let seed: u64 = a[1].parse().unwrap();
            let mask: Vec<bool> = if a[2] == "-" { vec![] } else { a[2].chars().map(|c| c == '1').collect() };
            let ids = seeded_ids(seed, n);
            let b = build_full(&ids, &mask);
            Some(mb_outcome(n as u32, &b.root, pack(&b.bits), b.hashes.iter().map(|h| Hash256(*h)).collect()))
        }
        // c14.blockv <network 0..6> <height> <root ok 0|1> <kinds>: Block::validate on a block assembled from kind letters
        "c14.blockv" => {
            let (Ok(ni), Ok(height)) = (a[0].parse::<usize>(), a[1].parse::<i32>()) else { return Some("bad-request".into()) };
            if ni >= NETS.len() { return Some("bad-request".into()); }
            let f1 = funding_tx(); let f2 = funding_tx2();
            let Some(txns) = kind_txs(if a[3] == "-" { "" } else { a[3] }, &f1.hash(), &f2) else { return Some("bad-request".into()) };
            let ids: Vec<H> = txns.iter().map(|t| t.hash().0).collect();
            let mut root = if ids.is_empty() { [0u8; 32] } else { *levels(&ids).last().unwrap().last().unwrap() };
            if a[2] != "1" { root[5] ^= 0x10; }
            let block = Block { header: BlockHeader { merkle_root: Hash256(root), ..Default::default() }, txns };
            let utxos = Block { header: Default::default(), txns: vec![f1, f2] }.outputs().unwrap();
            Some(match block.validate(height, NETS[ni], &utxos, &HashSet::new()) { Ok(()) => "ok".into(), Err(e) => err_class(&e) })
        }
        // c14.binputs <kinds>: Block::inputs -> ok:<number of outpoints> | err:<Variant>
        "c14.binputs" => {
            let f1 = funding_tx(); let f2 = funding_tx2();
            let Some(txns) = kind_txs(if a[0] == "-" { "" } else { a[0] }, &f1.hash(), &f2) else { return Some("bad-request".into()) };
            let block = Block { header: Default::default(), txns };
            Some(match block.inputs() { Ok(s) => format!("ok:{}", s.len()), Err(e) => err_class(&e) })
        }
        "c14.block" => {
            let txns: Vec<Tx> = parse_hex_list(a[1]).iter().map(|b| Tx::read(&mut Cursor::new(b)).expect("tx")).collect();
            let block = Block { header: BlockHeader { merkle_root: h256(&unhexd(a[0])), ..Default::default() }, txns };
            let fund = Block { header: Default::default(), txns: vec![funding_tx()] };
            let utxos = fund.outputs().unwrap();
            Some(match block.validate(0, Network::BSV_Mainnet, &utxos, &HashSet::new()) { Ok(()) => "ok".into(), Err(e) => err_class(&e) })
        }
        _ => None,
    }
}

// ------------------------------------------------------------------ gen

fn mb_line(n: u64, root: &H, flags: &[u8], hashes: &[H]) -> String {
    format!("c14.mb {} {} {} {}", n, hex::encode(root), hexd(flags), hex_list(hashes))
}
fn flip(h: &H, bit: usize) -> H { let mut x = *h; x[bit / 8] ^= 1 << (bit % 8); x }

/// every single-bit, single-hash, hash-count, flag-length, declared-count and root mutation
fn mutations(n: u64, b: &Built, rng: &mut Rng, out: &mut Vec<String>, counts_extra: bool) {
    let flags = pack(&b.bits);
    // every flag bit, padding included
    for i in 0..flags.len() * 8 { let mut f = flags.clone(); f[i / 8] ^= 1 << (i % 8); out.push(mb_line(n, &b.root, &f, &b.hashes)); }
    // every hash: one bit altered; replaced by its neighbour (duplicate); removed
    for i in 0..b.hashes.len() {
        let mut hs = b.hashes.clone(); hs[i] = flip(&hs[i], rng.below(256) as usize); out.push(mb_line(n, &b.root, &flags, &hs));
        if b.hashes.len() > 1 { let mut hs = b.hashes.clone(); hs[i] = hs[(i + 1) % hs.len()]; out.push(mb_line(n, &b.root, &flags, &hs)); }
        let mut hs = b.hashes.clone(); hs.remove(i); out.push(mb_line(n, &b.root, &flags, &hs));
        if i + 1 < b.hashes.len() { let mut hs = b.hashes.clone(); hs.swap(i, i + 1); out.push(mb_line(n, &b.root, &flags, &hs)); }
    }
    // surplus data
    { let mut hs = b.hashes.clone(); hs.push(*b.hashes.last().unwrap()); out.push(mb_line(n, &b.root, &flags, &hs)); }
    { let mut hs = b.hashes.clone(); let mut x = [0u8; 32]; x.copy_from_slice(&rng.bytes(32)); hs.push(x); out.push(mb_line(n, &b.root, &flags, &hs)); }
    { let mut hs = b.hashes.clone(); hs.insert(0, b.root); out.push(mb_line(n, &b.root, &flags, &hs)); }
    for extra in [0u8, 1, 0xff] { let mut f = flags.clone(); f.push(extra); out.push(mb_line(n, &b.root, &f, &b.hashes)); }
    { let mut f = flags.clone(); f.pop(); out.push(mb_line(n, &b.root, &f, &b.hashes)); }
    out.push(mb_line(n, &b.root, &[], &b.hashes));
    out.push(mb_line(n, &b.root, &flags, &[]));
    // declared count
    let mut counts: Vec<u64> = vec![0, n.saturating_sub(1), n + 1, n + 2, n * 2, (n + 1) / 2, 1];
    if counts_extra { counts.extend([2 * n - 1, 2 * n + 1, n.next_power_of_two(), n.next_power_of_two() + 1, u32::MAX as u64, 1 << 31, (1 << 31) + 1, rng.range(1, 2 * n + 2)]); }
    counts.sort(); counts.dedup();
    for c in counts { if c != n && c <= u32::MAX as u64 { out.push(mb_line(c, &b.root, &flags, &b.hashes)); } }
    // root
    out.push(mb_line(n, &flip(&b.root, rng.below(256) as usize), &flags, &b.hashes));
    out.push(mb_line(n, &b.hashes[0], &flags, &b.hashes));
}

fn random_mask(n: usize, rng: &mut Rng, style: u64) -> Vec<bool> {
    match style {
        0 => vec![false; n],
        1 => vec![true; n],
        2 => { let mut m = vec![false; n]; m[rng.below(n as u64) as usize] = true; m }
        3 => { let mut m = vec![false; n]; m[n - 1] = true; m }
        4 => { let mut m = vec![false; n]; for _ in 0..3 { m[rng.below(n as u64) as usize] = true; } m }
        5 => (0..n).map(|_| rng.chance(1, 10)).collect(),
        _ => (0..n).map(|_| rng.chance(1, 2)).collect(),
    }
}
fn mask_str(m: &[bool]) -> String { if m.is_empty() { "-".into() } else { m.iter().map(|b| if *b { '1' } else { '0' }).collect() } }

/// whole blocks: every network x heights around the four activation heights x kind strings
fn gen_blocks(thorough: bool, rng: &mut Rng, out: &mut Vec<String>) {
    let hs: Vec<i64> = {
        let c = [chain_gang::util::BITCOIN_CASH_FORK_HEIGHT_MAINNET as i64, chain_gang::util::BITCOIN_CASH_FORK_HEIGHT_TESTNET as i64,
                 chain_gang::util::GENESIS_UPGRADE_HEIGHT_MAINNET as i64, chain_gang::util::GENESIS_UPGRADE_HEIGHT_TESTNET as i64];
        let mut v = vec![-1i64, 0, 1, i32::MAX as i64, i32::MIN as i64];
        for x in c { v.extend([x - 1, x, x + 1]); }
        v
    };
    let fixed = ["c", "cv", "vc", "cg", "cl", "cf", "cgl", "clg", "cvf", "cc", "ccv", "vcc", "v", "-", "cx", "cxg", "cgx", "clx", "cvvvvc", "gcl", "cfl"];
    for ni in 0..7 {
        for h in &hs {
            for k in fixed.iter() { out.push(format!("c14.blockv {} {} 1 {}", ni, h, k)); }
            out.push(format!("c14.blockv {} {} 0 cv", ni, h));
        }
    }
    let n = if thorough { 6000 } else { 600 };
    for _ in 0..n {
        let len = rng.range(0, 7) as usize;
        let k: String = (0..len).map(|_| *rng.pick(&['c', 'v', 'v', 'g', 'l', 'f', 'x'])).collect();
        let k = if rng.chance(2, 3) && !k.contains('c') { format!("c{}", k) } else { k };
        out.push(format!("c14.blockv {} {} {} {}", rng.below(7), rng.pick(&hs), if rng.chance(9, 10) { 1 } else { 0 }, if k.is_empty() { "-".to_string() } else { k }));
    }
    for k in ["-", "c", "cv", "cvv", "cvd", "vd", "cvgd", "vcd", "cvvgl", "cdv", "vvdv", "cvcv"] { out.push(format!("c14.binputs {}", k)); }
    for _ in 0..(if thorough { 2000 } else { 200 }) {
        let len = rng.range(1, 8) as usize;
        let k: String = (0..len).map(|_| *rng.pick(&['c', 'v', 'v', 'g', 'd', 'd', 'x'])).collect();
        out.push(format!("c14.binputs {}", k));
    }
}

pub fn gen(tier: &str, rng: &mut Rng, out: &mut Vec<String>) {
    gen_blocks(tier == "thorough", &mut rng.fork(), out);
    let thorough = tier == "thorough";
    let seed = rng.next() & 0xffff_ffff;

    // (a) every matched subset for small counts: explicit proof lines + every mutation of each
    let exhaustive_to = if thorough { 10 } else { 7 };
    let mutate_to = if thorough { 8 } else { 6 };
    for n in 1..=exhaustive_to {
        let ids = seeded_ids(seed + n as u64, n);
        for sub in 0u32..(1 << n) {
            let mask: Vec<bool> = (0..n).map(|i| (sub >> i) & 1 == 1).collect();
            let b = build_full(&ids, &mask);
            out.push(mb_line(n as u64, &b.root, &pack(&b.bits), &b.hashes));
            out.push(format!("c14.built {} {} {}", n, seed + n as u64, mask_str(&mask)));
            if n <= mutate_to || sub % 37 == 5 { mutations(n as u64, &b, rng, out, n <= 5 || sub % 5 == 0); }
        }
    }
    // (b) counts up to 600 with random subsets: sparse ones as explicit lines (with mutations for some),
    //     dense ones through c14.built (short request lines)
    for n in (exhaustive_to + 1)..=600 {
        let s = seed + 1000 + n as u64;
        let ids = seeded_ids(s, n);
        let reps = if thorough { 6 } else { 1 };
        for r in 0..reps {
            let style = if r == 0 { [2u64, 3, 4, 0][n % 4] } else { *rng.pick(&[0u64, 2, 3, 4, 4, 5]) };
            let mask = random_mask(n, rng, style);
            let b = build_full(&ids, &mask);
            // dense proofs go through c14.built below (short request lines); explicit lines stay small
            if b.hashes.len() > 48 { out.push(format!("c14.built {} {} {}", n, s, mask_str(&mask))); continue; }
            out.push(mb_line(n as u64, &b.root, &pack(&b.bits), &b.hashes));
            let near_pow2 = n.is_power_of_two() || (n + 1).is_power_of_two() || (n - 1).is_power_of_two();
            if n % (if thorough { 7 } else { 41 }) == 0 || (n < 40 && r == 0) || (near_pow2 && r == 0) {
                mutations(n as u64, &b, rng, out, true);
            }
            let dense = random_mask(n, rng, [5u64, 6, 1, 4][(n + r) % 4]);
            out.push(format!("c14.built {} {} {}", n, s, mask_str(&dense)));
        }
    }
    // (c) very large declared counts: 2^k, 2^k±1 up to 2^31 (and 2^32-1), sparse proofs along the
    //     left, right and random spines, two spines, several leaves, and no match at all
    let mut bigs: Vec<u64> = vec![];
    for k in 1..=31u32 { let p = 1u64 << k; bigs.extend([p - 1, p, p + 1]); }
    bigs.extend([(1u64 << 32) - 1, (1u64 << 32) - 2, 3 << 20, 0xdead_beef, 1_000_000, 16_777_217 + 2]);
    bigs.sort(); bigs.dedup();
    for (bi, n) in bigs.iter().enumerate() {
        let n = *n;
        if n < 1 { continue; }
        let s = seed + 5000 + bi as u64;
        let mut target_sets: Vec<Vec<u64>> = vec![vec![0], vec![n - 1], vec![rng.below(n)], vec![0, n - 1], vec![]];
        let mut t: Vec<u64> = (0..4).map(|_| rng.below(n)).collect(); t.push(n - 1); t.sort(); t.dedup(); target_sets.push(t);
        if n > 2 { target_sets.push(vec![n - 2]); target_sets.push(vec![(n - 1) / 2, (n - 1) / 2 + 1]); }
        if thorough { for _ in 0..6 { let mut t: Vec<u64> = (0..rng.range(1, 6)).map(|_| rng.below(n)).collect(); t.sort(); t.dedup(); target_sets.push(t); } }
        for (ti, t) in target_sets.iter().enumerate() {
            let b = build_sparse(n, t, s + 100 * ti as u64);
            out.push(mb_line(n, &b.root, &pack(&b.bits), &b.hashes));
            if ti < 3 && (thorough || n > 1 << 19 || bi % 3 == 0) { mutations(n, &b, rng, out, false); }
        }
    }
    // (d) malformed objects: random flags and hashes from a small pool (equal siblings occur), the
    //     header root set to what the reference extractor computes whenever it computes one
    let n_mal = if thorough { 250000 } else { 6000 };
    let pool: Vec<H> = seeded_ids(seed + 9, 6);
    for _ in 0..n_mal {
        let n = if rng.chance(1, 12) { *rng.pick(&bigs) } else if rng.chance(1, 30) { 0 } else { rng.range(1, 40) };
        let fl = rng.range(0, 3) as usize; let flags = rng.bytes(fl);
        let hl = rng.range(0, 9); let hashes: Vec<H> = (0..hl).map(|_| *rng.pick(&pool)).collect();
        let bits = unpack(&flags);
        let root = match ref_extract(n, &bits, &hashes) { Some((r, _, _)) if !rng.chance(1, 20) => r, _ => pool[0] };
        out.push(mb_line(n, &root, &flags, &hashes));
        // trimmed to exactly what the traversal uses: passes the all-consumed checks
        if let Some((r, bu, hu)) = ref_extract(n, &bits, &hashes) {
            if rng.chance(1, 2) { out.push(mb_line(n, &r, &flags[..(bu + 7) / 8], &hashes[..hu])); }
        }
    }
    // (e) Block::validate's root check: real transactions, claimed root right / wrong in several ways
    let fund = funding_tx().hash();
    let mut block_counts: Vec<usize> = (1..=(if thorough { 130 } else { 34 })).collect();
    block_counts.extend(if thorough { vec![255, 256, 257, 511, 512, 513, 600] } else { vec![63, 64, 65, 127, 129, 257] });
    for n in block_counts {
        let txs = gen_block_txs(n, rng, &fund);
        let ids: Vec<H> = txs.iter().map(|t| t.hash().0).collect();
        let ser = txs.iter().map(|t| hex::encode(ser_tx(t))).collect::<Vec<_>>().join(",");
        let root = *levels(&ids).last().unwrap().last().unwrap();
        out.push(format!("c14.block {} {}", hex::encode(root), ser));
        out.push(format!("c14.block {} {}", hex::encode(flip(&root, rng.below(256) as usize)), ser));
        // a root computed WITHOUT duplicating the last node of odd levels (odd node promoted unchanged)
        let mut cur = ids.clone();
        while cur.len() > 1 { let mut nx = vec![]; let mut i = 0; while i < cur.len() { if i + 1 < cur.len() { nx.push(h2(&cur[i], &cur[i + 1])); } else { nx.push(cur[i]); } i += 2; } cur = nx; }
        out.push(format!("c14.block {} {}", hex::encode(cur[0]), ser));
        // root of the list without its last id / of the reversed list
        if n > 1 { let r2 = *levels(&ids[..n - 1]).last().unwrap().last().unwrap(); out.push(format!("c14.block {} {}", hex::encode(r2), ser)); }
        { let mut rev = ids.clone(); rev.reverse(); let r3 = *levels(&rev).last().unwrap().last().unwrap(); out.push(format!("c14.block {} {}", hex::encode(r3), ser)); }
        // the last transaction repeated: for odd n the Bitcoin root is the same (CVE-2012-2459 shape)
        if n >= 2 { let ser2 = format!("{},{}", ser, hex::encode(ser_tx(&txs[n - 1]))); out.push(format!("c14.block {} {}", hex::encode(root), ser2)); }
    }
}

//! C16 — script construction (`append_data`, `append_num`), the P2PKH templates and the text form
//! (`Script::string_representation(false)`; `parse_string` lives behind the `python` feature and is
//! exercised by the python stage of checks/C16.py).
use crate::rng::Rng;
use crate::scriptgen::*;
use crate::util::*;
use chain_gang::script::stack::decode_num;
use chain_gang::script::Script;
use chain_gang::transaction::generate_signature;
use chain_gang::transaction::p2pkh::*;
use chain_gang::util::{sha256d, Hash160, Hash256};

/// long byte strings are compared by length and double SHA-256 (both sides can compute it)
pub fn compact(b: &[u8]) -> String {
    if b.is_empty() { "-".into() } else if b.len() <= 120 { hex::encode(b) } else { format!("#{}.{}", b.len(), hex::encode(sha256d(b).0)) }
}

/// data specs: `x:<hex>` literal, `r:<len>:<fill>:<step>` = byte i is (fill + i*step) mod 256
pub fn expand(spec: &str) -> Vec<u8> {
    let p: Vec<&str> = spec.split(':').collect();
    match p[0] {
        "x" => unhexd(p[1]),
        "r" => { let n: usize = p[1].parse().unwrap(); let f: u64 = p[2].parse().unwrap(); let s: u64 = p[3].parse().unwrap();
                 (0..n as u64).map(|i| (f.wrapping_add(i.wrapping_mul(s)) & 0xff) as u8).collect() }
        _ => panic!("bad data spec"),
    }
}

fn tf(b: bool) -> &'static str { if b { "t" } else { "f" } }
fn res_bytes(r: Result<Vec<u8>, chain_gang::util::ChainGangError>) -> String {
    match r { Ok(v) => format!("ok.{}", hexd(&v)), Err(e) => err_class(&e).replace(':', ".") }
}

/// `[u8]` the printer prints for the one-byte script `[b]` (bytes 1..=78 start pushes: not a name)
fn printer_name(b: u8) -> String { if (1..=78).contains(&b) { "-".into() } else { Script(vec![b]).string_representation(false) } }

/// strict line grammar for src/python/op_code_names.rs: `("NAME", N),` (comment lines are skipped)
pub fn parser_names() -> Vec<(String, u64)> {
    let path = format!("{}/src/python/op_code_names.rs", env!("CG_REPO"));
    let src = std::fs::read_to_string(&path).unwrap_or_default();
    let mut t = vec![];
    for line in src.lines() {
        let l = line.trim();
        if !l.starts_with("(\"") { continue; }
        let rest = &l[2..];
        if let Some(q) = rest.find('"') {
            let name = &rest[..q];
            let tail = rest[q + 1..].trim_start_matches(',').trim();
            let num: String = tail.chars().take_while(|c| c.is_ascii_digit()).collect();
            if let Ok(v) = num.parse::<u64>() { t.push((name.to_string(), v)); }
        }
    }
    t
}

/// signature lengths (incl. the sighash byte) for which the recognisers accept the library's own unlock script
fn unlock_window() -> Vec<usize> {
    (0..=80usize).filter(|l| { let s = create_unlock_script(&vec![0x30u8; *l], &[2u8; 33]); check_unlock_script(&s.0) && extract_pubkey(&s.0).is_ok() }).collect()
}

pub fn tables(w: &mut dyn std::io::Write) {
    let win = unlock_window();
    writeln!(w, "LIST C16_UNLOCK_WINDOW {}", win.iter().map(|x| x.to_string()).collect::<Vec<_>>().join(" ")).unwrap();
}

fn eval_summary(s: &Script, flags: u32) -> String {
    let mut chk = Scripted::parse("-:t:t");
    match s.eval_with_stack(&mut chk, flags, None, None, None, None) {
        Ok((st, alt, _)) => { let top = st.last().cloned().unwrap_or_default(); format!("ok:{}:{}:{}", st.len(), alt.len(), compact(&top)) }
        Err(e) => err_class(&e).replace(':', "."),
    }
}

pub fn exec(op: &str, a: &[&str]) -> Option<String> {
    match op {
        // c16.names → printer texts of all 256 one-byte scripts | parser table
        "c16.names" => {
            let p: Vec<String> = (0..=255u8).map(|b| hex::encode(printer_name(b).as_bytes())).collect();
            let q: Vec<String> = parser_names().iter().map(|(n, v)| format!("{}={}", hex::encode(n.as_bytes()), v)).collect();
            Some(format!("ok:{}|{}", p.join(","), q.join(",")))
        }
        // c16.push <data-spec> <flags>
        "c16.push" => {
            let d = expand(a[0]); let flags: u32 = a[1].parse().unwrap();
            let mut s = Script::new(); s.append_data(&d);
            let pre = &s.0[..s.0.len() - d.len()];
            Some(format!("ok:{}:{}:{}:{}", hexd(pre), s.0.len(), compact(&s.0), eval_summary(&s, flags)))
        }
        // c16.pushn <flags> <data-spec>...: several pushes built one after the other, then evaluated: every item, bottom first
        "c16.pushn" => {
            let flags: u32 = a[0].parse().unwrap();
            let mut s = Script::new(); for sp in &a[1..] { s.append_data(&expand(sp)); }
            let mut chk = Scripted::parse("-:t:t");
            let ev = match s.eval_with_stack(&mut chk, flags, None, None, None, None) {
                Ok((st, alt, _)) => format!("ok:{}:{}:{}", st.len(), alt.len(), st.iter().map(|i| compact(i)).collect::<Vec<_>>().join(",")),
                Err(e) => err_class(&e).replace(':', "."),
            };
            Some(format!("ok:{}:{}:{}", s.0.len(), compact(&s.0), ev))
        }
        // c16.num <n> <flags>
        "c16.num" => {
            let (Ok(n), Ok(flags)) = (a[0].parse::<i32>(), a[1].parse::<u32>()) else { return Some("bad-request".into()) };
            let mut s = Script::new();
            if let Err(e) = s.append_num(n) { return Some(err_class(&e)); }
            let mut chk = Scripted::parse("-:t:t");
            let dec = match s.eval_with_stack(&mut chk, flags, None, None, None, None) {
                Ok((st, _, _)) => match st.last() { Some(t) => match decode_num(t) { Ok(v) => format!("{}.{}", st.len(), v), Err(e) => err_class(&e).replace(':', ".") }, None => "empty".into() },
                Err(e) => err_class(&e).replace(':', "."),
            };
            Some(format!("ok:{}:{}", hexd(&s.0), dec))
        }
        // c16.lock <hash20> <other hash20>
        "c16.lock" => {
            let mut h = [0u8; 20]; h.copy_from_slice(&unhexd(a[0])); let mut o = [0u8; 20]; o.copy_from_slice(&unhexd(a[1]));
            let s = create_lock_script(&Hash160(h));
            let ext = match extract_pubkeyhash(&s.0) { Ok(x) => format!("ok.{}", hexd(&x.0)), Err(e) => err_class(&e).replace(':', ".") };
            Some(format!("ok:{}:{}:{}:{}:{}", hexd(&s.0), tf(check_lock_script(&s.0)), ext, tf(check_lock_script_addr(&Hash160(h), &s.0)), tf(check_lock_script_addr(&Hash160(o), &s.0))))
        }
        // c16.unlock <sig> <pk> <other pk>   (c16.libsig: same call, the signature came from generate_signature)
        "c16.unlock" | "c16.libsig" => {
            let sig = unhexd(a[0]); let pk = unhexd(a[1]); let other = unhexd(a[2]);
            let s = if pk.len() == 33 { let mut k = [0u8; 33]; k.copy_from_slice(&pk); create_unlock_script(&sig, &k) }
                    else { let mut s = Script::new(); s.append_data(&sig); s.append_data(&pk); s };
            Some(format!("ok:{}:{}:{}:{}:{}", compact(&s.0), tf(check_unlock_script(&s.0)), res_bytes(extract_pubkey(&s.0)),
                         tf(check_unlock_script_addr(&pk, &s.0)), tf(check_unlock_script_addr(&other, &s.0))))
        }
        // c16.gensig <priv32> <digest32> <sighash type>: the library's own signature through its own templates
        "c16.gensig" => {
            let mut k = [0u8; 32]; k.copy_from_slice(&unhexd(a[0])); let mut d = [0u8; 32]; d.copy_from_slice(&unhexd(a[1])); let t: u8 = a[2].parse().unwrap();
            let sig = match generate_signature(&k, &Hash256(d), t) { Ok(s) => s, Err(e) => return Some(err_class(&e)) };
            let sk = k256::ecdsa::SigningKey::from_slice(&k).unwrap();
            let pkv = sk.verifying_key().to_sec1_bytes().to_vec(); let mut pk = [0u8; 33]; pk.copy_from_slice(&pkv);
            let s = create_unlock_script(&sig, &pk);
            let der_ok = (9..=73).contains(&sig.len()) && sig[0] == 0x30 && sig[1] as usize == sig.len() - 3 && *sig.last().unwrap() == t;
            Some(format!("ok:{}:{}:{}:{}", tf(der_ok), tf(check_unlock_script(&s.0)), tf(extract_pubkey(&s.0).ok() == Some(pkv.clone())), tf(check_unlock_script_addr(&pkv, &s.0))))
        }
        // c16.chk <script>: the recognisers on arbitrary bytes
        "c16.chk" => {
            let s = unhexd(a[0]); let pk = unhexd(a[1]);
            let eh = match extract_pubkeyhash(&s) { Ok(x) => format!("ok.{}", hexd(&x.0)), Err(e) => err_class(&e).replace(':', ".") };
            Some(format!("ok:{}:{}:{}:{}:{}", tf(check_lock_script(&s)), eh, tf(check_unlock_script(&s)), res_bytes(extract_pubkey(&s)), tf(check_unlock_script_addr(&pk, &s))))
        }
        // c16.print <script>: the text printer
        "c16.print" => {
            let s = Script(unhexd(a[0]));
            Some(format!("ok:{}", compact(s.string_representation(false).as_bytes())))
        }
        _ => None,
    }
}

// ------------------------------------------------------------------------------------------ generation

fn data_spec(rng: &mut Rng, len: usize) -> String {
    if len <= 40 && rng.chance(1, 2) { format!("x:{}", hexd(&rng.bytes(len))) } else { format!("r:{}:{}:{}", len, rng.below(256), *rng.pick(&[0u64, 1, 3, 7, 255, 101])) }
}

/// lengths 0..=70000, dense around the class boundaries
pub fn push_lengths(tier: &str, rng: &mut Rng) -> Vec<usize> {
    let mut v: Vec<usize> = vec![];
    v.extend(0..=300);                       // every length across 75/76 and 255/256
    v.extend(65500..=65570);                 // every length across 65535/65536
    v.extend([69999, 70000, 32767, 32768, 1000, 4096, 16384, 50000]);
    let n = if tier == "thorough" { 4000 } else { 250 };
    for _ in 0..n { v.push(match rng.below(4) { 0 => rng.range(0, 300), 1 => rng.range(250, 4000), 2 => rng.range(65000, 66000), _ => rng.range(0, 70000) } as usize); }
    if tier == "thorough" { v.extend((300..70000).step_by(97)); }
    v
}

fn i32_pool(rng: &mut Rng) -> i32 {
    let b: [i64; 13] = [0, 1, 16, 17, 75, 76, 127, 128, 255, 32767, 32768, 8388607, 8388608];
    match rng.below(5) {
        0 => { let v = *rng.pick(&b); (if rng.chance(1, 2) { v } else { -v }) as i32 }
        1 => *rng.pick(&[i32::MAX, i32::MIN, i32::MIN + 1, i32::MAX - 1, -1, 2147483647, -2147483647]),
        2 => rng.range(0, 300) as i32 - 150,
        3 => (rng.next() as i32) >> rng.range(0, 31),
        _ => rng.next() as i32,
    }
}

/// a valid secp256k1 private key (top byte < 0xff keeps it below the group order)
fn priv_key(rng: &mut Rng) -> Vec<u8> { let mut k = rng.bytes(32); k[0] &= 0x7f; if k.iter().all(|b| *b == 0) { k[31] = 1; } k }

fn pubkey_of(k: &[u8]) -> Vec<u8> { k256::ecdsa::SigningKey::from_slice(k).unwrap().verifying_key().to_sec1_bytes().to_vec() }

/// scripts for the text form: opcode grammar + constructed corner cases
pub fn text_scripts(tier: &str, rng: &mut Rng) -> Vec<Vec<u8>> {
    let mut v: Vec<Vec<u8>> = vec![vec![]];
    // every byte value as an opcode between two small pushes / alone / after each push class
    for b in 0..=255u16 { let b = b as u8; if (1..=78).contains(&b) { continue; } v.push(vec![b]); v.push(vec![0x51, b, 0x52]); v.push(vec![0x01, 0xaa, b, 0x4c, 0x01, 0xbb, b]); }
    // all four push classes, each followed by every kind of item (op, unnamed op, direct push, pushdata1/2/4, small-number push)
    let followers: Vec<Vec<u8>> = vec![vec![], vec![0x76], vec![0x83], vec![0x02, 0x12, 0x34], vec![0x4c, 0x01, 0x07], vec![0x4d, 0x01, 0x00, 0x07], vec![0x4e, 0x01, 0, 0, 0, 0x07], vec![0x01, 0x11], vec![0x00], vec![0x4f], vec![0x60]];
    for class in 0..4u64 { for n in [0usize, 1, 2, 3, 16, 17, 75, 76, 77, 255, 256, 257, 600] {
        if class == 0 && n == 0 { continue; }
        for f1 in &followers { for f2 in [&followers[0], &followers[1], &followers[3]] { for f3 in [&followers[0], &followers[3]] { for f4 in [&followers[0], &followers[3]] {
            if (f2.is_empty() && !(f3.is_empty() && f4.is_empty())) || (f3.is_empty() && !f4.is_empty()) { continue; }
            if n > 80 && !(f3.is_empty()) && tier != "thorough" && !rng.chance(1, 4) { continue; }
            let d = rng.bytes(n); let mut s = vec![]; if rng.chance(1, 2) { s.push(0x51); }
            push_with(&mut s, &d, class); s.extend_from_slice(f1); s.extend_from_slice(f2); s.extend_from_slice(f3); s.extend_from_slice(f4); v.push(s);
        } } } }
    } }
    // large pushes
    for n in [65535usize, 65536, 70000] { let d = expand(&format!("r:{}:7:3", n)); let mut s = vec![0x51]; push_with(&mut s, &d, 0); s.push(0x76); v.push(s.clone()); s.extend_from_slice(&[0x02, 0x12, 0x34]); v.push(s); }
    { let d = expand("r:65535:1:5"); let mut s = vec![]; push_with(&mut s, &d, 3); s.extend_from_slice(&[0x51, 0x52, 0x02, 0x12, 0x34]); v.push(s); }
    // truncated scripts (the printer's `break` arms)
    for t in [vec![0x05u8, 1, 2], vec![0x51, 0x05, 1, 2], vec![0x4c], vec![0x51, 0x4c], vec![0x4c, 0x05, 1], vec![0x4d], vec![0x4d, 0x01], vec![0x4d, 0x02, 0x00, 0x01], vec![0x51, 0x4d, 0xff, 0xff, 1, 2, 3],
              vec![0x4e], vec![0x4e, 1, 0, 0], vec![0x4e, 2, 0, 0, 0, 9], vec![0x76, 0x4e, 0xff, 0xff, 0xff, 0xff, 1], vec![0x4b]] { v.push(t); }
    // grammar scripts (every opcode the interpreter executes appears; reserved/bad opcodes too)
    let n = if tier == "thorough" { 40_000 } else { 2_500 };
    for k in 0..n {
        let g = gen_script(rng, 1 + (k % 14));
        let mut s = g.script;
        if rng.chance(1, 25) && !s.is_empty() { let cut = rng.below(s.len() as u64) as usize; s.truncate(cut); }   // mostly well formed, some cut anywhere
        v.push(s);
    }
    // random item sequences biased to PUSHDATA2/4 neighbourhoods
    let m = if tier == "thorough" { 20_000 } else { 1_500 };
    for _ in 0..m {
        let mut s = vec![];
        for _ in 0..rng.range(1, 7) {
            match rng.below(8) {
                0 | 1 => s.push(*rng.pick(&[0x76u8, 0x87, 0x51, 0x00, 0x4f, 0x60, 0xac, 0x83, 0x98, 0x99, 0xb0, 0xb3, 0x93, 0x95, 0x8d, 0x8e, 0x50, 0x62, 0xba, 0xff])),
                2 => { let n = rng.range(1, 75) as usize; let d = rng.bytes(n); push_with(&mut s, &d, 0); }
                3 => { let n = rng.range(0, 90) as usize; let d = rng.bytes(n); push_with(&mut s, &d, 1); }
                4 | 5 => { let n = *rng.pick(&[0usize, 1, 3, 20, 256, 300]); let d = rng.bytes(n); push_with(&mut s, &d, 2); }
                6 => { let n = *rng.pick(&[0usize, 1, 3, 20, 256]); let d = rng.bytes(n); push_with(&mut s, &d, 3); }
                _ => { let d = enc_num(rng.range(0, 300) as i128 - 20); push_with(&mut s, &d, 0); }
            }
        }
        v.push(s);
    }
    v
}

pub fn gen(tier: &str, rng: &mut Rng, out: &mut Vec<String>) {
    // the text-form scripts come from a forked generator so that `gen C16 <tier>-text` (used by the python
    // stage) reproduces exactly the scripts of the main run
    let mut trng = rng.fork();
    let text_only = tier.ends_with("-text");
    let tier = tier.trim_end_matches("-text");
    let thorough = tier == "thorough";
    for s in text_scripts(tier, &mut trng) { out.push(format!("c16.print {}", hexd(&s))); }
    if text_only { return; }
    // pushes
    // pushes that are NOT the first element of the script: two or three pushes of lengths around every length-class boundary
    {
        let edges = [0usize, 1, 2, 75, 76, 77, 255, 256, 257, 300, 700, 65535, 65536, 65537];
        for &l1 in &edges { for &l2 in &edges {
            if l1 + l2 > 140_000 && !thorough { continue; }
            out.push(format!("c16.pushn {} {} {}", if (l1 + l2) % 3 == 0 { 1 } else { 0 }, data_spec(rng, l1), data_spec(rng, l2)));
        } }
        for _ in 0..(if thorough { 2000 } else { 150 }) {
            let n = 2 + rng.below(3) as usize;
            let specs: Vec<String> = (0..n).map(|_| { let l = match rng.below(6) { 0 => rng.range(0, 76), 1 => rng.range(76, 256), 2 => rng.range(256, 1000), 3 => rng.range(1000, 70_000), 4 => *rng.pick(&[75u64, 76, 255, 256, 65535, 65536]), _ => rng.range(0, 600) } as usize; data_spec(rng, l) }).collect();
            out.push(format!("c16.pushn {} {}", rng.below(2), specs.join(" ")));
        }
    }
    for len in push_lengths(tier, rng) { let flags = if rng.chance(1, 3) { 1 } else if rng.chance(1, 10) { rng.next() as u32 } else { 0 }; out.push(format!("c16.push {} {}", data_spec(rng, len), flags)); }
    // numbers
    for v in [0i64, 1, -1, 16, 17, -16, -17, 75, 76, 127, 128, -127, -128, 255, 256, 32767, 32768, -32767, -32768, 8388607, 8388608, -8388607, -8388608, 2147483647, -2147483647, -2147483648, 2147483646, -2147483646] {
        out.push(format!("c16.num {} 0", v)); out.push(format!("c16.num {} 1", v));
    }
    for _ in 0..(if thorough { 20_000 } else { 1_500 }) { out.push(format!("c16.num {} {}", i32_pool(rng), rng.below(2))); }
    // integer literals of the script sources (and their neighbours) as pushed numbers, both signs, and as push lengths
    for v in crate::harvest::ints(&["script/mod.rs", "script/stack.rs", "transaction/p2pkh.rs"], i32::MAX as u64) {   // append_num takes an i32
        out.push(format!("c16.num {} 0", v)); out.push(format!("c16.num -{} 1", v));
        if v <= 70_000 { out.push(format!("c16.push {} 0", data_spec(rng, v as usize))); }
    }
    // lock scripts
    for k in 0..(if thorough { 5_000 } else { 400 }) {
        let h = match k { 0 => vec![0u8; 20], 1 => vec![0xff; 20], 2 => vec![0x88; 20], 3 => vec![0xac; 20], _ => rng.bytes(20) };
        let mut o = h.clone(); if rng.chance(1, 2) { let i = rng.below(20) as usize; o[i] ^= 1 << rng.below(8); } else { o = rng.bytes(20); }
        out.push(format!("c16.lock {} {}", hexd(&h), hexd(&o)));
    }
    // unlock scripts: every signature length 0..=80 x key lengths (recognition window), random contents
    for sl in 0..=80usize { for pl in [33usize, 65, 0, 1, 32, 34, 64, 66, 75, 76] {
        let sig = rng.bytes(sl); let pk = rng.bytes(pl); let mut o = pk.clone(); if !o.is_empty() { let i = rng.below(o.len() as u64) as usize; o[i] ^= 0x10; } else { o.push(1); }
        out.push(format!("c16.unlock {} {} {}", hexd(&sig), hexd(&pk), hexd(&o)));
    } }
    for _ in 0..(if thorough { 5_000 } else { 300 }) {
        let sl = if rng.chance(3, 4) { rng.range(9, 73) } else { rng.range(0, 300) } as usize; let pl = *rng.pick(&[33usize, 33, 33, 65, 20]);
        let sig = rng.bytes(sl); let pk = rng.bytes(pl); let o = rng.bytes(pl);
        out.push(format!("c16.unlock {} {} {}", hexd(&sig), hexd(&pk), hexd(&o)));
    }
    // the library's own signatures: arbitrary keys and digests, all sighash bytes; grind digests for short DER encodings
    let nk = if thorough { 60 } else { 12 };
    for ki in 0..nk {
        let k = match ki { 0 => { let mut k = vec![0u8; 32]; k[31] = 1; k } 1 => hex::decode("fffffffffffffffffffffffffffffffebaaedce6af48a03bbfd25e8cd0364140").unwrap(), _ => priv_key(rng) };
        let pk = pubkey_of(&k); let mut ka = [0u8; 32]; ka.copy_from_slice(&k);
        let other = rng.bytes(33);
        let mut short_found = 0;
        for j in 0..(if thorough { 1200 } else { 450 }) {
            let d = if j == 0 { vec![0u8; 32] } else if j == 1 { vec![0xff; 32] } else { rng.bytes(32) };
            let t = if j % 3 == 0 { 0x41 } else { rng.byte() };
            let mut da = [0u8; 32]; da.copy_from_slice(&d);
            let sig = generate_signature(&ka, &Hash256(da), t).unwrap();
            let short = sig.len() <= 70;
            if j < 12 || (short && short_found < 6) {
                out.push(format!("c16.gensig {} {} {}", hexd(&k), hexd(&d), t));
                out.push(format!("c16.libsig {} {} {}", hexd(&sig), hexd(&pk), hexd(&other)));
                if short { short_found += 1; }
            }
        }
    }
    // invalid private keys
    out.push(format!("c16.gensig {} {} 65", hexd(&[0u8; 32]), hexd(&[1u8; 32])));
    out.push(format!("c16.gensig {} {} 65", "fffffffffffffffffffffffffffffffebaaedce6af48a03bbfd25e8cd0364141", hexd(&[1u8; 32])));
    out.push(format!("c16.gensig {} {} 65", hexd(&[0xffu8; 32]), hexd(&[1u8; 32])));
    // recognisers on arbitrary bytes: mutations of the templates
    for _ in 0..(if thorough { 20_000 } else { 2_000 }) {
        let pl_ = *rng.pick(&[33usize, 33, 65, 10]); let pk = rng.bytes(pl_);
        let mut s = if rng.chance(1, 2) { create_lock_script(&Hash160({ let mut h = [0u8; 20]; h.copy_from_slice(&rng.bytes(20)); h })).0 }
                    else { let mut s = Script::new(); let n_ = rng.range(60, 76) as usize; s.append_data(&rng.bytes(n_)); s.append_data(&pk); s.0 };
        match rng.below(6) {
            0 => {}
            1 => { let i = rng.below(s.len() as u64) as usize; s[i] = rng.byte(); }
            2 => { let cut = rng.below(s.len() as u64 + 1) as usize; s.truncate(cut); }
            3 => { s.push(rng.byte()); }
            4 => { let i = rng.below(s.len() as u64) as usize; s.remove(i); }
            _ => { let i = rng.below(s.len() as u64) as usize; s[i] = *rng.pick(&[0u8, 33, 65, 71, 73, 76, 77, 78, 9, 8, 74]); }
        }
        out.push(format!("c16.chk {} {}", hexd(&s), hexd(&pk)));
    }
    for s in [vec![], vec![71u8], vec![76, 71], vec![77, 0, 0], vec![78]] { out.push(format!("c16.chk {} 02", hexd(&s))); }
}

//! C13 — event publication (util::rx Subject / Single / poll) under concurrency.
//!
//! `c13.run <kind> <observers> <programs> <schedule>` runs a small multi-threaded program on the real
//! `Subject<u32>` / `Single<u32>` under a deterministic scheduler driven through the H2 sync-point hooks:
//! real threads stop at every `…:pre` sync point (one stop per lock / condvar operation, plus one per
//! observer callback, drop and no-op) and are released one at a time in the order of the schedule.
//!
//!   kind       `subject` | `single`
//!   observers  `.`-separated callback behaviours, observer i = i-th entry: `n` (just records the event) or
//!              `c<k>` (records it, then subscribes observer k from inside the callback); `-` = none
//!   programs   threads separated by `/`, operations by `.`: `s<o>` subscribe observer o, `p<e>` publish e,
//!              `w` poll() (blocking wait for the next event), `x<o>` drop observer o (owner's reference)
//!   schedule   string of thread digits; an entry naming a finished or blocked thread is skipped; after the
//!              schedule is used up the lowest-numbered enabled thread runs (so every schedule is complete)
//!
//! Outcome: `ok:<history>|<per-thread D(one)/B(locked)>|<fin|wait>` (or `dead:…|dead`) where history is the `,`-separated global
//! order of `S<t>.<o>` subscribe began (= its first lock operation), `s<t>.<o>` subscribe returned, `P<t>.<e>` /
//! `p<t>.<e>` publication began / ended, `d<t>.<o>.<e>` delivery of e to o by thread t, `x<t>.<o>` drop,
//! `n<t>` no-op (subscribe of a dropped observer), `W<t>` / `w<t>.<e>` poll began / returned e.
//! `wait` = every unfinished thread is inside a condvar wait that nobody signalled; `dead` = some unfinished
//! thread is blocked on a lock (deadlock).
//!
//! `c13.stress <kind> <threads> <per> <rounds>`: unsteered; works without hooks.
//! `c13.algo`: which rx algorithm the tree implements (`snapshot`, `pinned`, or `nohooks`).
use crate::rng::Rng;
use chain_gang::util::rx::{Observable, Observer, Single, Subject};
use std::cell::Cell;
use std::collections::HashMap;
use std::sync::atomic::{AtomicU32, AtomicU64, Ordering};
use std::sync::{Arc, Condvar, Mutex, MutexGuard, Weak};
use std::time::{Duration, Instant};

// ---------------------------------------------------------------------------------------------
// hook access that also compiles against a tree without the H2 hooks (glob imports of an inner
// block shadow those of the outer block; the crate's items win when they exist)
mod fallback {
    pub type SyncHook = fn(&'static str, usize);
    pub fn set_sync_hook(_h: Option<SyncHook>) {}
    pub const RX_ALGO: &str = "nohooks";
}
#[allow(unused_imports)]
fn rx_algo() -> &'static str {
    use self::fallback::*;
    {
        use chain_gang::util::verif_hooks::*;
        RX_ALGO
    }
}
#[allow(unused_imports)]
fn install_hook(h: Option<fn(&'static str, usize)>) {
    use self::fallback::*;
    {
        use chain_gang::util::verif_hooks::*;
        set_sync_hook(h)
    }
}

pub fn tables(_w: &mut dyn std::io::Write) {}

// ---------------------------------------------------------------------------------------------
// program text
#[derive(Clone, Copy, Debug, PartialEq)]
enum Op { Sub(usize), Pub(u32), Poll, /// `poll_timeout` with a timeout far beyond the length of a run: behaves as `poll`
          PollT, Drop(usize) }
#[derive(Clone, Copy, Debug, PartialEq)]
enum Beh { Plain, CbSub(usize) }

fn parse_obs(s: &str) -> Option<Vec<Beh>> {
    if s == "-" { return Some(vec![]); }
    s.split('.').map(|x| if x == "n" { Some(Beh::Plain) } else if let Some(k) = x.strip_prefix('c') { k.parse().ok().map(Beh::CbSub) } else { None }).collect()
}
fn parse_progs(s: &str) -> Option<Vec<Vec<Op>>> {
    s.split('/').map(|th| {
        if th == "-" { return Some(vec![]); }
        th.split('.').map(|x| {
            if x == "w" { Some(Op::Poll) } else if x == "t" { Some(Op::PollT) }
            else if let Some(o) = x.strip_prefix('s') { o.parse().ok().map(Op::Sub) }
            else if let Some(e) = x.strip_prefix('p') { e.parse().ok().map(Op::Pub) }
            else if let Some(o) = x.strip_prefix('x') { o.parse().ok().map(Op::Drop) }
            else { None }
        }).collect()
    }).collect()
}
fn fmt_op(o: &Op) -> String { match o { Op::Sub(o) => format!("s{}", o), Op::Pub(e) => format!("p{}", e), Op::Poll => "w".into(), Op::PollT => "t".into(), Op::Drop(o) => format!("x{}", o) } }
fn fmt_progs(p: &[Vec<Op>]) -> String {
    p.iter().map(|t| if t.is_empty() { "-".to_string() } else { t.iter().map(fmt_op).collect::<Vec<_>>().join(".") }).collect::<Vec<_>>().join("/")
}
fn fmt_obs(b: &[Beh]) -> String {
    if b.is_empty() { "-".into() } else { b.iter().map(|x| match x { Beh::Plain => "n".to_string(), Beh::CbSub(k) => format!("c{}", k) }).collect::<Vec<_>>().join(".") }
}
fn fmt_sched(s: &[usize]) -> String { if s.is_empty() { "-".into() } else { s.iter().map(|t| char::from(b'0' + *t as u8)).collect() } }
fn parse_sched(s: &str) -> Option<Vec<usize>> {
    if s == "-" { return Some(vec![]); }
    s.bytes().map(|b| if b.is_ascii_digit() { Some((b - b'0') as usize) } else { None }).collect()
}

// ---------------------------------------------------------------------------------------------
// the scheduler
#[derive(Clone, Debug, PartialEq)]
enum St { Running, AtStop { op: &'static str, addr: usize }, InWait { addr: usize, notified: bool },
          /// forced mode only: released into a lock operation although the shadow state says the lock is held
          Blocked { addr: usize, excl: bool }, Done }

#[derive(Default)]
struct Lk { writer: Option<usize>, readers: Vec<usize> }

struct Sched {
    gen: u64,
    /// forced mode (c13.force): lock operations are schedulable even while the lock is held
    force: bool,
    frozen: bool,
    abort: bool,
    st: Vec<St>,
    grant: Option<usize>,
    locks: HashMap<usize, Lk>,
    hist: Vec<String>,
    pending: Vec<Option<String>>,
    /// per thread: 1 = inside a poll whose private observer is not yet subscribed, 2 = subscribed (`V` logged)
    poll_state: Vec<u8>,
    mismatch: Option<String>,
}

static SCHED: Mutex<Option<Sched>> = Mutex::new(None);
/// the controller waits here; thread t waits for its grant on `TCV[t]`
static CV: Condvar = Condvar::new();
static TCV: [Condvar; 10] = [Condvar::new(), Condvar::new(), Condvar::new(), Condvar::new(), Condvar::new(), Condvar::new(), Condvar::new(), Condvar::new(), Condvar::new(), Condvar::new()];
fn wake_all_threads() { for c in TCV.iter() { c.notify_all(); } }
static RUN_LOCK: Mutex<()> = Mutex::new(());
/// outcomes of the runs made by the generator's depth-first exploration (request line -> outcome), so that
/// `cgh gen` does not execute every enumerated schedule twice; one in eight is executed again anyway and
/// must reproduce the cached outcome (determinism of the replay). `cgh replay` never sees a cached entry.
static CACHE: Mutex<Option<HashMap<String, String>>> = Mutex::new(None);
static GEN: AtomicU64 = AtomicU64::new(1);
thread_local! { static TID: Cell<Option<(u64, usize)>> = const { Cell::new(None) }; }

struct AbortToken;

fn sched_lock() -> MutexGuard<'static, Option<Sched>> { SCHED.lock().unwrap_or_else(|e| e.into_inner()) }

fn op_of(name: &'static str) -> (&'static str, &'static str) {
    let (base, phase) = name.rsplit_once(':').unwrap_or((name, ""));
    (base.rsplit('.').next().unwrap_or(base), phase)
}

/// The callback installed into chain-gang's sync points (and called directly for harness-level stops).
fn hook(name: &'static str, addr: usize) {
    let Some((gen, t)) = TID.with(|c| c.get()) else { return };
    let (op, phase) = op_of(name);
    let mut g = sched_lock();
    match g.as_ref() { Some(s) if s.gen == gen => {}, _ => return }
    if g.as_ref().unwrap().abort {
        if phase == "pre" { drop(g); std::panic::resume_unwind(Box::new(AbortToken)); }
        return;
    }
    if phase == "pre" {
        g.as_mut().unwrap().st[t] = St::AtStop { op, addr };
        CV.notify_all();
        loop {
            match g.as_ref() {
                Some(s) if s.gen == gen => {
                    if s.abort { drop(g); std::panic::resume_unwind(Box::new(AbortToken)); }
                    if s.grant == Some(t) { break; }
                }
                _ => return,
            }
            g = TCV[t % 10].wait(g).unwrap_or_else(|e| e.into_inner());
        }
        let s = g.as_mut().unwrap();
        s.grant = None;
        if let Some(ev) = s.pending[t].take() { s.hist.push(ev); }
        // the first latch / future operation of a poll: its private observer is subscribed from here on
        if s.poll_state[t] == 1 && (name.starts_with("latch.") || name.starts_with("future.")) { s.poll_state[t] = 2; s.hist.push(format!("V{}", t)); }
        if op == "wait" || op == "wait_timeout" {
            let l = s.locks.entry(addr).or_default();
            if l.writer == Some(t) { l.writer = None; } else { s.mismatch = Some(format!("wait-without-mutex:{}", t)); }
            s.st[t] = St::InWait { addr, notified: false };
        } else if op == "unlock" {
            // released in the shadow state now: a signalled waiter may take the mutex (and report it at
            // `wait:post`) before this thread reaches its `unlock:post`
            let l = s.locks.entry(addr).or_default();
            if l.writer == Some(t) { l.writer = None; }
            else if let Some(i) = l.readers.iter().position(|x| *x == t) { l.readers.remove(i); }
            else { s.mismatch = Some(format!("unlock-not-held:{}", t)); }
            s.st[t] = St::Running;
        } else if s.force && matches!(op, "lock" | "write" | "read") {
            let excl = op != "read";
            let busy = match s.locks.get(&addr) { None => false, Some(l) => l.writer.is_some() || (excl && !l.readers.is_empty()) };
            s.st[t] = if busy { St::Blocked { addr, excl } } else { St::Running };
        } else {
            s.st[t] = St::Running;
        }
        CV.notify_all();
    } else {
        let s = g.as_mut().unwrap();
        match (op, phase) {
            ("lock", "post") | ("write", "post") | ("try_write", "ok") => {
                let l = s.locks.entry(addr).or_default();
                if l.writer.is_some() || !l.readers.is_empty() { s.mismatch = Some(format!("exclusive-acquired-while-held:{}", t)); }
                l.writer = Some(t);
                if matches!(s.st[t], St::Blocked { .. }) { s.st[t] = St::Running; }
            }
            ("read", "post") => {
                let l = s.locks.entry(addr).or_default();
                if l.writer.is_some() { s.mismatch = Some(format!("read-acquired-while-written:{}", t)); }
                l.readers.push(t);
                if matches!(s.st[t], St::Blocked { .. }) { s.st[t] = St::Running; }
            }
            ("try_write", "fail") => {}
            ("unlock", "post") => {}
            ("notify", "post") => {
                for u in 0..s.st.len() {
                    if let St::InWait { addr: a, notified: false } = s.st[u] { if a == addr { s.st[u] = St::InWait { addr: a, notified: true }; break; } }
                }
            }
            ("wait", "post") | ("wait_timeout", "post") => {
                let l = s.locks.entry(addr).or_default();
                l.writer = Some(t);
                s.st[t] = St::Running;
            }
            _ => {}
        }
        CV.notify_all();
    }
}

fn rec(ev: String) {
    let Some((gen, _)) = TID.with(|c| c.get()) else { return };
    let mut g = sched_lock();
    if let Some(s) = g.as_mut() { if s.gen == gen && !s.frozen { s.hist.push(ev); } }
}
fn pend(ev: String) {
    let Some((gen, t)) = TID.with(|c| c.get()) else { return };
    let mut g = sched_lock();
    if let Some(s) = g.as_mut() { if s.gen == gen && !s.frozen { s.pending[t] = Some(ev); } }
}
fn set_poll_state(v: u8) {
    let Some((gen, t)) = TID.with(|c| c.get()) else { return };
    let mut g = sched_lock();
    if let Some(s) = g.as_mut() { if s.gen == gen && !s.frozen { s.poll_state[t] = v; } }
}
fn my_tid() -> usize { TID.with(|c| c.get()).map(|x| x.1).unwrap_or(99) }

// ---------------------------------------------------------------------------------------------
// the objects under test
enum Subj { Plain(Subject<u32>), Single(Single<u32>) }
struct Ctx { subj: Subj, table: Mutex<Vec<Option<Arc<Obs>>>> }
struct Obs { id: usize, beh: Beh, ctx: Weak<Ctx>, count: AtomicU32 }

impl Ctx {
    fn subscribe(&self, o: &Arc<Obs>) { match &self.subj { Subj::Plain(s) => s.subscribe(o), Subj::Single(s) => s.subscribe(o) } }
    fn publish(&self, e: u32) { match &self.subj { Subj::Plain(s) => s.next(&e), Subj::Single(s) => s.next(&e) } }
    fn poll(&self) -> u32 { match &self.subj { Subj::Plain(s) => s.poll(), Subj::Single(s) => s.poll() } }
    fn poll_timeout(&self, d: Duration) -> Result<u32, chain_gang::util::ChainGangError> { match &self.subj { Subj::Plain(s) => s.poll_timeout(d), Subj::Single(s) => s.poll_timeout(d) } }
    fn lookup(&self, o: usize) -> Option<Arc<Obs>> { self.table.lock().unwrap_or_else(|e| e.into_inner()).get(o).cloned().flatten() }
}

impl Observer<u32> for Obs {
    fn next(&self, e: &u32) {
        self.count.fetch_add(1, Ordering::SeqCst);
        hook("h.deliver:pre", 0);
        let t = my_tid();
        rec(format!("d{}.{}.{}", t, self.id, e));
        if let Beh::CbSub(k) = self.beh {
            if let Some(ctx) = self.ctx.upgrade() {
                if let Some(a) = ctx.lookup(k) {
                    pend(format!("S{}.{}", t, k));
                    ctx.subscribe(&a);
                    drop(a);
                    rec(format!("s{}.{}", t, k));
                }
            }
        }
    }
}

fn run_op(ctx: &Arc<Ctx>, t: usize, op: Op) {
    match op {
        Op::Sub(o) => match ctx.lookup(o) {
            Some(a) => { pend(format!("S{}.{}", t, o)); ctx.subscribe(&a); drop(a); rec(format!("s{}.{}", t, o)); }
            None => { hook("h.noop:pre", 0); rec(format!("n{}", t)); }
        },
        Op::Pub(e) => { pend(format!("P{}.{}", t, e)); ctx.publish(e); rec(format!("p{}.{}", t, e)); }
        Op::Poll => { pend(format!("W{}", t)); set_poll_state(1); let v = ctx.poll(); set_poll_state(0); rec(format!("w{}.{}", t, v)); }
        Op::PollT => {
            pend(format!("W{}", t)); set_poll_state(1);
            match ctx.poll_timeout(Duration::from_secs(30)) { Ok(v) => rec(format!("w{}.{}", t, v)), Err(_) => rec(format!("w{}.timeout", t)) }
        }
        Op::Drop(o) => {
            hook("h.drop:pre", 0);
            let a = { let mut tb = ctx.table.lock().unwrap_or_else(|e| e.into_inner()); if o < tb.len() { tb[o].take() } else { None } };
            drop(a);
            rec(format!("x{}.{}", t, o));
        }
    }
}

pub struct RunResult { pub outcome: String, pub choices: Vec<usize>, pub enabled: Vec<Vec<usize>> }

const STEP_TIMEOUT: Duration = Duration::from_secs(5);

fn enabled_of(s: &Sched) -> Vec<usize> {
    let mut v = Vec::new();
    for (t, st) in s.st.iter().enumerate() {
        if let St::AtStop { op, addr } = st {
            let free = |excl: bool| match s.locks.get(addr) { None => true, Some(l) => l.writer.is_none() && (!excl || l.readers.is_empty()) };
            let ok = s.force || match *op { "lock" | "write" => free(true), "read" => free(false), _ => true };
            if ok { v.push(t); }
        }
    }
    v
}

/// nobody is running, and no signalled waiter is about to take its (free) mutex back
fn settled(s: &Sched) -> bool {
    s.st.iter().all(|st| match st {
        St::Running => false,
        St::InWait { addr, notified: true } => s.locks.get(addr).map(|l| l.writer.is_some()).unwrap_or(false),
        // a thread blocked inside a lock operation is at rest only while the lock is still held by someone else
        St::Blocked { addr, excl } => s.locks.get(addr).map(|l| l.writer.is_some() || (*excl && !l.readers.is_empty())).unwrap_or(false),
        _ => true,
    })
}

/// Runs one program under one schedule on the real code. Self-contained: installs the hook, spawns, steers,
/// tears the threads down, removes the hook.
pub fn run(kind: &str, behs: &[Beh], progs: &[Vec<Op>], sched: &[usize]) -> RunResult { run_mode(kind, behs, progs, sched, false) }

/// `force`: lock / write / read stops are schedulable while the lock is held (the thread then really blocks in
/// the lock operation, or - if the code under test uses a try-lock there - takes its failure path); such runs
/// have no model counterpart and are judged by the specification alone.
pub fn run_mode(kind: &str, behs: &[Beh], progs: &[Vec<Op>], sched: &[usize], force: bool) -> RunResult {
    let _serial = RUN_LOCK.lock().unwrap_or_else(|e| e.into_inner());
    let n = progs.len();
    let gen = GEN.fetch_add(1, Ordering::SeqCst);
    let ctx = Arc::new(Ctx { subj: if kind == "single" { Subj::Single(Single::new()) } else { Subj::Plain(Subject::new()) }, table: Mutex::new(Vec::new()) });
    {
        let mut tb = ctx.table.lock().unwrap();
        for (i, b) in behs.iter().enumerate() { tb.push(Some(Arc::new(Obs { id: i, beh: *b, ctx: Arc::downgrade(&ctx), count: AtomicU32::new(0) }))); }
    }
    *sched_lock() = Some(Sched { gen, force, frozen: false, abort: false, st: vec![St::Running; n], grant: None, locks: HashMap::new(), hist: Vec::new(), pending: vec![None; n], poll_state: vec![0; n], mismatch: None });
    install_hook(Some(hook));
    let mut handles = Vec::new();
    for (t, prog) in progs.iter().enumerate() {
        let ctx = ctx.clone();
        let prog = prog.clone();
        let h = std::thread::Builder::new().stack_size(192 * 1024).spawn(move || {
            TID.with(|c| c.set(Some((gen, t))));
            let r = std::panic::catch_unwind(std::panic::AssertUnwindSafe(|| { for op in prog { run_op(&ctx, t, op); } }));
            if let Err(p) = &r { if !p.is::<AbortToken>() { rec(format!("!{}", t)); } }
            drop(ctx);
            let mut g = sched_lock();
            if let Some(s) = g.as_mut() { if s.gen == gen { s.st[t] = St::Done; } }
            CV.notify_all();
        }).expect("spawn");
        handles.push(h);
    }
    let mut choices = Vec::new();
    let mut enabled_log = Vec::new();
    let mut pos = 0usize;
    let mut stuck = false;
    let fin;
    {
        let mut g = sched_lock();
        loop {
            // wait for the step in flight to come to rest
            let deadline = Instant::now() + STEP_TIMEOUT;
            while !settled(g.as_ref().unwrap()) {
                let now = Instant::now();
                if now >= deadline { stuck = true; break; }
                g = CV.wait_timeout(g, deadline - now).unwrap_or_else(|e| e.into_inner()).0;
            }
            let s = g.as_mut().unwrap();
            if stuck || s.mismatch.is_some() { fin = "stuck"; break; }
            let en = enabled_of(s);
            if en.is_empty() {
                let all_done = s.st.iter().all(|x| *x == St::Done);
                let only_waiters = s.st.iter().all(|x| matches!(x, St::Done | St::InWait { notified: false, .. }));
                fin = if all_done { "fin" } else if only_waiters { "wait" } else { "dead" };
                break;
            }
            // next schedule entry that names an enabled thread; afterwards the lowest enabled thread
            let mut pick = None;
            while pos < sched.len() { let c = sched[pos]; pos += 1; if en.contains(&c) { pick = Some(c); break; } }
            let c = pick.unwrap_or(en[0]);
            choices.push(c);
            enabled_log.push(en);
            s.st[c] = St::Running;
            s.grant = Some(c);
            TCV[c % 10].notify_all();
        }
    }
    // ---- outcome, then teardown: threads at a stop unwind out of the library (AbortToken); threads parked
    // inside a condvar wait are released by a publication from this (unscheduled) thread
    let (hist, status, mismatch) = {
        let mut g = sched_lock();
        let s = g.as_mut().unwrap();
        s.frozen = true;
        s.abort = true;
        wake_all_threads();
        let status: String = s.st.iter().map(|x| if *x == St::Done { 'D' } else { 'B' }).collect();
        (s.hist.join(","), status, s.mismatch.clone())
    };
    let outcome = if fin == "stuck" { format!("stuck:{}|{}|{}", mismatch.unwrap_or_else(|| "step-timeout".into()), hist, status) }
                  else { format!("{}:{}|{}|{}", if fin == "dead" { "dead" } else { "ok" }, if hist.is_empty() { "-" } else { &hist }, status, fin) };
    let t0 = Instant::now();
    let mut kicked = false;
    // (threads that can still finish do so within microseconds; a thread left asleep by a lost wake-up never does)
    while !handles.iter().all(|h| h.is_finished()) && t0.elapsed() < Duration::from_millis(400) {
        if !kicked && t0.elapsed() > Duration::from_millis(2) {
            // (on its own thread: if the subject's locks are deadlocked this publication blocks for good as well)
            let c2 = ctx.clone();
            let _ = std::thread::Builder::new().stack_size(192 * 1024).spawn(move || { let _ = std::panic::catch_unwind(std::panic::AssertUnwindSafe(|| c2.publish(4_000_000_000))); });
            kicked = true;
        }
        std::thread::yield_now();
    }
    for h in handles { if h.is_finished() { let _ = h.join(); } /* else: leaked, blocked for good (pinned tree only) */ }
    install_hook(None);
    *sched_lock() = None;
    // (a thread deadlocked inside a callback may hold the table for good)
    match ctx.table.try_lock() { Ok(mut t) => t.clear(), Err(std::sync::TryLockError::Poisoned(e)) => e.into_inner().clear(), Err(_) => {} }
    RunResult { outcome, choices, enabled: enabled_log }
}

// ---------------------------------------------------------------------------------------------
// unsteered stress: N threads subscribe `per` observers each at the same time, then one publication
fn stress(kind: &str, threads: usize, per: usize, rounds: usize) -> String {
    let _serial = RUN_LOCK.lock().unwrap_or_else(|e| e.into_inner());
    let (mut missed, mut dup) = (0usize, 0usize);
    for _ in 0..rounds {
        let ctx = Arc::new(Ctx { subj: if kind == "single" { Subj::Single(Single::new()) } else { Subj::Plain(Subject::new()) }, table: Mutex::new(Vec::new()) });
        let barrier = Arc::new(std::sync::Barrier::new(threads));
        let hs: Vec<_> = (0..threads).map(|t| {
            let ctx = ctx.clone(); let barrier = barrier.clone();
            std::thread::spawn(move || {
                let obs: Vec<Arc<Obs>> = (0..per).map(|i| Arc::new(Obs { id: t * per + i, beh: Beh::Plain, ctx: Weak::new(), count: AtomicU32::new(0) })).collect();
                barrier.wait();
                for o in &obs { ctx.subscribe(o); }
                obs
            })
        }).collect();
        let all: Vec<Arc<Obs>> = hs.into_iter().flat_map(|h| h.join().unwrap()).collect();
        ctx.publish(7);
        for o in &all { match o.count.load(Ordering::SeqCst) { 0 => missed += 1, 1 => {}, _ => dup += 1 } }
    }
    format!("ok:{}:{}", missed, dup)
}

// ---------------------------------------------------------------------------------------------
pub fn exec(op: &str, a: &[&str]) -> Option<String> {
    match op {
        "c13.algo" => {
            // without the H2 hooks the algorithm is read off the source: the pinned Subject has a `pending` list
            let a = rx_algo();
            if a != "nohooks" { return Some(format!("ok:{}", a)); }
            let src = std::fs::read_to_string(format!("{}/src/util/rx.rs", env!("CG_REPO"))).unwrap_or_default();
            Some(format!("ok:nohooks-{}", if src.contains("pending: RwLock") { "pinned" } else { "snapshot" }))
        }
        "c13.run" | "c13.force" if over_budget() && CACHE.lock().unwrap().as_ref().map(|m| !m.contains_key(&format!("{} {} {} {} {}", op, a[0], a[1], a[2], a[3]))).unwrap_or(true) && GEN_DEADLINE.lock().unwrap().is_some() => {
            // the generator's wall-clock budget is used up: the remaining generated requests are not executed
            Some("skipped:budget".into())
        }
        "c13.run" => {
            if rx_algo() == "nohooks" { return Some("nohooks".into()); }
            let (Some(behs), Some(progs), Some(sched)) = (parse_obs(a[1]), parse_progs(a[2]), parse_sched(a[3])) else { return Some("bad-request".into()) };
            if a[0] == "single" && behs.iter().enumerate().any(|(i, b)| matches!(b, Beh::CbSub(k) if *k <= i)) { return Some("bad-request".into()); }
            if progs.len() > 10 { return Some("bad-request".into()); }
            let key = format!("c13.run {} {} {} {}", a[0], a[1], a[2], a[3]);
            let cached = CACHE.lock().unwrap().as_mut().and_then(|m| m.remove(&key));
            if let Some(c) = cached {
                let h = key.bytes().fold(0u32, |x, b| x.wrapping_mul(31).wrapping_add(b as u32));
                if h % 8 != 0 { return Some(c); }
                let again = run(a[0], &behs, &progs, &sched).outcome;
                return Some(if again == c { c } else { format!("nondet:{}//{}", c, again) });
            }
            Some(run(a[0], &behs, &progs, &sched).outcome)
        }
        "c13.force" => {
            if rx_algo() == "nohooks" { return Some("nohooks".into()); }
            let (Some(behs), Some(progs), Some(sched)) = (parse_obs(a[1]), parse_progs(a[2]), parse_sched(a[3])) else { return Some("bad-request".into()) };
            if a[0] == "single" && behs.iter().enumerate().any(|(i, b)| matches!(b, Beh::CbSub(k) if *k <= i)) { return Some("bad-request".into()); }
            if progs.len() > 10 { return Some("bad-request".into()); }
            let key = format!("c13.force {} {} {} {}", a[0], a[1], a[2], a[3]);
            if let Some(c) = CACHE.lock().unwrap().as_mut().and_then(|m| m.remove(&key)) { return Some(c); }
            Some(run_mode(a[0], &behs, &progs, &sched, true).outcome)
        }
        "c13.stress" => Some(stress(a[0], a[1].parse().unwrap(), a[2].parse().unwrap(), a[3].parse().unwrap())),
        _ => None,
    }
}

// ---------------------------------------------------------------------------------------------
// generators

/// every complete interleaving of a program, by stateless depth-first exploration of the real code
fn all_interleavings(kind: &str, behs: &[Beh], progs: &[Vec<Op>], cap: usize, out: &mut Vec<String>) -> (usize, bool) { all_interleavings_mode(kind, behs, progs, cap, out, false) }

/// wall-clock budget of one `gen` call: on a tree where runs leave threads asleep every run costs its teardown wait, and
/// the enumeration must still end (what was explored until then is what is compared)
static GEN_DEADLINE: Mutex<Option<(Instant, Duration)>> = Mutex::new(None);
fn over_budget() -> bool { GEN_DEADLINE.lock().unwrap().map(|d| Instant::now() > d.0).unwrap_or(false) }
fn per_program() -> Duration { GEN_DEADLINE.lock().unwrap().map(|d| d.1).unwrap_or(Duration::from_secs(3600)) }

fn all_interleavings_mode(kind: &str, behs: &[Beh], progs: &[Vec<Op>], cap: usize, out: &mut Vec<String>, force: bool) -> (usize, bool) {
    let mut stack: Vec<Vec<usize>> = vec![vec![]];
    let mut n = 0usize;
    let t_start = Instant::now();
    while let Some(prefix) = stack.pop() {
        if n >= cap { return (n, false); }
        // each program gets its share of the budget, and the whole enumeration a hard end
        if over_budget() || t_start.elapsed() > per_program() { return (n, false); }
        let r = run_mode(kind, behs, progs, &prefix, force);
        n += 1;
        let req = format!("{} {} {} {} {}", if force { "c13.force" } else { "c13.run" }, kind, fmt_obs(behs), fmt_progs(progs), fmt_sched(&r.choices));
        CACHE.lock().unwrap().get_or_insert_with(HashMap::new).insert(req.clone(), r.outcome.clone());
        out.push(req);
        for i in (prefix.len()..r.choices.len()).rev() {
            for alt in r.enabled[i].iter().rev() {
                if *alt > r.choices[i] { let mut p = r.choices[..i].to_vec(); p.push(*alt); stack.push(p); }
            }
        }
    }
    (n, true)
}

fn random_prog(rng: &mut Rng, nthreads: usize, nops: usize, nobs: usize) -> Vec<Vec<Op>> {
    let mut ev = 1u32;
    (0..nthreads).map(|_| (0..nops).map(|_| match rng.below(10) {
        0..=3 => Op::Sub(rng.below(nobs as u64) as usize),
        4..=6 => { ev += 1; Op::Pub(ev - 1) }
        7 => Op::Poll,
        8 => Op::PollT,
        _ => Op::Drop(rng.below(nobs as u64) as usize),
    }).collect()).collect()
}

pub fn gen(tier: &str, rng: &mut Rng, out: &mut Vec<String>) {
    let thorough = tier == "thorough";
    *GEN_DEADLINE.lock().unwrap() = Some((Instant::now() + Duration::from_secs(if thorough { 2400 } else { 240 }), Duration::from_secs(if thorough { 400 } else { 15 })));
    out.push("c13.stress subject 8 100 20".into());
    out.push("c13.stress single 8 100 20".into());
    if rx_algo() == "nohooks" { return; }
    let s = Op::Sub; let p = Op::Pub; let w = Op::Poll; let x = Op::Drop; let wt = Op::PollT;
    let n = Beh::Plain; let c = Beh::CbSub;
    // (a) all interleavings of 2 threads x 2 operations, curated programs
    let two: Vec<(Vec<Beh>, Vec<Vec<Op>>)> = vec![
        (vec![n, n], vec![vec![s(0), p(1)], vec![s(1), p(2)]]),
        (vec![n, n], vec![vec![s(0), s(1)], vec![p(1), p(2)]]),
        (vec![n, n], vec![vec![s(0), x(0)], vec![s(1), p(1)]]),
        (vec![c(1), n], vec![vec![s(0), p(1)], vec![p(2), s(1)]]),
        (vec![n, c(0)], vec![vec![s(0), p(1)], vec![s(1), p(2)]]),
        (vec![n], vec![vec![w, s(0)], vec![p(1), p(2)]]),
        (vec![n], vec![vec![s(0), w], vec![p(1), x(0)]]),
        (vec![n, n], vec![vec![w, p(3)], vec![s(0), p(1)]]),
        (vec![n], vec![vec![wt, s(0)], vec![p(1), p(2)]]),
        (vec![n], vec![vec![s(0), wt], vec![p(1), x(0)]]),
        // a late subscriber whose callback subscribes again, against a thread that publishes twice (single-shot: the second
        // publication wants the value lock exclusively while the callback of the late subscriber is running)
        (vec![c(1), n], vec![vec![s(0)], vec![p(1), p(2)]]),
        (vec![c(1), n], vec![vec![s(0), s(1)], vec![p(1), p(2)]]),
    ];
    let cap = if thorough { 40_000 } else { 6_000 };
    for kind in ["subject", "single"] {
        for (b, pr) in &two {
            if kind == "single" && b.iter().enumerate().any(|(i, x)| matches!(x, Beh::CbSub(k) if *k <= i)) { continue; }
            all_interleavings(kind, b, pr, cap, out);
        }
    }
    // (a') the same programs in forced mode: a thread may be released INTO a held lock (it blocks for real, or takes
    // the failure path if the code uses a try-lock there); judged by the specification alone (c13.judge)
    let fcap = if thorough { 8_000 } else { 700 };
    for kind in ["subject", "single"] {
        for (b, pr) in &two {
            if kind == "single" && b.iter().enumerate().any(|(i, x)| matches!(x, Beh::CbSub(k) if *k <= i)) { continue; }
            all_interleavings_mode(kind, b, pr, fcap, out, true);
        }
    }
    // (b) random schedules of 3 threads x 2 operations
    let nrand = if thorough { 20_000 } else { 2_400 };
    for i in 0..nrand {
        let kind = if i % 2 == 0 { "subject" } else { "single" };
        let nobs = 3;
        let behs: Vec<Beh> = (0..nobs).map(|i| {
            if !rng.chance(1, 3) { return n; }
            if kind == "single" { if i + 1 < nobs { c(rng.range(i as u64 + 1, nobs as u64 - 1) as usize) } else { n } }
            else { c(rng.below(nobs as u64) as usize) }
        }).collect();
        let progs = random_prog(rng, 3, 2, nobs);
        let len = rng.range(0, 40) as usize;
        let sched: Vec<usize> = (0..len).map(|_| rng.below(3) as usize).collect();
        out.push(format!("c13.run {} {} {} {}", kind, fmt_obs(&behs), fmt_progs(&progs), fmt_sched(&sched)));
    }
    // (c) thorough: all interleavings of 3 threads x 2 operations (programs small enough to enumerate)
    if thorough {
        let three: Vec<(Vec<Beh>, Vec<Vec<Op>>)> = vec![
            (vec![n, n, n], vec![vec![s(0), s(0)], vec![s(1), s(2)], vec![s(2), s(1)]]),
            (vec![n, n], vec![vec![s(0), x(0)], vec![s(1), x(1)], vec![p(1), p(2)]]),
        ];
        for kind in ["subject", "single"] {
            for (b, pr) in &three { all_interleavings(kind, b, pr, 60_000, out); }
        }
    }
}

//! C10 — BIP-39 mnemonics (`wallet/mnemonic.rs`) and the byte-packed bit vector (`util/bits.rs`).
//!
//! Request lines
//!   c10.wordlist  <lang>                      -> ok:<hex word>,<hex word>,…   (load_wordlist)
//!   c10.encode    <lang> <entropy hex>        -> ok:<idx>,<idx>,…  (word indexes, by position in the loaded list)
//!   c10.roundtrip <lang> <entropy hex>        -> outcome of mnemonic_decode(mnemonic_encode(e))
//!   c10.decode    <lang> <idx>,<idx>,…        -> outcome of mnemonic_decode on the sentence made of those words
//!   c10.decodew   <lang> <hex word>,…         -> the same for arbitrary (UTF-8) words
//!   c10.fromslice <data hex> <len>            -> ok:<data hex>/<len>          (Bits::from_slice)
//!   c10.bits <hex>/<len>,… <query>,…          -> ok:<data hex>/<len>/<answers>
//!        Bits::new(), then append(from_slice(hex,len)) per part; query `e<i>.<len>` = extract,
//!        `b<i>.<len>` = extract_byte; an answer is a decimal number or `P` (panic).
use crate::rng::Rng;
use crate::util::*;
use chain_gang::util::verif_hooks::Bits;
use chain_gang::wallet::{load_wordlist, mnemonic_decode, mnemonic_encode, Wordlist};
use std::panic::{catch_unwind, AssertUnwindSafe};

pub const LANGS: [&str; 8] = ["chinese_simplified", "chinese_traditional", "english", "french", "italian", "japanese", "korean", "spanish"];

fn wl(lang: &str) -> Vec<String> {
    load_wordlist(match lang {
        "chinese_simplified" => Wordlist::ChineseSimplified,
        "chinese_traditional" => Wordlist::ChineseTraditional,
        "english" => Wordlist::English,
        "french" => Wordlist::French,
        "italian" => Wordlist::Italian,
        "japanese" => Wordlist::Japanese,
        "korean" => Wordlist::Korean,
        "spanish" => Wordlist::Spanish,
        _ => panic!("bad language in request"),
    })
}

pub fn tables(_w: &mut dyn std::io::Write) {}

fn dec_outcome(r: Result<Vec<u8>, chain_gang::util::ChainGangError>) -> String {
    match r { Ok(d) => format!("ok:{}", hexd(&d)), Err(e) => err_class(&e) }
}

fn idx_list(words: &[String], list: &[String]) -> String {
    if words.is_empty() { return "-".into(); }
    words.iter().map(|w| match list.iter().position(|x| x == w) { Some(i) => i.to_string(), None => "?".into() }).collect::<Vec<_>>().join(",")
}

fn split_list(s: &str) -> Vec<&str> { if s == "-" { vec![] } else { s.split(',').collect() } }

pub fn exec(op: &str, a: &[&str]) -> Option<String> {
    match op {
        "c10.wordlist" => {
            let l = wl(a[0]);
            Some(format!("ok:{}", l.iter().map(|w| hexd(w.as_bytes())).collect::<Vec<_>>().join(",")))
        }
        "c10.encode" => {
            let l = wl(a[0]);
            let m = mnemonic_encode(&unhexd(a[1]), &l);
            Some(format!("ok:{}", idx_list(&m, &l)))
        }
        "c10.roundtrip" => {
            let l = wl(a[0]);
            let m = mnemonic_encode(&unhexd(a[1]), &l);
            Some(dec_outcome(mnemonic_decode(&m, &l)))
        }
        "c10.decode" => {
            let l = wl(a[0]);
            let m: Vec<String> = split_list(a[1]).iter().map(|i| l[i.parse::<usize>().expect("bad index")].clone()).collect();
            Some(dec_outcome(mnemonic_decode(&m, &l)))
        }
        "c10.decodew" => {
            let l = wl(a[0]);
            let m: Vec<String> = split_list(a[1]).iter().map(|h| String::from_utf8(unhexd(h)).expect("word is not UTF-8")).collect();
            Some(dec_outcome(mnemonic_decode(&m, &l)))
        }
        "c10.fromslice" => {
            let b = Bits::from_slice(&unhexd(a[0]), a[1].parse().unwrap());
            Some(format!("ok:{}/{}", hexd(&b.data), b.len))
        }
        "c10.bits" => {
            let mut b = Bits::new();
            for p in split_list(a[0]) {
                let (h, n) = p.split_once('/').expect("part");
                b.append(&Bits::from_slice(&unhexd(h), n.parse().unwrap()));
            }
            let mut ans = Vec::new();
            for q in split_list(a[1]) {
                let (i, n) = q[1..].split_once('.').expect("query");
                let (i, n): (usize, usize) = (i.parse().unwrap(), n.parse().unwrap());
                let r = catch_unwind(AssertUnwindSafe(|| if q.starts_with('e') { b.extract(i, n) } else { b.extract_byte(i, n) as u64 }));
                ans.push(match r { Ok(v) => v.to_string(), Err(_) => "P".into() });
            }
            Some(format!("ok:{}/{}/{}", hexd(&b.data), b.len, if ans.is_empty() { "-".into() } else { ans.join(",") }))
        }
        _ => None,
    }
}

fn entropy(rng: &mut Rng, n: usize, kind: u64) -> Vec<u8> {
    match kind {
        0 => vec![0u8; n],
        1 => vec![0xffu8; n],
        2 => vec![0x80u8; n],
        3 => vec![0x7fu8; n],
        4 => (0..n).map(|i| i as u8).collect(),
        _ => rng.bytes(n),
    }
}

/// a short valid-UTF-8 word that is (almost surely) not in any list
fn foreign_word(rng: &mut Rng) -> String {
    match rng.below(8) {
        0 => "123".into(),
        1 => " ".into(),                // a blank
        2 => "Abandon".into(),         // case matters
        3 => "abandon ".into(),        // trailing blank
        4 => "zoo\u{0301}".into(),     // combining accent appended
        5 => "\u{3042}".into(),        // a single hiragana letter (prefix of Japanese words)
        6 => "zzzzzzzzz".into(),       // after every entry in byte order
        _ => (0..rng.range(1, 9)).map(|_| (b'a' + rng.below(26) as u8) as char).collect::<String>() + "q1",
    }
}

fn hexwords(ws: &[String]) -> String {
    if ws.is_empty() { "-".into() } else { ws.iter().map(|w| hexd(w.as_bytes())).collect::<Vec<_>>().join(",") }
}

fn all_substitutions(lang: &str, e: &[u8], out: &mut Vec<String>, rng: &mut Rng, sample: Option<usize>) {
    let l = wl(lang);
    let m = mnemonic_encode(e, &l);
    let idx: Vec<usize> = m.iter().map(|w| l.iter().position(|x| x == w).unwrap()).collect();
    let emit = |pos: usize, v: usize, out: &mut Vec<String>| {
        let mut s = idx.clone();
        s[pos] = v;
        out.push(format!("c10.decode {} {}", lang, fmt_list(&s)));
    };
    match sample {
        None => for pos in 0..idx.len() { for v in 0..l.len() { if v != idx[pos] { emit(pos, v, out); } } },
        Some(k) => for _ in 0..k {
            let pos = rng.below(idx.len() as u64) as usize;
            let mut v = rng.below(l.len() as u64) as usize;
            if v == idx[pos] { v = (v + 1) % l.len(); }
            emit(pos, v, out);
        },
    }
}

fn bits_case(rng: &mut Rng) -> String {
    let nparts = rng.range(0, 5);
    let mut parts = Vec::new();
    let mut total = 0usize;
    for _ in 0..nparts {
        let nb = rng.range(0, 5) as usize;
        let data = match rng.below(4) { 0 => vec![0xffu8; nb], 1 => vec![0u8; nb], _ => rng.bytes(nb) };
        // mostly a length that uses every byte (what the callers do), sometimes shorter / longer than the data
        let len = match rng.below(6) {
            0 => rng.range(0, (nb * 8 + 9) as u64) as usize,
            1 => nb * 8,
            2 => 11.min(nb * 8),
            _ => if nb == 0 { 0 } else { (nb - 1) * 8 + rng.range(1, 8) as usize },
        };
        total += len.min(nb * 8);
        parts.push(format!("{}/{}", hexd(&data), len));
    }
    let mut qs = Vec::new();
    for _ in 0..rng.range(1, 6) {
        let byte_q = rng.chance(1, 4);
        let i = if rng.chance(1, 8) { rng.range(0, (total + 12) as u64) as usize } else { rng.below(total.max(1) as u64) as usize };
        let n = if byte_q { rng.range(0, 9) as usize }
                else if rng.chance(1, 8) { rng.range(0, 75) as usize }
                else { let room = total.saturating_sub(i); rng.range(0, room.min(66) as u64) as usize };
        qs.push(format!("{}{}.{}", if byte_q { 'b' } else { 'e' }, i, n));
    }
    format!("c10.bits {} {}", if parts.is_empty() { "-".into() } else { parts.join(",") }, qs.join(","))
}

pub fn gen(tier: &str, rng: &mut Rng, out: &mut Vec<String>) {
    let thorough = tier == "thorough";
    // (a) the word lists themselves (the Lean side was generated from them; this re-compares every run)
    for l in LANGS { out.push(format!("c10.wordlist {}", l)); }
    // (b) every language x every entropy length 4..64 step 4 x fixed patterns + random entropies
    let per = if thorough { 40 } else { 8 };
    for l in LANGS {
        for n in (4..=64).step_by(4) {
            for k in 0..per {
                let e = entropy(rng, n, k);
                out.push(format!("c10.encode {} {}", l, hexd(&e)));
                out.push(format!("c10.roundtrip {} {}", l, hexd(&e)));
            }
        }
    }
    // (c) lengths outside the claim: not multiples of 4 (remainder word), empty, long (checksum capped at 256 bits)
    for l in LANGS {
        let mut lens: Vec<usize> = (0..=19).filter(|n| n % 4 != 0 || *n == 0).collect();
        lens.extend([68, 128, 256, 1024, 1025, 1026, 1027, 1028, 1029, 1030, 1031, 1032, 1036, 1040]);
        if thorough { lens.extend(1041..1080); }
        for n in lens {
            let e = rng.bytes(n);
            out.push(format!("c10.encode {} {}", l, hexd(&e)));
            out.push(format!("c10.roundtrip {} {}", l, hexd(&e)));
        }
    }
    // (d) every single-word substitution of a valid sentence (2047 x words), judged by the spec's checksum
    let e16 = entropy(rng, 16, 9);
    all_substitutions("english", &e16, out, rng, None);
    let e20 = entropy(rng, 20, 9);
    all_substitutions("japanese", &e20, out, rng, if thorough { None } else { Some(1500) });
    for l in LANGS {
        for n in [16usize, 24, 32, 4, 64] {
            let e = entropy(rng, n, 9);
            all_substitutions(l, &e, out, rng, if thorough && n <= 24 { None } else { Some(if thorough { 4000 } else { 100 }) });
        }
    }
    // (e) words outside the list, wrong word counts, the empty sentence, very long sentences
    for l in LANGS {
        let list = wl(l);
        out.push(format!("c10.decode {} -", l));
        for cnt in [1usize, 2, 3, 4, 5, 7, 11, 13, 25, 49, 195, 198, 771] {
            let idx: Vec<usize> = (0..cnt).map(|_| rng.below(list.len() as u64) as usize).collect();
            out.push(format!("c10.decode {} {}", l, fmt_list(&idx)));
        }
        for _ in 0..(if thorough { 200 } else { 25 }) {
            let n = *rng.pick(&[16usize, 20, 24, 28, 32]);
            let e = rng.bytes(n);
            let mut m = mnemonic_encode(&e, &list);
            match rng.below(4) {
                0 => { let p = rng.below(m.len() as u64) as usize; m[p] = foreign_word(rng); }
                1 => { m.push(foreign_word(rng)); }
                2 => { let p = rng.below(m.len() as u64) as usize; m[p] = wl(LANGS[rng.below(8) as usize])[rng.below(2048) as usize].clone(); }
                _ => { m.truncate(rng.below(m.len() as u64) as usize); if rng.chance(1, 2) { m.insert(0, foreign_word(rng)); } }
            }
            out.push(format!("c10.decodew {} {}", l, hexwords(&m)));
        }
    }
    // (f) the bit vector on its own: from_slice, append, extract, extract_byte
    for _ in 0..(if thorough { 20000 } else { 3000 }) { out.push(bits_case(rng)); }
    for _ in 0..(if thorough { 4000 } else { 500 }) {
        let nb = rng.range(0, 6) as usize;
        out.push(format!("c10.fromslice {} {}", hexd(&rng.bytes(nb)), rng.range(0, (nb * 8 + 10) as u64)));
    }
}

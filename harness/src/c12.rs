//! C12 — peer lifecycle: handshake, ordered delivery, exactly-once events.
//!
//! One request line = one scripted session against the real `Peer`:
//!
//! `c12.session <min_start_height> <k>:<delay_ms>:<p|s> <tok>,<tok>,…`
//! `c12.race    <min_start_height> <k>:<delay_ms>:<p|s> <tok>,<tok>,…`
//!
//! A scripted node listens on 127.0.0.1:0; `Peer::connect(.., SVPeerFilter::new(min_start_height))`
//! is called; observers are subscribed to `connected_event()`, `disconnected_event()` and
//! `messages()` (one shared log, so the log order is the order of the calls) BEFORE the node sends
//! its first byte (the node's writes are made by this thread after subscribing: `messages()` does
//! not replay).  The node then plays the tokens in order.  Node tokens:
//!   `f:<cmd>:<payload>`   a well-formed frame (right magic, length, checksum)
//!   `g:<cmd>:<payload>`   the same; the generator's claim that the payload codec rejects it
//!   `xm:<cmd>:<payload>`  frame with a wrong magic      `xc:<cmd>:<payload>`  wrong checksum
//!   `xo:<cmd>`            header announcing MAX_PAYLOAD_SIZE + 1 bytes
//!   `xt:<cmd>:<payload>:<j>`  the first j bytes of the frame, then the node half-closes
//!   `close`               the node half-closes (shutdown(Write)) and keeps reading
//!   `silent`              the node sends nothing until the peer gives up (handshake timeout)
//!   `w:<ms>`              pause
//! Consecutive frames are written as one buffer (`p`, pipelined) or one buffer per frame (`s`),
//! each buffer in k-byte segments (0 = whole) with `delay_ms` between segments.  Local tokens
//! (executed on a second thread, joined): `sync` (wait until the peer has consumed what was sent:
//! connected and as many deliveries as `f:` frames sent minus the two of the handshake — or the
//! peer has closed; after a fault token g/xm/xc/xo/xt/close: the peer has closed), `ls:<cmd>:<payload>` (`Peer::send`), `lsx` (`Peer::send(Message::Other)`,
//! which cannot be written), `ld` (`Peer::disconnect`).  Race tokens (`c12.race` only, threads not
//! joined until the end): `rld:<us>` (disconnect after a delay), `rls:<n>:<us>` (n pings).
//! The node records everything it receives until end of stream.  After the tokens the harness waits
//! for the peer to close (6 s, else the outcome is `hang`), for the disconnected event, lets the
//! log settle, subscribes late observers, calls `send` once more and reads the accessors.
//!
//! Outcome of `c12.session`:
//! `ok:ev=<C | D | M:<cmd>/<digest> in call order, '>'-separated>|rx=<what the node received>|sr=<send results>|`
//! `st=<connected()>,<minfee()>,<sendheaders()>,<sendcmpct()>|late=<late observer calls: connected,disconnected,messages>|`
//! `after=<result of the final send>|panics=<panics in any thread during the session>`
//! Outcome of `c12.race`: the race-insensitive summary described at `summarise_race`.
use crate::rng::Rng;
use crate::util::*;
use chain_gang::messages::*;
use chain_gang::network::Network;
use chain_gang::peer::{Peer, PeerConnected, PeerDisconnected, PeerMessage, SVPeerFilter};
use chain_gang::script::Script;
use chain_gang::util::rx::{Observable, Observer};
use chain_gang::util::{sha256d, ChainGangError, Hash256};
use std::io::{Cursor, Read, Write};
use std::net::{IpAddr, Ipv4Addr, Ipv6Addr, Shutdown, TcpListener, TcpStream};
use std::sync::atomic::{AtomicBool, AtomicUsize, Ordering};
use std::sync::{Arc, Mutex, Once};
use std::thread;
use std::time::{Duration, Instant};

const MAGIC: [u8; 4] = [0xe3, 0xe1, 0xf3, 0xe8]; // Network::BSV_Mainnet

static PANICS: AtomicUsize = AtomicUsize::new(0);
/// sessions of this process that ran into the whole-session watchdog; `GENERATING` is set by `gen` (never in `replay`)
static WATCHDOG_HITS: AtomicUsize = AtomicUsize::new(0);
static GENERATING: AtomicBool = AtomicBool::new(false);
static HOOK: Once = Once::new();

/// counts panics of every thread (the peer's threads cannot be joined), then calls the previous hook
fn install_panic_counter() {
    HOOK.call_once(|| {
        let old = std::panic::take_hook();
        std::panic::set_hook(Box::new(move |info| {
            PANICS.fetch_add(1, Ordering::SeqCst);
            old(info);
        }));
    });
}

pub fn tables(w: &mut dyn std::io::Write) {
    writeln!(w, "C12_MIN_PROTO {}", MIN_SUPPORTED_PROTOCOL_VERSION).unwrap();
    writeln!(w, "C12_SERVICE_MASK {}", NODE_BITCOIN_CASH | NODE_NETWORK).unwrap();
    let m = Network::BSV_Mainnet.magic();
    writeln!(w, "LIST C12_MAGIC {} {} {} {}", m[0], m[1], m[2], m[3]).unwrap();
    // the handshake read timeout (a private constant): read from the source, seconds
    let src = std::fs::read_to_string(format!("{}/src/peer/peer.rs", env!("CG_REPO"))).unwrap_or_default();
    let secs = src.lines().find(|l| l.trim_start().starts_with("const HANDSHAKE_READ_TIMEOUT"))
        .and_then(|l| l.split("from_secs(").nth(1)).and_then(|r| r.split(')').next()).and_then(|n| n.trim().parse::<u64>().ok()).unwrap_or(0);
    writeln!(w, "C12_HANDSHAKE_TIMEOUT_S {}", secs).unwrap();
}

// ------------------------------------------------------------------------------------------------
// script
// ------------------------------------------------------------------------------------------------

#[derive(Clone, Copy, PartialEq)]
enum Fault { None, Magic, Checksum, Oversize }

#[derive(Clone)]
enum Tok {
    Frame { cmd: [u8; 12], payload: Vec<u8>, fault: Fault, counted: bool },
    Trunc { cmd: [u8; 12], payload: Vec<u8>, j: usize },
    Close,
    Silent,
    Wait(u64),
    Sync,
    LocalSend { cmd: [u8; 12], payload: Vec<u8> },
    LocalSendX,
    LocalDisc,
    RaceDisc(u64),
    RaceSend(u64, u64),
    RaceBurst(u64, u64, u64),
    RaceJoin,
}

fn cmd12(s: &str) -> Option<[u8; 12]> {
    let b = s.as_bytes();
    if b.is_empty() || b.len() > 12 || !b.iter().all(|c| c.is_ascii_lowercase() || c.is_ascii_digit()) { return None; }
    let mut c = [0u8; 12];
    c[..b.len()].copy_from_slice(b);
    Some(c)
}

fn parse_hex(s: &str) -> Option<Vec<u8>> { if s == "-" { Some(vec![]) } else { hex::decode(s).ok() } }

fn parse_tok(t: &str) -> Option<Tok> {
    let p: Vec<&str> = t.split(':').collect();
    Some(match (p[0], p.len()) {
        ("f", 3) => Tok::Frame { cmd: cmd12(p[1])?, payload: parse_hex(p[2])?, fault: Fault::None, counted: true },
        ("g", 3) => Tok::Frame { cmd: cmd12(p[1])?, payload: parse_hex(p[2])?, fault: Fault::None, counted: false },
        ("xm", 3) => Tok::Frame { cmd: cmd12(p[1])?, payload: parse_hex(p[2])?, fault: Fault::Magic, counted: false },
        ("xc", 3) => Tok::Frame { cmd: cmd12(p[1])?, payload: parse_hex(p[2])?, fault: Fault::Checksum, counted: false },
        ("xo", 2) => Tok::Frame { cmd: cmd12(p[1])?, payload: vec![], fault: Fault::Oversize, counted: false },
        ("xt", 4) => Tok::Trunc { cmd: cmd12(p[1])?, payload: parse_hex(p[2])?, j: p[3].parse().ok()? },
        ("close", 1) => Tok::Close,
        ("silent", 1) => Tok::Silent,
        ("w", 2) => Tok::Wait(p[1].parse().ok()?),
        ("sync", 1) => Tok::Sync,
        ("ls", 3) => Tok::LocalSend { cmd: cmd12(p[1])?, payload: parse_hex(p[2])? },
        ("lsx", 1) => Tok::LocalSendX,
        ("ld", 1) => Tok::LocalDisc,
        ("rld", 2) => Tok::RaceDisc(p[1].parse().ok()?),
        ("rls", 3) => Tok::RaceSend(p[1].parse().ok()?, p[2].parse().ok()?),
        ("rjoin", 1) => Tok::RaceJoin,
        ("rlb", 4) => Tok::RaceBurst(p[1].parse().ok()?, p[2].parse().ok()?, p[3].parse().ok()?),
        _ => return None,
    })
}

fn frame_bytes(cmd: &[u8; 12], payload: &[u8], fault: Fault) -> Vec<u8> {
    let ck = sha256d(payload);
    let mut v = Vec::with_capacity(24 + payload.len());
    let mut magic = MAGIC;
    if fault == Fault::Magic { magic[3] ^= 0x01; }
    v.extend_from_slice(&magic);
    v.extend_from_slice(cmd);
    if fault == Fault::Oversize {
        v.extend_from_slice(&(MAX_PAYLOAD_SIZE + 1).to_le_bytes());
        v.extend_from_slice(&ck.0[..4]);
        return v;
    }
    v.extend_from_slice(&(payload.len() as u32).to_le_bytes());
    let mut c = [ck.0[0], ck.0[1], ck.0[2], ck.0[3]];
    if fault == Fault::Checksum { c[0] ^= 0xff; }
    v.extend_from_slice(&c);
    v.extend_from_slice(payload);
    v
}

/// `<command>/<bytes 4..12 of sha256d(payload as the crate re-serialises it)>`; `Other` as the hex of its string
fn render(m: &Message) -> String {
    if let Message::Other(s) = m { return format!("?{}/-", hex::encode(s.as_bytes())); }
    let mut v = Vec::new();
    if m.write(&mut v, MAGIC).is_err() || v.len() < 24 { return "unwritable/-".into(); }
    tag_of(&v[4..16], &v[24..])
}

fn tag_of(cmd: &[u8], payload: &[u8]) -> String {
    let name: String = cmd.iter().take_while(|b| **b != 0).map(|b| *b as char).collect();
    let d = sha256d(payload);
    format!("{}/{}", name, hex::encode(&d.0[4..12]))
}

fn send_class(r: &Result<(), ChainGangError>) -> String {
    match r { Ok(()) => "ok".into(), Err(e) => err_class(e) }
}

// ------------------------------------------------------------------------------------------------
// observers and the node
// ------------------------------------------------------------------------------------------------

#[derive(Default)]
struct Shared {
    log: Mutex<Vec<String>>,
    conn: AtomicUsize,
    disc: AtomicUsize,
    msgs: AtomicUsize,
    ping_nonces: Mutex<Vec<u64>>,
    /// results of the `send` attempted from INSIDE the disconnected-event callback (a "later send", on the publishing thread)
    cb_sends: Mutex<Vec<String>>,
}

struct Obs { sh: Arc<Shared> }
impl Observer<PeerConnected> for Obs {
    fn next(&self, _e: &PeerConnected) { self.sh.log.lock().unwrap().push("C".into()); self.sh.conn.fetch_add(1, Ordering::SeqCst); }
}
impl Observer<PeerDisconnected> for Obs {
    fn next(&self, e: &PeerDisconnected) {
        self.sh.log.lock().unwrap().push("D".into());
        self.sh.disc.fetch_add(1, Ordering::SeqCst);
        // the disconnection has been announced: a send from here must fail with an error at once (it runs on the thread that
        // is publishing the event, inside disconnect())
        let r = send_class(&e.peer.send(&Message::Ping(Ping { nonce: 0xcb })));
        self.sh.cb_sends.lock().unwrap().push(r);
    }
}
impl Observer<PeerMessage> for Obs {
    fn next(&self, e: &PeerMessage) {
        if let Message::Ping(p) = &e.message { self.sh.ping_nonces.lock().unwrap().push(p.nonce); }
        self.sh.log.lock().unwrap().push(format!("M:{}", render(&e.message)));
        self.sh.msgs.fetch_add(1, Ordering::SeqCst);
    }
}

/// what the node receives, until end of stream or an error
fn node_reader(mut sock: TcpStream, rx: Arc<Mutex<Vec<(String, Vec<u8>)>>>, eof: Arc<AtomicBool>) {
    let _ = sock.set_read_timeout(Some(Duration::from_secs(12)));
    loop {
        let mut h = [0u8; 24];
        if sock.read_exact(&mut h).is_err() { break; }
        let len = u32::from_le_bytes([h[16], h[17], h[18], h[19]]) as usize;
        // what the peer puts on the wire must be a sequence of well-formed frames (right magic, checksum of the payload): two local
        // sends whose bytes interleave, or a frame cut short, show up here; the rest of the stream is drained unparsed
        let mut corrupt = h[..4] != MAGIC || len > 4_000_000;
        let mut p = vec![0u8; if corrupt { 0 } else { len }];
        if !corrupt { if sock.read_exact(&mut p).is_err() { break; } corrupt = sha256d(&p).0[..4] != h[20..24]; }
        if corrupt {
            rx.lock().unwrap().push(("!corrupt".to_string(), vec![]));
            let mut sink = [0u8; 65536];
            loop { match sock.read(&mut sink) { Ok(0) | Err(_) => break, Ok(_) => {} } }
            break;
        }
        let name: String = h[4..16].iter().take_while(|b| **b != 0).map(|b| *b as char).collect();
        rx.lock().unwrap().push((name, p));
    }
    eof.store(true, Ordering::SeqCst);
}

fn render_rx(rx: &[(String, Vec<u8>)]) -> Vec<String> {
    rx.iter().enumerate().map(|(i, (name, p))| {
        match (i, name.as_str()) {
            (0, "version") => "version".to_string(),
            (1, "verack") => "verack".to_string(),
            (2, "ping") => "ping".to_string(),
            (_, "pong") if p.len() == 8 => format!("pong:{}", u64::from_le_bytes([p[0], p[1], p[2], p[3], p[4], p[5], p[6], p[7]])),
            _ => { let mut c = [0u8; 12]; let b = name.as_bytes(); c[..b.len().min(12)].copy_from_slice(&b[..b.len().min(12)]); tag_of(&c, p) }
        }
    }).collect()
}

struct Seg { k: usize, delay_ms: u64, pipelined: bool }

fn parse_seg(s: &str) -> Option<Seg> {
    let p: Vec<&str> = s.split(':').collect();
    if p.len() != 3 { return None; }
    Some(Seg { k: p[0].parse().ok()?, delay_ms: p[1].parse().ok()?, pipelined: match p[2] { "p" => true, "s" => false, _ => return None } })
}

/// Writes the buffer in k-byte segments.  `fault_end` = offset of the end of the first fault frame in
/// the buffer: the segment that completes that frame carries the rest of the buffer with it, and the
/// caller then waits for the peer to close before writing again.  (A node that keeps talking to a
/// socket the peer has shut down makes the peer's TCP reset the connection, which may discard pongs
/// the peer has written but its kernel has not transmitted yet — a transport effect outside C12.)
fn flush(sock: &mut TcpStream, buf: &mut Vec<u8>, seg: &Seg, fault_end: &mut Option<usize>, eof: &AtomicBool) {
    if buf.is_empty() { return; }
    let k = if seg.k == 0 { buf.len() } else { seg.k };
    let n = buf.len();
    let mut pos = 0;
    while pos < n {
        let mut end = (pos + k).min(n);
        if let Some(fe) = *fault_end { if end >= fe { end = n; } }
        if sock.write_all(&buf[pos..end]).is_err() { break; }   // the peer has gone: nothing more can be said
        let _ = sock.flush();
        pos = end;
        if pos < n && seg.delay_ms > 0 { thread::sleep(Duration::from_millis(seg.delay_ms)); }
    }
    buf.clear();
    if fault_end.take().is_some() { wait_until(Duration::from_secs(3), || eof.load(Ordering::SeqCst)); }
}

fn wait_until<F: Fn() -> bool>(limit: Duration, f: F) -> bool {
    let t0 = Instant::now();
    loop {
        if f() { return true; }
        if t0.elapsed() > limit { return false; }
        thread::sleep(Duration::from_micros(300));
    }
}

/// runs `f` on a second thread; `None` if it does not return within 3 s
fn on_thread<T: Send + 'static, F: FnOnce() -> T + Send + 'static>(f: F) -> Option<T> { on_thread_for(Duration::from_secs(3), f) }

/// runs `f` on another thread; `None` if it does not return within `limit` (the thread is then left behind)
fn on_thread_for<T: Send + 'static, F: FnOnce() -> T + Send + 'static>(limit: Duration, f: F) -> Option<T> {
    let (tx, rx) = std::sync::mpsc::channel();
    thread::spawn(move || { let _ = tx.send(f()); });
    rx.recv_timeout(limit).ok()
}

struct Session {
    log: Vec<String>,
    rx: Vec<(String, Vec<u8>)>,
    sends: Vec<String>,
    race_sends: Vec<String>,
    ping_nonces: Vec<u64>,
    conn: bool, minfee: u64, sendheaders: bool, sendcmpct: bool,
    late: (usize, usize, usize),
    cb: Vec<String>,
    after: String,
    panics: usize,
    sent_tags: Vec<String>,
}

fn run_session(minh: i32, seg: &Seg, toks: &[Tok]) -> Result<Session, String> {
    install_panic_counter();
    let panics0 = PANICS.load(Ordering::SeqCst);
    let listener = TcpListener::bind((Ipv4Addr::LOCALHOST, 0)).map_err(|e| format!("harness:bind:{:?}", e.kind()))?;
    let port = listener.local_addr().map_err(|_| "harness:addr".to_string())?.port();
    listener.set_nonblocking(true).map_err(|_| "harness:nonblocking".to_string())?;

    let version = Version { version: PROTOCOL_VERSION, services: NODE_BITCOIN_CASH, timestamp: 1_700_000_000, user_agent: "cg-verif".to_string(), ..Default::default() };
    let peer = Peer::connect(IpAddr::V4(Ipv4Addr::LOCALHOST), port, Network::BSV_Mainnet, version, SVPeerFilter::new(minh));
    let sh = Arc::new(Shared::default());
    let obs = Arc::new(Obs { sh: sh.clone() });
    peer.connected_event().subscribe(&obs);
    peer.disconnected_event().subscribe(&obs);
    peer.messages().subscribe(&obs);

    let mut sock = {
        let t0 = Instant::now();
        loop {
            match listener.accept() {
                Ok((s, _)) => break s,
                Err(_) if t0.elapsed() < Duration::from_secs(5) => thread::sleep(Duration::from_micros(300)),
                Err(e) => return Err(format!("harness:accept:{:?}", e.kind())),
            }
        }
    };
    sock.set_nonblocking(false).map_err(|_| "harness:blocking".to_string())?;
    let _ = sock.set_nodelay(true);
    let rx = Arc::new(Mutex::new(Vec::new()));
    let eof = Arc::new(AtomicBool::new(false));
    {
        let (s2, rx2, eof2) = (sock.try_clone().map_err(|_| "harness:clone".to_string())?, rx.clone(), eof.clone());
        thread::spawn(move || node_reader(s2, rx2, eof2));
    }
    // the peer speaks first (its version): have it in hand before the node writes anything, so that a reset caused by the
    // node still writing to a peer that has already closed cannot discard it unread (a transport effect, not the peer's)
    wait_until(Duration::from_secs(1), || !rx.lock().unwrap().is_empty() || eof.load(Ordering::SeqCst));

    let mut buf: Vec<u8> = Vec::new();
    let mut nframes = 0usize;
    let mut wclosed = false;
    let mut fault_end: Option<usize> = None;
    let mut fault_sent = false;      // a token that must make the peer close has been played (g, xm, xc, xo, xt, close)
    let mut sends: Vec<String> = Vec::new();
    let mut sent_tags: Vec<String> = Vec::new();
    let race_sends: Arc<Mutex<Vec<String>>> = Arc::new(Mutex::new(Vec::new()));
    let mut race_threads = Vec::new();
    for tok in toks {
        match tok {
            Tok::Frame { cmd, payload, fault, counted } => {
                if wclosed { continue; }
                let b = frame_bytes(cmd, payload, *fault);
                if !*counted { fault_sent = true; }
                if *counted {
                    nframes += 1;
                    if let Ok(m) = Message::read(&mut Cursor::new(&b), MAGIC) { sent_tags.push(render(&m)); } else { sent_tags.push("undecodable".into()); }
                }
                buf.extend_from_slice(&b);
                if !*counted && fault_end.is_none() { fault_end = Some(buf.len()); }
                if !seg.pipelined { flush(&mut sock, &mut buf, seg, &mut fault_end, &eof); }
            }
            Tok::Trunc { cmd, payload, j } => {
                if wclosed { continue; }
                let b = frame_bytes(cmd, payload, Fault::None);
                buf.extend_from_slice(&b[..(*j).min(b.len())]);
                flush(&mut sock, &mut buf, seg, &mut fault_end, &eof);
                let _ = sock.shutdown(Shutdown::Write);
                wclosed = true;
                fault_sent = true;
            }
            Tok::Close => {
                flush(&mut sock, &mut buf, seg, &mut fault_end, &eof);
                if !wclosed { let _ = sock.shutdown(Shutdown::Write); }
                wclosed = true;
                fault_sent = true;
            }
            Tok::Silent => {
                flush(&mut sock, &mut buf, seg, &mut fault_end, &eof);
                wait_until(Duration::from_secs(6), || eof.load(Ordering::SeqCst));
            }
            Tok::Wait(ms) => { flush(&mut sock, &mut buf, seg, &mut fault_end, &eof); thread::sleep(Duration::from_millis(*ms)); }
            Tok::Sync => {
                flush(&mut sock, &mut buf, seg, &mut fault_end, &eof);
                if fault_sent {
                    wait_until(Duration::from_secs(3), || eof.load(Ordering::SeqCst));
                } else if nframes >= 2 {
                    let target = nframes - 2;
                    wait_until(Duration::from_secs(3), || eof.load(Ordering::SeqCst) ||
                        (sh.conn.load(Ordering::SeqCst) >= 1 && sh.msgs.load(Ordering::SeqCst) >= target));
                }
            }
            Tok::LocalSend { cmd, payload } => {
                flush(&mut sock, &mut buf, seg, &mut fault_end, &eof);
                let b = frame_bytes(cmd, payload, Fault::None);
                let m = Message::read(&mut Cursor::new(&b), MAGIC).map_err(|_| "bad-request".to_string())?;
                let p = peer.clone();
                sends.push(on_thread(move || send_class(&p.send(&m))).unwrap_or_else(|| "hang".into()));
            }
            Tok::LocalSendX => {
                flush(&mut sock, &mut buf, seg, &mut fault_end, &eof);
                let p = peer.clone();
                let was_connected = sh.conn.load(Ordering::SeqCst) >= 1;
                sends.push(on_thread(move || send_class(&p.send(&Message::Other("cg-unwritable".into())))).unwrap_or_else(|| "hang".into()));
                if was_connected { fault_sent = true; wait_until(Duration::from_secs(3), || eof.load(Ordering::SeqCst)); }
            }
            Tok::LocalDisc => {
                flush(&mut sock, &mut buf, seg, &mut fault_end, &eof);
                let p = peer.clone();
                let was_connected = sh.conn.load(Ordering::SeqCst) >= 1;
                if on_thread(move || p.disconnect()).is_none() { sends.push("disconnect-hang".into()); }
                if was_connected { fault_sent = true; wait_until(Duration::from_secs(3), || eof.load(Ordering::SeqCst)); }
            }
            Tok::RaceDisc(us) => {
                flush(&mut sock, &mut buf, seg, &mut fault_end, &eof);
                let (p, us) = (peer.clone(), *us);
                race_threads.push(thread::spawn(move || { thread::sleep(Duration::from_micros(us)); p.disconnect(); }));
            }
            // `rlb:<n>:<entries>:<tag>`: a thread sending n inventory messages of <entries> entries each as fast as it can (a message
            // is many write calls: several such threads at once must still put whole frames on the wire, one after the other)
            Tok::RaceBurst(n, entries, tag) => {
                flush(&mut sock, &mut buf, seg, &mut fault_end, &eof);
                let (p, n, entries, tag, out) = (peer.clone(), *n, *entries, *tag, race_sends.clone());
                race_threads.push(thread::spawn(move || {
                    let mut rs = Vec::new();
                    for i in 0..n {
                        let m = Message::Inv(Inv { objects: (0..entries).map(|j| InvVect { obj_type: 1, hash: Hash256([(tag as u8) ^ (i as u8) ^ (j as u8); 32]) }).collect() });
                        rs.push(send_class(&p.send(&m)));
                    }
                    out.lock().unwrap().extend(rs);
                }));
            }
            Tok::RaceJoin => { flush(&mut sock, &mut buf, seg, &mut fault_end, &eof); for t in race_threads.drain(..) { let _ = t.join(); } }
            Tok::RaceSend(n, us) => {
                flush(&mut sock, &mut buf, seg, &mut fault_end, &eof);
                let (p, n, us, out) = (peer.clone(), *n, *us, race_sends.clone());
                race_threads.push(thread::spawn(move || {
                    thread::sleep(Duration::from_micros(us));
                    for i in 0..n {
                        let r = send_class(&p.send(&Message::Ping(Ping { nonce: 1_000_000 + i })));
                        out.lock().unwrap().push(r);
                    }
                }));
            }
        }
    }
    flush(&mut sock, &mut buf, seg, &mut fault_end, &eof);
    for t in race_threads { let _ = t.join(); }

    // the session is over when the peer has closed its socket …
    if !wait_until(Duration::from_secs(6), || eof.load(Ordering::SeqCst)) { return Err("hang".into()); }
    // … and has announced it; then let anything that should NOT happen have its chance to happen
    wait_until(Duration::from_secs(2), || sh.disc.load(Ordering::SeqCst) >= 1);
    thread::sleep(Duration::from_millis(25));
    let log = sh.log.lock().unwrap().clone();

    let sh2 = Arc::new(Shared::default());
    let obs2 = Arc::new(Obs { sh: sh2.clone() });
    peer.connected_event().subscribe(&obs2);
    peer.disconnected_event().subscribe(&obs2);
    peer.messages().subscribe(&obs2);
    let after = { let p = peer.clone(); on_thread(move || send_class(&p.send(&Message::Ping(Ping { nonce: 0xdead })))).unwrap_or_else(|| "hang".into()) };
    thread::sleep(Duration::from_millis(5));
    let late = (sh2.conn.load(Ordering::SeqCst), sh2.disc.load(Ordering::SeqCst), sh2.msgs.load(Ordering::SeqCst));
    let log_len_after = sh.log.lock().unwrap().len();
    let mut log = log;
    if log_len_after != log.len() { log.push(format!("LATE+{}", log_len_after - log.len())); }

    let s = Session {
        log, rx: rx.lock().unwrap().clone(), sends, race_sends: race_sends.lock().unwrap().clone(),
        ping_nonces: sh.ping_nonces.lock().unwrap().clone(),
        conn: peer.connected(), minfee: peer.minfee(), sendheaders: peer.sendheaders(), sendcmpct: peer.sendcmpct(),
        late, cb: sh.cb_sends.lock().unwrap().clone(), after, panics: PANICS.load(Ordering::SeqCst) - panics0, sent_tags,
    };
    drop(obs); drop(obs2);
    Ok(s)
}

fn join_or_dash(v: &[String], sep: &str) -> String { if v.is_empty() { "-".into() } else { v.join(sep) } }

fn render_session(s: &Session) -> String {
    format!("ok:ev={}|rx={}|sr={}|st={},{},{},{}|late={},{},{}|cb={}|after={}|panics={}",
        join_or_dash(&s.log, ">"), join_or_dash(&render_rx(&s.rx), ","), join_or_dash(&s.sends, ","),
        s.conn as u8, s.minfee, s.sendheaders as u8, s.sendcmpct as u8, s.late.0, s.late.1, s.late.2, join_or_dash(&s.cb, ","), s.after, s.panics)
}

/// Race-insensitive summary: `c` = connected events; `cfirst` = the connected event precedes every
/// message; `order=prefix` when the delivered messages are, in order, the first k post-handshake
/// `f:` frames sent for some k (else the raw list); `pong=prefix` when the pongs the node saw are,
/// in order, a prefix of the nonces of the delivered pings (all of them unless the racing shutdown
/// made the peer's TCP discard the tail); `x` = disconnected events; `sends=mono` when
/// the racing sends returned `ok`*, then at most one `err:IoError` (the send passed the flag test and lost
/// the race against the shutdown of a concurrent disconnect), then `err:IllegalState`* ; `lsrx=le` when the node received no more
/// racing pings than sends returned ok; then the final send, `connected()`, late observers, panics.
fn summarise_race(s: &Session) -> String {
    let msgs: Vec<&String> = s.log.iter().filter(|l| l.starts_with("M:")).collect();
    let first_m = s.log.iter().position(|l| l.starts_with("M:"));
    let first_c = s.log.iter().position(|l| l == "C");
    let cfirst = match (first_c, first_m) { (_, None) => true, (Some(c), Some(m)) => c < m, (None, Some(_)) => false };
    let post: Vec<String> = s.sent_tags.iter().skip(2).map(|t| format!("M:{}", t)).collect();
    let order = if msgs.len() <= post.len() && msgs.iter().zip(post.iter()).all(|(a, b)| *a == b) { "prefix".to_string() } else { msgs.iter().map(|m| m.as_str()).collect::<Vec<_>>().join(">") };
    let rxr = render_rx(&s.rx);
    let pongs: Vec<String> = rxr.iter().filter(|r| r.starts_with("pong:")).cloned().collect();
    let want: Vec<String> = s.ping_nonces.iter().map(|n| format!("pong:{}", n)).collect();
    // (a racing disconnect() may cost the tail: what the peer wrote just before its shutdown can be discarded by its TCP)
    let pong = if pongs.len() <= want.len() && pongs[..] == want[..pongs.len()] { "prefix".to_string() } else { format!("{}!={}", pongs.join(","), want.join(",")) };
    let oks = s.race_sends.iter().take_while(|r| *r == "ok").count();
    // a send that passed the flag test and then lost the race against a disconnect's shutdown(): one IoError at the boundary
    let io = s.race_sends.iter().skip(oks).take_while(|r| *r == "err:IoError").count().min(1);
    let mono = s.race_sends.iter().skip(oks + io).all(|r| r == "err:IllegalState");
    let sends = if mono { "mono".to_string() } else { s.race_sends.join(",") };
    let seen = rxr.iter().skip(3).filter(|r| r.starts_with("ping/") || r.starts_with("inv/")).count();
    let wire = if s.rx.iter().any(|(n, _)| n == "!corrupt") { "corrupt" } else { "ok" };
    let lsrx = if seen <= oks { "le".to_string() } else { format!("{}>{}", seen, oks) };
    format!("ok:race|c={}|cfirst={}|order={}|pong={}|x={}|sends={}|lsrx={}|wire={}|after={}|conn={}|late={},{},{}|panics={}",
        s.log.iter().filter(|l| *l == "C").count(), cfirst as u8, order, pong, s.log.iter().filter(|l| *l == "D").count(),
        sends, lsrx, wire, s.after, s.conn as u8, s.late.0, s.late.1, s.late.2, s.panics)
}

#[path = "c12conc.rs"]
mod conc;

pub fn exec(op: &str, a: &[&str]) -> Option<String> {
    if op == "c12.conc" {
        // watchdog: a peer that deadlocks (e.g. on its own tcp_writer mutex) must make the case `hang`, not the harness
        let owned: Vec<String> = a.iter().map(|x| x.to_string()).collect();
        if GENERATING.load(Ordering::SeqCst) && WATCHDOG_HITS.load(Ordering::SeqCst) >= 6 { return Some("skipped:watchdog".into()); }
        let r = on_thread_for(Duration::from_secs(25), move || { let r: Vec<&str> = owned.iter().map(|x| x.as_str()).collect(); conc::exec_conc(&r) }).unwrap_or_else(|| "hang".into());
        // a steered session in which a thread did not come to rest costs its 3 s wait: after several of them the rest of a
        // generated run is not executed
        if r.starts_with("hang") { WATCHDOG_HITS.fetch_add(1, Ordering::SeqCst); }
        return Some(r);
    }
    if op != "c12.session" && op != "c12.race" { return None; }
    if a.len() != 3 { return Some("bad-request".into()); }
    let minh: i32 = match a[0].parse() { Ok(v) => v, Err(_) => return Some("bad-request".into()) };
    let seg = match parse_seg(a[1]) { Some(s) => s, None => return Some("bad-request".into()) };
    let mut toks = Vec::new();
    if a[2] != "-" { for t in a[2].split(',') { match parse_tok(t) { Some(t) => toks.push(t), None => return Some("bad-request".into()) } } }
    let race = op == "c12.race";
    if !race && toks.iter().any(|t| matches!(t, Tok::RaceDisc(_) | Tok::RaceSend(..))) { return Some("bad-request".into()); }
    // the whole session runs under a watchdog: dropping a peer whose receive thread is deadlocked on its own tcp_writer
    // mutex would block this thread too (Peer::drop calls disconnect()).  Once several sessions of one generated run have hit
    // the watchdog the rest of the run is not executed (each would cost the watchdog again; the hangs found are the report).
    if GENERATING.load(Ordering::SeqCst) && WATCHDOG_HITS.load(Ordering::SeqCst) >= 6 { return Some("skipped:watchdog".into()); }
    let r = on_thread_for(Duration::from_secs(25), move || match run_session(minh, &seg, &toks) {
        Ok(s) => if race { summarise_race(&s) } else { render_session(&s) },
        Err(e) => e,
    });
    if r.is_none() { WATCHDOG_HITS.fetch_add(1, Ordering::SeqCst); }
    Some(r.unwrap_or_else(|| "hang".into()))
}

// ------------------------------------------------------------------------------------------------
// generators
// ------------------------------------------------------------------------------------------------

fn h256(r: &mut Rng) -> Hash256 { let mut a = [0u8; 32]; for b in a.iter_mut() { *b = r.byte(); } Hash256(a) }
fn node_addr(r: &mut Rng) -> NodeAddr {
    let mut ip = [0u8; 16]; for b in ip.iter_mut() { *b = r.byte(); }
    NodeAddr { services: r.next(), ip: Ipv6Addr::from(ip), port: r.next() as u16 }
}
fn block_header(r: &mut Rng) -> BlockHeader {
    BlockHeader { version: r.next() as u32, prev_hash: h256(r), merkle_root: h256(r), timestamp: r.next() as u32, bits: r.next() as u32, nonce: r.next() as u32 }
}
fn tx(r: &mut Rng, script_len: usize) -> Tx {
    Tx { version: r.next() as u32,
         inputs: (0..r.range(1, 2)).map(|_| TxIn { prev_output: OutPoint { hash: h256(r), index: r.next() as u32 }, unlock_script: Script(r.bytes(script_len)), sequence: r.next() as u32 }).collect(),
         outputs: (0..r.range(1, 2)).map(|_| TxOut { satoshis: r.below(100_000) as i64, lock_script: Script({ let n = r.below(40) as usize; r.bytes(n) }) }).collect(),
         lock_time: r.next() as u32 }
}
fn inv(r: &mut Rng, n: u64) -> Inv { Inv { objects: (0..n).map(|_| InvVect { obj_type: r.below(4) as u32, hash: h256(r) }).collect() } }

/// `<cmd>:<payload hex>` of a message as the crate serialises it
fn cp(m: &Message) -> String {
    let mut v = Vec::new();
    m.write(&mut v, MAGIC).expect("serialise");
    let name: String = v[4..16].iter().take_while(|b| **b != 0).map(|b| *b as char).collect();
    format!("{}:{}", name, hexd(&v[24..]))
}

fn node_version(proto: u32, services: u64, height: i32, ua: &str) -> Message {
    Message::Version(Version { version: proto, services, timestamp: 1_700_000_123, recv_addr: NodeAddr::default(), tx_addr: NodeAddr::default(),
        nonce: 0x1122334455667788, user_agent: ua.to_string(), start_height: height, relay: true, association_id: vec![] })
}
fn good_version(r: &mut Rng) -> Message {
    let services = *r.pick(&[NODE_NETWORK, NODE_BITCOIN_CASH, NODE_NETWORK | NODE_BITCOIN_CASH | 4, 0xffff_ffff_ffff_ffff]);
    let ua = *r.pick(&["/Bitcoin SV:1.0.11/", "Bitcoin SV", "xx Bitcoin SV yy"]);
    node_version(*r.pick(&[70015u32, 70001, 70016]), services, 800_000 + r.below(10) as i32, ua)
}

fn ping_nonce(r: &mut Rng) -> u64 { match r.below(5) { 0 => 0, 1 => u64::MAX, 2 => 1 << 63, _ => r.next() } }

/// a post-handshake message of a random kind
fn gen_msg(r: &mut Rng) -> Message {
    match r.below(20) {
        0..=3 => Message::Ping(Ping { nonce: ping_nonce(r) }),
        4..=5 => Message::FeeFilter(FeeFilter { minfee: match r.below(3) { 0 => 0, 1 => u64::MAX, _ => r.below(1_000_000) } }),
        6 => Message::SendHeaders,
        7..=8 => Message::SendCmpct(SendCmpct { enable: r.below(3) as u8, version: r.range(0, 2) }),
        9 => { let n = r.range(0, 4); Message::Inv(inv(r, n)) },
        10 => Message::Tx(tx(r, 20)),
        11 => Message::Headers(Headers { headers: (0..r.range(0, 3)).map(|_| block_header(r)).collect() }),
        12 => Message::Addr(Addr { addrs: (0..r.range(0, 3)).map(|_| NodeAddrEx { last_connected_time: r.next() as u32, addr: node_addr(r) }).collect() }),
        13 => Message::GetAddr,
        14 => Message::Mempool,
        15 => Message::Pong(Ping { nonce: r.next() }),
        16 => Message::Verack,
        17 => good_version(r),
        18 => { let n = r.range(1500, 6000) as usize; Message::Tx(tx(r, n)) },
        _ => { let n = r.range(1, 2); Message::GetData(inv(r, n)) },
    }
}

/// a frame token for a post-handshake message (known kinds via the crate's serialiser, or an unknown command)
fn gen_frame_tok(r: &mut Rng) -> String {
    if r.chance(1, 9) {
        let name = *r.pick(&["foobar", "alert", "x", "zzzzzzzzzzzz"]);
        let n = match r.below(3) { 0 => 0, 1 => r.range(1, 8), _ => r.range(9, 300) } as usize;
        return format!("f:{}:{}", name, hexd(&r.bytes(n)));
    }
    format!("f:{}", cp(&gen_msg(r)))
}

fn gen_seg(r: &mut Rng, total_bytes: usize) -> String {
    let k = *r.pick(&[0usize, 0, 1, 5, 23, 37, 100, 1000]);
    // keep the total pacing far below the 3 s handshake timeout
    let chunks = if k == 0 { 1 } else { total_bytes / k + 1 };
    let delay = if chunks > 120 { 0 } else if chunks > 40 { r.below(2) } else { r.below(4) };
    format!("{}:{}:{}", k, delay, if r.chance(1, 2) { "p" } else { "s" })
}

fn local_send_tok(r: &mut Rng) -> String {
    if r.chance(1, 8) { return "lsx".into(); }
    let m = match r.below(5) { 0 => Message::GetAddr, 1 => Message::Mempool, 2 => Message::Ping(Ping { nonce: r.next() }), 3 => { let n = r.range(1, 3); Message::Inv(inv(r, n)) }, _ => Message::FeeFilter(FeeFilter { minfee: r.below(5000) }) };
    format!("ls:{}", cp(&m))
}

/// a fault token placed where the next frame would go; `len_hint` for the truncation point
fn fault_tok(r: &mut Rng) -> String {
    let m = match r.below(4) { 0 => Message::Ping(Ping { nonce: r.next() }), 1 => { let n = r.range(1, 3); Message::Inv(inv(r, n)) }, 2 => Message::Tx(tx(r, 30)), _ => Message::FeeFilter(FeeFilter { minfee: 7 }) };
    let body = cp(&m);
    let plen = (body.split(':').nth(1).map(|h| if h == "-" { 0 } else { h.len() / 2 }).unwrap_or(0)) + 24;
    match r.below(9) {
        0 => format!("xc:{}", body),
        1 => format!("xm:{}", body),
        2 => format!("xo:{}", body.split(':').next().unwrap()),
        3 => format!("xt:{}:{}", body, r.range(1, 23)),                       // inside the header
        4 => format!("xt:{}:{}", body, r.range(24, plen as u64 - 1)),        // header complete, payload cut
        5 => "close".to_string(),
        6 => { let n = r.below(8) as usize; format!("g:ping:{}", hexd(&r.bytes(n))) }       // payload too short for the codec
        7 => { let n = r.range(1, 4) as usize; let c = *r.pick(&["verack", "sendheaders", "getaddr", "mempool"]); format!("g:{}:{}", c, hexd(&r.bytes(n))) } // payload-less command with a payload
        _ => format!("g:inv:{}", hexd(&[5u8, 1, 0, 0, 0])),                    // announces five entries, carries none
    }
}

fn session(minh: i32, seg: &str, toks: &[String]) -> String { format!("c12.session {} {} {}", minh, seg, toks.join(",")) }

/// Conforming sessions whose payloads arrive in many paced fragments (used by C11's check too: the REAL receive loop of
/// connect_internal, not the harness copy, reassembles them): 1-4 messages, at least one with a payload of several hundred
/// bytes, written frame by frame in k-byte segments (k in 7..250) with 1-2 ms between segments, then a half-close.
pub fn gen_fragmented(rng: &mut Rng, out: &mut Vec<String>, n: usize) {
    GENERATING.store(true, Ordering::SeqCst);
    for i in 0..n {
        let mut t: Vec<String> = vec![format!("f:{}", cp(&good_version(rng))), "f:verack:-".to_string()];
        let big = match i % 3 {
            0 => { let k = 8 + rng.below(24); Message::Inv(inv(rng, k)) }
            1 => { let k = 300 + rng.below(900) as usize; Message::Tx(tx(rng, k)) }
            _ => { let k = 3 + rng.below(8); Message::Headers(Headers { headers: (0..k).map(|_| block_header(rng)).collect() }) }
        };
        let before = rng.below(2);
        for _ in 0..before { t.push(gen_frame_tok(rng)); }
        t.push(format!("f:{}", cp(&big)));
        for _ in 0..rng.below(3) { t.push(gen_frame_tok(rng)); }
        t.push("close".into());
        let k = *rng.pick(&[7usize, 23, 37, 64, 100, 250]);
        out.push(session(0, &format!("{}:{}:s", k, 1 + rng.below(2)), &t));
    }
}

pub fn gen(tier: &str, rng: &mut Rng, out: &mut Vec<String>) {
    GENERATING.store(true, Ordering::SeqCst);
    // steered sessions: the interleaving model replayed through the H3 sync points (c12conc.rs)
    if chain_gang::util::verif_hooks::PEER_HOOKS { conc::gen_conc(tier, &mut rng.fork(), out); }
    let thorough = tier == "thorough";
    let mult = if thorough { 8 } else { 1 };
    let hs = |r: &mut Rng| -> Vec<String> { vec![format!("f:{}", cp(&good_version(r))), "f:verack:-".to_string()] };
    let size_of = |toks: &[String]| -> usize { toks.iter().map(|t| t.len() / 2).sum() };

    // ---- (A) conforming sessions: any kinds, any number, segmentation, pacing, local sends at sync points ----
    for i in 0..60 * mult {
        let mut t = hs(rng);
        let n = match i % 6 { 0 => 0, 1 => 1, _ => rng.range(2, 9) };
        for j in 0..n {
            t.push(gen_frame_tok(rng));
            if rng.chance(1, 6) { t.push("sync".into()); t.push(local_send_tok(rng)); if t.last().unwrap() == "lsx" { break; } }
            if rng.chance(1, 10) { t.push(format!("w:{}", rng.range(1, 15))); }
            let _ = j;
        }
        if rng.chance(1, 2) { t.push("close".into()); } else { t.push("sync".into()); t.push("ld".into()); if rng.chance(1, 3) { t.push(local_send_tok(rng)); } if rng.chance(1, 4) { t.push("ld".into()); } }
        let seg = gen_seg(rng, size_of(&t));
        out.push(session(rng.below(800_001) as i32, &seg, &t));
    }

    // ---- (B) a fault after the handshake, at any position, with traffic and calls after it ----
    for _ in 0..70 * mult {
        let mut t = hs(rng);
        for _ in 0..rng.below(5) { t.push(gen_frame_tok(rng)); if rng.chance(1, 8) { t.push("sync".into()); t.push(local_send_tok(rng)); if t.last().unwrap() == "lsx" { break; } } }
        t.push(fault_tok(rng));
        for _ in 0..rng.below(4) { t.push(gen_frame_tok(rng)); }
        if rng.chance(1, 2) { t.push("sync".into()); t.push(local_send_tok(rng)); }
        if rng.chance(1, 4) { t.push("sync".into()); t.push("ld".into()); }
        if rng.chance(1, 3) { t.push("close".into()); }
        let seg = gen_seg(rng, size_of(&t));
        out.push(session(0, &seg, &t));
    }

    // ---- (C) faults of the handshake ----
    for i in 0..56 * mult {
        let v = format!("f:{}", cp(&good_version(rng)));
        let ping = format!("f:{}", cp(&Message::Ping(Ping { nonce: rng.next() })));
        let mut minh = 0;
        let mut t: Vec<String> = match i % 14 {
            0 => vec!["f:verack:-".into(), v.clone()],                                                        // verack before version
            1 => vec![ping.clone(), "f:verack:-".into()],                                                     // no version
            2 => vec![v.replacen("f:", "xm:", 1), "f:verack:-".into()],                                       // wrong magic
            3 => vec![v.replacen("f:", "xc:", 1), "f:verack:-".into()],                                       // bad checksum
            4 => vec!["xo:version".into(), "f:verack:-".into()],                                              // oversize length
            5 => vec![format!("g:{}", cp(&node_version(*rng.pick(&[60002u32, 70000, 0]), 37, 800_000, "/Bitcoin SV:1.0/"))), "f:verack:-".into()], // protocol version too low
            6 => vec![format!("f:{}", cp(&node_version(70015, 37, 800_000, *rng.pick(&["/Satoshi:0.16/", "", "bitcoin sv", "Bitcoin  SV"])))), "f:verack:-".into()], // filter: user agent
            7 => vec![format!("f:{}", cp(&node_version(70015, *rng.pick(&[0u64, 4, 2, 0xffff_ffff_ffff_ffde]), 800_000, "/Bitcoin SV:1.0/"))), "f:verack:-".into()], // filter: services
            8 => { minh = 800_000; vec![format!("f:{}", cp(&node_version(70015, 37, *rng.pick(&[799_999, 0, -1, i32::MIN]), "/Bitcoin SV:1.0/"))), "f:verack:-".into()] } // filter: height
            9 => vec![v.clone(), gen_frame_tok(rng), "f:verack:-".into()],                                    // a message between version and verack
            10 => vec![v.clone(), v.clone(), "f:verack:-".into()],                                            // version twice
            11 => vec!["close".into()],                                                                       // close before version
            12 => { let plen = v.len() / 2; vec![format!("xt:{}:{}", &v[2..], rng.range(1, plen as u64 - 10))] } // close inside the version message
            _ => vec![v.clone(), "close".into()],                                                             // close after version, before verack
        };
        if i % 14 == 9 { if let Some(x) = t.get(1) { if x.starts_with("f:verack:") { t[1] = ping.clone(); } } }
        for _ in 0..rng.below(4) { t.push(gen_frame_tok(rng)); }          // must never be delivered
        if rng.chance(1, 2) { t.push("sync".into()); t.push(local_send_tok(rng)); }
        if rng.chance(1, 3) { t.push("close".into()); }
        let seg = gen_seg(rng, size_of(&t));
        out.push(session(minh, &seg, &t));
    }
    // the filter's boundary: start height exactly the minimum is accepted
    {
        let t = vec![format!("f:{}", cp(&node_version(70015, 1, 500, "/Bitcoin SV:1.0/"))), "f:verack:-".into(), format!("f:{}", cp(&Message::Ping(Ping { nonce: 5 }))), "close".into()];
        out.push(session(500, "0:0:s", &t));
        out.push(session(501, "0:0:s", &t));
    }

    // ---- (D) a silent remote: the handshake read timeout ----
    for i in 0..(if thorough { 8 } else { 3 }) {
        let v = format!("f:{}", cp(&good_version(rng)));
        let t: Vec<String> = match i % 3 { 0 => vec!["silent".into()], 1 => vec![v, "silent".into()], _ => vec![v, "sync".into(), local_send_tok(rng), "silent".into(), "f:verack:-".into()] };
        out.push(session(0, "0:0:s", &t));
    }

    // ---- (E) local calls at scripted points, including before the handshake is over ----
    for i in 0..28 * mult {
        let v = format!("f:{}", cp(&good_version(rng)));
        let mut t: Vec<String> = Vec::new();
        match i % 7 {
            0 => { t.push("ld".into()); t.push(v); t.push("f:verack:-".into()); }                 // disconnect() before anything arrived
            1 => { t.push(v); t.push("w:5".into()); t.push("ld".into()); t.push("f:verack:-".into()); } // … between version and verack
            2 => { t.push(local_send_tok(rng)); t.push(v); t.push(local_send_tok(rng)); t.push("f:verack:-".into()); } // send() during the handshake
            3 => { t.extend(hs(rng)); t.push("sync".into()); t.push("lsx".into()); }              // unwritable message: send() disconnects
            4 => { t.extend(hs(rng)); t.push("sync".into()); t.push("ld".into()); t.push("ld".into()); t.push(local_send_tok(rng)); }
            5 => { t.extend(hs(rng)); t.push("sync".into()); for _ in 0..rng.range(1, 5) { t.push(local_send_tok(rng)); if t.last().unwrap() == "lsx" { break; } } }
            _ => { t.push("ld".into()); t.push("f:verack:-".into()); t.push(v); }                 // early disconnect and a wrong handshake
        }
        for _ in 0..rng.below(5) { t.push(gen_frame_tok(rng)); }
        if rng.chance(1, 2) { t.push("sync".into()); t.push(local_send_tok(rng)); }
        t.push("close".into());
        let seg = gen_seg(rng, size_of(&t));
        out.push(session(0, &seg, &t));
    }

    // ---- (F) local calls racing with traffic ----
    for i in 0..30 * mult {
        let mut t = hs(rng);
        for _ in 0..rng.below(4) { t.push(gen_frame_tok(rng)); }
        t.push("sync".into());
        match i % 3 { 0 => t.push(format!("rld:{}", rng.below(3000))), 1 => t.push(format!("rls:{}:{}", rng.range(1, 12), rng.below(1500))), _ => { t.push(format!("rls:{}:{}", rng.range(1, 12), rng.below(1500))); t.push(format!("rld:{}", rng.below(3000))); } }
        for _ in 0..rng.range(5, 40) {
            t.push(format!("f:{}", cp(&match rng.below(4) { 0 => Message::Ping(Ping { nonce: rng.next() }), 1 => Message::FeeFilter(FeeFilter { minfee: rng.below(1000) }), 2 => { let n = rng.range(0, 2); Message::Inv(inv(rng, n)) }, _ => Message::GetAddr })));
            if rng.chance(1, 5) { t.push("w:1".into()); }
        }
        t.push("close".into());
        out.push(format!("c12.race 0 {}:0:s {}", rng.pick(&[0usize, 0, 13]), t.join(",")));
    }
    // ---- (G) several local threads sending at once: whole frames on the wire ----
    for i in 0..6 * mult {
        let mut t = hs(rng);
        t.push("sync".into());
        let nthreads = 2 + i % 3;
        for k in 0..nthreads { t.push(format!("rlb:{}:{}:{}", rng.range(20, 60), *rng.pick(&[1u64, 40, 400, 1500]), k + 1)); }
        if i % 2 == 0 { t.push(format!("rls:{}:0", rng.range(5, 12))); }
        t.push("rjoin".into());
        t.push("close".into());
        out.push(format!("c12.race 0 0:0:s {}", t.join(",")));
    }
}

//! Generates the property registry from the files present in src/: every `src/cNN.rs` must export
//! `pub fn gen(tier:&str, rng:&mut Rng, out:&mut Vec<String>)`, `pub fn exec(op:&str, args:&[&str]) -> Option<String>`
//! and `pub fn tables(w:&mut dyn std::io::Write)`.
use std::io::Write;
fn main() {
    let src = std::path::Path::new(env!("CARGO_MANIFEST_DIR")).join("src");
    let mut ids: Vec<String> = std::fs::read_dir(&src).unwrap().filter_map(|e| {
        let n = e.unwrap().file_name().into_string().unwrap();
        let b = n.as_bytes();
        if n.len() == 6 && b[0] == b'c' && b[1].is_ascii_digit() && b[2].is_ascii_digit() && n.ends_with(".rs") { Some(n[..3].to_string()) } else { None }
    }).collect();
    ids.sort();
    let out = std::path::Path::new(&std::env::var("OUT_DIR").unwrap()).join("registry.rs");
    let mut f = std::fs::File::create(out).unwrap();
    for id in &ids { writeln!(f, "#[path = \"{}/{}.rs\"] mod {};", src.display(), id, id).unwrap(); }
    writeln!(f, "fn registry() -> Vec<(&'static str, GenFn, ExecFn, TablesFn)> {{ vec![").unwrap();
    for id in &ids { writeln!(f, "  (\"{}\", {}::gen as GenFn, {}::exec as ExecFn, {}::tables as TablesFn),", id.to_uppercase(), id, id, id).unwrap(); }
    writeln!(f, "] }}").unwrap();
    // path of the chain-gang dependency (so the harness can read crate-private tables from its sources)
    let manifest = std::fs::read_to_string(std::path::Path::new(env!("CARGO_MANIFEST_DIR")).join("Cargo.toml")).unwrap();
    let repo = manifest.lines().find(|l| l.starts_with("chain-gang")).and_then(|l| l.split("path = \"").nth(1)).and_then(|r| r.split('"').next()).unwrap_or("/repo").to_string();
    println!("cargo:rustc-env=CG_REPO={}", repo);
    println!("cargo:rerun-if-changed=Cargo.toml");
    println!("cargo:rerun-if-changed=src");
    println!("cargo:rerun-if-changed=build.rs");
}

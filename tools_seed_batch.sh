#!/bin/bash
# usage: tools_seed_batch.sh <round prefix e.g. seed3> <x:PID> ...   evaluates each seeded change (worktree /tmp/<prefix>_<x>, output /tmp/<prefix>_<x>_out)
PFX=$1; shift
cd /verif
for s in "$@"; do x=${s%%:*}; P=${s##*:}
  ln -sfn /tmp/${PFX}_$x /tmp/seed_b$x; ln -sfn /tmp/${PFX}_${x}_out /tmp/seed_b${x}_out
  echo "##### $P ($x)"
  ./tools_seed_eval.sh $P b$x 2>&1 | grep -E "^\[C[0-9]+\] tier|VIOLATION|expect|test result|cannot|does not" | cut -c1-220
  rm -f /tmp/seed_b$x /tmp/seed_b${x}_out
done

#!/bin/bash
# applies each behaviour-preserving rewrite to /repo, runs the relevant checks, reverts; every check must stay silent
declare -A MAP=( [01]="C01 C07 C17" [02]="C01 C07 C17 C03" [03]="C01 C07 C16 C18" [04]="C01 C10" [05]="C02 C03" [06]="C04 C03" [07]="C14 C04" [08]="C05 C06 C11" [09]="C05 C06" [10]="C09" [11]="C19" [12]="C11 C12" [13]="C12" [14]="C12 C11" [15]="C13" [16]="C13" [17]="C15 C05" [18]="C15 C05 C19" [19]="C14" [20]="C14" [21]="C04 C03" [22]="C04 C14" [23]="C01 C07" [24]="C09" [25]="C02 C03" [26]="C03 C07" [27]="C08" [28]="C10" [29]="C20" [30]="C14" [31]="C16" [32]="C01 C16" [33]="C05 C06" [34]="C05 C06 C11" [35]="C19" [36]="C18" [37]="C01 C07" [38]="C01 C07" [39]="C01 C17" [40]="C04 C03" [41]="C05 C06" [42]="C16" [43]="C16" [44]="C09 C18" [45]="C09" [46]="C13" [47]="C04 C06" [48]="C05 C06" )
cd /verif
for k in ${@:-01 02 03 04 05 06 07 08 09 10 11 12 13 14 15 16 17 18 19 20 21 22 23 24}; do
  git -C /repo apply /verif/rewrites/rewrite_$k.diff || { echo "rewrite $k does not apply"; continue; }
  for p in ${MAP[$k]}; do
    r=$(./check $p 2>&1 | grep -E "^\[$p\] tier|VIOLATION|ERROR" | cut -c1-160 | tr '\n' ' ')
    echo "rewrite_$k $p :: $r"
  done
  git -C /repo checkout -- .
done

#!/bin/bash
# Development tool (not a registered check): line coverage of /repo/src reached by the quick-tier
# correspondence of the given properties (default: all).  Builds the harness with the nightly toolchain and
# -C instrument-coverage into the normal .build/target (so custom stages use the instrumented binary), runs the
# checks, merges the profiles and writes .build/cov/report.txt + .build/cov/uncovered.txt, then forces a
# normal rebuild.
cd /verif
NB=/root/.rustup/toolchains/nightly-x86_64-unknown-linux-gnu/lib/rustlib/x86_64-unknown-linux-gnu/bin
COV=/verif/.build/cov; rm -rf $COV; mkdir -p $COV/prof
PIDS="$@"; [ -z "$PIDS" ] && PIDS=$(seq -f "C%02g" 1 20)
export VERIF_CARGO="cargo +nightly" RUSTFLAGS="-C instrument-coverage" LLVM_PROFILE_FILE="$COV/prof/%p-%8m.profraw"
for p in $PIDS; do
  ./check $p --tier quick > $COV/$p.log 2>&1; echo "$p rc=$? $(tail -1 $COV/$p.log | cut -c1-160)"
  # merge as we go to bound disk use
  ls $COV/prof/*.profraw > $COV/list.txt 2>/dev/null
  [ -f $COV/all.profdata ] && echo $COV/all.profdata >> $COV/list.txt
  $NB/llvm-profdata merge -sparse -f $COV/list.txt -o $COV/all.new 2>>$COV/merge.err && mv $COV/all.new $COV/all.profdata && rm -f $COV/prof/*.profraw
  OBJS="$OBJS"
done
BIN=/verif/.build/target/debug/cgh
$NB/llvm-cov report $BIN -instr-profile=$COV/all.profdata --ignore-filename-regex='(registry|rustc|harness)' > $COV/report.txt 2>$COV/report.err
$NB/llvm-cov show $BIN -instr-profile=$COV/all.profdata --ignore-filename-regex='(registry|rustc|harness)' --show-line-counts-or-regions=false > $COV/show.txt 2>>$COV/report.err
python3 - <<'EOF'
import re
cur=None; out=[]
for l in open('/verif/.build/cov/show.txt', errors='replace'):
    if l.startswith('/repo/') and l.rstrip().endswith(':'):
        cur=l.strip()[:-1]; continue
    m=re.match(r'\s*(\d+)\|\s*(\d+[kME\.]*\d*)?\|(.*)', l)
    if m and cur and m.group(2) is not None and m.group(2)=='0':
        out.append(f"{cur}:{m.group(1)}: {m.group(3).rstrip()}")
open('/verif/.build/cov/uncovered.txt','w').write("\n".join(out)+"\n")
print(len(out),"uncovered lines -> .build/cov/uncovered.txt")
EOF
unset RUSTFLAGS VERIF_CARGO LLVM_PROFILE_FILE
touch harness/src/main.rs; (cd harness && CARGO_NET_OFFLINE=true cargo build --offline --quiet)
echo done

#!/usr/bin/env python3
"""Rewrites the seeded-change table in DESIGN.md section 11.4 from /verif/seeded/*/meta.json"""
import json, os, glob
rows = []
for d in sorted(glob.glob('/verif/seeded/*/meta.json')):
    m = json.load(open(d)); name = os.path.basename(os.path.dirname(d))
    rows.append(f"| `{name}` | {m['needs_to_manifest']} | {m['check_result']} |")
tbl = "| seeded change (`/verif/seeded/<dir>`) | what it needs to manifest | result |\n|---|---|---|\n" + "\n".join(rows)
p = '/verif/DESIGN.md'
s = open(p).read()
a = s.index("| seeded change (`/verif/seeded/<dir>`)")
b = s.index("---------------------------------------------------------------------------------------------------\n\n## Appendix A")
open(p, 'w').write(s[:a] + tbl + "\n\n" + s[b:])
print(len(rows), "rows")

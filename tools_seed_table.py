#!/usr/bin/env python3
"""Rewrites the seeded-change table in DESIGN.md section 11.4 from /verif/seeded/*/meta.json"""
import json, os, glob
rows = []
for d in sorted(glob.glob('/verif/seeded/*/meta.json')):
    m = json.load(open(d)); name = os.path.basename(os.path.dirname(d))
    rows.append(f"| `{name}` | {m['needs_to_manifest']} | {m['check_result']} |")
tbl = "| seeded change (`/verif/seeded/<dir>`) | what it needs to manifest | result |\n|---|---|---|\n" + "\n".join(rows)
p = '/verif/DESIGN.md'
s = open(p).read()
a = s.index("| seeded change (`/verif/seeded/<dir>`)")
ends = [s.find(m, a) for m in ("### 11.5 ", "### 11.6 ", "### 11.7 ", "### 11.8 ", "---------------------------------------------------------------------------------------------------\n\n## Appendix A")]
b = min(e for e in ends if e >= 0)
open(p, 'w').write(s[:a] + tbl + "\n\n" + s[b:])
print(len(rows), "rows")

#!/bin/sh
# Builds the framework from files on disk only (offline): Rust harness, Lean library + driver.
set -e
cd "$(dirname "$0")"
mkdir -p .build
export CARGO_NET_OFFLINE=true
[ -f harness/Cargo.lock ] || cp /repo/Cargo.lock harness/Cargo.lock
(cd harness && cargo build --offline --quiet)
./.build/target/debug/cgh tables > .build/tables.txt
python3 -c "
import sys; sys.path.insert(0,'checks'); import gentables
print(gentables.write_generated(open('.build/tables.txt').read(), 'lean/CG/Generated'))"
python3 checks/genall.py lean
(cd lean && lake build CG cgdrv 2>&1 | tail -3)
echo setup-done

-- Root of the `CG` library: formal model, specification and theorems for chain-gang.
import CG.Base.Bytes

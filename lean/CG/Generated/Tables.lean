/-! GENERATED on every run by `cgh tables` from the current /repo tree. Do not edit. -/
namespace CG.Generated

def MAX_SATOSHIS : Nat := 2100000000000000
def MAX_PAYLOAD_SIZE : Nat := 33554432
def MAX_INV_ENTRIES : Nat := 50000
def BLOOM_FILTER_MAX_FILTER_SIZE : Nat := 36000
def BLOOM_FILTER_MAX_HASH_FUNCS : Nat := 50
def BLOCK_HEADER_SIZE : Nat := 80

end CG.Generated

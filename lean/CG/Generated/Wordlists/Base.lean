import CG.Base.Bytes
/-! GENERATED on every run by `checks/C10.py` (pre_build) from `load_wordlist` of the current /repo
tree, through `cgh replay` requests `c10.wordlist <lang>`. Do not edit. -/
/-! A word `w` of `m` bytes is stored as the natural number `(value of 0x01 ++ w, big-endian) * 256 + m`. -/
namespace CG.Generated.Wordlists
open CG

def wordOfKeyAux : Nat → Nat → Bytes → Bytes
  | 0, _, acc => acc
  | f + 1, n, acc => if n ≤ 1 then acc else wordOfKeyAux f (n / 256) (UInt8.ofNat (n % 256) :: acc)

/-- the UTF-8 bytes of the word stored as `k` -/
def wordOfKey (k : Nat) : Bytes := wordOfKeyAux (k % 256 + 1) (k / 256) []

end CG.Generated.Wordlists

/-! GENERATED on every run by checks/srcscan.py from /repo/src (non-test code): every call made on an
`io::Write` parameter.  Entry = (file index, line, kind); kinds: 0 write_all, 1 byteorder integer write,
2 write_fmt / write!, 3 flush, 4 bare write / write_vectored.  Do not edit. -/
namespace CG.Generated.WriteSites

def files : List String := ["messages/addr.rs", "messages/authch.rs", "messages/block_header.rs", "messages/block_locator.rs", "messages/cmpctblock.rs", "messages/createstrm.rs", "messages/fee_filter.rs", "messages/filter_add.rs", "messages/filter_load.rs", "messages/headers.rs", "messages/inv_vect.rs", "messages/merkle_block.rs", "messages/message_header.rs", "messages/node_addr.rs", "messages/node_addr_ex.rs", "messages/out_point.rs", "messages/ping.rs", "messages/protoconf.rs", "messages/reject.rs", "messages/send_cmpct.rs", "messages/streamack.rs", "messages/tx.rs", "messages/tx_in.rs", "messages/tx_out.rs", "messages/version.rs", "util/bloom_filter.rs", "util/hash256.rs", "util/serdes.rs", "util/var_int.rs", "wallet/extended_key.rs"]

def sites : List (Nat × Nat × Nat) := [
  (0, 201, 1),  -- messages/addr.rs  fn write: .write_u8
  (0, 205, 0),  -- messages/addr.rs  fn write: .write_all
  (0, 206, 0),  -- messages/addr.rs  fn write: .write_all
  (0, 207, 0),  -- messages/addr.rs  fn write: .write_all
  (0, 208, 0),  -- messages/addr.rs  fn write: .write_all
  (0, 209, 0),  -- messages/addr.rs  fn write: .write_all
  (0, 210, 0),  -- messages/addr.rs  fn write: .write_all
  (0, 247, 1),  -- messages/addr.rs  fn write: .write_u32
  (0, 250, 1),  -- messages/addr.rs  fn write: .write_u16
  (1, 50, 1),  -- messages/authch.rs  fn write: .write_i32
  (1, 51, 1),  -- messages/authch.rs  fn write: .write_u32
  (1, 52, 0),  -- messages/authch.rs  fn write: .write_all
  (2, 101, 1),  -- messages/block_header.rs  fn write: .write_u32
  (2, 104, 1),  -- messages/block_header.rs  fn write: .write_u32
  (2, 105, 1),  -- messages/block_header.rs  fn write: .write_u32
  (2, 106, 1),  -- messages/block_header.rs  fn write: .write_u32
  (3, 50, 1),  -- messages/block_locator.rs  fn write: .write_u32
  (4, 138, 1),  -- messages/cmpctblock.rs  fn write: .write_u64
  (4, 143, 0),  -- messages/cmpctblock.rs  fn write: .write_all
  (5, 67, 1),  -- messages/createstrm.rs  fn write: .write_u8
  (5, 68, 0),  -- messages/createstrm.rs  fn write: .write_all
  (5, 71, 1),  -- messages/createstrm.rs  fn write: .write_u8
  (5, 76, 0),  -- messages/createstrm.rs  fn write: .write_all
  (6, 26, 1),  -- messages/fee_filter.rs  fn write: .write_u64
  (7, 37, 0),  -- messages/filter_add.rs  fn write: .write_all
  (8, 49, 0),  -- messages/filter_load.rs  fn write: .write_all
  (8, 50, 1),  -- messages/filter_load.rs  fn write: .write_u32
  (8, 51, 1),  -- messages/filter_load.rs  fn write: .write_u32
  (8, 52, 1),  -- messages/filter_load.rs  fn write: .write_u8
  (9, 32, 1),  -- messages/headers.rs  fn write: .write_u8
  (10, 48, 1),  -- messages/inv_vect.rs  fn write: .write_u32
  (11, 172, 1),  -- messages/merkle_block.rs  fn write: .write_u32
  (11, 178, 0),  -- messages/merkle_block.rs  fn write: .write_all
  (12, 94, 0),  -- messages/message_header.rs  fn write: .write_all
  (12, 95, 0),  -- messages/message_header.rs  fn write: .write_all
  (12, 96, 1),  -- messages/message_header.rs  fn write: .write_u32
  (12, 97, 0),  -- messages/message_header.rs  fn write: .write_all
  (13, 53, 1),  -- messages/node_addr.rs  fn write: .write_u64
  (13, 54, 0),  -- messages/node_addr.rs  fn write: .write_all
  (13, 55, 1),  -- messages/node_addr.rs  fn write: .write_u16
  (14, 35, 1),  -- messages/node_addr_ex.rs  fn write: .write_u32
  (15, 39, 1),  -- messages/out_point.rs  fn write: .write_u32
  (16, 26, 1),  -- messages/ping.rs  fn write: .write_u64
  (17, 67, 1),  -- messages/protoconf.rs  fn write: .write_u32
  (17, 71, 0),  -- messages/protoconf.rs  fn write: .write_all
  (18, 74, 0),  -- messages/reject.rs  fn write: .write_all
  (18, 75, 1),  -- messages/reject.rs  fn write: .write_u8
  (18, 77, 0),  -- messages/reject.rs  fn write: .write_all
  (18, 78, 0),  -- messages/reject.rs  fn write: .write_all
  (19, 34, 1),  -- messages/send_cmpct.rs  fn write: .write_u8
  (19, 35, 1),  -- messages/send_cmpct.rs  fn write: .write_u64
  (20, 57, 1),  -- messages/streamack.rs  fn write: .write_u8
  (20, 58, 0),  -- messages/streamack.rs  fn write: .write_all
  (20, 61, 1),  -- messages/streamack.rs  fn write: .write_u8
  (21, 206, 1),  -- messages/tx.rs  fn write: .write_u32
  (21, 215, 1),  -- messages/tx.rs  fn write: .write_u32
  (22, 45, 0),  -- messages/tx_in.rs  fn write: .write_all
  (22, 46, 1),  -- messages/tx_in.rs  fn write: .write_u32
  (23, 35, 1),  -- messages/tx_out.rs  fn write: .write_i64
  (23, 37, 0),  -- messages/tx_out.rs  fn write: .write_all
  (24, 94, 1),  -- messages/version.rs  fn write: .write_u32
  (24, 95, 1),  -- messages/version.rs  fn write: .write_u64
  (24, 96, 1),  -- messages/version.rs  fn write: .write_i64
  (24, 99, 1),  -- messages/version.rs  fn write: .write_u64
  (24, 101, 0),  -- messages/version.rs  fn write: .write_all
  (24, 102, 1),  -- messages/version.rs  fn write: .write_i32
  (24, 103, 1),  -- messages/version.rs  fn write: .write_u8
  (24, 106, 1),  -- messages/version.rs  fn write: .write_u8
  (24, 107, 0),  -- messages/version.rs  fn write: .write_all
  (25, 122, 0),  -- util/bloom_filter.rs  fn write: .write_all
  (25, 123, 1),  -- util/bloom_filter.rs  fn write: .write_u64
  (25, 124, 1),  -- util/bloom_filter.rs  fn write: .write_u32
  (26, 48, 0),  -- util/hash256.rs  fn write: .write_all
  (27, 49, 0),  -- util/serdes.rs  fn write: .write_all
  (27, 62, 0),  -- util/serdes.rs  fn write: .write_all
  (28, 23, 1),  -- util/var_int.rs  fn write: .write_u8
  (28, 25, 1),  -- util/var_int.rs  fn write: .write_u8
  (28, 26, 1),  -- util/var_int.rs  fn write: .write_u16
  (28, 28, 1),  -- util/var_int.rs  fn write: .write_u8
  (28, 29, 1),  -- util/var_int.rs  fn write: .write_u32
  (28, 31, 1),  -- util/var_int.rs  fn write: .write_u8
  (28, 32, 1),  -- util/var_int.rs  fn write: .write_u64
  (29, 409, 0)  -- wallet/extended_key.rs  fn write: .write_all
]

end CG.Generated.WriteSites

import CG.Generated.Wordlists.ChineseSimplified
import CG.Generated.Wordlists.ChineseTraditional
import CG.Generated.Wordlists.English
import CG.Generated.Wordlists.French
import CG.Generated.Wordlists.Italian
import CG.Generated.Wordlists.Japanese
import CG.Generated.Wordlists.Korean
import CG.Generated.Wordlists.Spanish
/-! GENERATED on every run by `checks/C10.py` (pre_build) from `load_wordlist` of the current /repo
tree, through `cgh replay` requests `c10.wordlist <lang>`. Do not edit. -/
namespace CG.Generated.Wordlists
open CG

def byName : String → Option (List Bytes)
  | "chinese_simplified" => some chineseSimplified
  | "chinese_traditional" => some chineseTraditional
  | "english" => some english
  | "french" => some french
  | "italian" => some italian
  | "japanese" => some japanese
  | "korean" => some korean
  | "spanish" => some spanish
  | _ => none

def all : List (List Bytes) := [chineseSimplified, chineseTraditional, english, french, italian, japanese, korean, spanish]

end CG.Generated.Wordlists

import CG.Base.Bytes
/-!
RIPEMD-160, executable reference.
-/
namespace CG.Crypto

namespace Ripemd160

def H0 : Array UInt32 := #[0x67452301, 0xEFCDAB89, 0x98BADCFE, 0x10325476, 0xC3D2E1F0]

/-- message word selection, left line -/
def RL : Array Nat := #[
  0, 1, 2, 3, 4, 5, 6, 7, 8, 9, 10, 11, 12, 13, 14, 15,
  7, 4, 13, 1, 10, 6, 15, 3, 12, 0, 9, 5, 2, 14, 11, 8,
  3, 10, 14, 4, 9, 15, 8, 1, 2, 7, 0, 6, 13, 11, 5, 12,
  1, 9, 11, 10, 0, 8, 12, 4, 13, 3, 7, 15, 14, 5, 6, 2,
  4, 0, 5, 9, 7, 12, 2, 10, 14, 1, 3, 8, 11, 6, 15, 13]

/-- message word selection, right line -/
def RR : Array Nat := #[
  5, 14, 7, 0, 9, 2, 11, 4, 13, 6, 15, 8, 1, 10, 3, 12,
  6, 11, 3, 7, 0, 13, 5, 10, 14, 15, 8, 12, 4, 9, 1, 2,
  15, 5, 1, 3, 7, 14, 6, 9, 11, 8, 12, 2, 10, 0, 4, 13,
  8, 6, 4, 1, 3, 11, 15, 0, 5, 12, 2, 13, 9, 7, 10, 14,
  12, 15, 10, 4, 1, 5, 8, 7, 6, 2, 13, 14, 0, 3, 9, 11]

/-- rotation amounts, left line -/
def SL : Array UInt32 := #[
  11, 14, 15, 12, 5, 8, 7, 9, 11, 13, 14, 15, 6, 7, 9, 8,
  7, 6, 8, 13, 11, 9, 7, 15, 7, 12, 15, 9, 11, 7, 13, 12,
  11, 13, 6, 7, 14, 9, 13, 15, 14, 8, 13, 6, 5, 12, 7, 5,
  11, 12, 14, 15, 14, 15, 9, 8, 9, 14, 5, 6, 8, 6, 5, 12,
  9, 15, 5, 11, 6, 8, 13, 12, 5, 12, 13, 14, 11, 8, 5, 6]

/-- rotation amounts, right line -/
def SR : Array UInt32 := #[
  8, 9, 9, 11, 13, 15, 15, 5, 7, 7, 8, 11, 14, 14, 12, 6,
  9, 13, 15, 7, 12, 8, 9, 11, 7, 7, 12, 7, 6, 15, 13, 11,
  9, 7, 15, 11, 8, 6, 6, 14, 12, 13, 5, 14, 13, 13, 7, 5,
  15, 5, 8, 11, 14, 14, 6, 14, 6, 9, 12, 9, 12, 5, 15, 8,
  8, 5, 12, 9, 12, 5, 14, 6, 8, 13, 6, 5, 15, 13, 11, 11]

def KL : Array UInt32 := #[0x00000000, 0x5A827999, 0x6ED9EBA1, 0x8F1BBCDC, 0xA953FD4E]
def KR : Array UInt32 := #[0x50A28BE6, 0x5C4DD124, 0x6D703EF3, 0x7A6D76E9, 0x00000000]

@[inline] def rotl (x : UInt32) (n : UInt32) : UInt32 := (x <<< n) ||| (x >>> (32 - n))

/-- round function for round group `g` (0..4) -/
@[inline] def f (g : Nat) (x y z : UInt32) : UInt32 :=
  match g with
  | 0 => x ^^^ y ^^^ z
  | 1 => (x &&& y) ||| ((~~~ x) &&& z)
  | 2 => (x ||| (~~~ y)) ^^^ z
  | 3 => (x &&& z) ||| (y &&& (~~~ z))
  | _ => x ^^^ (y ||| (~~~ z))

/-- `0x80`, zeros to 56 mod 64, 64-bit *little-endian* bit length. -/
def pad (msg : Bytes) : Array UInt8 := Id.run do
  let mut a : Array UInt8 := msg.toArray
  let l := a.size
  let k := (55 + 64 - l % 64) % 64
  let bitlen : Nat := l * 8
  a := a.push 0x80
  for _ in [0:k] do
    a := a.push 0
  for i in [0:8] do
    a := a.push (UInt8.ofNat ((bitlen >>> (8 * i)) % 256))
  return a

@[inline] def wordAt (b : Array UInt8) (i : Nat) : UInt32 :=
  b[i]!.toUInt32 ||| (b[i+1]!.toUInt32 <<< 8) ||| (b[i+2]!.toUInt32 <<< 16) |||
    (b[i+3]!.toUInt32 <<< 24)

def compress (h : Array UInt32) (blk : Array UInt8) (off : Nat) : Array UInt32 := Id.run do
  let mut x : Array UInt32 := Array.mkEmpty 16
  for t in [0:16] do
    x := x.push (wordAt blk (off + 4*t))
  let mut al := h[0]!; let mut bl := h[1]!; let mut cl := h[2]!; let mut dl := h[3]!
  let mut el := h[4]!
  let mut ar := h[0]!; let mut br := h[1]!; let mut cr := h[2]!; let mut dr := h[3]!
  let mut er := h[4]!
  for j in [0:80] do
    let g := j / 16
    let t := rotl (al + f g bl cl dl + x[RL[j]!]! + KL[g]!) SL[j]! + el
    al := el; el := dl; dl := rotl cl 10; cl := bl; bl := t
    let t' := rotl (ar + f (4 - g) br cr dr + x[RR[j]!]! + KR[g]!) SR[j]! + er
    ar := er; er := dr; dr := rotl cr 10; cr := br; br := t'
  let t := h[1]! + cl + dr
  return #[t, h[2]! + dl + er, h[3]! + el + ar, h[4]! + al + br, h[0]! + bl + cr]

/-- little-endian serialisation of a word array -/
def wordsToBytes (h : Array UInt32) : Bytes :=
  h.foldr (fun (w : UInt32) (acc : Bytes) =>
    w.toUInt8 :: (w >>> 8).toUInt8 :: (w >>> 16).toUInt8 :: (w >>> 24).toUInt8 :: acc) []

end Ripemd160

/-- RIPEMD-160 digest (20 bytes). -/
def ripemd160 (msg : Bytes) : Bytes := Id.run do
  let p := Ripemd160.pad msg
  let mut h := Ripemd160.H0
  for i in [0:p.size/64] do
    h := Ripemd160.compress h p (64*i)
  return Ripemd160.wordsToBytes h

end CG.Crypto

import CG.Base.Bytes
/-!
secp256k1 (y² = x³ + 7 over 𝔽_p), ECDSA verification, pubkey (de)serialisation and
Bitcoin's strict-DER signature parser.  Executable reference on `Nat` (GMP-backed when compiled).
-/
namespace CG.Crypto

/-- field prime `2^256 - 2^32 - 977` -/
def p : Nat := 0xFFFFFFFFFFFFFFFFFFFFFFFFFFFFFFFFFFFFFFFFFFFFFFFFFFFFFFFEFFFFFC2F
/-- group order -/
def n : Nat := 0xFFFFFFFFFFFFFFFFFFFFFFFFFFFFFFFEBAAEDCE6AF48A03BBFD25E8CD0364141
namespace Secp256k1
def Gx : Nat := 0x79BE667EF9DCBBAC55A06295CE870B07029BFCDB2DCE28D959F2815B16F81798
def Gy : Nat := 0x483ADA7726A3C4655DA4FBFC0E1108A8FD17B448A68554199C47D08FFB10D4B8
end Secp256k1
open Secp256k1

/-! ### byte/integer helpers -/

/-- big-endian bytes to natural number -/
def beToNat (b : Bytes) : Nat := b.foldl (fun acc x => acc * 256 + x.toNat) 0

/-- `len`-byte big-endian encoding of `x` (truncating to the low `len` bytes). -/
def natToBE (len : Nat) (x : Nat) : Bytes :=
  go len x []
where
  go : Nat → Nat → Bytes → Bytes
    | 0, _, acc => acc
    | k + 1, x, acc => go k (x / 256) (UInt8.ofNat (x % 256) :: acc)

/-! ### modular arithmetic -/

/-- `b ^ e mod m` by square-and-multiply. -/
def powMod (b e m : Nat) : Nat :=
  if m ≤ 1 then 0 else go (e.log2 + 1) (b % m) e 1
where
  /-- invariant: result = acc * b^e mod m ; `fuel` bounds the bit length of `e` -/
  go (fuel : Nat) (b e acc : Nat) : Nat :=
    match fuel with
    | 0 => acc
    | fuel + 1 =>
      if e = 0 then acc
      else
        let acc' := if e % 2 = 1 then acc * b % m else acc
        go fuel (b * b % m) (e / 2) acc'

namespace Secp256k1
/-- extended Euclid on `(r0, r1)` with Bézout coefficients `(t0, t1)` for the original `a`;
    returns the coefficient `t` with `t * a ≡ gcd (mod m)`. -/
def egcdGo : Nat → Int → Int → Int → Int → Int
  | 0, _, _, t0, _ => t0
  | fuel + 1, r0, r1, t0, t1 =>
    if r1 = 0 then t0
    else
      let q := r0 / r1
      egcdGo fuel r1 (r0 - q * r1) t1 (t0 - q * t1)
end Secp256k1

/-- modular inverse of `a` modulo `m` (extended Euclid).  Returns `0` when `a ≡ 0 (mod m)`;
    meaningful only when `gcd a m = 1`. -/
def modInv (a m : Nat) : Nat :=
  if m ≤ 1 then 0 else
  let a' := a % m
  if a' = 0 then 0 else
  -- Euclid terminates in at most ~1.45·log2(m)+2 steps; 2·log2+4 is a safe bound.
  let t := egcdGo (2 * m.log2 + 4) (m : Int) (a' : Int) 0 1
  (t % (m : Int)).toNat

namespace Secp256k1
@[inline] def addP (a b : Nat) : Nat := (a + b) % p
/-- `a - b mod p` (canonical residue for arbitrary inputs) -/
@[inline] def subP (a b : Nat) : Nat := (a + p - b % p) % p
@[inline] def mulP (a b : Nat) : Nat := (a * b) % p
@[inline] def sqrP (a : Nat) : Nat := (a * a) % p
end Secp256k1

/-- affine point or the point at infinity -/
inductive Point where
  | inf
  | aff (x y : Nat)
deriving DecidableEq, Repr, Inhabited

/-- generator -/
def G : Point := .aff Gx Gy

namespace Point

/-- curve membership (`inf` counts as on-curve); coordinates must be reduced. -/
def onCurve : Point → Bool
  | inf => true
  | aff x y => x < p && y < p && sqrP y == addP (mulP (sqrP x) x) 7

def neg : Point → Point
  | inf => inf
  | aff x y => aff x ((p - y % p) % p)

/-- affine doubling (textbook formula, a = 0) -/
def double : Point → Point
  | inf => inf
  | aff x y =>
    let x := x % p; let y := y % p
    if y = 0 then inf else
    let lam := mulP (mulP 3 (sqrP x)) (modInv (2 * y) p)
    let x3 := subP (sqrP lam) (addP x x)
    let y3 := subP (mulP lam (subP x x3)) y
    aff x3 y3

/-- affine addition (textbook chord-and-tangent) -/
def add : Point → Point → Point
  | inf, Q => Q
  | P, inf => P
  | aff x1 y1, aff x2 y2 =>
    let x1 := x1 % p; let y1 := y1 % p; let x2 := x2 % p; let y2 := y2 % p
    if x1 = x2 then
      if y1 = y2 then double (aff x1 y1) else inf
    else
      let lam := mulP (subP y2 y1) (modInv (subP x2 x1) p)
      let x3 := subP (subP (sqrP lam) x1) x2
      let y3 := subP (mulP lam (subP x1 x3)) y1
      aff x3 y3

end Point

/-! ### Jacobian coordinates (used by `Point.mul` only) -/

namespace Secp256k1
/-- Jacobian point `(X : Y : Z)` ↦ affine `(X/Z², Y/Z³)`; `Z = 0` is infinity. -/
structure Jac where
  x : Nat
  y : Nat
  z : Nat
deriving Repr, Inhabited

namespace Jac

def inf : Jac := ⟨1, 1, 0⟩

def ofPoint : Point → Jac
  | .inf => inf
  | .aff x y => ⟨x % p, y % p, 1⟩

def toPoint (j : Jac) : Point :=
  if j.z = 0 then .inf else
  let zi := modInv j.z p
  let zi2 := sqrP zi
  .aff (mulP j.x zi2) (mulP j.y (mulP zi2 zi))

/-- dbl-2009-l -/
def double (j : Jac) : Jac :=
  if j.z = 0 || j.y = 0 then inf else
  let a := sqrP j.x
  let b := sqrP j.y
  let c := sqrP b
  let d := mulP 2 (subP (subP (sqrP (addP j.x b)) a) c)
  let e := mulP 3 a
  let f := sqrP e
  let x3 := subP f (mulP 2 d)
  let y3 := subP (mulP e (subP d x3)) (mulP 8 c)
  let z3 := mulP 2 (mulP j.y j.z)
  ⟨x3, y3, z3⟩

def add (j k : Jac) : Jac :=
  if j.z = 0 then k else
  if k.z = 0 then j else
  let z1z1 := sqrP j.z
  let z2z2 := sqrP k.z
  let u1 := mulP j.x z2z2
  let u2 := mulP k.x z1z1
  let s1 := mulP j.y (mulP z2z2 k.z)
  let s2 := mulP k.y (mulP z1z1 j.z)
  if u1 = u2 then
    if s1 = s2 then double j else inf
  else
    let h := subP u2 u1
    let r := subP s2 s1
    let h2 := sqrP h
    let h3 := mulP h h2
    let v := mulP u1 h2
    let x3 := subP (subP (sqrP r) h3) (mulP 2 v)
    let y3 := subP (mulP r (subP v x3)) (mulP s1 h3)
    let z3 := mulP h (mulP j.z k.z)
    ⟨x3, y3, z3⟩

/-- left-to-right double-and-add over the bits of `k` -/
def mul (k : Nat) (b : Jac) : Jac := Id.run do
  if k = 0 then return inf
  let bits := k.log2 + 1
  let mut acc := inf
  for i in [0:bits] do
    acc := double acc
    if k.testBit (bits - 1 - i) then
      acc := add acc b
  return acc

end Jac
end Secp256k1

/-- scalar multiplication `k·P` -/
def Point.mul (k : Nat) (P : Point) : Point := (Jac.mul k (Jac.ofPoint P)).toPoint

/-- `k·G` -/
def pubkeyOfScalar (k : Nat) : Point := Point.mul k G

/-! ### public key serialisation -/

/-- 33-byte SEC1 compressed encoding; `[]` for infinity. -/
def serCompressed : Point → Bytes
  | .inf => []
  | .aff x y => (if y % 2 = 0 then (0x02 : UInt8) else 0x03) :: natToBE 32 x

/-- 65-byte SEC1 uncompressed encoding; `[]` for infinity. -/
def serUncompressed : Point → Bytes
  | .inf => []
  | .aff x y => (0x04 : UInt8) :: (natToBE 32 x ++ natToBE 32 y)

namespace Secp256k1
/-- square root modulo `p` (`p ≡ 3 mod 4`), if one exists -/
def sqrtP (a : Nat) : Option Nat :=
  let a := a % p
  let r := powMod a ((p + 1) / 4) p
  if sqrP r = a then some r else none
end Secp256k1

/-- Parse a SEC1 public key: 33-byte compressed (`02`/`03`) or 65-byte uncompressed (`04`).
    Rejects coordinates `≥ p` and points not on the curve.  (Hybrid `06`/`07` is rejected.) -/
def parsePubkey (b : Bytes) : Option Point :=
  match b with
  | [] => none
  | pre :: rest =>
    if rest.length = 32 && (pre = 0x02 || pre = 0x03) then
      let x := beToNat rest
      if x ≥ p then none else
      match sqrtP (addP (mulP (sqrP x) x) 7) with
      | none => none
      | some y =>
        let wantOdd := pre = 0x03
        let y := if (y % 2 = 1) = wantOdd then y else (p - y) % p
        some (.aff x y)
    else if rest.length = 64 && pre = 0x04 then
      let x := beToNat (rest.take 32)
      let y := beToNat (rest.drop 32)
      let P := Point.aff x y
      if P.onCurve then some P else none
    else none

/-! ### ECDSA -/

/-- ECDSA verification of digest-integer `z` (big-endian value of the 32-byte digest). -/
def ecdsaVerify (pub : Point) (z r s : Nat) : Bool :=
  if r = 0 || r ≥ n || s = 0 || s ≥ n then false else
  match pub with
  | .inf => false
  | .aff _ _ =>
    let w := modInv s n
    let u1 := (z % n) * w % n
    let u2 := r * w % n
    let R := (Jac.add (Jac.mul u1 (Jac.ofPoint G)) (Jac.mul u2 (Jac.ofPoint pub))).toPoint
    match R with
    | .inf => false
    | .aff x _ => x % n == r

/-- low-S rule (BIP-62/146) -/
def isLowS (s : Nat) : Bool := s ≤ n / 2

/-- Bitcoin strict DER (BIP-66 `IsValidSignatureEncoding`) for a signature *without* the trailing
    sighash byte: `30 len 02 rlen R 02 slen S`, total length 8..72, R and S positive and
    minimally encoded.  Returns `(r, s)`. -/
def parseDerStrict (sig : Bytes) : Option (Nat × Nat) :=
  let a : Array UInt8 := sig.toArray
  let len := a.size
  if len < 8 || len > 72 then none else
  if a[0]! ≠ 0x30 then none else
  if a[1]!.toNat ≠ len - 2 then none else
  let lenR := a[3]!.toNat
  if 5 + lenR ≥ len then none else
  let lenS := a[5 + lenR]!.toNat
  if lenR + lenS + 6 ≠ len then none else
  if a[2]! ≠ 0x02 then none else
  if lenR = 0 then none else
  if a[4]! &&& 0x80 ≠ 0 then none else
  if lenR > 1 && a[4]! = 0x00 && a[5]! &&& 0x80 = 0 then none else
  if a[lenR + 4]! ≠ 0x02 then none else
  if lenS = 0 then none else
  if a[lenR + 6]! &&& 0x80 ≠ 0 then none else
  if lenS > 1 && a[lenR + 6]! = 0x00 && a[lenR + 7]! &&& 0x80 = 0 then none else
  let r := beToNat ((sig.drop 4).take lenR)
  let s := beToNat ((sig.drop (lenR + 6)).take lenS)
  some (r, s)

end CG.Crypto

import CG.Base.Bytes
/-!
SHA-1 (FIPS 180-4), executable reference.
-/
namespace CG.Crypto

namespace Sha1

def H0 : Array UInt32 := #[0x67452301, 0xEFCDAB89, 0x98BADCFE, 0x10325476, 0xC3D2E1F0]

@[inline] def rotl (x : UInt32) (n : UInt32) : UInt32 := (x <<< n) ||| (x >>> (32 - n))

def pad (msg : Bytes) : Array UInt8 := Id.run do
  let mut a : Array UInt8 := msg.toArray
  let l := a.size
  let k := (55 + 64 - l % 64) % 64
  let bitlen : Nat := l * 8
  a := a.push 0x80
  for _ in [0:k] do
    a := a.push 0
  for i in [0:8] do
    a := a.push (UInt8.ofNat ((bitlen >>> (8 * (7 - i))) % 256))
  return a

@[inline] def wordAt (b : Array UInt8) (i : Nat) : UInt32 :=
  (b[i]!.toUInt32 <<< 24) ||| (b[i+1]!.toUInt32 <<< 16) ||| (b[i+2]!.toUInt32 <<< 8) |||
    b[i+3]!.toUInt32

def compress (h : Array UInt32) (blk : Array UInt8) (off : Nat) : Array UInt32 := Id.run do
  let mut w : Array UInt32 := Array.mkEmpty 80
  for t in [0:16] do
    w := w.push (wordAt blk (off + 4*t))
  for t in [16:80] do
    w := w.push (rotl (w[t-3]! ^^^ w[t-8]! ^^^ w[t-14]! ^^^ w[t-16]!) 1)
  let mut a := h[0]!; let mut b := h[1]!; let mut c := h[2]!; let mut d := h[3]!
  let mut e := h[4]!
  for t in [0:80] do
    let (f, k) : UInt32 × UInt32 :=
      if t < 20 then ((b &&& c) ||| ((~~~ b) &&& d), 0x5A827999)
      else if t < 40 then (b ^^^ c ^^^ d, 0x6ED9EBA1)
      else if t < 60 then ((b &&& c) ||| (b &&& d) ||| (c &&& d), 0x8F1BBCDC)
      else (b ^^^ c ^^^ d, 0xCA62C1D6)
    let tmp := rotl a 5 + f + e + k + w[t]!
    e := d; d := c; c := rotl b 30; b := a; a := tmp
  return #[h[0]! + a, h[1]! + b, h[2]! + c, h[3]! + d, h[4]! + e]

def wordsToBytes (h : Array UInt32) : Bytes :=
  h.foldr (fun (w : UInt32) (acc : Bytes) =>
    (w >>> 24).toUInt8 :: (w >>> 16).toUInt8 :: (w >>> 8).toUInt8 :: w.toUInt8 :: acc) []

end Sha1

/-- SHA-1 digest (20 bytes). -/
def sha1 (msg : Bytes) : Bytes := Id.run do
  let p := Sha1.pad msg
  let mut h := Sha1.H0
  for i in [0:p.size/64] do
    h := Sha1.compress h p (64*i)
  return Sha1.wordsToBytes h

end CG.Crypto

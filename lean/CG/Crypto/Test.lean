import CG.Crypto.Sha256
import CG.Crypto.Sha1
import CG.Crypto.Ripemd160
import CG.Crypto.Hash160
import CG.Crypto.Sha512
import CG.Crypto.Hmac
import CG.Crypto.Murmur3
import CG.Crypto.Secp256k1
/-!
Known-answer tests for `CG.Crypto.*`.  Every check is a `#guard`, so
`lake build CG.Crypto.Test` fails if any vector mismatches.
-/
namespace CG.Crypto.Test
open CG CG.Crypto

/-! ### helpers -/

def hexVal (c : Char) : Nat :=
  if '0' ≤ c && c ≤ '9' then c.toNat - '0'.toNat
  else if 'a' ≤ c && c ≤ 'f' then c.toNat - 'a'.toNat + 10
  else if 'A' ≤ c && c ≤ 'F' then c.toNat - 'A'.toNat + 10
  else 0

/-- decode a hex string (whitespace ignored) -/
def hx (s : String) : Bytes :=
  go (s.toList.filter (fun c => !c.isWhitespace))
where
  go : List Char → Bytes
    | a :: b :: r => UInt8.ofNat (hexVal a * 16 + hexVal b) :: go r
    | _ => []

def str (s : String) : Bytes := s.toUTF8.toList
def rep (n : Nat) (c : Char) : Bytes := List.replicate n (UInt8.ofNat c.toNat)
def nat (s : String) : Nat := beToNat (hx s)

#guard hx "00ff10Ab" = [0x00, 0xff, 0x10, 0xab]

/-! ### SHA-256 -/

#guard sha256 [] = hx "e3b0c44298fc1c149afbf4c8996fb92427ae41e4649b934ca495991b7852b855"
#guard sha256 (str "abc") = hx "ba7816bf8f01cfea414140de5dae2223b00361a396177a9cb410ff61f20015ad"
#guard sha256 (rep 1000 'a') = hx "41edece42d63e8d9bf515a9ba6932e1c20cbc9f5a5d134645adb5db1b9737ea3"
-- padding boundaries
#guard sha256 (rep 55 'a') = hx "9f4390f8d30c2dd92ec9f095b65e2b9ae9b0a925a5258e241c9f1e910f734318"
#guard sha256 (rep 56 'a') = hx "b35439a4ac6f0948b6d6f9e3c6af0f5f590ce20f1bde7090ef7970686ec6738a"
#guard sha256 (rep 64 'a') = hx "ffe054fe7ae0cb6dc65c3af9b61d5209f439851db43d0ba5997337df154668eb"
#guard sha256d (str "hello") = hx "9595c9df90075148eb06860365df33584b75bff782a510c6cd4883a419833d50"
#guard (sha256 []).length = 32

/-! ### SHA-1 -/

#guard sha1 [] = hx "da39a3ee5e6b4b0d3255bfef95601890afd80709"
#guard sha1 (str "abc") = hx "a9993e364706816aba3e25717850c26c9cd0d89d"
#guard sha1 (rep 1000 'a') = hx "291e9a6c66994949b57ba5e650361e98fc36b1ba"

/-! ### RIPEMD-160 / Hash160 -/

#guard ripemd160 [] = hx "9c1185a5c5e9fc54612808977ee8f548b2258d31"
#guard ripemd160 (str "abc") = hx "8eb208f7e05d987a9b044a8e98c6b087f15a0bfc"
#guard ripemd160 (str "message digest") = hx "5d0689ef49d2fae572b881b123a85ffa21595f36"
#guard ripemd160 (str "abcdefghijklmnopqrstuvwxyz") = hx "f71c27109c692c1b56bbdceb5b9d2865b3708dbc"
#guard ripemd160 (rep 56 'a') = hx "e72334b46c83cc70bef979e15453706c95b888be"
#guard ripemd160 (rep 1000 'a') = hx "aa69deee9a8922e92f8105e007f76110f381e9cf"
-- hash160 of the compressed generator (the well-known 1BgGZ9tc… address payload)
#guard hash160 (hx "0279BE667EF9DCBBAC55A06295CE870B07029BFCDB2DCE28D959F2815B16F81798")
        = hx "751e76e8199196d454941c45d1b3a323f1433bd6"

/-! ### SHA-512 -/

#guard sha512 [] = hx "cf83e1357eefb8bdf1542850d66d8007d620e4050b5715dc83f4a921d36ce9ce47d0d13c5d85f2b0ff8318d2877eec2f63b931bd47417a81a538327af927da3e"
#guard sha512 (str "abc") = hx "ddaf35a193617abacc417349ae20413112e6fa4e89a97ea20a9eeee64b55d39a2192992a274fc1a836ba3c23a3feebbd454d4423643ce80e2a9ac94fa54ca49f"
#guard sha512 (rep 1000 'a') = hx "67ba5535a46e3f86dbfbed8cbbaf0125c76ed549ff8b0b9e03e0c88cf90fa634fa7b12b47d77b694de488ace8d9a65967dc96df599727d3292a8d9d447709c97"
#guard sha512 (rep 111 'a') = hx "fa9121c7b32b9e01733d034cfc78cbf67f926c7ed83e82200ef86818196921760b4beff48404df811b953828274461673c68d04e297b0eb7b2b4d60fc6b566a2"
#guard sha512 (rep 112 'a') = hx "c01d080efd492776a1c43bd23dd99d0a2e626d481e16782e75d54c2503b5dc32bd05f0f1ba33e568b88fd2d970929b719ecbb152f58f130a407c8830604b70ca"

/-! ### HMAC (RFC 4231) -/

-- test case 1
#guard hmacSha512 (List.replicate 20 0x0b) (str "Hi There") = hx "87aa7cdea5ef619d4ff0b4241a1d6cb02379f4e2ce4ec2787ad0b30545e17cdedaa833b7d6b8a702038b274eaea3f4e4be9d914eeb61f1702e696c203a126854"
#guard hmacSha256 (List.replicate 20 0x0b) (str "Hi There") = hx "b0344c61d8db38535ca8afceaf0bf12b881dc200c9833da726e9376c2e32cff7"
-- test case 2
#guard hmacSha512 (str "Jefe") (str "what do ya want for nothing?") = hx "164b7a7bfcf819e2e395fbe73b56e0a387bd64222e831fd610270cd7ea2505549758bf75c05a994a6d034f65f8f0e6fdcaeab1a34d4a6b4b636e070a38bce737"
#guard hmacSha256 (str "Jefe") (str "what do ya want for nothing?") = hx "5bdcc146bf60754e6a042426089575c75a003f089d2739839dec58b964ec3843"
-- test case 6 (key longer than the block size: 131 bytes)
#guard hmacSha512 (List.replicate 131 0xaa) (str "Test Using Larger Than Block-Size Key - Hash Key First") = hx "80b24263c7c1a3ebb71493c1dd7be8b49b46d1f41b4aeec1121b013783f8f3526b56d037e05f2598bd0fd2215d6a1e5295e64f73f63f0aec8b915a985d786598"
#guard hmacSha256 (List.replicate 131 0xaa) (str "Test Using Larger Than Block-Size Key - Hash Key First") = hx "60e431591ee0b67f0d8a26aacbf5b77f8e0bc6213728c5140546040f0ee37f54"
-- BIP-32 test vector 1 master key: I = HMAC-SHA512("Bitcoin seed", seed) = IL ‖ IR
#guard hmacSha512 (str "Bitcoin seed") (hx "000102030405060708090a0b0c0d0e0f")
        = hx "e8f32e723decf4051aefac8e2c93c9c5b214313817cdb01a1494b917c8436b35" ++
          hx "873dff81c02f525623fd1fe5167eac3a55a049de3d314bb42ee227ffed37d508"

/-! ### MurmurHash3 x86_32 (Bitcoin Core `hash_tests.cpp` vectors) -/

#guard murmur3_32 0x00000000 [] = 0x00000000
#guard murmur3_32 0xFBA4C795 [] = 0x6a396f08
#guard murmur3_32 0x00000001 [] = 0x514E28B7
#guard murmur3_32 0xffffffff [] = 0x81F16F39
#guard murmur3_32 0 (hx "ffffffff") = 0x76293B50
#guard murmur3_32 0 (hx "21436587") = 0xF55B516B
#guard murmur3_32 0x5082EDEE (hx "21436587") = 0x2362F9DE
#guard murmur3_32 0 (hx "214365") = 0x7E4A8634
#guard murmur3_32 0 (hx "2143") = 0xA0F7B07A
#guard murmur3_32 0 (hx "21") = 0x72661CF4
#guard murmur3_32 0 (hx "00000000") = 0x2362F9DE
#guard murmur3_32 0 (hx "000000") = 0x85F0B427
#guard murmur3_32 0 (hx "0000") = 0x30F4C306
#guard murmur3_32 0 (hx "00") = 0x514E28B7
#guard murmur3_32 0x00000000 (hx "00") = 0x514e28b7
#guard murmur3_32 0xFBA4C795 (hx "00") = 0xea3f0b17
#guard murmur3_32 0x00000000 (hx "0011") = 0x16c6b7ab
#guard murmur3_32 0x00000000 (hx "001122") = 0x8eb51c3d
#guard murmur3_32 0x00000000 (hx "00112233") = 0xb4471bf8
#guard murmur3_32 0x00000000 (hx "0011223344") = 0xe2301fa8
#guard murmur3_32 0x00000000 (hx "001122334455") = 0xfc2e4a15
#guard murmur3_32 0x00000000 (hx "00112233445566") = 0xb074502c
#guard murmur3_32 0x00000000 (hx "0011223344556677") = 0x8034d2a0
#guard murmur3_32 0x00000000 (hx "001122334455667788") = 0xb4698def

/-! ### secp256k1 -/

def negG : Point := .aff (nat "79be667ef9dcbbac55a06295ce870b07029bfcdb2dce28d959f2815b16f81798")
                         (nat "b7c52588d95c3b9aa25b0403f1eef75702e84bb7597aabe663b82f6f04ef2777")
def G2 : Point := .aff (nat "C6047F9441ED7D6D3045406E95C07CD85C778E4B8CEF3CA7ABAC09B95C709EE5")
                       (nat "1ae168fea63dc339a3c58419466ceaeef7f632653266d0e1236431a950cfe52a")
def G3 : Point := .aff (nat "f9308a019258c31049344f85f89d5229b531c845836f99b08601f113bce036f9")
                       (nat "388f7b0f632de8140fe337e62a37f3566500a99934c2231b6cb9fd7584b8e672")
def G7 : Point := .aff (nat "5cbdf0646e5db4eaa398f365f2ea7a0e3d419b7e0330e39ce92bddedcac4f9bc")
                       (nat "6aebca40ba255960a3178d6d861a54dba813d0b813fde7b5a5082628087264da")

#guard p = 2^256 - 2^32 - 977
#guard G.onCurve && G2.onCurve && negG.onCurve
#guard !(Point.aff 1 1).onCurve
-- byte helpers
#guard beToNat (hx "0100") = 256
#guard natToBE 4 0x01020304 = hx "01020304"
#guard natToBE 2 0x01020304 = hx "0304"
#guard natToBE 3 1 = hx "000001"
#guard beToNat (natToBE 32 (n - 1)) = n - 1
-- modular arithmetic
#guard powMod 2 10 1000 = 24
#guard powMod 3 (p - 1) p = 1
#guard powMod 5 0 7 = 1
#guard modInv 3 7 = 5
#guard (modInv 12345 p * 12345) % p = 1
#guard (modInv (n - 2) n * (n - 2)) % n = 1
#guard modInv (p + 3) p = modInv 3 p
#guard modInv 12345 p = powMod 12345 (p - 2) p
-- group law
#guard Point.mul 0 G = .inf
#guard Point.mul 1 G = G
#guard Point.mul 2 G = G2
#guard Point.double G = G2
#guard Point.add G G = G2
#guard Point.add G G2 = G3
#guard Point.add G2 G = G3
#guard Point.mul 3 G = G3
#guard Point.mul 7 G = G7
#guard Point.add (Point.double G2) G3 = G7
#guard Point.mul n G = .inf
#guard Point.mul (n - 1) G = negG
#guard G.neg = negG
#guard Point.add G negG = .inf
#guard Point.add G .inf = G
#guard Point.add .inf G = G
#guard Point.mul 5 .inf = .inf
#guard Point.mul (n + 2) G = G2
#guard Point.mul 3 (Point.mul 7 G) = Point.mul 21 G
#guard Point.add (Point.mul 20 G) G = Point.mul 21 G

-- key pair: d = 1E99423A…, Q = d·G
def d : Nat := nat "1E99423A4ED27608A15A2616A2B0E9E52CED330AC530EDCC32C8FFC6A526AEDD"
def Q : Point := .aff (nat "f028892bad7ed57d2fb57bf33081d5cfcf6f9ed3d3d7f159c2e2fff579dc341a")
                      (nat "07cf33da18bd734c600b96a72bbc4749d5141c90ec8ac328ae52ddfe2e505bdb")
#guard pubkeyOfScalar d = Q
#guard pubkeyOfScalar 1 = G

-- serialisation
#guard serCompressed (pubkeyOfScalar 1)
        = hx "0279BE667EF9DCBBAC55A06295CE870B07029BFCDB2DCE28D959F2815B16F81798"
#guard serCompressed negG = hx "0379BE667EF9DCBBAC55A06295CE870B07029BFCDB2DCE28D959F2815B16F81798"
#guard serCompressed Q = hx "03f028892bad7ed57d2fb57bf33081d5cfcf6f9ed3d3d7f159c2e2fff579dc341a"
#guard serCompressed .inf = []
#guard serUncompressed G = hx "0479BE667EF9DCBBAC55A06295CE870B07029BFCDB2DCE28D959F2815B16F81798483ADA7726A3C4655DA4FBFC0E1108A8FD17B448A68554199C47D08FFB10D4B8"
#guard (serUncompressed Q).length = 65 && (serCompressed Q).length = 33
-- parsing
#guard parsePubkey (serCompressed G) = some G
#guard parsePubkey (serCompressed negG) = some negG
#guard parsePubkey (serCompressed Q) = some Q
#guard parsePubkey (serUncompressed Q) = some Q
#guard parsePubkey (serUncompressed G2) = some G2
#guard parsePubkey [] = none
#guard parsePubkey (hx "02") = none
#guard parsePubkey (0x04 :: natToBE 32 1 ++ natToBE 32 1) = none                 -- not on curve
#guard parsePubkey (0x05 :: (serCompressed G).drop 1) = none                     -- bad prefix
#guard parsePubkey (0x02 :: (serUncompressed G).drop 1) = none                   -- prefix/length mismatch
#guard parsePubkey (0x06 :: (serUncompressed G).drop 1) = none                   -- hybrid rejected
#guard parsePubkey (0x02 :: natToBE 32 5) = none                                 -- x = 5: no square root
#guard parsePubkey (0x02 :: natToBE 32 p) = none                                 -- x ≥ p
#guard parsePubkey (0x02 :: natToBE 32 (p + 1)) = none                           -- x ≥ p (x ≡ 1 is on curve)
#guard (parsePubkey (0x02 :: natToBE 32 1)).isSome
#guard parsePubkey ((serCompressed G).take 32) = none
#guard parsePubkey (serUncompressed G ++ [0]) = none

/-! ### ECDSA -/

def z : Nat := beToNat (sha256 (str "chain-gang test message"))
def r : Nat := nat "08193fb498f9fa90489ef090f852a2c1a69f0229e692a3912ed69c428443412e"
def s : Nat := nat "4425f604a8e83fbd6db56a3fb88759ae32a175c8d174911e391f6028db7e564f"

#guard z = nat "d7843f025f45e37f34cbe0c7d00f2f353f3efd664d533ad3401d556b987ababc"
#guard ecdsaVerify Q z r s
#guard ecdsaVerify Q z r (n - s)            -- high-S twin also verifies (malleability)
#guard !ecdsaVerify Q (z + 1) r s
#guard !ecdsaVerify Q z (r + 1) s
#guard !ecdsaVerify Q z r (s + 1)
#guard !ecdsaVerify G z r s                 -- wrong key
#guard !ecdsaVerify Q.neg z r s             -- wrong key (negated)
#guard !ecdsaVerify .inf z r s
#guard !ecdsaVerify Q z 0 s
#guard !ecdsaVerify Q z r 0
#guard !ecdsaVerify Q z n s
#guard !ecdsaVerify Q z r n
#guard !ecdsaVerify Q z (r + n) s
-- digest ≥ n is reduced mod n
#guard ecdsaVerify Q (2^256 - 1) r (nat "26e22f80c268143b9d569e51e79f74d8591d62e7e2ba97f5279ebacccdf24f36")
#guard isLowS s
#guard !isLowS (n - s)
#guard isLowS (n / 2) && !isLowS (n / 2 + 1)
#guard n / 2 = nat "7FFFFFFFFFFFFFFFFFFFFFFFFFFFFFFF5D576E7357A4501DDFE92F46681B20A0"

/-! ### strict DER -/

def der : Bytes := hx "3044022008193fb498f9fa90489ef090f852a2c1a69f0229e692a3912ed69c428443412e02204425f604a8e83fbd6db56a3fb88759ae32a175c8d174911e391f6028db7e564f"

#guard parseDerStrict der = some (r, s)
#guard (match parseDerStrict der with | some (r', s') => ecdsaVerify Q z r' s' | none => false)
#guard parseDerStrict (hx "3006020101020101") = some (1, 1)                    -- minimal, 8 bytes
#guard parseDerStrict (hx "3006020100020100") = some (0, 0)                    -- zero is encodable
#guard parseDerStrict (hx "30080202008002020081") = some (128, 129)            -- required 00 pad
#guard parseDerStrict (hx "300702020100020101") = some (256, 1)
-- maximal, 72 bytes: two 33-byte integers
#guard parseDerStrict (hx "3046022100" ++ natToBE 32 (n - 1) ++ hx "022100" ++ natToBE 32 (n - 2))
        = some (n - 1, n - 2)
-- negative cases
#guard parseDerStrict [] = none
#guard parseDerStrict (hx "30050201010201") = none                             -- too short (7)
#guard parseDerStrict (der ++ [0x01]) = none                                   -- trailing sighash byte
#guard parseDerStrict (der.take 69) = none                                     -- truncated
#guard parseDerStrict (hx "3106020101020101") = none                           -- not a SEQUENCE
#guard parseDerStrict (hx "3007020101020101") = none                           -- outer length too big
#guard parseDerStrict (hx "3005020101020101") = none                           -- outer length too small
#guard parseDerStrict (hx "3006030101020101") = none                           -- R not INTEGER
#guard parseDerStrict (hx "3006020101030101") = none                           -- S not INTEGER
#guard parseDerStrict (hx "3006020181020101") = none                           -- negative R
#guard parseDerStrict (hx "3006020101020181") = none                           -- negative S
#guard parseDerStrict (hx "300702020001020101") = none                         -- padded R
#guard parseDerStrict (hx "300702010102020001") = none                         -- padded S
#guard parseDerStrict (hx "30060200020201ff") = none                           -- zero-length R
#guard parseDerStrict (hx "3006020201010200") = none                           -- zero-length S
#guard parseDerStrict (hx "3006020501020101") = none                           -- R length overruns
#guard parseDerStrict (hx "3006020101020201") = none                           -- S length overruns
#guard parseDerStrict (hx "300602010102010100") = none                         -- garbage after S
#guard parseDerStrict (hx "308106020101020101") = none                         -- long-form length
-- 73 bytes (only legal with a sighash byte, which this parser does not take)
#guard parseDerStrict (hx "3047022100" ++ natToBE 32 (n - 1) ++ hx "022200ff" ++ natToBE 32 (n - 2)) = none

end CG.Crypto.Test

import CG.Crypto.Sha256
import CG.Crypto.Ripemd160
namespace CG.Crypto

/-- Bitcoin `Hash160`: RIPEMD-160 of SHA-256. -/
def hash160 (b : Bytes) : Bytes := ripemd160 (sha256 b)

end CG.Crypto

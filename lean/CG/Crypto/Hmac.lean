import CG.Crypto.Sha256
import CG.Crypto.Sha512
/-!
HMAC (RFC 2104) over SHA-256 and SHA-512.
-/
namespace CG.Crypto

/-- Generic HMAC with hash `h` of block size `blockSize` bytes. -/
def hmacWith (h : Bytes → Bytes) (blockSize : Nat) (key msg : Bytes) : Bytes :=
  let k0 := if key.length > blockSize then h key else key
  let k := k0 ++ List.replicate (blockSize - k0.length) (0 : UInt8)
  let ipad := k.map (· ^^^ 0x36)
  let opad := k.map (· ^^^ 0x5c)
  h (opad ++ h (ipad ++ msg))

/-- HMAC-SHA-512 (block size 128, output 64 bytes). -/
def hmacSha512 (key msg : Bytes) : Bytes := hmacWith sha512 128 key msg

/-- HMAC-SHA-256 (block size 64, output 32 bytes). -/
def hmacSha256 (key msg : Bytes) : Bytes := hmacWith sha256 64 key msg

end CG.Crypto

import CG.Base.Bytes
/-!
MurmurHash3 x86_32, as used by BIP-37 bloom filters.
-/
namespace CG.Crypto

namespace Murmur3

@[inline] def rotl (x : UInt32) (n : UInt32) : UInt32 := (x <<< n) ||| (x >>> (32 - n))

def c1 : UInt32 := 0xcc9e2d51
def c2 : UInt32 := 0x1b873593

@[inline] def mixK (k : UInt32) : UInt32 := rotl (k * c1) 15 * c2

@[inline] def fmix32 (h0 : UInt32) : UInt32 :=
  let h := h0 ^^^ (h0 >>> 16)
  let h := h * 0x85ebca6b
  let h := h ^^^ (h >>> 13)
  let h := h * 0xc2b2ae35
  h ^^^ (h >>> 16)

end Murmur3

/-- MurmurHash3 (x86, 32-bit) of `data` with `seed`. -/
def murmur3_32 (seed : UInt32) (data : Bytes) : UInt32 := Id.run do
  let a : Array UInt8 := data.toArray
  let len := a.size
  let nblocks := len / 4
  let mut h := seed
  for i in [0:nblocks] do
    let o := 4 * i
    let k : UInt32 := a[o]!.toUInt32 ||| (a[o+1]!.toUInt32 <<< 8) |||
      (a[o+2]!.toUInt32 <<< 16) ||| (a[o+3]!.toUInt32 <<< 24)
    h := h ^^^ Murmur3.mixK k
    h := Murmur3.rotl h 13
    h := h * 5 + 0xe6546b64
  let t := 4 * nblocks
  let r := len % 4
  let mut k : UInt32 := 0
  if r ≥ 3 then k := k ^^^ (a[t+2]!.toUInt32 <<< 16)
  if r ≥ 2 then k := k ^^^ (a[t+1]!.toUInt32 <<< 8)
  if r ≥ 1 then
    k := k ^^^ a[t]!.toUInt32
    h := h ^^^ Murmur3.mixK k
  h := h ^^^ UInt32.ofNat len
  return Murmur3.fmix32 h

end CG.Crypto

import CG.Props.C02
import CG.Spec.SighashCoverage
/-!
Helper definitions and lemmas for `CG.Props.C03cov`: which parts of a transaction the BIP-143/FORKID
reference preimage (`CG.Spec.Bip143.preimageOf`) depends on, per sighash type.

* `Agree ty nIn tx tx'` — the two transactions agree on everything the type `ty` commits to when input
  `nIn` is signed (read off the BIP-143 text: version, lock time, this input's outpoint and sequence,
  all outpoints unless ANYONECANPAY, all sequences for ALL without ANYONECANPAY, all outputs for ALL,
  the same-index output for SINGLE).
* `preimage_eq_of_agree` — `Agree` ⇒ equal preimages (any `dsha`).
* `agree_or_collision` — equal preimages ⇒ `Agree` (and equal script code, amount, type) or a collision
  of `dsha`; from `C02_preimage_injective` and unique decodability of the three inner-hash inputs.
* `Mut nIn tx amt m tx' amt'` — the single-field mutations named in `CG.Spec.SighashCoverage.covered`
  (the same ones `harness/src/c03.rs` applies), as an inductive relation.
-/
namespace CG.Proofs.Coverage
open CG CG.Model.TxSer CG.Spec.Bip143 CG.Proofs.Bip143Inj

/-- the named assumption's negation: two different byte strings with the same double hash -/
def Collision (dsha : Bytes → Bytes) : Prop := ∃ a b : Bytes, a ≠ b ∧ dsha a = dsha b

/-- what the three inner hashes are taken of -/
def prevoutsBytes (tx : Tx) : Bytes := (tx.inputs.map (fun i => outpoint i.prevOutput)).flatten
def sequencesBytes (tx : Tx) : Bytes := (tx.inputs.map (fun i => le32 i.sequence)).flatten
def outputsBytes (tx : Tx) : Bytes := (tx.outputs.map txOut).flatten

/-- A collision of `dsha` *between corresponding inner-hash inputs of the two transactions*: the pair is
    named, not merely asserted to exist.  (For a total function with 32-byte results `Collision dsha`
    alone is true by counting, so a theorem concluding just `… ∨ Collision dsha` would say nothing; the
    theorems below conclude `… ∨ InnerCollision …`, i.e. they hand over the colliding pair, computed from
    `tx` and `tx'` — the usual reduction to collision resistance.) -/
def InnerCollision (dsha : Bytes → Bytes) (nIn : Nat) (tx tx' : Tx) : Prop :=
  ∃ a b : Bytes, a ≠ b ∧ dsha a = dsha b ∧
    ((a = prevoutsBytes tx' ∧ b = prevoutsBytes tx) ∨
     (a = sequencesBytes tx' ∧ b = sequencesBytes tx) ∨
     (a = outputsBytes tx' ∧ b = outputsBytes tx) ∨
     (∃ o o', tx.outputs[nIn]? = some o ∧ tx'.outputs[nIn]? = some o' ∧ a = txOut o' ∧ b = txOut o))

theorem InnerCollision.collision {dsha : Bytes → Bytes} {nIn : Nat} {tx tx' : Tx}
    (h : InnerCollision dsha nIn tx tx') : Collision dsha := by
  obtain ⟨a, b, h1, h2, _⟩ := h
  exact ⟨a, b, h1, h2⟩

/-- every field is in its wire range -/
structure TxOk (tx : Tx) : Prop where
  version : tx.version < 2 ^ 32
  lockTime : tx.lockTime < 2 ^ 32
  ins : ∀ i ∈ tx.inputs, i.prevOutput.hash.length = 32 ∧ i.prevOutput.index < 2 ^ 32 ∧ i.sequence < 2 ^ 32
  outs : ∀ o ∈ tx.outputs, InI64 o.satoshis ∧ o.lockScript.length < 2 ^ 64

/-- `tx` and `tx'` agree on every transaction field that type `ty` commits to for input `nIn`,
    the SINGLE output aside -/
structure AgreeCore (ty : UInt8) (nIn : Nat) (tx tx' : Tx) : Prop where
  version : tx'.version = tx.version
  lockTime : tx'.lockTime = tx.lockTime
  selfPrev : (tx'.inputs[nIn]?).map (·.prevOutput) = (tx.inputs[nIn]?).map (·.prevOutput)
  selfSeq : (tx'.inputs[nIn]?).map (·.sequence) = (tx.inputs[nIn]?).map (·.sequence)
  prevouts : anyoneCanPay ty = false → tx'.inputs.map (·.prevOutput) = tx.inputs.map (·.prevOutput)
  sequences : anyoneCanPay ty = false → isSingle ty = false → isNone ty = false →
    tx'.inputs.map (·.sequence) = tx.inputs.map (·.sequence)
  outputsAll : isSingle ty = false → isNone ty = false → tx'.outputs = tx.outputs

/-- ... and, for SINGLE, on the output at the input's index (present in both or in neither) -/
structure Agree (ty : UInt8) (nIn : Nat) (tx tx' : Tx) : Prop extends AgreeCore ty nIn tx tx' where
  outputSingle : isSingle ty = true → tx'.outputs[nIn]? = tx.outputs[nIn]?

/-! ### the preimage depends only on the agreed fields -/

theorem hashPrevouts_congr (dsha : Bytes → Bytes) {tx tx' : Tx} {ty : UInt8}
    (h : anyoneCanPay ty = false → tx'.inputs.map (·.prevOutput) = tx.inputs.map (·.prevOutput)) :
    hashPrevouts dsha tx' ty = hashPrevouts dsha tx ty := by
  unfold hashPrevouts
  cases hA : anyoneCanPay ty with
  | true => rfl
  | false =>
    have e : ∀ l : List TxIn, l.map (fun i => outpoint i.prevOutput) = (l.map (·.prevOutput)).map outpoint := by
      intro l; rw [List.map_map]; rfl
    rw [e, e, h hA]

theorem hashSequence_congr (dsha : Bytes → Bytes) {tx tx' : Tx} {ty : UInt8}
    (h : anyoneCanPay ty = false → isSingle ty = false → isNone ty = false →
      tx'.inputs.map (·.sequence) = tx.inputs.map (·.sequence)) :
    hashSequence dsha tx' ty = hashSequence dsha tx ty := by
  unfold hashSequence
  have e : ∀ l : List TxIn, l.map (fun i => le32 i.sequence) = (l.map (·.sequence)).map le32 := by
    intro l; rw [List.map_map]; rfl
  cases hA : anyoneCanPay ty <;> cases hS : isSingle ty <;> cases hN : isNone ty <;> try rfl
  rw [e, e, h hA hS hN]

theorem hashOutputs_congr (dsha : Bytes → Bytes) {tx tx' : Tx} {nIn : Nat} {ty : UInt8}
    (h1 : isSingle ty = false → isNone ty = false → tx'.outputs = tx.outputs)
    (h2 : isSingle ty = true → tx'.outputs[nIn]? = tx.outputs[nIn]?) :
    hashOutputs dsha tx' nIn ty = hashOutputs dsha tx nIn ty := by
  unfold hashOutputs
  cases hS : isSingle ty <;> cases hN : isNone ty
  · rw [h1 hS hN]
  · rfl
  · simp only [Bool.not_true, Bool.false_and, Bool.false_eq_true, if_false, if_true]
    rw [h2 hS]
  · simp only [Bool.not_true, Bool.false_and, Bool.false_eq_true, if_false, if_true]
    rw [h2 hS]

/-- **agreement ⇒ equal preimages**, for every hash function, script code, amount and type -/
theorem preimage_eq_of_agree (dsha : Bytes → Bytes) {ty : UInt8} {nIn : Nat} {tx tx' : Tx}
    (h : Agree ty nIn tx tx') (sc : Bytes) (amt : Int) :
    preimageOf dsha tx' nIn sc amt ty = preimageOf dsha tx nIn sc amt ty := by
  have hp := hashPrevouts_congr dsha h.prevouts
  have hs := hashSequence_congr dsha h.sequences
  have ho := hashOutputs_congr dsha h.outputsAll h.outputSingle
  have hv := h.version
  have hl := h.lockTime
  have h1 := h.selfPrev
  have h2 := h.selfSeq
  unfold preimageOf
  cases h' : tx'.inputs[nIn]? <;> cases h'' : tx.inputs[nIn]? <;>
    simp_all

/-! ### unique decodability of the inner-hash inputs -/

theorem flatten_map_inj {α : Type} (f : α → Bytes) (P : α → Prop) (hne : ∀ a, f a ≠ [])
    (hpre : ∀ a b r r', P a → P b → f a ++ r = f b ++ r' → a = b ∧ r = r') :
    ∀ l l' : List α, (∀ a ∈ l, P a) → (∀ a ∈ l', P a) → (l.map f).flatten = (l'.map f).flatten → l = l' := by
  intro l
  induction l with
  | nil =>
    intro l' _ _ h
    cases l' with
    | nil => rfl
    | cons b t =>
      simp only [List.map_nil, List.flatten_nil, List.map_cons, List.flatten_cons] at h
      exact absurd (List.append_eq_nil_iff.mp h.symm).1 (hne b)
  | cons a t ih =>
    intro l' hl hl' h
    cases l' with
    | nil =>
      simp only [List.map_nil, List.flatten_nil, List.map_cons, List.flatten_cons] at h
      exact absurd (List.append_eq_nil_iff.mp h).1 (hne a)
    | cons b t' =>
      simp only [List.map_cons, List.flatten_cons] at h
      obtain ⟨e1, e2⟩ := hpre a b _ _ (hl a (by simp)) (hl' b (by simp)) h
      rw [e1, ih t' (fun x hx => hl x (by simp [hx])) (fun x hx => hl' x (by simp [hx])) e2]

theorem outpoint_pre (a b : OutPoint) (r r' : Bytes)
    (ha : a.hash.length = 32 ∧ a.index < 2 ^ 32) (hb : b.hash.length = 32 ∧ b.index < 2 ^ 32)
    (h : outpoint a ++ r = outpoint b ++ r') : a = b ∧ r = r' := by
  unfold outpoint at h
  obtain ⟨e, er⟩ := List.append_inj h (by simp [le32_len, ha.1, hb.1])
  obtain ⟨e1, e2⟩ := List.append_inj e (by rw [ha.1, hb.1])
  have := le32_inj _ _ ha.2 hb.2 e2
  cases a; cases b; simp_all

theorem le32_pre (a b : Nat) (r r' : Bytes) (ha : a < 2 ^ 32) (hb : b < 2 ^ 32)
    (h : le32 a ++ r = le32 b ++ r') : a = b ∧ r = r' := by
  obtain ⟨e, er⟩ := List.append_inj h (by simp [le32_len])
  exact ⟨le32_inj _ _ ha hb e, er⟩

theorem txOut_pre (a b : TxOut) (r r' : Bytes)
    (ha : InI64 a.satoshis ∧ a.lockScript.length < 2 ^ 64) (hb : InI64 b.satoshis ∧ b.lockScript.length < 2 ^ 64)
    (h : txOut a ++ r = txOut b ++ r') : a = b ∧ r = r' := by
  unfold txOut at h
  simp only [List.append_assoc] at h
  obtain ⟨e1, h⟩ := List.append_inj h (by simp [le64s_len])
  have elen := compactSize_inj _ _ ha.2 hb.2 _ _ h
  rw [elen] at h
  have h := List.append_cancel_left h
  obtain ⟨e2, er⟩ := List.append_inj h elen
  have := le64s_inj _ _ ha.1 hb.1 e1
  cases a; cases b; simp_all

theorem le32_ne_nil (x : Nat) : le32 x ≠ [] := by
  intro h; have := le32_len x; rw [h] at this; simp at this

theorem outpoint_ne_nil (o : OutPoint) : outpoint o ≠ [] := by
  unfold outpoint
  intro h
  exact le32_ne_nil _ (List.append_eq_nil_iff.mp h).2

theorem txOut_ne_nil (o : TxOut) : txOut o ≠ [] := by
  unfold txOut
  intro h
  have := congrArg List.length h
  simp [le64s_len] at this

theorem txOut_inj (a b : TxOut)
    (ha : InI64 a.satoshis ∧ a.lockScript.length < 2 ^ 64) (hb : InI64 b.satoshis ∧ b.lockScript.length < 2 ^ 64)
    (h : txOut a = txOut b) : a = b :=
  (txOut_pre a b [] [] ha hb (by rw [h])).1

/-! ### equal inner hashes ⇒ equal inputs of the hash, or a collision -/

theorem hashPrevouts_bind (dsha : Bytes → Bytes) (nIn : Nat) {tx tx' : Tx} {ty : UInt8} (ok : TxOk tx) (ok' : TxOk tx')
    (h : hashPrevouts dsha tx' ty = hashPrevouts dsha tx ty) :
    InnerCollision dsha nIn tx tx' ∨ (anyoneCanPay ty = false → tx'.inputs.map (·.prevOutput) = tx.inputs.map (·.prevOutput)) := by
  cases hA : anyoneCanPay ty with
  | true => right; intro c; cases c
  | false =>
    unfold hashPrevouts at h
    simp only [hA, Bool.not_false, if_true] at h
    by_cases hb : (tx'.inputs.map (fun i => outpoint i.prevOutput)).flatten =
        (tx.inputs.map (fun i => outpoint i.prevOutput)).flatten
    · right; intro _
      have e : ∀ l : List TxIn, l.map (fun i => outpoint i.prevOutput) = (l.map (·.prevOutput)).map outpoint := by
        intro l; rw [List.map_map]; rfl
      rw [e, e] at hb
      refine flatten_map_inj outpoint (fun o => o.hash.length = 32 ∧ o.index < 2 ^ 32) outpoint_ne_nil
        outpoint_pre _ _ ?_ ?_ hb
      · intro o ho
        obtain ⟨i, hi, rfl⟩ := List.mem_map.mp ho
        exact ⟨(ok'.ins i hi).1, (ok'.ins i hi).2.1⟩
      · intro o ho
        obtain ⟨i, hi, rfl⟩ := List.mem_map.mp ho
        exact ⟨(ok.ins i hi).1, (ok.ins i hi).2.1⟩
    · left; exact ⟨_, _, hb, h, Or.inl ⟨rfl, rfl⟩⟩

theorem hashSequence_bind (dsha : Bytes → Bytes) (nIn : Nat) {tx tx' : Tx} {ty : UInt8} (ok : TxOk tx) (ok' : TxOk tx')
    (h : hashSequence dsha tx' ty = hashSequence dsha tx ty) :
    InnerCollision dsha nIn tx tx' ∨ (anyoneCanPay ty = false → isSingle ty = false → isNone ty = false →
      tx'.inputs.map (·.sequence) = tx.inputs.map (·.sequence)) := by
  by_cases hc : anyoneCanPay ty = false ∧ isSingle ty = false ∧ isNone ty = false
  · obtain ⟨hA, hS, hN⟩ := hc
    unfold hashSequence at h
    simp only [hA, hS, hN, Bool.not_false, Bool.and_self, if_true] at h
    by_cases hb : (tx'.inputs.map (fun i => le32 i.sequence)).flatten =
        (tx.inputs.map (fun i => le32 i.sequence)).flatten
    · right; intro _ _ _
      have e : ∀ l : List TxIn, l.map (fun i => le32 i.sequence) = (l.map (·.sequence)).map le32 := by
        intro l; rw [List.map_map]; rfl
      rw [e, e] at hb
      refine flatten_map_inj le32 (fun s => s < 2 ^ 32) le32_ne_nil le32_pre _ _ ?_ ?_ hb
      · intro o ho
        obtain ⟨i, hi, rfl⟩ := List.mem_map.mp ho
        exact (ok'.ins i hi).2.2
      · intro o ho
        obtain ⟨i, hi, rfl⟩ := List.mem_map.mp ho
        exact (ok.ins i hi).2.2
    · left; exact ⟨_, _, hb, h, Or.inr (Or.inl ⟨rfl, rfl⟩)⟩
  · right; intro a b c; exact absurd ⟨a, b, c⟩ hc

theorem hashOutputs_bind (dsha : Bytes → Bytes) {tx tx' : Tx} {nIn : Nat} {ty : UInt8} (ok : TxOk tx) (ok' : TxOk tx')
    (h : hashOutputs dsha tx' nIn ty = hashOutputs dsha tx nIn ty) :
    InnerCollision dsha nIn tx tx' ∨
      ((isSingle ty = false → isNone ty = false → tx'.outputs = tx.outputs) ∧
       (isSingle ty = true → ∀ o o', tx.outputs[nIn]? = some o → tx'.outputs[nIn]? = some o' → o' = o)) := by
  unfold hashOutputs at h
  cases hS : isSingle ty with
  | false =>
    cases hN : isNone ty with
    | true => right; exact ⟨fun _ c => (by cases c), fun c => (by cases c)⟩
    | false =>
      simp only [hS, hN, Bool.not_false, Bool.and_self, if_true] at h
      by_cases hb : (tx'.outputs.map txOut).flatten = (tx.outputs.map txOut).flatten
      · right
        refine ⟨fun _ _ => ?_, fun c => (by cases c)⟩
        exact flatten_map_inj txOut (fun o => InI64 o.satoshis ∧ o.lockScript.length < 2 ^ 64) txOut_ne_nil
          txOut_pre _ _ ok'.outs ok.outs hb
      · left; exact ⟨_, _, hb, h, Or.inr (Or.inr (Or.inl ⟨rfl, rfl⟩))⟩
  | true =>
    simp only [hS, Bool.not_true, Bool.false_and, Bool.false_eq_true, if_false, if_true] at h
    by_cases hc : ∃ o o', tx.outputs[nIn]? = some o ∧ tx'.outputs[nIn]? = some o' ∧ txOut o' ≠ txOut o
    · obtain ⟨o, o', h1, h2, hne⟩ := hc
      rw [h1, h2] at h
      left; exact ⟨_, _, hne, h, Or.inr (Or.inr (Or.inr ⟨o, o', h1, h2, rfl, rfl⟩))⟩
    · right
      refine ⟨fun c => (by cases c), fun _ o o' h1 h2 => ?_⟩
      have : txOut o' = txOut o := by
        apply Classical.byContradiction
        intro hne
        exact hc ⟨o, o', h1, h2, hne⟩
      exact txOut_inj o' o (ok'.outs o' (List.mem_of_getElem? h2)) (ok.outs o (List.mem_of_getElem? h1)) this

/-- **equal preimages ⇒ agreement or collision**: if the preimages of two signing requests for an
    existing input `nIn` are equal, then either `dsha` has a collision between corresponding inner-hash inputs or the requests have equal script
    code, amount and type byte and the transactions agree on everything the type commits to (for SINGLE:
    if both have an output at index `nIn`, it is the same output).
    (`C02_preimage_injective` + unique decodability of the three inner-hash inputs.) -/
theorem agreeCore_or_collision (dsha : Bytes → Bytes) (hl : ∀ b, (dsha b).length = 32)
    {tx tx' : Tx} {nIn : Nat} {sc sc' : Bytes} {amt amt' : Int} {ty ty' : UInt8}
    (ok : TxOk tx) (ok' : TxOk tx') (hin : nIn < tx.inputs.length) (hin' : nIn < tx'.inputs.length)
    (hsc : sc.length < 2 ^ 64) (hsc' : sc'.length < 2 ^ 64) (ha : InI64 amt) (ha' : InI64 amt')
    (h : preimageOf dsha tx' nIn sc' amt' ty' = preimageOf dsha tx nIn sc amt ty) :
    InnerCollision dsha nIn tx tx' ∨ (sc' = sc ∧ amt' = amt ∧ ty' = ty ∧ AgreeCore ty nIn tx tx' ∧
      (isSingle ty = true → ∀ o o', tx.outputs[nIn]? = some o → tx'.outputs[nIn]? = some o' → o' = o)) := by
  have hi : tx.inputs[nIn]? = some tx.inputs[nIn] := List.getElem?_eq_getElem hin
  have hi' : tx'.inputs[nIn]? = some tx'.inputs[nIn] := List.getElem?_eq_getElem hin'
  have m := List.getElem_mem hin
  have m' := List.getElem_mem hin'
  have hp := preimageOf_eq_ser dsha tx nIn _ sc amt ty hi
  obtain ⟨ev, ep, es, eo, esc, ea, eq, eout, elt, ety⟩ :=
    CG.Props.C02.C02_preimage_injective dsha hl tx' tx nIn nIn _ _ sc' sc amt' amt ty' ty _ hi' hi
      ⟨ok'.version, ok.version⟩ ⟨ok'.lockTime, ok.lockTime⟩
      ⟨(ok'.ins _ m').1, (ok.ins _ m).1⟩ ⟨(ok'.ins _ m').2.1, (ok.ins _ m).2.1⟩
      ⟨(ok'.ins _ m').2.2, (ok.ins _ m).2.2⟩ ⟨hsc', hsc⟩ ⟨ha', ha⟩ (h.trans hp) hp
  subst ety
  rcases hashPrevouts_bind dsha nIn ok ok' ep with c | bp
  · exact Or.inl c
  rcases hashSequence_bind dsha nIn ok ok' es with c | bs
  · exact Or.inl c
  rcases hashOutputs_bind dsha ok ok' eout with c | ⟨bo1, bo2⟩
  · exact Or.inl c
  right
  refine ⟨esc, ea, rfl, ⟨ev, elt, ?_, ?_, bp, bs, bo1⟩, bo2⟩
  · rw [hi, hi']; simp [eo]
  · rw [hi, hi']; simp [eq]

/-- with the SINGLE output present in both transactions or in neither: full agreement -/
theorem agree_or_collision (dsha : Bytes → Bytes) (hl : ∀ b, (dsha b).length = 32)
    {tx tx' : Tx} {nIn : Nat} {sc sc' : Bytes} {amt amt' : Int} {ty ty' : UInt8}
    (ok : TxOk tx) (ok' : TxOk tx') (hin : nIn < tx.inputs.length) (hin' : nIn < tx'.inputs.length)
    (hsc : sc.length < 2 ^ 64) (hsc' : sc'.length < 2 ^ 64) (ha : InI64 amt) (ha' : InI64 amt')
    (hsame : isSingle ty = true → (tx'.outputs[nIn]?).isSome = (tx.outputs[nIn]?).isSome)
    (h : preimageOf dsha tx' nIn sc' amt' ty' = preimageOf dsha tx nIn sc amt ty) :
    InnerCollision dsha nIn tx tx' ∨ (sc' = sc ∧ amt' = amt ∧ ty' = ty ∧ Agree ty nIn tx tx') := by
  rcases agreeCore_or_collision dsha hl ok ok' hin hin' hsc hsc' ha ha' h with c | ⟨e1, e2, e3, core, bo2⟩
  · exact Or.inl c
  right
  refine ⟨e1, e2, e3, core, ?_⟩
  intro hS
  have hs := hsame hS
  cases h1 : tx.outputs[nIn]? with
  | none =>
    cases h2 : tx'.outputs[nIn]? with
    | none => rfl
    | some o' => rw [h1, h2] at hs; cases hs
  | some o =>
    cases h2 : tx'.outputs[nIn]? with
    | none => rw [h1, h2] at hs; cases hs
    | some o' => rw [bo2 hS o o' h1 h2]

/-! ### list helpers -/

theorem map_set_same {α β : Type} (f : α → β) {l : List α} {j : Nat} {a : α} (x : α)
    (h : l[j]? = some a) (hf : f x = f a) : (l.set j x).map f = l.map f := by
  apply List.ext_getElem?
  intro k
  obtain ⟨hj, ha⟩ := List.getElem?_eq_some_iff.mp h
  simp only [List.getElem?_map, List.getElem?_set]
  by_cases hk : j = k
  · subst hk; subst ha; simp [hj, hf]
  · simp [hk]

theorem map_set_ne {α β : Type} (f : α → β) {l : List α} {j : Nat} {a : α} (x : α)
    (h : l[j]? = some a) (hf : f x ≠ f a) : (l.set j x).map f ≠ l.map f := by
  intro e
  obtain ⟨hj, ha⟩ := List.getElem?_eq_some_iff.mp h
  have := congrArg (·[j]?) e
  subst ha
  simp [hj] at this
  exact hf this

theorem getElem?_set_map_ne {α β : Type} (f : α → β) {l : List α} {j : Nat} {a : α} (x : α)
    (h : l[j]? = some a) (hf : f x ≠ f a) : ((l.set j x)[j]?).map f ≠ (l[j]?).map f := by
  obtain ⟨hj, ha⟩ := List.getElem?_eq_some_iff.mp h
  subst ha
  simpa [hj] using hf

theorem set_ne_self {α : Type} {l : List α} {j : Nat} {a : α} (x : α) (h : l[j]? = some a) (hx : x ≠ a) :
    l.set j x ≠ l := by
  intro e
  have := map_set_ne (fun y => y) x h hx
  simp only [List.map_id'] at this
  exact this e

theorem getElem?_set_of_some {α : Type} {l : List α} {j : Nat} {a : α} (x : α) (h : l[j]? = some a) :
    (l.set j x)[j]? = some x := by
  obtain ⟨hj, _⟩ := List.getElem?_eq_some_iff.mp h
  simp [hj]

theorem isSingle_not_isNone {ty : UInt8} (h : isSingle ty = true) : isNone ty = false := by
  unfold isSingle at h; unfold isNone
  simp at h ⊢; omega

/-! ### single-field changes that keep agreement -/

theorem Agree.refl (ty : UInt8) (nIn : Nat) (tx : Tx) : Agree ty nIn tx tx :=
  ⟨⟨rfl, rfl, rfl, rfl, fun _ => rfl, fun _ _ _ => rfl, fun _ _ => rfl⟩, fun _ => rfl⟩

/-- replacing input `j` by `x`: agreement holds if `x` keeps the outpoint / sequence wherever the
    type commits to them (always for `j = nIn`) -/
theorem agree_set_input (ty : UInt8) (nIn : Nat) (tx : Tx) (j : Nat) (i x : TxIn) (hi : tx.inputs[j]? = some i)
    (hp : j = nIn ∨ anyoneCanPay ty = false → x.prevOutput = i.prevOutput)
    (hs : j = nIn ∨ (anyoneCanPay ty = false ∧ isSingle ty = false ∧ isNone ty = false) → x.sequence = i.sequence) :
    Agree ty nIn tx { tx with inputs := tx.inputs.set j x } := by
  refine ⟨⟨rfl, rfl, ?_, ?_, ?_, ?_, fun _ _ => rfl⟩, fun _ => rfl⟩
  · by_cases hj : j = nIn
    · rw [← List.getElem?_map, ← List.getElem?_map, map_set_same _ x hi (hp (Or.inl hj))]
    · simp only [List.getElem?_set_ne hj]
  · by_cases hj : j = nIn
    · rw [← List.getElem?_map, ← List.getElem?_map, map_set_same _ x hi (hs (Or.inl hj))]
    · simp only [List.getElem?_set_ne hj]
  · intro hA; exact map_set_same _ x hi (hp (Or.inr hA))
  · intro hA hS hN; exact map_set_same _ x hi (hs (Or.inr ⟨hA, hS, hN⟩))

/-- appending inputs under ANYONECANPAY -/
theorem agree_append_inputs (ty : UInt8) (nIn : Nat) (tx : Tx) (extra : List TxIn)
    (hin : nIn < tx.inputs.length) (hA : anyoneCanPay ty = true) :
    Agree ty nIn tx { tx with inputs := tx.inputs ++ extra } := by
  refine ⟨⟨rfl, rfl, ?_, ?_, ?_, ?_, fun _ _ => rfl⟩, fun _ => rfl⟩
  · simp only [List.getElem?_append_left hin]
  · simp only [List.getElem?_append_left hin]
  · intro c; rw [hA] at c; cases c
  · intro c; rw [hA] at c; cases c

/-- replacing the outputs: agreement holds if all outputs are kept (ALL) / the same-index output is
    kept (SINGLE); no condition for NONE -/
theorem agree_outputs (ty : UInt8) (nIn : Nat) (tx : Tx) (outs' : List TxOut)
    (h1 : isSingle ty = false → isNone ty = false → outs' = tx.outputs)
    (h2 : isSingle ty = true → outs'[nIn]? = tx.outputs[nIn]?) :
    Agree ty nIn tx { tx with outputs := outs' } :=
  ⟨⟨rfl, rfl, rfl, rfl, fun _ => rfl, fun _ _ _ => rfl, h1⟩, h2⟩

/-! ### the named mutations of the coverage table -/

/-- `Mut nIn tx amt m tx' amt'`: the signing request (`tx'`, spent amount `amt'`) is obtained from
    (`tx`, `amt`) by the single-field mutation named `m` in `CG.Spec.SighashCoverage.covered`, input `nIn`
    being the signed one.  Same mutations, same preconditions as `mutated_spend` in `harness/src/c03.rs`
    (`out_add` presupposes an output at the signed input's index; `out_remove_last` that the last output
    is not that one), with arbitrary new values instead of `+1` / `-1` / `push`. -/
inductive Mut (nIn : Nat) (tx : Tx) (amt : Int) : String → Tx → Int → Prop
  | none : Mut nIn tx amt "none" tx amt
  | version (v : Nat) (h : v ≠ tx.version) : Mut nIn tx amt "version" { tx with version := v } amt
  | locktime (t : Nat) (h : t ≠ tx.lockTime) : Mut nIn tx amt "locktime" { tx with lockTime := t } amt
  | in_seq_self (i : TxIn) (s : Nat) (hi : tx.inputs[nIn]? = some i) (h : s ≠ i.sequence) :
      Mut nIn tx amt "in_seq_self" { tx with inputs := tx.inputs.set nIn { i with sequence := s } } amt
  | in_seq_other (j : Nat) (i : TxIn) (s : Nat) (hj : j ≠ nIn) (hi : tx.inputs[j]? = some i) (h : s ≠ i.sequence) :
      Mut nIn tx amt "in_seq_other" { tx with inputs := tx.inputs.set j { i with sequence := s } } amt
  | in_prev_self (i : TxIn) (o : OutPoint) (hi : tx.inputs[nIn]? = some i) (h : o ≠ i.prevOutput) :
      Mut nIn tx amt "in_prev_self" { tx with inputs := tx.inputs.set nIn { i with prevOutput := o } } amt
  | in_prev_other (j : Nat) (i : TxIn) (o : OutPoint) (hj : j ≠ nIn) (hi : tx.inputs[j]? = some i)
      (h : o ≠ i.prevOutput) :
      Mut nIn tx amt "in_prev_other" { tx with inputs := tx.inputs.set j { i with prevOutput := o } } amt
  | in_add (x : TxIn) : Mut nIn tx amt "in_add" { tx with inputs := tx.inputs ++ [x] } amt
  | out_amount_same (o : TxOut) (a : Int) (ho : tx.outputs[nIn]? = some o) (h : a ≠ o.satoshis) :
      Mut nIn tx amt "out_amount_same" { tx with outputs := tx.outputs.set nIn { o with satoshis := a } } amt
  | out_amount_other (j : Nat) (o : TxOut) (a : Int) (hj : j ≠ nIn) (ho : tx.outputs[j]? = some o)
      (h : a ≠ o.satoshis) :
      Mut nIn tx amt "out_amount_other" { tx with outputs := tx.outputs.set j { o with satoshis := a } } amt
  | out_script_same (o : TxOut) (s : Bytes) (ho : tx.outputs[nIn]? = some o) (h : s ≠ o.lockScript) :
      Mut nIn tx amt "out_script_same" { tx with outputs := tx.outputs.set nIn { o with lockScript := s } } amt
  | out_script_other (j : Nat) (o : TxOut) (s : Bytes) (hj : j ≠ nIn) (ho : tx.outputs[j]? = some o)
      (h : s ≠ o.lockScript) :
      Mut nIn tx amt "out_script_other" { tx with outputs := tx.outputs.set j { o with lockScript := s } } amt
  | out_add (o : TxOut) (hn : nIn < tx.outputs.length) :
      Mut nIn tx amt "out_add" { tx with outputs := tx.outputs ++ [o] } amt
  | out_remove_last (hn : nIn + 1 < tx.outputs.length) :
      Mut nIn tx amt "out_remove_last" { tx with outputs := tx.outputs.dropLast } amt
  | amount (a : Int) (h : a ≠ amt) : Mut nIn tx amt "amount" tx a
  | unlock_other (j : Nat) (i : TxIn) (u : Bytes) (hj : j ≠ nIn) (hi : tx.inputs[j]? = some i)
      (h : u ≠ i.unlockScript) :
      Mut nIn tx amt "unlock_other" { tx with inputs := tx.inputs.set j { i with unlockScript := u } } amt

/-- the table's type predicates are the reference preimage's -/
theorem table_acp (ty : UInt8) : Spec.SighashCoverage.anyoneCanPay ty.toNat = anyoneCanPay ty := rfl
theorem table_single (ty : UInt8) : decide (Spec.SighashCoverage.base ty.toNat = 3) = isSingle ty := rfl
theorem table_isAll (ty : UInt8) : Spec.SighashCoverage.isAll ty.toNat = (!isSingle ty && !isNone ty) := by
  unfold Spec.SighashCoverage.isAll Spec.SighashCoverage.base isSingle isNone baseType
  by_cases h2 : ty.toNat % 32 = 2 <;> by_cases h3 : ty.toNat % 32 = 3 <;> simp [h2, h3]

/-! Boolean case analyses of the table's entries -/
theorem b3_false {A S N : Bool} (c : some (!A && (!S && !N)) = some false) : A = true ∨ N = true ∨ S = true := by
  cases A <;> cases S <;> cases N <;> simp_all
theorem b3_true {A S N : Bool} (c : some (!A && (!S && !N)) = some true) : A = false ∧ S = false ∧ N = false := by
  cases A <;> cases S <;> cases N <;> simp_all
theorem b1_false {A : Bool} (c : some (!A) = some false) : A = true := by cases A <;> simp_all
theorem b1_true {A : Bool} (c : some (!A) = some true) : A = false := by cases A <;> simp_all
theorem bAll_false {S N : Bool} (c : some (!S && !N) = some false) : S = true ∨ N = true := by
  cases S <;> cases N <;> simp_all
theorem bAll_true {S N : Bool} (c : some (!S && !N) = some true) : S = false ∧ N = false := by
  cases S <;> cases N <;> simp_all
theorem bSame_false {S N : Bool} (c : some ((!S && !N) || S) = some false) : N = true := by
  cases S <;> cases N <;> simp_all
theorem bSame_true {S N : Bool} (c : some ((!S && !N) || S) = some true) : S = true ∨ (S = false ∧ N = false) := by
  cases S <;> cases N <;> simp_all

end CG.Proofs.Coverage

import CG.Proofs.RxOnce
/-!
C13 — Part 5: the repaired algorithm on a single-shot subject (`Single`) delivers its one value exactly
once to every subscriber, whether it subscribes before, during or after the emission.
Invariants over all reachable states, any number of threads, any programs, any schedule.
-/
namespace CG.Model.Rx
open CG.Spec.EventSpec

/-! ### vocabulary -/

/-- instructions that occur on a single-shot subject (repaired algorithm) -/
def Instr.isSing : Instr → Bool
  | .acqPush _ | .relM | .acqSnap _ => false
  | i => i.isRep

theorem isRep_of_isSing {i : Instr} (h : i.isSing = true) : i.isRep = true := by
  cases i <;> simp_all [Instr.isSing, Instr.isRep]

/-- What one step of a single-shot instruction does to history, observer list, owner table, ghost counter
    and value slot, and what it puts at the head. -/
inductive TrS (s : Sys) (t : Tid) : Instr → Sys → List Instr → Prop
  | quiet {i : Instr} {s1 : Sys} {new : List Instr} (hi : i.bland ∧ i.isMarker = false)
      (hh : s1.hist = s.hist ∨ s1.hist = s.hist ++ [HEv.noop t])
      (ho : s1.observers = s.observers) (hw : s1.owner = s.owner) (hn : s1.nextId = s.nextId)
      (hv : s1.value = s.value)
      (hnew : ∀ j ∈ new, j.bland ∧ (∀ e, j ≠ Instr.acqWrite e) ∧ j.isSing = true) : TrS s t i s1 new
  | dropO {s1 : Sys} (o : Nat) (hh : s1.hist = s.hist ++ [HEv.dropO t o])
      (ho : s1.observers = s.observers) (hw : s1.owner = upd s.owner o false) (hn : s1.nextId = s.nextId)
      (hv : s1.value = s.value) : TrS s t (.dropO o) s1 []
  | deliver {s1 : Sys} {new : List Instr} (o c e p : Nat) (hh : s1.hist = s.hist ++ [HEv.deliver t (.user o) c e p])
      (ho : s1.observers = s.observers) (hw : s1.owner = s.owner) (hn : s1.nextId = s.nextId)
      (hv : s1.value = s.value)
      (hnew : new = [] ∨ ∃ k, new = [Instr.acqRead (.user k)]) : TrS s t (.deliver o c e p) s1 new
  | putR {s1 : Sys} (a k c e p : Nat) (hh : s1.hist = s.hist ++ [HEv.deliver t (.poller a k) c e p])
      (ho : s1.observers = s.observers) (hw : s1.owner = s.owner) (hn : s1.nextId = s.nextId)
      (hv : s1.value = s.value) : TrS s t (.putLockR a k c e p) s1 [.putLockL a k]
  /-- `subscribe` finds the value: the subscriber is served directly, after releasing the read lock -/
  | readD {s1 : Sys} (o : Ob) (v p0 : Nat) (hval : s.value = some (v, p0))
      (hh : s1.hist = s.hist ++ beginEvs t o s.nextId)
      (ho : s1.observers = s.observers) (hw : s1.owner = s.owner) (hn : s1.nextId = s.nextId + 1)
      (hv : s1.value = s.value) :
      TrS s t (.acqRead o) s1 (.relRead :: deliverInstrs ⟨o, s.nextId⟩ v p0 ++ [Instr.mSubRet o s.nextId])
  /-- `subscribe` finds no value: the observer is pushed under the read lock -/
  | readP {s1 : Sys} (o : Ob) (hval : s.value = none)
      (hh : s1.hist = s.hist ++ beginEvs t o s.nextId)
      (ho : s1.observers = s.observers) (hw : s1.owner = s.owner) (hn : s1.nextId = s.nextId + 1)
      (hv : s1.value = s.value) : TrS s t (.acqRead o) s1 [.acqPushR o s.nextId, .mSubRet o s.nextId]
  | pushR {s1 : Sys} (o : Ob) (c : Nat) (hh : s1.hist = s.hist)
      (ho : s1.observers = s.observers ++ [⟨o, c⟩]) (hw : s1.owner = s.owner) (hn : s1.nextId = s.nextId)
      (hv : s1.value = s.value) : TrS s t (.acqPushR o c) s1 [.relMR]
  /-- the emission: `next` finds no value -/
  | writeF {s1 : Sys} (e : Nat) (hfree : s.lockV.free = true) (hval : s.value = none)
      (hh : s1.hist = s.hist ++ [HEv.pubBegin t e s.nextId])
      (ho : s1.observers = s.observers) (hw : s1.owner = s.owner) (hn : s1.nextId = s.nextId + 1)
      (hv : s1.value = some (e, s.nextId)) :
      TrS s t (.acqWrite e) s1 [.relWrite, .acqSnapS e s.nextId, .mPubEnd e s.nextId]
  /-- a later `next`: ignored -/
  | writeL {s1 : Sys} (e : Nat) (v : Nat × Nat) (hval : s.value = some v)
      (hh : s1.hist = s.hist ++ [HEv.pubBegin t e s.nextId])
      (ho : s1.observers = s.observers) (hw : s1.owner = s.owner) (hn : s1.nextId = s.nextId + 1)
      (hv : s1.value = s.value) : TrS s t (.acqWrite e) s1 [.relWrite, .mPubEnd e s.nextId]
  | snapS {s1 : Sys} (e p : Nat) (hh : s1.hist = s.hist)
      (ho : s1.observers = s.observers.filter (fun x => physAlive s x.ob)) (hw : s1.owner = s.owner)
      (hn : s1.nextId = s.nextId) (hv : s1.value = s.value) :
      TrS s t (.acqSnapS e p) s1 [.relSnap (s.observers.filter (fun x => physAlive s x.ob)) e p]
  | rel {s1 : Sys} (snap : List Entry) (e p : Nat) (hh : s1.hist = s.hist)
      (ho : s1.observers = s.observers) (hw : s1.owner = s.owner) (hn : s1.nextId = s.nextId)
      (hv : s1.value = s.value) :
      TrS s t (.relSnap snap e p) s1 (snap.flatMap (fun x => deliverInstrs x e p) ++ [Instr.mSnapDrop snap])

theorem execE_trS {s s1 : Sys} {t : Tid} {i : Instr} {new : List Instr} (ha : s.algo = .repaired) (hk : s.kind = .single)
    (hi : i.isSing = true) (h : execE s t i = some (s1, new)) : TrS s t i s1 new := by
  cases i <;> simp [Instr.isSing, Instr.isRep] at hi <;> simp only [execE] at h
  all_goals ((try split at h) <;> (try split at h) <;> (try simp at h))
  all_goals (try (obtain ⟨rfl, rfl⟩ := h))
  all_goals first
    | (refine TrS.quiet ?_ ?_ rfl rfl rfl rfl ?_
       · simp [Instr.bland, Instr.pend, Instr.isPubEnd, Instr.ids, Instr.isMarker]
       · first | exact .inl rfl | exact .inr rfl
       · intro j hj; (simp at hj) <;> ((try subst hj); simp [Instr.bland, Instr.pend, Instr.isPubEnd, Instr.ids, Instr.isSing, Instr.isRep]))
    | exact TrS.dropO _ rfl rfl rfl rfl rfl
    | exact TrS.deliver _ _ _ _ rfl rfl rfl rfl rfl (.inl rfl)
    | (rw [ha, hk]; exact TrS.deliver _ _ _ _ rfl rfl rfl rfl rfl (.inr ⟨_, rfl⟩))
    | exact TrS.putR _ _ _ _ _ rfl rfl rfl rfl rfl
    | (rename_i hv; exact TrS.readD _ _ _ hv (by simp) rfl (by simp) rfl rfl)
    | (rename_i hv; exact TrS.readP _ hv (by simp) rfl (by simp) rfl rfl)
    | exact TrS.pushR _ _ rfl rfl rfl rfl rfl
    | exact TrS.writeF _ (by assumption) (by assumption) rfl rfl rfl rfl rfl
    | (rename_i v hv; exact TrS.writeL _ v hv rfl rfl rfl rfl rfl)
    | exact TrS.snapS _ _ rfl rfl rfl rfl rfl
    | exact TrS.rel _ _ _ rfl rfl rfl rfl rfl
    | (refine TrS.quiet ?_ (.inl ?_) ?_ ?_ ?_ ?_ ?_
       · simp [Instr.bland, Instr.pend, Instr.isPubEnd, Instr.ids, Instr.isMarker]
       · split <;> rfl
       · split <;> rfl
       · split <;> rfl
       · split <;> rfl
       · split <;> rfl
       · intro j hj; simp at hj; subst hj; simp [Instr.bland, Instr.pend, Instr.isPubEnd, Instr.ids, Instr.isSing, Instr.isRep])

end CG.Model.Rx
namespace CG.Model.Rx
open CG.Spec.EventSpec

/-- Part 5, structural invariant (single-shot subject) -/
structure S1 (s : Sys) : Prop where
  sing : s.kind = .single
  fam : ∀ t, ∀ i ∈ (s.thr t).cont, i.isSing = true
  writeAlone : ∀ t e, Instr.acqWrite e ∈ (s.thr t).cont → (s.thr t).cont = [Instr.acqWrite e]
  eok : ∀ t, endOk (s.thr t).cont = true
  bObs : ∀ x ∈ s.observers, x.c < s.nextId
  bHist : ∀ ev ∈ s.hist, ∀ id ∈ ev.ids, id < s.nextId
  bCont : ∀ t, ∀ i ∈ (s.thr t).cont, ∀ id ∈ i.ids, id < s.nextId
  bVal : ∀ e p, s.value = some (e, p) → p < s.nextId

/-- the pieces of an `exec` transition on a single-shot subject -/
structure ExecCtxS (s s' : Sys) (t : Tid) (i : Instr) (rest new : List Instr) (s1 : Sys) : Prop where
  hc : (s.thr t).cont = i :: rest
  tr : TrS s t i s1 new
  cont : ∀ u, (s'.thr u).cont = if u = t then new ++ rest else (s.thr u).cont
  hist : s'.hist = s1.hist
  obs : s'.observers = s1.observers
  own : s'.owner = s1.owner
  nid : s'.nextId = s1.nextId
  val : s'.value = s1.value
  kind : s'.kind = s.kind

theorem execCtxS_of {s s' : Sys} {t : Tid} {i : Instr} {rest : List Instr} (A : HA s) (E : S1 s)
    (hc : (s.thr t).cont = i :: rest) (h : exec s t i rest = some s') :
    ∃ new s1, ExecCtxS s s' t i rest new s1 := by
  obtain ⟨s1, new, he, rfl⟩ := exec_eq h
  refine ⟨new, s1, hc, execE_trS A.rep E.sing (E.fam t i (by simp [hc])) he, ?_, rfl, rfl, rfl, rfl, rfl, ?_⟩
  · intro u; rw [setCont_cont]; split
    · rfl
    · exact (execE_thr he u).1
  · simp [Sys.setCont_eq, (execE_static he).2.1]

theorem deliverInstrs_sing (x : Entry) (e p : Nat) :
    ∀ j ∈ deliverInstrs x e p, j.isSing = true ∧ j.isPubEnd = false ∧ (∀ e', j ≠ .acqWrite e') ∧ j.ids = [x.c, p] := by
  cases x with | mk ob c => cases ob <;> simp [deliverInstrs, Instr.isSing, Instr.isRep, Instr.isPubEnd, Instr.ids]

/-- `S1` across a micro-transition of thread `t` that replaces the head `i` of its continuation by `new` -/
theorem S1_of {s s' : Sys} {t : Tid} {i : Instr} {rest new : List Instr} (E : S1 s)
    (hc : (s.thr t).cont = i :: rest)
    (hkind : s'.kind = s.kind)
    (hcont : ∀ u, (s'.thr u).cont = if u = t then new ++ rest else (s.thr u).cont)
    (hnext : s.nextId ≤ s'.nextId)
    (hobs : ∀ x ∈ s'.observers, x ∈ s.observers ∨ x.c < s'.nextId)
    (hhist' : ∃ evs, s'.hist = s.hist ++ evs ∧ ∀ ev ∈ evs, ∀ id ∈ ev.ids, id < s'.nextId)
    (hval : ∀ e p, s'.value = some (e, p) → s.value = some (e, p) ∨ p < s'.nextId)
    (hnSing : ∀ j ∈ new, j.isSing = true)
    (hnWrite : ∀ j ∈ new, ∀ e, j ≠ Instr.acqWrite e)
    (hnEnd : endOk (new ++ rest) = true)
    (hnIds : ∀ j ∈ new, ∀ id ∈ j.ids, id < s'.nextId) : S1 s' := by
  obtain ⟨evs, hhist, hevs⟩ := hhist'
  have hrestmem : ∀ j, j ∈ rest → j ∈ (s.thr t).cont := fun j hj => by simp [hc, hj]
  refine ⟨by rw [hkind]; exact E.sing, ?_, ?_, ?_, ?_, ?_, ?_, ?_⟩
  · intro u j hj
    rw [hcont] at hj; split at hj
    · rcases List.mem_append.1 hj with hj | hj
      · exact hnSing j hj
      · exact E.fam t j (hrestmem j hj)
    · exact E.fam u j hj
  · intro u e hj
    rw [hcont] at hj ⊢; split at hj
    · rename_i hut; subst hut
      rcases List.mem_append.1 hj with hj | hj
      · exact absurd rfl (hnWrite _ hj e)
      · have := E.writeAlone u e (hrestmem _ hj)
        rw [hc] at this
        have h2 : rest = [] := by injection this
        subst h2; cases hj
    · rename_i hut; rw [if_neg hut]; exact E.writeAlone u e hj
  · intro u
    rw [hcont]; split
    · exact hnEnd
    · exact E.eok u
  · intro x hx
    rcases hobs x hx with h | h
    · exact Nat.lt_of_lt_of_le (E.bObs x h) hnext
    · exact h
  · intro ev hev id hid
    rw [hhist] at hev
    rcases List.mem_append.1 hev with h | h
    · exact Nat.lt_of_lt_of_le (E.bHist ev h id hid) hnext
    · exact hevs ev h id hid
  · intro u j hj id hid
    rw [hcont] at hj; split at hj
    · rcases List.mem_append.1 hj with hj | hj
      · exact hnIds j hj id hid
      · exact Nat.lt_of_lt_of_le (E.bCont t j (hrestmem j hj) id hid) hnext
    · exact Nat.lt_of_lt_of_le (E.bCont u j hj id hid) hnext
  · intro e p hv
    rcases hval e p hv with h | h
    · exact Nat.lt_of_lt_of_le (E.bVal e p h) hnext
    · exact h

theorem S1_exec {s s' : Sys} {t : Tid} {i : Instr} {rest : List Instr} (A : HA s) (E : S1 s)
    (hc : (s.thr t).cont = i :: rest) (h : exec s t i rest = some s') : S1 s' := by
  obtain ⟨new, s1, C⟩ := execCtxS_of A E hc h
  have heok : endOk rest = true := endOk_tail (by have := E.eok t; rwa [hc] at this)
  have hbi : ∀ id ∈ i.ids, id < s.nextId := E.bCont t i (by simp [hc])
  have hdel : ∀ (x : Entry) (e p : Nat), x.c < s'.nextId → p < s'.nextId →
      ∀ j ∈ deliverInstrs x e p, ∀ id ∈ j.ids, id < s'.nextId := by
    intro x e p h1 h2 j hj id hid
    rw [(deliverInstrs_sing x e p j hj).2.2.2] at hid
    simp at hid; rcases hid with rfl | rfl <;> assumption
  cases C.tr with
  | quiet hib hh ho hw hn hv hnew =>
    refine S1_of E hc C.kind C.cont (by rw [C.nid, hn]; exact Nat.le_refl _) (fun x hx => .inl (by rwa [C.obs, ho] at hx))
      ?_ (fun e p h => .inl (by rwa [C.val, hv] at h)) (fun j hj => (hnew j hj).2.2) (fun j hj => (hnew j hj).2.1)
      (endOk_append (fun j hj => (hnew j hj).1.2.1) heok) (fun j hj id hid => by rw [(hnew j hj).1.2.2.2] at hid; cases hid)
    rcases hh with hh | hh
    · exact ⟨[], by rw [C.hist, hh]; simp, by simp⟩
    · exact ⟨_, by rw [C.hist, hh], by simp [HEv.ids]⟩
  | dropO o hh ho hw hn hv =>
    exact S1_of E hc C.kind C.cont (by rw [C.nid, hn]; exact Nat.le_refl _) (fun x hx => .inl (by rwa [C.obs, ho] at hx))
      ⟨_, by rw [C.hist, hh], by simp [HEv.ids]⟩ (fun e p h => .inl (by rwa [C.val, hv] at h)) (by simp) (by simp)
      (by simpa using heok) (by simp)
  | deliver o c e p hh ho hw hn hv hnew =>
    refine S1_of E hc C.kind C.cont (by rw [C.nid, hn]; exact Nat.le_refl _) (fun x hx => .inl (by rwa [C.obs, ho] at hx))
      ⟨_, by rw [C.hist, hh], ?_⟩ (fun e p h => .inl (by rwa [C.val, hv] at h)) ?_ ?_ ?_ ?_
    · intro ev hev id hid; simp at hev; subst hev
      rw [C.nid, hn]; exact hbi id (by simpa [HEv.ids, Instr.ids] using hid)
    · rcases hnew with rfl | ⟨k, rfl⟩ <;> simp [Instr.isSing, Instr.isRep]
    · rcases hnew with rfl | ⟨k, rfl⟩ <;> simp
    · apply endOk_append _ heok; rcases hnew with rfl | ⟨k, rfl⟩ <;> simp [Instr.isPubEnd]
    · rcases hnew with rfl | ⟨k, rfl⟩ <;> simp [Instr.ids]
  | putR a k c e p hh ho hw hn hv =>
    refine S1_of E hc C.kind C.cont (by rw [C.nid, hn]; exact Nat.le_refl _) (fun x hx => .inl (by rwa [C.obs, ho] at hx))
      ⟨_, by rw [C.hist, hh], ?_⟩ (fun e p h => .inl (by rwa [C.val, hv] at h)) (by simp [Instr.isSing, Instr.isRep])
      (by simp) (endOk_append (by simp [Instr.isPubEnd]) heok) (by simp [Instr.ids])
    intro ev hev id hid; simp at hev; subst hev
    rw [C.nid, hn]; exact hbi id (by simpa [HEv.ids, Instr.ids] using hid)
  | readD o v p0 hval hh ho hw hn hv =>
    have hp0 : p0 < s.nextId := E.bVal v p0 hval
    refine S1_of E hc C.kind C.cont (by rw [C.nid, hn]; exact Nat.le_succ _) (fun x hx => .inl (by rwa [C.obs, ho] at hx))
      ⟨_, by rw [C.hist, hh], ?_⟩ (fun e p h => .inl (by rwa [C.val, hv] at h)) ?_ ?_ ?_ ?_
    · intro ev hev id hid; rw [beginEvs_ids _ _ _ ev hev id hid, C.nid, hn]; exact Nat.lt_succ_self _
    · intro j hj; simp at hj
      rcases hj with rfl | hj | rfl
      · simp [Instr.isSing, Instr.isRep]
      · exact (deliverInstrs_sing _ _ _ j hj).1
      · simp [Instr.isSing, Instr.isRep]
    · intro j hj e; simp at hj
      rcases hj with rfl | hj | rfl
      · simp
      · exact (deliverInstrs_sing _ _ _ j hj).2.2.1 e
      · simp
    · apply endOk_append _ heok
      intro j hj; simp at hj
      rcases hj with rfl | hj | rfl
      · rfl
      · exact (deliverInstrs_sing _ _ _ j hj).2.1
      · rfl
    · intro j hj id hid; simp at hj
      rcases hj with rfl | hj | rfl
      · simp [Instr.ids] at hid
      · exact hdel ⟨o, s.nextId⟩ v p0 (by rw [C.nid, hn]; exact Nat.lt_succ_self _)
          (by rw [C.nid, hn]; exact Nat.lt_succ_of_lt hp0) j hj id hid
      · simp [Instr.ids] at hid; subst hid; rw [C.nid, hn]; exact Nat.lt_succ_self _
  | readP o hval hh ho hw hn hv =>
    refine S1_of E hc C.kind C.cont (by rw [C.nid, hn]; exact Nat.le_succ _) (fun x hx => .inl (by rwa [C.obs, ho] at hx))
      ⟨_, by rw [C.hist, hh], ?_⟩ (fun e p h => .inl (by rwa [C.val, hv] at h)) (by simp [Instr.isSing, Instr.isRep])
      (by simp) (endOk_append (by simp [Instr.isPubEnd]) heok) ?_
    · intro ev hev id hid; rw [beginEvs_ids _ _ _ ev hev id hid, C.nid, hn]; exact Nat.lt_succ_self _
    · intro j hj id hid; simp at hj
      rcases hj with rfl | rfl <;> (simp [Instr.ids] at hid; subst hid; rw [C.nid, hn]; exact Nat.lt_succ_self _)
  | pushR o c hh ho hw hn hv =>
    refine S1_of E hc C.kind C.cont (by rw [C.nid, hn]; exact Nat.le_refl _) ?_ ⟨[], by rw [C.hist, hh]; simp, by simp⟩
      (fun e p h => .inl (by rwa [C.val, hv] at h)) (by simp [Instr.isSing, Instr.isRep]) (by simp)
      (endOk_append (by simp [Instr.isPubEnd]) heok) (by simp [Instr.ids])
    intro x hx; rw [C.obs, ho] at hx
    rcases List.mem_append.1 hx with h | h
    · exact .inl h
    · simp at h; subst h; right; rw [C.nid, hn]; exact hbi c (by simp [Instr.ids])
  | writeF e hfree hval hh ho hw hn hv =>
    have hrest : rest = [] := by
      have := E.writeAlone t e (by rw [hc]; exact List.mem_cons_self)
      rw [hc] at this; injection this
    subst hrest
    refine S1_of E hc C.kind C.cont (by rw [C.nid, hn]; exact Nat.le_succ _) (fun x hx => .inl (by rwa [C.obs, ho] at hx))
      ⟨_, by rw [C.hist, hh], ?_⟩ ?_ (by simp [Instr.isSing, Instr.isRep]) (by simp) (by simp [endOk, Instr.isPubEnd]) ?_
    · intro ev hev id hid; simp at hev; subst hev; simp [HEv.ids] at hid; subst hid
      rw [C.nid, hn]; exact Nat.lt_succ_self _
    · intro e' p' h; rw [C.val, hv] at h; injection h with h; injection h with h1 h2
      right; rw [← h2, C.nid, hn]; exact Nat.lt_succ_self _
    · intro j hj id hid; simp at hj
      rcases hj with rfl | rfl | rfl <;> simp [Instr.ids] at hid <;> (subst hid; rw [C.nid, hn]; exact Nat.lt_succ_self _)
  | writeL e v hval hh ho hw hn hv =>
    have hrest : rest = [] := by
      have := E.writeAlone t e (by rw [hc]; exact List.mem_cons_self)
      rw [hc] at this; injection this
    subst hrest
    refine S1_of E hc C.kind C.cont (by rw [C.nid, hn]; exact Nat.le_succ _) (fun x hx => .inl (by rwa [C.obs, ho] at hx))
      ⟨_, by rw [C.hist, hh], ?_⟩ (fun e p h => .inl (by rwa [C.val, hv] at h)) (by simp [Instr.isSing, Instr.isRep])
      (by simp) (by simp [endOk, Instr.isPubEnd]) ?_
    · intro ev hev id hid; simp at hev; subst hev; simp [HEv.ids] at hid; subst hid
      rw [C.nid, hn]; exact Nat.lt_succ_self _
    · intro j hj id hid; simp at hj
      rcases hj with rfl | rfl <;> simp [Instr.ids] at hid
      subst hid; rw [C.nid, hn]; exact Nat.lt_succ_self _
  | snapS e p hh ho hw hn hv =>
    refine S1_of E hc C.kind C.cont (by rw [C.nid, hn]; exact Nat.le_refl _)
      (fun x hx => .inl (by rw [C.obs, ho] at hx; exact (List.mem_filter.1 hx).1))
      ⟨[], by rw [C.hist, hh]; simp, by simp⟩ (fun e p h => .inl (by rwa [C.val, hv] at h))
      (by simp [Instr.isSing, Instr.isRep]) (by simp) (endOk_append (by simp [Instr.isPubEnd]) heok) ?_
    intro j hj id hid; simp at hj; subst hj
    simp [Instr.ids] at hid
    rw [C.nid, hn]
    rcases hid with rfl | ⟨x, hx, rfl⟩
    · exact hbi _ (by simp [Instr.ids])
    · exact E.bObs x hx.1
  | rel snap e p hh ho hw hn hv =>
    refine S1_of E hc C.kind C.cont (by rw [C.nid, hn]; exact Nat.le_refl _) (fun x hx => .inl (by rwa [C.obs, ho] at hx))
      ⟨[], by rw [C.hist, hh]; simp, by simp⟩ (fun e p h => .inl (by rwa [C.val, hv] at h)) ?_ ?_ ?_ ?_
    · intro j hj
      rcases List.mem_append.1 hj with hj | hj
      · obtain ⟨x, _, hx⟩ := mem_flatMap_deliver hj; exact (deliverInstrs_sing x _ _ j hx).1
      · simp at hj; subst hj; simp [Instr.isSing, Instr.isRep]
    · intro j hj e'
      rcases List.mem_append.1 hj with hj | hj
      · obtain ⟨x, _, hx⟩ := mem_flatMap_deliver hj; exact (deliverInstrs_sing x _ _ j hx).2.2.1 e'
      · simp at hj; subst hj; simp
    · apply endOk_append _ heok
      intro j hj
      rcases List.mem_append.1 hj with hj | hj
      · obtain ⟨x, _, hx⟩ := mem_flatMap_deliver hj; exact (deliverInstrs_sing x _ _ j hx).2.1
      · simp at hj; subst hj; rfl
    · intro j hj id hid
      rw [C.nid, hn]
      apply hbi id
      rcases List.mem_append.1 hj with hj | hj
      · obtain ⟨x, hx, hjx⟩ := mem_flatMap_deliver hj
        rw [(deliverInstrs_sing x _ _ j hjx).2.2.2] at hid
        simp at hid
        rcases hid with rfl | rfl
        · simp [Instr.ids]; right; exact ⟨x, hx, rfl⟩
        · simp [Instr.ids]
      · simp at hj; subst hj; simp [Instr.ids] at hid ⊢; right; exact hid

end CG.Model.Rx

namespace CG.Model.Rx
open CG.Spec.EventSpec

theorem popMark_value (s : Sys) (t : Tid) (m : Instr) (k : List Instr) : (popMark s t m k).value = s.value := by
  cases m <;> simp [popMark, Sys.setCont_eq]

theorem S1_pop {s : Sys} {t : Tid} {m : Instr} {k : List Instr} (E : S1 s) (hc : (s.thr t).cont = m :: k)
    (hm : m.isMarker = true) (hr : m.isRep = true) : S1 (popMark s t m k) := by
  obtain ⟨evs, h1, h2, h3, h4, _⟩ := popMark_hist s t m k hm hr
  have hcont : ∀ u, ((popMark s t m k).thr u).cont = if u = t then [] ++ k else (s.thr u).cont := by
    intro u; by_cases h : u = t
    · subst h; simp [popMark_cont s u m k hm hr]
    · simp [popMark_thr_other s t u m k h, h]
  have heok : endOk k = true := endOk_tail (by have := E.eok t; rwa [hc] at this)
  refine S1_of (new := []) E hc (popMark_static s t m k).2.1 hcont (by rw [h3]; exact Nat.le_refl _)
    (fun x hx => .inl (by rwa [h4] at hx)) ⟨evs, h1, ?_⟩ (fun e p h => .inl (by rwa [popMark_value] at h))
    (by simp) (by simp) (by simpa using heok) (by simp)
  intro ev hev id hid
  rw [h3]; exact E.bCont t m (by simp [hc]) id (h2 ev hev id hid)

theorem opInstrs_sing (s : Sys) (t : Tid) (op : Op) (ha : s.algo = .repaired) (hk : s.kind = .single) :
    (∀ j ∈ opInstrs s t op, j.isSing = true ∧ j.isPubEnd = false ∧ j.pend = [] ∧ j.ids = []) ∧
    (∀ e, Instr.acqWrite e ∈ opInstrs s t op → opInstrs s t op = [Instr.acqWrite e]) := by
  cases op with
  | sub o =>
    by_cases ho : s.owner o = true <;>
      simp [opInstrs, ho, ha, hk, subInstrs, Instr.isSing, Instr.isRep, Instr.isPubEnd, Instr.pend, Instr.ids]
  | pub e => simp [opInstrs, ha, hk, pubInstrs, Instr.isSing, Instr.isRep, Instr.isPubEnd, Instr.pend, Instr.ids]
  | poll => simp [opInstrs, ha, hk, subInstrs, Instr.isSing, Instr.isRep, Instr.isPubEnd, Instr.pend, Instr.ids]
  | drop o => simp [opInstrs, Instr.isSing, Instr.isRep, Instr.isPubEnd, Instr.pend, Instr.ids]

theorem S1_expand {s : Sys} {t : Tid} (A : HA s) (E : S1 s) (hc : (s.thr t).cont = []) : S1 (expand s t) := by
  cases hp : (s.thr t).prog with
  | nil => rw [expand_nil s t hp]; exact E
  | cons op ops =>
    rw [expand_cons s t op ops hp]
    obtain ⟨hprops, hwr⟩ := opInstrs_sing s t op A.rep E.sing
    have hcont : ∀ u, ((s.setThr t
        { s.thr t with prog := ops, opIdx := (s.thr t).opIdx + 1, cont := opInstrs s t op }).thr u).cont =
        if u = t then opInstrs s t op else (s.thr u).cont := by
      intro u; simp [upd_apply]; split <;> simp
    refine ⟨E.sing, ?_, ?_, ?_, E.bObs, E.bHist, ?_, E.bVal⟩
    · intro u j hj; rw [hcont] at hj; split at hj
      · exact (hprops j hj).1
      · exact E.fam u j hj
    · intro u e hj; rw [hcont] at hj ⊢; split at hj
      · rename_i h; rw [if_pos h]; exact hwr e hj
      · rename_i h; rw [if_neg h]; exact E.writeAlone u e hj
    · intro u; rw [hcont]; split
      · exact endOk_of_no_pubEnd (fun j hj => (hprops j hj).2.1)
      · exact E.eok u
    · intro u j hj id hid; rw [hcont] at hj; split at hj
      · rw [(hprops j hj).2.2.2] at hid; cases hid
      · exact E.bCont u j hj id hid

theorem S1_spur {s s' : Sys} {t : Tid} (E : S1 s) (h : spur s t = some s') : S1 s' := by
  obtain ⟨a, k, rest, hc, rfl⟩ := spur_eq h
  have hcont : ∀ u, ((s.setThr t { s.thr t with woken := true }).thr u).cont = (s.thr u).cont := by
    intro u; simp [upd_apply]; split <;> simp_all
  exact ⟨E.sing, fun u => by rw [hcont]; exact E.fam u, fun u e => by rw [hcont]; exact E.writeAlone u e,
    fun u => by rw [hcont]; exact E.eok u, E.bObs, E.bHist, fun u => by rw [hcont]; exact E.bCont u, E.bVal⟩

end CG.Model.Rx
namespace CG.Model.Rx
open CG.Spec.EventSpec

/-- a thread whose next instruction lies inside `Single::subscribe`'s read-locked section holds the value
    read lock (the converse of `HL.vR`) -/
def HV (s : Sys) : Prop := ∀ t, (hd s t).any Instr.holdsVr = true → t ∈ s.lockV.readers

theorem head_any_false {P : Instr → Bool} {l rest : List Instr} (hall : ∀ j ∈ l, P j = false)
    (hrest : (rest.head?).any P = false) : ((l ++ rest).head?).any P = false := by
  cases l with
  | nil => simpa using hrest
  | cons x xs => simp [hall x List.mem_cons_self]

theorem not_holdsVr_of_not_headOnly {j : Instr} (h : j.headOnly = false) : j.holdsVr = false := by
  cases hh : j.holdsVr with
  | false => rfl
  | true => rw [headOnly_of_holdsVr hh] at h; cases h

theorem HV_exec {s s' : Sys} {t : Tid} {i : Instr} {rest : List Instr} (A : HA s) (L : HL s) (H : HV s) (ht : t < s.n)
    (hc : (s.thr t).cont = i :: rest) (h : exec s t i rest = some s') : HV s' := by
  obtain ⟨s1, new, he, rfl⟩ := exec_eq h
  have hi : i.isRep = true := A.fam t i (by simp [hc])
  have hdt : hd s t = some i := by simp [hd, hc]
  have hrest : (rest.head?).any Instr.holdsVr = false := by
    cases hr : rest.head? with
    | none => rfl
    | some j =>
      have : j.headOnly = false := A.tf t j (by simp [hc]; exact List.mem_of_mem_head? hr)
      cases hh : j.holdsVr with
      | false => simp [hh]
      | true => rw [headOnly_of_holdsVr hh] at this; cases this
  have hhd : ∀ u, hd s1 u = hd s u := fun u => by unfold hd; rw [(execE_thr he u).1]
  have hold := H t; rw [hdt] at hold
  have hvW := L.vW t
  intro u hu
  rw [hd_setCont] at hu
  by_cases hut : u = t
  · subst hut
    rw [if_pos rfl] at hu
    cases i <;> simp [Instr.isRep] at hi <;> simp only [execE] at he
    all_goals ((try split at he) <;> (try split at he) <;> (try simp at he))
    all_goals (try (obtain ⟨rfl, rfl⟩ := he))
    all_goals try (first
      | (simp [hrest, Instr.holdsVr] at hu; done)
      | (simp [Sys.setCont_eq, RW.lockR]; done)
      | (simp [Sys.setCont_eq]; refine hold ?_; simp [Instr.holdsVr]; done)
      | (exfalso; revert hu; simp [Instr.holdsVr]; done))
    · exfalso
      rw [A.rep] at hu
      rw [head_any_false (fun j hj => not_holdsVr_of_not_headOnly (subInstrs_props _ _ j hj).2.1) hrest] at hu
      cases hu
    · exfalso
      rw [head_any_false (P := Instr.holdsVr) ?_ hrest] at hu
      · cases hu
      · intro j hj
        rcases List.mem_append.1 hj with hj | hj
        · obtain ⟨x, _, hx⟩ := mem_flatMap_deliver hj
          exact not_holdsVr_of_not_headOnly (deliverInstrs_props x _ _ j hx).2.1
        · simp at hj; subst hj; rfl
  · rw [if_neg hut, hhd] at hu
    have hmem := H u hu
    cases i <;> simp [Instr.isRep] at hi <;> simp only [execE] at he
    all_goals ((try split at he) <;> (try split at he) <;> (try simp at he))
    all_goals (try (obtain ⟨rfl, rfl⟩ := he))
    all_goals first
      | (simpa [Sys.setCont_eq] using hmem)
      | (simp [Sys.setCont_eq, RW.lockR]; exact .inr hmem)
      | (simp [Sys.setCont_eq, RW.lockW]; exact hmem)
      | (simp only [Sys.setCont_eq, Sys.setThr_lockV, RW.unlock]
         split
         · exact hmem
         · exact (List.mem_erase_of_ne hut).2 hmem)
      | (split <;> simpa [Sys.setCont_eq] using hmem)

end CG.Model.Rx

namespace CG.Model.Rx
open CG.Spec.EventSpec

theorem HV_rehead {s s' : Sys} {t : Tid} (H : HV s) (hV : s'.lockV = s.lockV) (hthr : ∀ u, u ≠ t → s'.thr u = s.thr u)
    (hnew : ∀ j, hd s' t = some j → j.headOnly = false) : HV s' := by
  intro u hu
  rw [hV]
  by_cases hut : u = t
  · subst hut
    obtain ⟨j, hj, hp⟩ := any_elim hu
    have := hnew j hj; rw [headOnly_of_holdsVr hp] at this; cases this
  · have : hd s' u = hd s u := by unfold hd; rw [hthr u hut]
    rw [this] at hu; exact H u hu

theorem HV_pop {s : Sys} {t : Tid} {m : Instr} {k : List Instr} (A : HA s) (H : HV s) (hc : (s.thr t).cont = m :: k)
    (hm : m.isMarker = true) (hr : m.isRep = true) : HV (popMark s t m k) := by
  refine HV_rehead H (popMark_frame s t m k).2.1 (fun u hu => popMark_thr_other s t u m k hu) ?_
  intro j hj
  simp only [hd, popMark_cont s t m k hm hr] at hj
  exact A.tf t j (by simp [hc]; exact List.mem_of_mem_head? hj)

theorem HV_expand {s : Sys} {t : Tid} (A : HA s) (H : HV s) (hc : (s.thr t).cont = []) : HV (expand s t) := by
  cases hp : (s.thr t).prog with
  | nil => rw [expand_nil s t hp]; exact H
  | cons op ops =>
    rw [expand_cons s t op ops hp]
    refine HV_rehead (t := t) H rfl (fun u hu => by simp [upd_apply, hu]) ?_
    intro j hj
    simp [hd] at hj
    exact (opInstrs_props s t op A.rep j (List.mem_of_mem_head? hj)).2.1

theorem HV_spur {s s' : Sys} {t : Tid} (H : HV s) (h : spur s t = some s') : HV s' := by
  obtain ⟨a, k, rest, hc, rfl⟩ := spur_eq h
  intro u hu
  have : hd (s.setThr t { s.thr t with woken := true }) u = hd s u := by
    unfold hd; simp [upd_apply]; split <;> simp_all
  rw [this] at hu; exact H u hu

theorem HV_init0 (a : Algo) (kd : Kind) (behs : List Beh) (progs : List (List Op)) : HV (init0 a kd behs progs) := by
  intro u hu; simp [hd, init0] at hu

end CG.Model.Rx
namespace CG.Model.Rx
open CG.Spec.EventSpec

/-- the event is a delivery for subscription `c` (any publication) -/
def HEv.isDelC (c : Nat) : HEv → Bool
  | .deliver _ _ c' _ _ => c' == c
  | _ => false

def Instr.isAcqSnapS : Instr → Bool
  | .acqSnapS _ _ => true
  | _ => false

def Instr.isAcqPushR : Instr → Bool
  | .acqPushR _ _ => true
  | _ => false

/-- the emission's snapshot has been taken: the value is set and no `acqSnapS` is outstanding -/
def snapTaken (s : Sys) : Prop := s.value ≠ none ∧ ∀ t, ∀ j ∈ (s.thr t).cont, j.isAcqSnapS = false

/-- an `exec` step of a single-shot instruction appends no end-of-call event -/
theorem TrS.hist_ext' {s s1 : Sys} {t : Tid} {i : Instr} {new : List Instr} (h : TrS s t i s1 new) :
    ∃ evs, s1.hist = s.hist ++ evs ∧ ∀ ev ∈ evs, ev.isEnd = false := by
  cases h with
  | quiet _ hh =>
    rcases hh with hh | hh
    · exact ⟨[], by simp [hh], by simp⟩
    · exact ⟨_, hh, by simp [HEv.isEnd]⟩
  | dropO _ hh => exact ⟨_, hh, by simp [HEv.isEnd]⟩
  | deliver _ _ _ _ hh => exact ⟨_, hh, by simp [HEv.isEnd]⟩
  | putR _ _ _ _ _ hh => exact ⟨_, hh, by simp [HEv.isEnd]⟩
  | readD _ _ _ _ hh => exact ⟨_, hh, beginEvs_noEnd _ _ _⟩
  | readP _ _ hh => exact ⟨_, hh, beginEvs_noEnd _ _ _⟩
  | pushR _ _ hh => exact ⟨[], by simp [hh], by simp⟩
  | writeF _ _ _ hh => exact ⟨_, hh, by simp [HEv.isEnd]⟩
  | writeL _ _ _ hh => exact ⟨_, hh, by simp [HEv.isEnd]⟩
  | snapS _ _ hh => exact ⟨[], by simp [hh], by simp⟩
  | rel _ _ _ hh => exact ⟨[], by simp [hh], by simp⟩

theorem contPend_deliverInstrs (x : Entry) (e p : Nat) : contPend (deliverInstrs x e p) = [(x.ob, x.c, e, p)] := by
  cases x with | mk ob c => cases ob <;> simp [deliverInstrs, contPend, Instr.pend]

/-- the deliveries owed by what `exec` puts at the head: owed by the instruction executed (`relSnap`), the
    direct service of a late subscriber, or the emission's snapshot -/
theorem TrS.new_pend {s s1 : Sys} {t : Tid} {i : Instr} {new : List Instr} (h : TrS s t i s1 new)
    {ob : Ob} {c e p : Nat} (hm : (ob, c, e, p) ∈ contPend new) :
    (ob, c, e, p) ∈ i.pend ∨
    (i = .acqRead ob ∧ c = s.nextId ∧ s.value = some (e, p)) ∨
    (i = .acqSnapS e p ∧ (⟨ob, c⟩ : Entry) ∈ s.observers ∧ physAlive s ob = true) := by
  cases h with
  | quiet _ _ _ _ _ _ hnew => rw [contPend_bland (fun j hj => (hnew j hj).1)] at hm; cases hm
  | dropO => cases hm
  | deliver _ _ _ _ _ _ _ _ _ hnew => rcases hnew with rfl | ⟨k, rfl⟩ <;> simp [contPend, Instr.pend] at hm
  | putR => simp [contPend, Instr.pend] at hm
  | readD o v p0 hval =>
    right; left
    rw [contPend_append, contPend_cons, contPend_deliverInstrs] at hm
    simp [Instr.pend, contPend] at hm
    obtain ⟨rfl, rfl, rfl, rfl⟩ := hm
    exact ⟨rfl, rfl, hval⟩
  | readP => simp [contPend, Instr.pend] at hm
  | pushR => simp [contPend, Instr.pend] at hm
  | writeF => simp [contPend, Instr.pend] at hm
  | writeL => simp [contPend, Instr.pend] at hm
  | snapS e' p' =>
    right; right
    simp [contPend, Instr.pend] at hm
    obtain ⟨x, ⟨hx1, hx2⟩, rfl, rfl, rfl, rfl⟩ := hm
    exact ⟨rfl, hx1, hx2⟩
  | rel snap e' p' =>
    left
    rw [contPend_append, contPend_flatMap_deliver] at hm
    simpa [contPend, Instr.pend] using hm

end CG.Model.Rx
namespace CG.Model.Rx
open CG.Spec.EventSpec

/-- the three safety clauses of `SingleOnce` -/
structure SingleSafe (h : Hist) : Prop where
  oneValue : ∀ (m t : Nat) (o : Ob) (c e p : Nat), h[m]? = some (HEv.deliver t o c e p) →
    ∃ (i t₀ : Nat), i < m ∧ FirstPub h i t₀ e p
  atMostOnce : ∀ (m₁ m₂ t₁ t₂ : Nat) (o : Ob) (c e₁ e₂ p₁ p₂ : Nat), h[m₁]? = some (HEv.deliver t₁ o c e₁ p₁) →
    h[m₂]? = some (HEv.deliver t₂ o c e₂ p₂) → m₁ = m₂
  subscribed : ∀ (m t : Nat) (o : Ob) (c e p : Nat), h[m]? = some (HEv.deliver t o c e p) →
    ∃ (k t' : Nat), k < m ∧ h[k]? = some (HEv.subBegin t' o c)

theorem firstPub_snoc {h : Hist} {ev : HEv} {i t e p : Nat} (hf : FirstPub h i t e p) : FirstPub (h ++ [ev]) i t e p := by
  refine ⟨getElem?_snoc_old hf.1, ?_⟩
  intro i' t' e' p' hi'
  have hil := lt_of_getElem?_some hf.1
  rw [getElem?_append_lt h [ev] i' (by omega)]
  exact hf.2 i' t' e' p' hi'

theorem singleSafe_nil : SingleSafe [] := by
  constructor <;> intros <;> simp_all

theorem singleSafe_snoc_other {h : Hist} (H : SingleSafe h) (ev : HEv)
    (hd : ∀ t o c e p, ev ≠ HEv.deliver t o c e p) : SingleSafe (h ++ [ev]) := by
  constructor
  · intro m t o c e p hm
    rcases getElem?_snoc hm with g | ⟨_, g⟩
    · obtain ⟨i, t₀, h1, h2⟩ := H.oneValue m t o c e p g
      exact ⟨i, t₀, h1, firstPub_snoc h2⟩
    · exact absurd g.symm (hd _ _ _ _ _)
  · intro m₁ m₂ t₁ t₂ o c e₁ e₂ p₁ p₂ h1 h2
    rcases getElem?_snoc h1 with g1 | ⟨_, g1⟩
    · rcases getElem?_snoc h2 with g2 | ⟨_, g2⟩
      · exact H.atMostOnce m₁ m₂ t₁ t₂ o c e₁ e₂ p₁ p₂ g1 g2
      · exact absurd g2.symm (hd _ _ _ _ _)
    · exact absurd g1.symm (hd _ _ _ _ _)
  · intro m t o c e p hm
    rcases getElem?_snoc hm with g | ⟨_, g⟩
    · obtain ⟨k, t', h1, h2⟩ := H.subscribed m t o c e p g
      exact ⟨k, t', h1, getElem?_snoc_old h2⟩
    · exact absurd g.symm (hd _ _ _ _ _)

theorem singleSafe_snoc_deliver {h : Hist} (H : SingleSafe h) (t : Nat) (o : Ob) (c e p : Nat)
    (hfresh : ∀ ev ∈ h, ev.isDelC c = false)
    (hsub : ∃ (k t' : Nat), h[k]? = some (HEv.subBegin t' o c))
    (hfirst : ∃ (i t₀ : Nat), FirstPub h i t₀ e p) : SingleSafe (h ++ [HEv.deliver t o c e p]) := by
  constructor
  · intro m t' o' c' e' p' hm
    rcases getElem?_snoc hm with g | ⟨hml, g⟩
    · obtain ⟨i, t₀, h1, h2⟩ := H.oneValue m t' o' c' e' p' g
      exact ⟨i, t₀, h1, firstPub_snoc h2⟩
    · injection g with _ _ _ he hp; subst he hp hml
      obtain ⟨i, t₀, hf⟩ := hfirst
      exact ⟨i, t₀, lt_of_getElem?_some hf.1, firstPub_snoc hf⟩
  · intro m₁ m₂ t₁ t₂ o' c' e₁ e₂ p₁ p₂ h1 h2
    rcases getElem?_snoc h1 with g1 | ⟨hm1, g1⟩
    · rcases getElem?_snoc h2 with g2 | ⟨hm2, g2⟩
      · exact H.atMostOnce m₁ m₂ t₁ t₂ o' c' e₁ e₂ p₁ p₂ g1 g2
      · injection g2 with _ _ hc _ _; subst hc
        have := hfresh _ (List.mem_of_getElem? g1); simp [HEv.isDelC] at this
    · rcases getElem?_snoc h2 with g2 | ⟨hm2, g2⟩
      · injection g1 with _ _ hc _ _; subst hc
        have := hfresh _ (List.mem_of_getElem? g2); simp [HEv.isDelC] at this
      · rw [hm1, hm2]
  · intro m t' o' c' e' p' hm
    rcases getElem?_snoc hm with g | ⟨hml, g⟩
    · obtain ⟨k, t'', h1, h2⟩ := H.subscribed m t' o' c' e' p' g
      exact ⟨k, t'', h1, getElem?_snoc_old h2⟩
    · injection g with _ ho hc _ _; subst ho hc hml
      obtain ⟨k, t'', hk⟩ := hsub
      exact ⟨k, t'', lt_of_getElem?_some hk, getElem?_snoc_old hk⟩

theorem singleSafe_append_other {h : Hist} (H : SingleSafe h) (evs : Hist)
    (hd : ∀ ev ∈ evs, ∀ t o c e p, ev ≠ HEv.deliver t o c e p) : SingleSafe (h ++ evs) := by
  induction evs generalizing h with
  | nil => simpa using H
  | cons x xs ih =>
    have : h ++ x :: xs = (h ++ [x]) ++ xs := by simp
    rw [this]
    exact ih (singleSafe_snoc_other H x (hd x List.mem_cons_self)) (fun ev hev => hd ev (List.mem_cons_of_mem _ hev))

end CG.Model.Rx
namespace CG.Model.Rx
open CG.Spec.EventSpec

/-- Part 5, safety invariant (single-shot subject, repaired algorithm) -/
structure OA (s : Sys) : Prop where
  valFirst : ∀ e p, s.value = some (e, p) → ∃ (i t : Nat), FirstPub s.hist i t e p
  valNone : s.value = none → ∀ ev ∈ s.hist, ev.isPubBegin = false
  pendVal : ∀ t ob c e p, (ob, c, e, p) ∈ contPend (s.thr t).cont → s.value = some (e, p)
  snapVal : ∀ t e p, Instr.acqSnapS e p ∈ (s.thr t).cont → s.value = some (e, p)
  snapUniq : ∀ t t' e p e' p', Instr.acqSnapS e p ∈ (s.thr t).cont → Instr.acqSnapS e' p' ∈ (s.thr t').cont → t = t'
  snapOnce : ∀ t, ((s.thr t).cont.filter Instr.isAcqSnapS).length ≤ 1
  subOf : ∀ x ∈ s.observers, ∃ t', HEv.subBegin t' x.ob x.c ∈ s.hist
  pendSub : ∀ t ob c e p, (ob, c, e, p) ∈ contPend (s.thr t).cont → ∃ t', HEv.subBegin t' ob c ∈ s.hist
  pushSub : ∀ t o c, Instr.acqPushR o c ∈ (s.thr t).cont → HEv.subBegin t o c ∈ s.hist
  subUniq : ∀ (i i' t t' : Nat) (o o' : Ob) (c : Nat), s.hist[i]? = some (HEv.subBegin t o c) →
    s.hist[i']? = some (HEv.subBegin t' o' c) → i = i' ∧ t = t' ∧ o = o'
  obsNodup : (s.observers.map (·.c)).Nodup
  pendNodup : ∀ t, ((contPend (s.thr t).cont).map (fun x => x.2.1)).Nodup
  pendCross : ∀ u u' x y, x ∈ contPend (s.thr u).cont → y ∈ contPend (s.thr u').cont → x.2.1 = y.2.1 → u = u'
  pendFresh : ∀ t x, x ∈ contPend (s.thr t).cont → ∀ ev ∈ s.hist, ev.isDelC x.2.1 = false
  pushFresh : ∀ t o c, Instr.acqPushR o c ∈ (s.thr t).cont →
    (∀ x ∈ s.observers, x.c ≠ c) ∧ (∀ u, ∀ x ∈ contPend (s.thr u).cont, x.2.1 ≠ c) ∧ (∀ ev ∈ s.hist, ev.isDelC c = false)
  noPush : s.value ≠ none → ∀ t, ∀ j ∈ (s.thr t).cont, j.isAcqPushR = false
  obsFresh : ¬ snapTaken s → ∀ x ∈ s.observers,
    (∀ u, ∀ y ∈ contPend (s.thr u).cont, y.2.1 ≠ x.c) ∧ (∀ ev ∈ s.hist, ev.isDelC x.c = false)
  safe : SingleSafe s.hist

theorem firstPub_append {h evs : Hist} {i t e p : Nat} (hf : FirstPub h i t e p) : FirstPub (h ++ evs) i t e p := by
  refine ⟨getElem?_append_old hf.1, ?_⟩
  intro i' t' e' p' hi'
  have hil := lt_of_getElem?_some hf.1
  rw [getElem?_append_lt h evs i' (by omega)]
  exact hf.2 i' t' e' p' hi'

/-- what `exec` puts at the head contains `acqSnapS` only for the emission, `acqPushR` only for a
    subscription that found no value -/
theorem TrS.new_special {s s1 : Sys} {t : Tid} {i : Instr} {new : List Instr} (h : TrS s t i s1 new) :
    (∀ e p, Instr.acqSnapS e p ∈ new → i = .acqWrite e ∧ p = s.nextId ∧ s.value = none ∧
        new = [.relWrite, .acqSnapS e s.nextId, .mPubEnd e s.nextId]) ∧
    (∀ o c, Instr.acqPushR o c ∈ new → i = .acqRead o ∧ c = s.nextId ∧ s.value = none) := by
  have hdel : ∀ (x : Entry) (e p : Nat) (j : Instr), j ∈ deliverInstrs x e p → j.isAcqSnapS = false ∧ j.isAcqPushR = false := by
    intro x e p j hj; cases x with | mk ob c => cases ob <;> simp [deliverInstrs] at hj <;> subst hj <;> exact ⟨rfl, rfl⟩
  cases h with
  | quiet _ _ _ _ _ _ hnew =>
    constructor
    · intro e p hm; have := (hnew _ hm).1.2.2.2; simp [Instr.ids] at this
    · intro o c hm; have := (hnew _ hm).1.2.2.2; simp [Instr.ids] at this
  | dropO => exact ⟨fun _ _ hm => by simp at hm, fun _ _ hm => by simp at hm⟩
  | deliver _ _ _ _ _ _ _ _ _ hnew =>
    rcases hnew with rfl | ⟨k, rfl⟩ <;> exact ⟨fun _ _ hm => by simp at hm, fun _ _ hm => by simp at hm⟩
  | putR => exact ⟨fun _ _ hm => by simp at hm, fun _ _ hm => by simp at hm⟩
  | readD o v p0 =>
    constructor
    · intro e p hm; simp at hm; have := (hdel _ _ _ _ hm).1; simp [Instr.isAcqSnapS] at this
    · intro o' c hm; simp at hm; have := (hdel _ _ _ _ hm).2; simp [Instr.isAcqPushR] at this
  | readP o hval =>
    constructor
    · intro e p hm; simp at hm
    · intro o' c hm; simp at hm; obtain ⟨rfl, rfl⟩ := hm; exact ⟨rfl, rfl, hval⟩
  | pushR => exact ⟨fun _ _ hm => by simp at hm, fun _ _ hm => by simp at hm⟩
  | writeF e _ hval =>
    constructor
    · intro e' p hm; simp at hm; obtain ⟨rfl, rfl⟩ := hm; exact ⟨rfl, rfl, hval, rfl⟩
    · intro o c hm; simp at hm
  | writeL => exact ⟨fun _ _ hm => by simp at hm, fun _ _ hm => by simp at hm⟩
  | snapS => exact ⟨fun _ _ hm => by simp at hm, fun _ _ hm => by simp at hm⟩
  | rel snap e' p' =>
    constructor
    · intro e p hm
      rcases List.mem_append.1 hm with hm | hm
      · obtain ⟨x, _, hx⟩ := mem_flatMap_deliver hm; have := (hdel _ _ _ _ hx).1; simp [Instr.isAcqSnapS] at this
      · simp at hm
    · intro o c hm
      rcases List.mem_append.1 hm with hm | hm
      · obtain ⟨x, _, hx⟩ := mem_flatMap_deliver hm; have := (hdel _ _ _ _ hx).2; simp [Instr.isAcqPushR] at this
      · simp at hm

/-- how the value slot and the history change together -/
theorem TrS.value_cases {s s1 : Sys} {t : Tid} {i : Instr} {new : List Instr} (h : TrS s t i s1 new) :
    (s1.value = s.value ∧ (s.value = none → ∃ evs, s1.hist = s.hist ++ evs ∧ ∀ ev ∈ evs, ev.isPubBegin = false)) ∨
    (∃ e, i = .acqWrite e ∧ s.value = none ∧ s1.value = some (e, s.nextId) ∧ s.lockV.free = true ∧
      s1.hist = s.hist ++ [HEv.pubBegin t e s.nextId]) := by
  cases h with
  | quiet _ hh _ _ _ hv =>
    left; refine ⟨hv, fun _ => ?_⟩
    rcases hh with hh | hh
    · exact ⟨[], by simp [hh], by simp⟩
    · exact ⟨_, hh, by simp [HEv.isPubBegin]⟩
  | dropO _ hh _ _ _ hv => exact .inl ⟨hv, fun _ => ⟨_, hh, by simp [HEv.isPubBegin]⟩⟩
  | deliver _ _ _ _ hh _ _ _ hv => exact .inl ⟨hv, fun _ => ⟨_, hh, by simp [HEv.isPubBegin]⟩⟩
  | putR _ _ _ _ _ hh _ _ _ hv => exact .inl ⟨hv, fun _ => ⟨_, hh, by simp [HEv.isPubBegin]⟩⟩
  | readD _ _ _ _ hh _ _ _ hv => exact .inl ⟨hv, fun _ => ⟨_, hh, beginEvs_noPubBegin _ _ _⟩⟩
  | readP _ _ hh _ _ _ hv => exact .inl ⟨hv, fun _ => ⟨_, hh, beginEvs_noPubBegin _ _ _⟩⟩
  | pushR _ _ hh _ _ _ hv => exact .inl ⟨hv, fun _ => ⟨[], by simp [hh], by simp⟩⟩
  | writeF e hfree hval hh _ _ _ hv => exact .inr ⟨e, rfl, hval, hv, hfree, hh⟩
  | writeL e v hval hh _ _ _ hv => exact .inl ⟨hv, fun h => by rw [hval] at h; cases h⟩
  | snapS _ _ hh _ _ _ hv => exact .inl ⟨hv, fun _ => ⟨[], by simp [hh], by simp⟩⟩
  | rel _ _ _ hh _ _ _ hv => exact .inl ⟨hv, fun _ => ⟨[], by simp [hh], by simp⟩⟩

end CG.Model.Rx
namespace CG.Model.Rx
open CG.Spec.EventSpec

theorem oa_value {s s' s1 : Sys} {t : Tid} {i : Instr} {rest new : List Instr} (E : S1 s) (O : OA s)
    (C : ExecCtxS s s' t i rest new s1) :
    (∀ e p, s'.value = some (e, p) → ∃ (i t : Nat), FirstPub s'.hist i t e p) ∧
    (s'.value = none → ∀ ev ∈ s'.hist, ev.isPubBegin = false) ∧
    (∀ u ob c e p, (ob, c, e, p) ∈ contPend (s'.thr u).cont → s'.value = some (e, p)) ∧
    (∀ u e p, Instr.acqSnapS e p ∈ (s'.thr u).cont → s'.value = some (e, p)) := by
  obtain ⟨evs, hevs, _⟩ := C.tr.hist_ext'
  -- obligations and pending snapshots of the pre-state, expressed on the post-state's continuations
  have hpendOld : ∀ u ob c e p, (ob, c, e, p) ∈ contPend (s'.thr u).cont →
      (ob, c, e, p) ∈ contPend (s.thr u).cont ∨ (u = t ∧ (ob, c, e, p) ∈ contPend new) := by
    intro u ob c e p hm
    rw [C.cont] at hm; split at hm
    · rename_i hut; subst hut
      rw [contPend_append] at hm
      rcases List.mem_append.1 hm with hm | hm
      · exact .inr ⟨rfl, hm⟩
      · exact .inl (pend_of_rest C.hc hm)
    · exact .inl hm
  have hsnapOld : ∀ u e p, Instr.acqSnapS e p ∈ (s'.thr u).cont →
      Instr.acqSnapS e p ∈ (s.thr u).cont ∨ (u = t ∧ Instr.acqSnapS e p ∈ new) := by
    intro u e p hm
    rw [C.cont] at hm; split at hm
    · rename_i hut; subst hut
      rcases List.mem_append.1 hm with hm | hm
      · exact .inr ⟨rfl, hm⟩
      · exact .inl (mem_cont_of_rest C.hc hm)
    · exact .inl hm
  rcases C.tr.value_cases with ⟨hv, hnone⟩ | ⟨e₀, hi, hval, hv, _, hh⟩
  · -- the value slot is unchanged
    refine ⟨?_, ?_, ?_, ?_⟩
    · intro e p h
      rw [C.val, hv] at h
      obtain ⟨i, t₀, hf⟩ := O.valFirst e p h
      exact ⟨i, t₀, by rw [C.hist, hevs]; exact firstPub_append hf⟩
    · intro h ev hev
      rw [C.val, hv] at h
      obtain ⟨evs', he', hno⟩ := hnone h
      rw [C.hist, he'] at hev
      rcases List.mem_append.1 hev with g | g
      · exact O.valNone h ev g
      · exact hno ev g
    · intro u ob c e p hm
      rw [C.val, hv]
      rcases hpendOld u ob c e p hm with g | ⟨_, g⟩
      · exact O.pendVal u ob c e p g
      · rcases C.tr.new_pend g with g | ⟨_, _, g⟩ | ⟨g, _, _⟩
        · exact O.pendVal t ob c e p (pend_of_head C.hc g)
        · exact g
        · exact O.snapVal t e p (by rw [C.hc, g]; exact List.mem_cons_self)
    · intro u e p hm
      rw [C.val, hv]
      rcases hsnapOld u e p hm with g | ⟨_, g⟩
      · exact O.snapVal u e p g
      · obtain ⟨rfl, _, g3, _⟩ := (C.tr.new_special).1 e p g
        -- an `acqWrite` that finds no value changes the slot: contradiction with `hv`
        exfalso
        cases C.tr with
        | quiet _ _ _ _ _ _ hnew => have := (hnew _ g).1.2.2.2; simp [Instr.ids] at this
        | writeF _ _ _ _ _ _ _ hv' => rw [hv', g3] at hv; cases hv
        | writeL _ v hval' => rw [g3] at hval'; cases hval'
  · -- the emission: the slot is filled, the publication is the first of the history
    have hnoPub := O.valNone hval
    refine ⟨?_, ?_, ?_, ?_⟩
    · intro e p h
      rw [C.val, hv] at h; injection h with h; injection h with h1 h2; subst h1 h2
      refine ⟨s.hist.length, t, ?_, ?_⟩
      · rw [C.hist, hh]; simp
      · intro i' t' e' p' hi' hget
        rw [C.hist, hh, getElem?_append_lt _ _ _ hi'] at hget
        have := hnoPub _ (List.mem_of_getElem? hget); simp [HEv.isPubBegin] at this
    · intro h; rw [C.val, hv] at h; cases h
    · intro u ob c e p hm
      exfalso
      rcases hpendOld u ob c e p hm with g | ⟨_, g⟩
      · have := O.pendVal u ob c e p g; rw [hval] at this; cases this
      · rcases C.tr.new_pend g with g | ⟨g, _, _⟩ | ⟨g, _, _⟩
        · subst hi; simp [Instr.pend] at g
        · rw [hi] at g; cases g
        · rw [hi] at g; cases g
    · intro u e p hm
      rcases hsnapOld u e p hm with g | ⟨_, g⟩
      · have := O.snapVal u e p g; rw [hval] at this; cases this
      · obtain ⟨g1, g2, _, _⟩ := (C.tr.new_special).1 e p g
        rw [hi] at g1; injection g1 with g1; subst g1 g2
        rw [C.val, hv]

end CG.Model.Rx
namespace CG.Model.Rx
open CG.Spec.EventSpec

def HEv.isSubBegin : HEv → Bool
  | .subBegin _ _ _ => true
  | _ => false

theorem subUniq_append {h evs : Hist}
    (hold : ∀ (i i' t t' : Nat) (o o' : Ob) (c : Nat), h[i]? = some (HEv.subBegin t o c) →
      h[i']? = some (HEv.subBegin t' o' c) → i = i' ∧ t = t' ∧ o = o')
    (hno : ∀ ev ∈ evs, ev.isSubBegin = false) :
    ∀ (i i' t t' : Nat) (o o' : Ob) (c : Nat), (h ++ evs)[i]? = some (HEv.subBegin t o c) →
      (h ++ evs)[i']? = some (HEv.subBegin t' o' c) → i = i' ∧ t = t' ∧ o = o' := by
  intro i i' t t' o o' c h1 h2
  by_cases hi : i < h.length
  · by_cases hi' : i' < h.length
    · rw [getElem?_append_lt h evs i hi] at h1; rw [getElem?_append_lt h evs i' hi'] at h2
      exact hold i i' t t' o o' c h1 h2
    · have := hno _ (getElem?_append_ge_mem h2 (Nat.le_of_not_lt hi')); simp [HEv.isSubBegin] at this
  · have := hno _ (getElem?_append_ge_mem h1 (Nat.le_of_not_lt hi)); simp [HEv.isSubBegin] at this

theorem subUniq_snoc {h : Hist} {t₀ : Nat} {o₀ : Ob} {c₀ : Nat}
    (hold : ∀ (i i' t t' : Nat) (o o' : Ob) (c : Nat), h[i]? = some (HEv.subBegin t o c) →
      h[i']? = some (HEv.subBegin t' o' c) → i = i' ∧ t = t' ∧ o = o')
    (hfresh : ∀ ev ∈ h, c₀ ∉ ev.ids) :
    ∀ (i i' t t' : Nat) (o o' : Ob) (c : Nat), (h ++ [HEv.subBegin t₀ o₀ c₀])[i]? = some (HEv.subBegin t o c) →
      (h ++ [HEv.subBegin t₀ o₀ c₀])[i']? = some (HEv.subBegin t' o' c) → i = i' ∧ t = t' ∧ o = o' := by
  intro i i' t t' o o' c h1 h2
  rcases getElem?_snoc h1 with g1 | ⟨hi, g1⟩
  · rcases getElem?_snoc h2 with g2 | ⟨hi', g2⟩
    · exact hold i i' t t' o o' c g1 g2
    · injection g2 with _ _ hc; subst hc
      exact absurd (by simp [HEv.ids]) (hfresh _ (List.mem_of_getElem? g1))
  · rcases getElem?_snoc h2 with g2 | ⟨hi', g2⟩
    · injection g1 with _ _ hc; subst hc
      exact absurd (by simp [HEv.ids]) (hfresh _ (List.mem_of_getElem? g2))
    · injection g1 with ht ho _; injection g2 with ht' ho' _
      exact ⟨by rw [hi, hi'], by rw [ht, ht'], by rw [ho, ho']⟩

theorem subUniq_beginEvs {h : Hist} (t₀ : Nat) (o₀ : Ob) (c₀ : Nat)
    (hold : ∀ (i i' t t' : Nat) (o o' : Ob) (c : Nat), h[i]? = some (HEv.subBegin t o c) →
      h[i']? = some (HEv.subBegin t' o' c) → i = i' ∧ t = t' ∧ o = o')
    (hfresh : ∀ ev ∈ h, c₀ ∉ ev.ids) :
    ∀ (i i' t t' : Nat) (o o' : Ob) (c : Nat), (h ++ beginEvs t₀ o₀ c₀)[i]? = some (HEv.subBegin t o c) →
      (h ++ beginEvs t₀ o₀ c₀)[i']? = some (HEv.subBegin t' o' c) → i = i' ∧ t = t' ∧ o = o' := by
  cases o₀ with
  | user u => exact subUniq_snoc hold hfresh
  | poller a k =>
    have : beginEvs t₀ (Ob.poller a k) c₀ = [HEv.pollBegin t₀ k] ++ [HEv.subBegin t₀ (Ob.poller a k) c₀] := rfl
    rw [this, ← List.append_assoc]
    refine subUniq_snoc (subUniq_append hold (by simp [HEv.isSubBegin])) ?_
    intro ev hev
    rcases List.mem_append.1 hev with g | g
    · exact hfresh ev g
    · simp at g; subst g; simp [HEv.ids]

theorem oa_subUniq {s s' s1 : Sys} {t : Tid} {i : Instr} {rest new : List Instr} (E : S1 s) (O : OA s)
    (C : ExecCtxS s s' t i rest new s1) :
    ∀ (i i' t t' : Nat) (o o' : Ob) (c : Nat), s'.hist[i]? = some (HEv.subBegin t o c) →
      s'.hist[i']? = some (HEv.subBegin t' o' c) → i = i' ∧ t = t' ∧ o = o' := by
  rw [C.hist]
  have hfresh : ∀ ev ∈ s.hist, s.nextId ∉ ev.ids := fun ev hev hin => Nat.lt_irrefl _ (E.bHist ev hev _ hin)
  cases C.tr with
  | quiet _ hh =>
    rcases hh with hh | hh
    · rw [hh]; exact O.subUniq
    · rw [hh]; exact subUniq_append O.subUniq (by simp [HEv.isSubBegin])
  | dropO _ hh => rw [hh]; exact subUniq_append O.subUniq (by simp [HEv.isSubBegin])
  | deliver _ _ _ _ hh => rw [hh]; exact subUniq_append O.subUniq (by simp [HEv.isSubBegin])
  | putR _ _ _ _ _ hh => rw [hh]; exact subUniq_append O.subUniq (by simp [HEv.isSubBegin])
  | readD _ _ _ _ hh => rw [hh]; exact subUniq_beginEvs _ _ _ O.subUniq hfresh
  | readP _ _ hh => rw [hh]; exact subUniq_beginEvs _ _ _ O.subUniq hfresh
  | pushR _ _ hh => rw [hh]; exact O.subUniq
  | writeF _ _ _ hh => rw [hh]; exact subUniq_append O.subUniq (by simp [HEv.isSubBegin])
  | writeL _ _ _ hh => rw [hh]; exact subUniq_append O.subUniq (by simp [HEv.isSubBegin])
  | snapS _ _ hh => rw [hh]; exact O.subUniq
  | rel _ _ _ hh => rw [hh]; exact O.subUniq

end CG.Model.Rx

namespace CG.Model.Rx
open CG.Spec.EventSpec

theorem oa_snap {s s' s1 : Sys} {t : Tid} {i : Instr} {rest new : List Instr} (E : S1 s) (O : OA s)
    (C : ExecCtxS s s' t i rest new s1) :
    (∀ u u' e p e' p', Instr.acqSnapS e p ∈ (s'.thr u).cont → Instr.acqSnapS e' p' ∈ (s'.thr u').cont → u = u') ∧
    (∀ u, ((s'.thr u).cont.filter Instr.isAcqSnapS).length ≤ 1) := by
  have hsnapOld : ∀ u e p, Instr.acqSnapS e p ∈ (s'.thr u).cont →
      Instr.acqSnapS e p ∈ (s.thr u).cont ∨ (u = t ∧ Instr.acqSnapS e p ∈ new) := by
    intro u e p hm
    rw [C.cont] at hm; split at hm
    · rename_i hut; subst hut
      rcases List.mem_append.1 hm with hm | hm
      · exact .inr ⟨rfl, hm⟩
      · exact .inl (mem_cont_of_rest C.hc hm)
    · exact .inl hm
  constructor
  · intro u u' e p e' p' h1 h2
    rcases hsnapOld u e p h1 with g1 | ⟨rfl, g1⟩
    · rcases hsnapOld u' e' p' h2 with g2 | ⟨rfl, g2⟩
      · exact O.snapUniq u u' e p e' p' g1 g2
      · have := O.snapVal u e p g1; rw [((C.tr.new_special).1 e' p' g2).2.2.1] at this; cases this
    · rcases hsnapOld u' e' p' h2 with g2 | ⟨rfl, _⟩
      · have := O.snapVal u' e' p' g2; rw [((C.tr.new_special).1 e p g1).2.2.1] at this; cases this
      · rfl
  · intro u
    rw [C.cont]; split
    · rename_i hut; subst hut
      rw [List.filter_append, List.length_append]
      by_cases hex : ∃ e p, Instr.acqSnapS e p ∈ new
      · obtain ⟨e, p, hm⟩ := hex
        obtain ⟨rfl, _, _, hnew⟩ := (C.tr.new_special).1 e p hm
        have hrest : rest = [] := by
          have := E.writeAlone u e (by rw [C.hc]; exact List.mem_cons_self)
          rw [C.hc] at this; injection this
        subst hrest hnew
        simp [List.filter, Instr.isAcqSnapS]
      · have : new.filter Instr.isAcqSnapS = [] := by
          apply List.filter_eq_nil_iff.2
          intro j hj hjs
          cases j <;> simp [Instr.isAcqSnapS] at hjs
          exact hex ⟨_, _, hj⟩
        rw [this]
        have hold := O.snapOnce u
        rw [C.hc, List.filter_cons] at hold
        simp only [List.length_nil, Nat.zero_add]
        split at hold
        · simp at hold
          have : rest.filter Instr.isAcqSnapS = [] := List.filter_eq_nil_iff.2 (fun a ha => by simp [hold a ha])
          rw [this]; exact Nat.zero_le _
        · exact hold
    · exact O.snapOnce u

theorem oa_members {s s' s1 : Sys} {t : Tid} {i : Instr} {rest new : List Instr} (O : OA s)
    (C : ExecCtxS s s' t i rest new s1) :
    (∀ x ∈ s'.observers, ∃ t', HEv.subBegin t' x.ob x.c ∈ s'.hist) ∧
    (∀ u ob c e p, (ob, c, e, p) ∈ contPend (s'.thr u).cont → ∃ t', HEv.subBegin t' ob c ∈ s'.hist) ∧
    (∀ u o c, Instr.acqPushR o c ∈ (s'.thr u).cont → HEv.subBegin u o c ∈ s'.hist) := by
  obtain ⟨evs, hevs, _⟩ := C.tr.hist_ext'
  have mono : ∀ ev, ev ∈ s.hist → ev ∈ s'.hist := fun ev h => by rw [C.hist, hevs]; exact List.mem_append_left _ h
  have hsubOf : ∀ x ∈ s.observers, ∃ t', HEv.subBegin t' x.ob x.c ∈ s'.hist := fun x hx => by
    obtain ⟨t', h⟩ := O.subOf x hx; exact ⟨t', mono _ h⟩
  refine ⟨?_, ?_, ?_⟩
  · intro x hx
    rw [C.obs] at hx
    cases C.tr with
    | quiet _ _ ho => rw [ho] at hx; exact hsubOf x hx
    | dropO _ _ ho => rw [ho] at hx; exact hsubOf x hx
    | deliver _ _ _ _ _ ho => rw [ho] at hx; exact hsubOf x hx
    | putR _ _ _ _ _ _ ho => rw [ho] at hx; exact hsubOf x hx
    | readD _ _ _ _ _ ho => rw [ho] at hx; exact hsubOf x hx
    | readP _ _ _ ho => rw [ho] at hx; exact hsubOf x hx
    | pushR o c _ ho =>
      rw [ho] at hx
      rcases List.mem_append.1 hx with hx | hx
      · exact hsubOf x hx
      · simp at hx; subst hx
        exact ⟨t, mono _ (O.pushSub t o c (by rw [C.hc]; exact List.mem_cons_self))⟩
    | writeF _ _ _ _ ho => rw [ho] at hx; exact hsubOf x hx
    | writeL _ _ _ _ ho => rw [ho] at hx; exact hsubOf x hx
    | snapS _ _ _ ho => rw [ho] at hx; exact hsubOf x (List.mem_filter.1 hx).1
    | rel _ _ _ _ ho => rw [ho] at hx; exact hsubOf x hx
  · intro u ob c e p hm
    rw [C.cont] at hm; split at hm
    · rename_i hut; subst hut
      rw [contPend_append] at hm
      rcases List.mem_append.1 hm with hm | hm
      · rcases C.tr.new_pend hm with h | ⟨h1, h2, _⟩ | ⟨_, hx, _⟩
        · obtain ⟨t', h⟩ := O.pendSub u ob c e p (pend_of_head C.hc h); exact ⟨t', mono _ h⟩
        · subst h1 h2
          cases C.tr with
          | quiet _ _ _ _ _ _ hnew => rw [contPend_bland (fun j hj => (hnew j hj).1)] at hm; cases hm
          | readD _ _ _ _ hh => exact ⟨u, by rw [C.hist, hh]; exact List.mem_append_right _ (beginEvs_mem _ _ _)⟩
          | readP _ _ hh => exact ⟨u, by rw [C.hist, hh]; exact List.mem_append_right _ (beginEvs_mem _ _ _)⟩
        · exact hsubOf ⟨ob, c⟩ hx
      · obtain ⟨t', h⟩ := O.pendSub u ob c e p (pend_of_rest C.hc hm); exact ⟨t', mono _ h⟩
    · obtain ⟨t', h⟩ := O.pendSub u ob c e p hm; exact ⟨t', mono _ h⟩
  · intro u o c hm
    rw [C.cont] at hm; split at hm
    · rename_i hut; subst hut
      rcases List.mem_append.1 hm with hm | hm
      · obtain ⟨rfl, rfl, _⟩ := (C.tr.new_special).2 o c hm
        cases C.tr with
        | quiet _ _ _ _ _ _ hnew => have := (hnew _ hm).1.2.2.2; simp [Instr.ids] at this
        | readD _ _ _ _ hh => rw [C.hist, hh]; exact List.mem_append_right _ (beginEvs_mem _ _ _)
        | readP _ _ hh => rw [C.hist, hh]; exact List.mem_append_right _ (beginEvs_mem _ _ _)
      · exact mono _ (O.pushSub u o c (mem_cont_of_rest C.hc hm))
    · exact mono _ (O.pushSub u o c hm)

end CG.Model.Rx
namespace CG.Model.Rx
open CG.Spec.EventSpec

theorem pend_ids {j : Instr} {x : Ob × Nat × Nat × Nat} (h : x ∈ j.pend) : x.2.1 ∈ j.ids ∧ x.2.2.2 ∈ j.ids := by
  cases j <;> simp [Instr.pend] at h
  · subst h; simp [Instr.ids]
  · obtain ⟨y, hy, rfl⟩ := h; simp [Instr.ids]; exact .inr ⟨y, hy, rfl⟩
  · subst h; simp [Instr.ids]

theorem pend_c_lt {s : Sys} (E : S1 s) {u : Tid} {x : Ob × Nat × Nat × Nat} (h : x ∈ contPend (s.thr u).cont) :
    x.2.1 < s.nextId := by
  simp only [contPend, List.mem_flatMap] at h
  obtain ⟨j, hj, hx⟩ := h
  exact E.bCont u j hj _ (pend_ids hx).1

theorem isDelC_ids {ev : HEv} {c : Nat} (h : ev.isDelC c = true) : c ∈ ev.ids := by
  cases ev <;> simp [HEv.isDelC] at h
  simp [HEv.ids, h]

theorem beginEvs_noDelC (t : Tid) (o : Ob) (c c' : Nat) : ∀ ev ∈ beginEvs t o c, ev.isDelC c' = false := by
  intro ev hev; cases o <;> simp [beginEvs] at hev
  · subst hev; rfl
  · rcases hev with rfl | rfl <;> rfl

/-- an outstanding `acqPushR` is the head of its continuation -/
theorem pushR_at_head {s : Sys} (A : HA s) {u : Tid} {o : Ob} {c : Nat} (h : Instr.acqPushR o c ∈ (s.thr u).cont) :
    hd s u = some (.acqPushR o c) := by
  cases hc : (s.thr u).cont with
  | nil => rw [hc] at h; cases h
  | cons j r =>
    rw [hc] at h
    rcases List.mem_cons.1 h with g | g
    · simp [hd, hc, g]
    · have := A.tf u _ (by rw [hc]; exact g); simp [Instr.headOnly] at this

theorem oa_obsNodup {s s' s1 : Sys} {t : Tid} {i : Instr} {rest new : List Instr} (O : OA s)
    (C : ExecCtxS s s' t i rest new s1) : (s'.observers.map (·.c)).Nodup := by
  rw [C.obs]
  cases C.tr with
  | quiet _ _ ho => rw [ho]; exact O.obsNodup
  | dropO _ _ ho => rw [ho]; exact O.obsNodup
  | deliver _ _ _ _ _ ho => rw [ho]; exact O.obsNodup
  | putR _ _ _ _ _ _ ho => rw [ho]; exact O.obsNodup
  | readD _ _ _ _ _ ho => rw [ho]; exact O.obsNodup
  | readP _ _ _ ho => rw [ho]; exact O.obsNodup
  | pushR o c _ ho =>
    rw [ho, List.map_append, List.nodup_append]
    refine ⟨O.obsNodup, by simp, ?_⟩
    intro a ha b hb hab
    simp at hb; subst hb
    obtain ⟨x, hx, rfl⟩ := List.mem_map.1 ha
    exact (O.pushFresh t o _ (by rw [C.hc]; exact List.mem_cons_self)).1 x hx hab
  | writeF _ _ _ _ ho => rw [ho]; exact O.obsNodup
  | writeL _ _ _ _ ho => rw [ho]; exact O.obsNodup
  | snapS _ _ _ ho => rw [ho]; exact O.obsNodup.sublist ((List.filter_sublist).map _)
  | rel _ _ _ _ ho => rw [ho]; exact O.obsNodup

theorem oa_noPush {s s' s1 : Sys} {t : Tid} {i : Instr} {rest new : List Instr} (A : HA s) (H : HV s)
    (O : OA s) (C : ExecCtxS s s' t i rest new s1) :
    s'.value ≠ none → ∀ u, ∀ j ∈ (s'.thr u).cont, j.isAcqPushR = false := by
  intro hv u j hj
  cases hp : j.isAcqPushR with
  | false => rfl
  | true =>
    exfalso
    obtain ⟨o, c, rfl⟩ : ∃ o c, j = .acqPushR o c := by cases j <;> simp [Instr.isAcqPushR] at hp; exact ⟨_, _, rfl⟩
    rcases C.tr.value_cases with ⟨hval, _⟩ | ⟨e₀, hi, hval, _, hfree, _⟩
    · rw [C.val, hval] at hv
      rw [C.cont] at hj; split at hj
      · rcases List.mem_append.1 hj with g | g
        · exact hv ((C.tr.new_special).2 o c g).2.2
        · have := O.noPush hv t _ (mem_cont_of_rest C.hc g); simp [Instr.isAcqPushR] at this
      · have := O.noPush hv u _ hj; simp [Instr.isAcqPushR] at this
    · -- the emission took the value lock exclusively: nobody is inside a read-locked section
      have hnone : ∀ w, Instr.acqPushR o c ∈ (s.thr w).cont → False := by
        intro w hw
        have := H w (hd_some_any (pushR_at_head A hw) (by simp [Instr.holdsVr]))
        simp [RW.free] at hfree
        rw [hfree.2] at this; cases this
      rw [C.cont] at hj; split at hj
      · rcases List.mem_append.1 hj with g | g
        · have := ((C.tr.new_special).2 o c g).1; rw [hi] at this; cases this
        · exact hnone t (mem_cont_of_rest C.hc g)
      · exact hnone u hj

end CG.Model.Rx
namespace CG.Model.Rx
open CG.Spec.EventSpec

/-- where an obligation of the post-state comes from -/
theorem pendSrc {s s' s1 : Sys} {t : Tid} {i : Instr} {rest new : List Instr} (C : ExecCtxS s s' t i rest new s1)
    {u : Tid} {x : Ob × Nat × Nat × Nat} (hm : x ∈ contPend (s'.thr u).cont) :
    x ∈ contPend (s.thr u).cont ∨
    (u = t ∧ i = .acqRead x.1 ∧ x.2.1 = s.nextId ∧ s.value = some (x.2.2.1, x.2.2.2)) ∨
    (u = t ∧ i = .acqSnapS x.2.2.1 x.2.2.2 ∧ (⟨x.1, x.2.1⟩ : Entry) ∈ s.observers) := by
  obtain ⟨ob, c, e, p⟩ := x
  rw [C.cont] at hm; split at hm
  · rename_i hut; subst hut
    rw [contPend_append] at hm
    rcases List.mem_append.1 hm with hm | hm
    · rcases C.tr.new_pend hm with h | ⟨h1, h2, h3⟩ | ⟨h1, h2, _⟩
      · exact .inl (pend_of_head C.hc h)
      · exact .inr (.inl ⟨rfl, h1, h2, h3⟩)
      · exact .inr (.inr ⟨rfl, h1, h2⟩)
    · exact .inl (pend_of_rest C.hc hm)
  · exact .inl hm

/-- while an `acqSnapS` is outstanding the snapshot has not been taken -/
theorem not_snapTaken_of_snap {s : Sys} {t : Tid} {e p : Nat} (h : Instr.acqSnapS e p ∈ (s.thr t).cont) :
    ¬ snapTaken s := by
  intro hs; have := hs.2 t _ h; simp [Instr.isAcqSnapS] at this

theorem oa_pendNodup {s s' s1 : Sys} {t : Tid} {i : Instr} {rest new : List Instr} (E : S1 s) (O : OA s)
    (C : ExecCtxS s s' t i rest new s1) :
    ∀ u, ((contPend (s'.thr u).cont).map (fun x => x.2.1)).Nodup := by
  intro u
  rw [C.cont]
  split
  · rename_i hut; subst hut
    have hold := O.pendNodup u
    rw [C.hc, contPend_cons, List.map_append] at hold
    rw [contPend_append, List.map_append]
    cases C.tr with
    | quiet hi _ _ _ _ _ hnew =>
      rw [contPend_bland (fun j hj => (hnew j hj).1)]; rw [hi.1.1] at hold; simpa using hold
    | dropO => simpa [contPend, Instr.pend] using hold
    | deliver _ _ _ _ _ _ _ _ _ hnew =>
      have : contPend new = [] := by rcases hnew with rfl | ⟨k, rfl⟩ <;> simp [contPend, Instr.pend]
      rw [this]; simp only [List.map_nil, List.nil_append]
      exact (List.nodup_append.1 hold).2.1
    | putR =>
      simp only [contPend, Instr.pend, List.flatMap_cons, List.flatMap_nil, List.append_nil, List.map_nil, List.nil_append]
      exact (List.nodup_append.1 hold).2.1
    | readD o v p0 =>
      simp only [Instr.pend, List.map_nil, List.nil_append] at hold
      rw [contPend_append, contPend_cons, contPend_deliverInstrs]
      simp only [Instr.pend, contPend, List.flatMap_cons, List.flatMap_nil, List.nil_append, List.append_nil,
        List.map_cons, List.map_nil, List.cons_append]
      refine List.nodup_cons.2 ⟨?_, hold⟩
      intro hin
      obtain ⟨x, hx, hxc⟩ := List.mem_map.1 hin
      have := pend_c_lt E (pend_of_rest C.hc hx)
      rw [hxc] at this; exact Nat.lt_irrefl _ this
    | readP => simpa [contPend, Instr.pend] using hold
    | pushR => simpa [contPend, Instr.pend] using hold
    | writeF => simpa [contPend, Instr.pend] using hold
    | writeL => simpa [contPend, Instr.pend] using hold
    | snapS e p =>
      simp only [Instr.pend, List.map_nil, List.nil_append] at hold
      have hns : ¬ snapTaken s := not_snapTaken_of_snap (t := u) (e := e) (p := p) (by rw [C.hc]; exact List.mem_cons_self)
      simp only [contPend, Instr.pend, List.flatMap_cons, List.flatMap_nil, List.append_nil, List.map_map,
        List.map_append, List.nil_append]
      refine List.nodup_append.2 ⟨O.obsNodup.sublist ((List.filter_sublist).map _), hold, ?_⟩
      intro a ha b hb hab
      obtain ⟨x, hx, rfl⟩ := List.mem_map.1 ha
      obtain ⟨y, hy, rfl⟩ := List.mem_map.1 hb
      exact (O.obsFresh hns x (List.mem_filter.1 hx).1).1 u y (pend_of_rest C.hc hy) hab.symm
    | rel snap e p =>
      rw [contPend_append, contPend_flatMap_deliver]
      simpa [contPend, Instr.pend] using hold
  · exact O.pendNodup u

theorem oa_pendCross {s s' s1 : Sys} {t : Tid} {i : Instr} {rest new : List Instr} (E : S1 s) (O : OA s)
    (C : ExecCtxS s s' t i rest new s1) :
    ∀ u u' x y, x ∈ contPend (s'.thr u).cont → y ∈ contPend (s'.thr u').cont → x.2.1 = y.2.1 → u = u' := by
  intro u u' x y hx hy hxy
  -- a fresh or snapshot obligation of `t` cannot meet an old obligation of another thread
  have key : ∀ (w w' : Tid) (a b : Ob × Nat × Nat × Nat), a ∈ contPend (s'.thr w).cont → b ∈ contPend (s.thr w').cont →
      a.2.1 = b.2.1 →
      ((w = t ∧ i = .acqRead a.1 ∧ a.2.1 = s.nextId ∧ s.value = some (a.2.2.1, a.2.2.2)) ∨
       (w = t ∧ i = .acqSnapS a.2.2.1 a.2.2.2 ∧ (⟨a.1, a.2.1⟩ : Entry) ∈ s.observers)) → False := by
    intro w w' a b _ hb hab hsrc
    rcases hsrc with ⟨_, _, h3, _⟩ | ⟨h1, h2, h3⟩
    · have := pend_c_lt E hb; rw [← hab, h3] at this; exact Nat.lt_irrefl _ this
    · have hns : ¬ snapTaken s := not_snapTaken_of_snap (t := t) (by rw [C.hc, h2]; exact List.mem_cons_self)
      exact (O.obsFresh hns _ h3).1 w' b hb hab.symm
  rcases pendSrc C hx with gx | gx
  · rcases pendSrc C hy with gy | gy
    · exact O.pendCross u u' x y gx gy hxy
    · exact (key u' u y x hy gx hxy.symm gy).elim
  · rcases pendSrc C hy with gy | gy
    · exact (key u u' x y hx gy hxy gx).elim
    · rcases gx with ⟨h, _⟩ | ⟨h, _⟩ <;> rcases gy with ⟨h', _⟩ | ⟨h', _⟩ <;> rw [h, h']

end CG.Model.Rx
namespace CG.Model.Rx
open CG.Spec.EventSpec

/-- the events appended by an `exec` step: either none of them is a delivery, or it is exactly the delivery
    owed by the instruction executed -/
theorem TrS.evs_del {s s1 : Sys} {t : Tid} {i : Instr} {new : List Instr} (h : TrS s t i s1 new) :
    ∃ evs, s1.hist = s.hist ++ evs ∧
      ((∀ ev ∈ evs, ∀ c, ev.isDelC c = false) ∨
       (∃ ob c e p, evs = [HEv.deliver t ob c e p] ∧ (ob, c, e, p) ∈ i.pend ∧ contPend new = [])) := by
  cases h with
  | quiet _ hh =>
    rcases hh with hh | hh
    · exact ⟨[], by simp [hh], .inl (by simp)⟩
    · exact ⟨_, hh, .inl (by simp [HEv.isDelC])⟩
  | dropO _ hh => exact ⟨_, hh, .inl (by simp [HEv.isDelC])⟩
  | deliver o c e p hh _ _ _ _ hnew =>
    refine ⟨_, hh, .inr ⟨_, _, _, _, rfl, by simp [Instr.pend], ?_⟩⟩
    rcases hnew with rfl | ⟨k, rfl⟩ <;> simp [contPend, Instr.pend]
  | putR a k c e p hh => exact ⟨_, hh, .inr ⟨_, _, _, _, rfl, by simp [Instr.pend], by simp [contPend, Instr.pend]⟩⟩
  | readD _ _ _ _ hh => exact ⟨_, hh, .inl (fun ev hev c => beginEvs_noDelC _ _ _ c ev hev)⟩
  | readP _ _ hh => exact ⟨_, hh, .inl (fun ev hev c => beginEvs_noDelC _ _ _ c ev hev)⟩
  | pushR _ _ hh => exact ⟨[], by simp [hh], .inl (by simp)⟩
  | writeF _ _ _ hh => exact ⟨_, hh, .inl (by simp [HEv.isDelC])⟩
  | writeL _ _ _ hh => exact ⟨_, hh, .inl (by simp [HEv.isDelC])⟩
  | snapS _ _ hh => exact ⟨[], by simp [hh], .inl (by simp)⟩
  | rel _ _ _ hh => exact ⟨[], by simp [hh], .inl (by simp)⟩

theorem oa_pendFresh {s s' s1 : Sys} {t : Tid} {i : Instr} {rest new : List Instr} (E : S1 s) (O : OA s)
    (C : ExecCtxS s s' t i rest new s1) :
    ∀ u x, x ∈ contPend (s'.thr u).cont → ∀ ev ∈ s'.hist, ev.isDelC x.2.1 = false := by
  intro u x hx ev hev
  obtain ⟨evs, hevs, hkind⟩ := C.tr.evs_del
  rw [C.hist, hevs] at hev
  cases hdel : ev.isDelC x.2.1 with
  | false => rfl
  | true =>
    exfalso
    rcases List.mem_append.1 hev with hold | hnew
    · -- an old event
      rcases pendSrc C hx with g | ⟨_, _, g, _⟩ | ⟨_, g1, g2⟩
      · have := O.pendFresh u x g ev hold; rw [hdel] at this; cases this
      · have := E.bHist ev hold _ (isDelC_ids hdel); rw [g] at this; exact Nat.lt_irrefl _ this
      · have hns : ¬ snapTaken s := not_snapTaken_of_snap (t := t) (by rw [C.hc, g1]; exact List.mem_cons_self)
        have := (O.obsFresh hns _ g2).2 ev hold; rw [hdel] at this; cases this
    · -- the event of this very step
      rcases hkind with hno | ⟨ob, c, e, p, rfl, hp, hnp⟩
      · have := hno ev hnew x.2.1; rw [hdel] at this; cases this
      · simp at hnew; subst hnew
        simp [HEv.isDelC] at hdel
        have hhead : (ob, c, e, p) ∈ contPend (s.thr t).cont := pend_of_head C.hc hp
        -- the obligation `x` is an old one of some thread; it has the same subscription as the head's
        have hxold : x ∈ contPend (s.thr u).cont := by
          rcases pendSrc C hx with g | ⟨_, g, _, _⟩ | ⟨_, g, _⟩
          · exact g
          · rw [g] at hp; simp [Instr.pend] at hp
          · rw [g] at hp; simp [Instr.pend] at hp
        have hut : u = t := O.pendCross u t x (ob, c, e, p) hxold hhead hdel.symm
        subst hut
        -- … and lies in `rest`, contradicting the uniqueness within the thread
        rw [C.cont, if_pos rfl, contPend_append, hnp] at hx
        simp only [List.nil_append] at hx
        have hnd := O.pendNodup u
        rw [C.hc, contPend_cons, List.map_append] at hnd
        have := (List.nodup_append.1 hnd).2.2 c (List.mem_map.2 ⟨_, hp, rfl⟩) x.2.1 (List.mem_map.2 ⟨x, hx, rfl⟩)
        exact this hdel

end CG.Model.Rx

namespace CG.Model.Rx
open CG.Spec.EventSpec

theorem oa_pushFresh {s s' s1 : Sys} {t : Tid} {i : Instr} {rest new : List Instr} (A : HA s) (E : S1 s) (O : OA s)
    (C : ExecCtxS s s' t i rest new s1) :
    ∀ u o c, Instr.acqPushR o c ∈ (s'.thr u).cont →
      (∀ x ∈ s'.observers, x.c ≠ c) ∧ (∀ w, ∀ x ∈ contPend (s'.thr w).cont, x.2.1 ≠ c) ∧
      (∀ ev ∈ s'.hist, ev.isDelC c = false) := by
  intro u o c hm
  obtain ⟨evs, hevs, hkind⟩ := C.tr.evs_del
  -- is this `acqPushR` new (a subscription that just found no value) or old?
  have hsrc : (Instr.acqPushR o c ∈ (s.thr u).cont ∧ (u = t → Instr.acqPushR o c ∈ rest)) ∨
      (u = t ∧ i = .acqRead o ∧ c = s.nextId) := by
    rw [C.cont] at hm; split at hm
    · rename_i hut; subst hut
      rcases List.mem_append.1 hm with g | g
      · obtain ⟨g1, g2, _⟩ := (C.tr.new_special).2 o c g; exact .inr ⟨rfl, g1, g2⟩
      · exact .inl ⟨mem_cont_of_rest C.hc g, fun _ => g⟩
    · rename_i hut; exact .inl ⟨hm, fun h => absurd h hut⟩
  rcases hsrc with ⟨hold, hrest⟩ | ⟨rfl, hi, rfl⟩
  · -- an old one: it sits at the head of another thread's continuation
    have hut : u ≠ t := by
      intro h
      have := A.tf t _ (by rw [C.hc]; exact hrest h); simp [Instr.headOnly] at this
    obtain ⟨f1, f2, f3⟩ := O.pushFresh u o c hold
    have hclt : c < s.nextId := E.bCont u _ hold c (by simp [Instr.ids])
    refine ⟨?_, ?_, ?_⟩
    · intro x hx
      rw [C.obs] at hx
      cases C.tr with
      | quiet _ _ ho => rw [ho] at hx; exact f1 x hx
      | dropO _ _ ho => rw [ho] at hx; exact f1 x hx
      | deliver _ _ _ _ _ ho => rw [ho] at hx; exact f1 x hx
      | putR _ _ _ _ _ _ ho => rw [ho] at hx; exact f1 x hx
      | readD _ _ _ _ _ ho => rw [ho] at hx; exact f1 x hx
      | readP _ _ _ ho => rw [ho] at hx; exact f1 x hx
      | pushR o' c' _ ho =>
        rw [ho] at hx
        rcases List.mem_append.1 hx with g | g
        · exact f1 x g
        · simp at g; subst g
          intro hcc; simp at hcc; subst hcc
          -- two threads pushing the same subscription id: impossible, the id names one `subscribe` call
          have h1 := O.pushSub u o c' hold
          have h2 := O.pushSub t o' c' (by rw [C.hc]; exact List.mem_cons_self)
          obtain ⟨i1, hi1⟩ := List.mem_iff_getElem?.1 h1
          obtain ⟨i2, hi2⟩ := List.mem_iff_getElem?.1 h2
          exact hut (O.subUniq i1 i2 u t o o' c' hi1 hi2).2.1
      | writeF _ _ _ _ ho => rw [ho] at hx; exact f1 x hx
      | writeL _ _ _ _ ho => rw [ho] at hx; exact f1 x hx
      | snapS _ _ _ ho => rw [ho] at hx; exact f1 x (List.mem_filter.1 hx).1
      | rel _ _ _ _ ho => rw [ho] at hx; exact f1 x hx
    · intro w x hx
      rcases pendSrc C hx with g | ⟨_, _, g, _⟩ | ⟨_, _, g⟩
      · exact f2 w x g
      · rw [g]; exact Nat.ne_of_gt hclt
      · exact f1 _ g
    · intro ev hev
      rw [C.hist, hevs] at hev
      rcases List.mem_append.1 hev with g | g
      · exact f3 ev g
      · rcases hkind with hno | ⟨ob, c', e, p, rfl, hp, _⟩
        · exact hno ev g c
        · simp at g; subst g
          have := f2 t _ (pend_of_head C.hc hp)
          simp [HEv.isDelC]; exact this
  · -- a new one: its identifier is fresh, and the subscription found no value
    have hmnew : Instr.acqPushR o s.nextId ∈ new := by
      rw [C.cont, if_pos rfl] at hm
      rcases List.mem_append.1 hm with g | g
      · exact g
      · have := A.tf u _ (by rw [C.hc]; exact g); simp [Instr.headOnly] at this
    have hvnone : s.value = none := ((C.tr.new_special).2 o _ hmnew).2.2
    have hobs : s'.observers = s.observers := by
      rw [C.obs]; subst hi; cases C.tr with
      | quiet _ _ ho => exact ho
      | readD _ _ _ _ _ ho => exact ho
      | readP _ _ _ ho => exact ho
    refine ⟨?_, ?_, ?_⟩
    · intro x hx; rw [hobs] at hx; exact Nat.ne_of_lt (E.bObs x hx)
    · intro w x hx
      rcases pendSrc C hx with g | ⟨_, _, _, g⟩ | ⟨_, g1, _⟩
      · exact Nat.ne_of_lt (pend_c_lt E g)
      · rw [hvnone] at g; cases g
      · rw [hi] at g1; cases g1
    · intro ev hev
      rw [C.hist, hevs] at hev
      cases hd : ev.isDelC s.nextId with
      | false => rfl
      | true =>
        exfalso
        rcases List.mem_append.1 hev with g | g
        · exact Nat.lt_irrefl _ (E.bHist ev g _ (isDelC_ids hd))
        · rcases hkind with hno | ⟨ob, c', e, p, _, hp, _⟩
          · have := hno ev g s.nextId; rw [hd] at this; cases this
          · rw [hi] at hp; simp [Instr.pend] at hp

end CG.Model.Rx

namespace CG.Model.Rx
open CG.Spec.EventSpec

/-- once taken, the snapshot stays taken -/
theorem snapTaken_mono {s s' s1 : Sys} {t : Tid} {i : Instr} {rest new : List Instr} (O : OA s)
    (C : ExecCtxS s s' t i rest new s1) (h : snapTaken s) : snapTaken s' := by
  obtain ⟨hv, hno⟩ := h
  have hval : s'.value = s.value := by
    rcases C.tr.value_cases with ⟨g, _⟩ | ⟨_, _, g, _⟩
    · rw [C.val, g]
    · exact absurd g hv
  refine ⟨by rw [hval]; exact hv, ?_⟩
  intro u j hj
  cases hs : j.isAcqSnapS with
  | false => rfl
  | true =>
    exfalso
    obtain ⟨e, p, rfl⟩ : ∃ e p, j = .acqSnapS e p := by cases j <;> simp [Instr.isAcqSnapS] at hs; exact ⟨_, _, rfl⟩
    rw [C.cont] at hj; split at hj
    · rcases List.mem_append.1 hj with g | g
      · exact hv ((C.tr.new_special).1 e p g).2.2.1
      · have := hno t _ (mem_cont_of_rest C.hc g); simp [Instr.isAcqSnapS] at this
    · have := hno u _ hj; simp [Instr.isAcqSnapS] at this

theorem oa_obsFresh {s s' s1 : Sys} {t : Tid} {i : Instr} {rest new : List Instr} (E : S1 s) (O : OA s)
    (C : ExecCtxS s s' t i rest new s1) :
    ¬ snapTaken s' → ∀ x ∈ s'.observers,
      (∀ u, ∀ y ∈ contPend (s'.thr u).cont, y.2.1 ≠ x.c) ∧ (∀ ev ∈ s'.hist, ev.isDelC x.c = false) := by
  intro hns' x hx
  have hns : ¬ snapTaken s := fun h => hns' (snapTaken_mono O C h)
  obtain ⟨evs, hevs, hkind⟩ := C.tr.evs_del
  -- the head instruction is not `acqSnapS` (after which the snapshot would count as taken)
  have hnotsnap : ∀ e p, i ≠ .acqSnapS e p := by
    intro e p hi
    apply hns'
    have hval := O.snapVal t e p (by rw [C.hc, hi]; exact List.mem_cons_self)
    have hv' : s'.value = s.value := by
      rcases C.tr.value_cases with ⟨g, _⟩ | ⟨_, _, g, _⟩
      · rw [C.val, g]
      · rw [hval] at g; cases g
    refine ⟨by rw [hv', hval]; simp, ?_⟩
    intro u j hj
    cases hs : j.isAcqSnapS with
    | false => rfl
    | true =>
      exfalso
      obtain ⟨e', p', rfl⟩ : ∃ e p, j = .acqSnapS e p := by cases j <;> simp [Instr.isAcqSnapS] at hs; exact ⟨_, _, rfl⟩
      rw [C.cont] at hj; split at hj
      · rcases List.mem_append.1 hj with g | g
        · have := ((C.tr.new_special).1 e' p' g).2.2.1; rw [hval] at this; cases this
        · -- a second `acqSnapS` in the same continuation
          have hone := O.snapOnce t
          rw [C.hc, hi, List.filter_cons] at hone
          simp only [Instr.isAcqSnapS, if_true, List.length_cons] at hone
          have : (rest.filter Instr.isAcqSnapS).length = 0 := by omega
          have hnil := List.length_eq_zero_iff.1 this
          have : Instr.acqSnapS e' p' ∈ rest.filter Instr.isAcqSnapS := List.mem_filter.2 ⟨g, rfl⟩
          rw [hnil] at this; cases this
      · rename_i hut
        exact hut (O.snapUniq u t e' p' e p hj (by rw [C.hc, hi]; exact List.mem_cons_self))
  -- is `x` an old entry or the one just pushed?
  have hxsrc : x ∈ s.observers ∨ (∃ o, i = .acqPushR o x.c ∧ x.ob = o) := by
    rw [C.obs] at hx
    cases C.tr with
    | quiet _ _ ho => rw [ho] at hx; exact .inl hx
    | dropO _ _ ho => rw [ho] at hx; exact .inl hx
    | deliver _ _ _ _ _ ho => rw [ho] at hx; exact .inl hx
    | putR _ _ _ _ _ _ ho => rw [ho] at hx; exact .inl hx
    | readD _ _ _ _ _ ho => rw [ho] at hx; exact .inl hx
    | readP _ _ _ ho => rw [ho] at hx; exact .inl hx
    | pushR o c _ ho =>
      rw [ho] at hx
      rcases List.mem_append.1 hx with g | g
      · exact .inl g
      · simp at g; subst g; exact .inr ⟨o, rfl, rfl⟩
    | writeF _ _ _ _ ho => rw [ho] at hx; exact .inl hx
    | writeL _ _ _ _ ho => rw [ho] at hx; exact .inl hx
    | snapS e p => exact absurd rfl (hnotsnap e p)
    | rel _ _ _ _ ho => rw [ho] at hx; exact .inl hx
  rcases hxsrc with hxold | ⟨o, hi, _⟩
  · obtain ⟨f1, f2⟩ := O.obsFresh hns x hxold
    refine ⟨?_, ?_⟩
    · intro u y hy
      rcases pendSrc C hy with g | ⟨_, _, g, _⟩ | ⟨_, g, _⟩
      · exact f1 u y g
      · rw [g]; exact Nat.ne_of_gt (E.bObs x hxold)
      · exact absurd g (hnotsnap _ _)
    · intro ev hev
      rw [C.hist, hevs] at hev
      rcases List.mem_append.1 hev with g | g
      · exact f2 ev g
      · rcases hkind with hno | ⟨ob, c, e, p, rfl, hp, _⟩
        · exact hno ev g x.c
        · simp at g; subst g
          have := f1 t _ (pend_of_head C.hc hp)
          simp [HEv.isDelC]; exact this
  · -- the entry just pushed: its identifier was reserved by the pending `acqPushR`
    obtain ⟨_, f2, f3⟩ := O.pushFresh t o x.c (by rw [C.hc, hi]; exact List.mem_cons_self)
    refine ⟨?_, ?_⟩
    · intro u y hy
      rcases pendSrc C hy with g | ⟨_, g, _, _⟩ | ⟨_, g, _⟩
      · exact f2 u y g
      · rw [hi] at g; cases g
      · rw [hi] at g; cases g
    · intro ev hev
      rw [C.hist, hevs] at hev
      rcases List.mem_append.1 hev with g | g
      · exact f3 ev g
      · rcases hkind with hno | ⟨ob, c, e, p, _, hp, _⟩
        · exact hno ev g x.c
        · rw [hi] at hp; simp [Instr.pend] at hp

theorem oa_safe {s s' s1 : Sys} {t : Tid} {i : Instr} {rest new : List Instr} (O : OA s)
    (C : ExecCtxS s s' t i rest new s1) : SingleSafe s'.hist := by
  obtain ⟨evs, hevs, hkind⟩ := C.tr.evs_del
  rw [C.hist, hevs]
  rcases hkind with hno | ⟨ob, c, e, p, rfl, hp, _⟩
  · apply singleSafe_append_other O.safe
    intro ev hev t' o' c' e' p' heq
    have := hno ev hev c'; rw [heq] at this; simp [HEv.isDelC] at this
  · have hpend := pend_of_head C.hc hp
    refine singleSafe_snoc_deliver O.safe t ob c e p (O.pendFresh t _ hpend) ?_ ?_
    · obtain ⟨t', h⟩ := O.pendSub t ob c e p hpend
      obtain ⟨k, hk⟩ := List.mem_iff_getElem?.1 h
      exact ⟨k, t', hk⟩
    · exact O.valFirst e p (O.pendVal t ob c e p hpend)

end CG.Model.Rx
namespace CG.Model.Rx
open CG.Spec.EventSpec

theorem OA_exec {s s' : Sys} {t : Tid} {i : Instr} {rest : List Instr} (A : HA s) (H : HV s) (E : S1 s) (O : OA s)
    (hc : (s.thr t).cont = i :: rest) (h : exec s t i rest = some s') : OA s' := by
  obtain ⟨new, s1, C⟩ := execCtxS_of A E hc h
  obtain ⟨v1, v2, v3, v4⟩ := oa_value E O C
  obtain ⟨s1', s2'⟩ := oa_snap E O C
  obtain ⟨m1, m2, m3⟩ := oa_members O C
  exact ⟨v1, v2, v3, v4, s1', s2', m1, m2, m3, oa_subUniq E O C, oa_obsNodup O C, oa_pendNodup E O C,
    oa_pendCross E O C, oa_pendFresh E O C, oa_pushFresh A E O C, oa_noPush A H O C, oa_obsFresh E O C, oa_safe O C⟩

/-- `OA` across a change of thread `t`'s continuation that appends only harmless events, keeps observer
    list, value slot and ghost counter, and introduces nothing of interest. -/
theorem OA_shrink {s s' : Sys} {t : Tid} {c' : List Instr} {evs : Hist} (O : OA s)
    (hcont : ∀ u, (s'.thr u).cont = if u = t then c' else (s.thr u).cont)
    (hhist : s'.hist = s.hist ++ evs) (hobs : s'.observers = s.observers) (hval : s'.value = s.value)
    (hmem : ∀ j ∈ c', j ∈ (s.thr t).cont ∨ j.bland)
    (hpend : ∀ x ∈ contPend c', x ∈ contPend (s.thr t).cont)
    (hnd : ((contPend c').map (fun x => x.2.1)).Nodup)
    (hcount : (c'.filter Instr.isAcqSnapS).length ≤ ((s.thr t).cont.filter Instr.isAcqSnapS).length)
    (hev : ∀ ev ∈ evs, ev.isPubBegin = false ∧ ev.isSubBegin = false ∧ (∀ c, ev.isDelC c = false)) : OA s' := by
  have mono : ∀ ev, ev ∈ s.hist → ev ∈ s'.hist := fun ev h => by rw [hhist]; exact List.mem_append_left _ h
  have memold : ∀ u j, j ∈ (s'.thr u).cont → j ∈ (s.thr u).cont ∨ (u = t ∧ j.bland) := by
    intro u j hj
    rw [hcont] at hj; split at hj
    · rename_i hut; subst hut
      rcases hmem j hj with h | h
      · exact .inl h
      · exact .inr ⟨rfl, h⟩
    · exact .inl hj
  have pendold : ∀ u x, x ∈ contPend (s'.thr u).cont → x ∈ contPend (s.thr u).cont := by
    intro u x hx
    rw [hcont] at hx; split at hx
    · rename_i hut; subst hut; exact hpend x hx
    · exact hx
  have snapOld : ∀ u e p, Instr.acqSnapS e p ∈ (s'.thr u).cont → Instr.acqSnapS e p ∈ (s.thr u).cont := by
    intro u e p hj
    rcases memold u _ hj with h | ⟨_, h⟩
    · exact h
    · have := h.2.2.2; simp [Instr.ids] at this
  have pushOld : ∀ u o c, Instr.acqPushR o c ∈ (s'.thr u).cont → Instr.acqPushR o c ∈ (s.thr u).cont := by
    intro u o c hj
    rcases memold u _ hj with h | ⟨_, h⟩
    · exact h
    · have := h.2.2.2; simp [Instr.ids] at this
  have delOld : ∀ ev ∈ s'.hist, ∀ c, ev.isDelC c = true → ev ∈ s.hist := by
    intro ev hin c hd
    rw [hhist] at hin
    rcases List.mem_append.1 hin with g | g
    · exact g
    · have := (hev ev g).2.2 c; rw [hd] at this; cases this
  have takenOld : snapTaken s → snapTaken s' := by
    intro ⟨h1, h2⟩
    refine ⟨by rw [hval]; exact h1, ?_⟩
    intro u j hj
    rcases memold u j hj with g | ⟨_, g⟩
    · exact h2 u j g
    · cases j <;> first | rfl | (have := g.2.2.2; simp [Instr.ids] at this)
  refine ⟨?_, ?_, ?_, ?_, ?_, ?_, ?_, ?_, ?_, ?_, ?_, ?_, ?_, ?_, ?_, ?_, ?_, ?_⟩
  · intro e p h; rw [hval] at h
    obtain ⟨i, t₀, hf⟩ := O.valFirst e p h
    exact ⟨i, t₀, by rw [hhist]; exact firstPub_append hf⟩
  · intro h ev hin; rw [hval] at h; rw [hhist] at hin
    rcases List.mem_append.1 hin with g | g
    · exact O.valNone h ev g
    · exact (hev ev g).1
  · intro u ob c e p hm; rw [hval]; exact O.pendVal u ob c e p (pendold u _ hm)
  · intro u e p hm; rw [hval]; exact O.snapVal u e p (snapOld u e p hm)
  · intro u u' e p e' p' h1 h2; exact O.snapUniq u u' e p e' p' (snapOld _ _ _ h1) (snapOld _ _ _ h2)
  · intro u; rw [hcont]; split
    · exact Nat.le_trans hcount (by rename_i h; subst h; exact O.snapOnce u)
    · exact O.snapOnce u
  · intro x hx; rw [hobs] at hx; obtain ⟨t', h⟩ := O.subOf x hx; exact ⟨t', mono _ h⟩
  · intro u ob c e p hm; obtain ⟨t', h⟩ := O.pendSub u ob c e p (pendold u _ hm); exact ⟨t', mono _ h⟩
  · intro u o c hm; exact mono _ (O.pushSub u o c (pushOld u o c hm))
  · rw [hhist]; exact subUniq_append O.subUniq (fun ev h => (hev ev h).2.1)
  · rw [hobs]; exact O.obsNodup
  · intro u; rw [hcont]; split
    · exact hnd
    · exact O.pendNodup u
  · intro u u' x y hx hy hxy; exact O.pendCross u u' x y (pendold u x hx) (pendold u' y hy) hxy
  · intro u x hx ev hin
    cases hd : ev.isDelC x.2.1 with
    | false => rfl
    | true => have := O.pendFresh u x (pendold u x hx) ev (delOld ev hin _ hd); rw [hd] at this; cases this
  · intro u o c hm
    obtain ⟨f1, f2, f3⟩ := O.pushFresh u o c (pushOld u o c hm)
    refine ⟨by rw [hobs]; exact f1, fun w x hx => f2 w x (pendold w x hx), ?_⟩
    intro ev hin
    cases hd : ev.isDelC c with
    | false => rfl
    | true => have := f3 ev (delOld ev hin _ hd); rw [hd] at this; cases this
  · intro hv u j hj
    rw [hval] at hv
    rcases memold u j hj with g | ⟨_, g⟩
    · exact O.noPush hv u j g
    · cases j <;> first | rfl | (have := g.2.2.2; simp [Instr.ids] at this)
  · intro hns x hx
    rw [hobs] at hx
    obtain ⟨f1, f2⟩ := O.obsFresh (fun h => hns (takenOld h)) x hx
    refine ⟨fun u y hy => f1 u y (pendold u y hy), ?_⟩
    intro ev hin
    cases hd : ev.isDelC x.c with
    | false => rfl
    | true => have := f2 ev (delOld ev hin _ hd); rw [hd] at this; cases this
  · rw [hhist]
    apply singleSafe_append_other O.safe
    intro ev hin t' o' c' e' p' heq
    have := (hev ev hin).2.2 c'; rw [heq] at this; simp [HEv.isDelC] at this

end CG.Model.Rx

namespace CG.Model.Rx
open CG.Spec.EventSpec

theorem popMark_harmless (s : Sys) (t : Tid) (m : Instr) (k : List Instr) (hm : m.isMarker = true) (hr : m.isRep = true) :
    ∃ evs, (popMark s t m k).hist = s.hist ++ evs ∧
      ∀ ev ∈ evs, ev.isPubBegin = false ∧ ev.isSubBegin = false ∧ (∀ c, ev.isDelC c = false) := by
  cases m <;> simp [Instr.isMarker, Instr.isRep] at hm hr
  · exact ⟨[_], rfl, by simp [HEv.isPubBegin, HEv.isSubBegin, HEv.isDelC]⟩
  · exact ⟨[], by simp [popMark, Sys.setCont_eq], by simp⟩
  · exact ⟨[_], rfl, by simp [HEv.isPubBegin, HEv.isSubBegin, HEv.isDelC]⟩
  · exact ⟨[_], rfl, by simp [HEv.isPubBegin, HEv.isSubBegin, HEv.isDelC]⟩

theorem popMark_observers (s : Sys) (t : Tid) (m : Instr) (k : List Instr) : (popMark s t m k).observers = s.observers := by
  cases m <;> simp [popMark, Sys.setCont_eq]

theorem OA_pop {s : Sys} {t : Tid} {m : Instr} {k : List Instr} (O : OA s) (hc : (s.thr t).cont = m :: k)
    (hm : m.isMarker = true) (hr : m.isRep = true) : OA (popMark s t m k) := by
  have hcont : ∀ u, ((popMark s t m k).thr u).cont = if u = t then k else (s.thr u).cont := by
    intro u; by_cases h : u = t
    · subst h; simp [popMark_cont s u m k hm hr]
    · simp [popMark_thr_other s t u m k h, h]
  have hpk : contPend (s.thr t).cont = contPend k := by rw [hc, contPend_cons, marker_pend hm hr]; rfl
  have hmemk : ∀ j ∈ k, j ∈ (s.thr t).cont ∨ j.bland := fun j hj => .inl (by rw [hc]; exact List.mem_cons_of_mem _ hj)
  have hnd : ((contPend k).map (fun x => x.2.1)).Nodup := by rw [← hpk]; exact O.pendNodup t
  have hcount : (k.filter Instr.isAcqSnapS).length ≤ ((s.thr t).cont.filter Instr.isAcqSnapS).length := by
    rw [hc, List.filter_cons]; split <;> simp
  obtain ⟨evs, h1, hharm⟩ := popMark_harmless s t m k hm hr
  exact OA_shrink O hcont h1 (popMark_observers s t m k) (popMark_value s t m k) hmemk
    (by rw [hpk]; exact fun x h => h) hnd hcount hharm

theorem OA_expand {s : Sys} {t : Tid} (A : HA s) (E : S1 s) (O : OA s) (hc : (s.thr t).cont = []) :
    OA (expand s t) := by
  cases hp : (s.thr t).prog with
  | nil => rw [expand_nil s t hp]; exact O
  | cons op ops =>
    rw [expand_cons s t op ops hp]
    obtain ⟨hprops, _⟩ := opInstrs_sing s t op A.rep E.sing
    have hbl : ∀ j ∈ opInstrs s t op, j.bland := by
      intro j hj
      obtain ⟨_, h2, h3, h4⟩ := hprops j hj
      refine ⟨h3, h2, ?_, h4⟩
      intro o c hjc; rw [hjc] at h4; simp [Instr.ids] at h4
    have hcont : ∀ u, ((s.setThr t
        { s.thr t with prog := ops, opIdx := (s.thr t).opIdx + 1, cont := opInstrs s t op }).thr u).cont =
        if u = t then opInstrs s t op else (s.thr u).cont := by
      intro u; simp [upd_apply]; split <;> simp
    refine OA_shrink (evs := []) O hcont (by simp) rfl rfl (fun j hj => .inr (hbl j hj)) ?_ ?_ ?_ (by simp)
    · rw [contPend_bland hbl]; intro x hx; cases hx
    · rw [contPend_bland hbl]; exact List.nodup_nil
    · have : (opInstrs s t op).filter Instr.isAcqSnapS = [] := by
        apply List.filter_eq_nil_iff.2
        intro j hj hjs
        cases j <;> simp [Instr.isAcqSnapS] at hjs
        have := (hbl _ hj).2.2.2; simp [Instr.ids] at this
      rw [this]; exact Nat.zero_le _

theorem OA_spur {s s' : Sys} {t : Tid} (O : OA s) (h : spur s t = some s') : OA s' := by
  obtain ⟨a, k, rest, hc, rfl⟩ := spur_eq h
  have hcont : ∀ u, ((s.setThr t { s.thr t with woken := true }).thr u).cont = if u = t then (s.thr t).cont else (s.thr u).cont := by
    intro u; simp [upd_apply]; split <;> simp_all
  exact OA_shrink (evs := []) O hcont (by simp) rfl rfl (fun j hj => .inl hj) (fun x h => h) (O.pendNodup t)
    (Nat.le_refl _) (by simp)

end CG.Model.Rx
namespace CG.Model.Rx
open CG.Spec.EventSpec

theorem firstPub_unique {h : Hist} {i i' t t' e e' p p' : Nat} (h1 : FirstPub h i t e p) (h2 : FirstPub h i' t' e' p') :
    i = i' ∧ t = t' ∧ e = e' ∧ p = p' := by
  have hii : i = i' := by
    rcases Nat.lt_trichotomy i i' with g | g | g
    · exact absurd h1.1 (h2.2 i t e p g)
    · exact g
    · exact absurd h2.1 (h1.2 i' t' e' p' g)
  subst hii
  have := h1.1.symm.trans h2.1
  injection this with this; injection this with a b c
  exact ⟨rfl, a, b, c⟩

/-- every `mSubRet o c` in the continuation is followed by no obligation for subscription `c` -/
def subOkL : List Instr → Bool
  | [] => true
  | .mSubRet _ c :: post => (contPend post).all (fun x => x.2.1 != c) && subOkL post
  | _ :: post => subOkL post

def Instr.isSubRet : Instr → Bool
  | .mSubRet _ _ => true
  | _ => false

theorem subOkL_tail {i : Instr} {r : List Instr} (h : subOkL (i :: r) = true) : subOkL r = true := by
  cases i <;> simp [subOkL] at h ⊢ <;> first | exact h | exact h.2

theorem subOkL_head {o : Ob} {c : Nat} {k : List Instr} (h : subOkL (.mSubRet o c :: k) = true) :
    ∀ x ∈ contPend k, x.2.1 ≠ c := by
  simp [subOkL] at h
  intro x hx; exact h.1 x.1 x.2.1 x.2.2.1 x.2.2.2 hx

theorem subOkL_append_plain {new rest : List Instr} (hn : ∀ j ∈ new, j.isSubRet = false) (hr : subOkL rest = true) :
    subOkL (new ++ rest) = true := by
  induction new with
  | nil => simpa using hr
  | cons x xs ih =>
    have ihx := ih (fun j hj => hn j (List.mem_cons_of_mem _ hj))
    have hx := hn x List.mem_cons_self
    cases x <;> simp [Instr.isSubRet] at hx <;> simpa [subOkL] using ihx

/-- … also when the new instructions end with the marker of a fresh subscription -/
theorem subOkL_append_fresh {pre rest : List Instr} {o : Ob} {c : Nat} (hn : ∀ j ∈ pre, j.isSubRet = false)
    (hr : subOkL rest = true) (hfresh : ∀ x ∈ contPend rest, x.2.1 ≠ c) :
    subOkL (pre ++ .mSubRet o c :: rest) = true := by
  apply subOkL_append_plain hn
  simp only [subOkL, Bool.and_eq_true, List.all_eq_true, bne_iff_ne, ne_eq]
  exact ⟨fun x hx => hfresh x hx, hr⟩

end CG.Model.Rx
namespace CG.Model.Rx
open CG.Spec.EventSpec

/-- the "every subscriber is served" clause of `SingleOnce` -/
def EverySub (h : Hist) : Prop :=
  ∀ (i j t e p : Nat), FirstPub h i t e p → h[j]? = some (HEv.pubEnd t e p) →
    ∀ (k t' o c : Nat), h[k]? = some (HEv.subRet t' (Ob.user o) c) → AliveUntil h o (max j k) →
    ∃ (m t'' : Nat), (m < j ∨ m < k) ∧ h[m]? = some (HEv.deliver t'' (Ob.user o) c e p)

/-- Part 5, progress invariant (single-shot subject, repaired algorithm) -/
structure OB (s : Sys) : Prop where
  endNot : ∀ t e p, Instr.mPubEnd e p ∈ (s.thr t).cont → HEv.pubEnd t e p ∉ s.hist
  begun : ∀ t e p, Instr.mPubEnd e p ∈ (s.thr t).cont → HEv.pubBegin t e p ∈ s.hist
  pubUniq : ∀ (i i' t t' e e' p : Nat), s.hist[i]? = some (HEv.pubBegin t e p) →
    s.hist[i']? = some (HEv.pubBegin t' e' p) → i = i' ∧ t = t'
  retSub : ∀ t o c, Instr.mSubRet o c ∈ (s.thr t).cont → HEv.subBegin t o c ∈ s.hist
  retHist : ∀ t o c, HEv.subRet t o c ∈ s.hist → HEv.subBegin t o c ∈ s.hist
  retNot : ∀ t o c, Instr.mSubRet o c ∈ (s.thr t).cont → HEv.subRet t o c ∉ s.hist
  /-- a continuation holds at most one marker per subscription -/
  retOnce : ∀ t, (((s.thr t).cont.filter Instr.isSubRet).map Instr.ids).Nodup
  dropped : ∀ o, s.owner o = false → ∃ t, HEv.dropO t o ∈ s.hist
  snapEnd : ∀ t e p, Instr.acqSnapS e p ∈ (s.thr t).cont → Instr.mPubEnd e p ∈ (s.thr t).cont
  pendClass : ∀ u ob c e p, (ob, c, e, p) ∈ contPend (s.thr u).cont →
    Instr.mSubRet ob c ∈ (s.thr u).cont ∨ ((⟨ob, c⟩ : Entry) ∈ s.observers ∧ Instr.mPubEnd e p ∈ (s.thr u).cont)
  subOk : ∀ u, subOkL (s.thr u).cont = true
  endTaken : ∀ t e p, HEv.pubEnd t e p ∈ s.hist → s.value = some (e, p) → snapTaken s
  /-- well-formedness: a publication that ended had begun -/
  wf : ∀ t e p, HEv.pubEnd t e p ∈ s.hist → HEv.pubBegin t e p ∈ s.hist
  served : ∀ t' o c, HEv.subBegin t' (.user o) c ∈ s.hist → s.owner o = true →
    (∃ u e p, HEv.deliver u (.user o) c e p ∈ s.hist) ∨
    (∃ u e p, (Ob.user o, c, e, p) ∈ contPend (s.thr u).cont) ∨
    Instr.acqPushR (.user o) c ∈ (s.thr t').cont ∨
    ((⟨.user o, c⟩ : Entry) ∈ s.observers ∧ ¬ snapTaken s)
  every : EverySub s.hist

/-- what `exec` puts at the head contains `mPubEnd` only for `acqWrite`, `mSubRet` only for `acqRead` -/
theorem TrS.new_marks {s s1 : Sys} {t : Tid} {i : Instr} {new : List Instr} (h : TrS s t i s1 new) :
    (∀ e p, Instr.mPubEnd e p ∈ new → i = .acqWrite e ∧ p = s.nextId ∧ s1.hist = s.hist ++ [HEv.pubBegin t e s.nextId]) ∧
    (∀ o c, Instr.mSubRet o c ∈ new → i = .acqRead o ∧ c = s.nextId ∧ s1.hist = s.hist ++ beginEvs t o s.nextId) := by
  have hdel : ∀ (x : Entry) (e p : Nat) (j : Instr), j ∈ deliverInstrs x e p → j.isPubEnd = false ∧ j.isSubRet = false := by
    intro x e p j hj; cases x with | mk ob c => cases ob <;> simp [deliverInstrs] at hj <;> subst hj <;> exact ⟨rfl, rfl⟩
  cases h with
  | quiet _ _ _ _ _ _ hnew =>
    constructor
    · intro e p hm; have := (hnew _ hm).1.2.1; simp [Instr.isPubEnd] at this
    · intro o c hm; exact absurd rfl ((hnew _ hm).1.2.2.1 o c)
  | dropO => exact ⟨fun _ _ hm => by simp at hm, fun _ _ hm => by simp at hm⟩
  | deliver _ _ _ _ _ _ _ _ _ hnew =>
    rcases hnew with rfl | ⟨k, rfl⟩ <;> exact ⟨fun _ _ hm => by simp at hm, fun _ _ hm => by simp at hm⟩
  | putR => exact ⟨fun _ _ hm => by simp at hm, fun _ _ hm => by simp at hm⟩
  | readD o v p0 _ hh =>
    constructor
    · intro e p hm; simp at hm; have := (hdel _ _ _ _ hm).1; simp [Instr.isPubEnd] at this
    · intro o' c hm; simp at hm
      rcases hm with hm | ⟨rfl, rfl⟩
      · have := (hdel _ _ _ _ hm).2; simp [Instr.isSubRet] at this
      · exact ⟨rfl, rfl, hh⟩
  | readP o _ hh =>
    constructor
    · intro e p hm; simp at hm
    · intro o' c hm; simp at hm; obtain ⟨rfl, rfl⟩ := hm; exact ⟨rfl, rfl, hh⟩
  | pushR => exact ⟨fun _ _ hm => by simp at hm, fun _ _ hm => by simp at hm⟩
  | writeF e _ _ hh =>
    constructor
    · intro e' p hm; simp at hm; obtain ⟨rfl, rfl⟩ := hm; exact ⟨rfl, rfl, hh⟩
    · intro o c hm; simp at hm
  | writeL e _ _ hh =>
    constructor
    · intro e' p hm; simp at hm; obtain ⟨rfl, rfl⟩ := hm; exact ⟨rfl, rfl, hh⟩
    · intro o c hm; simp at hm
  | snapS => exact ⟨fun _ _ hm => by simp at hm, fun _ _ hm => by simp at hm⟩
  | rel snap e' p' =>
    constructor
    · intro e p hm
      rcases List.mem_append.1 hm with hm | hm
      · obtain ⟨x, _, hx⟩ := mem_flatMap_deliver hm; have := (hdel _ _ _ _ hx).1; simp [Instr.isPubEnd] at this
      · simp at hm
    · intro o c hm
      rcases List.mem_append.1 hm with hm | hm
      · obtain ⟨x, _, hx⟩ := mem_flatMap_deliver hm; have := (hdel _ _ _ _ hx).2; simp [Instr.isSubRet] at this
      · simp at hm

end CG.Model.Rx
namespace CG.Model.Rx
open CG.Spec.EventSpec

theorem ob_batch1 {s s' s1 : Sys} {t : Tid} {i : Instr} {rest new : List Instr} (E : S1 s) (B : OB s)
    (C : ExecCtxS s s' t i rest new s1) :
    (∀ u e p, Instr.mPubEnd e p ∈ (s'.thr u).cont → HEv.pubEnd u e p ∉ s'.hist) ∧
    (∀ u e p, Instr.mPubEnd e p ∈ (s'.thr u).cont → HEv.pubBegin u e p ∈ s'.hist) ∧
    (∀ u o c, Instr.mSubRet o c ∈ (s'.thr u).cont → HEv.subBegin u o c ∈ s'.hist) ∧
    (∀ u o c, HEv.subRet u o c ∈ s'.hist → HEv.subBegin u o c ∈ s'.hist) ∧
    (∀ u o c, Instr.mSubRet o c ∈ (s'.thr u).cont → HEv.subRet u o c ∉ s'.hist) ∧
    (∀ o, s'.owner o = false → ∃ u, HEv.dropO u o ∈ s'.hist) ∧
    (∀ u e p, Instr.acqSnapS e p ∈ (s'.thr u).cont → Instr.mPubEnd e p ∈ (s'.thr u).cont) := by
  obtain ⟨evs, hevs, hne⟩ := C.tr.hist_ext'
  have mono : ∀ ev, ev ∈ s.hist → ev ∈ s'.hist := fun ev h => by rw [C.hist, hevs]; exact List.mem_append_left _ h
  have endOld : ∀ ev, ev.isEnd = true → ev ∈ s'.hist → ev ∈ s.hist := by
    intro ev he hin
    rw [C.hist, hevs] at hin
    rcases List.mem_append.1 hin with g | g
    · exact g
    · rw [hne ev g] at he; cases he
  refine ⟨?_, ?_, ?_, ?_, ?_, ?_, ?_⟩
  · intro u e p hm hin
    have hin' := endOld _ rfl hin
    rw [C.cont] at hm; split at hm
    · rename_i hut; subst hut
      rcases List.mem_append.1 hm with g | g
      · obtain ⟨_, rfl, _⟩ := (C.tr.new_marks).1 e p g
        exact Nat.lt_irrefl _ (E.bHist _ hin' s.nextId (by simp [HEv.ids]))
      · exact B.endNot u e p (mem_cont_of_rest C.hc g) hin'
    · exact B.endNot u e p hm hin'
  · intro u e p hm
    rw [C.cont] at hm; split at hm
    · rename_i hut; subst hut
      rcases List.mem_append.1 hm with g | g
      · obtain ⟨_, rfl, hh⟩ := (C.tr.new_marks).1 e p g
        rw [C.hist, hh]; simp
      · exact mono _ (B.begun u e p (mem_cont_of_rest C.hc g))
    · exact mono _ (B.begun u e p hm)
  · intro u o c hm
    rw [C.cont] at hm; split at hm
    · rename_i hut; subst hut
      rcases List.mem_append.1 hm with g | g
      · obtain ⟨_, rfl, hh⟩ := (C.tr.new_marks).2 o c g
        rw [C.hist, hh]; exact List.mem_append_right _ (beginEvs_mem _ _ _)
      · exact mono _ (B.retSub u o c (mem_cont_of_rest C.hc g))
    · exact mono _ (B.retSub u o c hm)
  · intro u o c hm
    exact mono _ (B.retHist u o c (endOld _ rfl hm))
  · intro u o c hm hin
    have hin' := endOld _ rfl hin
    rw [C.cont] at hm; split at hm
    · rename_i hut; subst hut
      rcases List.mem_append.1 hm with g | g
      · obtain ⟨_, rfl, _⟩ := (C.tr.new_marks).2 o c g
        exact Nat.lt_irrefl _ (E.bHist _ hin' s.nextId (by simp [HEv.ids]))
      · exact B.retNot u o c (mem_cont_of_rest C.hc g) hin'
    · exact B.retNot u o c hm hin'
  · intro o ho
    rw [C.own] at ho
    have key : s.owner o = false → ∃ u, HEv.dropO u o ∈ s'.hist := fun h => by
      obtain ⟨u, hu⟩ := B.dropped o h; exact ⟨u, mono _ hu⟩
    cases C.tr with
    | quiet _ _ _ hw => rw [hw] at ho; exact key ho
    | dropO o' hh _ hw =>
      rw [hw] at ho
      by_cases hoo : o = o'
      · subst hoo; exact ⟨t, by rw [C.hist, hh]; simp⟩
      · rw [upd_other _ _ _ _ hoo] at ho; exact key ho
    | deliver _ _ _ _ _ _ hw => rw [hw] at ho; exact key ho
    | putR _ _ _ _ _ _ _ hw => rw [hw] at ho; exact key ho
    | readD _ _ _ _ _ _ hw => rw [hw] at ho; exact key ho
    | readP _ _ _ _ hw => rw [hw] at ho; exact key ho
    | pushR _ _ _ _ hw => rw [hw] at ho; exact key ho
    | writeF _ _ _ _ _ hw => rw [hw] at ho; exact key ho
    | writeL _ _ _ _ _ hw => rw [hw] at ho; exact key ho
    | snapS _ _ _ _ hw => rw [hw] at ho; exact key ho
    | rel _ _ _ _ _ hw => rw [hw] at ho; exact key ho
  · intro u e p hm
    rw [C.cont] at hm ⊢; split at hm
    · rename_i hut; subst hut; rw [if_pos rfl]
      rcases List.mem_append.1 hm with g | g
      · obtain ⟨_, rfl, _, hnew⟩ := (C.tr.new_special).1 e p g
        rw [hnew]; simp
      · have := B.snapEnd u e p (mem_cont_of_rest C.hc g)
        rw [C.hc] at this
        rcases List.mem_cons.1 this with h | h
        · -- the head is `mPubEnd`: markers are not executed
          exfalso; rw [← h] at C
          cases C.tr with
          | quiet hib => simp [Instr.bland, Instr.isPubEnd, Instr.isMarker] at hib
        · exact List.mem_append_right _ h
    · rename_i hut; rw [if_neg hut]; exact B.snapEnd u e p hm

theorem ob_pubUniq {s s' s1 : Sys} {t : Tid} {i : Instr} {rest new : List Instr} (E : S1 s) (B : OB s)
    (C : ExecCtxS s s' t i rest new s1) :
    ∀ (i i' t t' e e' p : Nat), s'.hist[i]? = some (HEv.pubBegin t e p) →
      s'.hist[i']? = some (HEv.pubBegin t' e' p) → i = i' ∧ t = t' := by
  rw [C.hist]
  have hfresh : ∀ ev ∈ s.hist, s.nextId ∉ ev.ids := fun ev hev hin => Nat.lt_irrefl _ (E.bHist ev hev _ hin)
  cases C.tr with
  | quiet _ hh =>
    rcases hh with hh | hh
    · rw [hh]; exact B.pubUniq
    · rw [hh]; exact pubUniq_append B.pubUniq (by simp [HEv.isPubBegin])
  | dropO _ hh => rw [hh]; exact pubUniq_append B.pubUniq (by simp [HEv.isPubBegin])
  | deliver _ _ _ _ hh => rw [hh]; exact pubUniq_append B.pubUniq (by simp [HEv.isPubBegin])
  | putR _ _ _ _ _ hh => rw [hh]; exact pubUniq_append B.pubUniq (by simp [HEv.isPubBegin])
  | readD _ _ _ _ hh => rw [hh]; exact pubUniq_append B.pubUniq (beginEvs_noPubBegin _ _ _)
  | readP _ _ hh => rw [hh]; exact pubUniq_append B.pubUniq (beginEvs_noPubBegin _ _ _)
  | pushR _ _ hh => rw [hh]; exact B.pubUniq
  | writeF _ _ _ hh => rw [hh]; exact pubUniq_snoc B.pubUniq hfresh
  | writeL _ _ _ hh => rw [hh]; exact pubUniq_snoc B.pubUniq hfresh
  | snapS _ _ hh => rw [hh]; exact B.pubUniq
  | rel _ _ _ hh => rw [hh]; exact B.pubUniq

end CG.Model.Rx
namespace CG.Model.Rx
open CG.Spec.EventSpec

theorem TrS.head_not_marker {s s1 : Sys} {t : Tid} {i : Instr} {new : List Instr} (h : TrS s t i s1 new) :
    i.isMarker = false := by
  cases h with
  | quiet hib => exact hib.2
  | _ => rfl

/-- a marker of the pre-state's continuation of `t` survives the step (it is not the instruction executed) -/
theorem marker_survives {s s' s1 : Sys} {t : Tid} {i : Instr} {rest new : List Instr} (C : ExecCtxS s s' t i rest new s1)
    {u : Tid} {j : Instr} (hj : j.isMarker = true) (hm : j ∈ (s.thr u).cont) : j ∈ (s'.thr u).cont := by
  rw [C.cont]; split
  · rename_i hut; subst hut
    rw [C.hc] at hm
    rcases List.mem_cons.1 hm with g | g
    · rw [g, C.tr.head_not_marker] at hj; cases hj
    · exact List.mem_append_right _ g
  · exact hm

theorem ob_pendClass {s s' s1 : Sys} {t : Tid} {i : Instr} {rest new : List Instr} (O : OA s) (B : OB s)
    (C : ExecCtxS s s' t i rest new s1) :
    ∀ u ob c e p, (ob, c, e, p) ∈ contPend (s'.thr u).cont →
      Instr.mSubRet ob c ∈ (s'.thr u).cont ∨
      ((⟨ob, c⟩ : Entry) ∈ s'.observers ∧ Instr.mPubEnd e p ∈ (s'.thr u).cont) := by
  intro u ob c e p hx
  -- an old obligation keeps its class
  have keep : (ob, c, e, p) ∈ contPend (s.thr u).cont →
      Instr.mSubRet ob c ∈ (s'.thr u).cont ∨
      ((⟨ob, c⟩ : Entry) ∈ s'.observers ∧ Instr.mPubEnd e p ∈ (s'.thr u).cont) := by
    intro g
    rcases B.pendClass u ob c e p g with h | ⟨h1, h2⟩
    · exact .inl (marker_survives C rfl h)
    · right
      refine ⟨?_, marker_survives C rfl h2⟩
      rw [C.obs]
      cases C.tr with
      | quiet _ _ ho => rw [ho]; exact h1
      | dropO _ _ ho => rw [ho]; exact h1
      | deliver _ _ _ _ _ ho => rw [ho]; exact h1
      | putR _ _ _ _ _ _ ho => rw [ho]; exact h1
      | readD _ _ _ _ _ ho => rw [ho]; exact h1
      | readP _ _ _ ho => rw [ho]; exact h1
      | pushR _ _ _ ho => rw [ho]; exact List.mem_append_left _ h1
      | writeF _ _ _ _ ho => rw [ho]; exact h1
      | writeL _ _ _ _ ho => rw [ho]; exact h1
      | snapS e' p' =>
        exfalso
        have hns : ¬ snapTaken s := not_snapTaken_of_snap (t := t) (e := e') (p := p') (by rw [C.hc]; exact List.mem_cons_self)
        exact (O.obsFresh hns _ h1).1 u _ g rfl
      | rel _ _ _ _ ho => rw [ho]; exact h1
  rw [C.cont] at hx; split at hx
  · rename_i hut; subst hut
    rw [contPend_append] at hx
    rcases List.mem_append.1 hx with g | g
    · rcases C.tr.new_pend g with h | ⟨h1, h2, _⟩ | ⟨h1, h2, _⟩
      · exact keep (pend_of_head C.hc h)
      · -- direct service of a late subscriber: its `mSubRet` follows
        left
        rw [C.cont, if_pos rfl]
        apply List.mem_append_left
        subst h1 h2
        cases C.tr with
        | quiet _ _ _ _ _ _ hnew => rw [contPend_bland (fun j hj => (hnew j hj).1)] at g; cases g
        | readD o v p0 => simp
        | readP o hval => simp [contPend, Instr.pend] at g
      · -- the emission's snapshot
        right
        subst h1
        have hend := B.snapEnd u e p (by rw [C.hc]; exact List.mem_cons_self)
        refine ⟨?_, marker_survives C rfl hend⟩
        rw [C.obs]
        cases C.tr with
        | quiet _ _ _ _ _ _ hnew => rw [contPend_bland (fun j hj => (hnew j hj).1)] at g; cases g
        | snapS _ _ _ ho =>
          rw [ho]
          simp [contPend, Instr.pend] at g
          obtain ⟨x, hx1, rfl, rfl⟩ := g
          exact List.mem_filter.2 ⟨hx1.1, by simpa using hx1.2⟩
    · exact keep (pend_of_rest C.hc g)
  · exact keep hx

theorem ob_subOk {s s' s1 : Sys} {t : Tid} {i : Instr} {rest new : List Instr} (E : S1 s) (B : OB s)
    (C : ExecCtxS s s' t i rest new s1) : ∀ u, subOkL (s'.thr u).cont = true := by
  intro u
  rw [C.cont]; split
  · rename_i hut; subst hut
    have hrest : subOkL rest = true := subOkL_tail (by have := B.subOk u; rwa [C.hc] at this)
    have hfresh : ∀ x ∈ contPend rest, x.2.1 ≠ s.nextId := fun x hx =>
      Nat.ne_of_lt (pend_c_lt E (pend_of_rest C.hc hx))
    have hdel : ∀ (x : Entry) (e p : Nat) (j : Instr), j ∈ deliverInstrs x e p → j.isSubRet = false := by
      intro x e p j hj; cases x with | mk ob c => cases ob <;> simp [deliverInstrs] at hj <;> subst hj <;> rfl
    cases C.tr with
    | quiet _ _ _ _ _ _ hnew =>
      apply subOkL_append_plain _ hrest
      intro j hj
      cases hjs : j.isSubRet with
      | false => rfl
      | true =>
        cases j <;> simp [Instr.isSubRet] at hjs
        exact absurd rfl ((hnew _ hj).1.2.2.1 _ _)
    | dropO => simpa using hrest
    | deliver _ _ _ _ _ _ _ _ _ hnew =>
      apply subOkL_append_plain _ hrest
      rcases hnew with rfl | ⟨k, rfl⟩ <;> simp [Instr.isSubRet]
    | putR => exact subOkL_append_plain (by simp [Instr.isSubRet]) hrest
    | readD o v p0 =>
      have : (Instr.relRead :: deliverInstrs ⟨o, s.nextId⟩ v p0 ++ [Instr.mSubRet o s.nextId]) ++ rest =
          (Instr.relRead :: deliverInstrs ⟨o, s.nextId⟩ v p0) ++ Instr.mSubRet o s.nextId :: rest := by simp
      rw [this]
      apply subOkL_append_fresh _ hrest hfresh
      intro j hj
      rcases List.mem_cons.1 hj with rfl | hj
      · rfl
      · exact hdel _ _ _ _ hj
    | readP o =>
      have : [Instr.acqPushR o s.nextId, Instr.mSubRet o s.nextId] ++ rest =
          [Instr.acqPushR o s.nextId] ++ Instr.mSubRet o s.nextId :: rest := by simp
      rw [this]
      exact subOkL_append_fresh (by simp [Instr.isSubRet]) hrest hfresh
    | pushR => exact subOkL_append_plain (by simp [Instr.isSubRet]) hrest
    | writeF => exact subOkL_append_plain (by simp [Instr.isSubRet]) hrest
    | writeL => exact subOkL_append_plain (by simp [Instr.isSubRet]) hrest
    | snapS => exact subOkL_append_plain (by simp [Instr.isSubRet]) hrest
    | rel snap e p =>
      apply subOkL_append_plain _ hrest
      intro j hj
      rcases List.mem_append.1 hj with hj | hj
      · obtain ⟨x, _, hx⟩ := mem_flatMap_deliver hj; exact hdel _ _ _ _ hx
      · simp at hj; subst hj; rfl
  · exact B.subOk u

theorem ob_endTaken {s s' s1 : Sys} {t : Tid} {i : Instr} {rest new : List Instr} (E : S1 s) (O : OA s) (B : OB s)
    (C : ExecCtxS s s' t i rest new s1) :
    ∀ u e p, HEv.pubEnd u e p ∈ s'.hist → s'.value = some (e, p) → snapTaken s' := by
  obtain ⟨evs, hevs, hne⟩ := C.tr.hist_ext'
  intro u e p hin hv
  have hin' : HEv.pubEnd u e p ∈ s.hist := by
    rw [C.hist, hevs] at hin
    rcases List.mem_append.1 hin with g | g
    · exact g
    · have := hne _ g; simp [HEv.isEnd] at this
  rcases C.tr.value_cases with ⟨g, _⟩ | ⟨e₀, _, _, g, _, _⟩
  · rw [C.val, g] at hv
    exact snapTaken_mono O C (B.endTaken u e p hin' hv)
  · rw [C.val, g] at hv; injection hv with hv; injection hv with h1 h2; subst h1 h2
    exact absurd (E.bHist _ hin' s.nextId (by simp [HEv.ids])) (Nat.lt_irrefl _)

end CG.Model.Rx
namespace CG.Model.Rx
open CG.Spec.EventSpec

theorem aliveUntil_append {h evs : Hist} {o j : Nat} (hj : j ≤ h.length) (ha : AliveUntil (h ++ evs) o j) :
    AliveUntil h o j := by
  intro m t hm
  have := ha m t hm
  rwa [getElem?_append_lt h evs m (by omega)] at this

theorem firstPub_restrict {h evs : Hist} {i t e p : Nat} (hf : FirstPub (h ++ evs) i t e p) (hi : i < h.length) :
    FirstPub h i t e p := by
  refine ⟨by rw [← getElem?_append_lt h evs i hi]; exact hf.1, ?_⟩
  intro i' t' e' p' hi'
  have := hf.2 i' t' e' p' hi'
  rwa [getElem?_append_lt h evs i' (by omega)] at this

/-- "every subscriber is served" survives appending events that end nothing -/
theorem everySub_append {h evs : Hist} (H : EverySub h)
    (hwf : ∀ t e p, HEv.pubEnd t e p ∈ h → HEv.pubBegin t e p ∈ h)
    (hne : ∀ ev ∈ evs, (∀ u e p, ev ≠ HEv.pubEnd u e p) ∧ (∀ u o c, ev ≠ HEv.subRet u o c)) : EverySub (h ++ evs) := by
  intro i j t e p hf hj k t' o c hk hal
  have hjl : j < h.length := by
    apply Nat.lt_of_not_le; intro hle
    exact (hne _ (getElem?_append_ge_mem hj hle)).1 _ _ _ rfl
  have hkl : k < h.length := by
    apply Nat.lt_of_not_le; intro hle
    exact (hne _ (getElem?_append_ge_mem hk hle)).2 _ _ _ rfl
  rw [getElem?_append_lt _ _ _ hjl] at hj
  rw [getElem?_append_lt _ _ _ hkl] at hk
  obtain ⟨i₀, hi₀⟩ := List.mem_iff_getElem?.1 (hwf t e p (List.mem_of_getElem? hj))
  have hil : i < h.length := by
    apply Nat.lt_of_not_le; intro hle
    have hi₀l := lt_of_getElem?_some hi₀
    exact hf.2 i₀ t e p (by omega) (getElem?_append_old hi₀)
  obtain ⟨m, t'', hm1, hm2⟩ := H i j t e p (firstPub_restrict hf hil) hj k t' o c hk
    (aliveUntil_append (by omega) hal)
  exact ⟨m, t'', hm1, getElem?_append_old hm2⟩

theorem ob_every_wf {s s' s1 : Sys} {t : Tid} {i : Instr} {rest new : List Instr} (B : OB s)
    (C : ExecCtxS s s' t i rest new s1) :
    EverySub s'.hist ∧ (∀ u e p, HEv.pubEnd u e p ∈ s'.hist → HEv.pubBegin u e p ∈ s'.hist) := by
  obtain ⟨evs, hevs, hne⟩ := C.tr.hist_ext'
  rw [C.hist, hevs]
  have hne' : ∀ ev ∈ evs, (∀ u e p, ev ≠ HEv.pubEnd u e p) ∧ (∀ u o c, ev ≠ HEv.subRet u o c) := by
    intro ev hev
    have h0 := hne ev hev
    constructor
    · intro u e p h; rw [h] at h0; cases h0
    · intro u o c h; rw [h] at h0; cases h0
  refine ⟨everySub_append B.every B.wf hne', ?_⟩
  intro u e p hin
  rcases List.mem_append.1 hin with g | g
  · exact List.mem_append_left _ (B.wf u e p g)
  · have := hne _ g; simp [HEv.isEnd] at this

end CG.Model.Rx
namespace CG.Model.Rx
open CG.Spec.EventSpec

/-- the snapshot stays "not taken" across any step other than the snapshot itself -/
theorem not_snapTaken_keep {s s' s1 : Sys} {t : Tid} {i : Instr} {rest new : List Instr} (O : OA s)
    (C : ExecCtxS s s' t i rest new s1) (hns : ¬ snapTaken s) (hi : ∀ e p, i ≠ .acqSnapS e p) : ¬ snapTaken s' := by
  intro ⟨hv', hno'⟩
  -- either the value was unset, or an `acqSnapS` was outstanding
  by_cases hv : s.value = none
  · rcases C.tr.value_cases with ⟨g, _⟩ | ⟨e₀, hi0, _, _, _, _⟩
    · rw [C.val, g] at hv'; exact hv' hv
    · -- the emission: its `acqSnapS` is now outstanding
      rename_i hs1 _ _
      subst hi0
      have hnew : Instr.acqSnapS e₀ s.nextId ∈ new := by
        cases C.tr with
        | quiet _ _ _ _ _ hvq => rw [hvq, hv] at hs1; cases hs1
        | writeF => simp
        | writeL _ v hval => rw [hv] at hval; cases hval
      have := hno' t _ (by rw [C.cont, if_pos rfl]; exact List.mem_append_left _ hnew)
      simp [Instr.isAcqSnapS] at this
  · -- an outstanding `acqSnapS` survives
    have : ∃ u j, j ∈ (s.thr u).cont ∧ j.isAcqSnapS = true := by
      apply Classical.byContradiction
      intro hne
      apply hns
      refine ⟨hv, ?_⟩
      intro u j hj
      cases hjs : j.isAcqSnapS with
      | false => rfl
      | true => exact absurd ⟨u, j, hj, hjs⟩ hne
    obtain ⟨u, j, hj, hjs⟩ := this
    obtain ⟨e, p, rfl⟩ : ∃ e p, j = .acqSnapS e p := by cases j <;> simp [Instr.isAcqSnapS] at hjs; exact ⟨_, _, rfl⟩
    have hsurv : Instr.acqSnapS e p ∈ (s'.thr u).cont := by
      rw [C.cont]; split
      · rename_i hut; subst hut
        rw [C.hc] at hj
        rcases List.mem_cons.1 hj with g | g
        · exact absurd g.symm (hi e p)
        · exact List.mem_append_right _ g
      · exact hj
    have := hno' u _ hsurv; simp [Instr.isAcqSnapS] at this

end CG.Model.Rx

namespace CG.Model.Rx
open CG.Spec.EventSpec

theorem beginEvs_subBegin {t t' : Tid} {o o' : Ob} {c c' : Nat} (h : HEv.subBegin t' o' c' ∈ beginEvs t o c) :
    t' = t ∧ o' = o ∧ c' = c := by
  cases o <;> simp [beginEvs] at h <;> exact h

theorem ob_served {s s' s1 : Sys} {t : Tid} {i : Instr} {rest new : List Instr} (A : HA s) (O : OA s) (B : OB s)
    (C : ExecCtxS s s' t i rest new s1) :
    ∀ t' o c, HEv.subBegin t' (.user o) c ∈ s'.hist → s'.owner o = true →
      (∃ u e p, HEv.deliver u (.user o) c e p ∈ s'.hist) ∨
      (∃ u e p, (Ob.user o, c, e, p) ∈ contPend (s'.thr u).cont) ∨
      Instr.acqPushR (.user o) c ∈ (s'.thr t').cont ∨
      ((⟨.user o, c⟩ : Entry) ∈ s'.observers ∧ ¬ snapTaken s') := by
  obtain ⟨evs, hevs, _⟩ := C.tr.hist_ext'
  have mono : ∀ ev, ev ∈ s.hist → ev ∈ s'.hist := fun ev h => by rw [C.hist, hevs]; exact List.mem_append_left _ h
  intro t' o c hsb ho
  have hown : s.owner o = true := by
    rw [C.own] at ho
    cases C.tr with
    | quiet _ _ _ hw => rwa [hw] at ho
    | dropO o' _ _ hw =>
      rw [hw] at ho; by_cases h : o = o'
      · subst h; simp at ho
      · rwa [upd_other _ _ _ _ h] at ho
    | deliver _ _ _ _ _ _ hw => rwa [hw] at ho
    | putR _ _ _ _ _ _ _ hw => rwa [hw] at ho
    | readD _ _ _ _ _ _ hw => rwa [hw] at ho
    | readP _ _ _ _ hw => rwa [hw] at ho
    | pushR _ _ _ _ hw => rwa [hw] at ho
    | writeF _ _ _ _ _ hw => rwa [hw] at ho
    | writeL _ _ _ _ _ hw => rwa [hw] at ho
    | snapS _ _ _ _ hw => rwa [hw] at ho
    | rel _ _ _ _ _ hw => rwa [hw] at ho
  rw [C.hist, hevs] at hsb
  rcases List.mem_append.1 hsb with hold | hnew
  · -- a subscription that had begun before this step
    rcases B.served t' o c hold hown with ⟨u, e, p, hd⟩ | ⟨u, e, p, hp⟩ | hpush | ⟨hl, hns⟩
    · exact .inl ⟨u, e, p, mono _ hd⟩
    · -- an obligation: it stays, moves, or is discharged by this step
      by_cases hut : u = t
      · subst hut
        rw [C.hc, contPend_cons] at hp
        rcases List.mem_append.1 hp with g | g
        · cases C.tr with
          | quiet hib => rw [hib.1.1] at g; cases g
          | dropO => simp [Instr.pend] at g
          | deliver o' c' e' p' hh =>
            simp [Instr.pend] at g
            obtain ⟨rfl, rfl, rfl, rfl⟩ := g
            exact .inl ⟨u, e, p, by rw [C.hist, hh]; simp⟩
          | putR => simp [Instr.pend] at g
          | readD => simp [Instr.pend] at g
          | readP => simp [Instr.pend] at g
          | pushR => simp [Instr.pend] at g
          | writeF => simp [Instr.pend] at g
          | writeL => simp [Instr.pend] at g
          | snapS => simp [Instr.pend] at g
          | rel snap e' p' =>
            right; left
            refine ⟨u, e, p, ?_⟩
            rw [C.cont, if_pos rfl, contPend_append, contPend_append, contPend_flatMap_deliver]
            apply List.mem_append_left; apply List.mem_append_left
            simpa [Instr.pend] using g
        · right; left
          exact ⟨u, e, p, by rw [C.cont, if_pos rfl, contPend_append]; exact List.mem_append_right _ g⟩
      · right; left
        exact ⟨u, e, p, by rw [C.cont, if_neg hut]; exact hp⟩
    · -- a pending push: executed now, or still pending
      by_cases htt : t' = t
      · subst htt
        have hhead := pushR_at_head A hpush
        have hi : i = .acqPushR (.user o) c := by simpa [hd, C.hc] using hhead
        subst hi
        right; right; right
        have hvnone : s.value = none := by
          cases hv : s.value with
          | none => rfl
          | some v => have := O.noPush (by rw [hv]; simp) t' _ hpush; simp [Instr.isAcqPushR] at this
        cases C.tr with
        | quiet hib => simp [Instr.bland, Instr.ids] at hib
        | pushR _ _ _ hob _ _ hv =>
          refine ⟨by rw [C.obs, hob]; simp, ?_⟩
          intro ⟨h1, _⟩
          rw [C.val, hv] at h1; exact h1 hvnone
      · right; right; left
        rw [C.cont, if_neg htt]; exact hpush
    · -- in the list, snapshot not taken yet: the snapshot (if taken now) includes it
      by_cases hi : ∃ e p, i = .acqSnapS e p
      · obtain ⟨e, p, rfl⟩ := hi
        right; left
        refine ⟨t, e, p, ?_⟩
        rw [C.cont, if_pos rfl, contPend_append]
        apply List.mem_append_left
        cases C.tr with
        | quiet hib => simp [Instr.bland, Instr.ids] at hib
        | snapS =>
          simp only [contPend, Instr.pend, List.flatMap_cons, List.flatMap_nil, List.append_nil, List.mem_map]
          exact ⟨⟨.user o, c⟩, List.mem_filter.2 ⟨hl, by simpa using physAlive_of_owner hown⟩, rfl⟩
      · right; right; right
        have hi' : ∀ e p, i ≠ .acqSnapS e p := fun e p h => hi ⟨e, p, h⟩
        refine ⟨?_, not_snapTaken_keep O C hns hi'⟩
        rw [C.obs]
        cases C.tr with
        | quiet _ _ hob => rw [hob]; exact hl
        | dropO _ _ hob => rw [hob]; exact hl
        | deliver _ _ _ _ _ hob => rw [hob]; exact hl
        | putR _ _ _ _ _ _ hob => rw [hob]; exact hl
        | readD _ _ _ _ _ hob => rw [hob]; exact hl
        | readP _ _ _ hob => rw [hob]; exact hl
        | pushR _ _ _ hob => rw [hob]; exact List.mem_append_left _ hl
        | writeF _ _ _ _ hob => rw [hob]; exact hl
        | writeL _ _ _ _ hob => rw [hob]; exact hl
        | snapS e p => exact absurd rfl (hi' e p)
        | rel _ _ _ _ hob => rw [hob]; exact hl
  · -- the subscription begins with this very step
    cases C.tr with
    | quiet _ hh =>
      rcases hh with hh | hh
      · rw [hh] at hevs; have := List.append_cancel_left (hevs.symm.trans (List.append_nil _).symm)
        subst this; cases hnew
      · rw [hh] at hevs; have := List.append_cancel_left hevs; subst this; simp at hnew
    | dropO _ hh => rw [hh] at hevs; have := List.append_cancel_left hevs; subst this; simp at hnew
    | deliver _ _ _ _ hh => rw [hh] at hevs; have := List.append_cancel_left hevs; subst this; simp at hnew
    | putR _ _ _ _ _ hh => rw [hh] at hevs; have := List.append_cancel_left hevs; subst this; simp at hnew
    | readD ob v p0 _ hh =>
      rw [hh] at hevs; have := List.append_cancel_left hevs; subst this
      obtain ⟨rfl, rfl, rfl⟩ := beginEvs_subBegin hnew
      right; left
      refine ⟨t', v, p0, ?_⟩
      rw [C.cont, if_pos rfl, contPend_append, contPend_append, contPend_cons, contPend_deliverInstrs]
      simp [Instr.pend]
    | readP ob _ hh =>
      rw [hh] at hevs; have := List.append_cancel_left hevs; subst this
      obtain ⟨rfl, rfl, rfl⟩ := beginEvs_subBegin hnew
      right; right; left
      rw [C.cont, if_pos rfl]; simp
    | pushR _ _ hh =>
      rw [hh] at hevs; have := List.append_cancel_left (hevs.symm.trans (List.append_nil _).symm)
      subst this; cases hnew
    | writeF _ _ _ hh => rw [hh] at hevs; have := List.append_cancel_left hevs; subst this; simp at hnew
    | writeL _ _ _ hh => rw [hh] at hevs; have := List.append_cancel_left hevs; subst this; simp at hnew
    | snapS _ _ hh =>
      rw [hh] at hevs; have := List.append_cancel_left (hevs.symm.trans (List.append_nil _).symm)
      subst this; cases hnew
    | rel _ _ _ hh =>
      rw [hh] at hevs; have := List.append_cancel_left (hevs.symm.trans (List.append_nil _).symm)
      subst this; cases hnew

end CG.Model.Rx
namespace CG.Model.Rx
open CG.Spec.EventSpec

theorem filter_subRet_plain {l : List Instr} (h : ∀ j ∈ l, j.isSubRet = false) : l.filter Instr.isSubRet = [] :=
  List.filter_eq_nil_iff.2 (fun j hj => by simp [h j hj])

theorem ob_retOnce {s s' s1 : Sys} {t : Tid} {i : Instr} {rest new : List Instr} (E : S1 s) (B : OB s)
    (C : ExecCtxS s s' t i rest new s1) :
    ∀ u, (((s'.thr u).cont.filter Instr.isSubRet).map Instr.ids).Nodup := by
  intro u
  rw [C.cont]; split
  · rename_i hut; subst hut
    have hold := B.retOnce u
    rw [C.hc] at hold
    have hrest : ((rest.filter Instr.isSubRet).map Instr.ids).Nodup := by
      rw [List.filter_cons] at hold; split at hold
      · simp at hold; exact hold.2
      · exact hold
    have hdel : ∀ (x : Entry) (e p : Nat) (j : Instr), j ∈ deliverInstrs x e p → j.isSubRet = false := by
      intro x e p j hj; cases x with | mk ob c => cases ob <;> simp [deliverInstrs] at hj <;> subst hj <;> rfl
    have hfresh : [s.nextId] ∉ (rest.filter Instr.isSubRet).map Instr.ids := by
      intro hin
      obtain ⟨j, hj, hjid⟩ := List.mem_map.1 hin
      have := E.bCont u j (mem_cont_of_rest C.hc (List.mem_filter.1 hj).1) s.nextId (by rw [hjid]; simp)
      exact Nat.lt_irrefl _ this
    rw [List.filter_append, List.map_append]
    cases C.tr with
    | quiet _ _ _ _ _ _ hnew =>
      rw [filter_subRet_plain]; · simpa using hrest
      intro j hj
      cases hjs : j.isSubRet with
      | false => rfl
      | true => cases j <;> simp [Instr.isSubRet] at hjs; exact absurd rfl ((hnew _ hj).1.2.2.1 _ _)
    | dropO => simpa using hrest
    | deliver _ _ _ _ _ _ _ _ _ hnew =>
      rw [filter_subRet_plain]; · simpa using hrest
      rcases hnew with rfl | ⟨k, rfl⟩ <;> simp [Instr.isSubRet]
    | putR => rw [filter_subRet_plain (by simp [Instr.isSubRet])]; simpa using hrest
    | readD o v p0 =>
      have : (Instr.relRead :: deliverInstrs ⟨o, s.nextId⟩ v p0 ++ [Instr.mSubRet o s.nextId]).filter Instr.isSubRet =
          [Instr.mSubRet o s.nextId] := by
        rw [List.filter_append, filter_subRet_plain]; · simp [Instr.isSubRet]
        intro j hj
        rcases List.mem_cons.1 hj with rfl | hj
        · rfl
        · exact hdel _ _ _ _ hj
      rw [this]
      simp only [List.map_cons, List.map_nil, Instr.ids, List.singleton_append]
      exact List.nodup_cons.2 ⟨hfresh, hrest⟩
    | readP o =>
      have : [Instr.acqPushR o s.nextId, Instr.mSubRet o s.nextId].filter Instr.isSubRet = [Instr.mSubRet o s.nextId] := by
        simp [List.filter, Instr.isSubRet]
      rw [this]
      simp only [List.map_cons, List.map_nil, Instr.ids, List.singleton_append]
      exact List.nodup_cons.2 ⟨hfresh, hrest⟩
    | pushR => rw [filter_subRet_plain (by simp [Instr.isSubRet])]; simpa using hrest
    | writeF => rw [filter_subRet_plain (by simp [Instr.isSubRet])]; simpa using hrest
    | writeL => rw [filter_subRet_plain (by simp [Instr.isSubRet])]; simpa using hrest
    | snapS => rw [filter_subRet_plain (by simp [Instr.isSubRet])]; simpa using hrest
    | rel snap e p =>
      rw [filter_subRet_plain]; · simpa using hrest
      intro j hj
      rcases List.mem_append.1 hj with hj | hj
      · obtain ⟨x, _, hx⟩ := mem_flatMap_deliver hj; exact hdel _ _ _ _ hx
      · simp at hj; subst hj; rfl
  · exact B.retOnce u

theorem OB_exec {s s' : Sys} {t : Tid} {i : Instr} {rest : List Instr} (A : HA s) (E : S1 s) (O : OA s) (B : OB s)
    (hc : (s.thr t).cont = i :: rest) (h : exec s t i rest = some s') : OB s' := by
  obtain ⟨new, s1, C⟩ := execCtxS_of A E hc h
  obtain ⟨b1, b2, b3, b4, b5, b6, b7⟩ := ob_batch1 E B C
  obtain ⟨e1, e2⟩ := ob_every_wf B C
  exact ⟨b1, b2, ob_pubUniq E B C, b3, b4, b5, ob_retOnce E B C, b6, b7, ob_pendClass O B C, ob_subOk E B C,
    ob_endTaken E O B C, e2, ob_served A O B C, e1⟩

end CG.Model.Rx
namespace CG.Model.Rx
open CG.Spec.EventSpec

/-- "every subscriber is served" across one appended event; the new instances are the caller's business -/
theorem everySub_snoc {h : Hist} {ev : HEv} (H : EverySub h)
    (hwf : ∀ t e p, HEv.pubEnd t e p ∈ h → HEv.pubBegin t e p ∈ h)
    (hbeg : ∀ t e p, ev = HEv.pubEnd t e p → HEv.pubBegin t e p ∈ h)
    (hnewRet : ∀ (t' o c : Nat), ev = HEv.subRet t' (Ob.user o) c → ∀ (i j t e p : Nat), FirstPub h i t e p →
      h[j]? = some (HEv.pubEnd t e p) → AliveUntil h o h.length →
      ∃ (m t'' : Nat), m < h.length ∧ h[m]? = some (HEv.deliver t'' (Ob.user o) c e p))
    (hnewEnd : ∀ (t e p : Nat), ev = HEv.pubEnd t e p → ∀ (i : Nat), FirstPub h i t e p →
      ∀ (k t' o c : Nat), h[k]? = some (HEv.subRet t' (Ob.user o) c) → AliveUntil h o h.length →
      ∃ (m t'' : Nat), m < h.length ∧ h[m]? = some (HEv.deliver t'' (Ob.user o) c e p)) :
    EverySub (h ++ [ev]) := by
  intro i j t e p hf hj k t' o c hk hal
  -- the publication began inside `h`
  have hbegin : HEv.pubBegin t e p ∈ h := by
    rcases getElem?_snoc hj with g | ⟨_, g⟩
    · exact hwf t e p (List.mem_of_getElem? g)
    · exact hbeg t e p g.symm
  obtain ⟨i₀, hi₀⟩ := List.mem_iff_getElem?.1 hbegin
  have hil : i < h.length := by
    apply Nat.lt_of_not_le; intro hle
    have hi₀l := lt_of_getElem?_some hi₀
    exact hf.2 i₀ t e p (by omega) (getElem?_snoc_old hi₀)
  have hf' : FirstPub h i t e p := firstPub_restrict hf hil
  rcases getElem?_snoc hj with gj | ⟨hjl, gj⟩
  · rcases getElem?_snoc hk with gk | ⟨hkl, gk⟩
    · have hjl := lt_of_getElem?_some gj
      have hkl := lt_of_getElem?_some gk
      obtain ⟨m, t'', hm1, hm2⟩ := H i j t e p hf' gj k t' o c gk (aliveUntil_append (by omega) hal)
      exact ⟨m, t'', hm1, getElem?_snoc_old hm2⟩
    · have hjl := lt_of_getElem?_some gj
      have hmax : max j k = h.length := by omega
      rw [hmax] at hal
      obtain ⟨m, t'', hm1, hm2⟩ := hnewRet t' o c gk.symm i j t e p hf' gj (aliveUntil_append (Nat.le_refl _) hal)
      exact ⟨m, t'', .inr (by omega), getElem?_snoc_old hm2⟩
  · rcases getElem?_snoc hk with gk | ⟨hkl, gk⟩
    · have hkl := lt_of_getElem?_some gk
      have hmax : max j k = h.length := by omega
      rw [hmax] at hal
      obtain ⟨m, t'', hm1, hm2⟩ := hnewEnd t e p gj.symm i hf' k t' o c gk (aliveUntil_append (Nat.le_refl _) hal)
      exact ⟨m, t'', .inl (by omega), getElem?_snoc_old hm2⟩
    · rw [← gj] at gk; cases gk

end CG.Model.Rx
namespace CG.Model.Rx
open CG.Spec.EventSpec

/-- the frame of a marker pop: what is common to the four markers -/
structure PopCtx (s s' : Sys) (t : Tid) (m : Instr) (k : List Instr) (evs : Hist) : Prop where
  hc : (s.thr t).cont = m :: k
  hm : m.isMarker = true
  hr : m.isRep = true
  cont : ∀ u, (s'.thr u).cont = if u = t then k else (s.thr u).cont
  hist : s'.hist = s.hist ++ evs
  obs : s'.observers = s.observers
  own : s'.owner = s.owner
  val : s'.value = s.value
  evs : (∃ o c, m = .mSubRet o c ∧ evs = [HEv.subRet t o c]) ∨ (∃ e p, m = .mPubEnd e p ∧ evs = [HEv.pubEnd t e p]) ∨
        ((∀ o c, m ≠ .mSubRet o c) ∧ (∀ e p, m ≠ .mPubEnd e p) ∧
          ∀ ev ∈ evs, ev.isPubBegin = false ∧ ev.isSubBegin = false ∧ (∀ c, ev.isDelC c = false) ∧
            (∀ u e p, ev ≠ HEv.pubEnd u e p) ∧ (∀ u o c, ev ≠ HEv.subRet u o c) ∧ (∀ u o, ev ≠ HEv.dropO u o))

theorem popCtx_of (s : Sys) (t : Tid) (m : Instr) (k : List Instr) (hc : (s.thr t).cont = m :: k)
    (hm : m.isMarker = true) (hr : m.isRep = true) : ∃ evs, PopCtx s (popMark s t m k) t m k evs := by
  have hcont : ∀ u, ((popMark s t m k).thr u).cont = if u = t then k else (s.thr u).cont := by
    intro u; by_cases h : u = t
    · subst h; simp [popMark_cont s u m k hm hr]
    · simp [popMark_thr_other s t u m k h, h]
  have hown : (popMark s t m k).owner = s.owner := by cases m <;> simp [popMark, Sys.setCont_eq]
  cases m <;> simp [Instr.isMarker, Instr.isRep] at hm hr
  · exact ⟨_, hc, rfl, rfl, hcont, rfl, rfl, hown, rfl, .inl ⟨_, _, rfl, rfl⟩⟩
  · exact ⟨[], hc, rfl, rfl, hcont, by simp [popMark, Sys.setCont_eq], rfl, hown, rfl, .inr (.inr ⟨by simp, by simp, by simp⟩)⟩
  · exact ⟨_, hc, rfl, rfl, hcont, rfl, rfl, hown, rfl, .inr (.inl ⟨_, _, rfl, rfl⟩)⟩
  · refine ⟨[_], hc, rfl, rfl, hcont, rfl, rfl, hown, rfl, .inr (.inr ⟨by simp, by simp, ?_⟩)⟩
    intro ev hev; simp at hev; subst hev
    exact ⟨rfl, rfl, fun _ => rfl, by simp, by simp, by simp⟩

end CG.Model.Rx

namespace CG.Model.Rx
open CG.Spec.EventSpec

theorem PopCtx.snapTaken_iff {s s' : Sys} {t : Tid} {m : Instr} {k : List Instr} {evs : Hist}
    (P : PopCtx s s' t m k evs) : snapTaken s' ↔ snapTaken s := by
  constructor
  · intro ⟨h1, h2⟩
    refine ⟨by rw [← P.val]; exact h1, ?_⟩
    intro u j hj
    by_cases hut : u = t
    · subst hut
      rw [P.hc] at hj
      rcases List.mem_cons.1 hj with g | g
      · subst g; have := P.hm; cases j <;> simp [Instr.isMarker] at this <;> rfl
      · exact h2 u j (by rw [P.cont, if_pos rfl]; exact g)
    · exact h2 u j (by rw [P.cont, if_neg hut]; exact hj)
  · intro ⟨h1, h2⟩
    refine ⟨by rw [P.val]; exact h1, ?_⟩
    intro u j hj
    rw [P.cont] at hj; split at hj
    · rename_i hut; subst hut; exact h2 u j (by rw [P.hc]; exact List.mem_cons_of_mem _ hj)
    · exact h2 u j hj

/-- the first publication of a history fixes the value slot -/
theorem value_of_firstPub {s : Sys} (O : OA s) {i t e p : Nat} (hf : FirstPub s.hist i t e p) : s.value = some (e, p) := by
  cases hv : s.value with
  | none => have := O.valNone hv _ (List.mem_of_getElem? hf.1); simp [HEv.isPubBegin] at this
  | some v =>
    obtain ⟨e', p'⟩ := v
    obtain ⟨i', t', hf'⟩ := O.valFirst e' p' hv
    obtain ⟨_, _, h3, h4⟩ := firstPub_unique hf hf'
    rw [h3, h4]

theorem OB_pop {s : Sys} {t : Tid} {m : Instr} {k : List Instr} (A : HA s) (E : S1 s) (O : OA s) (B : OB s)
    (hc : (s.thr t).cont = m :: k) (hm : m.isMarker = true) (hr : m.isRep = true) : OB (popMark s t m k) := by
  obtain ⟨evs, P⟩ := popCtx_of s t m k hc hm hr
  generalize popMark s t m k = s' at P
  have mono : ∀ ev, ev ∈ s.hist → ev ∈ s'.hist := fun ev h => by rw [P.hist]; exact List.mem_append_left _ h
  have memK : ∀ u j, j ∈ (s'.thr u).cont → j ∈ (s.thr u).cont := by
    intro u j hj
    rw [P.cont] at hj; split at hj
    · rename_i hut; subst hut; rw [hc]; exact List.mem_cons_of_mem _ hj
    · exact hj
  have hpk : contPend (s.thr t).cont = contPend k := by rw [hc, contPend_cons, marker_pend hm hr]; rfl
  have pendEq : ∀ u, contPend (s'.thr u).cont = contPend (s.thr u).cont := by
    intro u; rw [P.cont]; split
    · rename_i hut; subst hut; exact hpk.symm
    · rfl
  have hsubok : subOkL k = true := subOkL_tail (by have := B.subOk t; rwa [hc] at this)
  have heok := E.eok t
  rw [hc] at heok
  -- events of the history that are old
  have oldOf : ∀ ev ∈ s'.hist, ev ∈ s.hist ∨ ev ∈ evs := fun ev h => by rw [P.hist] at h; exact List.mem_append.1 h
  refine ⟨?_, ?_, ?_, ?_, ?_, ?_, ?_, ?_, ?_, ?_, ?_, ?_, ?_, ?_, ?_⟩
  · -- endNot
    intro u e p hj hin
    rcases oldOf _ hin with g | g
    · exact B.endNot u e p (memK u _ hj) g
    · rcases P.evs with ⟨o, c, _, rfl⟩ | ⟨e', p', hme, rfl⟩ | ⟨_, _, hh⟩
      · simp at g
      · simp at g; obtain ⟨rfl, rfl, rfl⟩ := g
        subst hme
        have hk := endOk_pubEnd_head heok
        rw [P.cont, if_pos rfl, hk] at hj; cases hj
      · exact (hh _ g).2.2.2.1 u e p rfl
  · intro u e p hj; exact mono _ (B.begun u e p (memK u _ hj))
  · -- pubUniq
    rw [P.hist]
    apply pubUniq_append B.pubUniq
    intro ev hev
    rcases P.evs with ⟨o, c, _, rfl⟩ | ⟨e', p', _, rfl⟩ | ⟨_, _, hh⟩
    · simp at hev; subst hev; rfl
    · simp at hev; subst hev; rfl
    · exact (hh ev hev).1
  · intro u o c hj; exact mono _ (B.retSub u o c (memK u _ hj))
  · -- retHist
    intro u o c hin
    rcases oldOf _ hin with g | g
    · exact mono _ (B.retHist u o c g)
    · rcases P.evs with ⟨o', c', hme, rfl⟩ | ⟨e', p', _, rfl⟩ | ⟨_, _, hh⟩
      · simp at g; obtain ⟨rfl, rfl, rfl⟩ := g
        exact mono _ (B.retSub u o c (by rw [hc, hme]; exact List.mem_cons_self))
      · simp at g
      · exact absurd rfl ((hh _ g).2.2.2.2.1 u o c)
  · -- retNot
    intro u o c hj hin
    rcases oldOf _ hin with g | g
    · exact B.retNot u o c (memK u _ hj) g
    · rcases P.evs with ⟨o', c', hme, rfl⟩ | ⟨e', p', _, rfl⟩ | ⟨_, _, hh⟩
      · simp at g; obtain ⟨rfl, rfl, rfl⟩ := g
        -- a second marker for the same subscription in `k`
        rw [P.cont, if_pos rfl] at hj
        have hone := B.retOnce u
        rw [hc, hme, List.filter_cons] at hone
        simp only [Instr.isSubRet, if_true, List.map_cons, Instr.ids] at hone
        have := (List.nodup_cons.1 hone).1
        exact this (List.mem_map.2 ⟨_, List.mem_filter.2 ⟨hj, rfl⟩, rfl⟩)
      · simp at g
      · exact absurd rfl ((hh _ g).2.2.2.2.1 u o c)
  · -- retOnce
    intro u
    rw [P.cont]; split
    · rename_i hut; subst hut
      have hone := B.retOnce u
      rw [hc, List.filter_cons] at hone
      split at hone
      · simp at hone; exact hone.2
      · exact hone
    · exact B.retOnce u
  · intro o ho; rw [P.own] at ho; obtain ⟨u, hu⟩ := B.dropped o ho; exact ⟨u, mono _ hu⟩
  · -- snapEnd
    intro u e p hj
    have hold := B.snapEnd u e p (memK u _ hj)
    rw [P.cont] at hj ⊢; split at hj
    · rename_i hut; subst hut; rw [if_pos rfl]
      rw [hc] at hold
      rcases List.mem_cons.1 hold with g | g
      · rw [← g] at heok; have := endOk_pubEnd_head heok; rw [this] at hj; cases hj
      · exact g
    · rename_i hut; rw [if_neg hut]; exact hold
  · -- pendClass
    intro u ob c e p hx
    rw [pendEq] at hx
    rw [P.obs]
    rcases B.pendClass u ob c e p hx with g | ⟨g1, g2⟩
    · left
      rw [P.cont]; split
      · rename_i hut; subst hut
        rw [hc] at g
        rcases List.mem_cons.1 g with h | h
        · -- the marker popped is this obligation's: excluded by `subOk`
          exfalso
          have hsok := B.subOk u; rw [hc, ← h] at hsok
          rw [hpk] at hx
          exact subOkL_head hsok _ hx rfl
        · exact h
      · exact g
    · right
      refine ⟨g1, ?_⟩
      rw [P.cont]; split
      · rename_i hut; subst hut
        rw [hc] at g2
        rcases List.mem_cons.1 g2 with h | h
        · exfalso
          rw [← h] at heok; have := endOk_pubEnd_head heok
          rw [hpk, this] at hx; simp [contPend] at hx
        · exact h
      · exact g2
  · -- subOk
    intro u; rw [P.cont]; split
    · exact hsubok
    · exact B.subOk u
  · -- endTaken
    intro u e p hin hv
    rw [P.val] at hv
    rw [P.snapTaken_iff]
    rcases oldOf _ hin with g | g
    · exact B.endTaken u e p g hv
    · rcases P.evs with ⟨o', c', _, rfl⟩ | ⟨e', p', hme, rfl⟩ | ⟨_, _, hh⟩
      · simp at g
      · simp at g; obtain ⟨rfl, rfl, rfl⟩ := g
        -- the emission ends: its `acqSnapS` has been executed, nobody else has one
        refine ⟨by rw [hv]; simp, ?_⟩
        intro w j hj
        cases hjs : j.isAcqSnapS with
        | false => rfl
        | true =>
          exfalso
          obtain ⟨e₁, p₁, rfl⟩ : ∃ e p, j = .acqSnapS e p := by cases j <;> simp [Instr.isAcqSnapS] at hjs; exact ⟨_, _, rfl⟩
          have hv1 := O.snapVal w e₁ p₁ hj
          rw [hv] at hv1; injection hv1 with hv1; injection hv1 with h1 h2; subst h1 h2
          have hend := B.snapEnd w e p hj
          have hb1 := B.begun w e p hend
          have hb2 := B.begun u e p (by rw [hc, hme]; exact List.mem_cons_self)
          obtain ⟨i1, hi1⟩ := List.mem_iff_getElem?.1 hb1
          obtain ⟨i2, hi2⟩ := List.mem_iff_getElem?.1 hb2
          have hwu : w = u := (B.pubUniq i1 i2 w u e e p hi1 hi2).2
          subst hwu
          subst hme
          have hk := endOk_pubEnd_head heok
          rw [hc, hk] at hj; simp at hj
      · exact absurd rfl ((hh _ g).2.2.2.1 u e p)
  · -- wf
    intro u e p hin
    rcases oldOf _ hin with g | g
    · exact mono _ (B.wf u e p g)
    · rcases P.evs with ⟨o', c', _, rfl⟩ | ⟨e', p', hme, rfl⟩ | ⟨_, _, hh⟩
      · simp at g
      · simp at g; obtain ⟨rfl, rfl, rfl⟩ := g
        exact mono _ (B.begun u e p (by rw [hc, hme]; exact List.mem_cons_self))
      · exact absurd rfl ((hh _ g).2.2.2.1 u e p)
  · -- served
    intro t' o c hsb ho
    rw [P.own] at ho
    have hsb' : HEv.subBegin t' (.user o) c ∈ s.hist := by
      rcases oldOf _ hsb with g | g
      · exact g
      · rcases P.evs with ⟨o', c', _, rfl⟩ | ⟨e', p', _, rfl⟩ | ⟨_, _, hh⟩
        · simp at g
        · simp at g
        · have := (hh _ g).2.1; simp [HEv.isSubBegin] at this
    rcases B.served t' o c hsb' ho with ⟨u, e, p, hd⟩ | ⟨u, e, p, hp⟩ | hpush | ⟨hl, hns⟩
    · exact .inl ⟨u, e, p, mono _ hd⟩
    · exact .inr (.inl ⟨u, e, p, by rw [pendEq]; exact hp⟩)
    · right; right; left
      rw [P.cont]; split
      · rename_i htt; subst htt
        rw [hc] at hpush
        rcases List.mem_cons.1 hpush with h | h
        · rw [← h] at hm; simp [Instr.isMarker] at hm
        · exact h
      · exact hpush
    · exact .inr (.inr (.inr ⟨by rw [P.obs]; exact hl, fun h => hns (P.snapTaken_iff.1 h)⟩))
  · -- every
    rw [P.hist]
    -- a delivery recorded for a subscription carries the value of the first publication
    have delVal : ∀ (o c u e'' p'' i₁ t₁ e p : Nat), HEv.deliver u (.user o) c e'' p'' ∈ s.hist → FirstPub s.hist i₁ t₁ e p →
        ∃ (m t'' : Nat), m < s.hist.length ∧ s.hist[m]? = some (HEv.deliver t'' (.user o) c e p) := by
      intro o c u e'' p'' i₁ t₁ e p hd hf
      obtain ⟨m, hm⟩ := List.mem_iff_getElem?.1 hd
      obtain ⟨i₂, t₂, _, hf2⟩ := O.safe.oneValue m u (.user o) c e'' p'' hm
      obtain ⟨_, _, h3, h4⟩ := firstPub_unique hf hf2
      subst h3 h4
      exact ⟨m, u, lt_of_getElem?_some hm, hm⟩
    have ownerOf : ∀ o, AliveUntil s.hist o s.hist.length → s.owner o = true := by
      intro o hal
      cases ho : s.owner o with
      | true => rfl
      | false =>
        obtain ⟨u, hu⟩ := B.dropped o ho
        obtain ⟨m, hm⟩ := List.mem_iff_getElem?.1 hu
        exact absurd hm (hal m u (lt_of_getElem?_some hm))
    rcases P.evs with ⟨ob, c, hme, rfl⟩ | ⟨e, p, hme, rfl⟩ | ⟨_, _, hh⟩
    · -- a subscription returns
      subst hme
      refine everySub_snoc B.every B.wf (by intro _ _ _ h; cases h) ?_ (by intro _ _ _ h; cases h)
      intro t' o c' hev i j t₀ e p hf hj hal
      injection hev with h1 h2 h3; subst h1 h2 h3
      have hown := ownerOf o hal
      have hval := value_of_firstPub O hf
      have hsb := B.retSub t (.user o) c (by rw [hc]; exact List.mem_cons_self)
      rcases B.served t o c hsb hown with ⟨u, e'', p'', hd⟩ | ⟨u, e'', p'', hp⟩ | hpush | ⟨hl, hns⟩
      · exact delVal o c u e'' p'' i t₀ e p hd hf
      · exfalso
        rcases B.pendClass u _ _ _ _ hp with g | ⟨_, g⟩
        · -- its own direct service would have to come after the marker
          have hsb2 := B.retSub u _ _ g
          obtain ⟨i1, hi1⟩ := List.mem_iff_getElem?.1 hsb
          obtain ⟨i2, hi2⟩ := List.mem_iff_getElem?.1 hsb2
          have hut : t = u := (O.subUniq i1 i2 t u _ _ c hi1 hi2).2.1
          subst hut
          rw [hpk] at hp
          have hsok := B.subOk t; rw [hc] at hsok
          exact subOkL_head hsok _ hp rfl
        · -- a snapshot obligation would sit with the emitter, whose publication has ended
          have hv2 := O.pendVal u _ _ _ _ hp
          rw [hval] at hv2; injection hv2 with hv2; injection hv2 with h1 h2; subst h1 h2
          have hb1 := B.begun u e p g
          obtain ⟨i1, hi1⟩ := List.mem_iff_getElem?.1 hb1
          have hut : u = t₀ := (B.pubUniq i1 i u t₀ e e p hi1 hf.1).2
          subst hut
          exact B.endNot u e p g (List.mem_of_getElem? hj)
      · exfalso
        rw [hc] at hpush
        rcases List.mem_cons.1 hpush with g | g
        · cases g
        · have := A.tf t _ (by rw [hc]; exact g); simp [Instr.headOnly] at this
      · exact absurd (B.endTaken t₀ e p (List.mem_of_getElem? hj) hval) hns
    · -- a publication ends
      subst hme
      have hk := endOk_pubEnd_head heok
      have hin : Instr.mPubEnd e p ∈ (s.thr t).cont := by rw [hc]; exact List.mem_cons_self
      refine everySub_snoc B.every B.wf ?_ (by intro _ _ _ h; cases h) ?_
      · intro t₁ e₁ p₁ h; injection h with h1 h2 h3; subst h1 h2 h3; exact B.begun t e p hin
      · intro t₁ e₁ p₁ hev i hf k₀ t' o c hk₀ hal
        injection hev with h1 h2 h3; subst h1 h2 h3
        have hown := ownerOf o hal
        have hval := value_of_firstPub O hf
        have hsb := B.retHist t' (.user o) c (List.mem_of_getElem? hk₀)
        rcases B.served t' o c hsb hown with ⟨u, e'', p'', hd⟩ | ⟨u, e'', p'', hp⟩ | hpush | ⟨hl, hns⟩
        · exact delVal o c u e'' p'' i t e p hd hf
        · exfalso
          rcases B.pendClass u _ _ _ _ hp with g | ⟨_, g⟩
          · have hsb2 := B.retSub u _ _ g
            obtain ⟨i1, hi1⟩ := List.mem_iff_getElem?.1 hsb
            obtain ⟨i2, hi2⟩ := List.mem_iff_getElem?.1 hsb2
            have hut : t' = u := (O.subUniq i1 i2 t' u _ _ c hi1 hi2).2.1
            subst hut
            exact B.retNot t' _ _ g (List.mem_of_getElem? hk₀)
          · have hv2 := O.pendVal u _ _ _ _ hp
            rw [hval] at hv2; injection hv2 with hv2; injection hv2 with h1 h2; subst h1 h2
            have hb1 := B.begun u e p g
            obtain ⟨i1, hi1⟩ := List.mem_iff_getElem?.1 hb1
            have hut : u = t := (B.pubUniq i1 i u t e e p hi1 hf.1).2
            subst hut
            rw [hpk, hk] at hp; simp [contPend] at hp
        · exfalso
          have := O.noPush (by rw [hval]; simp) t' _ hpush; simp [Instr.isAcqPushR] at this
        · exfalso
          apply hns
          refine ⟨by rw [hval]; simp, ?_⟩
          intro w j hj
          cases hjs : j.isAcqSnapS with
          | false => rfl
          | true =>
            exfalso
            obtain ⟨e₁, p₁, rfl⟩ : ∃ e p, j = .acqSnapS e p := by cases j <;> simp [Instr.isAcqSnapS] at hjs; exact ⟨_, _, rfl⟩
            have hv1 := O.snapVal w e₁ p₁ hj
            rw [hval] at hv1; injection hv1 with hv1; injection hv1 with h1 h2; subst h1 h2
            have hb1 := B.begun w e p (B.snapEnd w e p hj)
            obtain ⟨i1, hi1⟩ := List.mem_iff_getElem?.1 hb1
            have hwu : w = t := (B.pubUniq i1 i w t e e p hi1 hf.1).2
            subst hwu
            rw [hc, hk] at hj; simp at hj
    · exact everySub_append B.every B.wf (fun ev hev => ⟨(hh ev hev).2.2.2.1, (hh ev hev).2.2.2.2.1⟩)

end CG.Model.Rx
namespace CG.Model.Rx
open CG.Spec.EventSpec

/-- an instruction the progress invariant talks about -/
def Instr.special (j : Instr) : Bool := j.isPubEnd || j.isSubRet || j.isAcqSnapS || j.isAcqPushR

/-- `OB` across a change of thread `t`'s continuation that keeps every special instruction and every
    obligation, and leaves history, observers, owners and value alone -/
theorem OB_frame {s s' : Sys} {t : Tid} {c' : List Instr} (B : OB s)
    (hcont : ∀ u, (s'.thr u).cont = if u = t then c' else (s.thr u).cont)
    (hhist : s'.hist = s.hist) (hobs : s'.observers = s.observers) (hown : s'.owner = s.owner)
    (hval : s'.value = s.value)
    (hsame : ∀ j, j.special = true → (j ∈ c' ↔ j ∈ (s.thr t).cont))
    (hpend : contPend c' = contPend (s.thr t).cont)
    (hsubok : subOkL c' = true)
    (hret : ((c'.filter Instr.isSubRet).map Instr.ids).Nodup) : OB s' := by
  have memIff : ∀ u j, j.special = true → (j ∈ (s'.thr u).cont ↔ j ∈ (s.thr u).cont) := by
    intro u j hj; rw [hcont]; split
    · rename_i hut; subst hut; exact hsame j hj
    · exact Iff.rfl
  have pendEq : ∀ u, contPend (s'.thr u).cont = contPend (s.thr u).cont := by
    intro u; rw [hcont]; split
    · rename_i hut; subst hut; exact hpend
    · rfl
  have takenIff : snapTaken s' ↔ snapTaken s := by
    constructor
    · intro ⟨h1, h2⟩
      refine ⟨by rw [← hval]; exact h1, fun u j hj => ?_⟩
      cases hjs : j.isAcqSnapS with
      | false => rfl
      | true => rw [← hjs]; exact h2 u j ((memIff u j (by simp [Instr.special, hjs])).2 hj)
    · intro ⟨h1, h2⟩
      refine ⟨by rw [hval]; exact h1, fun u j hj => ?_⟩
      cases hjs : j.isAcqSnapS with
      | false => rfl
      | true => rw [← hjs]; exact h2 u j ((memIff u j (by simp [Instr.special, hjs])).1 hj)
  refine ⟨?_, ?_, ?_, ?_, ?_, ?_, ?_, ?_, ?_, ?_, ?_, ?_, ?_, ?_, ?_⟩
  · intro u e p hj; rw [hhist]; exact B.endNot u e p ((memIff u _ (by simp [Instr.special, Instr.isPubEnd])).1 hj)
  · intro u e p hj; rw [hhist]; exact B.begun u e p ((memIff u _ (by simp [Instr.special, Instr.isPubEnd])).1 hj)
  · rw [hhist]; exact B.pubUniq
  · intro u o c hj; rw [hhist]; exact B.retSub u o c ((memIff u _ (by simp [Instr.special, Instr.isSubRet])).1 hj)
  · rw [hhist]; exact B.retHist
  · intro u o c hj; rw [hhist]; exact B.retNot u o c ((memIff u _ (by simp [Instr.special, Instr.isSubRet])).1 hj)
  · intro u; rw [hcont]; split
    · exact hret
    · exact B.retOnce u
  · intro o ho; rw [hown] at ho; rw [hhist]; exact B.dropped o ho
  · intro u e p hj
    exact (memIff u _ (by simp [Instr.special, Instr.isPubEnd])).2
      (B.snapEnd u e p ((memIff u _ (by simp [Instr.special, Instr.isAcqSnapS])).1 hj))
  · intro u ob c e p hx
    rw [pendEq] at hx; rw [hobs]
    rcases B.pendClass u ob c e p hx with g | ⟨g1, g2⟩
    · exact .inl ((memIff u _ (by simp [Instr.special, Instr.isSubRet])).2 g)
    · exact .inr ⟨g1, (memIff u _ (by simp [Instr.special, Instr.isPubEnd])).2 g2⟩
  · intro u; rw [hcont]; split
    · exact hsubok
    · exact B.subOk u
  · intro u e p hin hv; rw [hhist] at hin; rw [hval] at hv; exact takenIff.2 (B.endTaken u e p hin hv)
  · rw [hhist]; exact B.wf
  · intro t' o c hsb ho
    rw [hhist] at hsb ⊢; rw [hown] at ho
    rcases B.served t' o c hsb ho with g | ⟨u, e, p, g⟩ | g | ⟨g1, g2⟩
    · exact .inl g
    · exact .inr (.inl ⟨u, e, p, by rw [pendEq]; exact g⟩)
    · exact .inr (.inr (.inl ((memIff t' _ (by simp [Instr.special, Instr.isAcqPushR])).2 g)))
    · exact .inr (.inr (.inr ⟨by rw [hobs]; exact g1, fun h => g2 (takenIff.1 h)⟩))
  · rw [hhist]; exact B.every

theorem bland_not_special {j : Instr} (h : j.bland) : j.special = false := by
  obtain ⟨_, h2, h3, h4⟩ := h
  cases j <;> simp [Instr.special, Instr.isPubEnd, Instr.isSubRet, Instr.isAcqSnapS, Instr.isAcqPushR] <;>
    first | (simp [Instr.ids] at h4; done) | (simp [Instr.isPubEnd] at h2; done) | (exact absurd rfl (h3 _ _))

theorem OB_expand {s : Sys} {t : Tid} (A : HA s) (E : S1 s) (B : OB s) (hc : (s.thr t).cont = []) :
    OB (expand s t) := by
  cases hp : (s.thr t).prog with
  | nil => rw [expand_nil s t hp]; exact B
  | cons op ops =>
    rw [expand_cons s t op ops hp]
    obtain ⟨hprops, _⟩ := opInstrs_sing s t op A.rep E.sing
    have hbl : ∀ j ∈ opInstrs s t op, j.bland := by
      intro j hj
      obtain ⟨_, h2, h3, h4⟩ := hprops j hj
      refine ⟨h3, h2, ?_, h4⟩
      intro o c hjc; rw [hjc] at h4; simp [Instr.ids] at h4
    have hcont : ∀ u, ((s.setThr t
        { s.thr t with prog := ops, opIdx := (s.thr t).opIdx + 1, cont := opInstrs s t op }).thr u).cont =
        if u = t then opInstrs s t op else (s.thr u).cont := by
      intro u; simp [upd_apply]; split <;> simp
    have hnoret : ∀ j ∈ opInstrs s t op, j.isSubRet = false := by
      intro j hj
      cases hjs : j.isSubRet with
      | false => rfl
      | true => have := bland_not_special (hbl j hj); simp [Instr.special, hjs] at this
    have hsok : subOkL (opInstrs s t op) = true := by
      have := subOkL_append_plain (new := opInstrs s t op) (rest := []) hnoret rfl
      simpa using this
    refine OB_frame B hcont rfl rfl rfl rfl ?_ ?_ hsok ?_
    · intro j hj; rw [hc]
      constructor
      · intro h; have := bland_not_special (hbl j h); rw [hj] at this; cases this
      · intro h; cases h
    · rw [contPend_bland hbl, hc]; rfl
    · rw [filter_subRet_plain hnoret]; exact List.nodup_nil

theorem OB_spur {s s' : Sys} {t : Tid} (B : OB s) (h : spur s t = some s') : OB s' := by
  obtain ⟨a, k, rest, hc, rfl⟩ := spur_eq h
  have hcont : ∀ u, ((s.setThr t { s.thr t with woken := true }).thr u).cont = if u = t then (s.thr t).cont else (s.thr u).cont := by
    intro u; simp [upd_apply]; split <;> simp_all
  exact OB_frame B hcont rfl rfl rfl rfl (fun _ _ => Iff.rfl) rfl (B.subOk t) (B.retOnce t)

end CG.Model.Rx
namespace CG.Model.Rx
open CG.Spec.EventSpec

/-- Part 5 invariant bundle -/
structure Inv5 (s : Sys) : Prop where
  g : Good s
  v : HV s
  e : S1 s
  a : OA s
  b : OB s

theorem Inv5_settle {s : Sys} {t : Tid} (I : Inv5 s) (fuel : Nat) : Inv5 (settle fuel s t) := by
  apply settle_ind Inv5 t _ _ _ fuel s I
  · intro s m k I hc hm hr
    exact ⟨⟨HA_pop I.g.a hc hm hr, HL_pop I.g.a I.g.l hc hm hr⟩, HV_pop I.g.a I.v hc hm hr, S1_pop I.e hc hm hr,
      OA_pop I.a hc hm hr, OB_pop I.g.a I.e I.a I.b hc hm hr⟩
  · intro s I hc
    exact ⟨⟨HA_expand I.g.a hc, HL_expand I.g.a I.g.l hc⟩, HV_expand I.g.a I.v hc, S1_expand I.g.a I.e hc,
      OA_expand I.g.a I.e I.a hc, OB_expand I.g.a I.e I.b hc⟩
  · intro s m k I hc; exact I.g.a.fam t m (by simp [hc])

theorem Inv5_step {s s' : Sys} {t : Tid} (I : Inv5 s) (h : step s t = some s') : Inv5 s' := by
  obtain ⟨ht, i, rest, s1, hc, he, rfl⟩ := step_eq h
  exact Inv5_settle ⟨⟨HA_exec I.g.a ht hc he, HL_exec I.g.a I.g.l ht hc he⟩, HV_exec I.g.a I.g.l I.v ht hc he,
    S1_exec I.g.a I.e hc he, OA_exec I.g.a I.v I.e I.a hc he, OB_exec I.g.a I.e I.a I.b hc he⟩ _

theorem Inv5_act {s s' : Sys} {a : Act} (I : Inv5 s) (h : act s a = some s') : Inv5 s' := by
  cases a with
  | run t => exact Inv5_step I h
  | spur t => exact ⟨Good_spur I.g h, HV_spur I.v h, S1_spur I.e h, OA_spur I.a h, OB_spur I.b h⟩

theorem everySub_nil : EverySub [] := by
  intro i j t e p hf; simp [FirstPub] at hf

theorem Inv5_init0 (behs : List Beh) (progs : List (List Op)) : Inv5 (init0 .repaired .single behs progs) := by
  refine ⟨Good_init0 .single behs progs, HV_init0 _ _ _ _, ?_, ?_, ?_⟩
  · refine ⟨rfl, ?_, ?_, ?_, ?_, ?_, ?_, ?_⟩ <;> intros <;> simp_all [init0, contPend, endOk]
  · refine ⟨?_, ?_, ?_, ?_, ?_, ?_, ?_, ?_, ?_, ?_, ?_, ?_, ?_, ?_, ?_, ?_, ?_, singleSafe_nil⟩ <;> intros <;>
      simp_all [init0, contPend]
  · refine ⟨?_, ?_, ?_, ?_, ?_, ?_, ?_, ?_, ?_, ?_, ?_, ?_, ?_, ?_, everySub_nil⟩ <;> intros <;>
      simp_all [init0, contPend, subOkL]

theorem Inv5_startAll {s : Sys} (I : Inv5 s) (hc : ∀ t, (s.thr t).cont = []) : ∀ k, Inv5 (startAll k s) := by
  intro k
  induction k with
  | zero => exact I
  | succ k ih =>
    have h0 : ((startAll k s).thr k).cont = [] := by rw [startAll_thr_ge s k k (Nat.le_refl _)]; exact hc k
    exact ⟨⟨HA_expand ih.g.a h0, HL_expand ih.g.a ih.g.l h0⟩, HV_expand ih.g.a ih.v h0, S1_expand ih.g.a ih.e h0,
      OA_expand ih.g.a ih.e ih.a h0, OB_expand ih.g.a ih.e ih.b h0⟩

theorem Inv5_init (behs : List Beh) (progs : List (List Op)) : Inv5 (init .repaired .single behs progs) := by
  rw [init_eq]
  exact Inv5_startAll (Inv5_init0 behs progs) (fun t => rfl) _

/-- every history of the repaired algorithm on a single-shot subject satisfies `SingleOnce` — any number
    of threads, any programs, any schedule (including spurious wake-ups) -/
theorem singleOnce_reach (behs : List Beh) (progs : List (List Op)) (sched : List Act) :
    SingleOnce (runActs (init .repaired .single behs progs) sched).hist := by
  have I := runActs_inv Inv5 (fun _ _ _ I h => Inv5_act I h) sched _ (Inv5_init behs progs)
  exact ⟨I.a.safe.oneValue, I.a.safe.atMostOnce, I.b.every, I.a.safe.subscribed⟩

end CG.Model.Rx

import CG.Model.Stepping
import CG.Proofs.InterpTotal
/-!
Helper lemmas for C17 (stepping through the debugger interface preserves meaning).

* `stopWith` — the interpreter loop without the final "ENDIF missing" check, so that the state in
  which a break fires can be talked about; `runWith = stopWith` followed by `finish`.
* a run with a break coincides with the unbroken run up to the offset where it stops, and when it
  returns `ok` the unbroken run from the start equals the unbroken run resumed at the reported offset.
* states that differ only in `checkIndex` stay related under `exec` when the checker ignores its
  script argument (`Sim`, `exec_sim`, `run_sim`).
* the chaining of segments (`steppedFrom`).
-/
namespace CG.Proofs.Stepping
open CG CG.Model.Interp CG.Model.Stepping CG.Model.ScriptNum

/-! ### `exec`: what it does with `checkIndex`, and when it stops the run -/

section exec
variable {σ : Type}

/-- the checker's answers do not depend on the script argument (the only consumer of `check_index`) -/
def Checker.IgnoresScript (C : Checker σ) : Prop :=
  ∀ c sig pk s1 s2, C.checkSig c sig pk s1 = C.checkSig c sig pk s2

def setCI (k : Nat) (st : St σ) : St σ := { st with checkIndex := k }

def mapCI (k : Nat) : Outcome (Bool × St σ) → Outcome (Bool × St σ)
  | .ok (b, s) => .ok (b, setCI k s)
  | .err e => .err e
  | .panic p => .panic p

/-- the opcodes that read or write `check_index` -/
def usesCI (op : Op) : Bool :=
  match op with
  | .codesep | .checksig | .checksigverify | .checkmultisig | .checkmultisigverify => true
  | _ => false

/-- only OP_RETURN under genesis rules stops the run, and it leaves the state alone -/
theorem exec_stop (H : Hashes) (C : Checker σ) (pre : Bool) (script : Bytes) (i : Nat)
    (op : Op) (st st' : St σ) (h : exec H C pre script i op st = .ok (true, st')) :
    st' = st ∧ op = .return_ ∧ pre = false := by
  cases op
  case return_ =>
    simp only [exec] at h
    split at h
    · simp [scriptErr] at h
    · rename_i hp
      simp only [Outcome.ok.injEq, Prod.mk.injEq, true_and] at h
      exact ⟨h.symm, rfl, by simpa using hp⟩
  all_goals
    exfalso
    simp only [exec, checkSize, scriptErr, pushSlice, unaryBig, binaryBig, bitwise, hashOp, sigCheck,
      multisigOp, popU, popBig, popNum, popBool] at h
    repeat' split at h
    all_goals first
      | (simp only [Outcome.ok.injEq, reduceCtorEq, Prod.mk.injEq, Bool.false_eq_true, false_and] at h)
      | (simp at h)

@[simp] theorem mapCI_ok (k : Nat) (b : Bool) (s : St σ) : mapCI k (.ok (b, s)) = .ok (b, setCI k s) := rfl
@[simp] theorem mapCI_err (k : Nat) (e : String) : mapCI k (.err e : Outcome (Bool × St σ)) = .err e := rfl
@[simp] theorem mapCI_panic (k : Nat) (e : String) : mapCI k (.panic e : Outcome (Bool × St σ)) = .panic e := rfl
@[simp] theorem mapCI_scriptErr (k : Nat) : mapCI k (scriptErr : Outcome (Bool × St σ)) = scriptErr := rfl
theorem mapCI_ite (k : Nat) (c : Prop) [Decidable c] (a b : Outcome (Bool × St σ)) :
    mapCI k (if c then a else b) = if c then mapCI k a else mapCI k b := by
  split <;> rfl
theorem mapCI_checkSize (k n : Nat) (s : Stack) (x : Outcome (Bool × St σ)) :
    mapCI k (checkSize n s x) = checkSize n s (mapCI k x) := by
  unfold checkSize; split <;> rfl

@[simp] theorem setCI_stack (k : Nat) (st : St σ) : (setCI k st).stack = st.stack := rfl
@[simp] theorem setCI_alt (k : Nat) (st : St σ) : (setCI k st).alt = st.alt := rfl
@[simp] theorem setCI_branch (k : Nat) (st : St σ) : (setCI k st).branch = st.branch := rfl
@[simp] theorem setCI_chk (k : Nat) (st : St σ) : (setCI k st).chk = st.chk := rfl
@[simp] theorem setCI_checkIndex (k : Nat) (st : St σ) : (setCI k st).checkIndex = k := rfl
@[simp] theorem setCI_setCI (k j : Nat) (st : St σ) : setCI k (setCI j st) = setCI k st := rfl
theorem setCI_self (st : St σ) : setCI st.checkIndex st = st := rfl

theorem pushSlice_ci (script : Bytes) (off len k : Nat) (st : St σ) :
    pushSlice script off len (setCI k st) = mapCI k (pushSlice script off len st) := by
  unfold pushSlice; split <;> rfl

theorem unaryBig_ci (k : Nat) (st : St σ) (f : Int → Int) :
    unaryBig (setCI k st) f = mapCI k (unaryBig st f) := by
  unfold unaryBig
  rcases popBig_cases st.stack with ⟨e, h1⟩ | ⟨v, t, r, _, h1⟩ <;> simp [h1] <;> rfl

theorem binaryBig_ci (k : Nat) (st : St σ) (f : Int → Int → Outcome Bytes) :
    binaryBig (setCI k st) f = mapCI k (binaryBig st f) := by
  unfold binaryBig
  rcases popBig_cases st.stack with ⟨e, h1⟩ | ⟨b, t, r, _, h1⟩
  · simp [h1]
  · rcases popBig_cases r with ⟨e, h2⟩ | ⟨a, t2, r2, _, h2⟩
    · simp [h1, h2]
    · simp only [setCI_stack, h1, h2]
      cases f a b <;> rfl

theorem bitwise_ci (k : Nat) (st : St σ) (f : UInt8 → UInt8 → UInt8) :
    bitwise (setCI k st) f = mapCI k (bitwise st f) := by
  unfold bitwise
  rw [mapCI_checkSize]
  rcases hs : st.stack with _ | ⟨a, _ | ⟨b, r⟩⟩
  · simp [hs, popU]
  · simp [hs, popU]
  · simp only [setCI_stack, hs, popU]
    rw [mapCI_ite]; rfl

theorem hashOp_ci (k : Nat) (st : St σ) (h : Bytes → Bytes) :
    hashOp (setCI k st) h = mapCI k (hashOp st h) := by
  unfold hashOp
  rw [mapCI_checkSize]
  rcases hs : st.stack with _ | ⟨a, r⟩
  · simp [hs, popU]
  · simp only [setCI_stack, hs, popU]; rfl

/-- arms that only shuffle the main stack behind a `check_stack_size` -/
theorem exec_ci_stack (H : Hashes) (C : Checker σ) (pg : Bool) (script : Bytes) (i k : Nat) (st : St σ)
    (op : Op)
    (hop : op ∈ [Op.nop, .ifdup, .drop, .dup, .nip, .over, .rot, .swap, .tuck, .drop2, .dup2, .dup3,
                 .over2, .rot2, .swap2, .cat, .equal, .equalverify, .invert, .toalt, .bad, .return_]) :
    exec H C pg script i op (setCI k st) = mapCI k (exec H C pg script i op st) := by
  obtain ⟨stack, alt, branch, ci, chk⟩ := st
  simp only [List.mem_cons, List.not_mem_nil, or_false] at hop
  rcases hop with rfl | rfl | rfl | rfl | rfl | rfl | rfl | rfl | rfl | rfl | rfl | rfl | rfl | rfl
    | rfl | rfl | rfl | rfl | rfl | rfl | rfl | rfl
  all_goals
    rcases stack with _ | ⟨a, _ | ⟨b, _ | ⟨c, _ | ⟨d, _ | ⟨e, _ | ⟨f, r⟩⟩⟩⟩⟩⟩
    all_goals simp [exec, checkSize, popU, scriptErr, setCI, mapCI_ite]
    all_goals (repeat' split) <;> first | rfl | omega | (simp_all [setCI]; done)

/-- push arms -/
theorem exec_ci_push (H : Hashes) (C : Checker σ) (pg : Bool) (script : Bytes) (i k : Nat) (st : St σ)
    (op : Op)
    (hop : (∃ v, op = .pushNum v) ∨ (∃ l, op = .push l) ∨ op = .pushdata1 ∨ op = .pushdata2
            ∨ op = .pushdata4 ∨ op = .depth ∨ op = .size) :
    exec H C pg script i op (setCI k st) = mapCI k (exec H C pg script i op st) := by
  rcases hop with ⟨v, rfl⟩ | ⟨l, rfl⟩ | rfl | rfl | rfl | rfl | rfl
  · simp only [exec]
    cases encodeNum v <;> rfl
  · exact pushSlice_ci _ _ _ _ _
  · simp only [exec]; rw [mapCI_ite]; split
    · rfl
    · exact pushSlice_ci _ _ _ _ _
  · simp only [exec]; rw [mapCI_ite]; split
    · rfl
    · exact pushSlice_ci _ _ _ _ _
  · simp only [exec]; rw [mapCI_ite]; split
    · rfl
    · exact pushSlice_ci _ _ _ _ _
  · simp only [exec, setCI_stack]
    cases encodeNum (st.stack.length : Int) <;> rfl
  · simp only [exec, setCI_stack]
    rw [mapCI_checkSize]
    rcases hs : st.stack with _ | ⟨t, r⟩
    · rfl
    · simp only []
      cases encodeNum (t.length : Int) <;> rfl

/-- flow-control arms and OP_FROMALTSTACK -/
theorem exec_ci_flow (H : Hashes) (C : Checker σ) (pg : Bool) (script : Bytes) (i k : Nat) (st : St σ)
    (op : Op) (hop : op ∈ [Op.if_, .notif, .else_, .endif, .verify, .fromalt]) :
    exec H C pg script i op (setCI k st) = mapCI k (exec H C pg script i op st) := by
  simp only [List.mem_cons, List.not_mem_nil, or_false] at hop
  rcases hop with rfl | rfl | rfl | rfl | rfl | rfl
  · simp only [exec, setCI_stack]
    rcases popBool_cases st.stack with ⟨e, h1⟩ | ⟨v, t, r, _, h1⟩ <;> simp [h1] <;> rfl
  · simp only [exec, setCI_stack]
    rcases popBool_cases st.stack with ⟨e, h1⟩ | ⟨v, t, r, _, h1⟩ <;> simp [h1] <;> rfl
  · simp only [exec, setCI_branch]; cases st.branch <;> rfl
  · simp only [exec, setCI_branch]; cases st.branch <;> rfl
  · simp only [exec, setCI_stack]
    rcases popBool_cases st.stack with ⟨e, h1⟩ | ⟨v, t, r, _, h1⟩
    · simp [h1]
    · cases v <;> simp [h1] <;> rfl
  · simp only [exec, setCI_alt, setCI_stack]
    rw [mapCI_checkSize]
    rcases hs : st.alt with _ | ⟨t, r⟩ <;> rfl

/-- arms that pop a script number and use it as an index / length / shift count -/
theorem exec_ci_index (H : Hashes) (C : Checker σ) (pg : Bool) (script : Bytes) (i k : Nat) (st : St σ)
    (op : Op) (hop : op ∈ [Op.pick, .roll, .split, .lshift, .rshift]) :
    exec H C pg script i op (setCI k st) = mapCI k (exec H C pg script i op st) := by
  simp only [List.mem_cons, List.not_mem_nil, or_false] at hop
  rcases hop with rfl | rfl | rfl | rfl | rfl
  · simp only [exec, setCI_stack]
    rcases popNum_cases st.stack with ⟨e, h1⟩ | ⟨v, t, r, _, h1⟩
    · simp [h1]
    · simp only [h1]
      rw [mapCI_ite, mapCI_checkSize]
      cases r[v.toNat]? <;> rfl
  · simp only [exec, setCI_stack]
    rcases popNum_cases st.stack with ⟨e, h1⟩ | ⟨v, t, r, _, h1⟩
    · simp [h1]
    · simp only [h1]
      rw [mapCI_ite, mapCI_checkSize]
      cases r[v.toNat]? <;> rfl
  · simp only [exec, setCI_stack]
    rw [mapCI_checkSize]
    rcases popNum_cases st.stack with ⟨e, h1⟩ | ⟨v, t, r, hs, h1⟩
    · simp [h1]
    · simp only [h1]
      rcases r with _ | ⟨x, r'⟩
      · rfl
      · simp only [popU, mapCI_ite]; rfl
  · simp only [exec, setCI_stack]
    rw [mapCI_checkSize]
    rcases popNum_cases st.stack with ⟨e, h1⟩ | ⟨v, t, r, hs, h1⟩
    · simp [h1]
    · simp only [h1]
      rcases r with _ | ⟨x, r'⟩
      · simp only [popU, mapCI_ite]; rfl
      · simp only [popU, mapCI_ite]; rfl
  · simp only [exec, setCI_stack]
    rw [mapCI_checkSize]
    rcases popNum_cases st.stack with ⟨e, h1⟩ | ⟨v, t, r, hs, h1⟩
    · simp [h1]
    · simp only [h1]
      rcases r with _ | ⟨x, r'⟩
      · simp only [popU, mapCI_ite]; rfl
      · simp only [popU, mapCI_ite]; rfl

/-- big-number arithmetic, bitwise and hash arms -/
theorem exec_ci_arith (H : Hashes) (C : Checker σ) (pg : Bool) (script : Bytes) (i k : Nat) (st : St σ)
    (op : Op)
    (hop : op ∈ [Op.and_, .or_, .xor_, .add1, .sub1, .negate, .abs, .not_, .notequal0, .add, .sub, .mul,
                 .mul2, .div, .div2, .mod_, .booland, .boolor, .numequal, .numnotequal, .lt, .gt, .le,
                 .ge, .min, .max, .ripemd160, .sha1, .sha256, .hash160, .hash256]) :
    exec H C pg script i op (setCI k st) = mapCI k (exec H C pg script i op st) := by
  simp only [List.mem_cons, List.not_mem_nil, or_false] at hop
  rcases hop with rfl | rfl | rfl | rfl | rfl | rfl | rfl | rfl | rfl | rfl | rfl | rfl | rfl | rfl
    | rfl | rfl | rfl | rfl | rfl | rfl | rfl | rfl | rfl | rfl | rfl | rfl | rfl | rfl | rfl | rfl | rfl
  all_goals simp only [exec]
  all_goals first
    | exact bitwise_ci _ _ _
    | exact unaryBig_ci _ _ _
    | exact hashOp_ci _ _ _
    | exact binaryBig_ci _ _ _

/-- the remaining number arms and the lock-time arms -/
theorem exec_ci_num (H : Hashes) (C : Checker σ) (pg : Bool) (script : Bytes) (i k : Nat) (st : St σ)
    (op : Op) (hop : op ∈ [Op.numequalverify, .within, .num2bin, .bin2num, .cltv, .csv]) :
    exec H C pg script i op (setCI k st) = mapCI k (exec H C pg script i op st) := by
  simp only [List.mem_cons, List.not_mem_nil, or_false] at hop
  rcases hop with rfl | rfl | rfl | rfl | rfl | rfl
  · simp only [exec, setCI_stack]
    rcases popBig_cases st.stack with ⟨e, h1⟩ | ⟨b, t, r, _, h1⟩
    · simp [h1]
    rcases popBig_cases r with ⟨e, h2⟩ | ⟨a, t2, r2, _, h2⟩
    · simp [h1, h2]
    simp only [h1, h2, mapCI_ite]; rfl
  · simp only [exec, setCI_stack]
    rcases popBig_cases st.stack with ⟨e, h1⟩ | ⟨b, t, r, _, h1⟩
    · simp [h1]
    rcases popBig_cases r with ⟨e, h2⟩ | ⟨a, t2, r2, _, h2⟩
    · simp [h1, h2]
    rcases popBig_cases r2 with ⟨e, h3⟩ | ⟨x, t3, r3, _, h3⟩
    · simp [h1, h2, h3]
    simp only [h1, h2, h3]; rfl
  · simp only [exec, setCI_stack]
    rw [mapCI_checkSize]
    rcases popBig_cases st.stack with ⟨e, h1⟩ | ⟨m, t, r, hs, h1⟩
    · simp [h1]
    simp only [h1]
    rcases r with _ | ⟨x, r'⟩
    · rfl
    · simp only [popU]
      cases num2bin m x <;> rfl
  · simp only [exec, setCI_stack]
    rw [mapCI_checkSize]
    rcases hs : st.stack with _ | ⟨t, r⟩ <;> rfl
  · simp only [exec, setCI_stack, setCI_chk]
    rw [mapCI_ite]
    split
    · rcases popNum_cases st.stack with ⟨e, h1⟩ | ⟨v, t, r, _, h1⟩
      · simp [h1]
      simp only [h1]
      cases C.checkLocktime st.chk v with
      | ok b => cases b <;> rfl
      | err e => rfl
      | panic p => rfl
    · rfl
  · simp only [exec, setCI_stack, setCI_chk]
    rw [mapCI_ite]
    split
    · rcases popNum_cases st.stack with ⟨e, h1⟩ | ⟨v, t, r, _, h1⟩
      · simp [h1]
      simp only [h1]
      cases C.checkSequence st.chk v with
      | ok b => cases b <;> rfl
      | err e => rfl
      | panic p => rfl
    · rfl

/-- every opcode that does not touch `check_index` commutes with changing it -/
theorem exec_setCI_plain (H : Hashes) (C : Checker σ) (pre : Bool) (script : Bytes) (i : Nat)
    (op : Op) (st : St σ) (k : Nat) (hop : usesCI op = false) :
    exec H C pre script i op (setCI k st) = mapCI k (exec H C pre script i op st) := by
  cases op
  case pushNum v => exact exec_ci_push H C pre script i k st _ (.inl ⟨v, rfl⟩)
  case push l => exact exec_ci_push H C pre script i k st _ (.inr (.inl ⟨l, rfl⟩))
  case codesep => simp [usesCI] at hop
  case checksig => simp [usesCI] at hop
  case checksigverify => simp [usesCI] at hop
  case checkmultisig => simp [usesCI] at hop
  case checkmultisigverify => simp [usesCI] at hop
  all_goals first
    | (refine exec_ci_stack H C pre script i k st _ ?_; simp; done)
    | (refine exec_ci_push H C pre script i k st _ ?_; simp; done)
    | (refine exec_ci_flow H C pre script i k st _ ?_; simp; done)
    | (refine exec_ci_index H C pre script i k st _ ?_; simp; done)
    | (refine exec_ci_arith H C pre script i k st _ ?_; simp; done)
    | (refine exec_ci_num H C pre script i k st _ ?_; simp; done)

/-! #### the arms that read `check_index`, for a checker that ignores its script argument -/

/-- canonical form of a `check_sig` call whose script argument does not matter -/
def checkSig0 (C : Checker σ) (c : σ) (sig pk : Bytes) : Outcome Bool × σ := C.checkSig c sig pk []
def msLoop0 (C : Checker σ) (c : σ) (sigs keys : List Bytes) : Outcome Bool × σ := msLoop C [] c sigs keys

theorem checkSig_canon {C : Checker σ} (hC : Checker.IgnoresScript C) (c : σ) (sig pk s : Bytes) :
    C.checkSig c sig pk s = checkSig0 C c sig pk := hC c sig pk s []

theorem msLoop_canon {C : Checker σ} (hC : Checker.IgnoresScript C) (script : Bytes) (c : σ)
    (sigs keys : List Bytes) : msLoop C script c sigs keys = msLoop0 C c sigs keys := by
  unfold msLoop0
  induction keys generalizing c sigs with
  | nil => cases sigs <;> simp [msLoop]
  | cons k ks ih =>
    cases sigs with
    | nil => simp [msLoop]
    | cons s ss =>
      unfold msLoop
      rw [hC c s k script []]
      split
      · exact ih _ _
      · exact ih _ _
      · rfl
      · rfl

theorem checkMultisig_ignore {C : Checker σ} (hC : Checker.IgnoresScript C) (c : σ) (stack : Stack)
    (sub1 sub2 : Bytes) : checkMultisig C c stack sub1 = checkMultisig C c stack sub2 := by
  unfold checkMultisig
  simp only [msLoop_canon hC]

theorem sigCheck_ci {C : Checker σ} (hC : Checker.IgnoresScript C) (script : Bytes) (k : Nat) (st : St σ)
    (v : Bool) (hk : k ≤ script.length) (hs : st.checkIndex ≤ script.length) :
    sigCheck C script (setCI k st) v = mapCI k (sigCheck C script st v) := by
  obtain ⟨stack, alt, branch, ci, chk⟩ := st
  unfold sigCheck
  rw [mapCI_checkSize]
  dsimp only [setCI] at hs ⊢
  rcases stack with _ | ⟨a, _ | ⟨b, r⟩⟩
  · rfl
  · rfl
  · simp only [popU]
    simp only [show ¬ k > script.length from by omega, show ¬ ci > script.length from by omega,
      ↓reduceIte, checkSig_canon hC]
    rcases checkSig0 C chk b a with ⟨o, c'⟩
    cases o with
    | ok x => cases v <;> cases x <;> rfl
    | err e => rfl
    | panic p => rfl

theorem multisigOp_ci {C : Checker σ} (hC : Checker.IgnoresScript C) (script : Bytes) (k : Nat) (st : St σ)
    (v : Bool) (hk : k ≤ script.length) (hs : st.checkIndex ≤ script.length) :
    multisigOp C script (setCI k st) v = mapCI k (multisigOp C script st v) := by
  obtain ⟨stack, alt, branch, ci, chk⟩ := st
  unfold multisigOp
  dsimp only [setCI] at hs ⊢
  simp only [show ¬ k > script.length from by omega, show ¬ ci > script.length from by omega,
    ↓reduceIte]
  rw [checkMultisig_ignore hC chk stack (script.drop k) (script.drop ci)]
  rcases checkMultisig C chk stack (script.drop ci) with ⟨o, c'⟩
  cases o with
  | ok x => obtain ⟨x, s'⟩ := x; cases v <;> cases x <;> rfl
  | err e => rfl
  | panic p => rfl

/-- ... and the signature opcodes do so too when the checker ignores the script it is handed -/
theorem exec_setCI_sig (H : Hashes) {C : Checker σ} (hC : Checker.IgnoresScript C) (pre : Bool)
    (script : Bytes) (i : Nat) (op : Op) (st : St σ) (k : Nat) (hop : op ≠ .codesep)
    (hk : k ≤ script.length) (hs : st.checkIndex ≤ script.length) :
    exec H C pre script i op (setCI k st) = mapCI k (exec H C pre script i op st) := by
  by_cases hu : usesCI op = false
  · exact exec_setCI_plain H C pre script i op st k hu
  · cases op
    case codesep => exact absurd rfl hop
    case checksig => exact sigCheck_ci hC script k st false hk hs
    case checksigverify => exact sigCheck_ci hC script k st true hk hs
    case checkmultisig => exact multisigOp_ci hC script k st false hk hs
    case checkmultisigverify => exact multisigOp_ci hC script k st true hk hs
    all_goals exact absurd rfl hu

theorem exec_codesep_ci (H : Hashes) (C : Checker σ) (pre : Bool) (script : Bytes) (i k : Nat) (st : St σ) :
    exec H C pre script i .codesep (setCI k st) = exec H C pre script i .codesep st := rfl

/-! #### states that differ only in `check_index` -/

/-- same stacks, same conditional stack, same checker state; both `check_index` values inside the
    script (bound `n`) -/
structure Sim (n : Nat) (a b : St σ) : Prop where
  stack : a.stack = b.stack
  alt : a.alt = b.alt
  branch : a.branch = b.branch
  chk : a.chk = b.chk
  cia : a.checkIndex ≤ n
  cib : b.checkIndex ≤ n

theorem Sim.refl {n : Nat} {a : St σ} (h : a.checkIndex ≤ n) : Sim n a a := ⟨rfl, rfl, rfl, rfl, h, h⟩
theorem Sim.symm {n : Nat} {a b : St σ} (h : Sim n a b) : Sim n b a :=
  ⟨h.stack.symm, h.alt.symm, h.branch.symm, h.chk.symm, h.cib, h.cia⟩
theorem Sim.trans {n : Nat} {a b c : St σ} (h : Sim n a b) (h' : Sim n b c) : Sim n a c :=
  ⟨h.stack.trans h'.stack, h.alt.trans h'.alt, h.branch.trans h'.branch, h.chk.trans h'.chk, h.cia, h'.cib⟩
theorem Sim.eq_setCI {n : Nat} {a b : St σ} (h : Sim n a b) : b = setCI b.checkIndex a := by
  obtain ⟨s, al, br, ci, ck⟩ := a
  obtain ⟨s', al', br', ci', ck'⟩ := b
  obtain ⟨h1, h2, h3, h4, _, _⟩ := h
  simp only at h1 h2 h3 h4
  subst h1 h2 h3 h4
  rfl
theorem Sim.setCI {n k : Nat} {a : St σ} (h : a.checkIndex ≤ n) (hk : k ≤ n) : Sim n a (setCI k a) :=
  ⟨rfl, rfl, rfl, rfl, h, hk⟩

def ExSim (n : Nat) : Outcome (Bool × St σ) → Outcome (Bool × St σ) → Prop
  | .ok (b, s), .ok (b', s') => b = b' ∧ Sim n s s'
  | .err e, .err e' => e = e'
  | .panic p, .panic p' => p = p'
  | _, _ => False

/-- opcodes other than OP_CODESEPARATOR leave `check_index` alone -/
theorem exec_ci_frame (H : Hashes) {C : Checker σ} (hC : Checker.IgnoresScript C) (pre : Bool)
    (script : Bytes) (i : Nat) (op : Op) (st : St σ) (hop : op ≠ .codesep)
    (hs : st.checkIndex ≤ script.length) {b : Bool} {s : St σ}
    (h : exec H C pre script i op st = .ok (b, s)) : s.checkIndex = st.checkIndex := by
  have := exec_setCI_sig H hC pre script i op st st.checkIndex hop hs hs
  rw [setCI_self, h] at this
  simp only [mapCI_ok, Outcome.ok.injEq, Prod.mk.injEq, true_and] at this
  exact (congrArg St.checkIndex this).trans rfl

/-- **simulation**: with a checker that ignores its script argument, one step from two states that
    differ only in `check_index` gives the same outcome, again up to `check_index` -/
theorem exec_sim (H : Hashes) {C : Checker σ} (hC : Checker.IgnoresScript C) (pre : Bool)
    (script : Bytes) (i : Nat) (op : Op) (st st' : St σ) (hi : i < script.length)
    (h : Sim script.length st st') :
    ExSim script.length (exec H C pre script i op st) (exec H C pre script i op st') := by
  rw [h.eq_setCI]
  by_cases hop : op = .codesep
  · subst hop
    rw [exec_codesep_ci]
    exact ⟨rfl, Sim.refl (by show i + 1 ≤ script.length; omega)⟩
  · rw [exec_setCI_sig H hC pre script i op st _ hop h.cib h.cia]
    cases hx : exec H C pre script i op st with
    | ok bs =>
      obtain ⟨b, s⟩ := bs
      have := exec_ci_frame H hC pre script i op st hop h.cia hx
      have h2 := h.cia
      exact ⟨rfl, Sim.setCI (by omega) h.cib⟩
    | err e => exact rfl
    | panic p => exact rfl

end exec
/-! ### the loop without its final check -/

section loop
variable {σ : Type}

/-- one turn of `stopWith`, with the recursive call abstracted (same shape as `loopBody`) -/
def stopBody (ex : Nat → Op → St σ → Outcome (Bool × St σ)) (script : Bytes) (breakAt : Option Nat)
    (k : Nat → St σ → Outcome (St σ × Nat)) (i : Nat) (st : St σ) : Outcome (St σ × Nat) :=
  if i < script.length then
    let i := advance script st i
    if i ≥ script.length then .ok (st, i)
    else if brkHit breakAt i then .ok (st, i)
    else
      match ex i (decodeOp (script.getD i 0)) st with
      | .ok (true, st') => .ok (st', i)
      | .ok (false, st') => k (nextOp i script) st'
      | .err e => .err e
      | .panic p => .panic p
  else .ok (st, i)

/-- the `'outer: while` loop of `core_eval` WITHOUT the "ENDIF missing" check that follows it: the
    state and offset with which the loop is left (end of script, break, or OP_RETURN) -/
def stopWith (ex : Nat → Op → St σ → Outcome (Bool × St σ)) (script : Bytes) (breakAt : Option Nat) :
    Nat → Nat → St σ → Outcome (St σ × Nat)
  | 0, _, _ => .panic "out of fuel"
  | fuel + 1, i, st => stopBody ex script breakAt (fun j s => stopWith ex script breakAt fuel j s) i st

/-- the check after the loop -/
def finishO : Outcome (St σ × Nat) → Outcome (St σ × Nat)
  | .ok (st, i) => finish st i
  | .err e => .err e
  | .panic p => .panic p

variable (ex : Nat → Op → St σ → Outcome (Bool × St σ)) (script : Bytes)

theorem stopWith_succ (breakAt : Option Nat) (fuel i : Nat) (st : St σ) :
    stopWith ex script breakAt (fuel + 1) i st
      = stopBody ex script breakAt (stopWith ex script breakAt fuel) i st := rfl

/-- `core_eval`'s loop is `stopWith` followed by the "ENDIF missing" check -/
theorem runWith_eq_stop (breakAt : Option Nat) (fuel i : Nat) (st : St σ) :
    runWith ex script breakAt fuel i st = finishO (stopWith ex script breakAt fuel i st) := by
  induction fuel generalizing i st with
  | zero => rfl
  | succ f ih =>
    rw [runWith_succ, stopWith_succ]
    unfold loopBody stopBody
    split
    · simp only []
      split
      · rfl
      · split
        · rfl
        · cases hex : ex (advance script st i) (decodeOp (script.getD (advance script st i) 0)) st with
          | ok bs =>
            obtain ⟨b, st'⟩ := bs
            cases b
            · exact ih _ _
            · rfl
          | err e => rfl
          | panic p => rfl
    · rfl

theorem advance_nil (st : St σ) (i : Nat) (h : st.branch = []) : advance script st i = i := by
  unfold advance; rw [h]

/-- the seven ways one turn of the loop can go -/
theorem stop_succ_cases (breakAt : Option Nat) (fuel i : Nat) (st : St σ) :
    (¬ i < script.length ∧ stopWith ex script breakAt (fuel + 1) i st = .ok (st, i)) ∨
    (i < script.length ∧ script.length ≤ advance script st i ∧
      stopWith ex script breakAt (fuel + 1) i st = .ok (st, advance script st i)) ∨
    (i < script.length ∧ advance script st i < script.length ∧ brkHit breakAt (advance script st i) = true ∧
      stopWith ex script breakAt (fuel + 1) i st = .ok (st, advance script st i)) ∨
    (i < script.length ∧ advance script st i < script.length ∧ brkHit breakAt (advance script st i) = false ∧
      ∃ st', ex (advance script st i) (decodeOp (script.getD (advance script st i) 0)) st = .ok (true, st') ∧
        stopWith ex script breakAt (fuel + 1) i st = .ok (st', advance script st i)) ∨
    (i < script.length ∧ advance script st i < script.length ∧ brkHit breakAt (advance script st i) = false ∧
      ∃ st', ex (advance script st i) (decodeOp (script.getD (advance script st i) 0)) st = .ok (false, st') ∧
        stopWith ex script breakAt (fuel + 1) i st
          = stopWith ex script breakAt fuel (nextOp (advance script st i) script) st') ∨
    (i < script.length ∧ advance script st i < script.length ∧ brkHit breakAt (advance script st i) = false ∧
      ∃ e, ex (advance script st i) (decodeOp (script.getD (advance script st i) 0)) st = .err e ∧
        stopWith ex script breakAt (fuel + 1) i st = .err e) ∨
    (i < script.length ∧ advance script st i < script.length ∧ brkHit breakAt (advance script st i) = false ∧
      ∃ q, ex (advance script st i) (decodeOp (script.getD (advance script st i) 0)) st = .panic q ∧
        stopWith ex script breakAt (fuel + 1) i st = .panic q) := by
  rw [stopWith_succ]
  unfold stopBody
  by_cases hi : i < script.length
  · rw [if_pos hi]
    simp only []
    by_cases h0 : advance script st i ≥ script.length
    · rw [if_pos h0]; exact .inr (.inl ⟨hi, h0, rfl⟩)
    · rw [if_neg h0]
      have h0' : advance script st i < script.length := by omega
      cases hb : brkHit breakAt (advance script st i)
      · simp only [Bool.false_eq_true, if_false]
        cases hex : ex (advance script st i) (decodeOp (script.getD (advance script st i) 0)) st with
        | ok bs =>
          obtain ⟨b, st'⟩ := bs
          cases b
          · exact .inr (.inr (.inr (.inr (.inl ⟨hi, h0', trivial, st', rfl, rfl⟩))))
          · exact .inr (.inr (.inr (.inl ⟨hi, h0', trivial, st', rfl, rfl⟩)))
        | err e => exact .inr (.inr (.inr (.inr (.inr (.inl ⟨hi, h0', trivial, e, rfl, rfl⟩)))))
        | panic q => exact .inr (.inr (.inr (.inr (.inr (.inr ⟨hi, h0', trivial, q, rfl, rfl⟩)))))
      · simp only [if_true]
        exact .inr (.inr (.inl ⟨hi, h0', trivial, trivial⟩))
  · rw [if_neg hi]; exact .inl ⟨hi, rfl⟩

/-! #### a run with a break against the run without -/

/-- a run with a break either never sees the break fire — then it IS the unbroken run — or it is
    left at an offset `p` inside the script with `p ≥ b` -/
theorem stop_some_or_none (b : Nat) (fuel i : Nat) (st : St σ) :
    stopWith ex script (some b) fuel i st = stopWith ex script none fuel i st ∨
    ∃ st1 p, stopWith ex script (some b) fuel i st = .ok (st1, p) ∧ p < script.length ∧ b ≤ p := by
  induction fuel generalizing i st with
  | zero => exact .inl rfl
  | succ f ih =>
    rcases stop_succ_cases ex script (some b) f i st with ⟨h1, h2⟩ | ⟨h1, h2, h3⟩ | ⟨h1, h2, h3, h4⟩
      | ⟨h1, h2, h3, st', h4, h5⟩ | ⟨h1, h2, h3, st', h4, h5⟩ | ⟨h1, h2, h3, e, h4, h5⟩
      | ⟨h1, h2, h3, q, h4, h5⟩
    · left; rw [h2, stopWith_succ]; unfold stopBody; rw [if_neg h1]
    · left; rw [h3, stopWith_succ]; unfold stopBody; rw [if_pos h1]; simp only []; rw [if_pos h2]
    · right; exact ⟨st, _, h4, h2, by simpa [brkHit] using h3⟩
    · left; rw [h5, stopWith_succ]; unfold stopBody; rw [if_pos h1]; simp only []
      rw [if_neg (by omega), h4]; rfl
    · rw [h5]
      have e : stopWith ex script none (f + 1) i st
          = stopWith ex script none f (nextOp (advance script st i) script) st' := by
        rw [stopWith_succ]; unfold stopBody; rw [if_pos h1]; simp only []
        rw [if_neg (by omega), h4]; rfl
      rw [e]; exact ih _ _
    · left; rw [h5, stopWith_succ]; unfold stopBody; rw [if_pos h1]; simp only []
      rw [if_neg (by omega), h4]; rfl
    · left; rw [h5, stopWith_succ]; unfold stopBody; rw [if_pos h1]; simp only []
      rw [if_neg (by omega), h4]; rfl

/-- **resumption**: if the loop (with any break) is left in state `st1` at offset `p` with an empty
    conditional stack, then the unbroken run from the original state equals the unbroken run resumed
    at `(p, st1)`.  `hret`: an opcode that stops the run (OP_RETURN) leaves the state unchanged, so
    executing it again on resumption stops again. -/
theorem stop_resume (hret : ∀ j op s s', ex j op s = .ok (true, s') → s' = s)
    (breakAt : Option Nat) (fuel i : Nat) (st st1 : St σ) (p : Nat)
    (h : stopWith ex script breakAt fuel i st = .ok (st1, p)) (hb : st1.branch = [])
    (F1 F2 : Nat) (hF1 : script.length - i + 1 ≤ F1) (hF2 : script.length - p + 1 ≤ F2) :
    runWith ex script none F1 i st = runWith ex script none F2 p st1 := by
  induction fuel generalizing i st F1 with
  | zero => simp [stopWith] at h
  | succ f ih =>
    rcases stop_succ_cases ex script breakAt f i st with ⟨h1, h2⟩ | ⟨h1, h2, h3⟩ | ⟨h1, h2, h3, h4⟩
      | ⟨h1, h2, h3, st', h4, h5⟩ | ⟨h1, h2, h3, st', h4, h5⟩ | ⟨h1, h2, h3, e, h4, h5⟩
      | ⟨h1, h2, h3, q, h4, h5⟩
    · rw [h2] at h; simp only [Outcome.ok.injEq, Prod.mk.injEq] at h
      obtain ⟨rfl, rfl⟩ := h
      exact runWith_fuel_indep _ _ _ _ _ _ _ hF1 hF2
    · rw [h3] at h; simp only [Outcome.ok.injEq, Prod.mk.injEq] at h
      obtain ⟨rfl, rfl⟩ := h
      rw [advance_nil script st i hb] at hF2 ⊢
      exact runWith_fuel_indep _ _ _ _ _ _ _ hF1 hF2
    · rw [h4] at h; simp only [Outcome.ok.injEq, Prod.mk.injEq] at h
      obtain ⟨rfl, rfl⟩ := h
      rw [advance_nil script st i hb] at hF2 ⊢
      exact runWith_fuel_indep _ _ _ _ _ _ _ hF1 hF2
    · rw [h5] at h; simp only [Outcome.ok.injEq, Prod.mk.injEq] at h
      obtain ⟨rfl, rfl⟩ := h
      have := hret _ _ _ _ h4
      subst this
      rw [advance_nil script st' i hb] at hF2 ⊢
      exact runWith_fuel_indep _ _ _ _ _ _ _ hF1 hF2
    · rw [h5] at h
      have hn := nextOp_gt h2
      have ha := advance_ge script st i (by omega)
      obtain ⟨F1', rfl⟩ : ∃ F1', F1 = F1' + 1 := ⟨F1 - 1, by omega⟩
      have e : runWith ex script none (F1' + 1) i st
          = runWith ex script none F1' (nextOp (advance script st i) script) st' := by
        rw [runWith_succ]; unfold loopBody; rw [if_pos h1]; simp only []
        rw [if_neg (by omega), h4]; rfl
      rw [e]
      exact ih _ _ h _ (by omega)
    · rw [h5] at h; simp at h
    · rw [h5] at h; simp at h

/-! #### where the loop is left -/

/-- `p` is reached from `i` by walking over whole instructions (`next_op`) -/
inductive Reaches (script : Bytes) : Nat → Nat → Prop
  | refl (i : Nat) : Reaches script i i
  | step {i p : Nat} : i < script.length → Reaches script (nextOp i script) p → Reaches script i p

theorem Reaches.trans {a b c : Nat} (h1 : Reaches script a b) (h2 : Reaches script b c) :
    Reaches script a c := by
  induction h1 with
  | refl => exact h2
  | step hlt _ ih => exact .step hlt (ih h2)

theorem Reaches.le {a b : Nat} (h : Reaches script a b) : a ≤ b := by
  induction h with
  | refl => exact Nat.le_refl _
  | step hlt _ ih => have := nextOp_gt hlt; omega

theorem reaches_len (i : Nat) (hi : i ≤ script.length) : Reaches script i script.length := by
  generalize hn : script.length - i = n
  induction n using Nat.strongRecOn generalizing i with
  | _ n ih =>
    by_cases h : i = script.length
    · subst h; exact .refl _
    · have hlt : i < script.length := by omega
      have h1 := nextOp_gt hlt
      have h2 := nextOp_le i script
      exact .step hlt (ih _ (by omega) _ h2 rfl)

theorem reaches_skipBranchLoop (fuel i sub : Nat) (hi : i ≤ script.length) :
    Reaches script i (skipBranchLoop script fuel i sub) := by
  induction fuel generalizing i sub with
  | zero => exact reaches_len script i hi
  | succ f ih =>
    unfold skipBranchLoop
    split
    · rename_i hlt
      have h2 := nextOp_le i script
      simp only []
      repeat' split
      all_goals first
        | exact .refl _
        | exact .step hlt (ih _ _ h2)
    · exact reaches_len script i hi

theorem reaches_advance (st : St σ) (i : Nat) (hi : i ≤ script.length) :
    Reaches script i (advance script st i) := by
  unfold advance
  split
  · exact reaches_skipBranchLoop script _ _ _ hi
  · exact .refl _

/-- the offset at which the loop is left is an instruction boundary on the way from the start -/
theorem stop_reaches (breakAt : Option Nat) (fuel i : Nat) (st st1 : St σ) (p : Nat)
    (h : stopWith ex script breakAt fuel i st = .ok (st1, p)) : Reaches script i p := by
  induction fuel generalizing i st with
  | zero => simp [stopWith] at h
  | succ f ih =>
    rcases stop_succ_cases ex script breakAt f i st with ⟨h1, h2⟩ | ⟨h1, h2, h3⟩ | ⟨h1, h2, h3, h4⟩
      | ⟨h1, h2, h3, st', h4, h5⟩ | ⟨h1, h2, h3, st', h4, h5⟩ | ⟨h1, h2, h3, e, h4, h5⟩
      | ⟨h1, h2, h3, q, h4, h5⟩
    · rw [h2] at h; simp only [Outcome.ok.injEq, Prod.mk.injEq] at h
      obtain ⟨rfl, rfl⟩ := h; exact .refl _
    · rw [h3] at h; simp only [Outcome.ok.injEq, Prod.mk.injEq] at h
      obtain ⟨rfl, rfl⟩ := h; exact reaches_advance script _ _ (by omega)
    · rw [h4] at h; simp only [Outcome.ok.injEq, Prod.mk.injEq] at h
      obtain ⟨rfl, rfl⟩ := h; exact reaches_advance script _ _ (by omega)
    · rw [h5] at h; simp only [Outcome.ok.injEq, Prod.mk.injEq] at h
      obtain ⟨rfl, rfl⟩ := h; exact reaches_advance script _ _ (by omega)
    · rw [h5] at h
      exact (reaches_advance script st i (by omega)).trans script (.step h2 (ih _ _ h))
    · rw [h5] at h; simp at h
    · rw [h5] at h; simp at h

/-- why the loop was left at `p`: the start was already at or beyond the end (`p = i`); the end of the
    script was reached (`p = length`); the break fired (`p` inside the script, `p ≥ break`); or the
    opcode at `p`, below the break, stopped the run (OP_RETURN) -/
theorem stop_class (breakAt : Option Nat) (fuel i : Nat) (st st1 : St σ) (p : Nat)
    (h : stopWith ex script breakAt fuel i st = .ok (st1, p)) :
    (script.length ≤ i ∧ p = i) ∨ (i < script.length ∧ p = script.length) ∨
    (i < script.length ∧ p < script.length ∧ brkHit breakAt p = true) ∨
    (i < script.length ∧ p < script.length ∧ brkHit breakAt p = false ∧
      ∃ s, ex p (decodeOp (script.getD p 0)) s = .ok (true, st1)) := by
  induction fuel generalizing i st with
  | zero => simp [stopWith] at h
  | succ f ih =>
    rcases stop_succ_cases ex script breakAt f i st with ⟨h1, h2⟩ | ⟨h1, h2, h3⟩ | ⟨h1, h2, h3, h4⟩
      | ⟨h1, h2, h3, st', h4, h5⟩ | ⟨h1, h2, h3, st', h4, h5⟩ | ⟨h1, h2, h3, e, h4, h5⟩
      | ⟨h1, h2, h3, q, h4, h5⟩
    · rw [h2] at h; simp only [Outcome.ok.injEq, Prod.mk.injEq] at h
      obtain ⟨rfl, rfl⟩ := h; exact .inl ⟨by omega, rfl⟩
    · rw [h3] at h; simp only [Outcome.ok.injEq, Prod.mk.injEq] at h
      obtain ⟨rfl, rfl⟩ := h
      have : advance script st i ≤ script.length := by
        unfold advance; split
        · exact skipBranch_le _ _
        · omega
      exact .inr (.inl ⟨h1, by omega⟩)
    · rw [h4] at h; simp only [Outcome.ok.injEq, Prod.mk.injEq] at h
      obtain ⟨rfl, rfl⟩ := h; exact .inr (.inr (.inl ⟨h1, h2, h3⟩))
    · rw [h5] at h; simp only [Outcome.ok.injEq, Prod.mk.injEq] at h
      obtain ⟨rfl, rfl⟩ := h; exact .inr (.inr (.inr ⟨h1, h2, h3, st, h4⟩))
    · rw [h5] at h
      have hn := nextOp_gt h2
      have hn' := nextOp_le (advance script st i) script
      rcases ih _ _ h with ⟨a, b⟩ | ⟨a, b⟩ | ⟨a, b, c⟩ | ⟨a, b, c, d⟩
      · exact .inr (.inl ⟨h1, by omega⟩)
      · exact .inr (.inl ⟨h1, b⟩)
      · exact .inr (.inr (.inl ⟨h1, b, c⟩))
      · exact .inr (.inr (.inr ⟨h1, b, c, d⟩))
    · rw [h5] at h; simp at h
    · rw [h5] at h; simp at h

/-- `Executes i st q`: the unbroken loop started at `(i, st)` gets to execute the opcode at offset `q` -/
inductive Executes : Nat → St σ → Nat → Prop
  | here {i : Nat} {st : St σ} : i < script.length → advance script st i < script.length →
      Executes i st (advance script st i)
  | later {i : Nat} {st st' : St σ} {q : Nat} : i < script.length → advance script st i < script.length →
      ex (advance script st i) (decodeOp (script.getD (advance script st i) 0)) st = .ok (false, st') →
      Executes (nextOp (advance script st i) script) st' q → Executes i st q

theorem Executes.ge {i : Nat} {st : St σ} {q : Nat} (h : Executes ex script i st q) : i ≤ q := by
  induction h with
  | here h1 h2 => exact advance_ge script _ _ (by omega)
  | @later i st st' q h1 h2 _ _ ih =>
    have := advance_ge script st i (Nat.le_of_lt h1)
    have := nextOp_gt h2
    omega

/-- every opcode executed before the reported offset lies below the break: the reported offset is
    the FIRST executed boundary at or after the requested one -/
theorem stop_minimal (breakAt : Option Nat) (fuel i : Nat) (st st1 : St σ) (p : Nat)
    (h : stopWith ex script breakAt fuel i st = .ok (st1, p)) (q : Nat)
    (hq : Executes ex script i st q) (hlt : q < p) : brkHit breakAt q = false := by
  induction fuel generalizing i st with
  | zero => simp [stopWith] at h
  | succ f ih =>
    rcases stop_succ_cases ex script breakAt f i st with ⟨h1, h2⟩ | ⟨h1, h2, h3⟩ | ⟨h1, h2, h3, h4⟩
      | ⟨h1, h2, h3, st', h4, h5⟩ | ⟨h1, h2, h3, st', h4, h5⟩ | ⟨h1, h2, h3, e, h4, h5⟩
      | ⟨h1, h2, h3, q', h4, h5⟩
    · cases hq <;> omega
    · cases hq <;> omega
    · rw [h4] at h; simp only [Outcome.ok.injEq, Prod.mk.injEq] at h
      obtain ⟨rfl, rfl⟩ := h
      cases hq with
      | here => omega
      | later a b c d => have := d.ge; have := nextOp_gt h2; omega
    · rw [h5] at h; simp only [Outcome.ok.injEq, Prod.mk.injEq] at h
      obtain ⟨rfl, rfl⟩ := h
      cases hq with
      | here => omega
      | later a b c d => have := d.ge; have := nextOp_gt h2; omega
    · rw [h5] at h
      cases hq with
      | here => exact h3
      | later a b c d =>
        rw [h4] at c
        simp only [Outcome.ok.injEq, Prod.mk.injEq, true_and] at c
        subst c
        exact ih _ _ h d
    · rw [h5] at h; simp at h
    · rw [h5] at h; simp at h

/-! #### whole runs from states that differ only in `check_index` -/

/-- two loop outcomes agree up to `check_index`: same offset and `Sim`-related states, or the same
    error, or the same panic -/
def OutSim (n : Nat) : Outcome (St σ × Nat) → Outcome (St σ × Nat) → Prop
  | .ok (a, p), .ok (b, q) => Sim n a b ∧ p = q
  | .err e, .err e' => e = e'
  | .panic p, .panic p' => p = p'
  | _, _ => False

theorem OutSim.symm {n : Nat} {a b : Outcome (St σ × Nat)} (h : OutSim n a b) : OutSim n b a := by
  cases a with
  | ok x => cases b with
    | ok y => exact ⟨h.1.symm, h.2.symm⟩
    | err e => exact h
    | panic p => exact h
  | err x => cases b with
    | ok y => exact h
    | err e => exact Eq.symm h
    | panic p => exact h
  | panic x => cases b with
    | ok y => exact h
    | err e => exact h
    | panic p => exact Eq.symm h

theorem OutSim.trans {n : Nat} {a b c : Outcome (St σ × Nat)} (h : OutSim n a b) (h' : OutSim n b c) :
    OutSim n a c := by
  cases a with
  | ok x => cases b with
    | ok y => cases c with
      | ok z => exact ⟨h.1.trans h'.1, h.2.trans h'.2⟩
      | err e => exact h'
      | panic p => exact h'
    | err e => exact h.elim
    | panic p => exact h.elim
  | err x => cases b with
    | ok y => exact h.elim
    | err e => cases c with
      | ok z => exact h'
      | err e' => exact Eq.trans h h'
      | panic p => exact h'
    | panic p => exact h.elim
  | panic x => cases b with
    | ok y => exact h.elim
    | err e => exact h.elim
    | panic p => cases c with
      | ok z => exact h'
      | err e' => exact h'
      | panic p' => exact Eq.trans h h'

theorem OutSim.of_eq {n : Nat} {a b c : Outcome (St σ × Nat)} (h : a = b) (h' : OutSim n b c) :
    OutSim n a c := h ▸ h'

theorem stop_sim (hex : ∀ i op st st', i < script.length → Sim script.length st st' →
      ExSim script.length (ex i op st) (ex i op st'))
    (breakAt : Option Nat) (fuel i : Nat) (st st' : St σ) (h : Sim script.length st st') :
    OutSim script.length (stopWith ex script breakAt fuel i st) (stopWith ex script breakAt fuel i st') := by
  induction fuel generalizing i st st' with
  | zero => exact rfl
  | succ f ih =>
    have ha : advance script st' i = advance script st i := by unfold advance; rw [h.branch]
    rw [stopWith_succ, stopWith_succ]
    unfold stopBody
    rw [ha]
    split
    · simp only []
      split
      · exact ⟨h, rfl⟩
      · split
        · exact ⟨h, rfl⟩
        · rename_i h0 _
          have hs := hex (advance script st i) (decodeOp (script.getD (advance script st i) 0)) st st'
            (by omega) h
          revert hs
          cases ex (advance script st i) (decodeOp (script.getD (advance script st i) 0)) st with
          | ok bs =>
            obtain ⟨b, s1⟩ := bs
            cases ex (advance script st i) (decodeOp (script.getD (advance script st i) 0)) st' with
            | ok bs' =>
              obtain ⟨b', s1'⟩ := bs'
              intro hs
              obtain ⟨rfl, hs⟩ := hs
              cases b
              · exact ih _ _ _ hs
              · exact ⟨hs, rfl⟩
            | err e => intro hs; exact hs.elim
            | panic p => intro hs; exact hs.elim
          | err e =>
            cases ex (advance script st i) (decodeOp (script.getD (advance script st i) 0)) st' with
            | ok bs' => intro hs; exact hs.elim
            | err e' => intro hs; exact hs
            | panic p => intro hs; exact hs.elim
          | panic p =>
            cases ex (advance script st i) (decodeOp (script.getD (advance script st i) 0)) st' with
            | ok bs' => intro hs; exact hs.elim
            | err e' => intro hs; exact hs.elim
            | panic p' => intro hs; exact hs
    · exact ⟨h, rfl⟩

theorem finishO_sim {n : Nat} {a b : Outcome (St σ × Nat)} (h : OutSim n a b) :
    OutSim n (finishO a) (finishO b) := by
  cases a with
  | ok x => cases b with
    | ok y =>
      obtain ⟨s, p⟩ := x
      obtain ⟨s', p'⟩ := y
      obtain ⟨h1, rfl⟩ := h
      simp only [finishO, finish, h1.branch]
      split
      · exact ⟨h1, rfl⟩
      · exact rfl
    | err e => exact h.elim
    | panic p => exact h.elim
  | err x => cases b with
    | ok y => exact h.elim
    | err e => exact h
    | panic p => exact h.elim
  | panic x => cases b with
    | ok y => exact h.elim
    | err e => exact h.elim
    | panic p => exact h

theorem run_sim (hex : ∀ i op st st', i < script.length → Sim script.length st st' →
      ExSim script.length (ex i op st) (ex i op st'))
    (breakAt : Option Nat) (fuel i : Nat) (st st' : St σ) (h : Sim script.length st st') :
    OutSim script.length (runWith ex script breakAt fuel i st) (runWith ex script breakAt fuel i st') := by
  rw [runWith_eq_stop, runWith_eq_stop]
  exact finishO_sim (stop_sim ex script hex breakAt fuel i st st' h)

end loop

/-! ### segments and their chaining -/

section stepping
variable {σ : Type}

theorem finish_ok_branch {st st' : St σ} {i j : Nat} (h : finish st i = .ok (st', j)) : st.branch = [] := by
  unfold finish at h
  split at h
  · rename_i hb; simpa using hb
  · simp [scriptErr] at h

theorem finish_of_branch_nil {st : St σ} (i : Nat) (h : st.branch = []) : finish st i = .ok (st, i) := by
  unfold finish; rw [h]; rfl

theorem finish_err {st : St σ} {i : Nat} {e : String} (h : finish st i = .err e) :
    st.branch ≠ [] ∧ e = "ScriptError" := by
  unfold finish at h
  split at h
  · simp at h
  · rename_i hb
    simp only [scriptErr, Outcome.err.injEq] at h
    exact ⟨by simpa using hb, h.symm⟩

/-- the interpreter state with which `core_eval` starts a segment: the carried stacks and checker,
    an EMPTY conditional stack and `check_index = 0` -/
def st0 (s : SegState σ) : St σ :=
  { stack := s.stack, alt := s.alt, branch := [], checkIndex := 0, chk := s.chk }

def initSeg (c0 : σ) : SegState σ := { stack := [], alt := [], pos := 0, chk := c0, reported := [] }

/-- how `core_eval` packs the loop's outcome -/
def resOf (breakAt : Option Nat) : Outcome (St σ × Nat) → Outcome (EvalResult σ)
  | .ok (st, i) => .ok { stack := st.stack, alt := st.alt, pos := breakAt.map (fun _ => i), chk := st.chk }
  | .err e => .err e
  | .panic p => .panic p

variable (H : Hashes) (C : Checker σ) (script : Bytes) (flags : Nat)

/-- the per-opcode semantics used by `core_eval` for this script and flag word -/
abbrev exF : Nat → Op → St σ → Outcome (Bool × St σ) := exec H C (decide (flags % 2 = 1)) script

theorem coreEval_eq (c0 : σ) (startAt breakAt : Option Nat) (stack alt : Option Stack) :
    coreEval H C c0 script flags startAt breakAt stack alt
      = resOf breakAt (runWith (exF H C script flags) script breakAt (script.length + 1) (startAt.getD 0)
          { stack := stack.getD [], alt := alt.getD [], branch := [], checkIndex := 0, chk := c0 }) := by
  unfold coreEval run
  simp only []
  cases runWith (exec H C (decide (flags % 2 = 1)) script) script breakAt (script.length + 1)
      (startAt.getD 0) { stack := stack.getD [], alt := alt.getD [], branch := [], checkIndex := 0, chk := c0 } with
  | ok x => rfl
  | err e => rfl
  | panic p => rfl

/-- the unbroken run from the point where segment state `s` stands -/
def full (s : SegState σ) : Outcome (St σ × Nat) :=
  runWith (exF H C script flags) script none (script.length + 1) s.pos (st0 s)

/-- the loop of the segment that starts in `s` and breaks at `b`, without the final check: the state
    and offset at which it is left -/
def segStop (s : SegState σ) (b : Nat) : Outcome (St σ × Nat) :=
  stopWith (exF H C script flags) script (some b) (script.length + 1) s.pos (st0 s)

theorem coreEval_seg (s : SegState σ) (breakAt : Option Nat) :
    coreEval H C s.chk script flags (some s.pos) breakAt (some s.stack) (some s.alt)
      = resOf breakAt (runWith (exF H C script flags) script breakAt (script.length + 1) s.pos (st0 s)) :=
  coreEval_eq H C script flags s.chk (some s.pos) breakAt (some s.stack) (some s.alt)

theorem coreEval_single (c0 : σ) :
    coreEval H C c0 script flags none none none none = resOf none (full H C script flags (initSeg c0)) :=
  coreEval_eq H C script flags c0 none none none none

theorem segment_eq (s : SegState σ) (b : Nat) :
    segment H C script flags s b =
      match runWith (exF H C script flags) script (some b) (script.length + 1) s.pos (st0 s) with
      | .ok (st1, p) => .ok { stack := st1.stack, alt := st1.alt, pos := p, chk := st1.chk, reported := p :: s.reported }
      | .err e => .err e
      | .panic q => .panic q := by
  unfold segment
  rw [coreEval_seg]
  cases runWith (exF H C script flags) script (some b) (script.length + 1) s.pos (st0 s) with
  | ok x => rfl
  | err e => rfl
  | panic p => rfl

theorem exF_ret (j : Nat) (op : Op) (s s' : St σ) (h : exF H C script flags j op s = .ok (true, s')) :
    s' = s := (exec_stop H C _ script j op s s' h).1

/-- a successful segment: the loop was left at the reported offset with an empty conditional stack,
    the stacks and checker are handed on, and the unbroken run from the segment's start equals the
    unbroken run RESUMED at the reported offset in the loop's final state `st1` (which still holds the
    `check_index` that the interface drops) -/
theorem segment_resume (s s1 : SegState σ) (b : Nat) (h : segment H C script flags s b = .ok s1) :
    ∃ st1 : St σ,
      runWith (exF H C script flags) script (some b) (script.length + 1) s.pos (st0 s) = .ok (st1, s1.pos) ∧
      segStop H C script flags s b = .ok (st1, s1.pos) ∧
      st1.branch = [] ∧ s1.stack = st1.stack ∧ s1.alt = st1.alt ∧ s1.chk = st1.chk ∧
      s1.reported = s1.pos :: s.reported ∧
      full H C script flags s
        = runWith (exF H C script flags) script none (script.length + 1) s1.pos st1 := by
  rw [segment_eq] at h
  cases hr : runWith (exF H C script flags) script (some b) (script.length + 1) s.pos (st0 s) with
  | ok x =>
    obtain ⟨st1, p⟩ := x
    rw [hr] at h
    simp only [Outcome.ok.injEq] at h
    subst h
    have hr' := hr
    rw [runWith_eq_stop] at hr'
    cases hs : stopWith (exF H C script flags) script (some b) (script.length + 1) s.pos (st0 s) with
    | ok y =>
      obtain ⟨st2, p2⟩ := y
      rw [hs] at hr'
      simp only [finishO] at hr'
      have hb := finish_ok_branch hr'
      obtain ⟨rfl, rfl⟩ := finish_ok hr'
      refine ⟨st1, rfl, hs, hb, rfl, rfl, rfl, rfl, ?_⟩
      exact stop_resume _ script (exF_ret H C script flags) (some b) _ _ _ _ _ hs hb _ _ (by omega) (by omega)
    | err e => rw [hs] at hr'; simp [finishO] at hr'
    | panic q => rw [hs] at hr'; simp [finishO] at hr'
  | err e => rw [hr] at h; simp at h
  | panic q => rw [hr] at h; simp at h

/-- the break of segment `(s, b)` fires while a conditional is open -/
def OpenAtBreak (s : SegState σ) (b : Nat) : Prop :=
  ∃ st1 p, segStop H C script flags s b = .ok (st1, p) ∧ p < script.length ∧ b ≤ p ∧ st1.branch ≠ []

/-- a failing segment: either the single run fails in the same way, or the break fired inside an open
    conditional (which `core_eval` reports as "ENDIF missing") -/
theorem segment_err (s : SegState σ) (b : Nat) (e : String) (h : segment H C script flags s b = .err e) :
    full H C script flags s = .err e ∨ (OpenAtBreak H C script flags s b ∧ e = "ScriptError") := by
  rw [segment_eq] at h
  have hrun : runWith (exF H C script flags) script (some b) (script.length + 1) s.pos (st0 s) = .err e := by
    cases hr : runWith (exF H C script flags) script (some b) (script.length + 1) s.pos (st0 s) with
    | ok x => rw [hr] at h; simp at h
    | err e' => rw [hr] at h; simpa using h
    | panic q => rw [hr] at h; simp at h
  rw [runWith_eq_stop] at hrun
  rcases stop_some_or_none (exF H C script flags) script b (script.length + 1) s.pos (st0 s) with he | ⟨st1, p, h1, h2, h3⟩
  · left
    unfold full
    rw [runWith_eq_stop, ← he]; exact hrun
  · right
    rw [h1] at hrun
    have := finish_err hrun
    exact ⟨⟨st1, p, h1, h2, h3, this.1⟩, this.2⟩

theorem segment_panic (s : SegState σ) (b : Nat) (q : String) (h : segment H C script flags s b = .panic q) :
    full H C script flags s = .panic q := by
  rw [segment_eq] at h
  have hrun : runWith (exF H C script flags) script (some b) (script.length + 1) s.pos (st0 s) = .panic q := by
    cases hr : runWith (exF H C script flags) script (some b) (script.length + 1) s.pos (st0 s) with
    | ok x => rw [hr] at h; simp at h
    | err e' => rw [hr] at h; simp at h
    | panic q' => rw [hr] at h; simpa using h
  rw [runWith_eq_stop] at hrun
  rcases stop_some_or_none (exF H C script flags) script b (script.length + 1) s.pos (st0 s) with he | ⟨st1, p, h1, h2, h3⟩
  · unfold full
    rw [runWith_eq_stop, ← he]; exact hrun
  · rw [h1] at hrun
    exact absurd hrun (finish_ne_panic _ _ _)

theorem exF_sim (hC : Checker.IgnoresScript C) (i : Nat) (op : Op) (st st' : St σ) (hi : i < script.length)
    (h : Sim script.length st st') :
    ExSim script.length (exF H C script flags i op st) (exF H C script flags i op st') :=
  exec_sim H hC _ script i op st st' hi h

/-- with a checker that ignores its script argument a successful segment does not change what the
    unbroken run will produce (up to `check_index`) -/
theorem segment_forward (hC : Checker.IgnoresScript C) (s s1 : SegState σ) (b : Nat)
    (h : segment H C script flags s b = .ok s1) :
    OutSim script.length (full H C script flags s) (full H C script flags s1) := by
  obtain ⟨st1, hrun, _, hb, h1, h2, h3, _, hfull⟩ := segment_resume H C script flags s s1 b h
  have hci : st1.checkIndex ≤ script.length := by
    have := run_sim _ script (exF_sim H C script flags hC) (some b) (script.length + 1) s.pos (st0 s) (st0 s)
      (Sim.refl (Nat.zero_le _))
    rw [hrun] at this
    exact this.1.cia
  have hsim : Sim script.length st1 (st0 s1) :=
    ⟨h1.symm, h2.symm, hb, h3.symm, hci, Nat.zero_le _⟩
  rw [hfull]
  exact run_sim _ script (exF_sim H C script flags hC) none (script.length + 1) s1.pos st1 (st0 s1) hsim

theorem resOf_sim {n : Nat} (breakAt : Option Nat) {a b : Outcome (St σ × Nat)} (h : OutSim n a b) :
    resOf breakAt a = resOf breakAt b := by
  cases a with
  | ok x => cases b with
    | ok y =>
      obtain ⟨s, p⟩ := x
      obtain ⟨s', p'⟩ := y
      obtain ⟨h1, rfl⟩ := h
      simp only [resOf, h1.stack, h1.alt, h1.chk]
    | err e => exact h.elim
    | panic p => exact h.elim
  | err x => cases b with
    | ok y => exact h.elim
    | err e => have : x = e := h; subst this; rfl
    | panic p => exact h.elim
  | panic x => cases b with
    | ok y => exact h.elim
    | err e => exact h.elim
    | panic p => have : x = p := h; subst this; rfl

/-- the stepping driver from an arbitrary segment state (`stepped` is `steppedFrom (initSeg c0)`) -/
def steppedFrom (s : SegState σ) (brks : List Nat) : Outcome (EvalResult σ × List Nat) :=
  match stepped.go H C script flags s brks with
  | .ok s' =>
    match coreEval H C s'.chk script flags (some s'.pos) none (some s'.stack) (some s'.alt) with
    | .ok r => .ok (r, s'.reported.reverse)
    | .err e => .err e
    | .panic p => .panic p
  | .err e => .err e
  | .panic p => .panic p

theorem stepped_eq (c0 : σ) (brks : List Nat) :
    stepped H C c0 script flags brks = steppedFrom H C script flags (initSeg c0) brks := rfl

theorem steppedFrom_nil (s : SegState σ) :
    steppedFrom H C script flags s [] =
      match resOf none (full H C script flags s) with
      | .ok r => .ok (r, s.reported.reverse)
      | .err e => .err e
      | .panic p => .panic p := by
  unfold steppedFrom
  simp only [stepped.go]
  rw [coreEval_seg]; rfl

theorem steppedFrom_cons (s : SegState σ) (b : Nat) (bs : List Nat) :
    steppedFrom H C script flags s (b :: bs) =
      match segment H C script flags s b with
      | .ok s' => steppedFrom H C script flags s' bs
      | .err e => .err e
      | .panic p => .panic p := by
  unfold steppedFrom
  simp only [stepped.go]
  cases segment H C script flags s b <;> rfl

/-- some break of the segmented run `(s, brks)` fires while a conditional is open -/
def OpenSomewhere : SegState σ → List Nat → Prop
  | _, [] => False
  | s, b :: bs => OpenAtBreak H C script flags s b ∨
      ∃ s', segment H C script flags s b = .ok s' ∧ OpenSomewhere s' bs

/-- **chaining**, any number of segments.  `Inv` is whatever guarantees that a successful segment
    leaves the result of the unbroken run unchanged (`hstep`); then whatever the segmented run returns
    is what the single run returns — except that a break inside an open conditional makes the
    segmented run fail with "ENDIF missing". -/
theorem chain_gen (Inv : SegState σ → List Nat → Prop)
    (hstep : ∀ s b bs s1, Inv s (b :: bs) → segment H C script flags s b = .ok s1 →
      resOf none (full H C script flags s) = resOf none (full H C script flags s1) ∧ Inv s1 bs)
    (brks : List Nat) (s : SegState σ) (hinv : Inv s brks) :
    (∀ r rep, steppedFrom H C script flags s brks = .ok (r, rep) →
        resOf none (full H C script flags s) = .ok r) ∧
    (∀ e, steppedFrom H C script flags s brks = .err e →
        resOf none (full H C script flags s) = .err e ∨
        (OpenSomewhere H C script flags s brks ∧ e = "ScriptError")) ∧
    (∀ q, steppedFrom H C script flags s brks = .panic q →
        resOf none (full H C script flags s) = .panic q) := by
  induction brks generalizing s with
  | nil =>
    rw [steppedFrom_nil]
    cases resOf none (full H C script flags s) with
    | ok r => simp
    | err e => simp
    | panic q => simp
  | cons b bs ih =>
    rw [steppedFrom_cons]
    cases hseg : segment H C script flags s b with
    | ok s1 =>
      simp only []
      obtain ⟨hf, hinv1⟩ := hstep s b bs s1 hinv hseg
      obtain ⟨i1, i2, i3⟩ := ih s1 hinv1
      rw [hf]
      refine ⟨i1, ?_, i3⟩
      intro e he
      rcases i2 e he with h | ⟨h, h'⟩
      · exact .inl h
      · exact .inr ⟨.inr ⟨s1, hseg, h⟩, h'⟩
    | err e =>
      simp only [reduceCtorEq, false_implies, implies_true, true_and, and_true, Outcome.err.injEq]
      intro e' he'
      subst he'
      rcases segment_err H C script flags s b e hseg with h | ⟨h, h'⟩
      · left; unfold resOf; rw [h]
      · exact .inr ⟨.inl h, h'⟩
    | panic q =>
      simp only [reduceCtorEq, false_implies, implies_true, true_and, Outcome.panic.injEq]
      intro q' hq'
      subst hq'
      have := segment_panic H C script flags s b q hseg
      unfold resOf; rw [this]

/-- instance 1: the checker ignores its script argument -/
theorem chain (hC : Checker.IgnoresScript C) (brks : List Nat) (s : SegState σ) :
    (∀ r rep, steppedFrom H C script flags s brks = .ok (r, rep) →
        resOf none (full H C script flags s) = .ok r) ∧
    (∀ e, steppedFrom H C script flags s brks = .err e →
        resOf none (full H C script flags s) = .err e ∨
        (OpenSomewhere H C script flags s brks ∧ e = "ScriptError")) ∧
    (∀ q, steppedFrom H C script flags s brks = .panic q →
        resOf none (full H C script flags s) = .panic q) :=
  chain_gen H C script flags (fun _ _ => True)
    (fun s b _ s1 _ hseg => ⟨resOf_sim none (segment_forward H C script flags hC s s1 b hseg), trivial⟩)
    brks s trivial

/-- no OP_CODESEPARATOR has been executed when a break fires: every segment of `(s, brks)` leaves its
    loop with `check_index = 0`, the value the next segment starts with -/
def SeparatorFree : SegState σ → List Nat → Prop
  | _, [] => True
  | s, b :: bs => (∀ st1 p, segStop H C script flags s b = .ok (st1, p) → st1.checkIndex = 0) ∧
      ∀ s', segment H C script flags s b = .ok s' → SeparatorFree s' bs

/-- instance 2: ANY checker, but no separator executed before a break -/
theorem chain_sepfree (brks : List Nat) (s : SegState σ) (hsf : SeparatorFree H C script flags s brks) :
    (∀ r rep, steppedFrom H C script flags s brks = .ok (r, rep) →
        resOf none (full H C script flags s) = .ok r) ∧
    (∀ e, steppedFrom H C script flags s brks = .err e →
        resOf none (full H C script flags s) = .err e ∨
        (OpenSomewhere H C script flags s brks ∧ e = "ScriptError")) ∧
    (∀ q, steppedFrom H C script flags s brks = .panic q →
        resOf none (full H C script flags s) = .panic q) := by
  refine chain_gen H C script flags (SeparatorFree H C script flags) ?_ brks s hsf
  intro s b bs s1 hinv hseg
  obtain ⟨st1, _, hstop, hb, h1, h2, h3, _, hfull⟩ := segment_resume H C script flags s s1 b hseg
  have hci := hinv.1 st1 s1.pos hstop
  have : st1 = st0 s1 := by
    obtain ⟨a, b, c, d, e⟩ := st1
    simp only at hb hci h1 h2 h3
    subst hb hci
    simp only [st0, h1, h2, h3]
  refine ⟨?_, hinv.2 s1 hseg⟩
  rw [hfull, this]; rfl

/-! #### reported offsets -/

theorem decodeOp_return_fin : ∀ i : Fin 256, decodeOp (UInt8.ofNat i.val) = .return_ → i.val = 106 := by
  decide +kernel

theorem decodeOp_return (b : UInt8) (h : decodeOp b = .return_) : b.toNat = 106 := by
  have := decodeOp_return_fin ⟨b.toNat, b.toNat_lt⟩
  simp only [UInt8.ofNat_toNat] at this
  exact this h

/-- a break at or beyond the end of the script never fires -/
theorem run_break_beyond (ex : Nat → Op → St σ → Outcome (Bool × St σ)) (b : Nat) (hb : script.length ≤ b)
    (fuel i : Nat) (st : St σ) :
    runWith ex script (some b) fuel i st = runWith ex script none fuel i st := by
  rw [runWith_eq_stop, runWith_eq_stop]
  rcases stop_some_or_none ex script b fuel i st with h | ⟨st1, p, _, h2, h3⟩
  · rw [h]
  · omega

theorem run_ok_stop (ex : Nat → Op → St σ → Outcome (Bool × St σ)) (breakAt : Option Nat) (fuel i : Nat)
    (st st1 : St σ) (p : Nat) (h : runWith ex script breakAt fuel i st = .ok (st1, p)) :
    stopWith ex script breakAt fuel i st = .ok (st1, p) ∧ st1.branch = [] := by
  rw [runWith_eq_stop] at h
  cases hs : stopWith ex script breakAt fuel i st with
  | ok y =>
    obtain ⟨st2, p2⟩ := y
    rw [hs] at h
    simp only [finishO] at h
    have hb := finish_ok_branch h
    obtain ⟨h1, h2⟩ := finish_ok h
    subst h1 h2
    exact ⟨rfl, hb⟩
  | err e => rw [hs] at h; simp [finishO] at h
  | panic q => rw [hs] at h; simp [finishO] at h

/-- a successful `core_eval` call in terms of the loop -/
theorem coreEval_ok (c0 : σ) (startAt breakAt : Option Nat) (stack alt : Option Stack) (r : EvalResult σ)
    (h : coreEval H C c0 script flags startAt breakAt stack alt = .ok r) :
    ∃ st1 p,
      stopWith (exF H C script flags) script breakAt (script.length + 1) (startAt.getD 0)
        { stack := stack.getD [], alt := alt.getD [], branch := [], checkIndex := 0, chk := c0 } = .ok (st1, p) ∧
      st1.branch = [] ∧
      r = { stack := st1.stack, alt := st1.alt, pos := breakAt.map (fun _ => p), chk := st1.chk } := by
  rw [coreEval_eq] at h
  cases hr : runWith (exF H C script flags) script breakAt (script.length + 1) (startAt.getD 0)
      { stack := stack.getD [], alt := alt.getD [], branch := [], checkIndex := 0, chk := c0 } with
  | ok x =>
    obtain ⟨st1, p⟩ := x
    rw [hr] at h
    simp only [resOf, Outcome.ok.injEq] at h
    obtain ⟨h1, h2⟩ := run_ok_stop script _ _ _ _ _ _ _ hr
    exact ⟨st1, p, h1, h2, h.symm⟩
  | err e => rw [hr] at h; simp [resOf] at h
  | panic q => rw [hr] at h; simp [resOf] at h

/-- a segmented run that succeeds had all its breaks at conditional depth zero -/
theorem not_open_of_ok (brks : List Nat) (s : SegState σ) (x : EvalResult σ × List Nat)
    (h : steppedFrom H C script flags s brks = .ok x) : ¬ OpenSomewhere H C script flags s brks := by
  induction brks generalizing s with
  | nil => exact id
  | cons b bs ih =>
    rw [steppedFrom_cons] at h
    intro ho
    rcases ho with ⟨st1, p, h1, _, _, h4⟩ | ⟨s', h1, h2⟩
    · have : segment H C script flags s b = .err "ScriptError" := by
        rw [segment_eq, runWith_eq_stop]
        unfold segStop at h1
        rw [h1]
        simp only [finishO, finish]
        have : st1.branch.isEmpty = false := by
          cases hb : st1.branch with
          | nil => exact absurd hb h4
          | cons a l => rfl
        rw [this]; rfl
      rw [this] at h; simp at h
    · rw [h1] at h
      exact ih s' h h2

/-- the offsets reported by the segments: one per break, in order, never decreasing -/
theorem go_reported (brks : List Nat) (s s' : SegState σ)
    (h : stepped.go H C script flags s brks = .ok s') :
    s.pos ≤ s'.pos ∧ ∃ l : List Nat, l.length = brks.length ∧ s'.reported = l ++ s.reported ∧
      l.reverse.Pairwise (· ≤ ·) ∧ ∀ x ∈ l, s.pos ≤ x ∧ x ≤ s'.pos := by
  induction brks generalizing s with
  | nil =>
    simp only [stepped.go, Outcome.ok.injEq] at h
    subst h
    exact ⟨Nat.le_refl _, [], rfl, rfl, by simp, by simp⟩
  | cons b bs ih =>
    simp only [stepped.go] at h
    cases hseg : segment H C script flags s b with
    | ok s1 =>
      rw [hseg] at h
      obtain ⟨st1, _, hstop, _, _, _, _, hrep, _⟩ := segment_resume H C script flags s s1 b hseg
      have hle := (stop_reaches _ script _ _ _ _ _ _ hstop).le
      obtain ⟨h1, l, h2, h3, h4, h5⟩ := ih s1 h
      refine ⟨by omega, l ++ [s1.pos], by simp [h2], by simp [h3, hrep], ?_, ?_⟩
      · simp only [List.reverse_append, List.reverse_cons, List.reverse_nil, List.nil_append,
          List.singleton_append, List.pairwise_cons, List.mem_reverse]
        exact ⟨fun x hx => (h5 x hx).1, h4⟩
      · intro x hx
        simp only [List.mem_append, List.mem_singleton] at hx
        rcases hx with hx | rfl
        · have := h5 x hx; omega
        · omega
    | err e => rw [hseg] at h; simp at h
    | panic q => rw [hseg] at h; simp at h

theorem stepped_reported (c0 : σ) (brks : List Nat) (r : EvalResult σ) (reported : List Nat)
    (h : stepped H C c0 script flags brks = .ok (r, reported)) :
    reported.length = brks.length ∧ reported.Pairwise (· ≤ ·) := by
  rw [stepped_eq] at h
  unfold steppedFrom at h
  cases hg : stepped.go H C script flags (initSeg c0) brks with
  | ok s' =>
    simp only [hg] at h
    have hrep : reported = s'.reported.reverse := by
      cases hc : coreEval H C s'.chk script flags (some s'.pos) none (some s'.stack) (some s'.alt) with
      | ok r' => rw [hc] at h; simp only [Outcome.ok.injEq, Prod.mk.injEq] at h; exact h.2.symm
      | err e => rw [hc] at h; simp at h
      | panic q => rw [hc] at h; simp at h
    subst hrep
    obtain ⟨_, l, h2, h3, h4, _⟩ := go_reported H C script flags brks (initSeg c0) s' hg
    have : s'.reported = l := by rw [h3]; simp [initSeg]
    rw [this]
    exact ⟨by simp [h2], h4⟩
  | err e => simp only [hg] at h; simp at h
  | panic q => simp only [hg] at h; simp at h

end stepping

end CG.Proofs.Stepping

import CG.Model.TxChecker
import CG.Proofs.InterpTotal
import CG.Proofs.Templates
/-!
Helper lemmas for `CG.Props.TxChecker`.

Part 1 — a simulation lemma for the interpreter model: if the verdicts of a checker do not depend on
WHICH checker state satisfying an invariant `Inv` it is asked in (and `Inv` is preserved), then two
runs of `coreEval` that start in two `Inv` states produce the same stacks / offset / error / panic and
end in `Inv` states.  (The checker state of the real `TransactionChecker` is the signature-hash cache;
`Inv` is C02's `CacheOk`.)

Part 2 — the same for the two-phase input check and for the input loop of `Tx::validate`.
-/
namespace CG.Proofs.TxChecker
open CG CG.Model.Interp CG.Model.ScriptNum CG.Model.TxChecker

variable {σ : Type}

/-- the verdicts of `C` are the same in all states satisfying `Inv`, and `Inv` is preserved -/
structure Insensitive (C : Checker σ) (Inv : σ → Prop) : Prop where
  sig : ∀ c c' sg pk scr, Inv c → Inv c' → (C.checkSig c sg pk scr).1 = (C.checkSig c' sg pk scr).1
  inv : ∀ c sg pk scr, Inv c → Inv (C.checkSig c sg pk scr).2
  lt : ∀ c c' t, C.checkLocktime c t = C.checkLocktime c' t
  sq : ∀ c c' t, C.checkSequence c t = C.checkSequence c' t

/-- replace the checker state -/
def setChk (st : St σ) (c : σ) : St σ := { st with chk := c }

@[simp] theorem setChk_stack (st : St σ) (c : σ) : (setChk st c).stack = st.stack := rfl
@[simp] theorem setChk_alt (st : St σ) (c : σ) : (setChk st c).alt = st.alt := rfl
@[simp] theorem setChk_branch (st : St σ) (c : σ) : (setChk st c).branch = st.branch := rfl
@[simp] theorem setChk_checkIndex (st : St σ) (c : σ) : (setChk st c).checkIndex = st.checkIndex := rfl
@[simp] theorem setChk_chk (st : St σ) (c : σ) : (setChk st c).chk = c := rfl
@[simp] theorem setChk_setChk (st : St σ) (c d : σ) : setChk (setChk st c) d = setChk st d := rfl
theorem setChk_self (st : St σ) : setChk st st.chk = st := rfl

def reChk (c : σ) : Outcome (Bool × St σ) → Outcome (Bool × St σ)
  | .ok (b, s) => .ok (b, setChk s c)
  | .err e => .err e
  | .panic p => .panic p

def usesChecker : Op → Bool
  | .checksig | .checksigverify | .checkmultisig | .checkmultisigverify | .cltv | .csv => true
  | _ => false

/-- related results of one opcode -/
def StepRel (Inv : σ → Prop) : Outcome (Bool × St σ) → Outcome (Bool × St σ) → Prop
  | .ok (b, s), .ok (b', s') => b = b' ∧ s' = setChk s s'.chk ∧ Inv s.chk ∧ Inv s'.chk
  | .err e, .err e' => e = e'
  | .panic p, .panic p' => p = p'
  | _, _ => False

/-- every opcode that does not consult the checker commutes with a change of the checker state … -/
theorem exec_frame_chk1 (H : Hashes) (C : Checker σ) (pg : Bool) (script : Bytes) (i : Nat) (op : Op)
    (st : St σ) (c' : σ) (h : usesChecker op = false) (r : Outcome (Bool × St σ))
    (hr : exec H C pg script i op st = r) :
    exec H C pg script i op (setChk st c') = reChk c' r := by
  obtain ⟨stack, alt, branch, ci, chk⟩ := st
  have a1 : ∀ n : Nat, ¬ (n + 1 < 1) := fun n => by omega
  have a2 : ∀ n : Nat, ¬ (n + 1 + 1 < 2) := fun n => by omega
  have a3 : ∀ n : Nat, ¬ (n + 1 + 1 + 1 < 3) := fun n => by omega
  have a4 : ∀ n : Nat, ¬ (n + 1 + 1 + 1 + 1 < 4) := fun n => by omega
  have a6 : ∀ n : Nat, ¬ (n + 1 + 1 + 1 + 1 + 1 + 1 < 6) := fun n => by omega
  cases op
  case checksig => simp [usesChecker] at h
  case checksigverify => simp [usesChecker] at h
  case checkmultisig => simp [usesChecker] at h
  case checkmultisigverify => simp [usesChecker] at h
  case cltv => simp [usesChecker] at h
  case csv => simp [usesChecker] at h
  all_goals
    simp only [exec, checkSize, scriptErr, pushSlice, unaryBig, binaryBig, bitwise, hashOp,
        popU, popBig, popNum, popBool] at hr
    repeat' split at hr
    all_goals
      subst hr
      simp [*, setChk, reChk, exec, checkSize, scriptErr, pushSlice, unaryBig, binaryBig, bitwise, hashOp,
        popU, popBig, popNum, popBool]
    all_goals first
      | done
      | (exfalso; simp_all; done)

/-- … and leaves it untouched -/
theorem exec_frame_chk2 (H : Hashes) (C : Checker σ) (pg : Bool) (script : Bytes) (i : Nat) (op : Op)
    (st : St σ) (h : usesChecker op = false) (b : Bool) (s : St σ)
    (hs : exec H C pg script i op st = .ok (b, s)) : s.chk = st.chk := by
  obtain ⟨stack, alt, branch, ci, chk⟩ := st
  cases op
  case checksig => simp [usesChecker] at h
  case checksigverify => simp [usesChecker] at h
  case checkmultisig => simp [usesChecker] at h
  case checkmultisigverify => simp [usesChecker] at h
  case cltv => simp [usesChecker] at h
  case csv => simp [usesChecker] at h
  all_goals
    simp only [exec, checkSize, scriptErr, pushSlice, unaryBig, binaryBig, bitwise, hashOp,
      popU, popBig, popNum, popBool] at hs
    repeat' split at hs
    all_goals first
      | (simp only [Outcome.ok.injEq, reduceCtorEq, Prod.mk.injEq] at hs; obtain ⟨-, rfl⟩ := hs; rfl)
      | (simp at hs; done)

theorem exec_frame_chk (H : Hashes) (C : Checker σ) (pg : Bool) (script : Bytes) (i : Nat) (op : Op)
    (st : St σ) (c' : σ) (h : usesChecker op = false) :
    exec H C pg script i op (setChk st c') = reChk c' (exec H C pg script i op st) ∧
    ∀ b s, exec H C pg script i op st = .ok (b, s) → s.chk = st.chk :=
  ⟨exec_frame_chk1 H C pg script i op st c' h _ rfl, fun b s hs => exec_frame_chk2 H C pg script i op st h b s hs⟩

theorem stepRel_of_frame {Inv : σ → Prop} {r r' : Outcome (Bool × St σ)} {c c' : σ}
    (h1 : r' = reChk c' r) (h2 : ∀ b s, r = .ok (b, s) → s.chk = c) (hc : Inv c) (hc' : Inv c') :
    StepRel Inv r r' := by
  subst h1
  cases r with
  | ok bs =>
    obtain ⟨b, s⟩ := bs
    have := h2 b s rfl
    exact ⟨rfl, rfl, by rw [this]; exact hc, hc'⟩
  | err e => exact rfl
  | panic p => exact rfl

/-! ### the signature-checking opcodes -/

theorem msLoop_rel {C : Checker σ} {Inv : σ → Prop} (hC : Insensitive C Inv) (scr : Bytes) :
    ∀ (keys sigs : List Bytes) (c c' : σ), Inv c → Inv c' →
      (msLoop C scr c sigs keys).1 = (msLoop C scr c' sigs keys).1 ∧
      Inv (msLoop C scr c sigs keys).2 ∧ Inv (msLoop C scr c' sigs keys).2 := by
  intro keys
  induction keys with
  | nil => intro sigs c c' hc hc'; cases sigs <;> simp [msLoop, hc, hc']
  | cons k ks ih =>
    intro sigs c c' hc hc'
    cases sigs with
    | nil => simp [msLoop, hc, hc']
    | cons s ss =>
      have e := hC.sig c c' s k scr hc hc'
      have i1 := hC.inv c s k scr hc
      have i2 := hC.inv c' s k scr hc'
      rcases h1 : C.checkSig c s k scr with ⟨o, d⟩
      rcases h2 : C.checkSig c' s k scr with ⟨o', d'⟩
      rw [h1, h2] at e
      rw [h1] at i1
      rw [h2] at i2
      simp only at e i1 i2
      subst e
      unfold msLoop
      rw [h1, h2]
      cases o with
      | ok b => cases b <;> exact ih _ _ _ i1 i2
      | err e => exact ⟨rfl, i1, i2⟩
      | panic p => exact ⟨rfl, i1, i2⟩

theorem checkMultisig_rel {C : Checker σ} {Inv : σ → Prop} (hC : Insensitive C Inv) (c c' : σ)
    (hc : Inv c) (hc' : Inv c') (stack : Stack) (sub : Bytes) :
    (checkMultisig C c stack sub).1 = (checkMultisig C c' stack sub).1 ∧
    Inv (checkMultisig C c stack sub).2 ∧ Inv (checkMultisig C c' stack sub).2 := by
  unfold checkMultisig
  cases popNum stack with
  | err e => exact ⟨rfl, hc, hc'⟩
  | panic p => exact ⟨rfl, hc, hc'⟩
  | ok ts =>
    obtain ⟨total, s1⟩ := ts
    simp only []
    by_cases h1 : total < 0
    · simp [h1, hc, hc']
    simp only [h1, if_false]
    by_cases h2 : s1.length < total.toNat
    · simp [h2, hc, hc']
    simp only [h2, if_false]
    cases popNum (List.drop total.toNat s1) with
    | err e => exact ⟨rfl, hc, hc'⟩
    | panic p => exact ⟨rfl, hc, hc'⟩
    | ok rs =>
      obtain ⟨required, s3⟩ := rs
      simp only []
      by_cases h3 : required < 0 ∨ required > total
      · simp [h3, hc, hc']
      simp only [h3, if_false]
      by_cases h4 : s3.length < required.toNat
      · simp [h4, hc, hc']
      simp only [h4, if_false]
      by_cases h5 : (List.drop required.toNat s3).length < 1
      · simp only [h5, if_true]; exact ⟨trivial, hc, hc'⟩
      simp only [h5, if_false]
      obtain ⟨e, i1, i2⟩ := msLoop_rel hC
        (List.foldl (fun acc sg => if prefork sg = true then removeSig sg acc else acc) sub
          (List.take required.toNat s3))
        (List.take total.toNat s1) (List.take required.toNat s3) c c' hc hc'
      rcases h1 : msLoop C _ c (List.take required.toNat s3) (List.take total.toNat s1) with ⟨o, d⟩
      rcases h2 : msLoop C _ c' (List.take required.toNat s3) (List.take total.toNat s1) with ⟨o', d'⟩
      rw [h1, h2] at e
      rw [h1] at i1
      rw [h2] at i2
      simp only at e i1 i2
      subst e
      cases o <;> exact ⟨rfl, i1, i2⟩

@[simp] theorem stepRel_err {Inv : σ → Prop} (e e' : String) :
    StepRel Inv (.err e) (.err e') ↔ e = e' := Iff.rfl
@[simp] theorem stepRel_panic {Inv : σ → Prop} (p p' : String) :
    StepRel Inv (.panic p) (.panic p') ↔ p = p' := Iff.rfl
@[simp] theorem stepRel_scriptErr {Inv : σ → Prop} : StepRel Inv (scriptErr : Outcome (Bool × St σ)) scriptErr :=
  rfl
@[simp] theorem stepRel_ok {Inv : σ → Prop} (b b' : Bool) (s s' : St σ) :
    StepRel Inv (.ok (b, s)) (.ok (b', s')) ↔ (b = b' ∧ s' = setChk s s'.chk ∧ Inv s.chk ∧ Inv s'.chk) := Iff.rfl

theorem sigCheck_rel {C : Checker σ} {Inv : σ → Prop} (hC : Insensitive C Inv) (script : Bytes) (st : St σ)
    (c' : σ) (v : Bool) (hc : Inv st.chk) (hc' : Inv c') :
    StepRel Inv (sigCheck C script st v) (sigCheck C script (setChk st c') v) := by
  obtain ⟨stack, alt, branch, ci, chk⟩ := st
  simp only at hc
  rcases stack with _ | ⟨pk, _ | ⟨sg, r2⟩⟩
  · simp [sigCheck, checkSize, setChk]
  · simp [sigCheck, checkSize, setChk]
  simp only [sigCheck, checkSize, setChk, popU, List.length_cons]
  have a2 : ¬ (r2.length + 1 + 1 < 2) := by omega
  simp only [a2, if_false]
  by_cases hci : ci > script.length
  · simp only [hci, if_true]; exact rfl
  simp only [hci, if_false]
  have e := hC.sig chk c' sg pk (cleaned script ci sg) hc hc'
  have i1 := hC.inv chk sg pk (cleaned script ci sg) hc
  have i2 := hC.inv c' sg pk (cleaned script ci sg) hc'
  rcases h1 : C.checkSig chk sg pk (cleaned script ci sg) with ⟨o, d⟩
  rcases h2 : C.checkSig c' sg pk (cleaned script ci sg) with ⟨o', d'⟩
  rw [h1, h2] at e
  rw [h1] at i1
  rw [h2] at i2
  simp only at e i1 i2
  subst e
  cases o with
  | ok b =>
    simp only []
    cases v
    · exact ⟨rfl, rfl, i1, i2⟩
    · cases b
      · exact rfl
      · exact ⟨rfl, rfl, i1, i2⟩
  | err e => exact rfl
  | panic p => exact rfl

theorem multisigOp_rel {C : Checker σ} {Inv : σ → Prop} (hC : Insensitive C Inv) (script : Bytes) (st : St σ)
    (c' : σ) (v : Bool) (hc : Inv st.chk) (hc' : Inv c') :
    StepRel Inv (multisigOp C script st v) (multisigOp C script (setChk st c') v) := by
  obtain ⟨stack, alt, branch, ci, chk⟩ := st
  simp only at hc
  simp only [multisigOp, setChk]
  by_cases hci : ci > script.length
  · simp only [hci, if_true]; exact rfl
  simp only [hci, if_false]
  obtain ⟨e, i1, i2⟩ := checkMultisig_rel hC chk c' hc hc' stack (List.drop ci script)
  rcases h1 : checkMultisig C chk stack (List.drop ci script) with ⟨o, d⟩
  rcases h2 : checkMultisig C c' stack (List.drop ci script) with ⟨o', d'⟩
  rw [h1, h2] at e
  rw [h1] at i1
  rw [h2] at i2
  simp only at e i1 i2
  subst e
  cases o with
  | ok bs =>
    obtain ⟨b, s'⟩ := bs
    simp only []
    cases v
    · exact ⟨rfl, rfl, i1, i2⟩
    · cases b
      · exact rfl
      · exact ⟨rfl, rfl, i1, i2⟩
  | err e => exact rfl
  | panic p => exact rfl

theorem timelock_rel {Inv : σ → Prop} (f : σ → Int → Outcome Bool) (hf : ∀ c c' t, f c t = f c' t)
    (pg : Bool) (st : St σ) (c' : σ) (hc : Inv st.chk) (hc' : Inv c') :
    StepRel Inv
      (if pg then
        match popNum st.stack with
        | .err e => .err e | .panic p => .panic p
        | .ok (t, r) => match f st.chk t with
          | .ok b => if b then .ok (false, { st with stack := r }) else scriptErr
          | .err e => .err e | .panic p => .panic p
       else .ok (false, { st with stack := st.stack }))
      (if pg then
        match popNum (setChk st c').stack with
        | .err e => .err e | .panic p => .panic p
        | .ok (t, r) => match f (setChk st c').chk t with
          | .ok b => if b then .ok (false, { setChk st c' with stack := r }) else scriptErr
          | .err e => .err e | .panic p => .panic p
       else .ok (false, { setChk st c' with stack := (setChk st c').stack })) := by
  obtain ⟨stack, alt, branch, ci, chk⟩ := st
  simp only at hc
  simp only [setChk]
  cases pg
  · exact ⟨rfl, rfl, hc, hc'⟩
  · simp only [if_true]
    cases popNum stack with
    | err e => exact rfl
    | panic p => exact rfl
    | ok tr =>
      obtain ⟨t, r⟩ := tr
      simp only []
      rw [hf c' chk t]
      cases f chk t with
      | ok b =>
        cases b
        · exact rfl
        · exact ⟨rfl, rfl, hc, hc'⟩
      | err e => exact rfl
      | panic p => exact rfl

/-- one opcode, two checker states satisfying the invariant: related results -/
theorem exec_rel {C : Checker σ} {Inv : σ → Prop} (hC : Insensitive C Inv) (H : Hashes) (pg : Bool)
    (script : Bytes) (i : Nat) (op : Op) (st : St σ) (c' : σ) (hc : Inv st.chk) (hc' : Inv c') :
    StepRel Inv (exec H C pg script i op st) (exec H C pg script i op (setChk st c')) := by
  by_cases hu : usesChecker op = false
  · obtain ⟨h1, h2⟩ := exec_frame_chk H C pg script i op st c' hu
    exact stepRel_of_frame h1 h2 hc hc'
  · cases op
    case checksig => exact sigCheck_rel hC script st c' false hc hc'
    case checksigverify => exact sigCheck_rel hC script st c' true hc hc'
    case checkmultisig => exact multisigOp_rel hC script st c' false hc hc'
    case checkmultisigverify => exact multisigOp_rel hC script st c' true hc hc'
    case cltv => exact timelock_rel C.checkLocktime hC.lt pg st c' hc hc'
    case csv => exact timelock_rel C.checkSequence hC.sq pg st c' hc hc'
    all_goals exact absurd rfl hu

/-! ### the loop, `core_eval` -/

def RunRel (Inv : σ → Prop) : Outcome (St σ × Nat) → Outcome (St σ × Nat) → Prop
  | .ok (s, i), .ok (s', i') => i = i' ∧ s' = setChk s s'.chk ∧ Inv s.chk ∧ Inv s'.chk
  | .err e, .err e' => e = e'
  | .panic p, .panic p' => p = p'
  | _, _ => False

theorem finish_rel {Inv : σ → Prop} (st : St σ) (c' : σ) (i : Nat) (hc : Inv st.chk) (hc' : Inv c') :
    RunRel Inv (finish st i) (finish (setChk st c') i) := by
  unfold finish
  simp only [setChk_branch]
  by_cases hb : st.branch.isEmpty = true
  · simp only [hb, if_true]; exact ⟨rfl, rfl, hc, hc'⟩
  · simp only [hb]; exact rfl

theorem runWith_rel {Inv : σ → Prop} (ex : Nat → Op → St σ → Outcome (Bool × St σ))
    (hex : ∀ i op st c', Inv st.chk → Inv c' → StepRel Inv (ex i op st) (ex i op (setChk st c')))
    (script : Bytes) (brk : Option Nat) :
    ∀ (fuel i : Nat) (st : St σ) (c' : σ), Inv st.chk → Inv c' →
      RunRel Inv (runWith ex script brk fuel i st) (runWith ex script brk fuel i (setChk st c')) := by
  intro fuel
  induction fuel with
  | zero => intro i st c' _ _; exact rfl
  | succ f ih =>
    intro i st c' hc hc'
    simp only [runWith_succ, loopBody]
    have hadv : advance script (setChk st c') i = advance script st i := rfl
    rw [hadv]
    by_cases hlt : i < script.length
    · simp only [hlt, if_true]
      generalize advance script st i = i0
      by_cases hge : i0 ≥ script.length
      · simp only [hge, if_true]
        exact finish_rel st c' i0 hc hc'
      · simp only [hge, if_false]
        by_cases hb : brkHit brk i0 = true
        · simp only [hb, if_true]
          exact finish_rel st c' i0 hc hc'
        · simp only [hb]
          have hs := hex i0 (decodeOp (script.getD i0 0)) st c' hc hc'
          rcases h1 : ex i0 (decodeOp (script.getD i0 0)) st with ⟨b, s⟩ | e | p <;>
            rcases h2 : ex i0 (decodeOp (script.getD i0 0)) (setChk st c') with ⟨b', s'⟩ | e' | p' <;>
            rw [h1, h2] at hs <;> simp only [StepRel] at hs
          · obtain ⟨rfl, hs', i1, i2⟩ := hs
            rw [hs']
            cases b
            · exact ih _ s s'.chk i1 i2
            · exact finish_rel s s'.chk i0 i1 i2
          · subst hs; exact rfl
          · subst hs; exact rfl
    · simp only [hlt, if_false]
      exact finish_rel st c' i hc hc'

def EvalRel (Inv : σ → Prop) : Outcome (EvalResult σ) → Outcome (EvalResult σ) → Prop
  | .ok r, .ok r' => r.stack = r'.stack ∧ r.alt = r'.alt ∧ r.pos = r'.pos ∧ Inv r.chk ∧ Inv r'.chk
  | .err e, .err e' => e = e'
  | .panic p, .panic p' => p = p'
  | _, _ => False

/-- **simulation**: two runs of `core_eval` from two checker states satisfying the invariant -/
theorem coreEval_rel {C : Checker σ} {Inv : σ → Prop} (hC : Insensitive C Inv) (H : Hashes) (c c' : σ)
    (hc : Inv c) (hc' : Inv c') (script : Bytes) (flags : Nat) (startAt breakAt : Option Nat)
    (stack alt : Option Stack) :
    EvalRel Inv (coreEval H C c script flags startAt breakAt stack alt)
      (coreEval H C c' script flags startAt breakAt stack alt) := by
  unfold coreEval run
  simp only []
  have key := runWith_rel (Inv := Inv) (exec H C (decide (flags % 2 = 1)) script)
    (fun i op st c' h1 h2 => exec_rel hC H _ script i op st c' h1 h2) script breakAt
    (script.length + 1) (startAt.getD 0)
    { stack := stack.getD [], alt := alt.getD [], branch := [], checkIndex := 0, chk := c } c' hc hc'
  simp only [setChk] at key
  rcases h1 : runWith (exec H C (decide (flags % 2 = 1)) script) script breakAt (script.length + 1)
      (startAt.getD 0) { stack := stack.getD [], alt := alt.getD [], branch := [], checkIndex := 0, chk := c }
    with ⟨s, i⟩ | e | p <;>
  rcases h2 : runWith (exec H C (decide (flags % 2 = 1)) script) script breakAt (script.length + 1)
      (startAt.getD 0) { stack := stack.getD [], alt := alt.getD [], branch := [], checkIndex := 0, chk := c' }
    with ⟨s', i'⟩ | e' | p' <;>
  rw [h1, h2] at key <;> simp only [RunRel] at key
  · obtain ⟨rfl, hs, i1, i2⟩ := key
    rw [hs]
    exact ⟨rfl, rfl, rfl, i1, i2⟩
  · exact key
  · exact key

/-- in particular the invariant holds at the end of a run that started in it -/
theorem coreEval_inv {C : Checker σ} {Inv : σ → Prop} (hC : Insensitive C Inv) (H : Hashes) (c : σ)
    (hc : Inv c) (script : Bytes) (flags : Nat) (startAt breakAt : Option Nat) (stack alt : Option Stack)
    (r : EvalResult σ) (h : coreEval H C c script flags startAt breakAt stack alt = .ok r) : Inv r.chk := by
  have := coreEval_rel hC H c c hc hc script flags startAt breakAt stack alt
  rw [h] at this
  exact this.2.2.2.1

/-! ### the two-phase input check -/

/-- verdict classes of `validateInputSt` -/
def VerdictRel (Inv : σ → Prop) : Outcome σ → Outcome σ → Prop
  | .ok d, .ok d' => Inv d ∧ Inv d'
  | .err e, .err e' => e = e'
  | .panic p, .panic p' => p = p'
  | _, _ => False

theorem validateInputSt_rel {C : Checker σ} {Inv : σ → Prop} (hC : Insensitive C Inv) (H : Hashes) (c c' : σ)
    (hc : Inv c) (hc' : Inv c') (unlock lock : Bytes) (flags : Nat) :
    VerdictRel Inv (validateInputSt H C c unlock lock flags) (validateInputSt H C c' unlock lock flags) := by
  unfold validateInputSt
  have k1 := coreEval_rel hC H c c' hc hc' unlock flags none none none none
  rcases h1 : coreEval H C c unlock flags none none none none with r1 | e | p <;>
    rcases h1' : coreEval H C c' unlock flags none none none none with r1' | e' | p' <;>
    rw [h1, h1'] at k1 <;> simp only [EvalRel] at k1
  · obtain ⟨hs, -, -, i1, i2⟩ := k1
    simp only []
    rw [← hs]
    have k2 := coreEval_rel hC H r1.chk r1'.chk i1 i2 lock flags none none (some r1.stack) none
    rcases h2 : coreEval H C r1.chk lock flags none none (some r1.stack) none with r2 | e | p <;>
      rcases h2' : coreEval H C r1'.chk lock flags none none (some r1.stack) none with r2' | e' | p' <;>
      rw [h2, h2'] at k2 <;> simp only [EvalRel] at k2
    · obtain ⟨hs2, -, -, j1, j2⟩ := k2
      simp only []
      rw [← hs2]
      cases r2.stack with
      | nil => exact rfl
      | cons t rest =>
        simp only []
        split
        · exact ⟨j1, j2⟩
        · exact rfl
    · exact k2
    · exact k2
  · exact k1
  · exact k1

/-- `validateInputSt` is `validateInput` (C03's model) plus the final checker state -/
theorem validateInput_eq (H : Hashes) (C : Checker σ) (c : σ) (unlock lock : Bytes) (flags : Nat) :
    CG.Model.TxScript.validateInput H C c unlock lock flags =
      match validateInputSt H C c unlock lock flags with
      | .ok _ => .ok ()
      | .err e => .err e
      | .panic p => .panic p := by
  unfold CG.Model.TxScript.validateInput validateInputSt
  cases coreEval H C c unlock flags none none none none with
  | err e => rfl
  | panic p => rfl
  | ok r1 =>
    simp only []
    cases coreEval H C r1.chk lock flags none none (some r1.stack) none with
    | err e => rfl
    | panic p => rfl
    | ok r2 =>
      simp only []
      cases r2.stack with
      | nil => rfl
      | cons t rest =>
        simp only []
        split <;> rfl

/-- the multisig matching relation with the invariant carried along: every accepted (signature, key)
    pair was accepted in a state satisfying the invariant -/
theorem matches_sublist_inv {C : Checker σ} {Inv : σ → Prop} (hC : Insensitive C Inv) {scr : Bytes}
    {c c' : σ} {sigs keys : List Bytes} (h : CG.Proofs.Templates.Matches C scr c sigs keys c') (hc : Inv c) :
    ∃ used : List Bytes, used.Sublist keys ∧ used.length = sigs.length ∧
      ∀ p ∈ sigs.zip used, ∃ c1, Inv c1 ∧ (C.checkSig c1 p.1 p.2 scr).1 = .ok true := by
  induction h with
  | done c keys => exact ⟨[], List.nil_sublist _, rfl, by simp⟩
  | @hit c c' c'' s k ss ks hcs _ ih =>
    have i1 := hC.inv c s k scr hc
    rw [hcs] at i1
    obtain ⟨used, hsub, hlen, hall⟩ := ih i1
    refine ⟨k :: used, hsub.cons_cons k, by simp [hlen], ?_⟩
    intro p hp
    simp only [List.zip_cons_cons, List.mem_cons] at hp
    rcases hp with rfl | hp
    · exact ⟨c, hc, by rw [hcs]⟩
    · exact hall p hp
  | @miss c c' c'' s k ss ks hcs _ ih =>
    have i1 := hC.inv c s k scr hc
    rw [hcs] at i1
    obtain ⟨used, hsub, hlen, hall⟩ := ih i1
    exact ⟨used, hsub.cons _, hlen, hall⟩

end CG.Proofs.TxChecker

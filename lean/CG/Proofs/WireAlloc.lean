import CG.Model.WireAlloc
import CG.Proofs.WireCodec
/-!
Lemmas for C06: every instrumented combinator of `CG.Model.WireAlloc` carries a certificate
`Cert L c d w D` relating the instrumented decoder `d` (under the repaired policy `capped L`) to the
C05 codec `c` it instruments:

* `erase`   — same outcome as the C05 decoder (so the log is the log of *that* decoder);
* `consume` — on success at least `w` bytes plus one byte per loop iteration were consumed;
* `steps`   — in every case: iterations ≤ input length + `D` (`D` = loop nesting depth: the one
              failing iteration of each enclosing loop);
* `alloc`   — every allocation request ≤ `16 * input length + bigC L`;
* `nopanic`.

The certificate of a message decoder is the same expression as its definition, combinator by
combinator.  `Leaf c w`: a C05 codec that neither allocates nor loops, consumes ≥ `w` bytes, never
panics.
-/
namespace CG.Model.WireAlloc
open CG CG.Model.Wire

/-- the constant of the allocation bound: the up-front cap `L` of the repaired helpers, or the
    `Inv` vector (count checked against `MAX_INV_ENTRIES` before `with_capacity`), plus small change
    (first `push` of a vector: 4 elements; `read_to_end` probe; one-byte-length buffers) -/
def bigC (L : Nat) : Nat := max L (Generated.MAX_INV_ENTRIES * Generated.C06_SIZEOF_INVVECT) + 512

theorem bigC_ge (L : Nat) : 512 ≤ bigC L ∧ L ≤ bigC L := by
  unfold bigC; omega

/-! ## leaves -/

structure Leaf {α} (c : Codec α) (w : Nat) : Prop where
  minlen : ∀ b a r, c.dec b = .ok (a, r) → r.length + w ≤ b.length
  nopanic : ∀ b s, c.dec b ≠ .panic s

theorem Leaf.weaken {α} {c : Codec α} {w w' : Nat} (h : Leaf c w) (hw : w' ≤ w) : Leaf c w' where
  minlen b a r hd := by have := h.minlen b a r hd; omega
  nopanic := h.nopanic

theorem takeExact_len {n : Nat} {b x r : Bytes} (h : takeExact n b = some (x, r)) :
    r.length + n = b.length := by
  obtain ⟨rfl, hl⟩ := takeExact_some h
  simp; omega

theorem Leaf.uLE (n : Nat) : Leaf (uLE n) n where
  minlen b a r h := by
    simp only [Wire.uLE] at h
    split at h
    · rename_i x r' hx
      have := takeExact_len hx
      simp only [Outcome.ok.injEq, Prod.mk.injEq] at h
      obtain ⟨_, rfl⟩ := h
      omega
    · simp at h
  nopanic b s := by
    simp only [Wire.uLE]; split <;> simp

theorem Leaf.u8 : Leaf u8 1 := Leaf.uLE 1
theorem Leaf.u16 : Leaf u16 2 := Leaf.uLE 2
theorem Leaf.u32 : Leaf u32 4 := Leaf.uLE 4
theorem Leaf.u64 : Leaf u64 8 := Leaf.uLE 8

theorem Leaf.uBE (n : Nat) : Leaf (uBE n) n where
  minlen b a r h := by
    simp only [Wire.uBE] at h
    split at h
    · rename_i x r' hx
      have := takeExact_len hx
      simp only [Outcome.ok.injEq, Prod.mk.injEq] at h
      obtain ⟨_, rfl⟩ := h
      omega
    · simp at h
  nopanic b s := by
    simp only [Wire.uBE]; split <;> simp

theorem Leaf.u16be : Leaf u16be 2 := Leaf.uBE 2

theorem Leaf.bytesN (n : Nat) : Leaf (bytesN n) n where
  minlen b a r h := by
    simp only [Wire.bytesN] at h
    split at h
    · rename_i x r' hx
      have := takeExact_len hx
      simp only [Outcome.ok.injEq, Prod.mk.injEq] at h
      obtain ⟨_, rfl⟩ := h
      omega
    · simp at h
  nopanic b s := by
    simp only [Wire.bytesN]; split <;> simp

theorem Leaf.hash32 : Leaf hash32 32 := Leaf.bytesN 32

/-- `bind` with a continuation that never panics and never changes the rest -/
theorem Leaf.bindOk {α β} {c : Codec α} {c' : Codec β} {w : Nat} (h : Leaf c w)
    (k : α × Bytes → Outcome (β × Bytes))
    (hdec : ∀ b, c'.dec b = (c.dec b).bind k)
    (hk : ∀ p q, k p = .ok q → q.2 = p.2) (hp : ∀ p s, k p ≠ .panic s) : Leaf c' w where
  minlen b a r hd := by
    rw [hdec, bind_eq_ok] at hd
    obtain ⟨p, hp1, hp2⟩ := hd
    have := h.minlen b p.1 p.2 hp1
    have hr : r = p.2 := by simpa using hk p (a, r) hp2
    subst hr; omega
  nopanic b s := by
    rw [hdec]
    cases hc : c.dec b with
    | ok p => simpa using hp p s
    | err e => simp
    | panic s' => exact absurd hc (h.nopanic b s')

theorem Leaf.iLE (n : Nat) : Leaf (iLE n) n :=
  (Leaf.uLE n).bindOk (fun p => .ok (toSigned (256 ^ n) p.1, p.2)) (fun _ => rfl)
    (by intro p q h; simp at h; rw [← h]) (by intro p s; simp)

theorem Leaf.i32 : Leaf i32 4 := Leaf.iLE 4
theorem Leaf.i64 : Leaf i64 8 := Leaf.iLE 8

theorem Leaf.boolByte : Leaf boolByte 1 :=
  Leaf.u8.bindOk (fun p => .ok (p.1 == 1, p.2)) (fun _ => rfl)
    (by intro p q h; simp at h; rw [← h]) (by intro p s; simp)

theorem Leaf.iso {α β} {c : Codec α} {w : Nat} (h : Leaf c w) (f : α → β) (g : β → α) :
    Leaf (iso c f g) w :=
  h.bindOk (fun p => .ok (f p.1, p.2)) (fun _ => rfl)
    (by intro p q h; simp at h; rw [← h]) (by intro p s; simp)

theorem Leaf.inj {α β} {c : Codec α} {w : Nat} (h : Leaf c w) (f : α → β) (g : β → Option α) (d : α) :
    Leaf (inj c f g d) w :=
  h.bindOk (fun p => .ok (f p.1, p.2)) (fun _ => rfl)
    (by intro p q h; simp at h; rw [← h]) (by intro p s; simp)

theorem Leaf.refine {α} {c : Codec α} {w : Nat} (h : Leaf c w) (p : α → Bool) (e : String) :
    Leaf (refine c p e) w :=
  h.bindOk (fun x => if p x.1 then .ok x else .err e) (fun _ => rfl)
    (by intro x q h; split at h <;> simp at h; rw [← h]) (by intro x s; split <;> simp)

theorem Leaf.constC {c : Codec Nat} {w : Nat} (h : Leaf c w) (k : Nat) (e : String) :
    Leaf (constC c k e) w :=
  h.bindOk (fun p => if p.1 = k then .ok ((), p.2) else .err e) (fun _ => rfl)
    (by intro x q h; split at h <;> simp at h; rw [← h]) (by intro x s; split <;> simp)

theorem Leaf.failAfter {α β} {c : Codec α} {w : Nat} (h : Leaf c w) (e : String) :
    Leaf (failAfter c e : Codec β) w :=
  h.bindOk (fun _ => .err e) (fun _ => rfl) (by intro x q h; simp at h) (by intro x s; simp)

theorem Leaf.dpair {α β} {ca : Codec α} {cb : α → Codec β} {wa wb : Nat} (ha : Leaf ca wa)
    (hb : ∀ a, Leaf (cb a) wb) : Leaf (dpair ca cb) (wa + wb) where
  minlen b a r hd := by
    simp only [Wire.dpair] at hd
    rw [bind_eq_ok] at hd
    obtain ⟨x, hx, hd⟩ := hd
    rw [bind_eq_ok] at hd
    obtain ⟨y, hy, hd⟩ := hd
    have h1 := ha.minlen b x.1 x.2 hx
    have h2 := (hb x.1).minlen x.2 y.1 y.2 hy
    simp only [Outcome.ok.injEq, Prod.mk.injEq] at hd
    obtain ⟨_, rfl⟩ := hd
    omega
  nopanic b s := by
    simp only [Wire.dpair]
    cases hx : ca.dec b with
    | ok x =>
      simp only [bind_ok]
      cases hy : (cb x.1).dec x.2 with
      | ok y => simp
      | err e => simp
      | panic s' => exact absurd hy ((hb x.1).nopanic _ s')
    | err e => simp
    | panic s' => exact absurd hx (ha.nopanic b s')

theorem Leaf.pair {α β} {ca : Codec α} {cb : Codec β} {wa wb : Nat} (ha : Leaf ca wa) (hb : Leaf cb wb) :
    Leaf (ca ⊗ cb) (wa + wb) := Leaf.dpair ha (fun _ => hb)

theorem Leaf.varint : Leaf varint 1 where
  minlen b a r hd := by
    simp only [Wire.varint] at hd
    rw [bind_eq_ok] at hd
    obtain ⟨p, hp, hd⟩ := hd
    have h1 := Leaf.u8.minlen b p.1 p.2 hp
    split at hd
    · have := Leaf.u64.minlen _ _ _ hd; omega
    · split at hd
      · have := Leaf.u32.minlen _ _ _ hd; omega
      · split at hd
        · have := Leaf.u16.minlen _ _ _ hd; omega
        · simp only [Outcome.ok.injEq, Prod.mk.injEq] at hd
          obtain ⟨_, rfl⟩ := hd
          omega
  nopanic b s := by
    simp only [Wire.varint]
    cases hp : Wire.u8.dec b with
    | ok p =>
      simp only [bind_ok]
      split
      · exact Leaf.u64.nopanic _ s
      · split
        · exact Leaf.u32.nopanic _ s
        · split
          · exact Leaf.u16.nopanic _ s
          · simp
    | err e => simp
    | panic s' => exact absurd hp (Leaf.u8.nopanic b s')

theorem Leaf.skipByte : Leaf skipByte 0 where
  minlen b a r hd := by
    simp only [Wire.skipByte] at hd
    split at hd <;> simp at hd <;> subst hd <;> simp
  nopanic b s := by
    simp only [Wire.skipByte]; split <;> simp

/-! ### the leaf structures of `Wire/Messages.lean` -/

theorem Leaf.outPointC : Leaf outPointC 36 := Leaf.iso (Leaf.pair Leaf.hash32 Leaf.u32) _ _
theorem Leaf.blockHeaderC : Leaf blockHeaderC 80 :=
  Leaf.iso (Leaf.pair Leaf.u32 (Leaf.pair Leaf.hash32 (Leaf.pair Leaf.hash32 (Leaf.pair Leaf.u32
    (Leaf.pair Leaf.u32 Leaf.u32))))) _ _
theorem Leaf.invVectC : Leaf invVectC 36 := Leaf.iso (Leaf.pair Leaf.u32 Leaf.hash32) _ _
theorem Leaf.pingC : Leaf pingC 8 := Leaf.iso Leaf.u64 _ _
theorem Leaf.feeFilterC : Leaf feeFilterC 8 := Leaf.iso Leaf.u64 _ _
theorem Leaf.sendCmpctC : Leaf sendCmpctC 9 := Leaf.iso (Leaf.pair Leaf.u8 Leaf.u64) _ _
theorem Leaf.nodeAddrC : Leaf nodeAddrC 26 :=
  Leaf.iso (Leaf.pair Leaf.u64 (Leaf.pair (Leaf.bytesN 16) Leaf.u16be)) _ _
theorem Leaf.nodeAddrExC : Leaf nodeAddrExC 30 := Leaf.iso (Leaf.pair Leaf.u32 Leaf.nodeAddrC) _ _
theorem Leaf.headerEntry : Leaf (Wire.blockHeaderC ⊗ Wire.skipByte) 80 := Leaf.pair Leaf.blockHeaderC Leaf.skipByte
theorem Leaf.messageHeaderC : Leaf messageHeaderC 24 :=
  Leaf.iso (Leaf.pair (Leaf.bytesN 4) (Leaf.pair (Leaf.bytesN 12) (Leaf.pair Leaf.u32 (Leaf.bytesN 4)))) _ _

theorem Leaf.bip155C : Leaf bip155C 2 := by
  unfold Wire.bip155C
  refine Leaf.dpair (wa := 1) (wb := 1) Leaf.u8 (fun id => ?_)
  split
  · exact (Leaf.inj (Leaf.pair (Leaf.constC Leaf.varint _ _) (Leaf.bytesN _)) _ _ _).weaken (by omega)
  · exact Leaf.failAfter Leaf.varint _

theorem Leaf.nodeAddrExV2C : Leaf nodeAddrExV2C 9 :=
  Leaf.iso (Leaf.pair Leaf.u32 (Leaf.pair Leaf.varint (Leaf.pair Leaf.bip155C Leaf.u16be))) _ _

/-! ## certificates -/

structure Cert (L : Nat) {α} (c : Codec α) (d : ADec α) (w D : Nat) : Prop where
  erase : ∀ b, (d b).out = c.dec b
  consume : ∀ b a r, (d b).out = .ok (a, r) → r.length + w + (d b).steps ≤ b.length
  steps : ∀ b, (d b).steps ≤ b.length + D
  alloc : ∀ b, ∀ x ∈ (d b).log, x ≤ 16 * b.length + bigC L
  nopanic : ∀ b s, (d b).out ≠ .panic s

variable {L : Nat}

theorem Cert.weaken {α} {c : Codec α} {d : ADec α} {w w' D : Nat} (h : Cert L c d w D) (hw : w' ≤ w) :
    Cert L c d w' D where
  erase := h.erase
  consume b a r hd := by have := h.consume b a r hd; omega
  steps := h.steps
  alloc := h.alloc
  nopanic := h.nopanic

/-- the certificate speaks about `c.dec` only -/
theorem Cert.congr {α} {c c' : Codec α} {d : ADec α} {w D : Nat} (h : Cert L c d w D)
    (hc : c'.dec = c.dec) : Cert L c' d w D where
  erase b := by rw [hc]; exact h.erase b
  consume := h.consume
  steps := h.steps
  alloc := h.alloc
  nopanic := h.nopanic

theorem Cert.lift {α} {c : Codec α} {w : Nat} (h : Leaf c w) (D : Nat) : Cert L c (lift c) w D where
  erase _ := rfl
  consume b a r hd := by have := h.minlen b a r hd; simp only [WireAlloc.lift]; omega
  steps b := by simp [WireAlloc.lift]
  alloc b x hx := by simp [WireAlloc.lift] at hx
  nopanic b s := h.nopanic b s

/-! ### sequencing -/

theorem seq_ok {α β} {d : ADec α} {f : α → ADec β} {b : Bytes} {a : α} {b' : Bytes}
    (h : (d b).out = .ok (a, b')) :
    seq d f b = ⟨(f a b').out.bind fun y => .ok ((a, y.1), y.2), (d b).log ++ (f a b').log,
      (d b).steps + (f a b').steps⟩ := by
  simp only [seq, h]

theorem seq_err {α β} {d : ADec α} {f : α → ADec β} {b : Bytes} {e : String}
    (h : (d b).out = .err e) : seq d f b = ⟨.err e, (d b).log, (d b).steps⟩ := by
  simp only [seq, h]

theorem seq_panic {α β} {d : ADec α} {f : α → ADec β} {b : Bytes} {e : String}
    (h : (d b).out = .panic e) : seq d f b = ⟨.panic e, (d b).log, (d b).steps⟩ := by
  simp only [seq, h]

theorem Cert.dpair {α β} {ca : Codec α} {cb : α → Codec β} {da : ADec α} {fb : α → ADec β}
    {wa wb D : Nat} (ha : Cert L ca da wa D) (hb : ∀ a, Cert L (cb a) (fb a) wb D) :
    Cert L (dpair ca cb) (seq da fb) (wa + wb) D where
  erase b := by
    simp only [Wire.dpair, ← ha.erase b]
    cases h : (da b).out with
    | ok p =>
      obtain ⟨a, b'⟩ := p
      simp only [seq_ok h, bind_ok, (hb a).erase b']
    | err e => simp only [seq_err h, bind_err]
    | panic e => simp only [seq_panic h, bind_panic]
  consume b a r hd := by
    cases h : (da b).out with
    | ok p =>
      obtain ⟨x, b'⟩ := p
      rw [seq_ok h] at hd ⊢
      simp only at hd ⊢
      rw [bind_eq_ok] at hd
      obtain ⟨y, hy, hd⟩ := hd
      simp only [Outcome.ok.injEq, Prod.mk.injEq] at hd
      obtain ⟨_, rfl⟩ := hd
      have h1 := ha.consume b x b' h
      have h2 := (hb x).consume b' y.1 y.2 hy
      omega
    | err e => rw [seq_err h] at hd; simp at hd
    | panic e => rw [seq_panic h] at hd; simp at hd
  steps b := by
    cases h : (da b).out with
    | ok p =>
      obtain ⟨x, b'⟩ := p
      rw [seq_ok h]
      have h1 := ha.consume b x b' h
      have h2 := (hb x).steps b'
      simp only; omega
    | err e => rw [seq_err h]; exact ha.steps b
    | panic e => rw [seq_panic h]; exact ha.steps b
  alloc b x hx := by
    cases h : (da b).out with
    | ok p =>
      obtain ⟨a, b'⟩ := p
      rw [seq_ok h] at hx
      simp only [List.mem_append] at hx
      rcases hx with hx | hx
      · exact ha.alloc b x hx
      · have h1 := ha.consume b a b' h
        have h2 := (hb a).alloc b' x hx
        omega
    | err e => rw [seq_err h] at hx; exact ha.alloc b x hx
    | panic e => rw [seq_panic h] at hx; exact ha.alloc b x hx
  nopanic b s := by
    cases h : (da b).out with
    | ok p =>
      obtain ⟨a, b'⟩ := p
      rw [seq_ok h]
      simp only
      cases hy : (fb a b').out with
      | ok y => simp
      | err e => simp
      | panic s' => exact absurd hy ((hb a).nopanic b' s')
    | err e => rw [seq_err h]; simp
    | panic e => exact absurd h (ha.nopanic b e)

theorem Cert.pair {α β} {ca : Codec α} {cb : Codec β} {da : ADec α} {db : ADec β}
    {wa wb D : Nat} (ha : Cert L ca da wa D) (hb : Cert L cb db wb D) :
    Cert L (ca ⊗ cb) (da ⊛ db) (wa + wb) D := Cert.dpair ha (fun _ => hb)

/-- post-processing of the outcome that keeps the rest, adds no allocation and no iteration -/
theorem Cert.post {α β} {c : Codec α} {c' : Codec β} {d : ADec α} {d' : ADec β} {w D : Nat}
    (h : Cert L c d w D) (k : α × Bytes → Outcome (β × Bytes))
    (hc : ∀ b, c'.dec b = (c.dec b).bind k)
    (hd : ∀ b, d' b = ⟨(d b).out.bind k, (d b).log, (d b).steps⟩)
    (hk : ∀ p q, k p = .ok q → q.2 = p.2) (hp : ∀ p s, k p ≠ .panic s) : Cert L c' d' w D where
  erase b := by rw [hd, hc, h.erase]
  consume b a r ho := by
    rw [hd] at ho ⊢
    simp only at ho ⊢
    rw [bind_eq_ok] at ho
    obtain ⟨p, hp1, hp2⟩ := ho
    have hr : r = p.2 := by simpa using hk p (a, r) hp2
    subst hr
    exact h.consume b p.1 p.2 hp1
  steps b := by rw [hd]; exact h.steps b
  alloc b x hx := by rw [hd] at hx; exact h.alloc b x hx
  nopanic b s := by
    rw [hd]
    simp only
    cases ho : (d b).out with
    | ok p => simpa using hp p s
    | err e => simp
    | panic s' => exact absurd ho (h.nopanic b s')

theorem Cert.iso {α β} {c : Codec α} {d : ADec α} {w D : Nat} (h : Cert L c d w D) (f : α → β) (g : β → α) :
    Cert L (iso c f g) (amap f d) w D :=
  h.post (fun p => .ok (f p.1, p.2)) (fun _ => rfl) (fun _ => rfl)
    (by intro p q h; simp at h; rw [← h]) (by intro p s; simp)

theorem Cert.inj {α β} {c : Codec α} {d : ADec α} {w D : Nat} (h : Cert L c d w D) (f : α → β)
    (g : β → Option α) (dflt : α) : Cert L (inj c f g dflt) (amap f d) w D :=
  h.post (fun p => .ok (f p.1, p.2)) (fun _ => rfl) (fun _ => rfl)
    (by intro p q h; simp at h; rw [← h]) (by intro p s; simp)

theorem Cert.refine {α} {c : Codec α} {d : ADec α} {w D : Nat} (h : Cert L c d w D) (p : α → Bool)
    (e : String) : Cert L (refine c p e) (arefine d p e) w D :=
  h.post (fun x => if p x.1 then .ok x else .err e) (fun _ => rfl) (fun _ => rfl)
    (by intro x q h; split at h <;> simp at h; rw [← h]) (by intro x s; split <;> simp)

theorem Cert.validated {α} {c : Codec α} {d : ADec α} {w D : Nat} (h : Cert L c d w D)
    (v : α → Outcome Unit) (hv : ∀ a s, v a ≠ .panic s) : Cert L (validated c v) (avalidated d v) w D :=
  h.post (fun x => (v x.1).bind fun _ => .ok x) (fun _ => rfl) (fun _ => rfl)
    (by
      intro x q h
      rw [bind_eq_ok] at h
      obtain ⟨_, _, h⟩ := h
      simp at h; rw [← h])
    (by
      intro x s
      cases hvx : v x.1 with
      | ok u => simp
      | err e => simp
      | panic s' => exact absurd hvx (hv x.1 s'))

theorem Cert.withAlloc {α} {c : Codec α} {d : ADec α} {w D : Nat} (h : Cert L c d w D) (k : Nat)
    (hk : k ≤ 512) : Cert L c (withAlloc k d) w D where
  erase := h.erase
  consume := h.consume
  steps := h.steps
  alloc b x hx := by
    simp only [WireAlloc.withAlloc, List.mem_cons] at hx
    rcases hx with rfl | hx
    · have := bigC_ge L; omega
    · exact h.alloc b x hx
  nopanic := h.nopanic

/-! ### byte buffers -/

theorem vecBytes_leaf (n : Nat) : Leaf (vecBytes n) n where
  minlen := (Leaf.bytesN n).minlen
  nopanic := (Leaf.bytesN n).nopanic

theorem Cert.fixedVec (k : Nat) (hk : k ≤ 512) (D : Nat) : Cert L (vecBytes k) (fixedVec k) 0 D where
  erase _ := rfl
  consume b a r hd := by
    have := (vecBytes_leaf k).minlen b a r hd
    simp only [WireAlloc.fixedVec]; omega
  steps b := by simp [WireAlloc.fixedVec]
  alloc b x hx := by
    simp only [WireAlloc.fixedVec] at hx
    split at hx
    · simp at hx
    · simp only [List.mem_singleton] at hx
      have := bigC_ge L; omega
  nopanic b s := (vecBytes_leaf k).nopanic b s

theorem Cert.readBytes (n D : Nat) : Cert L (vecBytes n) (readBytes (.capped L) n) 0 D where
  erase _ := rfl
  consume b a r hd := by
    have := (vecBytes_leaf n).minlen b a r hd
    simp only [WireAlloc.readBytes]; omega
  steps b := by simp [WireAlloc.readBytes]
  alloc b x hx := by
    have hC := bigC_ge L
    simp only [WireAlloc.readBytes, List.mem_cons] at hx
    rcases hx with rfl | hx
    · omega
    · split at hx
      · simp only [List.mem_singleton] at hx; omega
      · simp at hx
  nopanic b s := (vecBytes_leaf n).nopanic b s

theorem Cert.varBytes (D : Nat) : Cert L varBytes (varBytesA (.capped L)) 1 D :=
  Cert.inj (Cert.dpair (Cert.lift Leaf.varint D) (fun n => Cert.readBytes n D)) _ _ _

theorem Cert.varStr (D : Nat) : Cert L varStr (varStrA (.capped L)) 1 D :=
  Cert.refine (Cert.varBytes D) _ _

theorem u8_dec_ok {b : Bytes} {n : Nat} {r : Bytes} (h : Wire.u8.dec b = .ok (n, r)) :
    n < 256 ∧ r.length + 1 = b.length := by
  cases b with
  | nil => rw [u8_dec_nil] at h; simp at h
  | cons x t =>
    rw [u8_dec_cons] at h
    simp only [Outcome.ok.injEq, Prod.mk.injEq] at h
    obtain ⟨rfl, rfl⟩ := h
    exact ⟨x.toNat_lt, rfl⟩

theorem assocA_erase (b : Bytes) : (assocA b).out = assocDec b := by
  simp only [assocA, assocDec]
  cases h : Wire.u8.dec b with
  | ok p => obtain ⟨n, r⟩ := p; simp only; split <;> rfl
  | err e => rfl
  | panic s => rfl

theorem Cert.assoc {c : Codec Bytes} (hc : c.dec = assocDec) (D : Nat) : Cert L c assocA 0 D where
  erase b := by rw [hc]; exact assocA_erase b
  consume b a r hd := by
    simp only [assocA] at hd ⊢
    cases h : Wire.u8.dec b with
    | ok p =>
      obtain ⟨n, t⟩ := p
      have := u8_dec_ok h
      simp only [h] at hd ⊢
      split at hd
      · have := (vecBytes_leaf n).minlen t a r hd
        simp only [*, if_true]; omega
      · simp only [Outcome.ok.injEq, Prod.mk.injEq] at hd
        obtain ⟨_, rfl⟩ := hd
        simp only [*, if_false]; omega
    | err e =>
      simp only [h] at hd ⊢
      simp only [Outcome.ok.injEq, Prod.mk.injEq] at hd
      obtain ⟨_, rfl⟩ := hd
      simp
    | panic s =>
      simp only [h] at hd ⊢
      simp only [Outcome.ok.injEq, Prod.mk.injEq] at hd
      obtain ⟨_, rfl⟩ := hd
      simp
  steps b := by
    simp only [assocA]
    split
    · split <;> simp
    · simp
  alloc b x hx := by
    simp only [assocA] at hx
    split at hx
    · rename_i n t h
      have := u8_dec_ok h
      split at hx
      · simp only [List.mem_singleton] at hx
        have := bigC_ge L; omega
      · simp at hx
    · simp at hx
  nopanic b s := by
    rw [assocA_erase]
    simp only [assocDec]
    split
    · split
      · exact (vecBytes_leaf _).nopanic _ s
      · simp
    · simp

theorem Cert.assocAlways (D : Nat) : Cert L assocAlways assocA 0 D := Cert.assoc rfl D
theorem Cert.assocOpt (D : Nat) : Cert L assocOpt assocA 0 D := Cert.assoc rfl D

theorem Cert.policyOpt (D : Nat) : Cert L policyOpt (policyA (.capped L)) 0 D where
  erase b := by
    simp only [policyA, Wire.policyOpt]
    cases h : Wire.varint.dec b with
    | ok p => obtain ⟨n, r⟩ := p; simp only [(Cert.readBytes (L := L) n D).erase r]
    | err e => rfl
    | panic s => rfl
  consume b a r hd := by
    simp only [policyA] at hd ⊢
    cases h : Wire.varint.dec b with
    | ok p =>
      obtain ⟨n, t⟩ := p
      have h0 := Leaf.varint.minlen b n t h
      simp only [h] at hd ⊢
      rw [bind_eq_ok] at hd
      obtain ⟨y, hy, hd⟩ := hd
      have h1 := (Cert.readBytes (L := L) n D).consume t y.1 y.2 hy
      split at hd
      · simp only [Outcome.ok.injEq] at hd
        subst hd
        simp only at h1
        omega
      · simp at hd
    | err e =>
      simp only [h] at hd ⊢
      simp only [Outcome.ok.injEq, Prod.mk.injEq] at hd
      obtain ⟨_, rfl⟩ := hd
      simp
    | panic s =>
      simp only [h] at hd ⊢
      simp only [Outcome.ok.injEq, Prod.mk.injEq] at hd
      obtain ⟨_, rfl⟩ := hd
      simp
  steps b := by
    simp only [policyA]
    split
    · simp [WireAlloc.readBytes]
    · simp
  alloc b x hx := by
    simp only [policyA] at hx
    split at hx
    · rename_i n t h
      have h0 := Leaf.varint.minlen b n t h
      have := (Cert.readBytes (L := L) n D).alloc t x hx
      omega
    · simp at hx
  nopanic b s := by
    simp only [policyA]
    split
    · rename_i n t h
      simp only
      cases hy : (WireAlloc.readBytes (.capped L) n t).out with
      | ok y => simp only [bind_ok]; split <;> simp
      | err e => simp
      | panic s' => exact absurd hy ((Cert.readBytes (L := L) n D).nopanic t s')
    · simp

theorem Cert.optionC {α} {c : Codec α} {d : ADec α} {w D : Nat} (h : Cert L c d w D) (present : Bool)
    (dflt : α) : Cert L (optionC present c dflt) (optionA present d) 0 D := by
  cases present with
  | true =>
    simp only [Wire.optionC, optionA, if_true]
    exact (Cert.inj h some id dflt).weaken (Nat.zero_le _)
  | false =>
    simp only [Wire.optionC, optionA]
    exact {
      erase := fun _ => rfl
      consume := by
        intro b a r hd
        simp only [Bool.false_eq_true, if_false, Outcome.ok.injEq, Prod.mk.injEq] at hd ⊢
        obtain ⟨_, rfl⟩ := hd
        simp
      steps := by intro b; simp
      alloc := by intro b x hx; simp at hx
      nopanic := by intro b s; simp }

/-! ### vectors -/

section loop
variable {α : Type} {c : Codec α} {d : ADec α} {w De sz : Nat}

theorem loopA_succ_ok {n capB lenB : Nat} {b : Bytes} {a : α} {b' : Bytes} (h : (d b).out = .ok (a, b')) :
    loopA sz d (n + 1) capB lenB b =
      ⟨match (loopA sz d n (pushGrow sz capB lenB).1 (lenB + sz) b').out with
        | .ok (as, r') => .ok (a :: as, r')
        | .err e => .err e
        | .panic p => .panic p,
       (d b).log ++ ((pushGrow sz capB lenB).2 ++ (loopA sz d n (pushGrow sz capB lenB).1 (lenB + sz) b').log),
       1 + (d b).steps + (loopA sz d n (pushGrow sz capB lenB).1 (lenB + sz) b').steps⟩ := by
  simp only [loopA, h]
  generalize (loopA sz d n (pushGrow sz capB lenB).1 (lenB + sz) b').out = X
  rcases X with ⟨as, r'⟩ | e | p <;> rfl

theorem loopA_succ_err {n capB lenB : Nat} {b : Bytes} {e : String} (h : (d b).out = .err e) :
    loopA sz d (n + 1) capB lenB b = ⟨.err e, (d b).log, 1 + (d b).steps⟩ := by
  simp only [loopA, h]

theorem loopA_succ_panic {n capB lenB : Nat} {b : Bytes} {e : String} (h : (d b).out = .panic e) :
    loopA sz d (n + 1) capB lenB b = ⟨.panic e, (d b).log, 1 + (d b).steps⟩ := by
  simp only [loopA, h]

theorem loopA_erase (he : Cert L c d w De) :
    ∀ n capB lenB b, (loopA sz d n capB lenB b).out = decN c n b
  | 0, _, _, _ => rfl
  | n + 1, capB, lenB, b => by
    simp only [decN, ← he.erase b]
    cases h : (d b).out with
    | ok p =>
      obtain ⟨a, b'⟩ := p
      rw [loopA_succ_ok h]
      simp only [loopA_erase he n]
      rcases decN c n b' with ⟨as, r'⟩ | e | p <;> rfl
    | err e => rw [loopA_succ_err h]
    | panic e => rw [loopA_succ_panic h]

theorem pushGrow_le {capB lenB : Nat} : ∀ x ∈ (pushGrow sz capB lenB).2, x ≤ 2 * lenB + 4 * sz := by
  intro x hx
  simp only [pushGrow] at hx
  split at hx
  · simp at hx
  · simp only [List.mem_singleton] at hx
    omega

/-- the four facts of the push loop, by induction on the count.  Potential: `2·lenB + 16·|b|` never
    increases: an element adds `sz` to the vector and takes at least `w` bytes, `2·sz ≤ 16·w`. -/
theorem loopA_facts (he : Cert L c d w De) (hw : 1 ≤ w) (hsz : 2 * sz ≤ 16 * w) (hs4 : 4 * sz ≤ 512) :
    ∀ n capB lenB b,
      (∀ as rest, (loopA sz d n capB lenB b).out = .ok (as, rest) →
        rest.length + (loopA sz d n capB lenB b).steps ≤ b.length) ∧
      (loopA sz d n capB lenB b).steps ≤ b.length + (De + 1) ∧
      (∀ x ∈ (loopA sz d n capB lenB b).log, x ≤ 2 * lenB + 16 * b.length + bigC L) ∧
      (∀ s, (loopA sz d n capB lenB b).out ≠ .panic s)
  | 0, capB, lenB, b => by
    refine ⟨?_, ?_, ?_, ?_⟩
    · intro as rest h
      simp only [loopA, Outcome.ok.injEq, Prod.mk.injEq] at h ⊢
      obtain ⟨_, rfl⟩ := h
      omega
    · simp [loopA]
    · intro x hx; simp [loopA] at hx
    · intro s; simp [loopA]
  | n + 1, capB, lenB, b => by
    have hC := bigC_ge L
    cases h : (d b).out with
    | ok p =>
      obtain ⟨a, b'⟩ := p
      have h1 := he.consume b a b' h
      obtain ⟨i1, i2, i3, i4⟩ := loopA_facts he hw hsz hs4 n (pushGrow sz capB lenB).1 (lenB + sz) b'
      rw [loopA_succ_ok h]
      refine ⟨?_, ?_, ?_, ?_⟩
      · intro as rest ho
        simp only at ho ⊢
        cases hs : (loopA sz d n (pushGrow sz capB lenB).1 (lenB + sz) b').out with
        | ok q =>
          obtain ⟨as', r'⟩ := q
          rw [hs] at ho
          simp only [Outcome.ok.injEq, Prod.mk.injEq] at ho
          obtain ⟨_, rfl⟩ := ho
          have := i1 as' r' hs
          omega
        | err e => rw [hs] at ho; simp at ho
        | panic e => rw [hs] at ho; simp at ho
      · simp only; omega
      · intro x hx
        simp only [List.mem_append] at hx
        rcases hx with hx | hx | hx
        · have := he.alloc b x hx; omega
        · have := pushGrow_le (sz := sz) x hx; omega
        · have := i3 x hx; omega
      · intro s
        simp only
        cases hs : (loopA sz d n (pushGrow sz capB lenB).1 (lenB + sz) b').out with
        | ok q => simp
        | err e => simp
        | panic e => exact absurd hs (i4 e)
    | err e =>
      rw [loopA_succ_err h]
      have := he.steps b
      refine ⟨?_, ?_, ?_, ?_⟩
      · intro as rest ho; simp at ho
      · simp only; omega
      · intro x hx; have := he.alloc b x hx; simp only at hx; omega
      · intro s; simp
    | panic e => exact absurd h (he.nopanic b e)

/-- count prefix `cl`, a vector created with capacity `cap n` (requests `extra n`), push loop -/
def listGen (cl : Codec Nat) (cap : Nat → Nat) (extra : Nat → List Nat) (sz : Nat) (d : ADec α) :
    ADec (List α) := fun b =>
  match cl.dec b with
  | .ok (n, r) =>
    let s := loopA sz d n (cap n) 0 r
    ⟨s.out, extra n ++ s.log, s.steps⟩
  | .err e => ⟨.err e, [], 0⟩
  | .panic p => ⟨.panic p, [], 0⟩

theorem lenPrefixed_repeatN_dec (cl : Codec Nat) (b : Bytes) :
    (lenPrefixed cl (repeatN c) List.length []).dec b = (cl.dec b).bind fun x => decN c x.1 x.2 := by
  simp only [lenPrefixed, Wire.inj, Wire.dpair, repeatN]
  cases cl.dec b with
  | ok x =>
    simp only [bind_ok]
    cases decN c x.1 x.2 with
    | ok y => simp
    | err e => simp
    | panic e => simp
  | err e => simp
  | panic e => simp

theorem Cert.listGen (he : Cert L c d w De) (hw : 1 ≤ w) (hsz : 2 * sz ≤ 16 * w) (hs4 : 4 * sz ≤ 512)
    {cl : Codec Nat} (hcl : Leaf cl 1) (cap : Nat → Nat) (extra : Nat → List Nat)
    (hex : ∀ b n r, cl.dec b = .ok (n, r) → ∀ x ∈ extra n, x ≤ bigC L) :
    Cert L (lenPrefixed cl (repeatN c) List.length []) (listGen cl cap extra sz d) 1 (De + 1) where
  erase b := by
    rw [lenPrefixed_repeatN_dec]
    simp only [WireAlloc.listGen]
    cases h : cl.dec b with
    | ok x => obtain ⟨n, r⟩ := x; simp only [bind_ok, loopA_erase he]
    | err e => rfl
    | panic e => rfl
  consume b a r ho := by
    simp only [WireAlloc.listGen] at ho ⊢
    cases h : cl.dec b with
    | ok x =>
      obtain ⟨n, t⟩ := x
      have h0 := hcl.minlen b n t h
      simp only [h] at ho ⊢
      have := (loopA_facts he hw hsz hs4 n (cap n) 0 t).1 a r ho
      omega
    | err e => simp only [h] at ho; simp at ho
    | panic e => simp only [h] at ho; simp at ho
  steps b := by
    simp only [WireAlloc.listGen]
    cases h : cl.dec b with
    | ok x =>
      obtain ⟨n, t⟩ := x
      have h0 := hcl.minlen b n t h
      have := (loopA_facts he hw hsz hs4 n (cap n) 0 t).2.1
      simp only; omega
    | err e => simp
    | panic e => simp
  alloc b x hx := by
    simp only [WireAlloc.listGen] at hx
    cases h : cl.dec b with
    | ok p =>
      obtain ⟨n, t⟩ := p
      have h0 := hcl.minlen b n t h
      simp only [h, List.mem_append] at hx
      rcases hx with hx | hx
      · have := hex b n t h x hx; omega
      · have := (loopA_facts he hw hsz hs4 n (cap n) 0 t).2.2.1 x hx; omega
    | err e => simp only [h] at hx; simp at hx
    | panic e => simp only [h] at hx; simp at hx
  nopanic b s := by
    simp only [WireAlloc.listGen]
    cases h : cl.dec b with
    | ok p =>
      obtain ⟨n, t⟩ := p
      exact (loopA_facts he hw hsz hs4 n (cap n) 0 t).2.2.2 s
    | err e => simp
    | panic e => exact absurd h (hcl.nopanic b e)

theorem listCapA_eq (sz : Nat) (d : ADec α) :
    listCapA (.capped L) sz d =
      listGen varint (fun n => min n (L / sz) * sz) (fun n => [min n (L / sz) * sz]) sz d := by
  funext b
  simp only [listCapA, WireAlloc.listGen, initialCap]
  cases Wire.varint.dec b <;> rfl

theorem listPushA_eq (sz : Nat) (d : ADec α) :
    listPushA sz d = listGen varint (fun _ => 0) (fun _ => []) sz d := by
  funext b
  simp only [listPushA, WireAlloc.listGen]
  cases Wire.varint.dec b <;> simp

theorem refine_varint_dec (max : Nat) (b : Bytes) :
    (Wire.refine varint (fun n => decide (n ≤ max)) "BadData").dec b =
      match Wire.varint.dec b with
      | .ok (n, r) => if n ≤ max then .ok (n, r) else .err "BadData"
      | .err e => .err e
      | .panic p => .panic p := by
  simp only [Wire.refine]
  cases Wire.varint.dec b with
  | ok p => obtain ⟨n, r⟩ := p; simp
  | err e => rfl
  | panic e => rfl

theorem listMaxCapA_eq (max sz : Nat) (d : ADec α) :
    listMaxCapA max sz d =
      listGen (Wire.refine varint (fun n => decide (n ≤ max)) "BadData") (fun n => n * sz)
        (fun n => [n * sz]) sz d := by
  funext b
  simp only [listMaxCapA, WireAlloc.listGen, refine_varint_dec]
  cases Wire.varint.dec b with
  | ok p => obtain ⟨n, r⟩ := p; simp only; split <;> rfl
  | err e => rfl
  | panic e => rfl

theorem listMaxPushA_eq (max sz : Nat) (d : ADec α) :
    listMaxPushA max sz d =
      listGen (Wire.refine varint (fun n => decide (n ≤ max)) "BadData") (fun _ => 0)
        (fun _ => []) sz d := by
  funext b
  simp only [listMaxPushA, WireAlloc.listGen, refine_varint_dec]
  cases Wire.varint.dec b with
  | ok p => obtain ⟨n, r⟩ := p; simp only; split <;> simp
  | err e => rfl
  | panic e => rfl

theorem Cert.listCap (he : Cert L c d w De) (hw : 1 ≤ w) (hsz : 2 * sz ≤ 16 * w) (hs4 : 4 * sz ≤ 512) :
    Cert L (listCap c) (listCapA (.capped L) sz d) 1 (De + 1) := by
  rw [listCapA_eq]
  refine Cert.listGen he hw hsz hs4 Leaf.varint _ _ ?_
  intro b n r _ x hx
  simp only [List.mem_singleton] at hx
  have h1 : min n (L / sz) * sz ≤ L / sz * sz := Nat.mul_le_mul_right _ (Nat.min_le_right _ _)
  have h2 := Nat.div_mul_le_self L sz
  have := bigC_ge L
  omega

theorem Cert.listPush (he : Cert L c d w De) (hw : 1 ≤ w) (hsz : 2 * sz ≤ 16 * w) (hs4 : 4 * sz ≤ 512) :
    Cert L (listPush c) (listPushA sz d) 1 (De + 1) := by
  rw [listPushA_eq]
  exact Cert.listGen he hw hsz hs4 Leaf.varint _ _ (by intro b n r _ x hx; simp at hx)

theorem refine_varint_ok {max : Nat} {b : Bytes} {n : Nat} {r : Bytes}
    (h : (Wire.refine varint (fun n => decide (n ≤ max)) "BadData").dec b = .ok (n, r)) : n ≤ max := by
  rw [refine_varint_dec] at h
  split at h
  · split at h
    · simp only [Outcome.ok.injEq, Prod.mk.injEq] at h; omega
    · simp at h
  · simp at h
  · simp at h

theorem Cert.listMaxCap (he : Cert L c d w De) (hw : 1 ≤ w) (hsz : 2 * sz ≤ 16 * w) (hs4 : 4 * sz ≤ 512)
    (max : Nat) (hmax : max * sz ≤ bigC L) :
    Cert L (listMax max c) (listMaxCapA max sz d) 1 (De + 1) := by
  rw [listMaxCapA_eq]
  refine Cert.listGen he hw hsz hs4 (Leaf.refine Leaf.varint _ _) _ _ ?_
  intro b n r h x hx
  simp only [List.mem_singleton] at hx
  have h1 : n * sz ≤ max * sz := Nat.mul_le_mul_right _ (refine_varint_ok h)
  omega

theorem Cert.listMaxPush (he : Cert L c d w De) (hw : 1 ≤ w) (hsz : 2 * sz ≤ 16 * w) (hs4 : 4 * sz ≤ 512)
    (max : Nat) : Cert L (listMax max c) (listMaxPushA max sz d) 1 (De + 1) := by
  rw [listMaxPushA_eq]
  exact Cert.listGen he hw hsz hs4 (Leaf.refine Leaf.varint _ _) _ _ (by intro b n r _ x hx; simp at hx)

theorem Cert.listTry (he : Cert L c d w De) (hw : 1 ≤ w) (hsz : 2 * sz ≤ 16 * w) (hs4 : 4 * sz ≤ 512) :
    Cert L (listTry c) (listTryA sz d) 0 (De + 1) where
  erase b := by
    simp only [listTryA, Wire.listTry]
    cases h : Wire.varint.dec b with
    | ok x => obtain ⟨n, r⟩ := x; simp only [loopA_erase he]
    | err e => rfl
    | panic e => rfl
  consume b a r ho := by
    simp only [listTryA] at ho ⊢
    cases h : Wire.varint.dec b with
    | ok x =>
      obtain ⟨n, t⟩ := x
      have h0 := Leaf.varint.minlen b n t h
      simp only [h] at ho ⊢
      have := (loopA_facts he hw hsz hs4 n 0 0 t).1 a r ho
      omega
    | err e =>
      simp only [h, Outcome.ok.injEq, Prod.mk.injEq] at ho ⊢
      obtain ⟨_, rfl⟩ := ho
      simp
    | panic e =>
      simp only [h, Outcome.ok.injEq, Prod.mk.injEq] at ho ⊢
      obtain ⟨_, rfl⟩ := ho
      simp
  steps b := by
    simp only [listTryA]
    cases h : Wire.varint.dec b with
    | ok x =>
      obtain ⟨n, t⟩ := x
      have h0 := Leaf.varint.minlen b n t h
      have := (loopA_facts he hw hsz hs4 n 0 0 t).2.1
      simp only; omega
    | err e => simp
    | panic e => simp
  alloc b x hx := by
    simp only [listTryA] at hx
    cases h : Wire.varint.dec b with
    | ok p =>
      obtain ⟨n, t⟩ := p
      have h0 := Leaf.varint.minlen b n t h
      simp only [h] at hx
      have := (loopA_facts he hw hsz hs4 n 0 0 t).2.2.1 x hx; omega
    | err e => simp only [h] at hx; simp at hx
    | panic e => simp only [h] at hx; simp at hx
  nopanic b s := by
    simp only [listTryA]
    cases h : Wire.varint.dec b with
    | ok p =>
      obtain ⟨n, t⟩ := p
      exact (loopA_facts he hw hsz hs4 n 0 0 t).2.2.2 s
    | err e => simp
    | panic e => simp

end loop

/-! ## the payload decoders

Each certificate is the definition of the decoder read combinator by combinator.  The numeric side
conditions (`2 * size_of::<T>() ≤ 16 * (minimal wire size of T)`, `4 * size_of::<T>() ≤ 512`) are
decided on the regenerated `size_of` constants. -/

theorem cert_txIn (D : Nat) : Cert L txInC (txInA (.capped L)) 41 D :=
  Cert.iso (Cert.pair (Cert.lift Leaf.outPointC D) (Cert.pair (Cert.varBytes D) (Cert.lift Leaf.u32 D))) _ _

theorem cert_txOut (D : Nat) : Cert L txOutC (txOutA (.capped L)) 9 D :=
  Cert.iso (Cert.pair (Cert.lift Leaf.i64 D) (Cert.varBytes D)) _ _

theorem cert_tx (D : Nat) : Cert L txC (txA (.capped L)) 10 (D + 1) :=
  Cert.iso (Cert.pair (Cert.lift Leaf.u32 _)
    (Cert.pair (Cert.listCap (cert_txIn D) (by decide) (by decide) (by decide))
      (Cert.pair (Cert.listCap (cert_txOut D) (by decide) (by decide) (by decide))
        (Cert.lift Leaf.u32 _)))) _ _

theorem inv_cap_le : Generated.MAX_INV_ENTRIES * szInvVect ≤ bigC L := by
  unfold bigC szInvVect; omega

theorem cert_inv (D : Nat) : Cert L invC invA 1 (D + 1) :=
  Cert.iso (Cert.listMaxCap (Cert.lift Leaf.invVectC D) (by decide) (by decide) (by decide) _ inv_cap_le) _ _

theorem cert_blockLocator (D : Nat) : Cert L blockLocatorC blockLocatorA 37 (D + 1) :=
  Cert.iso (Cert.pair (Cert.lift Leaf.u32 _)
    (Cert.pair (Cert.listPush (Cert.lift Leaf.hash32 D) (by decide) (by decide) (by decide))
      (Cert.lift Leaf.hash32 _))) _ _

theorem cert_version (D : Nat) : Cert L versionC (versionA (.capped L)) 86 D :=
  Cert.iso (Cert.pair (Cert.lift Leaf.u32 D) (Cert.pair (Cert.lift Leaf.u64 D) (Cert.pair (Cert.lift Leaf.i64 D)
    (Cert.pair (Cert.lift Leaf.nodeAddrC D) (Cert.pair (Cert.lift Leaf.nodeAddrC D) (Cert.pair (Cert.lift Leaf.u64 D)
      (Cert.pair (Cert.varStr D) (Cert.pair (Cert.lift Leaf.i32 D) (Cert.pair (Cert.lift Leaf.boolByte D)
        (Cert.assocOpt D)))))))))) _ _

theorem cert_addr (D : Nat) : Cert L addrC addrA 1 (D + 1) :=
  Cert.iso (Cert.listMaxPush (Cert.lift Leaf.nodeAddrExC D) (by decide) (by decide) (by decide) _) _ _

theorem cert_headers (D : Nat) : Cert L headersC headersA 1 (D + 1) :=
  Cert.iso (Cert.listPush (Cert.lift Leaf.headerEntry D) (by decide) (by decide) (by decide)) _ _

theorem cert_block (D : Nat) : Cert L blockC (blockA (.capped L)) 81 (D + 2) :=
  Cert.iso (Cert.pair (Cert.lift Leaf.blockHeaderC _)
    (Cert.listCap (cert_tx D) (by decide) (by decide) (by decide))) _ _

theorem cert_merkleBlock (D : Nat) : Cert L merkleBlockC (merkleBlockA (.capped L)) 86 (D + 1) :=
  Cert.iso (Cert.pair (Cert.lift Leaf.blockHeaderC _) (Cert.pair (Cert.lift Leaf.u32 _)
    (Cert.pair (Cert.listCap (Cert.lift Leaf.hash32 D) (by decide) (by decide) (by decide))
      (Cert.varBytes _)))) _ _

theorem cert_filterLoad (D : Nat) : Cert L filterLoadC (filterLoadA (.capped L)) 10 D :=
  Cert.iso (Cert.pair (Cert.varBytes D) (Cert.pair (Cert.lift Leaf.u32 D) (Cert.pair (Cert.lift Leaf.u32 D)
    (Cert.lift Leaf.u8 D)))) _ _

theorem cert_filterAdd (D : Nat) : Cert L filterAddC (filterAddA (.capped L)) 1 D :=
  Cert.iso (Cert.varBytes D) _ _

theorem cert_reject (D : Nat) : Cert L rejectC (rejectA (.capped L)) 3 D :=
  Cert.iso (Cert.dpair (Cert.varStr D) (fun m => Cert.pair (Cert.lift Leaf.u8 D) (Cert.pair (Cert.varStr D)
    (Cert.fixedVec _ (by split <;> decide) D)))) _ _

theorem cert_protoconf (D : Nat) : Cert L protoconfC (protoconfA (.capped L)) 5 D :=
  Cert.iso (Cert.dpair (Cert.lift Leaf.varint D) (fun _ => Cert.pair (Cert.lift Leaf.u32 D)
    (Cert.optionC (Cert.varStr D) _ _))) _ _

theorem cert_authch (D : Nat) : Cert L authchC (authchA (.capped L)) 8 D :=
  Cert.iso (Cert.pair (Cert.lift Leaf.i32 D) (Cert.dpair (Cert.lift Leaf.u32 D) (fun n => Cert.readBytes n D))) _ _

theorem cert_createstrm (D : Nat) : Cert L createstrmC (createstrmA (.capped L)) 1 D :=
  Cert.iso (Cert.pair (Cert.assocAlways D) (Cert.pair (Cert.lift Leaf.u8 D) (Cert.policyOpt D))) _ _

theorem cert_streamack (D : Nat) : Cert L streamackC streamackA 1 D :=
  Cert.iso (Cert.pair (Cert.assocAlways D) (Cert.lift Leaf.u8 D)) _ _

theorem cert_prefilled (D : Nat) : Cert L prefilledC (prefilledA (.capped L)) 11 (D + 1) :=
  Cert.iso (Cert.pair (Cert.lift Leaf.varint _) (cert_tx D)) _ _

theorem cert_cmpctblock (D : Nat) : Cert L cmpctblockC (cmpctblockA (.capped L)) 88 (D + 2) :=
  Cert.iso (Cert.pair (Cert.lift Leaf.blockHeaderC _) (Cert.pair (Cert.lift Leaf.u64 _)
    (Cert.pair
      (Cert.listTry (Cert.withAlloc (Cert.lift (Leaf.bytesN SHORT_TX_ID_LEN) (D + 1)) _ (by decide))
        (by decide) (by decide) (by decide))
      (Cert.listTry (cert_prefilled D) (by decide) (by decide) (by decide))))) _ _

theorem cert_getblocktxn (D : Nat) : Cert L getblocktxnC getblocktxnA 32 (D + 1) :=
  Cert.iso (Cert.pair (Cert.lift Leaf.hash32 _)
    (Cert.listTry (Cert.lift Leaf.varint D) (by decide) (by decide) (by decide))) _ _

theorem cert_blocktxn (D : Nat) : Cert L blocktxnC (blocktxnA (.capped L)) 32 (D + 2) :=
  Cert.iso (Cert.pair (Cert.lift Leaf.hash32 _)
    (Cert.listTry (cert_tx D) (by decide) (by decide) (by decide))) _ _

theorem cert_addrV2 (D : Nat) : Cert L addrV2C addrV2A 1 (D + 1) :=
  Cert.iso (Cert.listMaxPush (Cert.lift Leaf.nodeAddrExV2C D) (by decide) (by decide) (by decide) _) _ _

theorem cert_messageHeader (D : Nat) : Cert L messageHeaderC messageHeaderA 24 D :=
  Cert.withAlloc (Cert.lift Leaf.messageHeaderC D) _ (by decide)

theorem cert_bloomFilter (D : Nat) : Cert L bloomFilterC (bloomFilterA (.capped L)) 13 D :=
  Cert.iso (Cert.pair (Cert.varBytes D) (Cert.pair (Cert.lift Leaf.u64 D) (Cert.lift Leaf.u32 D))) _ _

/-! ## `validate()` never panics -/

theorem nv {α} (a : α) (s : String) : noValidate a ≠ .panic s := by simp [noValidate]

theorem filterAddValidate_total (f : FilterAdd) (s : String) : filterAddValidate f ≠ .panic s := by
  unfold filterAddValidate badData; split <;> simp
theorem filterLoadValidate_total (f : FilterLoad) (s : String) : filterLoadValidate f ≠ .panic s := by
  unfold filterLoadValidate badData; split
  · simp
  · split <;> simp
theorem versionValidate_total (v : Version) (s : String) : versionValidate v ≠ .panic s := by
  unfold versionValidate badData; split <;> simp
theorem protoconfValidate_total (p : Protoconf) (s : String) : protoconfValidate p ≠ .panic s := by
  unfold protoconfValidate badData; split
  · simp
  · split <;> simp
theorem authchValidate_total (a : Authch) (s : String) : authchValidate a ≠ .panic s := by
  unfold authchValidate badData; split <;> simp
theorem streamValidate_total (t : Nat) (a : Bytes) (s : String) : streamValidate t a ≠ .panic s := by
  unfold streamValidate badData; split
  · simp
  · split <;> simp
theorem createstrmValidate_total (c : Createstrm) (s : String) : createstrmValidate c ≠ .panic s :=
  streamValidate_total _ _ s
theorem streamackValidate_total (c : Streamack) (s : String) : streamackValidate c ≠ .panic s :=
  streamValidate_total _ _ s

/-- the running total stays within `MAX_SATOSHIS`, so the `i64` addition never overflows -/
theorem sumOutputsNow_total (os : List TxOut) (acc : Int) (hacc : acc ≤ (Generated.MAX_SATOSHIS : Int))
    (s : String) : sumOutputsNow os acc ≠ .panic s := by
  induction os generalizing acc with
  | nil => simp [sumOutputsNow]
  | cons o os ih =>
    unfold sumOutputsNow
    split
    · simp
    · split
      · simp
      · split
        · rename_i h1 h2 h3
          exfalso
          simp only [Generated.MAX_SATOSHIS, I64_MAX] at *
          omega
        · split
          · simp
          · rename_i h4
            exact ih _ (by omega)

theorem txAmountsValidate_total (t : Tx) (s : String) : txAmountsValidate t ≠ .panic s := by
  unfold txAmountsValidate badData
  split
  · simp
  · split
    · simp
    · exact sumOutputsNow_total _ 0 (by simp [Generated.MAX_SATOSHIS]) s

theorem allValidate_total {α} {v : α → Outcome Unit} (hv : ∀ a s, v a ≠ .panic s) (l : List α) (s : String) :
    allValidate v l ≠ .panic s := by
  induction l with
  | nil => simp [allValidate]
  | cons a l ih =>
    simp only [allValidate]
    cases h : v a with
    | ok u => simpa using ih
    | err e => simp
    | panic s' => exact absurd h (hv a s')

theorem cmpctblockValidateNow_total (c : Cmpctblock) (s : String) : cmpctblockValidateNow c ≠ .panic s :=
  allValidate_total (fun p s => txAmountsValidate_total p.tx s) _ s
theorem blocktxnValidate_total (c : Blocktxn) (s : String) : blocktxnValidate c ≠ .panic s :=
  allValidate_total txAmountsValidate_total _ s
theorem blockLocatorValidate_total (l : BlockLocator) (s : String) : blockLocatorValidate l ≠ .panic s := by
  unfold blockLocatorValidate badData; split <;> simp
theorem bloomFilterValidate_total (f : BloomFilterV) (s : String) : bloomFilterValidate f ≠ .panic s := by
  unfold bloomFilterValidate badData; split
  · simp
  · split <;> simp

/-! ## `Message::read` -/

/-- what the message-level theorems need of an arm (its input is the payload buffer) -/
structure Good (L : Nat) {α} (d : ADec α) (D : Nat) : Prop where
  steps : ∀ b, (d b).steps ≤ b.length + D
  alloc : ∀ b, ∀ x ∈ (d b).log, x ≤ 16 * b.length + bigC L
  nopanic : ∀ b s, (d b).out ≠ .panic s

theorem Cert.good {α} {c : Codec α} {d : ADec α} {w D : Nat} (h : Cert L c d w D) : Good L d D :=
  ⟨h.steps, h.alloc, h.nopanic⟩

theorem Good.mono {α} {d : ADec α} {D D' : Nat} (h : Good L d D) (hD : D ≤ D') : Good L d D' :=
  ⟨fun b => by have := h.steps b; omega, h.alloc, h.nopanic⟩

/-- an arm of `read_partial`: certificate against the C05 arm with the same `validate()` -/
theorem cert_arm {α} {c : Codec α} {d : ADec α} {w D : Nat} (h : Cert L c d w D) (v : α → Outcome Unit)
    (hv : ∀ a s, v a ≠ .panic s) (mk : α → Msg) (un : Msg → Option α) (dflt : α) :
    Cert L (arm c v mk un dflt) (armA d v mk) w D :=
  Cert.inj (Cert.validated h v hv) mk un dflt

theorem arm_good {α} {c : Codec α} {d : ADec α} {w : Nat} (h : Cert L c d w 3) (v : α → Outcome Unit)
    (hv : ∀ a s, v a ≠ .panic s) (mk : α → Msg) : Good L (armA d v mk) 3 where
  steps b := h.steps b
  alloc b := h.alloc b
  nopanic b s := by
    simp only [armA, amap, avalidated]
    cases ho : (d b).out with
    | ok p =>
      simp only [bind_ok]
      cases hv' : v p.1 with
      | ok u => simp
      | err e => simp
      | panic s' => exact absurd hv' (hv _ _)
    | err e => simp
    | panic s' => exact absurd ho (h.nopanic b s')

theorem tableA_good : ∀ e ∈ tableA (.capped L), ∀ d, e.body = some d → Good L d 3 := by
  intro e he
  simp only [tableA, List.mem_cons, List.not_mem_nil, or_false] at he
  rcases he with rfl | rfl | rfl | rfl | rfl | rfl | rfl | rfl | rfl | rfl | rfl | rfl | rfl | rfl | rfl | rfl | rfl | rfl | rfl | rfl | rfl | rfl | rfl | rfl | rfl | rfl | rfl | rfl | rfl | rfl | rfl | rfl
  · intro d hd; cases hd; exact arm_good (cert_addr 2) _ nv _
  · intro d hd; cases hd; exact arm_good (cert_addrV2 2) _ nv _
  · intro d hd; cases hd; exact arm_good (cert_block 1) _ nv _
  · intro d hd; cases hd; exact arm_good (Cert.lift Leaf.feeFilterC 3) _ nv _
  · intro d hd; cases hd; exact arm_good (cert_filterAdd 3) _ filterAddValidate_total _
  · intro d hd; cases hd
  · intro d hd; cases hd; exact arm_good (cert_filterLoad 3) _ filterLoadValidate_total _
  · intro d hd; cases hd
  · intro d hd; cases hd; exact arm_good (cert_blockLocator 2) _ nv _
  · intro d hd; cases hd; exact arm_good (cert_inv 2) _ nv _
  · intro d hd; cases hd; exact arm_good (cert_blockLocator 2) _ nv _
  · intro d hd; cases hd; exact arm_good (cert_headers 2) _ nv _
  · intro d hd; cases hd; exact arm_good (cert_inv 2) _ nv _
  · intro d hd; cases hd
  · intro d hd; cases hd; exact arm_good (cert_merkleBlock 2) _ nv _
  · intro d hd; cases hd; exact arm_good (cert_inv 2) _ nv _
  · intro d hd; cases hd; exact arm_good (Cert.lift Leaf.pingC 3) _ nv _
  · intro d hd; cases hd; exact arm_good (Cert.lift Leaf.pingC 3) _ nv _
  · intro d hd; cases hd; exact arm_good (cert_reject 3) _ nv _
  · intro d hd; cases hd; exact arm_good (Cert.lift Leaf.sendCmpctC 3) _ nv _
  · intro d hd; cases hd
  · intro d hd; cases hd; exact arm_good (cert_tx 2) _ nv _
  · intro d hd; cases hd; exact arm_good (cert_version 3) _ versionValidate_total _
  · intro d hd; cases hd
  · intro d hd; cases hd; exact arm_good (cert_protoconf 3) _ protoconfValidate_total _
  · intro d hd; cases hd; exact arm_good (cert_authch 3) _ authchValidate_total _
  · intro d hd; cases hd; exact arm_good (cert_createstrm 3) _ createstrmValidate_total _
  · intro d hd; cases hd; exact arm_good (cert_streamack 3) _ streamackValidate_total _
  · intro d hd; cases hd; exact arm_good (cert_cmpctblock 1) _ cmpctblockValidateNow_total _
  · intro d hd; cases hd; exact arm_good (cert_getblocktxn 2) _ nv _
  · intro d hd; cases hd; exact arm_good (cert_blocktxn 1) _ nv _
  · intro d hd; cases hd

theorem payload_ok {H : Bytes → Bytes} {hdr : MessageHeader} {b pl rest : Bytes}
    (h : payload H hdr b = .ok (pl, rest)) :
    pl.length = hdr.payloadSize ∧ rest.length + hdr.payloadSize = b.length := by
  unfold payload at h
  split at h
  · simp at h
  · rename_i p r hx
    split at h
    · simp only [Outcome.ok.injEq, Prod.mk.injEq] at h
      obtain ⟨rfl, rfl⟩ := h
      exact ⟨(takeExact_some hx).2, takeExact_len hx⟩
    · simp at h

theorem payload_nopanic (H : Bytes → Bytes) (hdr : MessageHeader) (b : Bytes) (s : String) :
    payload H hdr b ≠ .panic s := by
  unfold payload
  split
  · simp
  · split <;> simp

theorem readPartialA_facts (H : Bytes → Bytes) (hdr : MessageHeader) (b : Bytes) :
    (readPartialA (.capped L) H hdr b).steps ≤ b.length + 3 ∧
    (∀ x ∈ (readPartialA (.capped L) H hdr b).log, x ≤ 16 * b.length + bigC L + hdr.payloadSize) ∧
    (∀ s, (readPartialA (.capped L) H hdr b).out ≠ .panic s) := by
  unfold readPartialA
  cases hf : (tableA (.capped L)).find? (fun e => e.cmd == hdr.command) with
  | none =>
    simp only
    split
    · refine ⟨by simp, ?_, ?_⟩
      · intro x hx
        simp only [payloadA, List.mem_singleton] at hx
        omega
      · intro s
        simp only [payloadA]
        cases hp : payload H hdr b with
        | ok q => simp
        | err e => simp
        | panic s' => exact absurd hp (payload_nopanic H hdr b s')
    · exact ⟨by simp, by intro x hx; simp at hx, by intro s; simp⟩
  | some e =>
    have hmem : e ∈ tableA (.capped L) := List.mem_of_find?_eq_some hf
    simp only
    cases hb : e.body with
    | none =>
      simp only
      split
      · exact ⟨by simp, by intro x hx; simp at hx, by intro s; simp⟩
      · exact ⟨by simp, by intro x hx; simp at hx, by intro s; simp⟩
    | some d =>
      have hg := tableA_good e hmem d hb
      simp only
      cases hp : (payloadA H hdr b).out with
      | ok q =>
        obtain ⟨pl, rest⟩ := q
        have hpl := payload_ok (H := H) (hdr := hdr) (b := b) (pl := pl) (rest := rest) hp
        simp only
        refine ⟨?_, ?_, ?_⟩
        · have := hg.steps pl; omega
        · intro x hx
          simp only [payloadA, List.cons_append, List.nil_append, List.mem_cons] at hx
          rcases hx with rfl | hx
          · omega
          · have := hg.alloc pl x hx; omega
        · intro s
          cases hd : (d pl).out with
          | ok m => simp
          | err e => simp
          | panic s' => exact absurd hd (hg.nopanic pl s')
      | err e =>
        simp only
        refine ⟨by simp, ?_, by intro s; simp⟩
        intro x hx
        simp only [payloadA, List.mem_singleton] at hx
        omega
      | panic s' => exact absurd hp (payload_nopanic H hdr b s')

theorem pair_dec_ok {α β} {ca : Codec α} {cb : Codec β} {b : Bytes} {p : α × β} {r : Bytes}
    (h : (ca ⊗ cb).dec b = .ok (p, r)) : ∃ r1, ca.dec b = .ok (p.1, r1) ∧ cb.dec r1 = .ok (p.2, r) := by
  simp only [Wire.pair, Wire.dpair] at h
  rw [bind_eq_ok] at h
  obtain ⟨x, hx, h⟩ := h
  rw [bind_eq_ok] at h
  obtain ⟨y, hy, h⟩ := h
  simp only [Outcome.ok.injEq, Prod.mk.injEq] at h
  obtain ⟨rfl, rfl⟩ := h
  exact ⟨x.2, hx, hy⟩

theorem bytesN_dec_ok {n : Nat} {b x r : Bytes} (h : (Wire.bytesN n).dec b = .ok (x, r)) :
    x = b.take n ∧ r = b.drop n := by
  simp only [Wire.bytesN, takeExact] at h
  split at h
  · rename_i x' r' hx
    split at hx
    · simp only [Option.some.injEq, Prod.mk.injEq] at hx
      simp only [Outcome.ok.injEq, Prod.mk.injEq] at h
      obtain ⟨rfl, rfl⟩ := hx
      obtain ⟨rfl, rfl⟩ := h
      exact ⟨rfl, rfl⟩
    · simp at hx
  · simp at h

theorem uLE_dec_ok {n : Nat} {b : Bytes} {a : Nat} {r : Bytes} (h : (Wire.uLE n).dec b = .ok (a, r)) :
    a = leToNat (b.take n) ∧ r = b.drop n := by
  simp only [Wire.uLE, takeExact] at h
  split at h
  · rename_i x' r' hx
    split at hx
    · simp only [Option.some.injEq, Prod.mk.injEq] at hx
      simp only [Outcome.ok.injEq, Prod.mk.injEq] at h
      obtain ⟨rfl, rfl⟩ := hx
      obtain ⟨rfl, rfl⟩ := h
      exact ⟨rfl, rfl⟩
    · simp at hx
  · simp at h

/-- what `MessageHeader::read` makes of its bytes -/
theorem messageHeader_fields {h : Bytes} {hd : MessageHeader} {t : Bytes}
    (hdec : messageHeaderC.dec h = .ok (hd, t)) :
    hd.command = (h.drop 4).take 12 ∧ hd.payloadSize = leToNat ((h.drop 16).take 4) := by
  simp only [messageHeaderC, Wire.iso] at hdec
  rw [bind_eq_ok] at hdec
  obtain ⟨p, hp, hdec⟩ := hdec
  simp only [Outcome.ok.injEq, Prod.mk.injEq] at hdec
  obtain ⟨rfl, _⟩ := hdec
  obtain ⟨r1, h1, hp⟩ := pair_dec_ok (p := p.1) (r := p.2) hp
  obtain ⟨r2, h2, hp⟩ := pair_dec_ok hp
  obtain ⟨r3, h3, hp⟩ := pair_dec_ok hp
  obtain ⟨_, rfl⟩ := bytesN_dec_ok h1
  obtain ⟨e2, rfl⟩ := bytesN_dec_ok h2
  obtain ⟨e3, _⟩ := uLE_dec_ok h3
  simp only [List.drop_drop] at e3
  exact ⟨e2, e3⟩

theorem headerValidate_ok {hd : MessageHeader} {magic : Bytes} {u : Unit}
    (h : headerValidate hd magic = .ok u) : hd.command = eBlock.cmd ∨ hd.payloadSize ≤ MAX_PAYLOAD_SIZE := by
  unfold headerValidate at h
  split at h
  · simp at h
  · split at h
    · simp at h
    · rename_i h2
      by_cases hc : hd.command = eBlock.cmd
      · exact .inl hc
      · exact .inr (Nat.le_of_not_lt (fun hgt => h2 ⟨hc, hgt⟩))

theorem headerValidate_nopanic (hd : MessageHeader) (magic : Bytes) (s : String) :
    headerValidate hd magic ≠ .panic s := by
  unfold headerValidate
  split
  · simp
  · split <;> simp

theorem readMessageA_facts (H : Bytes → Bytes) (magic : Bytes) (b : Bytes) :
    (readMessageA (.capped L) H magic b).steps ≤ b.length + 3 ∧
    (¬ OversizeBlock b → ∀ x ∈ (readMessageA (.capped L) H magic b).log,
      x ≤ 16 * b.length + bigC L + MAX_PAYLOAD_SIZE) ∧
    (∀ s, (readMessageA (.capped L) H magic b).out ≠ .panic s) := by
  have hC := bigC_ge L
  have hH : HEADER_SIZE = 24 := by decide
  unfold readMessageA
  cases ht : takeExact HEADER_SIZE b with
  | none =>
    simp only
    refine ⟨by simp, ?_, by intro s; simp⟩
    intro _ x hx
    simp only [List.mem_singleton] at hx
    omega
  | some p =>
    obtain ⟨h, r⟩ := p
    obtain ⟨hb, hl⟩ := takeExact_some ht
    have hlen := takeExact_len ht
    simp only
    cases hdec : messageHeaderC.dec h with
    | ok q =>
      obtain ⟨hd, t⟩ := q
      simp only
      cases hv : headerValidate hd magic with
      | ok u =>
        obtain ⟨f1, f2, f3⟩ := readPartialA_facts (L := L) H hd r
        simp only
        refine ⟨by omega, ?_, f3⟩
        intro hno x hx
        simp only [List.mem_cons] at hx
        rcases hx with rfl | hx
        · omega
        · have h2 := f2 x hx
          obtain ⟨hcmd, hsize⟩ := messageHeader_fields hdec
          have hps : hd.payloadSize ≤ MAX_PAYLOAD_SIZE := by
            rcases headerValidate_ok hv with hc | hc
            · apply Nat.le_of_not_lt
              intro hgt
              apply hno
              have e1 : declaredCommand b = hd.command := by
                rw [hcmd, hb, declaredCommand, List.drop_append_of_le_length (by omega),
                  List.take_append_of_le_length (by simp; omega)]
              have e2 : declaredSize b = hd.payloadSize := by
                rw [hsize, hb, declaredSize, List.drop_append_of_le_length (by omega),
                  List.take_append_of_le_length (by simp; omega)]
              exact ⟨by rw [e1, hc], by rw [e2]; exact hgt⟩
            · exact hc
          omega
      | err e =>
        simp only
        refine ⟨by simp, ?_, by intro s; simp⟩
        intro _ x hx
        simp only [List.mem_singleton] at hx
        omega
      | panic s' => exact absurd hv (headerValidate_nopanic hd magic s')
    | err e =>
      simp only
      refine ⟨by simp, ?_, by intro s; simp⟩
      intro _ x hx
      simp only [List.mem_singleton] at hx
      omega
    | panic s' => exact absurd hdec (Leaf.messageHeaderC.nopanic h s')

/-- every kind's certificate, at the common nesting bound 3 -/
theorem Kind.cert (k : Kind) : Cert L k.codec (k.dec (.capped L)) 0 3 := by
  cases k
  · exact (Cert.lift Leaf.varint 3).weaken (Nat.zero_le _)
  · exact (Cert.lift Leaf.outPointC 3).weaken (Nat.zero_le _)
  · exact (cert_txIn 3).weaken (Nat.zero_le _)
  · exact (cert_txOut 3).weaken (Nat.zero_le _)
  · exact (cert_tx 2).weaken (Nat.zero_le _)
  · exact (Cert.lift Leaf.blockHeaderC 3).weaken (Nat.zero_le _)
  · exact (Cert.lift Leaf.invVectC 3).weaken (Nat.zero_le _)
  · exact (cert_inv 2).weaken (Nat.zero_le _)
  · exact (cert_blockLocator 2).weaken (Nat.zero_le _)
  · exact (Cert.lift Leaf.pingC 3).weaken (Nat.zero_le _)
  · exact (Cert.lift Leaf.feeFilterC 3).weaken (Nat.zero_le _)
  · exact (Cert.lift Leaf.sendCmpctC 3).weaken (Nat.zero_le _)
  · exact (Cert.lift Leaf.nodeAddrC 3).weaken (Nat.zero_le _)
  · exact (Cert.lift Leaf.nodeAddrExC 3).weaken (Nat.zero_le _)
  · exact (cert_version 3).weaken (Nat.zero_le _)
  · exact (cert_addr 2).weaken (Nat.zero_le _)
  · exact (cert_headers 2).weaken (Nat.zero_le _)
  · exact (cert_block 1).weaken (Nat.zero_le _)
  · exact (cert_merkleBlock 2).weaken (Nat.zero_le _)
  · exact (cert_filterLoad 3).weaken (Nat.zero_le _)
  · exact (cert_filterAdd 3).weaken (Nat.zero_le _)
  · exact (cert_reject 3).weaken (Nat.zero_le _)
  · exact (cert_protoconf 3).weaken (Nat.zero_le _)
  · exact (cert_authch 3).weaken (Nat.zero_le _)
  · exact (cert_createstrm 3).weaken (Nat.zero_le _)
  · exact (cert_streamack 3).weaken (Nat.zero_le _)
  · exact (cert_cmpctblock 1).weaken (Nat.zero_le _)
  · exact (cert_getblocktxn 2).weaken (Nat.zero_le _)
  · exact (cert_blocktxn 1).weaken (Nat.zero_le _)
  · exact (cert_addrV2 2).weaken (Nat.zero_le _)
  · exact (cert_messageHeader 3).weaken (Nat.zero_le _)
  · exact (cert_bloomFilter 3).weaken (Nat.zero_le _)

theorem Kind.validate_total (k : Kind) (v : k.Val → Outcome Unit) (hv : k.validate = some v) (a : k.Val)
    (s : String) : v a ≠ .panic s := by
  cases k
  · cases hv
  · cases hv
  · cases hv
  · cases hv
  · cases hv
  · cases hv
  · cases hv
  · cases hv
  · cases hv; exact blockLocatorValidate_total a s
  · cases hv
  · cases hv
  · cases hv
  · cases hv
  · cases hv
  · cases hv; exact versionValidate_total a s
  · cases hv
  · cases hv
  · cases hv
  · cases hv
  · cases hv; exact filterLoadValidate_total a s
  · cases hv; exact filterAddValidate_total a s
  · cases hv
  · cases hv; exact protoconfValidate_total a s
  · cases hv; exact authchValidate_total a s
  · cases hv; exact createstrmValidate_total a s
  · cases hv; exact streamackValidate_total a s
  · cases hv; exact cmpctblockValidateNow_total a s
  · cases hv
  · cases hv; exact blocktxnValidate_total a s
  · cases hv
  · cases hv
  · cases hv; exact bloomFilterValidate_total a s

theorem maxLog_le {l : List Nat} {B : Nat} (h : ∀ x ∈ l, x ≤ B) : maxLog l ≤ B := by
  induction l with
  | nil => simp [maxLog]
  | cons x xs ih =>
    simp only [maxLog]
    have h1 := h x (by simp)
    have h2 := ih (fun y hy => h y (by simp [hy]))
    omega

theorem le_maxLog {l : List Nat} {x : Nat} (h : x ∈ l) : x ≤ maxLog l := by
  induction l with
  | nil => simp at h
  | cons y ys ih =>
    simp only [maxLog]
    simp only [List.mem_cons] at h
    rcases h with rfl | h
    · omega
    · have := ih h; omega

end CG.Model.WireAlloc

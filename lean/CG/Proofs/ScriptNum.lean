import CG.Model.ScriptNum
/-! Lemmas about the script-number codec (`stack.rs`). -/
namespace CG.Proofs.ScriptNum
open CG CG.Model.ScriptNum

theorem leToNat_snoc (init : Bytes) (d : UInt8) :
    leToNat (init ++ [d]) = leToNat init + 256 ^ init.length * d.toNat := by
  simp [leToNat_append, leToNat]

/-- the top digit of a non-zero number is non-zero -/
theorem natToLE_last (n : Nat) (hn : n ≠ 0) : ∃ init d, natToLE n = init ++ [d] ∧ d ≠ 0 := by
  induction n using Nat.strongRecOn with
  | _ n ih =>
    unfold natToLE
    simp [hn]
    by_cases hq : n / 256 = 0
    · refine ⟨[], UInt8.ofNat (n % 256), ?_, ?_⟩
      · simp [natToLE, hq]
      · intro hc; have := congrArg UInt8.toNat hc; simp at this; omega
    · obtain ⟨init, d, h1, h2⟩ := ih (n / 256) (by omega) hq
      exact ⟨UInt8.ofNat (n % 256) :: init, d, by simp [h1], h2⟩

theorem decodeBig_snoc (init : Bytes) (d : UInt8) :
    decodeBig (init ++ [d]) =
      if d.toNat ≥ 128 then - ((leToNat init + 256 ^ init.length * (d.toNat % 128) : Nat) : Int)
      else ((leToNat init + 256 ^ init.length * (d.toNat % 128) : Nat) : Int) := by
  simp [decodeBig, leToNat_snoc, clearSign_toNat, signSet_iff]

/-- `decode_bigint (encode_bigint z) = z` for every integer -/
theorem decode_encode (z : Int) : decodeBig (encodeBig z) = z := by
  by_cases hz : z = 0
  · subst hz; simp [encodeBig, magBytes, decodeBig]
  · have hn : z.natAbs ≠ 0 := by omega
    obtain ⟨init, d, hm, hd⟩ := natToLE_last z.natAbs hn
    have hval : leToNat init + 256 ^ init.length * d.toNat = z.natAbs := by
      rw [← leToNat_snoc, ← hm, leToNat_natToLE]
    have hdpos : d.toNat ≠ 0 := by
      intro hc; apply hd; exact UInt8.toNat_inj.mp (by simpa using hc)
    have hdlt := d.toNat_lt
    unfold encodeBig
    simp only [magBytes, hn, if_false, hm, List.getLast?_append, List.getLast?_singleton,
      Option.getD_some, List.dropLast_concat]
    simp only [Option.some_or, Option.getD_some]
    by_cases hbig : d.toNat ≥ 128
    · simp only [hbig, if_true]
      have hne : ¬ (init ++ [d] ++ [if z < 0 then (0x80 : UInt8) else 0x00] = [0]) := by
        intro hc; have := congrArg List.length hc; simp at this
      simp only [hne, if_false]
      rw [decodeBig_snoc]
      by_cases hneg : z < 0
      · simp [hneg, leToNat_snoc, hval]; omega
      · simp [hneg, leToNat_snoc, hval]; omega
    · simp only [hbig, if_false]
      by_cases hneg : z < 0
      · simp only [hneg, if_true]
        have hor := setSign_toNat d (by omega)
        have hne : ¬ (init ++ [setSign d] = [0]) := by
          intro hc
          cases init with
          | nil => simp at hc; have := congrArg UInt8.toNat hc; simp [hor] at this
          | cons a as => have := congrArg List.length hc; simp at this
        simp only [hne, if_false]
        rw [decodeBig_snoc]
        have h1 : (setSign d).toNat ≥ 128 := by omega
        have h2 : (setSign d).toNat % 128 = d.toNat := by omega
        rw [if_pos h1, h2, hval]; omega
      · simp only [hneg, if_false]
        have hne : ¬ (init ++ [d] = [0]) := by
          intro hc
          cases init with
          | nil => simp at hc; exact hd hc
          | cons a as => have := congrArg List.length hc; simp at this
        simp only [hne, if_false]
        rw [decodeBig_snoc]
        have h2 : d.toNat % 128 = d.toNat := by omega
        rw [if_neg hbig, h2, hval]; omega

end CG.Proofs.ScriptNum

import CG.Model.ScriptNum
import CG.Spec.ScriptSem
/-! Lemmas about the script-number codec (`stack.rs`). -/
namespace CG.Proofs.ScriptNum
open CG CG.Model.ScriptNum

theorem leToNat_snoc (init : Bytes) (d : UInt8) :
    leToNat (init ++ [d]) = leToNat init + 256 ^ init.length * d.toNat := by
  simp [leToNat_append, leToNat]

/-- the top digit of a non-zero number is non-zero -/
theorem natToLE_last (n : Nat) (hn : n ≠ 0) : ∃ init d, natToLE n = init ++ [d] ∧ d ≠ 0 := by
  induction n using Nat.strongRecOn with
  | _ n ih =>
    unfold natToLE
    simp [hn]
    by_cases hq : n / 256 = 0
    · refine ⟨[], UInt8.ofNat (n % 256), ?_, ?_⟩
      · simp [natToLE, hq]
      · intro hc; have := congrArg UInt8.toNat hc; simp at this; omega
    · obtain ⟨init, d, h1, h2⟩ := ih (n / 256) (by omega) hq
      exact ⟨UInt8.ofNat (n % 256) :: init, d, by simp [h1], h2⟩

theorem decodeBig_snoc (init : Bytes) (d : UInt8) :
    decodeBig (init ++ [d]) =
      if d.toNat ≥ 128 then - ((leToNat init + 256 ^ init.length * (d.toNat % 128) : Nat) : Int)
      else ((leToNat init + 256 ^ init.length * (d.toNat % 128) : Nat) : Int) := by
  simp [decodeBig, leToNat_snoc, clearSign_toNat, signSet_iff]

/-- `decode_bigint (encode_bigint z) = z` for every integer -/
theorem decode_encode (z : Int) : decodeBig (encodeBig z) = z := by
  by_cases hz : z = 0
  · subst hz; simp [encodeBig, magBytes, decodeBig]
  · have hn : z.natAbs ≠ 0 := by omega
    obtain ⟨init, d, hm, hd⟩ := natToLE_last z.natAbs hn
    have hval : leToNat init + 256 ^ init.length * d.toNat = z.natAbs := by
      rw [← leToNat_snoc, ← hm, leToNat_natToLE]
    have hdpos : d.toNat ≠ 0 := by
      intro hc; apply hd; exact UInt8.toNat_inj.mp (by simpa using hc)
    have hdlt := d.toNat_lt
    unfold encodeBig
    simp only [magBytes, hn, if_false, hm, List.getLast?_append, List.getLast?_singleton,
      Option.getD_some, List.dropLast_concat]
    simp only [Option.some_or, Option.getD_some]
    by_cases hbig : d.toNat ≥ 128
    · simp only [hbig, if_true]
      have hne : ¬ (init ++ [d] ++ [if z < 0 then (0x80 : UInt8) else 0x00] = [0]) := by
        intro hc; have := congrArg List.length hc; simp at this
      simp only [hne, if_false]
      rw [decodeBig_snoc]
      by_cases hneg : z < 0
      · simp [hneg, leToNat_snoc, hval]; omega
      · simp [hneg, leToNat_snoc, hval]; omega
    · simp only [hbig, if_false]
      by_cases hneg : z < 0
      · simp only [hneg, if_true]
        have hor := setSign_toNat d (by omega)
        have hne : ¬ (init ++ [setSign d] = [0]) := by
          intro hc
          cases init with
          | nil => simp at hc; have := congrArg UInt8.toNat hc; simp [hor] at this
          | cons a as => have := congrArg List.length hc; simp at this
        simp only [hne, if_false]
        rw [decodeBig_snoc]
        have h1 : (setSign d).toNat ≥ 128 := by omega
        have h2 : (setSign d).toNat % 128 = d.toNat := by omega
        rw [if_pos h1, h2, hval]; omega
      · simp only [hneg, if_false]
        have hne : ¬ (init ++ [d] = [0]) := by
          intro hc
          cases init with
          | nil => simp at hc; exact hd hc
          | cons a as => have := congrArg List.length hc; simp at this
        simp only [hne, if_false]
        rw [decodeBig_snoc]
        have h2 : d.toNat % 128 = d.toNat := by omega
        rw [if_neg hbig, h2, hval]; omega

/-! ## the byte-level codec equals the closed-form reference (`value`, `encodeMin`) -/
open CG.Spec.ScriptSem

theorem pow256 (k : Nat) : (256 : Nat) ^ k = 2 ^ (8 * k) := by
  rw [show (256 : Nat) = 2 ^ 8 by rfl, ← Nat.pow_mul]

theorem list_snoc_of_ne_nil {α} (s : List α) (h : s ≠ []) : ∃ init d, s = init ++ [d] :=
  ⟨s.dropLast, s.getLast h, (List.dropLast_concat_getLast h).symm⟩

/-- `2 ^ (8 * (k+1) - 1) = 256 ^ k * 128` -/
theorem top_eq (k : Nat) : 2 ^ (8 * (k + 1) - 1) = 256 ^ k * 128 := by
  rw [pow256, show 8 * (k + 1) - 1 = 8 * k + 7 by omega, Nat.pow_add]

theorem value_snoc (init : Bytes) (d : UInt8) :
    value (init ++ [d]) =
      if d.toNat ≥ 128 then - ((leToNat init + 256 ^ init.length * (d.toNat % 128) : Nat) : Int)
      else ((leToNat init + 256 ^ init.length * (d.toNat % 128) : Nat) : Int) := by
  have hlt := leToNat_lt init
  have hd := d.toNat_lt
  have hP : 0 < 256 ^ init.length := Nat.pow_pos (by decide)
  have hne : (init ++ [d]).isEmpty = false := by simp
  unfold value
  simp only [hne, Bool.false_eq_true, if_false, List.length_append, List.length_singleton, top_eq,
    leToNat_snoc]
  generalize 256 ^ init.length = P at *
  generalize leToNat init = A at *
  by_cases h : d.toNat ≥ 128
  · have e : P * d.toNat = P * 128 + P * (d.toNat % 128) := by rw [← Nat.mul_add]; congr 1; omega
    rw [if_pos h, if_pos (by omega)]
    omega
  · have e : d.toNat % 128 = d.toNat := by omega
    have h2 : P * d.toNat + P ≤ P * 128 := by
      have : P * (d.toNat + 1) ≤ P * 128 := Nat.mul_le_mul_left _ (by omega)
      rwa [Nat.mul_add, Nat.mul_one] at this
    rw [if_neg h, if_neg (by omega), e]

/-- `decode_bigint` computes the numeric value of the byte string -/
theorem decodeBig_eq_value (s : Bytes) : decodeBig s = value s := by
  by_cases hs : s = []
  · subst hs; rfl
  · obtain ⟨init, d, rfl⟩ := list_snoc_of_ne_nil s hs
    rw [decodeBig_snoc, value_snoc]

/-! ### `minLen` is the least `k ≥ 1` with `m < 2^(8k-1)` -/

theorem minLenAux_spec (m : Nat) : ∀ fuel k, 1 ≤ k →
    (∀ j, 1 ≤ j → j < k → 2 ^ (8 * j - 1) ≤ m) → m < 2 ^ (8 * (k + fuel - 1) - 1) →
    k ≤ minLenAux m fuel k ∧ m < 2 ^ (8 * minLenAux m fuel k - 1) ∧
      ∀ j, 1 ≤ j → j < minLenAux m fuel k → 2 ^ (8 * j - 1) ≤ m := by
  intro fuel
  induction fuel with
  | zero =>
    intro k hk hinv hf
    simp only [minLenAux]
    refine ⟨Nat.le_refl _, ?_, hinv⟩
    by_cases h1 : k = 1
    · subst h1; simp at hf; omega
    · have := hinv (k - 1) (by omega) (by omega)
      simp only [Nat.add_zero] at hf
      omega
  | succ fuel ih =>
    intro k hk hinv hf
    simp only [minLenAux]
    by_cases h : m < 2 ^ (8 * k - 1)
    · rw [if_pos h]; exact ⟨Nat.le_refl _, h, hinv⟩
    · rw [if_neg h]
      have := ih (k + 1) (by omega)
        (by intro j h1 h2
            by_cases hj : j = k
            · subst hj; omega
            · exact hinv j h1 (by omega))
        (by rw [show k + 1 + fuel - 1 = k + (fuel + 1) - 1 by omega]; exact hf)
      exact ⟨by omega, this.2⟩

theorem lt_two_pow_8 (m : Nat) (hm : m ≠ 0) : m < 2 ^ (8 * m - 1) :=
  Nat.lt_of_lt_of_le Nat.lt_two_pow_self (Nat.pow_le_pow_right (by decide) (by omega))

theorem minLen_spec (m : Nat) (hm : m ≠ 0) :
    1 ≤ minLen m ∧ m < 2 ^ (8 * minLen m - 1) ∧ ∀ j, 1 ≤ j → j < minLen m → 2 ^ (8 * j - 1) ≤ m := by
  unfold minLen
  rw [if_neg hm]
  exact minLenAux_spec m m 1 (Nat.le_refl _) (by intro j h1 h2; omega)
    (by rw [show 1 + m - 1 = m by omega]; exact lt_two_pow_8 m hm)

theorem minLen_eq (m k : Nat) (hm : m ≠ 0) (hk : 1 ≤ k) (hlt : m < 2 ^ (8 * k - 1))
    (hge : k = 1 ∨ 2 ^ (8 * (k - 1) - 1) ≤ m) : minLen m = k := by
  obtain ⟨h1, h2, h3⟩ := minLen_spec m hm
  by_cases hlt' : minLen m < k
  · rcases hge with rfl | hge
    · omega
    · have : 2 ^ (8 * minLen m - 1) ≤ 2 ^ (8 * (k - 1) - 1) :=
        Nat.pow_le_pow_right (by decide) (by omega)
      omega
  · by_cases hgt : k < minLen m
    · have := h3 k hk hgt; omega
    · omega

theorem encodeMin_eq (z : Int) (k : Nat) (hk : 1 ≤ k) (h : minLen z.natAbs = k) :
    encodeMin z = natToLEn k (z.natAbs + (if z < 0 then 2 ^ (8 * k - 1) else 0)) := by
  unfold encodeMin
  simp only [h]
  rw [if_neg (by omega)]

theorem encodeMin_zero : encodeMin 0 = [] := by decide

/-- a minimal encoding is the closed-form minimal encoding of its own value -/
theorem encodeMin_value_of_minimal (s : Bytes) (hmin : Minimal s) : encodeMin (value s) = s := by
  by_cases hs : s = []
  · subst hs; decide
  · obtain ⟨init, d, rfl⟩ := list_snoc_of_ne_nil s hs
    have hA := leToNat_lt init
    have hd := d.toNat_lt
    have hP : 0 < 256 ^ init.length := Nat.pow_pos (by decide)
    have hk : minLen (leToNat init + 256 ^ init.length * (d.toNat % 128)) = init.length + 1 ∧
        leToNat init + 256 ^ init.length * (d.toNat % 128) ≠ 0 := by
      have hub : 256 ^ init.length * (d.toNat % 128) ≤ 256 ^ init.length * 127 :=
        Nat.mul_le_mul_left _ (by omega)
      have hlow : (init.length + 1 = 1 ∨ 2 ^ (8 * (init.length + 1 - 1) - 1) ≤
            leToNat init + 256 ^ init.length * (d.toNat % 128)) ∧
          leToNat init + 256 ^ init.length * (d.toNat % 128) ≠ 0 := by
        unfold Minimal at hmin
        simp only [List.getLast?_append, List.getLast?_singleton, Option.some_or,
          List.dropLast_concat, clearSign_toNat] at hmin
        rcases hmin with h | ⟨p, hp, hp128⟩
        · have : 256 ^ init.length * 1 ≤ 256 ^ init.length * (d.toNat % 128) :=
            Nat.mul_le_mul_left _ (by omega)
          have h2 : 2 ^ (8 * (init.length + 1 - 1) - 1) ≤ 256 ^ init.length := by
            rw [pow256]; exact Nat.pow_le_pow_right (by decide) (by omega)
          constructor
          · right; omega
          · omega
        · have hne : init ≠ [] := by intro hc; subst hc; simp at hp
          obtain ⟨i2, p', rfl⟩ := list_snoc_of_ne_nil init hne
          simp only [List.getLast?_append, List.getLast?_singleton, Option.some_or,
            Option.some.injEq] at hp
          subst hp
          have hP2 : 0 < 256 ^ i2.length := Nat.pow_pos (by decide)
          have : 256 ^ i2.length * 128 ≤ 256 ^ i2.length * p'.toNat := Nat.mul_le_mul_left _ hp128
          simp only [List.length_append, List.length_singleton, leToNat_snoc,
            Nat.add_sub_cancel, top_eq]
          constructor
          · right; omega
          · omega
      refine ⟨minLen_eq _ _ hlow.2 (by omega) ?_ hlow.1, hlow.2⟩
      rw [top_eq]; omega
    obtain ⟨hk, hne0⟩ := hk
    have hnat := natToLEn_leToNat (init ++ [d])
    rw [value_snoc]
    by_cases hneg : d.toNat ≥ 128
    · rw [if_pos hneg]
      rw [encodeMin_eq _ (init.length + 1) (by omega) (by rw [Int.natAbs_neg, Int.natAbs_natCast]; exact hk)]
      rw [if_pos (by omega)]
      rw [← hnat]
      simp only [List.length_append, List.length_singleton, leToNat_snoc, top_eq, Int.natAbs_neg,
        Int.natAbs_natCast]
      congr 1
      have e : 256 ^ init.length * d.toNat = 256 ^ init.length * 128 + 256 ^ init.length * (d.toNat % 128) := by
        rw [← Nat.mul_add]; congr 1; omega
      omega
    · rw [if_neg hneg]
      rw [encodeMin_eq _ (init.length + 1) (by omega) (by rw [Int.natAbs_natCast]; exact hk)]
      rw [if_neg (by omega)]
      rw [← hnat]
      simp only [List.length_append, List.length_singleton, leToNat_snoc, Int.natAbs_natCast,
        Nat.add_zero]
      rw [show d.toNat % 128 = d.toNat by omega]

theorem byte_ne_zero_toNat {d : UInt8} (h : d ≠ 0) : d.toNat ≠ 0 := by
  intro hc; apply h; exact UInt8.toNat_inj.mp (by simpa using hc)

/-- every output of `encode_bigint` is minimally encoded -/
theorem encodeBig_minimal (z : Int) : Minimal (encodeBig z) := by
  by_cases hz : z = 0
  · subst hz; simp [encodeBig, magBytes, Minimal]
  · have hn : z.natAbs ≠ 0 := by omega
    obtain ⟨init, d, hm, hd⟩ := natToLE_last z.natAbs hn
    have hdpos := byte_ne_zero_toNat hd
    have hdlt := d.toNat_lt
    unfold encodeBig
    simp only [magBytes, hn, if_false, hm, List.getLast?_append, List.getLast?_singleton,
      Option.getD_some, List.dropLast_concat, Option.some_or]
    by_cases hbig : d.toNat ≥ 128
    · simp only [hbig, if_true]
      have hne : ¬ (init ++ [d] ++ [if z < 0 then (0x80 : UInt8) else 0x00] = [0]) := by
        intro hc; have := congrArg List.length hc; simp at this
      rw [if_neg hne]
      unfold Minimal
      simp only [List.getLast?_append, List.getLast?_singleton, Option.some_or,
        List.dropLast_concat]
      exact Or.inr ⟨d, rfl, hbig⟩
    · simp only [hbig, if_false]
      by_cases hneg : z < 0
      · simp only [hneg, if_true]
        have hor := setSign_toNat d (by omega)
        have hne : ¬ (init ++ [setSign d] = [0]) := by
          intro hc
          cases init with
          | nil => simp at hc; have := congrArg UInt8.toNat hc; simp [hor] at this
          | cons a as => have := congrArg List.length hc; simp at this
        rw [if_neg hne]
        unfold Minimal
        simp only [List.getLast?_append, List.getLast?_singleton, Option.some_or, clearSign_toNat]
        left; omega
      · simp only [hneg, if_false]
        have hne : ¬ (init ++ [d] = [0]) := by
          intro hc
          cases init with
          | nil => simp at hc; exact hd hc
          | cons a as => have := congrArg List.length hc; simp at this
        rw [if_neg hne]
        unfold Minimal
        simp only [List.getLast?_append, List.getLast?_singleton, Option.some_or, clearSign_toNat]
        left; omega

/-- `encode_bigint` is the closed-form minimal encoding -/
theorem encodeBig_eq_encodeMin (z : Int) : encodeBig z = encodeMin z := by
  have h := encodeMin_value_of_minimal (encodeBig z) (encodeBig_minimal z)
  rw [← decodeBig_eq_value, decode_encode] at h
  exact h.symm

/-- re-encoding the value of a minimal string gives the string back -/
theorem encode_decode_of_minimal (s : Bytes) (h : Minimal s) : encodeBig (decodeBig s) = s := by
  rw [encodeBig_eq_encodeMin, decodeBig_eq_value]; exact encodeMin_value_of_minimal s h

theorem minimal_unique (s t : Bytes) (hs : Minimal s) (ht : Minimal t)
    (h : decodeBig s = decodeBig t) : s = t := by
  rw [← encode_decode_of_minimal s hs, ← encode_decode_of_minimal t ht, h]

theorem decodeNum_small (s : Bytes) (h : s.length ≤ 4) : decodeNum s = .ok (decodeBig s) := by
  unfold decodeNum decodeBig
  cases s.getLast? with
  | none => rfl
  | some last => simp only [h, if_true]

theorem leToNat_eq_zero_iff (l : Bytes) : leToNat l = 0 ↔ ∀ b ∈ l, b = 0 := by
  induction l with
  | nil => simp [leToNat]
  | cons x xs ih =>
    simp only [leToNat, List.mem_cons, forall_eq_or_imp]
    constructor
    · intro h
      have h1 : x.toNat = 0 := by omega
      have h2 : leToNat xs = 0 := by omega
      exact ⟨UInt8.toNat_inj.mp (by simpa using h1), ih.mp h2⟩
    · rintro ⟨rfl, h2⟩
      have := ih.mpr h2
      simp [this]

/-- `decode_bool` is "the numeric value is non-zero" -/
theorem decodeBool_iff (s : Bytes) : decodeBool s = true ↔ decodeBig s ≠ 0 := by
  by_cases hs : s = []
  · subst hs; simp [decodeBool, decodeBig]
  · obtain ⟨init, d, rfl⟩ := list_snoc_of_ne_nil s hs
    have hP : 0 < 256 ^ init.length := Nat.pow_pos (by decide)
    rw [decodeBig_snoc]
    unfold decodeBool
    simp only [List.getLast?_append, List.getLast?_singleton, Option.some_or, List.dropLast_concat,
      Bool.or_eq_true, List.any_eq_true, bne_iff_ne]
    have hc : clearSign d ≠ 0 ↔ d.toNat % 128 ≠ 0 := by
      rw [← clearSign_toNat]
      constructor
      · exact byte_ne_zero_toNat
      · intro h hc; rw [hc] at h; exact h rfl
    have hz := leToNat_eq_zero_iff init
    have hmag : (leToNat init + 256 ^ init.length * (d.toNat % 128) ≠ 0) ↔
        ((∃ x, x ∈ init ∧ x ≠ 0) ∨ clearSign d ≠ 0) := by
      rw [hc]
      constructor
      · intro h
        by_cases h0 : d.toNat % 128 = 0
        · left
          rw [h0] at h
          have : leToNat init ≠ 0 := by simpa using h
          rw [Ne, hz] at this
          simpa using this
        · right; exact h0
      · rintro (⟨x, hx, hx0⟩ | h)
        · have : leToNat init ≠ 0 := by rw [Ne, hz]; intro hall; exact hx0 (hall x hx)
          omega
        · have : 256 ^ init.length * 1 ≤ 256 ^ init.length * (d.toNat % 128) :=
            Nat.mul_le_mul_left _ (by omega)
          omega
    rw [← hmag]
    split <;> omega

theorem ofNat_congr (a b : Nat) (h : a % 256 = b % 256) : UInt8.ofNat a = UInt8.ofNat b := by
  apply UInt8.toNat_inj.mp; simpa using h

/-- `encode_num` (the 4-byte `i32` encoder) agrees with `encode_bigint` on its whole domain -/
theorem encodeNum_eq (v : Int) (h : v.natAbs ≤ 2147483647) : encodeNum v = .ok (encodeBig v) := by
  rw [encodeBig_eq_encodeMin]
  unfold encodeNum
  rw [if_neg (by omega)]
  simp only []
  by_cases h0 : v.natAbs = 0
  · have : v = 0 := by omega
    subst this; rfl
  rw [if_neg h0]
  by_cases h1 : v.natAbs < 128
  · rw [if_pos h1, encodeMin_eq v 1 (by omega) (minLen_eq _ 1 h0 (by omega) (by simpa using h1) (Or.inl rfl))]
    by_cases hn : v < 0 <;>
      simp only [hn, if_true, if_false, natToLEn, Outcome.ok.injEq, List.cons.injEq, and_true] <;>
      (apply ofNat_congr; omega)
  rw [if_neg h1]
  by_cases h2 : v.natAbs < 32768
  · rw [if_pos h2, encodeMin_eq v 2 (by omega) (minLen_eq _ 2 h0 (by omega) (by simpa using h2) (Or.inr (by simp; omega)))]
    by_cases hn : v < 0 <;>
      simp only [hn, if_true, if_false, natToLEn, Outcome.ok.injEq, List.cons.injEq, and_true] <;>
      (repeat' apply And.intro) <;> (apply ofNat_congr; omega)
  rw [if_neg h2]
  by_cases h3 : v.natAbs < 8388608
  · rw [if_pos h3, encodeMin_eq v 3 (by omega) (minLen_eq _ 3 h0 (by omega) (by simpa using h3) (Or.inr (by simp; omega)))]
    by_cases hn : v < 0 <;>
      simp only [hn, if_true, if_false, natToLEn, Outcome.ok.injEq, List.cons.injEq, and_true] <;>
      (repeat' apply And.intro) <;> (apply ofNat_congr; omega)
  rw [if_neg h3]
  rw [encodeMin_eq v 4 (by omega) (minLen_eq _ 4 h0 (by omega) (by simp; omega) (Or.inr (by simp; omega)))]
  by_cases hn : v < 0 <;>
    simp only [hn, if_true, if_false, natToLEn, Outcome.ok.injEq, List.cons.injEq, and_true] <;>
    (repeat' apply And.intro) <;> (apply ofNat_congr; omega)

end CG.Proofs.ScriptNum
